package c06

import (
	"fmt"
	"go/types"
	"strings"

	"golang.org/x/tools/go/ssa"

	"polycheck/ssau"
)

// GLB constants from the glTF 2.0 specification (section 4.4, "GLB File Format").
const (
	glbMagic   = 0x46546C67
	glbVersion = 2
	glbJSON    = 0x4E4F534A
	glbBIN     = 0x004E4942
	glbPadJSON = 0x20
	glbPadBIN  = 0x00
)

func numConst(v AV) (int64, bool) {
	n, ok := v.(Num)
	if !ok {
		return 0, false
	}
	return n.P.constVal()
}

// isLoadOfWriterField: v is *(&X.field) with X of Writer type.
func (w *world) isLoadOfWriterField(v ssa.Value, f *types.Var) bool {
	u, ok := v.(*ssa.UnOp)
	if !ok {
		return false
	}
	fa, ok := u.X.(*ssa.FieldAddr)
	return ok && ssau.FieldOf(fa) == f && w.isWriterType(fa.X.Type())
}

// ruleGLB: GLB-1 on the GLB serialiser.
func (w *world) ruleGLB(a *agg, stats *counters) {
	roots := w.glbFunctions(w.fns)
	if len(roots) == 0 {
		if fn := w.c.P.Func(gltfRel, "Writer.WriteGLB"); fn != nil {
			roots = append(roots, fn)
		} else {
			w.c.R.Failf("anchor: no function in %s writes the GLB magic to an io.Writer, and Writer.WriteGLB does not exist", gltfRel)
		}
	}
	roots = append(roots, w.glbFunctions(w.ctl)...)
	for _, fn := range roots {
		w.checkGLB(a, fn, stats)
	}
	w.c.R.Floor("GLB-1", 6)
}

// glbFunctions: functions that hand the GLB magic number to a byte sink (the GLB serialisers).
func (w *world) glbFunctions(among []*ssa.Function) []*ssa.Function {
	var out []*ssa.Function
	for _, fn := range among {
		found := false
		ssau.AllInstrs(fn, func(in ssa.Instruction) {
			call, ok := in.(ssa.CallInstruction)
			if !ok || !isSinkPrimitive(call) {
				return
			}
			for _, arg := range call.Common().Args {
				if c, ok := ssau.ConstInt(stripConv(arg)); ok && c == glbMagic {
					found = true
				}
			}
		})
		if found || strings.Contains(fn.Name(), "verifControlGLB") {
			out = append(out, fn)
		}
	}
	return out
}

func (w *world) checkGLB(a *agg, fn *ssa.Function, stats *counters) {
	P := w.c.P
	fname := P.FuncName(fn)
	cfg := w.execConfig()
	var outParam *ssa.Parameter
	for _, p := range fn.Params {
		if it, ok := p.Type().Underlying().(*types.Interface); ok && it.NumMethods() > 0 {
			for i := 0; i < it.NumMethods(); i++ {
				if it.Method(i).Name() == "Write" {
					outParam = p
				}
			}
		}
	}
	if outParam == nil {
		a.undecide("GLB-1", fname, P.Pos(fn.Pos()), "no io.Writer parameter found")
		return
	}
	cfg.ParamSink[outParam] = "out"
	x := NewExec(cfg)
	res := x.Run(fn)
	stats.roots++
	stats.cases++
	stats.paths += len(res)
	stats.steps += x.steps
	if x.aborted != "" {
		a.undecide("GLB-1", fname, P.Pos(fn.Pos()), "symbolic execution gave up: "+x.aborted)
		return
	}
	// byte order of everything written by this function
	endOK, endSeen := true, 0
	var endPos string
	ssau.AllInstrs(fn, func(in ssa.Instruction) {
		call, ok := in.(*ssa.Call)
		if !ok {
			return
		}
		obj := ssau.CalleeObj(call)
		switch {
		case ssau.IsFunc(obj, bitlibPath, "NewWriter") && len(call.Common().Args) == 2:
			endSeen++
			if !isLittleEndian(call.Common().Args[1]) {
				endOK, endPos = false, P.Pos(call.Pos())
			}
		case ssau.IsFunc(obj, "encoding/binary", "Write") && len(call.Common().Args) == 3:
			endSeen++
			if !isLittleEndian(call.Common().Args[1]) {
				endOK, endPos = false, P.Pos(call.Pos())
			}
		}
	})
	if endSeen > 0 {
		if endOK {
			a.hold("GLB-1", fname+"#endianness", P.Pos(fn.Pos()), "all multi-byte fields little-endian")
		} else {
			a.violate("GLB-1", fname+"#endianness", endPos, "GLB header and chunk fields must be little-endian")
		}
	}
	full := 0
	for _, r := range res {
		if r.Kind != "return" {
			continue
		}
		st := r.St
		var evs []Event
		payloadTouched := false
		for _, e := range st.events {
			if e.Kind == "write" && e.Sink == "out" {
				evs = append(evs, e)
			}
			if e.Kind == "write" && e.Sink == "payload" {
				payloadTouched = true
			}
		}
		if payloadTouched {
			a.violate("GLB-1", fname+"#payload", P.Pos(fn.Pos()), "the serialiser appends to the payload buffer it is serialising")
		}
		if len(st.imprecise) > 0 {
			a.undecide("GLB-1", fname, P.Pos(fn.Pos()), "output not expressible: "+strings.Join(st.imprecise, "; "))
			continue
		}
		if len(evs) == 0 {
			continue // error exit before anything is written
		}
		full++
		pos := func(e Event) string { return P.Pos(ssau.PosOf(e.Instr)) }
		isU32 := func(e Event) bool {
			b, ok := e.Bytes.constVal()
			m, ok2 := e.Mult.constVal()
			return ok && ok2 && b == 4 && m == 1 && (e.Wire == "u32" || e.Wire == "i32")
		}
		if len(evs) < 5 || !isU32(evs[0]) || !isU32(evs[1]) || !isU32(evs[2]) {
			a.violate("GLB-1", fname+"#header", pos(evs[0]), "the output does not start with the 12-byte GLB header (three little-endian uint32)")
			continue
		}
		if c, ok := numConst(evs[0].Val); !ok || c != glbMagic {
			a.violate("GLB-1", fname+"#magic", pos(evs[0]), fmt.Sprintf("magic must be 0x46546C67 (\"glTF\"), the code writes %s", evs[0].Val.avKey()))
		} else {
			a.hold("GLB-1", fname+"#magic", pos(evs[0]), "0x46546C67")
		}
		if c, ok := numConst(evs[1].Val); !ok || c != glbVersion {
			a.violate("GLB-1", fname+"#version", pos(evs[1]), fmt.Sprintf("container version must be 2, the code writes %s", evs[1].Val.avKey()))
		} else {
			a.hold("GLB-1", fname+"#version", pos(evs[1]), "2")
		}
		total, okTotal := evs[2].Val.(Num)
		// chunks
		isHdr := func(i int) (int64, bool) {
			if i+1 >= len(evs) || !isU32(evs[i]) || !isU32(evs[i+1]) {
				return 0, false
			}
			c, ok := numConst(evs[i+1].Val)
			if !ok || (c != glbJSON && c != glbBIN) {
				return 0, false
			}
			return c, true
		}
		sum := pconst(12)
		var kinds []string
		i := 3
		okParse := true
		for i < len(evs) {
			typ, ok := isHdr(i)
			if !ok {
				msg := "expected a chunk header (uint32 length, uint32 type JSON/BIN) at this point of the output"
				if i+1 < len(evs) && isU32(evs[i]) && isU32(evs[i+1]) {
					if c, isC := numConst(evs[i+1].Val); isC {
						msg = fmt.Sprintf("chunk type 0x%08X is neither JSON (0x4E4F534A) nor BIN (0x004E4942)", c)
					}
				}
				a.violate("GLB-1", fname+"#chunk", pos(evs[i]), msg)
				okParse = false
				break
			}
			name, pad := "JSON", int64(glbPadJSON)
			if typ == glbBIN {
				name, pad = "BIN", glbPadBIN
			}
			kinds = append(kinds, name)
			ckey := fname + "#chunk[" + name + "]"
			j := i + 2
			payload := Poly{}
			first := true
			bad := false
			for j < len(evs) {
				if _, hdr := isHdr(j); hdr {
					break
				}
				if j+1 < len(evs) && isU32(evs[j]) && isU32(evs[j+1]) {
					if _, isC := numConst(evs[j+1].Val); isC {
						break // a header-shaped pair with an unknown type: reported by the caller
					}
				}
				e := evs[j]
				if first {
					first = false
					if e.Wire != "raw" {
						a.violate("GLB-1", ckey, pos(e), "chunk data is not written as one byte slice")
						bad = true
					} else if !w.chunkSource(e, name) {
						src := "the result of json.Marshal"
						if name == "BIN" {
							src = "w.buf.Bytes()"
						}
						a.violate("GLB-1", ckey, pos(e), "chunk data is not "+src)
						bad = true
					}
				} else {
					c, ok := numConst(e.Val)
					b, okb := e.Bytes.constVal()
					if e.Wire != "u8" || !okb || b != 1 || !ok || c != pad {
						a.violate("GLB-1", ckey, pos(e), fmt.Sprintf("trailing bytes of the %s chunk must be padding bytes 0x%02X; the code writes %s as %s", name, pad, e.Val.avKey(), e.Wire))
						bad = true
					}
				}
				payload = payload.add(e.Bytes.mul(e.Mult))
				j++
			}
			if first {
				a.violate("GLB-1", ckey, pos(evs[i]), "chunk header without data")
				bad = true
			}
			ln, okL := evs[i].Val.(Num)
			switch {
			case bad:
			case !okL:
				a.undecide("GLB-1", ckey, pos(evs[i]), "chunk length is not an integer expression the rule can read")
			case !st.zeroUnderFacts(ln.P.sub(payload)):
				a.violate("GLB-1", ckey, pos(evs[i]), fmt.Sprintf("chunk length field = %s but the chunk's bytes (data + padding) = %s", ln.P, payload))
			default:
				if ok, counter := x.syms.divisibleBy(payload, 4); !ok {
					a.violate("GLB-1", ckey, pos(evs[i]), fmt.Sprintf("chunk size %s is not a multiple of 4 (term %s): the next chunk / end of file is misaligned", payload, counter))
				} else {
					a.hold("GLB-1", ckey, pos(evs[i]), "length field = data + padding = "+payload.String(), "≡ 0 (mod 4)", fmt.Sprintf("padding byte 0x%02X", pad))
				}
			}
			sum = sum.add(pconst(8)).add(payload)
			i = j
		}
		if !okParse {
			continue
		}
		shape := strings.Join(kinds, "+")
		if shape != "JSON" && shape != "JSON+BIN" {
			a.violate("GLB-1", fname+"#order", pos(evs[3]), "chunks written in the order "+shape+"; GLB requires exactly one JSON chunk first, then at most one BIN chunk")
		} else {
			a.hold("GLB-1", fname+"#order", pos(evs[3]), shape)
		}
		tkey := fname + "#total[" + shape + "]"
		switch {
		case !okTotal:
			a.undecide("GLB-1", tkey, pos(evs[2]), "total length is not an integer expression the rule can read")
		case !st.zeroUnderFacts(total.P.sub(sum)):
			a.violate("GLB-1", tkey, pos(evs[2]), fmt.Sprintf("header length = %s but the bytes written on this path = %s", total.P, sum))
		default:
			a.hold("GLB-1", tkey, pos(evs[2]), "header length = "+total.P.String(), "bytes written = "+sum.String())
		}
	}
	if full == 0 {
		a.undecide("GLB-1", fname, P.Pos(fn.Pos()), "no path writes any output")
	}
}

// chunkSource checks where the main data of a chunk comes from.
func (w *world) chunkSource(e Event, kind string) bool {
	v := e.ValV
	for {
		switch x := v.(type) {
		case *ssa.ChangeType:
			v = x.X
			continue
		case *ssa.Convert:
			v = x.X
			continue
		}
		break
	}
	switch kind {
	case "JSON":
		ex, ok := v.(*ssa.Extract)
		if !ok || ex.Index != 0 {
			return false
		}
		call, ok := ex.Tuple.(*ssa.Call)
		if !ok {
			return false
		}
		obj := ssau.CalleeObj(call)
		return obj != nil && obj.Pkg() != nil && obj.Pkg().Path() == "encoding/json" && (obj.Name() == "Marshal" || obj.Name() == "MarshalIndent")
	case "BIN":
		call, ok := v.(*ssa.Call)
		if !ok {
			return false
		}
		obj := ssau.CalleeObj(call)
		if obj == nil || !ssau.IsMethod(obj, "bytes", "Buffer", "Bytes") || len(call.Common().Args) == 0 {
			return false
		}
		return w.isLoadOfWriterField(call.Common().Args[0], w.field["buf"])
	}
	return false
}
