package c06

import (
	"fmt"
	"go/token"
	"go/types"

	"golang.org/x/tools/go/ssa"

	"polycheck/ssau"
)

// isTRSList: []trs.TRS
func isTRSList(t types.Type) bool {
	sl, ok := t.Underlying().(*types.Slice)
	if !ok {
		return false
	}
	n := ssau.NamedOf(sl.Elem())
	return n != nil && n.Obj().Pkg() != nil && n.Obj().Pkg().Path() == trsPath && n.Obj().Name() == "TRS"
}

// lenInterval: which lengths n of the instance list satisfy the condition with the given polarity.
// Returns lo, hi (hi<0 = unbounded).
func lenInterval(ec edgeCond, isList func(ssa.Value) bool) (lo, hi int64, ok bool) {
	c := ec.cond
	pos := ec.pos
	for {
		if n, isNot := c.(*ssa.UnOp); isNot && n.Op == token.NOT {
			c, pos = n.X, !pos
			continue
		}
		break
	}
	bo, isB := c.(*ssa.BinOp)
	if !isB {
		return 0, 0, false
	}
	op := bo.Op
	lenSide, constSide := bo.X, bo.Y
	if _, isC := ssau.ConstInt(lenSide); isC {
		lenSide, constSide = bo.Y, bo.X
		switch op {
		case token.LSS:
			op = token.GTR
		case token.LEQ:
			op = token.GEQ
		case token.GTR:
			op = token.LSS
		case token.GEQ:
			op = token.LEQ
		}
	}
	k, isC := ssau.ConstInt(constSide)
	lc, isCall := lenSide.(*ssa.Call)
	if !isC || !isCall || ssau.Builtin(lc) != "len" || !isList(lc.Common().Args[0]) {
		return 0, 0, false
	}
	if !pos {
		op = negOp(op)
	}
	switch op {
	case token.GTR:
		return k + 1, -1, true
	case token.GEQ:
		return k, -1, true
	case token.LSS:
		return 0, k - 1, true
	case token.LEQ:
		return 0, k, true
	case token.EQL:
		return k, k, true
	case token.NEQ:
		if k <= 0 {
			return 1, -1, true // n != 0  <=>  n >= 1 for lengths
		}
	}
	return 0, 0, false
}

// ruleInst: INST-1. The GPU-instancing block is emitted exactly when the model has instances, every
// instance reaches the three accessors element-wise, and the node's own TRS does not depend on it.
// The per-instance arrays are judged wherever they are built (the block may live in a helper or method
// that receives the list), the guard where the block is emitted plus at the call sites of such a helper.
func (w *world) ruleInst(a *agg) {
	P := w.c.P
	gpuObj := w.tpkg.Scope().Lookup("ExtGpuInstancing")
	nodeObj := w.tpkg.Scope().Lookup("Node")
	if gpuObj == nil {
		return
	}
	isGpu := func(t types.Type) bool {
		n := ssau.NamedOf(t)
		return n != nil && n.Obj() == gpuObj
	}
	checkedCallers := map[*ssa.Function]bool{}
	for _, fn := range w.all {
		fname := P.FuncName(fn)
		// emission site: a value of type ExtGpuInstancing stored into a map[string]any
		var emits []*ssa.MapUpdate
		ssau.AllInstrs(fn, func(in ssa.Instruction) {
			mu, ok := in.(*ssa.MapUpdate)
			if !ok || !isStringAnyMap(mu.Map.Type()) {
				return
			}
			if mi, ok := mu.Value.(*ssa.MakeInterface); ok && isGpu(mi.X.Type()) {
				emits = append(emits, mu)
			}
		})
		// the instance list of this function: values of type []trs.TRS (field loads or parameters)
		isList := func(v ssa.Value) bool { return isTRSList(v.Type()) }
		for _, mu := range emits {
			construct := fname + "#instancing-guard"
			pos := P.Pos(ssau.PosOf(mu))
			lo, hi := int64(0), int64(-1)
			seen := 0
			apply := func(ecs []edgeCond) {
				for _, ec := range ecs {
					l, h, ok := lenInterval(ec, isList)
					if !ok {
						continue
					}
					seen++
					if l > lo {
						lo = l
					}
					if h >= 0 && (hi < 0 || h < hi) {
						hi = h
					}
				}
			}
			apply(edgeConds(mu.Block()))
			// a helper that receives the list: the guards at its call sites count too (all sites must agree)
			listIsParam := false
			for _, p := range fn.Params {
				if isTRSList(p.Type()) {
					listIsParam = true
				}
			}
			if listIsParam {
				within := w.fns
				if P.IsControl(fn.Pos()) {
					within = w.all
				}
				sites := w.callSites(fn, within)
				if len(sites) > 0 {
					slo, shi := int64(-1), int64(-1)
					for i, s := range sites {
						l, h := int64(0), int64(-1)
						for _, ec := range edgeConds(s.Block()) {
							if cl, ch, ok := lenInterval(ec, isList); ok {
								seen++
								if cl > l {
									l = cl
								}
								if ch >= 0 && (h < 0 || ch < h) {
									h = ch
								}
							}
						}
						// the weakest site decides what can reach the helper … and the strongest what is excluded:
						// every site must admit exactly n>=1 together with the helper's own guard, so combine per site
						if i == 0 || l > slo {
							slo = l
						}
						if h >= 0 && (shi < 0 || h < shi) {
							shi = h
						}
					}
					if slo > lo {
						lo = slo
					}
					if shi >= 0 && (hi < 0 || shi < hi) {
						hi = shi
					}
				}
			}
			switch {
			case seen == 0:
				a.violate("INST-1", construct, pos, "the instancing block is emitted without any test of the instance count: a model without instances gets an empty EXT_mesh_gpu_instancing (nothing is drawn)")
			case lo > 1 || hi >= 0:
				bound := fmt.Sprintf("n ≥ %d", lo)
				if hi >= 0 {
					bound = fmt.Sprintf("%d ≤ n ≤ %d", lo, hi)
				}
				a.violate("INST-1", construct, pos, fmt.Sprintf("the instancing block is emitted only for %s instances: a model whose instance count is ≥ 1 but outside that range loses EXT_mesh_gpu_instancing, i.e. its instance transforms are dropped", bound))
			case lo < 1:
				a.violate("INST-1", construct, pos, "the guard admits an empty instance list: an empty EXT_mesh_gpu_instancing block (accessors with count 0) is emitted")
			default:
				a.hold("INST-1", construct, pos, "emitted exactly when len(instances) ≥ 1")
			}
		}
		// element-wise: every slice handed to a payload write after an instancing capture has len(list) elements and
		// element i is computed from list[i] with i running over the whole list
		ssau.AllInstrs(fn, func(in ssa.Instruction) {
			ms, ok := in.(*ssa.MakeSlice)
			if !ok {
				return
			}
			// feeds a payload write?
			feeds := false
			backFrom := func(v ssa.Value) bool {
				hit := false
				backSlice(v, func(x ssa.Value) bool {
					if x == ssa.Value(ms) {
						hit = true
						return false
					}
					return true
				})
				return hit
			}
			ssau.AllInstrs(fn, func(in2 ssa.Instruction) {
				c, ok := in2.(*ssa.Call)
				if !ok || feeds {
					return
				}
				if cal := c.Common().StaticCallee(); cal != nil && w.scan[cal] != nil && (w.isSync(cal) || w.reachesSync(cal)) {
					for _, arg := range c.Common().Args {
						if backFrom(arg) {
							feeds = true
						}
					}
				}
			})
			if !feeds {
				return
			}
			// named after the TRS accessor(s) that fill it
			src := map[string]bool{}
			for _, r := range ssau.Refs(ms) {
				if ia, ok := r.(*ssa.IndexAddr); ok {
					for _, rr := range ssau.Refs(ia) {
						if st, ok := rr.(*ssa.Store); ok && st.Addr == ia {
							backSlice(st.Val, func(x ssa.Value) bool {
								if c, ok := x.(*ssa.Call); ok {
									if o := ssau.CalleeObj(c); o != nil && o.Pkg() != nil && o.Pkg().Path() == trsPath && ssau.RecvNamed(o) != nil {
										src[o.Name()] = true
										return false
									}
								}
								return true
							})
						}
					}
				}
			}
			if len(src) == 0 {
				return // not per-instance data
			}
			construct := fmt.Sprintf("%s#instance-data[%s]", fname, setString(src))
			pos := P.Pos(ssau.PosOf(ms))
			lc, ok := ms.Len.(*ssa.Call)
			if !ok || ssau.Builtin(lc) != "len" || !isList(lc.Common().Args[0]) {
				a.violate("INST-1", construct, pos, "the per-instance array is not allocated with len(instances) elements: instances are dropped or zero transforms added")
				return
			}
			list := lc.Common().Args[0]
			stores := 0
			bad := ""
			for _, r := range ssau.Refs(ms) {
				ia, ok := r.(*ssa.IndexAddr)
				if !ok {
					continue
				}
				for _, rr := range ssau.Refs(ia) {
					st, ok := rr.(*ssa.Store)
					if !ok || st.Addr != ia {
						continue
					}
					stores++
					if !w.fullRangeIndex(ia.Index, list) {
						bad = "the index written does not run over 0…len(instances)-1"
						continue
					}
					// the value comes from the element at the same index
					same := false
					backSlice(st.Val, func(x ssa.Value) bool {
						if xa, ok := x.(*ssa.IndexAddr); ok && xa.Index == ia.Index && w.sameValue(xa.X, list) {
							same = true
							return false
						}
						return true
					})
					if !same {
						bad = "element i of the per-instance array is not computed from instance i"
					}
				}
			}
			// built in a helper that receives the list: no call site may exclude a non-empty list
			if lp, isParam := stripChange(list).(*ssa.Parameter); isParam && !checkedCallers[fn] {
				checkedCallers[fn] = true
				pi := -1
				for i, p := range fn.Params {
					if p == lp {
						pi = i
					}
				}
				within := w.fns
				if P.IsControl(fn.Pos()) {
					within = w.all
				}
				for _, site := range w.callSites(fn, within) {
					if pi < 0 || pi >= len(site.Common().Args) {
						continue
					}
					arg := site.Common().Args[pi]
					clo, chi := int64(0), int64(-1)
					for _, ec := range edgeConds(site.Block()) {
						l, h, ok := lenInterval(ec, func(v ssa.Value) bool { return isTRSList(v.Type()) && w.sameValue(v, arg) })
						if !ok {
							continue
						}
						if l > clo {
							clo = l
						}
						if h >= 0 && (chi < 0 || h < chi) {
							chi = h
						}
					}
					cc := fmt.Sprintf("%s→%s#instance-data-call", P.FuncName(site.Parent()), fn.Name())
					if clo > 1 || chi >= 0 {
						a.violate("INST-1", cc, P.Pos(site.Pos()), fmt.Sprintf("the per-instance data is built only for instance counts n ≥ %d%s: a non-empty list outside that range gets no (or empty) instance accessors", clo, map[bool]string{true: fmt.Sprintf(" and n ≤ %d", chi), false: ""}[chi >= 0]))
					} else {
						a.hold("INST-1", cc, P.Pos(site.Pos()), "called for every non-empty instance list")
					}
				}
			}
			switch {
			case stores == 0:
				a.violate("INST-1", construct, pos, "the per-instance array is never filled")
			case bad != "":
				a.violate("INST-1", construct, pos, bad)
			default:
				a.hold("INST-1", construct, pos, "len(instances) elements, element i from instance i, i over the whole list")
			}
		})
		// the node's own TRS does not depend on the instance count (in the function that emits the block)
		if nodeObj != nil && len(emits) > 0 {
			ssau.AllInstrs(fn, func(in ssa.Instruction) {
				st, ok := in.(*ssa.Store)
				if !ok {
					return
				}
				fa, ok := st.Addr.(*ssa.FieldAddr)
				if !ok {
					return
				}
				if n := ssau.NamedOf(fa.X.Type()); n == nil || n.Obj() != nodeObj {
					return
				}
				f := ssau.FieldOf(fa)
				if f == nil || (f.Name() != "Translation" && f.Name() != "Rotation" && f.Name() != "Scale") {
					return
				}
				construct := fmt.Sprintf("%s#Node.%s-independent", fname, f.Name())
				for _, ec := range edgeConds(st.Block()) {
					if _, _, ok := lenInterval(ec, isList); ok {
						a.violate("INST-1", construct, P.Pos(ssau.PosOf(st)), "the node's own "+f.Name()+" is set only for some instance counts: on the other paths the model's transform is lost")
						return
					}
				}
				a.hold("INST-1", construct, P.Pos(ssau.PosOf(st)), "set independently of the instance count")
			})
		}
	}
	w.c.R.Floor("INST-1", 3)
}

// fullRangeIndex: idx is the induction value of a loop that runs 0…len(list)-1 (range or counted form).
func (w *world) fullRangeIndex(idx ssa.Value, list ssa.Value) bool {
	var phi *ssa.Phi
	offset := int64(0)
	switch x := idx.(type) {
	case *ssa.Phi:
		phi = x
	case *ssa.BinOp:
		if p, ok := x.X.(*ssa.Phi); ok && x.Op == token.ADD {
			if c, ok := ssau.ConstInt(x.Y); ok {
				phi, offset = p, c
			}
		}
	}
	if phi == nil {
		return false
	}
	// start value: init + offset == 0, step +1
	initOK, stepOK := false, false
	for _, e := range phi.Edges {
		if c, ok := ssau.ConstInt(e); ok {
			if c+offset == 0 {
				initOK = true
			}
			continue
		}
		if bo, ok := e.(*ssa.BinOp); ok && bo.Op == token.ADD && bo.X == ssa.Value(phi) {
			if c, ok := ssau.ConstInt(bo.Y); ok && c == 1 {
				stepOK = true
			}
		}
	}
	if !initOK || !stepOK {
		return false
	}
	// bound: header compares (idx) < len(list)
	ifi, ok := phi.Block().Instrs[len(phi.Block().Instrs)-1].(*ssa.If)
	if !ok {
		return false
	}
	bo, ok := ifi.Cond.(*ssa.BinOp)
	if !ok || bo.Op != token.LSS {
		return false
	}
	if bo.X != idx && !(offset == 0 && bo.X == ssa.Value(phi)) {
		return false
	}
	lc, ok := bo.Y.(*ssa.Call)
	if !ok || ssau.Builtin(lc) != "len" {
		return false
	}
	return w.sameValue(lc.Common().Args[0], list)
}
