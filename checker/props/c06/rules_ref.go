package c06

import (
	"fmt"
	"go/token"
	"go/types"
	"sort"
	"strings"

	"golang.org/x/tools/go/ssa"

	"polycheck/ssau"
)

// tables: Writer fields whose type is a package-level named map/slice type (the dedup trackers).
func (w *world) tables() map[*types.Var]bool {
	out := map[*types.Var]bool{}
	for i := 0; i < w.wstruct.NumFields(); i++ {
		f := w.wstruct.Field(i)
		n, ok := types.Unalias(f.Type()).(*types.Named)
		if !ok || n.Obj().Pkg() != w.tpkg {
			continue
		}
		switch n.Underlying().(type) {
		case *types.Map, *types.Slice:
			out[f] = true
		}
	}
	return out
}

type capture struct {
	v     Poly
	rule  string
	sink  string
	pos   string
	instr ssa.Instruction
}

// walkNums visits every integer reachable from av (through structs, pointers into
// modelled memory and small modelled arrays), reading memory as it is at the end of the path.
func walkNums(st *State, av AV, depth int, visit func(Poly)) {
	if depth > 6 || av == nil {
		return
	}
	switch v := av.(type) {
	case Num:
		visit(v.P)
	case Ptr:
		if v.Obj.Opaque {
			return
		}
		t, fld := typeAtPath(v.Obj.T, v.Path)
		if t != nil {
			walkNums(st, st.mem.read(v.Obj, v.Path, t, fld), depth+1, visit)
		}
	case StructV:
		for _, f := range v.F {
			walkNums(st, f, depth+1, visit)
		}
	case Tuple:
		for _, f := range v.E {
			walkNums(st, f, depth+1, visit)
		}
	case SliceV:
		if v.Arr != nil && !v.Arr.Opaque {
			if n, ok := v.Len.constVal(); ok && n <= 32 {
				if sl, ok := v.T.Underlying().(*types.Slice); v.T != nil && ok {
					for i := int64(0); i < n; i++ {
						walkNums(st, st.mem.read(v.Arr, fmt.Sprintf("[%d]", i), sl.Elem(), nil), depth+1, visit)
					}
				}
			}
		}
	}
}

// lenSymField extracts "X" from a symbol "len(<extern>.X)" or "len(<extern>.X@n)".
func lenSymField(sym string, externs map[string]bool) (string, bool) {
	if !strings.HasPrefix(sym, "len(") || !strings.HasSuffix(sym, ")") {
		return "", false
	}
	in := sym[4 : len(sym)-1]
	dot := strings.IndexByte(in, '.')
	if dot < 0 || !externs[in[:dot]] {
		return "", false
	}
	name := in[dot+1:]
	if at := strings.IndexByte(name, '@'); at >= 0 {
		name = name[:at]
	}
	if strings.ContainsAny(name, ".[(") {
		return "", false
	}
	return name, true
}

// ruleRef: REF-1 / DEDUP-1(a,b). An index derived from len(w.X) that is stored,
// recorded in a dedup table or returned is the position of an element appended to
// w.X on the same path.
func (w *world) ruleRef(a *agg, stats *counters) {
	P := w.c.P
	tables := w.tables()
	rg := newRanger(w)
	lists := w.indexListFields()
	if len(tables) < 3 {
		w.c.R.Failf("vacuity: only %d dedup tracker fields (named map/slice types) found on Writer, expected ≥ 3", len(tables))
	}
	for _, fn := range w.all {
		if fn.Blocks == nil || !w.hasWriterParam(fn) || w.rawWriter(fn) {
			continue
		}
		// cheap pre-filter: the function (not its callees) takes len() of a Writer slice field
		if !w.readsLenOfWriterField(fn) && (w.scan[fn] == nil || len(w.scan[fn].stores) == 0) {
			continue
		}
		fname := P.FuncName(fn)
		cfg := w.execConfig()
		x := NewExec(cfg)
		res := x.Run(fn)
		stats.roots++
		stats.cases++
		stats.paths += len(res)
		stats.steps += x.steps
		if x.aborted != "" {
			a.undecide("REF-1", fname, P.Pos(fn.Pos()), "symbolic execution gave up: "+x.aborted)
			continue
		}
		// fields this function grows on some path (a function that never grows w.X and returns
		// len(w.X) reports a count, not a reference)
		grows := map[string]bool{}
		for _, r := range res {
			for _, e := range r.St.events {
				switch e.Kind {
				case "append", "overwrite":
					if e.Field != nil {
						grows[e.Field.Name()] = true
					}
				case "call":
					for _, ch := range e.Changes {
						grows[ch.Field.Name()] = true
					}
				}
			}
		}
		var shapes []keyShape
		pairTX := map[string]string{} // slice field name -> table field name
		type pathFacts struct {
			appends map[string]string // slice field -> pos
			appPos  map[string]Poly   // slice field -> position of the appended element
			inserts map[string]bool   // table field
			recVals []Poly            // integers recorded in any map / tracker field of the writer on this path
		}
		var pfs []pathFacts
		for _, r := range res {
			if r.Kind == "panic" {
				continue
			}
			st := r.St
			if r.Kind == "return" {
				pf := pathFacts{appends: map[string]string{}, appPos: map[string]Poly{}, inserts: map[string]bool{}}
				for _, e := range st.events {
					if e.Depth != 0 {
						continue
					}
					switch e.Kind {
					case "append":
						if tables[e.Field] {
							pf.inserts[e.Field.Name()] = true
							for _, el := range e.Elems {
								walkNums(st, el, 0, func(p Poly) { pf.recVals = append(pf.recVals, p) })
							}
						} else if e.Field != nil {
							pf.appends[e.Field.Name()] = P.Pos(ssau.PosOf(e.Instr))
							pf.appPos[e.Field.Name()] = e.LenOld
						}
					case "mapupdate":
						if m, ok := e.Map.(MapV); ok && m.Org != nil && m.Org.Obj.Extern {
							if tables[m.Org.Field] {
								pf.inserts[m.Org.Field.Name()] = true
							}
							walkNums(st, e.New, 0, func(p Poly) { pf.recVals = append(pf.recVals, p) })
						}
					}
				}
				pfs = append(pfs, pf)
			}
			w.collectKeyShapes(x, r, tables, &shapes)
			w.checkEmittedIndices(a, rg, x, r, fname)
			w.checkIndexProvenance(a, rg, x, r, fname, lists)
			w.checkPrimitiveMode(a, x, r, fn, fname)
			var caps []capture
			add := func(av AV, rule, sink string, in ssa.Instruction) {
				walkNums(st, av, 0, func(p Poly) {
					for _, s := range p.symbols() {
						if _, ok := lenSymField(s, x.externs); ok {
							caps = append(caps, capture{v: p, rule: rule, sink: sink, pos: P.Pos(ssau.PosOf(in)), instr: in})
							return
						}
					}
					// an index read back from a dedup table must be used as it is
					for _, s := range p.symbols() {
						if tab := tableOfLookupSym(s, x.externs, tables); tab != "" && !p.equal(psym(s)) {
							a.violate("DEDUP-1", fmt.Sprintf("%s#lookup(Writer.%s)→%s", fname, tab, sink), P.Pos(ssau.PosOf(in)),
								fmt.Sprintf("the index found in w.%s is altered (%s) before it is used: the reference no longer names the deduplicated entry", tab, p))
							return
						}
					}
					for _, s := range p.symbols() {
						if tab := tableOfLookupSym(s, x.externs, tables); tab != "" {
							a.hold("DEDUP-1", fmt.Sprintf("%s#lookup(Writer.%s)→%s", fname, tab, sink), P.Pos(ssau.PosOf(in)), "index found in the table used unmodified")
							return
						}
					}
				})
			}
			// a path that ends at the back edge of a loop answers only for what the iteration did
			from := 0
			if r.Kind == "latch" {
				for i, e := range st.events {
					if e.Kind == "boundary" && e.What == "loop-entry" {
						from = i
					}
				}
			}
			for ei, e := range st.events {
				if e.Depth != 0 || ei < from {
					continue
				}
				switch e.Kind {
				case "mapupdate":
					if m, ok := e.Map.(MapV); ok && m.Org != nil && m.Org.Field != nil {
						if tables[m.Org.Field] {
							add(e.New, "DEDUP-1", "Writer."+m.Org.Field.Name(), e.Instr)
						} else {
							add(e.New, "REF-1", "Writer."+m.Org.Field.Name(), e.Instr)
						}
					} else {
						add(e.New, "REF-1", "mapvalue", e.Instr)
					}
				case "append":
					rule := "REF-1"
					if tables[e.Field] {
						rule = "DEDUP-1"
					}
					for _, el := range e.Elems {
						add(el, rule, "Writer."+e.Field.Name(), e.Instr)
					}
				case "overwrite":
					if e.Field != nil {
						add(e.New, "REF-1", "Writer."+e.Field.Name(), e.Instr)
					}
				case "store":
					if e.Field != nil {
						if _, isInt := e.New.(Num); isInt && e.Field == w.field["bytesWritten"] {
							continue
						}
						add(e.New, "REF-1", "Writer."+e.Field.Name(), e.Instr)
					}
				case "ostore":
					add(e.New, "REF-1", "element", e.Instr)
				}
			}
			if r.Kind == "return" {
				for _, rv := range r.Ret {
					var retIn ssa.Instruction = fn.Blocks[0].Instrs[0]
					fr := st.frames[0]
					if fr.idx < len(fr.block.Instrs) {
						retIn = fr.block.Instrs[fr.idx]
					}
					add(rv, "REF-1", "return", retIn)
				}
			}
			// two different keys of one map must not name the same freshly captured position: each
			// attribute / semantic has its own data, so one of the two references is wrong
			type mcap struct {
				key string
				v   Poly
				pos string
			}
			byMap := map[string][]mcap{}
			for ei, e := range st.events {
				if ei < from || e.Kind != "mapupdate" || e.Depth != 0 {
					continue
				}
				n, ok := e.New.(Num)
				if !ok {
					continue
				}
				isLen := false
				for _, sname := range n.P.symbols() {
					if _, ok := lenSymField(sname, x.externs); ok {
						isLen = true
					}
				}
				if !isLen {
					continue
				}
				mk := e.Map.avKey()
				for _, prev := range byMap[mk] {
					if prev.key != e.Key.avKey() && prev.v.equal(n.P) {
						fld := ""
						for _, sname := range n.P.symbols() {
							if f, ok := lenSymField(sname, x.externs); ok {
								fld = f
							}
						}
						a.violate("REF-1", fmt.Sprintf("%s#%s→shared", fname, fld), P.Pos(ssau.PosOf(e.Instr)),
							fmt.Sprintf("keys %s and %s of one map both record the index %s (captured at %s and here with nothing appended to w.%s in between): two semantics share one element, one of them does not describe the data written for it", prev.key, e.Key.avKey(), n.P, prev.pos, fld))
					}
				}
				byMap[mk] = append(byMap[mk], mcap{e.Key.avKey(), n.P, P.Pos(ssau.PosOf(e.Instr))})
			}
			for _, c := range caps {
				// V = 1·len(w.X…) + k
				var sym, fld string
				okForm := true
				for _, s := range c.v.symbols() {
					if f, ok := lenSymField(s, x.externs); ok && sym == "" {
						sym, fld = s, f
					} else {
						okForm = false
					}
				}
				construct := fmt.Sprintf("%s#%s→%s", fname, fld, c.sink)
				if c.sink == "return" && !grows[fld] {
					continue
				}
				if c.rule == "DEDUP-1" && strings.HasPrefix(c.sink, "Writer.") {
					pairTX[fld] = strings.TrimPrefix(c.sink, "Writer.")
				}
				if !okForm || c.v.t[sym] != 1 {
					a.undecide(c.rule, construct, c.pos, "index expression "+c.v.String()+" is not of the form len(w."+fld+") + constant")
					continue
				}
				covered, maybe := false, false
				how := ""
				for _, e := range st.events {
					switch e.Kind {
					case "append":
						d := c.v.sub(e.LenOld)
						k, ok := d.constVal()
						if !ok || k < 0 {
							continue
						}
						if n, isC := e.N.constVal(); isC {
							if k < n {
								covered, how = true, "appended at "+P.Pos(ssau.PosOf(e.Instr))
							}
						} else if k == 0 {
							covered, how = true, "first element of the "+e.N.String()+" appended at "+P.Pos(ssau.PosOf(e.Instr))
						}
					case "call":
						for _, ch := range e.Changes {
							d := c.v.sub(ch.Before)
							k, ok := d.constVal()
							if !ok || k < 0 {
								continue
							}
							if ch.Delta == nil {
								maybe = true
								if e.Callee != nil {
									how = e.Callee.Name() + " appends an unknown number of elements"
								}
							} else if k < *ch.Delta {
								covered = true
								if e.Callee != nil {
									how = fmt.Sprintf("%s appends %d element(s) on every path", e.Callee.Name(), *ch.Delta)
								}
							}
						}
					}
					if covered {
						break
					}
				}
				switch {
				case covered:
					a.hold(c.rule, construct, c.pos, "index "+c.v.String(), how)
				case maybe:
					a.hold(c.rule, construct, c.pos, "index "+c.v.String(), "not refuted: "+how)
				default:
					a.violate(c.rule, construct, c.pos, fmt.Sprintf("the index %s is recorded (%s) but on this path no element is appended to w.%s at that position: the reference dangles or names a different entry", c.v, c.sink, fld))
				}
			}
		}
		w.checkKeyShapes(a, rg, fname, shapes)
		// DEDUP-1(d): an entry appended to a deduplicated slice is recorded in its table on the same path
		for _, xf := range sortedKeys(pairTX) {
			tab := pairTX[xf]
			construct := fmt.Sprintf("%s#%s⇒Writer.%s", fname, xf, tab)
			okAll, where := true, ""
			n := 0
			for _, pf := range pfs {
				if pos, app := pf.appends[xf]; app {
					n++
					// recorded in the table, or — when the function splits its bookkeeping over several
					// maps — the element's position is recorded in some map of the writer
					rec := pf.inserts[tab]
					for _, v := range pf.recVals {
						if v.equal(pf.appPos[xf]) {
							rec = true
						}
					}
					if !rec {
						okAll, where = false, pos
					}
				}
			}
			if n == 0 {
				continue
			}
			if okAll {
				a.hold("DEDUP-1", construct, P.Pos(fn.Pos()), fmt.Sprintf("every path that appends to w.%s records the entry in w.%s", xf, tab))
			} else {
				a.violate("DEDUP-1", construct, where, fmt.Sprintf("a path appends an entry to w.%s without recording it in w.%s: the same model will be stored again instead of being shared", xf, tab))
			}
		}
	}
	w.dedupKeys(a, tables)
	w.c.R.Floor("REF-1", 15)
	w.c.R.Floor("DEDUP-1", 9)
	w.c.R.Floor("DEDUP-2", 2)
	w.c.R.Floor("REF-2", 8)
	w.c.R.Floor("MODE-1", 1)
}

func (w *world) readsLenOfWriterField(fn *ssa.Function) bool {
	found := false
	ssau.AllInstrs(fn, func(in ssa.Instruction) {
		call, ok := in.(*ssa.Call)
		if !ok || ssau.Builtin(call) != "len" {
			return
		}
		if u, ok := call.Common().Args[0].(*ssa.UnOp); ok {
			if fa, ok := u.X.(*ssa.FieldAddr); ok && w.isWriterType(fa.X.Type()) {
				found = true
			}
		}
	})
	return found
}

// dedupKeys: DEDUP-1(c). The key under which an entry is stored is the key that was looked up.
func (w *world) dedupKeys(a *agg, tables map[*types.Var]bool) {
	P := w.c.P
	var tabs []*types.Var
	for t := range tables {
		tabs = append(tabs, t)
	}
	sort.Slice(tabs, func(i, j int) bool { return tabs[i].Name() < tabs[j].Name() })
	for _, fn := range w.all {
		for _, tab := range tabs {
			isTab := func(v ssa.Value) bool { return w.isLoadOfWriterField(stripChange(v), tab) }
			construct := fmt.Sprintf("%s→Writer.%s#key", P.FuncName(fn), tab.Name())
			// stored keys
			var storedKeys []ssa.Value
			var at ssa.Instruction
			ssau.AllInstrs(fn, func(in ssa.Instruction) {
				switch in := in.(type) {
				case *ssa.MapUpdate:
					if isTab(in.Map) {
						storedKeys = append(storedKeys, in.Key)
						at = in
					}
				case *ssa.Store:
					fa, ok := in.Addr.(*ssa.FieldAddr)
					if !ok || ssau.FieldOf(fa) != tab || !w.isWriterType(fa.X.Type()) {
						return
					}
					call, ok := in.Val.(*ssa.Call)
					if !ok || ssau.Builtin(call) != "append" || !isTab(call.Common().Args[0]) {
						return
					}
					// fields of the appended struct literal
					for _, v := range appendedFieldValues(call.Common().Args[1]) {
						storedKeys = append(storedKeys, v)
					}
					at = in
				}
			})
			if at == nil {
				continue
			}
			pos := P.Pos(ssau.PosOf(at))
			// looked-up keys
			var looked []ssa.Value
			ssau.AllInstrs(fn, func(in ssa.Instruction) {
				switch in := in.(type) {
				case *ssa.Lookup:
					if isTab(in.X) {
						looked = append(looked, in.Index)
					}
				case *ssa.Range:
					if !isTab(in.X) {
						return
					}
					for _, r := range ssau.Refs(in) {
						nx, ok := r.(*ssa.Next)
						if !ok {
							continue
						}
						for _, rr := range ssau.Refs(nx) {
							ex, ok := rr.(*ssa.Extract)
							if !ok || ex.Index != 1 {
								continue
							}
							for _, cmp := range ssau.Refs(ex) {
								if bo, ok := cmp.(*ssa.BinOp); ok && bo.Op == token.EQL {
									if bo.X == ex {
										looked = append(looked, bo.Y)
									} else {
										looked = append(looked, bo.X)
									}
								}
							}
						}
					}
				case *ssa.Call:
					if ssau.Builtin(in) != "" {
						return
					}
					hasTab := false
					for _, arg := range in.Common().Args {
						if isTab(arg) {
							hasTab = true
						}
					}
					if hasTab {
						for _, arg := range in.Common().Args {
							if !isTab(arg) {
								looked = append(looked, arg)
							}
						}
					}
				}
			})
			if len(looked) == 0 {
				a.undecide("DEDUP-1", construct, pos, "entries are stored in the table but the function never looks the table up (lookup idiom not recognised)")
				continue
			}
			match := false
			for _, s := range storedKeys {
				for _, l := range looked {
					if w.sameValue(s, l) {
						match = true
					}
				}
			}
			if match {
				a.hold("DEDUP-1", construct, pos, "stored key = looked-up key")
			} else {
				a.violate("DEDUP-1", construct, pos, "the entry is stored under a different key than the one the table was searched for: a later lookup of the same model cannot find it (or finds another entry)")
			}
		}
	}
}

// appendedFieldValues: the values stored into the fields of the struct literal(s) that
// make up the variadic argument of an append.
func appendedFieldValues(arg ssa.Value) []ssa.Value {
	var out []ssa.Value
	sl, ok := arg.(*ssa.Slice)
	if !ok {
		return nil
	}
	arr, ok := sl.X.(*ssa.Alloc)
	if !ok {
		return nil
	}
	for _, r := range ssau.Refs(arr) {
		ia, ok := r.(*ssa.IndexAddr)
		if !ok {
			continue
		}
		for _, rr := range ssau.Refs(ia) {
			switch s := rr.(type) {
			case *ssa.Store:
				if s.Addr != ia {
					continue
				}
				// whole struct loaded from a local literal
				if u, ok := s.Val.(*ssa.UnOp); ok {
					if lit, ok := u.X.(*ssa.Alloc); ok {
						for _, lr := range ssau.Refs(lit) {
							if fa, ok := lr.(*ssa.FieldAddr); ok {
								for _, fr := range ssau.Refs(fa) {
									if st, ok := fr.(*ssa.Store); ok && st.Addr == fa {
										out = append(out, st.Val)
									}
								}
							}
						}
					}
				}
			case *ssa.FieldAddr:
				for _, fr := range ssau.Refs(s) {
					if st, ok := fr.(*ssa.Store); ok && st.Addr == s {
						out = append(out, st.Val)
					}
				}
			}
		}
	}
	return out
}

// tableOfLookupSym: the symbol names a value read from a dedup table of the writer
// ("lookup(<extern>.<table>…" possibly behind a dereference or field projection).
func tableOfLookupSym(sym string, externs map[string]bool, tables map[*types.Var]bool) string {
	i := strings.Index(sym, "lookup(")
	if i < 0 {
		return ""
	}
	rest := sym[i+len("lookup("):]
	dot := strings.IndexByte(rest, '.')
	if dot < 0 || !externs[rest[:dot]] {
		return ""
	}
	name := rest[dot+1:]
	end := strings.IndexAny(name, ",@#)")
	if end >= 0 {
		name = name[:end]
	}
	for t := range tables {
		if t.Name() == name {
			return name
		}
	}
	return ""
}
