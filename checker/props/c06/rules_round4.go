package c06

import (
	"fmt"
	"go/token"
	"go/types"
	"strings"

	"golang.org/x/tools/go/ssa"

	"polycheck/ssau"
)

// ---------------------------------------------------------------- MODE-1

// checkPrimitiveMode: MODE-1. On every path that appends an element carrying a primitive.mode slot
// (a field of the package type PrimitiveMode, by value or pointer), a constant mode (nil / a literal)
// is acceptable only if the path has tested the mesh's topology; a path that never looked at
// Mesh.Topology() and still emits a constant mode leaves point meshes to be read as triangles.
func (w *world) checkPrimitiveMode(a *agg, x *Exec, r *PathResult, fn *ssa.Function, fname string) {
	_, _ = x, fn
	st := r.St
	P := w.c.P
	pmObj := w.tpkg.Scope().Lookup("PrimitiveMode")
	if pmObj == nil {
		return
	}
	isMode := func(t types.Type) bool {
		n := ssau.NamedOf(t)
		return n != nil && n.Obj() == pmObj
	}
	// did this path learn anything about the result of Mesh.Topology()? The result of that pure call is the
	// canonical symbol "<pkg>.Mesh.Topology(<receiver>)" wherever on the path (root or an inlined helper) it was made.
	prefix := ""
	if mp := w.c.P.All[modelingPath]; mp != nil {
		if tn, ok := mp.Types.Scope().Lookup("Mesh").(*types.TypeName); ok {
			if named, ok := tn.Type().(*types.Named); ok {
				for i := 0; i < named.NumMethods(); i++ {
					if named.Method(i).Name() == "Topology" {
						if f := w.c.P.SSA.FuncValue(named.Method(i)); f != nil {
							prefix = shortFuncName(f) + "("
						}
					}
				}
			}
		}
	}
	if prefix == "" {
		return
	}
	topologyKnown := func() bool {
		for _, f := range st.pfacts {
			if f.B.base.mentions(func(q string) bool { return strings.HasPrefix(q, prefix) }) {
				return true
			}
		}
		return false
	}
	var walk func(av AV, t types.Type, slot string, depth int, visit func(av AV, slot string))
	walk = func(av AV, t types.Type, slot string, depth int, visit func(av AV, slot string)) {
		if depth > 6 || av == nil || t == nil {
			return
		}
		if isMode(t) {
			visit(av, slot)
			return
		}
		switch u := t.Underlying().(type) {
		case *types.Struct:
			sv, ok := av.(StructV)
			if !ok {
				return
			}
			for i := 0; i < u.NumFields() && i < len(sv.F); i++ {
				walk(sv.F[i], u.Field(i).Type(), slot+"."+u.Field(i).Name(), depth+1, visit)
			}
		case *types.Slice:
			sl, ok := av.(SliceV)
			if !ok || sl.Arr == nil || sl.Arr.Opaque {
				return
			}
			if n, ok := sl.Len.constVal(); ok && n <= 32 {
				for i := int64(0); i < n; i++ {
					walk(st.mem.read(sl.Arr, fmt.Sprintf("[%d]", i), u.Elem(), nil), u.Elem(), slot, depth+1, visit)
				}
			}
		}
	}
	for _, e := range st.events {
		if e.Depth != 0 || e.Kind != "append" || e.Field == nil {
			continue
		}
		sl, ok := e.Field.Type().Underlying().(*types.Slice)
		if !ok {
			continue
		}
		for _, el := range e.Elems {
			walk(el, sl.Elem(), e.Field.Name(), 0, func(av AV, slot string) {
				construct := fmt.Sprintf("%s#%s", fname, slot)
				pos := P.Pos(ssau.PosOf(e.Instr))
				constant := false
				switch v := av.(type) {
				case Konst:
					constant = true
				case Num:
					_, constant = v.P.constVal()
				case Ptr:
					if t, fld := typeAtPath(v.Obj.T, v.Path); t != nil {
						if n, ok := st.mem.read(v.Obj, v.Path, t, fld).(Num); ok {
							_, constant = n.P.constVal()
						}
					}
				}
				if !constant {
					return // computed by something the executor does not read: no obligation
				}
				if topologyKnown() {
					a.hold("MODE-1", construct, pos, "mode chosen on a path that tested Mesh.Topology()")
				} else {
					a.violate("MODE-1", construct, pos, "a primitive is appended with a constant mode on a path that never tests the mesh's topology (the topology test is taken only on another branch, e.g. a cache miss): a point mesh reaching this path is declared with the default mode TRIANGLES")
				}
			})
		}
	}
}

// ---------------------------------------------------------------- TRS-1

type projMemo map[*ssa.Function]int

// isProjection: the function only moves values around (field/element loads and stores, literals,
// returns, calls to other projections): no float arithmetic, no other calls. Decided on the body.
func (w *world) isProjection(fn *ssa.Function, memo projMemo, depth int) bool {
	if fn == nil {
		return false
	}
	if v, ok := memo[fn]; ok {
		return v == 2 || v == 1 // in progress: optimistic for recursion
	}
	if fn.Blocks == nil || depth > 6 {
		return false
	}
	memo[fn] = 1
	ok := true
	ssau.AllInstrs(fn, func(in ssa.Instruction) {
		if !ok {
			return
		}
		switch in := in.(type) {
		case *ssa.BinOp:
			switch in.Op {
			case token.EQL, token.NEQ, token.LSS, token.LEQ, token.GTR, token.GEQ:
			default:
				if b, isB := in.Type().Underlying().(*types.Basic); isB && b.Info()&(types.IsFloat|types.IsComplex) != 0 {
					ok = false
				}
			}
		case *ssa.UnOp:
			if in.Op == token.SUB {
				ok = false
			}
		case *ssa.Convert:
			sb, ok1 := in.X.Type().Underlying().(*types.Basic)
			tb, ok2 := in.Type().Underlying().(*types.Basic)
			if ok1 && ok2 && sb.Info()&types.IsFloat != 0 && tb.Kind() != sb.Kind() {
				ok = false
			}
		case ssa.CallInstruction:
			cc := in.Common()
			if _, isB := cc.Value.(*ssa.Builtin); isB {
				return
			}
			cal := cc.StaticCallee()
			if cal == nil || !w.isProjection(cal, memo, depth+1) {
				ok = false
			}
		case *ssa.MapUpdate, *ssa.Send, *ssa.Go, *ssa.Defer:
			ok = false
		}
	})
	if ok {
		memo[fn] = 2
	} else {
		memo[fn] = 3
	}
	return ok
}

// impureOnTheWay walks from v back to its sources and reports the first thing that changes a value:
// float arithmetic, or a call to a function that is not a projection. stop(x) ends the walk at x.
func (w *world) impureOnTheWay(v ssa.Value, memo projMemo, stop func(ssa.Value) bool) string {
	seen := map[ssa.Value]bool{}
	bad := ""
	var walk func(v ssa.Value, d int)
	walk = func(v ssa.Value, d int) {
		if v == nil || seen[v] || bad != "" || d > 16 {
			return
		}
		seen[v] = true
		if stop(v) {
			return
		}
		switch x := v.(type) {
		case *ssa.Alloc:
			var stores func(a ssa.Value)
			stores = func(a ssa.Value) {
				for _, r := range ssau.Refs(a) {
					switch r := r.(type) {
					case *ssa.Store:
						if r.Addr == a {
							walk(r.Val, d+1)
						}
					case *ssa.IndexAddr:
						stores(r)
					case *ssa.FieldAddr:
						stores(r)
					}
				}
			}
			stores(x)
		case *ssa.UnOp:
			if x.Op == token.SUB {
				bad = "a negation"
				return
			}
			walk(x.X, d+1)
		case *ssa.FieldAddr:
			walk(x.X, d+1)
		case *ssa.IndexAddr:
			walk(x.X, d+1)
		case *ssa.Field:
			walk(x.X, d+1)
		case *ssa.Index:
			walk(x.X, d+1)
		case *ssa.Slice:
			walk(x.X, d+1)
		case *ssa.Phi:
			for _, e := range x.Edges {
				walk(e, d+1)
			}
		case *ssa.ChangeType:
			walk(x.X, d+1)
		case *ssa.MakeInterface:
			walk(x.X, d+1)
		case *ssa.Extract:
			walk(x.Tuple, d+1)
		case *ssa.Convert:
			sb, ok1 := x.X.Type().Underlying().(*types.Basic)
			tb, ok2 := x.Type().Underlying().(*types.Basic)
			if ok1 && ok2 && sb.Info()&types.IsFloat != 0 && tb.Kind() != sb.Kind() {
				bad = "a conversion to " + tb.Name()
				return
			}
			walk(x.X, d+1)
		case *ssa.BinOp:
			if b, isB := x.Type().Underlying().(*types.Basic); isB && b.Info()&types.IsFloat != 0 {
				bad = "float arithmetic (" + x.Op.String() + ")"
				return
			}
			walk(x.X, d+1)
			walk(x.Y, d+1)
		case *ssa.Call:
			if ssau.Builtin(x) != "" {
				return
			}
			cal := x.Common().StaticCallee()
			if cal == nil || !w.isProjection(cal, memo, 0) {
				name := "a dynamic call"
				if cal != nil {
					name = shortFuncName(cal)
				} else if x.Common().IsInvoke() {
					name = x.Common().Method.Name()
				}
				bad = "a call to " + name + ", which computes rather than copies"
				return
			}
			for _, a := range x.Common().Args {
				walk(a, d+1)
			}
		}
	}
	walk(v, 0)
	return bad
}

// ruleTRS: TRS-1. The node's translation / rotation / scale and the per-instance arrays are the
// model's components unchanged: between the model field (resp. list[i]) and the stored value there are
// only loads, literals and projection functions (judged on their bodies, dependencies included).
func (w *world) ruleTRS(a *agg) {
	P := w.c.P
	nodeObj := w.tpkg.Scope().Lookup("Node")
	modelObj := w.tpkg.Scope().Lookup("PolyformModel")
	if nodeObj == nil || modelObj == nil {
		return
	}
	memo := projMemo{}
	isNamed := func(t types.Type, o types.Object) bool {
		n := ssau.NamedOf(t)
		return n != nil && n.Obj() == o
	}
	for _, fn := range w.all {
		fname := P.FuncName(fn)
		ssau.AllInstrs(fn, func(in ssa.Instruction) {
			switch in := in.(type) {
			case *ssa.Store:
				fa, ok := in.Addr.(*ssa.FieldAddr)
				if !ok || !isNamed(fa.X.Type(), nodeObj) {
					break
				}
				f := ssau.FieldOf(fa)
				if f == nil || (f.Name() != "Translation" && f.Name() != "Rotation" && f.Name() != "Scale") {
					break
				}
				fromModel := false
				backSlice(in.Val, func(v ssa.Value) bool {
					if mfa, ok := v.(*ssa.FieldAddr); ok && isNamed(mfa.X.Type(), modelObj) {
						fromModel = true
						return false
					}
					return true
				})
				if !fromModel {
					break // not a model transform (lights, joints)
				}
				bad := w.impureOnTheWay(in.Val, memo, func(v ssa.Value) bool {
					mfa, ok := v.(*ssa.FieldAddr)
					return ok && isNamed(mfa.X.Type(), modelObj)
				})
				construct := fmt.Sprintf("%s#Node.%s-unchanged", fname, f.Name())
				if bad != "" {
					a.violate("TRS-1", construct, P.Pos(ssau.PosOf(in)), "Node."+f.Name()+" is not the model's value: on the way from the model field it passes through "+bad)
				} else {
					a.hold("TRS-1", construct, P.Pos(ssau.PosOf(in)), "only loads / literals / projection functions between model."+f.Name()+" and the node")
				}
			}
		})
		// per-instance arrays
		ssau.AllInstrs(fn, func(in ssa.Instruction) {
			ms, ok := in.(*ssa.MakeSlice)
			if !ok {
				return
			}
			src := map[string]bool{}
			var vals []ssa.Value
			for _, r := range ssau.Refs(ms) {
				if ia, ok := r.(*ssa.IndexAddr); ok {
					for _, rr := range ssau.Refs(ia) {
						if st, ok := rr.(*ssa.Store); ok && st.Addr == ia {
							hit := false
							backSlice(st.Val, func(x ssa.Value) bool {
								if c, ok := x.(*ssa.Call); ok {
									if o := ssau.CalleeObj(c); o != nil && o.Pkg() != nil && o.Pkg().Path() == trsPath && ssau.RecvNamed(o) != nil {
										src[o.Name()] = true
										hit = true
										return false
									}
								}
								return true
							})
							if hit {
								vals = append(vals, st.Val)
							}
						}
					}
				}
			}
			if len(vals) == 0 {
				return
			}
			construct := fmt.Sprintf("%s#instance-data[%s]-unchanged", fname, setString(src))
			for _, v := range vals {
				bad := w.impureOnTheWay(v, memo, func(x ssa.Value) bool {
					if ia, ok := x.(*ssa.IndexAddr); ok && isTRSList(ia.X.Type()) {
						return true
					}
					return false
				})
				if bad != "" {
					a.violate("TRS-1", construct, P.Pos(ssau.PosOf(ms)), "the per-instance value is not the instance's own component: it passes through "+bad)
					return
				}
			}
			a.hold("TRS-1", construct, P.Pos(ssau.PosOf(ms)), "only loads / projection functions between instance i and element i")
		})
	}
	w.c.R.Floor("TRS-1", 3)
}

// ---------------------------------------------------------------- INST-2

// monotoneNext: the value a loop-carried boolean flag F takes on a back edge never undoes what F
// already records: it is F, the absorbing constant, or something else only where F still has its start value.
func monotoneNext(next ssa.Value, F *ssa.Phi, absorbing bool, depth int) bool {
	if depth > 6 {
		return false
	}
	if next == ssa.Value(F) {
		return true
	}
	if c, ok := next.(*ssa.Const); ok && c.Value != nil && c.Value.Kind().String() == "Bool" {
		return (c.Value.ExactString() == "true") == absorbing
	}
	if p, ok := next.(*ssa.Phi); ok && p != F {
		for i, e := range p.Edges {
			if monotoneNext(e, F, absorbing, depth+1) {
				continue
			}
			// arbitrary value, but only on a path where F still has its start value (short-circuit ||, &&,
			// `if !flag { flag = x }`)
			pred := p.Block().Preds[i]
			okEdge := false
			for _, ec := range edgeConds(pred) {
				c := ec.cond
				pos := ec.pos
				if n, isNot := c.(*ssa.UnOp); isNot && n.Op == token.NOT {
					c, pos = n.X, !pos
				}
				if c == ssa.Value(F) && pos != absorbing {
					okEdge = true
				}
			}
			if !okEdge {
				return false
			}
		}
		return true
	}
	return false
}

// ruleInst2: INST-2. A flag that decides whether an instancing attribute is written is accumulated
// monotonically over the loop that sets it (any-of: starts false, only ever becomes true; all-of: dual).
func (w *world) ruleInst2(a *agg) {
	P := w.c.P
	gpuObj := w.tpkg.Scope().Lookup("ExtGpuInstancing")
	if gpuObj == nil {
		return
	}
	for _, fn := range w.all {
		fname := P.FuncName(fn)
		loops := ssau.Loops(fn)
		ssau.AllInstrs(fn, func(in ssa.Instruction) {
			mu, ok := in.(*ssa.MapUpdate)
			if !ok {
				return
			}
			u, ok := mu.Map.(*ssa.UnOp)
			if !ok {
				return
			}
			fa, ok := u.X.(*ssa.FieldAddr)
			if !ok {
				return
			}
			if n := ssau.NamedOf(fa.X.Type()); n == nil || n.Obj() != gpuObj {
				return
			}
			key := keyName(mu.Key)
			construct := fmt.Sprintf("%s#instancing[%s]-condition", fname, strings.Trim(key, "\""))
			pos := P.Pos(ssau.PosOf(mu))
			judged := false
			for _, ec := range edgeConds(mu.Block()) {
				c := ec.cond
				if n, isNot := c.(*ssa.UnOp); isNot && n.Op == token.NOT {
					c = n.X
				}
				F, ok := c.(*ssa.Phi)
				if !ok {
					continue
				}
				var loop *ssau.Loop
				for _, l := range loops {
					if l.Header == F.Block() {
						loop = l
					}
				}
				if loop == nil {
					continue // not a loop-carried flag
				}
				// start value and back-edge values
				var init *ssa.Const
				var nexts []ssa.Value
				for i, e := range F.Edges {
					if loop.Blocks[F.Block().Preds[i]] {
						nexts = append(nexts, e)
					} else if cst, ok := e.(*ssa.Const); ok {
						init = cst
					}
				}
				if init == nil || init.Value == nil || init.Value.Kind().String() != "Bool" || len(nexts) == 0 {
					continue
				}
				judged = true
				absorbing := init.Value.ExactString() != "true" // any-of flags start false and absorb true
				okAll := true
				for _, nx := range nexts {
					if !monotoneNext(nx, F, absorbing, 0) {
						okAll = false
					}
				}
				if okAll {
					a.hold("INST-2", construct, pos, "guarded by a flag accumulated monotonically over its loop")
				} else {
					a.violate("INST-2", construct, pos, "the attribute "+key+" is written or omitted according to a loop-carried flag that is overwritten on every iteration: only the last instance decides, the others' transforms are dropped when the last one has the default value")
				}
			}
			if !judged {
				a.hold("INST-2", construct, pos, "not conditioned on a loop-carried flag")
			}
		})
	}
	w.c.R.Floor("INST-2", 2)
}
