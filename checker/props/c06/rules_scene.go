package c06

import (
	"fmt"
	"go/token"
	"go/types"
	"sort"
	"strings"

	"golang.org/x/tools/go/ssa"

	"polycheck/ssau"
)

const trsPath = "github.com/EliCDavis/polyform/math/trs"

// backSlice walks the values v is computed from (through locals, calls, phis) and calls
// visit on each; visit returns false to stop descending below that value.
func backSlice(v ssa.Value, visit func(ssa.Value) bool) {
	seen := map[ssa.Value]bool{}
	var walk func(v ssa.Value, d int)
	walk = func(v ssa.Value, d int) {
		if v == nil || seen[v] || d > 14 {
			return
		}
		seen[v] = true
		if !visit(v) {
			return
		}
		switch x := v.(type) {
		case *ssa.Alloc:
			var stores func(a ssa.Value)
			stores = func(a ssa.Value) {
				for _, r := range ssau.Refs(a) {
					switch r := r.(type) {
					case *ssa.Store:
						if r.Addr == a {
							walk(r.Val, d+1)
						}
					case *ssa.IndexAddr:
						stores(r)
					case *ssa.FieldAddr:
						stores(r)
					}
				}
			}
			stores(x)
		case *ssa.MakeSlice:
			for _, r := range ssau.Refs(x) {
				if ia, ok := r.(*ssa.IndexAddr); ok {
					for _, rr := range ssau.Refs(ia) {
						if st, ok := rr.(*ssa.Store); ok && st.Addr == ia {
							walk(st.Val, d+1)
						}
					}
				}
			}
		case *ssa.UnOp:
			walk(x.X, d+1)
		case *ssa.FieldAddr:
			walk(x.X, d+1)
		case *ssa.IndexAddr:
			walk(x.X, d+1)
		case *ssa.Field:
			walk(x.X, d+1)
		case *ssa.Slice:
			walk(x.X, d+1)
		case *ssa.Call:
			if ssau.Builtin(x) == "len" {
				return
			}
			for _, a := range x.Common().Args {
				walk(a, d+1)
			}
			if x.Common().IsInvoke() {
				walk(x.Common().Value, d+1)
			}
		case *ssa.Phi:
			for _, e := range x.Edges {
				walk(e, d+1)
			}
		case *ssa.Convert:
			walk(x.X, d+1)
		case *ssa.ChangeType:
			walk(x.X, d+1)
		case *ssa.MakeInterface:
			walk(x.X, d+1)
		case *ssa.Extract:
			walk(x.Tuple, d+1)
		case *ssa.Next:
			walk(x.Iter, d+1)
		case *ssa.Range:
			walk(x.X, d+1)
		case *ssa.BinOp:
			walk(x.X, d+1)
			walk(x.Y, d+1)
		}
	}
	walk(v, 0)
}

func setString(m map[string]bool) string {
	var s []string
	for k := range m {
		s = append(s, k)
	}
	sort.Strings(s)
	return strings.Join(s, ",")
}

// ruleXform: XFORM-1. Node TRS fields are fed from the model's fields of the same name; GPU
// instance attributes from the TRS accessor of the same meaning.
func (w *world) ruleXform(a *agg) {
	P := w.c.P
	nodeObj := w.tpkg.Scope().Lookup("Node")
	modelObj := w.tpkg.Scope().Lookup("PolyformModel")
	gpuObj := w.tpkg.Scope().Lookup("ExtGpuInstancing")
	if nodeObj == nil || modelObj == nil {
		w.c.R.Failf("anchor types %s.Node / PolyformModel not found", gltfRel)
		return
	}
	isNamed := func(t types.Type, o types.Object) bool {
		n := ssau.NamedOf(t)
		return n != nil && o != nil && n.Obj() == o
	}
	gpuWant := map[string]string{"TRANSLATION": "Position", "ROTATION": "Rotation", "SCALE": "Scale"}
	for _, fn := range w.all {
		fname := P.FuncName(fn)
		ssau.AllInstrs(fn, func(in ssa.Instruction) {
			switch in := in.(type) {
			case *ssa.Store:
				fa, ok := in.Addr.(*ssa.FieldAddr)
				if !ok || !isNamed(fa.X.Type(), nodeObj) {
					return
				}
				f := ssau.FieldOf(fa)
				if f == nil {
					return
				}
				switch f.Name() {
				case "Translation", "Rotation", "Scale":
				default:
					return
				}
				got := map[string]bool{}
				backSlice(in.Val, func(v ssa.Value) bool {
					if mfa, ok := v.(*ssa.FieldAddr); ok && isNamed(mfa.X.Type(), modelObj) {
						if mf := ssau.FieldOf(mfa); mf != nil {
							got[mf.Name()] = true
						}
						return false
					}
					return true
				})
				if len(got) == 0 {
					return // not a model transform (lights, joints)
				}
				construct := fmt.Sprintf("%s#Node.%s", fname, f.Name())
				pos := P.Pos(ssau.PosOf(in))
				if len(got) == 1 && got[f.Name()] {
					a.hold("XFORM-1", construct, pos, "Node."+f.Name()+" ← model."+f.Name())
				} else {
					a.violate("XFORM-1", construct, pos, "Node."+f.Name()+" is computed from model."+setString(got)+": the node transform is not the model's")
				}
			case *ssa.MapUpdate:
				if gpuObj == nil {
					return
				}
				u, ok := in.Map.(*ssa.UnOp)
				if !ok {
					return
				}
				fa, ok := u.X.(*ssa.FieldAddr)
				if !ok || !isNamed(fa.X.Type(), gpuObj) {
					return
				}
				key, ok := ssau.ConstString(in.Key)
				if !ok {
					return
				}
				want, known := gpuWant[key]
				if !known {
					return
				}
				construct := fmt.Sprintf("%s#instancing[%s]", fname, key)
				pos := P.Pos(ssau.PosOf(in))
				// the write that follows the capture in the same block
				var next *ssa.Call
				after := false
				for _, bi := range in.Block().Instrs {
					if bi == ssa.Instruction(in) {
						after = true
						continue
					}
					if !after {
						continue
					}
					if c, ok := bi.(*ssa.Call); ok {
						if cal := c.Common().StaticCallee(); cal != nil && w.scan[cal] != nil && (w.isSync(cal) || w.reachesSync(cal)) {
							next = c
							break
						}
					}
					if mu, ok := bi.(*ssa.MapUpdate); ok && mu.Map == in.Map {
						break
					}
				}
				if next == nil {
					a.undecide("XFORM-1", construct, pos, "no payload write follows the capture of this instance attribute in the same block")
					return
				}
				got := map[string]bool{}
				for _, arg := range next.Common().Args {
					backSlice(arg, func(v ssa.Value) bool {
						if c, ok := v.(*ssa.Call); ok {
							if o := ssau.CalleeObj(c); o != nil && ssau.RecvNamed(o) != nil && o.Pkg() != nil && o.Pkg().Path() == trsPath && ssau.RecvNamed(o).Obj().Name() == "TRS" {
								got[o.Name()] = true
								return false
							}
						}
						return true
					})
				}
				if len(got) == 1 && got[want] {
					a.hold("XFORM-1", construct, pos, key+" ← TRS."+want+"()")
				} else {
					a.violate("XFORM-1", construct, pos, fmt.Sprintf("instance attribute %s is filled from TRS.%s(), expected TRS.%s(): instance transforms do not equal the model's", key, setString(got), want))
				}
			}
		})
	}
	w.c.R.Floor("XFORM-1", 5)
}

func meshMethodCall(v ssa.Value) (*ssa.Call, string, bool) {
	call, ok := v.(*ssa.Call)
	if !ok {
		return nil, "", false
	}
	obj := ssau.CalleeObj(call)
	if obj == nil || ssau.RecvNamed(obj) == nil || obj.Pkg() == nil || obj.Pkg().Path() != modelingPath || ssau.RecvNamed(obj).Obj().Name() != "Mesh" {
		return nil, "", false
	}
	return call, obj.Name(), true
}

// ruleAttr: ATTR-1. In a function that writes a mesh, every Mesh accessor is called on one
// mesh value, and each attribute's glTF key, component type and data come from the same
// attribute name, which ranges over the mesh's attribute list of the same dimension.
func (w *world) ruleAttr(a *agg) {
	P := w.c.P
	for _, fn := range w.all {
		if !w.hasWriterParam(fn) {
			continue
		}
		fname := P.FuncName(fn)
		var meshCalls []*ssa.Call
		ssau.AllInstrs(fn, func(in ssa.Instruction) {
			if v, ok := in.(ssa.Value); ok {
				if c, _, ok := meshMethodCall(v); ok {
					meshCalls = append(meshCalls, c)
				}
			}
		})
		if len(meshCalls) < 2 {
			continue
		}
		// feeds the payload?
		feeds := false
		for _, c := range meshCalls {
			for _, r := range ssau.Refs(c) {
				if rc, ok := r.(*ssa.Call); ok {
					if cal := rc.Common().StaticCallee(); cal != nil && w.scan[cal] != nil && (w.isSync(cal) || w.reachesSync(cal)) {
						feeds = true
					}
				}
			}
		}
		if !feeds {
			continue
		}
		construct := fname + "#one-mesh"
		same := true
		for _, c := range meshCalls[1:] {
			if !w.sameValue(c.Common().Args[0], meshCalls[0].Common().Args[0]) {
				same = false
				a.violate("ATTR-1", construct, P.Pos(c.Pos()), "this mesh accessor is called on a different mesh value than the others in the function: attributes/indices of one primitive would come from different meshes (counts need not agree)")
				break
			}
		}
		if same {
			a.hold("ATTR-1", construct, P.Pos(fn.Pos()), fmt.Sprintf("%d mesh accessors on one mesh value", len(meshCalls)))
		}
		// per attribute write
		for _, c := range meshCalls {
			_, mname, _ := meshMethodCall(c)
			if !strings.HasPrefix(mname, "Float") || !strings.HasSuffix(mname, "Attribute") || len(c.Common().Args) != 2 {
				continue
			}
			name := c.Common().Args[1]
			var wcall *ssa.Call
			for _, r := range ssau.Refs(c) {
				if rc, ok := r.(*ssa.Call); ok {
					if cal := rc.Common().StaticCallee(); cal != nil && w.scan[cal] != nil && (w.isSync(cal) || w.reachesSync(cal)) {
						wcall = rc
					}
				}
			}
			if wcall == nil {
				continue
			}
			aconstruct := fmt.Sprintf("%s#%s", fname, mname)
			pos := P.Pos(wcall.Pos())
			// (1) the name ranges over the list of the same dimension
			listWant := mname + "s" // FloatNAttribute -> FloatNAttributes
			lists := map[string]bool{}
			backSlice(name, func(v ssa.Value) bool {
				if mc, n, ok := meshMethodCall(v); ok {
					_ = mc
					lists[n] = true
					return false
				}
				return true
			})
			if len(lists) > 0 && !(len(lists) == 1 && lists[listWant]) {
				a.violate("ATTR-1", aconstruct, pos, fmt.Sprintf("the attribute name passed to %s ranges over %s(), expected %s(): attributes of another dimension are looked up (missing attribute → empty accessor)", mname, setString(lists), listWant))
				continue
			}
			// (2) the other arguments of the write (component type) depend on the same name
			bad := ""
			for _, arg := range wcall.Common().Args {
				if arg == ssa.Value(c) || w.isWriterType(arg.Type()) {
					continue
				}
				if _, isConst := arg.(*ssa.Const); isConst {
					continue
				}
				dep := false
				backSlice(arg, func(v ssa.Value) bool {
					if w.sameValue(v, name) {
						dep = true
						return false
					}
					return true
				})
				if !dep {
					bad = "the component type passed along is not derived from the attribute name that selects the data"
				}
			}
			// (3) the glTF key recorded just before the write depends on the same name
			var mu *ssa.MapUpdate
			for _, bi := range wcall.Block().Instrs {
				if bi == ssa.Instruction(wcall) {
					break
				}
				if m, ok := bi.(*ssa.MapUpdate); ok {
					if lc, ok := stripConv(m.Value).(*ssa.Call); ok && ssau.Builtin(lc) == "len" {
						mu = m
					}
				}
			}
			if mu != nil {
				dep := false
				backSlice(mu.Key, func(v ssa.Value) bool {
					if w.sameValue(v, name) {
						dep = true
						return false
					}
					return true
				})
				if !dep {
					bad = "the primitive attribute key recorded for this accessor is not derived from the attribute name that selects the data"
				}
			}
			if bad != "" {
				a.violate("ATTR-1", aconstruct, pos, bad)
			} else {
				a.hold("ATTR-1", aconstruct, pos, "key, component type and data all follow one attribute name ranging over "+listWant+"()")
			}
		}
	}
	w.c.R.Floor("ATTR-1", 3)
}

// ruleOut: OUT-1. The text writer embeds the payload, the GLB writer does not; the declared
// extension lists come from the matching sets.
func (w *world) ruleOut(a *agg) {
	P := w.c.P
	// the document builder: the Writer method that returns the root Gltf object
	var toGLTF *ssa.Function
	for _, fn := range w.fns {
		if fn.Signature.Recv() == nil || !w.isWriterType(fn.Signature.Recv().Type()) || fn.Signature.Results().Len() != 1 {
			continue
		}
		if n := ssau.NamedOf(fn.Signature.Results().At(0).Type()); n != nil && n.Obj().Pkg() == w.tpkg && n.Obj().Name() == "Gltf" {
			toGLTF = fn
		}
	}
	if toGLTF == nil {
		w.c.R.Failf("anchor: no Writer method returning %s.Gltf found", gltfRel)
		return
	}
	constOf := func(name string) (int64, bool) {
		k, ok := w.tpkg.Scope().Lookup(name).(*types.Const)
		if !ok {
			return 0, false
		}
		return constInt64(k)
	}
	glbSet := map[*ssa.Function]bool{}
	for _, f := range w.glbFunctions(w.fns) {
		glbSet[f] = true
	}
	nSites := 0
	for _, fn := range w.fns {
		sites := w.callSites(toGLTF, []*ssa.Function{fn})
		if len(sites) == 0 {
			continue
		}
		wantName := "BufferEmbeddingStrategy_Base64Encode"
		if glbSet[fn] {
			wantName = "BufferEmbeddingStrategy_GLB"
		} else {
			// only serialisers are judged: the result must be marshalled to JSON here
			marshals := false
			ssau.AllInstrs(fn, func(in ssa.Instruction) {
				if c, ok := in.(ssa.CallInstruction); ok {
					if o := ssau.CalleeObj(c); o != nil && o.Pkg() != nil && o.Pkg().Path() == "encoding/json" {
						marshals = true
					}
				}
			})
			if !marshals {
				continue
			}
		}
		wv, ok := constOf(wantName)
		if !ok {
			w.c.R.Failf("anchor constant %s.%s not found", gltfRel, wantName)
			continue
		}
		construct := P.FuncName(fn) + "#embedding"
		for _, s := range sites {
			nSites++
			args := s.Common().Args
			c, ok := ssau.ConstInt(args[len(args)-1])
			switch {
			case !ok:
				a.undecide("OUT-1", construct, P.Pos(s.Pos()), "embedding strategy is not a constant")
			case c != wv:
				a.violate("OUT-1", construct, P.Pos(s.Pos()), "wrong embedding strategy: the text form must carry the payload as a data URI, the GLB form must leave buffer.uri undefined (its payload is the BIN chunk)")
			default:
				a.hold("OUT-1", construct, P.Pos(s.Pos()), wantName)
			}
		}
	}
	if nSites < 2 {
		w.c.R.Failf("vacuity: only %d serialiser call(s) of %s found (expected the text and the GLB writer)", nSites, P.FuncName(toGLTF))
	}
	// the data URI is set exactly under the Base64 strategy
	if b64, ok := constOf("BufferEmbeddingStrategy_Base64Encode"); ok {
		for _, fn := range w.all {
			ssau.AllInstrs(fn, func(in ssa.Instruction) {
				st, ok := in.(*ssa.Store)
				if !ok {
					return
				}
				fa, ok := st.Addr.(*ssa.FieldAddr)
				if !ok {
					return
				}
				f := ssau.FieldOf(fa)
				n := ssau.NamedOf(fa.X.Type())
				if f == nil || n == nil || n.Obj().Name() != "Buffer" || n.Obj().Pkg() != w.tpkg || f.Name() != "URI" {
					return
				}
				hasStrategy := false
				for _, p := range fn.Params {
					if pn := ssau.NamedOf(p.Type()); pn != nil && pn.Obj().Name() == "BufferEmbeddingStrategy" {
						hasStrategy = true
					}
				}
				if !hasStrategy {
					return
				}
				construct := P.FuncName(fn) + "#URI-guard"
				okGuard := false
				for _, ec := range edgeConds(st.Block()) {
					bo, ok := ec.cond.(*ssa.BinOp)
					if !ok || bo.Op != token.EQL || !ec.pos {
						continue
					}
					if _, isP := bo.X.(*ssa.Parameter); !isP {
						continue
					}
					if c, ok := ssau.ConstInt(bo.Y); ok && c == b64 {
						okGuard = true
					}
				}
				if okGuard {
					a.hold("OUT-1", construct, P.Pos(ssau.PosOf(st)), "URI set iff strategy == Base64Encode")
				} else {
					a.violate("OUT-1", construct, P.Pos(ssau.PosOf(st)), "the data URI is not set exactly when the Base64 strategy is requested")
				}
			})
		}
	}
	// extension lists
	gltfObj := w.tpkg.Scope().Lookup("Gltf")
	pairs := map[string]string{"ExtensionsUsed": "extensionsUsed", "ExtensionsRequired": "extensionsRequired"}
	for _, fn := range w.all {
		ssau.AllInstrs(fn, func(in ssa.Instruction) {
			st, ok := in.(*ssa.Store)
			if !ok {
				return
			}
			fa, ok := st.Addr.(*ssa.FieldAddr)
			if !ok {
				return
			}
			n := ssau.NamedOf(fa.X.Type())
			f := ssau.FieldOf(fa)
			if n == nil || gltfObj == nil || n.Obj() != gltfObj || f == nil || pairs[f.Name()] == "" {
				return
			}
			got := map[string]bool{}
			backSlice(st.Val, func(v ssa.Value) bool {
				if u, ok := v.(*ssa.UnOp); ok {
					if wfa, ok := u.X.(*ssa.FieldAddr); ok && w.isWriterType(wfa.X.Type()) {
						if wf := ssau.FieldOf(wfa); wf != nil {
							got[wf.Name()] = true
						}
						return false
					}
				}
				return true
			})
			construct := P.FuncName(fn) + "#Gltf." + f.Name()
			if len(got) == 1 && got[pairs[f.Name()]] {
				a.hold("OUT-1", construct, P.Pos(ssau.PosOf(st)), "Gltf."+f.Name()+" ← w."+pairs[f.Name()])
			} else {
				a.violate("OUT-1", construct, P.Pos(ssau.PosOf(st)), "Gltf."+f.Name()+" is built from w."+setString(got)+", expected w."+pairs[f.Name()]+": declared extensions do not match the ones recorded")
			}
		})
	}
	w.c.R.Floor("OUT-1", 4)
}
