package c06

import (
	"fmt"
	"go/constant"
	"go/token"
	"go/types"
	"sort"

	"golang.org/x/tools/go/ssa"

	"polycheck/ssau"
)

// glTF 2.0 §3.7.2.1: attribute semantics and the component types they admit.
var semWant = map[string]string{
	"PositionAttribute": "POSITION", "NormalAttribute": "NORMAL", "ColorAttribute": "COLOR_0",
	"TexCoordAttribute": "TEXCOORD_0", "JointAttribute": "JOINTS_0", "WeightAttribute": "WEIGHTS_0",
}
var semCompTypes = map[string][]int64{
	"POSITION": {5126}, "NORMAL": {5126}, "TANGENT": {5126},
	"TEXCOORD_0": {5126, 5121, 5123}, "COLOR_0": {5126, 5121, 5123},
	"JOINTS_0": {5121, 5123}, "WEIGHTS_0": {5126, 5121, 5123},
}

// glTF 2.0 primitive.mode values for polyform topologies.
var modeWant = map[string]int64{"PointTopology": 0, "LineTopology": 1, "LineLoopTopology": 2, "LineStripTopology": 3, "TriangleTopology": 4}

// evalConstFn runs a small in-package function on one constant string argument.
func (w *world) evalConstFn(fn *ssa.Function, arg string) (AV, bool) {
	if len(fn.Params) != 1 {
		return nil, false
	}
	cfg := w.execConfig()
	cfg.Bind[fn.Params[0]] = Konst{V: constant.MakeString(arg), T: fn.Params[0].Type()}
	cfg.MaxPaths, cfg.MaxSteps = 64, 20000
	x := NewExec(cfg)
	res := x.Run(fn)
	if x.aborted != "" {
		return nil, false
	}
	var out AV
	n := 0
	for _, r := range res {
		if r.Kind == "return" && len(r.Ret) == 1 {
			out = r.Ret[0]
			n++
		}
	}
	return out, n == 1
}

// ruleSem: SEM-1. The attribute-name and component-type tables agree with the glTF
// specification for the standard semantics; point meshes are declared as POINTS.
func (w *world) ruleSem(a *agg) {
	P := w.c.P
	mp := w.c.P.All[modelingPath]
	if mp == nil {
		w.c.R.Failf("anchor package %s not loaded", modelingPath)
		return
	}
	// discover the two table functions from the attribute writes (key mapper, component-type mapper)
	keyFns, ctFns := map[*ssa.Function]bool{}, map[*ssa.Function]bool{}
	for _, fn := range w.fns {
		ssau.AllInstrs(fn, func(in ssa.Instruction) {
			switch in := in.(type) {
			case *ssa.MapUpdate:
				if lc, ok := stripConv(in.Value).(*ssa.Call); ok && ssau.Builtin(lc) == "len" {
					if kc, ok := in.Key.(*ssa.Call); ok {
						if cal := kc.Common().StaticCallee(); cal != nil && cal.Pkg == w.pkg && len(cal.Params) == 1 {
							keyFns[cal] = true
						}
					}
				}
			case *ssa.Call:
				cal := in.Common().StaticCallee()
				if cal == nil || w.scan[cal] == nil || !(w.isSync(cal) || w.reachesSync(cal)) {
					return
				}
				for _, arg := range in.Common().Args {
					if ac, ok := arg.(*ssa.Call); ok && w.compType != nil && types.Identical(ac.Type(), w.compType) {
						if af := ac.Common().StaticCallee(); af != nil && af.Pkg == w.pkg && len(af.Params) == 1 {
							ctFns[af] = true
						}
					}
				}
			}
		})
	}
	names := make([]string, 0, len(semWant))
	for n := range semWant {
		names = append(names, n)
	}
	sort.Strings(names)
	sortedFns := func(m map[*ssa.Function]bool) []*ssa.Function {
		var out []*ssa.Function
		for f := range m {
			out = append(out, f)
		}
		sort.Slice(out, func(i, j int) bool { return out[i].Pos() < out[j].Pos() })
		return out
	}
	semOf := map[string]string{} // modeling constant name -> semantic produced
	for _, kf := range sortedFns(keyFns) {
		for _, n := range names {
			k, ok := mp.Types.Scope().Lookup(n).(*types.Const)
			if !ok || k.Val().Kind() != constant.String {
				continue
			}
			construct := fmt.Sprintf("%s[%s]", P.FuncName(kf), n)
			got, ok := w.evalConstFn(kf, constant.StringVal(k.Val()))
			s, isS := konstString(got)
			switch {
			case !ok || !isS:
				a.undecide("SEM-1", construct, P.Pos(kf.Pos()), "the attribute-name table could not be evaluated for this constant")
			case s != semWant[n]:
				a.violate("SEM-1", construct, P.Pos(kf.Pos()), fmt.Sprintf("modeling.%s is written under the glTF semantic %q, expected %q", n, s, semWant[n]))
			default:
				semOf[n] = s
				a.hold("SEM-1", construct, P.Pos(kf.Pos()), n+" → "+s)
			}
		}
	}
	for _, cf := range sortedFns(ctFns) {
		for _, n := range names {
			k, ok := mp.Types.Scope().Lookup(n).(*types.Const)
			if !ok || k.Val().Kind() != constant.String {
				continue
			}
			sem := semWant[n]
			construct := fmt.Sprintf("%s[%s]", P.FuncName(cf), n)
			got, ok := w.evalConstFn(cf, constant.StringVal(k.Val()))
			c, isC := numConst(got)
			if !ok || !isC {
				a.undecide("SEM-1", construct, P.Pos(cf.Pos()), "the component-type table could not be evaluated for this constant")
				continue
			}
			allowed := false
			for _, v := range semCompTypes[sem] {
				if v == c {
					allowed = true
				}
			}
			if !allowed {
				a.violate("SEM-1", construct, P.Pos(cf.Pos()), fmt.Sprintf("%s data is written with component type %s, which glTF does not allow for %s", n, gltfCompName[c], sem))
			} else {
				a.hold("SEM-1", construct, P.Pos(cf.Pos()), n+" ("+sem+") → "+gltfCompName[c])
			}
		}
	}
	// primitive mode
	primObj := w.tpkg.Scope().Lookup("Primitive")
	for _, fn := range w.all {
		ssau.AllInstrs(fn, func(in ssa.Instruction) {
			st, ok := in.(*ssa.Store)
			if !ok {
				return
			}
			c, isC := ssau.ConstInt(st.Val)
			al, isAl := st.Addr.(*ssa.Alloc)
			if !isC || !isAl {
				return
			}
			n := ssau.NamedOf(deref(al.Type()))
			if n == nil || n.Obj().Name() != "PrimitiveMode" || n.Obj().Pkg() != w.tpkg || primObj == nil {
				return
			}
			for _, ec := range edgeConds(st.Block()) {
				bo, ok := ec.cond.(*ssa.BinOp)
				if !ok || bo.Op != token.EQL || !ec.pos {
					continue
				}
				if _, name, ok := meshMethodCall(bo.X); !ok || name != "Topology" {
					continue
				}
				k, ok := ssau.ConstInt(bo.Y)
				if !ok {
					continue
				}
				for tn, want := range modeWant {
					tc, ok := mp.Types.Scope().Lookup(tn).(*types.Const)
					if !ok {
						continue
					}
					if v, ok := constInt64(tc); ok && v == k {
						construct := fmt.Sprintf("%s#mode[%s]", P.FuncName(fn), tn)
						if c == want {
							a.hold("SEM-1", construct, P.Pos(ssau.PosOf(st)), fmt.Sprintf("%s → primitive.mode %d", tn, c))
						} else {
							a.violate("SEM-1", construct, P.Pos(ssau.PosOf(st)), fmt.Sprintf("a %s mesh is declared with primitive.mode %d, glTF defines %d", tn, c, want))
						}
					}
				}
			}
		})
	}
	w.c.R.Floor("SEM-1", 10)
}
