package c07

import (
	"fmt"
	"go/constant"
	"go/token"
	"go/types"

	"golang.org/x/tools/go/ssa"

	"polycheck/props/c07/sx"
	"polycheck/ssau"
)

// NRM-2: the *direction* of the normals as a polynomial identity, up to a
// positive scalar (Normalized and positive constant factors are dropped).
// vector3 Add / Sub / Cross / Scale / DivByConstant / Normalized of
// EliCDavis/vector are modelled by their published meaning (callee resolved by
// object). Evaluation that meets an unknown construct gives up silently: only a
// decided mismatch is reported.

type vec3 [3]sx.Poly

type algEval struct {
	a      *anchors
	e      *sx.Env
	normed bool
	why    string
	// corner symbols: Tri.PkVec3Attr(attr) -> "Nk"
	cornerSym func(c *ssa.Call) (string, bool)
}

func (g *algEval) fail(format string, args ...any) bool {
	if g.why == "" {
		g.why = fmt.Sprintf(format, args...)
	}
	return false
}

func bind(p *ssa.Parameter, ctx *sx.Ctx) (ssa.Value, *sx.Ctx, bool) {
	if ctx == nil {
		return nil, nil, false
	}
	for i, q := range p.Parent().Params {
		if q == p && i < len(ctx.Call.Call.Args) {
			return ctx.Call.Call.Args[i], ctx.Parent, true
		}
	}
	return nil, nil, false
}

func singleRet(fn *ssa.Function) (ssa.Value, bool) {
	var out ssa.Value
	n := 0
	for _, b := range fn.Blocks {
		if len(b.Instrs) == 0 {
			continue
		}
		if r, ok := b.Instrs[len(b.Instrs)-1].(*ssa.Return); ok {
			n++
			if len(r.Results) != 1 {
				return nil, false
			}
			out = r.Results[0]
		}
	}
	return out, n == 1
}

func signOfConst(v ssa.Value) int {
	for {
		if cv, ok := v.(*ssa.Convert); ok {
			v = cv.X
			continue
		}
		break
	}
	c, ok := v.(*ssa.Const)
	if !ok || c.Value == nil {
		return 0
	}
	switch c.Value.Kind() {
	case constant.Int, constant.Float:
		return constant.Sign(c.Value)
	}
	return 0
}

func (g *algEval) vec(v ssa.Value, ctx *sx.Ctx, depth int) (vec3, bool) {
	var zero vec3
	if depth > 40 {
		return zero, g.fail("expression too deep")
	}
	switch x := v.(type) {
	case *ssa.ChangeType:
		return g.vec(x.X, ctx, depth+1)
	case *ssa.Parameter:
		nv, nctx, ok := bind(x, ctx)
		if !ok {
			return zero, g.fail("vector parameter %s", x.Name())
		}
		return g.vec(nv, nctx, depth+1)
	case *ssa.UnOp:
		if x.Op == token.MUL {
			if al, ok := x.X.(*ssa.Alloc); ok && al.Parent() == g.e.Fn {
				sts := g.e.Stores(al)
				if len(sts) == 1 && len(sts[0].Ad.Path) == 0 && len(g.e.Escapes(al)) == 0 {
					return g.vec(sts[0].St.Val, ctx, depth+1)
				}
			}
		}
		return zero, g.fail("vector loaded from memory")
	case *ssa.Call:
		obj := ssau.CalleeObj(x)
		args := x.Call.Args
		if g.cornerSym != nil {
			if s, ok := g.cornerSym(x); ok {
				return vec3{sx.Sym(s + ".X"), sx.Sym(s + ".Y"), sx.Sym(s + ".Z")}, true
			}
		}
		if dim, ok := sx.VecNew(obj); ok && dim == 3 && len(args) == 3 {
			var out vec3
			for k := 0; k < 3; k++ {
				p, ok := g.scal(args[k], ctx, depth+1)
				if !ok {
					return zero, false
				}
				out[k] = p
			}
			return out, true
		}
		if obj != nil && ssau.RecvNamed(obj) != nil {
			if d, isVec := sx.IsVecType(ssau.RecvNamed(obj)); isVec && d == 3 {
				switch obj.Name() {
				case "ToFloat64", "ToFloat32":
					return g.vec(args[0], ctx, depth+1)
				case "Normalized":
					g.normed = true
					return g.vec(args[0], ctx, depth+1)
				case "Add", "Sub", "Cross":
					l, ok1 := g.vec(args[0], ctx, depth+1)
					if !ok1 {
						return zero, false
					}
					r, ok2 := g.vec(args[1], ctx, depth+1)
					if !ok2 {
						return zero, false
					}
					switch obj.Name() {
					case "Add":
						return vec3{l[0].Add(r[0]), l[1].Add(r[1]), l[2].Add(r[2])}, true
					case "Sub":
						return vec3{l[0].Sub(r[0]), l[1].Sub(r[1]), l[2].Sub(r[2])}, true
					default:
						return vec3{
							l[1].Mul(r[2]).Sub(l[2].Mul(r[1])),
							l[2].Mul(r[0]).Sub(l[0].Mul(r[2])),
							l[0].Mul(r[1]).Sub(l[1].Mul(r[0])),
						}, true
					}
				case "Scale", "DivByConstant":
					sg := signOfConst(args[1])
					if sg == 0 {
						return zero, g.fail("%s by a non-constant or zero", obj.Name())
					}
					l, ok := g.vec(args[0], ctx, depth+1)
					if !ok {
						return zero, false
					}
					if sg < 0 {
						return vec3{l[0].Neg(), l[1].Neg(), l[2].Neg()}, true
					}
					return l, true
				case "Flip":
					l, ok := g.vec(args[0], ctx, depth+1)
					if !ok {
						return zero, false
					}
					return vec3{l[0].Neg(), l[1].Neg(), l[2].Neg()}, true
				}
				return zero, g.fail("vector method %s", obj.Name())
			}
		}
		if callee := x.Call.StaticCallee(); callee != nil && callee.Blocks != nil && g.a.inline(callee) {
			if rv, ok := singleRet(callee); ok && (ctx == nil || ctx.Depth < 4) {
				d := 0
				if ctx != nil {
					d = ctx.Depth
				}
				return g.vec(rv, &sx.Ctx{Call: x, Parent: ctx, Depth: d + 1}, depth+1)
			}
		}
		return zero, g.fail("call on the vector path")
	}
	return zero, g.fail("%T on the vector path", v)
}

func (g *algEval) scal(v ssa.Value, ctx *sx.Ctx, depth int) (sx.Poly, bool) {
	if depth > 40 {
		return sx.Poly{}, g.fail("expression too deep")
	}
	switch x := v.(type) {
	case *ssa.Convert:
		return g.scal(x.X, ctx, depth+1)
	case *ssa.ChangeType:
		return g.scal(x.X, ctx, depth+1)
	case *ssa.Const:
		if x.Value != nil && (x.Value.Kind() == constant.Int || x.Value.Kind() == constant.Float) {
			if i, ok := constant.Int64Val(constant.ToInt(x.Value)); ok {
				return sx.Const(i), true
			}
		}
		return sx.Poly{}, g.fail("non-integer constant")
	case *ssa.UnOp:
		if x.Op == token.SUB {
			p, ok := g.scal(x.X, ctx, depth+1)
			return p.Neg(), ok
		}
	case *ssa.BinOp:
		switch x.Op {
		case token.ADD, token.SUB, token.MUL:
			l, ok1 := g.scal(x.X, ctx, depth+1)
			if !ok1 {
				return sx.Poly{}, false
			}
			r, ok2 := g.scal(x.Y, ctx, depth+1)
			if !ok2 {
				return sx.Poly{}, false
			}
			switch x.Op {
			case token.ADD:
				return l.Add(r), true
			case token.SUB:
				return l.Sub(r), true
			}
			return l.Mul(r), true
		}
		return sx.Poly{}, g.fail("operator %s", x.Op)
	case *ssa.Call:
		if ax, ok := sx.AxisGetter(ssau.CalleeObj(x)); ok && ax < 3 {
			vv, ok := g.vec(x.Call.Args[0], ctx, depth+1)
			if !ok {
				return sx.Poly{}, false
			}
			return vv[ax], true
		}
		return sx.Poly{}, g.fail("call on the scalar path")
	}
	// a leaf: must be exactly one component of one field of the record
	sl := sx.NewSlicer(g.a.inline).WithEnv(g.e)
	sl.StopAt = func(v ssa.Value) bool {
		if ld, ok := v.(*ssa.UnOp); ok && ld.Op == token.MUL {
			return sx.ResolveAddr(ld.X).Slice != nil
		}
		return false
	}
	sl.From(v, nil, ctx)
	for _, vv := range sl.Values() {
		switch vv.(type) {
		case *ssa.BinOp, *ssa.Call, *ssa.Phi:
			return sx.Poly{}, g.fail("leaf is not a plain field read")
		}
	}
	tf, vf := sl.FieldReads(g.a.tTri), sl.FieldReads(g.a.tVec)
	if len(tf) != 1 || len(vf) != 1 {
		return sx.Poly{}, g.fail("leaf reads %d record fields and %d components", len(tf), len(vf))
	}
	var fn, cn string
	for f := range tf {
		fn = f.Name()
	}
	for f := range vf {
		cn = f.Name()
	}
	return sx.Sym(fn + "." + cn), true
}

// sameDirection reports whether got = r·want for a positive rational r (as polynomial vectors).
func sameDirection(got, want vec3) (decided bool, ok bool) {
	var num, den int64
	for i := 0; i < 3 && den == 0; i++ {
		for _, m := range want[i].Monomials() {
			if c := want[i].Coeff(m); c != 0 {
				den, num = c, got[i].Coeff(m)
				break
			}
		}
	}
	if den == 0 {
		return false, false
	}
	if num == 0 || (num > 0) != (den > 0) {
		return true, false
	}
	for i := 0; i < 3; i++ {
		if !got[i].MulConst(den).Equal(want[i].MulConst(num)) {
			return true, false
		}
	}
	return true, true
}

func vecString(v vec3) string { return fmt.Sprintf("(%s, %s, %s)", v[0], v[1], v[2]) }

// fallbackDirection decides NRM-2 for the reader's flat normal.
func fallbackDirection(a *anchors, r *rep, e *sx.Env, key, pos string, fallback ssa.Value) {
	g := &algEval{a: a, e: e}
	got, ok := g.vec(fallback, nil, 0)
	if !ok {
		a.c.R.Note("NRM-2 %s: direction of the flat normal not evaluated (%s)", key, g.why)
		return
	}
	s := func(f, c string) sx.Poly { return sx.Sym(f + "." + c) }
	d := func(f string) vec3 {
		return vec3{s(f, "X").Sub(s("Vertex1", "X")), s(f, "Y").Sub(s("Vertex1", "Y")), s(f, "Z").Sub(s("Vertex1", "Z"))}
	}
	e1, e2 := d("Vertex2"), d("Vertex3")
	want := vec3{
		e1[1].Mul(e2[2]).Sub(e1[2].Mul(e2[1])),
		e1[2].Mul(e2[0]).Sub(e1[0].Mul(e2[2])),
		e1[0].Mul(e2[1]).Sub(e1[1].Mul(e2[0])),
	}
	decided, same := sameDirection(got, want)
	switch {
	case !decided:
		a.c.R.Note("NRM-2 %s: direction comparison not decided", key)
	case same:
		r.Hold("NRM-2", key, pos, "flat normal ∥ (Vertex2−Vertex1)×(Vertex3−Vertex1) with positive factor (polynomial identity; right-hand rule for counter-clockwise facets)")
	default:
		r.Violate("NRM-2", key, pos, "the flat fallback normal is not a positive multiple of (Vertex2−Vertex1)×(Vertex3−Vertex1): facets read back with inverted or skewed normals", "x component: "+got[0].String())
	}
}

// meanDirection decides NRM-2 for the writer's facet normal: the vector that is
// normalised and stored must be a positive multiple of N(P1)+N(P2)+N(P3).
func meanDirection(a *anchors, r *rep, e *sx.Env, key, pos string, normalized ssa.Value, ctx *sx.Ctx) {
	g := &algEval{a: a, e: e}
	g.cornerSym = func(c *ssa.Call) (string, bool) {
		if k := a.cornerOrdinal(c); k > 0 {
			return fmt.Sprintf("N%d", k), true
		}
		return "", false
	}
	got, ok := g.vec(normalized, ctx, 0)
	if !ok {
		a.c.R.Note("NRM-2 %s: direction of the facet normal not evaluated (%s)", key, g.why)
		return
	}
	var want vec3
	for i, c := range []string{"X", "Y", "Z"} {
		want[i] = sx.Sym("N1." + c).Add(sx.Sym("N2." + c)).Add(sx.Sym("N3." + c))
	}
	decided, same := sameDirection(got, want)
	switch {
	case !decided:
		a.c.R.Note("NRM-2 %s: direction comparison not decided", key)
	case same:
		r.Hold("NRM-2", key, pos, "facet normal ∥ N(P1)+N(P2)+N(P3) with positive factor (polynomial identity)")
	default:
		r.Violate("NRM-2", key, pos, "the facet normal is not a positive multiple of the sum of the three corner normals", "x component: "+got[0].String())
	}
}

var _ = types.Typ
