// Package c07: binary STL round trip and size law (structural clauses).
package c07

import (
	"fmt"
	"go/types"
	"sort"
	"strings"

	"golang.org/x/tools/go/ssa"

	"polycheck/load"
	"polycheck/ob"
	"polycheck/props"
	"polycheck/props/c07/sx"
)

func init() {
	props.Register(&props.Prop{
		ID: "C07",
		Explanation: "Binary STL decided on source. LAY-6: wire sizes and field order of stl.Header / Vec / Triangle after encoding/binary (80, 12, 50 bytes; " +
			"Normal, Vertex1..3, Attribute). SYM-BYTES: stl.Write emits size(Header)+4+size(Triangle)·len(Triangles) bytes on every success path and " +
			"stl.WriteMesh hands it PrimitiveCount() records (0 only when the mesh has no positions). LAY-2: Write and Read perform the same step sequence " +
			"(header, count, records) with identical wire layouts and binary.LittleEndian; the count written is len(Triangles) and the slice read is sized by " +
			"the count read. SHAPE-2/AXIS: record i is gathered from Tri(i), Vertex k from corner Pk with x,y,z in order; the reader scatters Vertex k to " +
			"3·i+k−1 with identity indices and the subscripts cover [0,3n) exactly once (SYM-STRIDE). NRM-1: the facet normal depends on the three corner " +
			"normals of the same triangle and is normalised; the reader's fallback depends on the three vertices of the same record and is chosen by a test " +
			"of all three normal components whose polarity is evaluated abstractly (fallback iff Normal=(0,0,0)); stored normals are kept (flag raised on every " +
			"stored-normal alternative); empty-list early return only under n=0. NRM-2: directions as polynomial identities up to a positive factor — facet normal ∥ " +
			"N(P1)+N(P2)+N(P3), flat normal ∥ (V2−V1)×(V3−V1). Vertex coordinates are plain copies (no arithmetic / value-changing call between mesh and record). " +
			"Necessary conditions of the round trip and the size law for every n (polynomial identities in n); float32 rounding and vector lengths are not decided.",
		Assumptions: []string{
			"encoding/binary serialises fixed-size values field by field in declaration order without padding (its documented contract)",
			"value-receiver accessors of modeling.Mesh (PrimitiveCount, Tri, HasFloat3Attribute) are pure functions of the mesh value",
			"vector3 Add/Sub/Cross/Scale/DivByConstant/Normalized of EliCDavis/vector v1.8.0 have their published meaning (resolved by object, modelled by table in NRM-2)",
			"LATCH-1 contract: any record with a stored (non-zero) normal means the mesh read back carries the normals attribute (today's behaviour; needed for stored normals to survive ReadMesh → WriteMesh)",
			"HDR-FREE: the 80 header bytes of a binary STL file carry no format information (published format); the decode side may copy, log or format them but not decide on them",
			"ATTR-OPAQUE: the 2-byte attribute word of a record is payload (colour / tool specific), not a length: every record is exactly 50 bytes",
		},
		Controls: controls,
		Run:      run,
	})
}

type rep = sx.Rep

// ---------------------------------------------------------------------------
// anchors

const stlRel = "formats/stl"

type anchors struct {
	c        *props.Ctx
	p        *load.Program
	pkg      *ssa.Package
	tHeader  types.Type
	tVec     types.Type
	tTri     types.Type
	tBinary  types.Type
	modeling *types.Package
	posAttr  string
	nrmAttr  string
	inline   func(*ssa.Function) bool
}

func named(pkg *ssa.Package, name string) types.Type {
	o := pkg.Pkg.Scope().Lookup(name)
	if o == nil {
		return nil
	}
	if _, ok := o.(*types.TypeName); !ok {
		return nil
	}
	return o.Type()
}

func resolve(c *props.Ctx) *anchors {
	a := &anchors{c: c, p: c.P}
	a.pkg = c.P.SSAPkg(stlRel)
	if a.pkg == nil {
		c.R.Failf("anchor package %s not found", stlRel)
		return nil
	}
	ok := true
	for _, t := range []struct {
		name string
		dst  *types.Type
	}{{"Header", &a.tHeader}, {"Vec", &a.tVec}, {"Triangle", &a.tTri}, {"Binary", &a.tBinary}} {
		*t.dst = named(a.pkg, t.name)
		if *t.dst == nil {
			c.R.Failf("anchor type %s.%s not found", stlRel, t.name)
			ok = false
		}
	}
	mp := c.P.Pkg("modeling")
	if mp == nil {
		c.R.Failf("anchor package modeling not found")
		return nil
	}
	a.modeling = mp.Types
	var ok1, ok2 bool
	a.posAttr, ok1 = sx.StringConst(a.modeling, "PositionAttribute")
	a.nrmAttr, ok2 = sx.StringConst(a.modeling, "NormalAttribute")
	if !ok1 || !ok2 {
		c.R.Failf("anchor constants modeling.PositionAttribute / NormalAttribute not found")
		ok = false
	}
	stlPkg := a.pkg
	a.inline = func(fn *ssa.Function) bool { return fn.Pkg == stlPkg }
	if !ok {
		return nil
	}
	return a
}

func (a *anchors) fn(name string) *ssa.Function {
	f := a.p.Func(stlRel, name)
	if f == nil || f.Blocks == nil {
		a.c.R.Failf("anchor function %s.%s not found", stlRel, name)
		return nil
	}
	return f
}

func (a *anchors) modelingPath() string { return a.modeling.Path() }

// ---------------------------------------------------------------------------

func run(c *props.Ctx) {
	a := resolve(c)
	if a == nil {
		return
	}
	r := &rep{C: c}
	layTypes(a, r)

	write, read := a.fn("Write"), a.fn("Read")
	writeMesh, readMesh := a.fn("WriteMesh"), a.fn("ReadMesh")
	if write != nil && read != nil {
		codecPair(a, r, write, read, true)
	}
	if writeMesh != nil && write != nil {
		writeMeshBytes(a, r, writeMesh, write)
		gather(a, r, writeMesh, write)
	}
	if readMesh != nil && read != nil {
		scatter(a, r, readMesh, read)
	}
	axisSlots(a, r)
	if read != nil && readMesh != nil {
		hdrFree(a, r, []*ssa.Function{read, readMesh})
		attrOpaque(a, r, []*ssa.Function{read, readMesh})
	}

	runControls(a)

	c.R.Extra["functions_analysed"] = len(c.P.FuncsOf(a.pkg))
	c.R.Floor("LAY-6", 4)
	c.R.Floor("LAY-2", 5)
	c.R.Floor("SYM-BYTES", 3)
	c.R.Floor("SHAPE-2", 8)
	c.R.Floor("SYM-STRIDE", 3)
	c.R.Floor("NRM-1", 3)
	c.R.Floor("NRM-PATH", 2)
	c.R.Floor("AXIS-1", 2)
	c.R.Floor("HDR-FREE", 2)
	c.R.Floor("ATTR-OPAQUE", 2)
	c.R.Floor("LATCH-1", 1)
}

// ---------------------------------------------------------------------------
// LAY-6

func (a *anchors) typePos(t types.Type) string {
	if n, ok := t.(*types.Named); ok {
		return a.p.Pos(n.Obj().Pos())
	}
	return "?"
}

func layTypes(a *anchors, r *rep) {
	// Header: 80 single bytes
	if l, err := sx.Flatten(a.tHeader); err != nil {
		r.Violate("LAY-6", "formats/stl.Header", a.typePos(a.tHeader), "header type has no fixed wire layout: "+err.Error())
	} else if l.Size != 80 || l.MultiByte() {
		r.Violate("LAY-6", "formats/stl.Header", a.typePos(a.tHeader), fmt.Sprintf("binary STL header must be 80 opaque bytes; wire layout is %s = %d bytes", l.Sig(), l.Size))
	} else {
		r.Hold("LAY-6", "formats/stl.Header", a.typePos(a.tHeader), "wire layout "+l.Sig()+" = 80 bytes")
	}
	// Vec: X, Y, Z float32
	vecOK := true
	if names := sx.FieldNames(a.tVec); strings.Join(names, ",") != "X,Y,Z" {
		r.Violate("LAY-6", "formats/stl.Vec", a.typePos(a.tVec), "Vec must serialise X, Y, Z in this order; fields are "+strings.Join(names, ","))
		vecOK = false
	}
	if l, err := sx.Flatten(a.tVec); err != nil {
		r.Violate("LAY-6", "formats/stl.Vec", a.typePos(a.tVec), err.Error())
	} else if l.Sig() != "3×f32" {
		r.Violate("LAY-6", "formats/stl.Vec", a.typePos(a.tVec), "Vec must be three float32 (12 bytes); wire layout is "+l.Sig())
	} else if vecOK {
		r.Hold("LAY-6", "formats/stl.Vec", a.typePos(a.tVec), "fields X,Y,Z; wire layout 3×f32 = 12 bytes")
	}
	// Triangle
	want := "Normal,Vertex1,Vertex2,Vertex3,Attribute"
	names := sx.FieldNames(a.tTri)
	triOK := true
	if strings.Join(names, ",") != want {
		r.Violate("LAY-6", "formats/stl.Triangle", a.typePos(a.tTri), "a binary STL record is normal, vertex 1..3, attribute word in this order; fields are "+strings.Join(names, ","))
		triOK = false
	} else {
		st := a.tTri.Underlying().(*types.Struct)
		for i := 0; i < 4; i++ {
			if !types.Identical(st.Field(i).Type(), a.tVec) {
				r.Violate("LAY-6", "formats/stl.Triangle."+st.Field(i).Name(), a.p.Pos(st.Field(i).Pos()), "field must be a Vec (3×float32), is "+st.Field(i).Type().String())
				triOK = false
			}
		}
	}
	if l, err := sx.Flatten(a.tTri); err != nil {
		r.Violate("LAY-6", "formats/stl.Triangle", a.typePos(a.tTri), "record type has no fixed wire layout: "+err.Error())
	} else if l.Sig() != "12×f32 1×u16" || l.Size != 50 {
		r.Violate("LAY-6", "formats/stl.Triangle", a.typePos(a.tTri), fmt.Sprintf("a binary STL record is 12 float32 + one uint16 = 50 bytes; wire layout is %s = %d bytes", l.Sig(), l.Size))
	} else if triOK {
		r.Hold("LAY-6", "formats/stl.Triangle", a.typePos(a.tTri), "fields "+want+"; wire layout "+l.Sig()+" = 50 bytes")
	}
	// Binary: Header, Triangles
	bOK := sx.FieldIndex(a.tBinary, "Header") >= 0 && sx.FieldIndex(a.tBinary, "Triangles") >= 0
	if bOK {
		st := a.tBinary.Underlying().(*types.Struct)
		ht := st.Field(sx.FieldIndex(a.tBinary, "Header")).Type()
		tt := st.Field(sx.FieldIndex(a.tBinary, "Triangles")).Type()
		sl, isSl := tt.Underlying().(*types.Slice)
		if !types.Identical(ht, a.tHeader) || !isSl || !types.Identical(sl.Elem(), a.tTri) {
			r.Violate("LAY-6", "formats/stl.Binary", a.typePos(a.tBinary), "Binary must hold a Header and a []Triangle")
		} else {
			r.Hold("LAY-6", "formats/stl.Binary", a.typePos(a.tBinary), "Header Header; Triangles []Triangle")
		}
	} else {
		a.c.R.Failf("anchor fields stl.Binary.Header / Triangles not found")
	}
}

// ---------------------------------------------------------------------------
// stream steps of a codec function

type step struct {
	op    *sx.IOOp
	bytes sx.Poly // total bytes of the step (trip count included)
	sig   string  // wire layout signature
	slice bool    // payload is a run of records whose count is dynamic
	n     sx.Poly // record count for slice steps
	elem  types.Type
	// scalar: the value decoded from a byte buffer by ByteOrder.UintN after an io.ReadFull (reader side of a scalar moved through a buffer)
	scalar ssa.Value
}

func streamParam(fn *ssa.Function) *ssa.Parameter {
	for _, p := range fn.Params {
		if it, ok := p.Type().Underlying().(*types.Interface); ok {
			for i := 0; i < it.NumMethods(); i++ {
				if n := it.Method(i).Name(); n == "Read" || n == "Write" {
					return p
				}
			}
		}
	}
	return nil
}

// steps extracts the ordered stream steps of fn and checks the structural
// side conditions (single stream, total order, executed on every success path).
func steps(a *anchors, r *rep, rule string, fn *ssa.Function, e *sx.Env) ([]*step, bool) {
	name := a.p.FuncName(fn)
	pos := a.p.Pos(fn.Pos())
	sp := streamParam(fn)
	if sp == nil {
		r.Undecide(rule, name, pos, "no io.Reader / io.Writer parameter found")
		return nil, false
	}
	ops := e.FindIO(nil)
	if len(ops) == 0 {
		r.Undecide(rule, name, pos, "no stream operation recognised")
		return nil, false
	}
	if !sx.TotallyOrdered(ops) {
		r.Undecide(rule, name, pos, "stream operations are not totally ordered by dominance (conditional layout)")
		return nil, false
	}
	// any other call that is handed the stream moves bytes the steps above do not account for
	known := map[ssa.Instruction]bool{}
	for _, op := range ops {
		known[op.Call] = true
	}
	var stray *ssa.Call
	for _, b := range fn.Blocks {
		for _, in := range b.Instrs {
			c, ok := in.(*ssa.Call)
			if !ok || known[c] {
				continue
			}
			args := c.Call.Args
			if c.Call.IsInvoke() {
				args = append([]ssa.Value{c.Call.Value}, args...)
			}
			for _, arg := range args {
				v := arg
				for {
					if mi, ok := v.(*ssa.MakeInterface); ok {
						v = mi.X
						continue
					}
					if ci, ok := v.(*ssa.ChangeInterface); ok {
						v = ci.X
						continue
					}
					break
				}
				if v == ssa.Value(sp) && stray == nil {
					stray = c
				}
			}
		}
	}
	if stray != nil {
		what := "a call"
		if o := stray.Call.StaticCallee(); o != nil {
			what = o.Name()
		} else if stray.Call.IsInvoke() {
			what = stray.Call.Method.Name()
		}
		r.Undecide(rule, name, a.p.Pos(stray.Pos()), "the stream is also handed to "+what+", an operation whose byte count the rule does not know: the step sequence is incomplete")
		return nil, false
	}
	var out []*step
	succ := sx.SuccessReturns(fn)
	for _, op := range ops {
		cpos := a.p.Pos(op.Call.Pos())
		if op.Stream != ssa.Value(sp) {
			r.Undecide(rule, name, cpos, "stream operation on something other than the function's stream parameter "+sp.Name())
			return nil, false
		}
		var scalar ssa.Value
		switch op.Kind {
		case sx.IOWrite:
			if val, typ, ord, ok := writerScalar(e, op); ok {
				cp := *op
				cp.Kind, cp.Type, cp.Data, cp.Order, cp.OrderOK = sx.IOBinaryWrite, typ, val, ord, ord != nil
				op = &cp
			}
		case sx.IOReadFull:
			if val, typ, ord, ok := readerScalar(e, op); ok {
				cp := *op
				cp.Kind, cp.Type, cp.Order, cp.OrderOK = sx.IOBinaryRead, typ, ord, ord != nil
				op = &cp
				scalar = val
			}
		}
		st := &step{op: op, scalar: scalar}
		b, err := e.Bytes(op)
		if err != nil {
			r.Violate(rule, name, cpos, "payload has no fixed wire size: "+err.Error())
			return nil, false
		}
		st.bytes = b
		sig, err := sx.WireSig(op.Type)
		if err != nil {
			r.Violate(rule, name, cpos, "payload has no fixed wire layout: "+err.Error())
			return nil, false
		}
		st.sig = sig
		if op.Kind == sx.IOWrite || op.Kind == sx.IOReadFull {
			// a raw byte run: its length is the layout
			st.sig = b.String() + "×u8"
		}
		if sl, ok := op.Type.Underlying().(*types.Slice); ok && (op.Kind == sx.IOBinaryRead || op.Kind == sx.IOBinaryWrite) {
			st.slice, st.elem = true, sl.Elem()
			n, err := e.PayloadLen(op)
			if err != nil {
				r.Undecide(rule, name, cpos, err.Error())
				return nil, false
			}
			st.n = n
		}
		dom := op.Call.Block()
		if op.InLoop {
			if op.Loop == nil {
				r.Undecide(rule, name, cpos, "stream operation inside a loop that is not a canonical counted loop")
				return nil, false
			}
			if len(e.LoopsOf(op.Call.Block())) != 1 {
				r.Undecide(rule, name, cpos, "stream operation inside nested loops")
				return nil, false
			}
			// one record per iteration
			if st.slice {
				r.Undecide(rule, name, cpos, "slice payload inside a loop")
				return nil, false
			}
			for _, x := range sx.LoopExitTargets(op.Loop.Loop) {
				if x != op.Loop.NormalExit() && !sx.ErrorOnly(x, nil) {
					r.Violate(rule, name, cpos, "the record loop can be left early on a success path: fewer records than counted")
					return nil, false
				}
			}
			// the call must run in every iteration
			for _, l := range op.Loop.Loop.Latch {
				if !op.Call.Block().Dominates(l) {
					r.Undecide(rule, name, cpos, "stream operation is conditional inside the record loop")
					return nil, false
				}
			}
			st.n = op.Loop.Trip()
			st.bytes = st.bytes.Mul(st.n)
			st.sig = "n×(" + st.sig + ")"
			st.slice = true
			st.elem = op.Type
			dom = op.Loop.Loop.Header
		}
		for _, ret := range succ {
			if !dom.Dominates(ret.Block()) {
				r.Violate(rule, name, a.p.Pos(ret.Pos()), fmt.Sprintf("a success return is reachable without executing the %s step at %s: the output is shorter than the law requires", op.Kind, cpos))
				return nil, false
			}
		}
		out = append(out, st)
	}
	return out, true
}

func describe(steps []*step) string {
	var parts []string
	for _, s := range steps {
		o := ""
		if s.op.Order != nil {
			o = " " + s.op.Order.Name()
		}
		parts = append(parts, fmt.Sprintf("%s[%s%s]=%s", s.op.Kind, s.sig, o, s.bytes))
	}
	return strings.Join(parts, " ; ")
}

// codecPair decides SYM-BYTES on the writer and LAY-2 between writer and reader.
// stlLaw additionally compares against the STL law size(Header)+4+size(Triangle)·n.
func codecPair(a *anchors, r *rep, w, rd *ssa.Function, stlLaw bool) {
	we, re := sx.NewEnv(w), sx.NewEnv(rd)
	wname, rname := a.p.FuncName(w), a.p.FuncName(rd)
	ws, ok1 := steps(a, r, "SYM-BYTES", w, we)
	rs, ok2 := steps(a, r, "LAY-2", rd, re)
	if !ok1 || !ok2 {
		return
	}
	// ---- SYM-BYTES on the writer
	total := sx.Poly{}
	for _, s := range ws {
		total = total.Add(s.bytes)
	}
	if stlLaw {
		hl, _ := sx.Flatten(a.tHeader)
		tl, _ := sx.Flatten(a.tTri)
		var rec *step
		for _, s := range ws {
			if s.slice {
				if rec != nil {
					rec = nil
					break
				}
				rec = s
			}
		}
		switch {
		case hl == nil || tl == nil:
			// reported by LAY-6
		case rec == nil:
			r.Violate("SYM-BYTES", wname, a.p.Pos(w.Pos()), "expected exactly one run of records in the writer; steps: "+describe(ws))
		default:
			want := sx.Const(hl.Size + 4).Add(rec.n.MulConst(tl.Size))
			if !total.Equal(want) {
				r.Violate("SYM-BYTES", wname, a.p.Pos(w.Pos()), fmt.Sprintf("bytes emitted = %s, the law is size(Header)+4+size(Triangle)·n = %s", total, want), describe(ws))
			} else if !types.Identical(rec.elem, a.tTri) {
				r.Violate("SYM-BYTES", wname, a.p.Pos(rec.op.Call.Pos()), "the record run is not a run of stl.Triangle values")
			} else if src := recordSource(a, we, rec); src == "" {
				r.Violate("SYM-BYTES", wname, a.p.Pos(rec.op.Call.Pos()), "the records written are not the Triangles field of the Binary parameter (n is not its triangle count)")
			} else {
				r.Hold("SYM-BYTES", wname, a.p.Pos(w.Pos()), fmt.Sprintf("bytes emitted on every success path = %s with n = len(%s)", total, src), describe(ws))
			}
		}
	} else {
		r.Hold("SYM-BYTES", wname, a.p.Pos(w.Pos()), "bytes emitted = "+total.String(), describe(ws))
	}
	// ---- LAY-2 step by step
	if len(ws) != len(rs) {
		r.Violate("LAY-2", wname+"~"+rname, a.p.Pos(rd.Pos()), fmt.Sprintf("writer performs %d stream steps, reader %d", len(ws), len(rs)), "writer: "+describe(ws), "reader: "+describe(rs))
		return
	}
	for i := range ws {
		k := fmt.Sprintf("%s~%s#step%d", wname, rname, i)
		wp, rp := ws[i], rs[i]
		pos := a.p.Pos(rp.op.Call.Pos())
		if wp.sig != rp.sig {
			r.Violate("LAY-2", k, pos, fmt.Sprintf("writer emits %s, reader consumes %s", wp.sig, rp.sig))
			continue
		}
		multi := strings.ContainsAny(wp.sig, "0123456789") && !onlyBytes(wp.sig)
		bad := false
		for _, side := range []struct {
			s   *step
			who string
		}{{wp, "writer"}, {rp, "reader"}} {
			o := side.s.op
			if o.Kind != sx.IOBinaryRead && o.Kind != sx.IOBinaryWrite {
				continue
			}
			if !o.OrderOK {
				r.Undecide("LAY-2", k, a.p.Pos(o.Call.Pos()), side.who+": byte order operand is not a package-level ByteOrder object")
				bad = true
			} else if !sx.IsGlobal(o.Order, "encoding/binary", "LittleEndian") && multi {
				r.Violate("LAY-2", k, a.p.Pos(o.Call.Pos()), side.who+" uses encoding/binary."+o.Order.Name()+"; binary STL is little-endian")
				bad = true
			}
		}
		if bad {
			continue
		}
		if wp.op.Order != nil && rp.op.Order != nil && wp.op.Order != rp.op.Order && multi {
			r.Violate("LAY-2", k, pos, "writer and reader use different byte-order objects")
			continue
		}
		r.Hold("LAY-2", k, pos, "both sides: "+wp.sig+orderFact(wp, rp))
	}
	// ---- count roles
	for i := range ws {
		if !ws[i].slice {
			continue
		}
		kw := fmt.Sprintf("%s#count", wname)
		kr := fmt.Sprintf("%s#count", rname)
		// writer: some earlier scalar step carries n
		found := -1
		for j := 0; j < i; j++ {
			if ws[j].slice || ws[j].op.Kind != sx.IOBinaryWrite {
				continue
			}
			if !isIntType(ws[j].op.Type) {
				continue
			}
			found = j
			if we.Int(ws[j].op.Data).Equal(ws[i].n) {
				r.Hold("LAY-2", kw, a.p.Pos(ws[j].op.Call.Pos()), fmt.Sprintf("count written = %s = number of records written", ws[i].n))
			} else {
				r.Violate("LAY-2", kw, a.p.Pos(ws[j].op.Call.Pos()), fmt.Sprintf("count written is %s but %s records follow", we.Int(ws[j].op.Data), ws[i].n))
			}
			if stlLaw {
				if b, ok := ws[j].op.Type.Underlying().(*types.Basic); !ok || b.Kind() != types.Uint32 {
					r.Violate("LAY-6", wname+"#count", a.p.Pos(ws[j].op.Call.Pos()), "the triangle count of a binary STL file is a uint32; written as "+ws[j].op.Type.String())
				} else {
					r.Hold("LAY-6", wname+"#count", a.p.Pos(ws[j].op.Call.Pos()), "count wire type uint32 = 4 bytes")
				}
			}
		}
		if found < 0 {
			r.Violate("LAY-2", kw, a.p.Pos(ws[i].op.Call.Pos()), "no count is written before the run of records")
			continue
		}
		// reader: the run is sized by the value read at step `found`
		cnt := rs[found]
		if cnt.scalar != nil {
			if re.Int(cnt.scalar).Equal(rs[i].n) && beforeInstr(cnt.op.Call, rs[i].op.Call) {
				r.Hold("LAY-2", kr, a.p.Pos(rs[i].op.Call.Pos()), fmt.Sprintf("records read = %s = the count decoded from the bytes of the preceding step", rs[i].n))
			} else {
				r.Violate("LAY-2", kr, a.p.Pos(rs[i].op.Call.Pos()), fmt.Sprintf("the run of records read has length %s, which is not the count decoded from the stream (%s)", rs[i].n, re.Int(cnt.scalar)))
			}
			continue
		}
		al, isAl := cnt.op.Data.(*ssa.Alloc)
		if !isAl {
			r.Undecide("LAY-2", kr, a.p.Pos(cnt.op.Call.Pos()), "count is not read into a local variable")
			continue
		}
		okc := false
		var seen []string
		for _, ref := range *al.Referrers() {
			ld, isLd := ref.(*ssa.UnOp)
			if !isLd {
				continue
			}
			if !beforeInstr(cnt.op.Call, ld) {
				continue
			}
			seen = append(seen, re.Int(ld).String())
			if re.Int(ld).Equal(rs[i].n) {
				okc = true
			}
		}
		if okc && beforeInstr(cnt.op.Call, rs[i].op.Call) {
			r.Hold("LAY-2", kr, a.p.Pos(rs[i].op.Call.Pos()), fmt.Sprintf("records read = %s = the count read by the preceding step", rs[i].n))
		} else {
			r.Violate("LAY-2", kr, a.p.Pos(rs[i].op.Call.Pos()), fmt.Sprintf("the run of records read has length %s, which is not the count read from the stream (%s)", rs[i].n, strings.Join(seen, ", ")))
		}
	}
	// ---- reader result is what was decoded
	if stlLaw {
		readerResult(a, r, rd, re, rs)
	}
}

func orderFact(w, r *step) string {
	if w.op.Order != nil && r.op.Order != nil {
		return ", byte order encoding/binary." + w.op.Order.Name()
	}
	if r.op.Order != nil {
		return ", reader byte order encoding/binary." + r.op.Order.Name() + " (single bytes)"
	}
	return ""
}

func onlyBytes(sig string) bool {
	// every scalar kind mentioned is a 1-byte kind
	for _, k := range []string{"u16", "i16", "u32", "i32", "f32", "u64", "i64", "f64", "c64", "c128"} {
		if strings.Contains(sig, k) {
			return false
		}
	}
	return true
}

func isIntType(t types.Type) bool {
	b, ok := t.Underlying().(*types.Basic)
	return ok && b.Info()&types.IsInteger != 0
}

func beforeInstr(x, y ssa.Instruction) bool {
	if x.Block() == y.Block() {
		for _, in := range x.Block().Instrs {
			if in == x {
				return true
			}
			if in == y {
				return false
			}
		}
	}
	return x.Block().Dominates(y.Block())
}

// recordSource returns the access path of the records payload when it is the
// Triangles field of a Binary-typed parameter ("bin.Triangles"), else "".
func recordSource(a *anchors, e *sx.Env, rec *step) string {
	var v ssa.Value = rec.op.Data
	if rec.op.InLoop {
		// per-record write inside `range bin.Triangles`: the trip count is len(path)
		for _, s := range rec.n.Symbols() {
			if strings.HasPrefix(s, "len(") && strings.HasSuffix(s, ".Triangles)") {
				for _, root := range e.SymRoots(s) {
					if p, ok := root.(*ssa.Parameter); ok && types.Identical(p.Type(), a.tBinary) {
						if c, isC := rec.n.Sub(sx.Sym(s)).IsConst(); isC && c == 0 {
							return strings.TrimSuffix(strings.TrimPrefix(s, "len("), ")")
						}
					}
				}
			}
		}
		return ""
	}
	root, off := e.SliceRoot(v)
	if !off.IsZero() {
		return ""
	}
	ld, ok := root.(*ssa.UnOp)
	if !ok {
		return ""
	}
	ad := sx.ResolveAddr(ld.X)
	ti := sx.FieldIndex(a.tBinary, "Triangles")
	if len(ad.Path) != 1 || ad.Path[0] != ti {
		return ""
	}
	al, ok := ad.Root.(*ssa.Alloc)
	if !ok {
		if p, ok := ad.Root.(*ssa.Parameter); ok && isPtrTo(p.Type(), a.tBinary) {
			return p.Name() + ".Triangles"
		}
		return ""
	}
	p, ok := e.Spill(al)
	if !ok || !types.Identical(p.Type(), a.tBinary) {
		return ""
	}
	return p.Name() + ".Triangles"
}

func isPtrTo(t, elem types.Type) bool {
	p, ok := t.Underlying().(*types.Pointer)
	return ok && types.Identical(p.Elem(), elem)
}

// readerResult: the Binary returned by Read carries the header and the records that were decoded.
func readerResult(a *anchors, r *rep, rd *ssa.Function, e *sx.Env, rs []*step) {
	name := a.p.FuncName(rd)
	hi, ti := sx.FieldIndex(a.tBinary, "Header"), sx.FieldIndex(a.tBinary, "Triangles")
	for _, ret := range sx.SuccessReturns(rd) {
		if len(ret.Results) == 0 {
			continue
		}
		res := ret.Results[0]
		for _, f := range []struct {
			idx  int
			name string
			want func(*step) bool
		}{
			{hi, "Header", func(s *step) bool { return len(rs) > 0 && s == rs[0] && !s.slice }},
			{ti, "Triangles", func(s *step) bool { return s.slice }},
		} {
			sl := sx.NewSlicer(a.inline).WithEnv(e)
			switch {
			case isPtrTo(res.Type(), a.tBinary):
				if al, ok := res.(*ssa.Alloc); ok {
					sl.FromStorage(al, []int{f.idx}, ret, nil)
				} else {
					sl.From(res, nil, nil)
				}
			default:
				sl.From(res, []int{f.idx}, nil)
			}
			okf := false
			for _, wc := range sl.Writers() {
				for _, s := range rs {
					if s.op.Call == wc && f.want(s) {
						okf = true
					}
				}
			}
			k := name + "#result." + f.name
			if okf {
				r.Hold("LAY-2", k, a.p.Pos(ret.Pos()), "returned "+f.name+" is the storage filled by the corresponding read step")
			} else {
				r.Violate("LAY-2", k, a.p.Pos(ret.Pos()), "the "+f.name+" returned is not the value decoded from the stream")
			}
		}
	}
}

func derefType(t types.Type) types.Type {
	if p, ok := t.Underlying().(*types.Pointer); ok {
		return p.Elem()
	}
	return t
}

// ---------------------------------------------------------------------------
// SYM-BYTES at the call sites of Write in WriteMesh

func meshParam(a *anchors, fn *ssa.Function) *ssa.Parameter {
	for _, p := range fn.Params {
		if n, ok := p.Type().(*types.Named); ok && n.Obj().Name() == "Mesh" && n.Obj().Pkg() == a.modeling {
			return p
		}
	}
	return nil
}

func (a *anchors) isMeshMethod(c *ssa.Call, name string) bool {
	return isMethodOf(c, a.modelingPath(), "Mesh", name)
}

func isMethodOf(c *ssa.Call, pkg, typ, name string) bool {
	callee := c.Call.StaticCallee()
	if callee == nil {
		return false
	}
	o, _ := callee.Object().(*types.Func)
	if o == nil || o.Name() != name {
		return false
	}
	sig := o.Type().(*types.Signature)
	if sig.Recv() == nil {
		return false
	}
	t := sig.Recv().Type()
	if p, ok := t.(*types.Pointer); ok {
		t = p.Elem()
	}
	n, ok := t.(*types.Named)
	return ok && n.Obj().Name() == typ && n.Obj().Pkg() != nil && n.Obj().Pkg().Path() == pkg
}

// fieldValueOfStruct returns the value stored into field idx of the struct
// value v (a load of a local composite literal); zero=true when nothing is stored.
func fieldValueOfStruct(e *sx.Env, v ssa.Value, idx int) (val ssa.Value, zero, ok bool) {
	ld, isLd := v.(*ssa.UnOp)
	if !isLd {
		return nil, false, false
	}
	ad := sx.ResolveAddr(ld.X)
	al, isAl := ad.Root.(*ssa.Alloc)
	if !isAl || len(ad.Path) != 0 || ad.Slice != nil {
		return nil, false, false
	}
	var hit []sx.StoreAt
	for _, st := range e.Stores(al) {
		if sx.PathsOverlap(st.Ad.Path, []int{idx}) {
			hit = append(hit, st)
		}
	}
	if len(hit) == 0 {
		return nil, true, len(e.Escapes(al)) == 0
	}
	if len(hit) != 1 || len(hit[0].Ad.Path) != 1 || !beforeInstr(hit[0].St, ld) {
		return nil, false, false
	}
	return hit[0].St.Val, false, true
}

func writeCalls(fn, write *ssa.Function) []*ssa.Call {
	var out []*ssa.Call
	for _, b := range fn.Blocks {
		for _, in := range b.Instrs {
			if c, ok := in.(*ssa.Call); ok && c.Call.StaticCallee() == write {
				out = append(out, c)
			}
		}
	}
	return out
}

func writeMeshBytes(a *anchors, r *rep, fn, write *ssa.Function) {
	name := a.p.FuncName(fn)
	e := sx.NewEnv(fn)
	m := meshParam(a, fn)
	if m == nil {
		r.Undecide("SYM-BYTES", name, a.p.Pos(fn.Pos()), "no modeling.Mesh parameter")
		return
	}
	// the binary argument index of Write
	bi := -1
	for i, p := range write.Params {
		if types.Identical(p.Type(), a.tBinary) {
			bi = i
		}
	}
	if bi < 0 {
		r.Undecide("SYM-BYTES", name, a.p.Pos(fn.Pos()), "Write has no Binary parameter")
		return
	}
	var prim []sx.Poly
	for _, b := range fn.Blocks {
		for _, in := range b.Instrs {
			if c, ok := in.(*ssa.Call); ok && a.isMeshMethod(c, "PrimitiveCount") && c.Call.Args[0] == ssa.Value(m) {
				prim = append(prim, e.Int(c))
			}
		}
	}
	calls := writeCalls(fn, write)
	ti := sx.FieldIndex(a.tBinary, "Triangles")
	for k, c := range calls {
		key := fmt.Sprintf("%s→Write#%d", name, k)
		pos := a.p.Pos(c.Pos())
		tv, zero, ok := fieldValueOfStruct(e, c.Call.Args[bi], ti)
		if !ok {
			r.Undecide("SYM-BYTES", key, pos, "the Binary passed to Write is not a local composite literal with a single Triangles assignment")
			continue
		}
		n := sx.Const(0)
		if !zero {
			n = e.Len(tv)
		}
		isPrim := false
		for _, p := range prim {
			if n.Equal(p) {
				isPrim = true
			}
		}
		switch {
		case isPrim:
			r.Hold("SYM-BYTES", key, pos, fmt.Sprintf("len(Triangles) = %s", n))
		case n.IsZero():
			if guardedByNoAttr(a, c, m, a.posAttr) {
				r.Hold("SYM-BYTES", key, pos, "len(Triangles) = 0 on the branch where the mesh has no "+a.posAttr+" attribute")
			} else {
				r.Violate("SYM-BYTES", key, pos, "an empty record list is written on a path that is not guarded by the absence of the position attribute: 84 bytes for a mesh with n triangles")
			}
		default:
			r.Violate("SYM-BYTES", key, pos, fmt.Sprintf("WriteMesh hands Write %s records; the law needs exactly PrimitiveCount() of the mesh", n))
		}
	}
	if len(calls) == 0 {
		r.Violate("SYM-BYTES", name, a.p.Pos(fn.Pos()), "WriteMesh never calls Write")
		return
	}
	// every non-error exit returns the outcome of exactly one Write
	okAll := true
	for _, b := range fn.Blocks {
		if len(b.Instrs) == 0 {
			continue
		}
		ret, isRet := b.Instrs[len(b.Instrs)-1].(*ssa.Return)
		if !isRet || len(ret.Results) == 0 {
			continue
		}
		for _, leaf := range phiLeaves(ret.Results[len(ret.Results)-1]) {
			switch x := leaf.(type) {
			case *ssa.Call:
				if x.Call.StaticCallee() == write {
					continue
				}
				continue // some error constructor
			case *ssa.Const:
				if x.IsNil() {
					okAll = false
					r.Violate("SYM-BYTES", name+"#return", a.p.Pos(ret.Pos()), "a path returns success without forwarding the result of Write: nothing (or not everything) was written")
				}
			}
		}
	}
	// no Write call may be followed by another one
	for i, c1 := range calls {
		for j, c2 := range calls {
			if i != j && canFollow(c1, c2) {
				okAll = false
				r.Violate("SYM-BYTES", name+"#return", a.p.Pos(c2.Pos()), "two Write calls can execute on one path: more than one STL body is emitted")
			}
		}
	}
	if okAll {
		r.Hold("SYM-BYTES", name+"#return", a.p.Pos(fn.Pos()), fmt.Sprintf("%d Write call sites, mutually exclusive; no success return bypasses them", len(calls)))
	}
}

func canFollow(x, y ssa.Instruction) bool {
	if x.Block() == y.Block() {
		return beforeInstr(x, y) && x != y
	}
	seen := map[*ssa.BasicBlock]bool{}
	stack := append([]*ssa.BasicBlock{}, x.Block().Succs...)
	for len(stack) > 0 {
		n := stack[len(stack)-1]
		stack = stack[:len(stack)-1]
		if n == y.Block() {
			return true
		}
		if seen[n] {
			continue
		}
		seen[n] = true
		stack = append(stack, n.Succs...)
	}
	return false
}

func phiLeaves(v ssa.Value) []ssa.Value {
	var out []ssa.Value
	seen := map[ssa.Value]bool{}
	var walk func(v ssa.Value)
	walk = func(v ssa.Value) {
		if seen[v] {
			return
		}
		seen[v] = true
		if p, ok := v.(*ssa.Phi); ok {
			for _, e := range p.Edges {
				walk(e)
			}
			return
		}
		out = append(out, v)
	}
	walk(v)
	return out
}

// guardedByNoAttr: call c executes only when m.HasFloat3Attribute(attr) was false.
func guardedByNoAttr(a *anchors, c *ssa.Call, m *ssa.Parameter, attr string) bool {
	for b := c.Block(); b != nil; b = b.Idom() {
		d := b.Idom()
		if d == nil || len(d.Instrs) == 0 {
			continue
		}
		iff, ok := d.Instrs[len(d.Instrs)-1].(*ssa.If)
		if !ok {
			continue
		}
		cond := iff.Cond
		neg := false
		if u, ok := cond.(*ssa.UnOp); ok && u.Op.String() == "!" {
			cond, neg = u.X, true
		}
		hc, ok := cond.(*ssa.Call)
		if !ok || !a.isMeshMethod(hc, "HasFloat3Attribute") || hc.Call.Args[0] != ssa.Value(m) {
			continue
		}
		if s, ok := sx.ConstStringArg(hc, 1); !ok || s != attr {
			continue
		}
		// which successor of d leads to b exclusively?
		falseSucc, trueSucc := d.Succs[1], d.Succs[0]
		if neg {
			falseSucc, trueSucc = trueSucc, falseSucc
		}
		if falseSucc.Dominates(c.Block()) && !trueSucc.Dominates(c.Block()) && len(falseSucc.Preds) == 1 {
			return true
		}
	}
	return false
}

// ---------------------------------------------------------------------------
// SHAPE-2 / AXIS / NRM-1 on the gather side (WriteMesh)

type leaf struct {
	path  []int
	field int // index of the Triangle field
	comp  int // component within Vec, -1 for scalars
	name  string
}

func triLeaves(a *anchors) []leaf {
	var out []leaf
	st := a.tTri.Underlying().(*types.Struct)
	for i := 0; i < st.NumFields(); i++ {
		f := st.Field(i)
		if vs, ok := f.Type().Underlying().(*types.Struct); ok {
			for j := 0; j < vs.NumFields(); j++ {
				out = append(out, leaf{path: []int{i, j}, field: i, comp: j, name: f.Name() + "." + vs.Field(j).Name()})
			}
		} else {
			out = append(out, leaf{path: []int{i}, field: i, comp: -1, name: f.Name()})
		}
	}
	return out
}

func hasPrefix(p, prefix []int) bool {
	if len(prefix) > len(p) {
		return false
	}
	for i := range prefix {
		if p[i] != prefix[i] {
			return false
		}
	}
	return true
}

// cornerOrdinal maps Tri.P{1,2,3}Vec3Attr to 1..3.
func (a *anchors) cornerOrdinal(c *ssa.Call) int {
	for k := 1; k <= 3; k++ {
		if isMethodOf(c, a.modelingPath(), "Tri", fmt.Sprintf("P%dVec3Attr", k)) {
			return k
		}
	}
	return 0
}

func setStr(m map[int]bool, f func(int) string) string {
	var ks []int
	for k := range m {
		ks = append(ks, k)
	}
	sort.Ints(ks)
	var parts []string
	for _, k := range ks {
		parts = append(parts, f(k))
	}
	return "{" + strings.Join(parts, ",") + "}"
}

type leafClass struct {
	kind     string // "built", "carry", "zero", "const", "unknown", "bad"
	msg      string
	corners  map[int]bool
	attrs    map[string]bool
	axes     map[int]bool
	normed   bool   // a length-normalising operation (v/|v|) is on the path
	normHow  string // which one
	normUnk  string // an operation on the path that cannot be classified as normalising or not
	swizzled bool
	normCall ssa.Value
	normCtx  *sx.Ctx
	altered  string // first value-changing operation on the data path ("" = pure copy / conversion)
	// per SSA value: in how many visited contexts it was classified as a
	// length-normalising operation / as a scaling that is not one (NRM-PATH)
	normAt  map[ssa.Value]int
	normNot map[ssa.Value]int
}

// classifyGather classifies what one leaf of a record stored at tris[idx] is made of.
func classifyGather(a *anchors, e *sx.Env, m *ssa.Parameter, root ssa.Value, idx sx.Poly, val ssa.Value, rest []int, lf leaf) leafClass {
	sl := sx.NewSlicer(a.inline).WithEnv(e)
	sl.From(val, rest, nil)
	lc := leafClass{corners: map[int]bool{}, attrs: map[string]bool{}, axes: sl.AxisTags()}
	lc.swizzled = len(sl.Swizzles()) > 0
	lc.altered = a.valueChanging(sl)
	for _, c := range sl.Calls() {
		if k := a.cornerOrdinal(c); k > 0 {
			lc.corners[k] = true
			if s, ok := sx.ConstStringArg(c, 1); ok {
				lc.attrs[s] = true
			} else {
				lc.attrs["<dynamic>"] = true
			}
		}
		if sx.VecMethod(ssaCallee(c), "Normalized") {
			lc.normed, lc.normHow = true, "vector3.Normalized"
			lc.normCall = c
			for _, vis := range sl.Visits {
				if vis.Kind == sx.VValue && vis.V == ssa.Value(c) {
					lc.normCtx = vis.Ctx
				}
			}
		}
		if a.isMeshMethod(c, "Tri") {
			if c.Call.Args[0] != ssa.Value(m) {
				lc.kind, lc.msg = "bad", "the triangle is taken from a different mesh value than the one being written"
				return lc
			}
			if ti := e.Int(c.Call.Args[1]); !ti.Equal(idx) {
				lc.kind, lc.msg = "bad", fmt.Sprintf("record %s is gathered from Tri(%s)", idx, ti)
				return lc
			}
		}
	}
	a.classifyNormalisation(sl, &lc)
	carry := 0
	for _, mr := range sl.MemReads() {
		r2, off := e.SliceRoot(mr.Base)
		if r2 != root {
			continue
		}
		carry++
		ri := e.Int(mr.Index).Add(off)
		if !ri.Equal(idx) {
			lc.kind, lc.msg = "bad", fmt.Sprintf("%s of record %s is copied from record %s", lf.name, idx, ri)
			return lc
		}
		if !samePath(mr.Path, lf.path) {
			lc.kind, lc.msg = "bad", fmt.Sprintf("%s is copied from a different field of the record", lf.name)
			return lc
		}
	}
	switch {
	case len(lc.corners) > 0:
		lc.kind = "built"
	case carry > 0:
		lc.kind = "carry"
	case len(sl.Zeros()) > 0 && sl.OnlyConsts():
		lc.kind = "zero"
	case sl.OnlyConsts():
		lc.kind = "const"
	default:
		lc.kind = "unknown"
	}
	return lc
}

func ssaCallee(c *ssa.Call) *types.Func {
	callee := c.Call.StaticCallee()
	if callee == nil {
		return nil
	}
	if o, ok := callee.Object().(*types.Func); ok {
		return o
	}
	if callee.Origin() != nil {
		if o, ok := callee.Origin().Object().(*types.Func); ok {
			return o
		}
	}
	return nil
}

func samePath(p, q []int) bool {
	if len(p) != len(q) {
		return false
	}
	for i := range p {
		if p[i] != q[i] {
			return false
		}
	}
	return true
}

func gather(a *anchors, r *rep, fn, write *ssa.Function) {
	name := a.p.FuncName(fn)
	e := sx.NewEnv(fn)
	m := meshParam(a, fn)
	if m == nil {
		return
	}
	bi := -1
	for i, p := range write.Params {
		if types.Identical(p.Type(), a.tBinary) {
			bi = i
		}
	}
	ti := sx.FieldIndex(a.tBinary, "Triangles")
	// the record array: the non-empty Triangles value handed to Write
	var root ssa.Value
	for _, c := range writeCalls(fn, write) {
		if bi < 0 {
			break
		}
		tv, zero, ok := fieldValueOfStruct(e, c.Call.Args[bi], ti)
		if !ok || zero {
			continue
		}
		if e.Len(tv).IsZero() {
			continue
		}
		rt, off := e.SliceRoot(tv)
		if !off.IsZero() {
			r.Undecide("SHAPE-2", name+"#records", a.p.Pos(c.Pos()), "the records handed to Write are a re-sliced array")
			return
		}
		if root != nil && root != rt {
			r.Undecide("SHAPE-2", name+"#records", a.p.Pos(c.Pos()), "more than one record array is handed to Write")
			return
		}
		root = rt
	}
	mk, isMk := root.(*ssa.MakeSlice)
	if root == nil || !isMk {
		r.Undecide("SHAPE-2", name+"#records", a.p.Pos(fn.Pos()), "the record array handed to Write is not a make([]Triangle, n) of this function")
		return
	}
	length := e.Len(mk)

	// stores into the record array, grouped by innermost loop
	type site struct {
		st   sx.StoreAt
		idx  sx.Poly
		ivs  []*sx.IV
		loop *sx.IV
	}
	var sites []site
	for _, st := range e.SliceStores() {
		rt, off := e.SliceRoot(st.Ad.Slice)
		if rt != root {
			continue
		}
		ivs, ok := e.EnclosingIVs(st.St.Block())
		if !ok || len(ivs) == 0 {
			r.Undecide("SHAPE-2", name+"#records", a.p.Pos(st.St.Pos()), "a record is stored outside a canonical counted loop")
			return
		}
		sites = append(sites, site{st: st, idx: e.Int(st.Ad.SliceIdx).Add(off), ivs: ivs, loop: ivs[len(ivs)-1]})
	}
	if len(sites) == 0 {
		r.Violate("SHAPE-2", name+"#records", a.p.Pos(mk.Pos()), "the record array is never filled")
		return
	}
	// SYM-STRIDE per loop: the subscripts written cover [0, len) exactly once
	byLoop := map[*sx.IV][]site{}
	var loopOrder []*sx.IV
	for _, s := range sites {
		if _, ok := byLoop[s.loop]; !ok {
			loopOrder = append(loopOrder, s.loop)
		}
		byLoop[s.loop] = append(byLoop[s.loop], s)
	}
	for li, lp := range loopOrder {
		var idx []sx.Poly
		for _, s := range byLoop[lp] {
			dup := false
			for _, p := range idx {
				if p.Equal(s.idx) {
					dup = true
				}
			}
			if !dup {
				idx = append(idx, s.idx)
			}
		}
		key := fmt.Sprintf("%s#records.loop%d", name, li)
		pos := a.p.Pos(byLoop[lp][0].st.St.Pos())
		res := sx.Cover(idx, byLoop[lp][0].ivs, length)
		for _, st := range byLoop[lp] {
			// stores that only fill the Normal may be conditional (mesh without normals)
			if len(st.st.Ad.Path) > 0 && st.st.Ad.Path[0] == sx.FieldIndex(a.tTri, "Normal") {
				continue
			}
			if res.OK && !everyIteration(st.st.St.Block(), st.ivs) {
				res.OK, res.Why = false, "a record is stored conditionally inside the gather loop (one record per triangle, unconditionally)"
			}
		}
		early := false
		for _, x := range sx.LoopExitTargets(lp.Loop) {
			if x != lp.NormalExit() && !sx.ErrorOnly(x, nil) {
				early = true
			}
		}
		switch {
		case !res.OK:
			r.Violate("SYM-STRIDE", key, pos, "records written do not cover the record array exactly once: "+res.Why)
		case early:
			r.Violate("SYM-STRIDE", key, pos, "the gather loop can be left early on a success path")
		default:
			r.Hold("SYM-STRIDE", key, pos, res.Explain)
		}
	}

	// per leaf
	leaves := triLeaves(a)
	vertexField := map[int]int{} // field index -> corner ordinal
	normalField := sx.FieldIndex(a.tTri, "Normal")
	for k := 1; k <= 3; k++ {
		vertexField[sx.FieldIndex(a.tTri, fmt.Sprintf("Vertex%d", k))] = k
	}
	built := map[string]bool{}
	normBuilt, normNormalised := false, true
	normUnknown, normHow := "", ""
	var normPos string
	var normCall ssa.Value
	var normCtx *sx.Ctx
	for _, lf := range leaves {
		key := fmt.Sprintf("%s#Triangle.%s", name, lf.name)
		k, isVertex := vertexField[lf.field]
		isNormal := lf.field == normalField
		if !isVertex && !isNormal {
			continue // attribute word: not part of the property
		}
		verdict, msg := ob.Holds, ""
		var pos string
		var facts []string
		var npAgg normPathAgg
		for _, s := range sites {
			if !sx.PathsOverlap(s.st.Ad.Path, lf.path) {
				continue
			}
			var rest []int
			if len(s.st.Ad.Path) <= len(lf.path) {
				rest = lf.path[len(s.st.Ad.Path):]
			}
			lc := classifyGather(a, e, m, root, s.idx, s.st.St.Val, rest, lf)
			p := a.p.Pos(s.st.St.Pos())
			fail := func(v ob.Verdict, m string) {
				if verdict == ob.Holds {
					verdict, msg, pos = v, m, p
				}
			}
			if lc.swizzled {
				fail(ob.Violation, lf.name+" passes through a component-permuting vector method")
			}
			switch lc.kind {
			case "bad":
				fail(ob.Violation, lc.msg)
			case "unknown":
				fail(ob.Undecided, lf.name+" is computed through an idiom the rule does not recognise (no Tri.PkVec3Attr gather, no carry-over of the same record)")
			case "carry":
				facts = append(facts, "carried over from the same record at "+p)
			case "zero", "const":
				if isVertex {
					fail(ob.Violation, lf.name+" is left at a constant / zero value by the store at "+p)
				} else {
					facts = append(facts, "zero at "+p)
				}
			case "built":
				wantAttr := a.posAttr
				wantCorners := map[int]bool{k: true}
				if isNormal {
					npAgg.add(a.normEveryPath(e, s.st.St.Val, rest, &lc), p)
					wantAttr = a.nrmAttr
					wantCorners = map[int]bool{1: true, 2: true, 3: true}
				}
				cs := setStr(lc.corners, func(i int) string { return fmt.Sprintf("P%d", i) })
				if len(lc.attrs) != 1 || !lc.attrs[wantAttr] {
					var as []string
					for s := range lc.attrs {
						as = append(as, s)
					}
					sort.Strings(as)
					fail(ob.Violation, fmt.Sprintf("%s is gathered from attribute %v, expected %q", lf.name, as, wantAttr))
				} else if !sameSet(lc.corners, wantCorners) {
					if isNormal {
						fail(ob.Violation, fmt.Sprintf("the facet normal depends on corners %s; it must be the mean of the normals of all three corners P1,P2,P3", cs))
					} else {
						fail(ob.Violation, fmt.Sprintf("%s is gathered from corner %s, expected P%d", lf.name, cs, k))
					}
				} else if isVertex && lc.altered != "" {
					fail(ob.Violation, lf.name+" is not a plain float32 copy of the corner position: it passes through "+lc.altered)
				} else if len(lc.axes) == 0 {
					fail(ob.Undecided, lf.name+": no component accessor on the data path; cannot tell which axis is stored")
				} else if !lc.axes[lf.comp] {
					fail(ob.Violation, fmt.Sprintf("%s receives component %s", lf.name, setStr(lc.axes, sx.AxisName)))
				} else {
					built[lf.name] = true
					facts = append(facts, fmt.Sprintf("built at %s from Tri(%s).%s(%q).%s()", p, s.idx, cs, wantAttr, setStr(lc.axes, sx.AxisName)))
					if isNormal {
						normBuilt = true
						normPos = p
						if !lc.normed {
							normNormalised = false
							if lc.normUnk != "" && normUnknown == "" {
								normUnknown = lc.normUnk
							}
						} else if normHow == "" {
							normHow = lc.normHow
						}
						if lc.normCall != nil {
							normCall, normCtx = lc.normCall, lc.normCtx
						}
					}
				}
			}
		}
		if verdict == ob.Holds && isVertex && !built[lf.name] {
			verdict, msg, pos = ob.Violation, lf.name+" is never gathered from the mesh", a.p.Pos(mk.Pos())
		}
		rule := "SHAPE-2"
		if isNormal {
			rule = "NRM-1"
		}
		if verdict != ob.Holds && strings.Contains(msg, "receives component") {
			rule = "AXIS-1"
		}
		if pos == "" {
			pos = a.p.Pos(mk.Pos())
		}
		r.Add(verdict, rule, key, pos, msg, facts...)
		if isNormal {
			npAgg.report(r, key+"#every-path", "Triangle."+lf.name)
		}
	}
	// NRM-1 summary: a normal is computed at all, and it is normalised
	key := name + "#facet-normal"
	switch {
	case !normBuilt:
		r.Violate("NRM-1", key, a.p.Pos(fn.Pos()), "no store computes Triangle.Normal from the corner normals (attribute "+a.nrmAttr+")")
	case !normNormalised && normUnknown != "":
		r.Undecide("NRM-1", key, normPos, "no length-normalising operation recognised on the path of the facet normal, and it passes through "+normUnknown+", which the rule cannot classify")
	case !normNormalised:
		r.Violate("NRM-1", key, normPos, "the mean of the corner normals reaches Triangle.Normal without any length-normalising operation (no Normalized, no division by Length()/sqrt of a sum of squares): the facet normal is the plain mean, not the normalised mean")
	default:
		r.Hold("NRM-1", key, normPos, "Normal = normalised f(P1,P2,P3 of attribute "+a.nrmAttr+") of the same triangle (through "+normHow+")")
		if normCall != nil {
			meanDirection(a, r, e, name+"#facet-normal.direction", normPos, normCall, normCtx)
		}
	}
}

func sameSet(x, y map[int]bool) bool {
	if len(x) != len(y) {
		return false
	}
	for k := range x {
		if !y[k] {
			return false
		}
	}
	return true
}

// valueChanging returns a description of the first operation on a data slice
// that can change a coordinate value: float arithmetic, or a call other than
// the gather accessors, conversions, component accessors and positional
// constructors. Corner positions must reach the file (and come back) unchanged
// up to float32 rounding.
func (a *anchors) valueChanging(sl *sx.Slicer) string {
	for _, v := range sl.Values() {
		switch x := v.(type) {
		case *ssa.BinOp:
			if b, ok := x.Type().Underlying().(*types.Basic); ok && b.Info()&types.IsFloat != 0 {
				return "float arithmetic (" + x.Op.String() + ")"
			}
		case *ssa.UnOp:
			if b, ok := x.Type().Underlying().(*types.Basic); ok && b.Info()&types.IsFloat != 0 && x.Op.String() == "-" {
				return "negation"
			}
		case *ssa.Call:
			obj := ssaCallee(x)
			if obj == nil {
				if x.Call.StaticCallee() != nil && a.inline(x.Call.StaticCallee()) {
					continue
				}
				return "a dynamic call"
			}
			if _, ok := sx.AxisGetter(obj); ok {
				continue
			}
			if _, ok := sx.VecNew(obj); ok {
				continue
			}
			if sx.VecMethod(obj, "ToFloat32") || sx.VecMethod(obj, "ToFloat64") {
				continue
			}
			if a.cornerOrdinal(x) > 0 || a.isMeshMethod(x, "Tri") || a.isMeshMethod(x, "PrimitiveCount") {
				continue
			}
			if callee := x.Call.StaticCallee(); callee != nil && a.inline(callee) {
				continue // package-local helper: its body is on the slice as well
			}
			if obj.Pkg() != nil && obj.Pkg().Path() == "fmt" {
				continue
			}
			if obj.Name() == "At" && obj.Pkg() != nil && obj.Pkg().Path() == "github.com/EliCDavis/iter" {
				return "a direct attribute subscript (iterator At) that bypasses the Tri view / index buffer"
			}
			return "call of " + obj.Name()
		}
	}
	return ""
}

// classifyNormalisation decides whether a length-normalising operation (result
// v/|v|) lies on the data path: vector Normalized, or a division / scaling by a
// non-constant that is computed through Length() / math.Sqrt. Every other
// operation must be classifiable as not normalising (the vector package has no
// other v/|v| method; constant scalings, sums, conversions, component accessors,
// constructors, the gather accessors and package-local helpers are not); an
// operation that cannot be classified is remembered in normUnk.
func (a *anchors) classifyNormalisation(sl *sx.Slicer, lc *leafClass) {
	hasRoot := func(v ssa.Value, ctx *sx.Ctx) bool {
		s2 := sl.Fresh()
		s2.From(v, nil, ctx)
		for _, c := range s2.Calls() {
			o := ssaCallee(c)
			if o == nil {
				continue
			}
			if o.Pkg() != nil && o.Pkg().Path() == "math" && (o.Name() == "Sqrt" || o.Name() == "Hypot") {
				return true
			}
			if sx.VecMethod(o, "Length") {
				return true
			}
		}
		return false
	}
	isConst := func(v ssa.Value) bool {
		for {
			if cv, ok := v.(*ssa.Convert); ok {
				v = cv.X
				continue
			}
			break
		}
		_, ok := v.(*ssa.Const)
		return ok
	}
	if lc.normAt == nil {
		lc.normAt, lc.normNot = map[ssa.Value]int{}, map[ssa.Value]int{}
	}
	for _, vis := range sl.Visits {
		if vis.Kind != sx.VValue {
			continue
		}
		switch x := vis.V.(type) {
		case *ssa.BinOp:
			if b, ok := x.Type().Underlying().(*types.Basic); ok && b.Info()&types.IsFloat != 0 && x.Op.String() == "/" && !isConst(x.Y) {
				if hasRoot(x.Y, vis.Ctx) {
					lc.normed, lc.normHow = true, "division by a length (sqrt)"
					lc.normAt[vis.V]++
				} else {
					lc.normNot[vis.V]++
					if lc.normUnk == "" {
						lc.normUnk = "a division by a non-constant that is not a length"
					}
				}
			}
		case *ssa.Call:
			o := ssaCallee(x)
			callee := x.Call.StaticCallee()
			switch {
			case o == nil:
				if callee != nil && a.inline(callee) {
					continue
				}
				if lc.normUnk == "" {
					lc.normUnk = "a dynamic call"
				}
			case sx.VecMethod(o, "Normalized"):
				lc.normed, lc.normHow = true, "vector3.Normalized"
				lc.normAt[vis.V]++
			case sx.VecMethod(o, "Scale") || sx.VecMethod(o, "DivByConstant") || sx.VecMethod(o, "MultByConstant"):
				if len(x.Call.Args) == 2 && !isConst(x.Call.Args[1]) {
					if hasRoot(x.Call.Args[1], vis.Ctx) {
						lc.normed, lc.normHow = true, o.Name()+" by a length"
						lc.normAt[vis.V]++
					} else {
						lc.normNot[vis.V]++
						if lc.normUnk == "" {
							lc.normUnk = o.Name() + " by a non-constant that is not a length"
						}
					}
				}
			case isVectorPkgObj(o):
				// every other method / function of the vector packages: not normalising
			case a.cornerOrdinal(x) > 0 || a.isMeshMethod(x, "Tri") || a.isMeshMethod(x, "PrimitiveCount") || a.isMeshMethod(x, "HasFloat3Attribute"):
			case callee != nil && a.inline(callee):
				// package-local helper: its body is on the slice
			case o.Pkg() != nil && o.Pkg().Path() == "math":
				// scalar math on a component: Sqrt is handled through the divisions above; anything else is not a normalisation
			default:
				if lc.normUnk == "" {
					lc.normUnk = "call of " + o.Name()
				}
			}
		}
	}
}

func isVectorPkgObj(o *types.Func) bool {
	if o == nil || o.Pkg() == nil {
		return false
	}
	return strings.HasPrefix(o.Pkg().Path(), "github.com/EliCDavis/vector")
}

// ---------------------------------------------------------------------------
// scalars moved through a byte buffer (equivalent to binary.Write / binary.Read of the scalar)

func byteOrderMethod(c *ssa.Call) (name string, order *ssa.Global, ok bool) {
	o := ssaCallee(c)
	if o == nil || o.Pkg() == nil || o.Pkg().Path() != "encoding/binary" || len(c.Call.Args) == 0 {
		return "", nil, false
	}
	if ld, isLd := c.Call.Args[0].(*ssa.UnOp); isLd && ld.Op.String() == "*" {
		if g, isG := ld.X.(*ssa.Global); isG {
			order = g
		}
	}
	return o.Name(), order, true
}

func uintWidth(suffix string) (types.Type, int64) {
	switch suffix {
	case "Uint16":
		return types.Typ[types.Uint16], 2
	case "Uint32":
		return types.Typ[types.Uint32], 4
	case "Uint64":
		return types.Typ[types.Uint64], 8
	}
	return nil, 0
}

// writerScalar: out.Write(order.AppendUintN(empty, v)) or order.PutUintN(buf, v); out.Write(buf) with len(buf) = N/8.
func writerScalar(e *sx.Env, op *sx.IOOp) (ssa.Value, types.Type, *ssa.Global, bool) {
	n, isC := e.Len(op.Data).IsConst()
	root, off := e.SliceRoot(op.Data)
	if !off.IsZero() {
		return nil, nil, nil, false
	}
	if c, ok := root.(*ssa.Call); ok {
		name, order, ok := byteOrderMethod(c)
		if ok && strings.HasPrefix(name, "Append") && len(c.Call.Args) == 3 {
			typ, w := uintWidth(strings.TrimPrefix(name, "Append"))
			if l, isZ := e.Len(c.Call.Args[1]).IsConst(); typ != nil && isZ && l == 0 {
				_ = w
				return c.Call.Args[2], typ, order, true
			}
		}
		return nil, nil, nil, false
	}
	if !isC {
		return nil, nil, nil, false
	}
	// PutUintN into the buffer that is written
	var hit *ssa.Call
	cnt := 0
	for _, b := range e.Fn.Blocks {
		for _, in := range b.Instrs {
			c, ok := in.(*ssa.Call)
			if !ok {
				continue
			}
			name, _, ok := byteOrderMethod(c)
			if !ok || !strings.HasPrefix(name, "Put") || len(c.Call.Args) != 3 {
				continue
			}
			if r2, o2 := e.SliceRoot(c.Call.Args[1]); r2 == root && o2.IsZero() {
				cnt++
				hit = c
			}
		}
	}
	if cnt != 1 || !beforeInstr(hit, op.Call) {
		return nil, nil, nil, false
	}
	name, order, _ := byteOrderMethod(hit)
	typ, w := uintWidth(strings.TrimPrefix(name, "Put"))
	if typ == nil || w != n {
		return nil, nil, nil, false
	}
	return hit.Call.Args[2], typ, order, true
}

// readerScalar: io.ReadFull(in, buf) with len(buf) = N/8 followed by exactly one order.UintN(buf).
func readerScalar(e *sx.Env, op *sx.IOOp) (ssa.Value, types.Type, *ssa.Global, bool) {
	n, isC := e.Len(op.Data).IsConst()
	root, off := e.SliceRoot(op.Data)
	if !isC || !off.IsZero() {
		return nil, nil, nil, false
	}
	var hit *ssa.Call
	cnt := 0
	for _, b := range e.Fn.Blocks {
		for _, in := range b.Instrs {
			c, ok := in.(*ssa.Call)
			if !ok {
				continue
			}
			name, _, ok := byteOrderMethod(c)
			if !ok || !strings.HasPrefix(name, "Uint") || len(c.Call.Args) != 2 {
				continue
			}
			if r2, o2 := e.SliceRoot(c.Call.Args[1]); r2 == root && o2.IsZero() {
				cnt++
				hit = c
			}
		}
	}
	if cnt != 1 || !beforeInstr(op.Call, hit) {
		return nil, nil, nil, false
	}
	name, order, _ := byteOrderMethod(hit)
	typ, w := uintWidth(name)
	if typ == nil || w != n {
		return nil, nil, nil, false
	}
	return hit, typ, order, true
}
