package c07

import (
	"fmt"
	"go/token"
	"go/types"
	"sort"

	"golang.org/x/tools/go/ssa"

	"polycheck/props/c07/sx"
	"polycheck/ssau"
)

// HDR-FREE: the 80 header bytes of a binary STL file are free-form. On the
// decode side (Read, ReadMesh and the package-local functions they call) no
// branch condition, no allocation size and no returned error may be
// data-dependent on header content: only the count and the records decide
// whether and how a file is accepted. Forward def-use taint:
//   sources  = values of type stl.Header, []byte views sliced from a Header,
//              bytes loaded from / indexed in a Header (type-resolved, so the
//              header may live in a local, behind a pointer or in Binary.Header);
//   flow     = every SSA operand → result (calls: any tainted argument taints the
//              results), stores into local storage and later loads of it;
//   cut      = the recognised stream operations themselves (binary.Read /
//              io.ReadFull filling the header do not *read* it), fmt formatting
//              (an error message may quote the header);
//   sinks    = If conditions, make() sizes, error results of returns, panics.
// Copying the header into the result, logging it, or formatting it stays silent.

func hdrFree(a *anchors, r *rep, roots []*ssa.Function) {
	// closure over package-local static callees
	seen := map[*ssa.Function]bool{}
	var fns []*ssa.Function
	var add func(f *ssa.Function)
	add = func(f *ssa.Function) {
		if f == nil || f.Blocks == nil || seen[f] || f.Pkg != a.pkg {
			return
		}
		seen[f] = true
		fns = append(fns, f)
		ssau.AllInstrs(f, func(in ssa.Instruction) {
			if c, ok := in.(ssa.CallInstruction); ok {
				add(c.Common().StaticCallee())
			}
		})
		for _, an := range f.AnonFuncs {
			add(an)
		}
	}
	for _, f := range roots {
		add(f)
	}
	sort.SliceStable(fns, func(i, j int) bool { return fns[i].Pos() < fns[j].Pos() })
	for _, fn := range fns {
		hdrFreeFn(a, r, fn)
	}
}

func (a *anchors) isHeaderType(t types.Type) bool { return types.Identical(t, a.tHeader) }

func (a *anchors) isHeaderPtr(t types.Type) bool {
	p, ok := t.Underlying().(*types.Pointer)
	return ok && a.isHeaderType(p.Elem())
}

func hdrFreeFn(a *anchors, r *rep, fn *ssa.Function) {
	name := a.p.FuncName(fn)
	e := sx.NewEnv(fn)
	// stream operations are cuts
	cut := map[ssa.Value]bool{}
	for _, op := range e.FindIO(nil) {
		cut[op.Call] = true
	}
	tainted := map[ssa.Value]bool{}
	why := map[ssa.Value]string{}
	type loc struct {
		root ssa.Value
		path []int
	}
	var dirty []loc
	isSource := func(v ssa.Value) bool {
		if a.isHeaderType(v.Type()) {
			switch v.(type) {
			case *ssa.Const:
				return false
			}
			return true
		}
		switch x := v.(type) {
		case *ssa.Slice:
			return a.isHeaderPtr(x.X.Type()) || a.isHeaderType(x.X.Type())
		case *ssa.UnOp:
			if x.Op == token.MUL {
				if ia, ok := x.X.(*ssa.IndexAddr); ok && (a.isHeaderPtr(ia.X.Type()) || a.isHeaderType(ia.X.Type())) {
					return true
				}
			}
		case *ssa.Index:
			return a.isHeaderType(x.X.Type())
		}
		return false
	}
	mark := func(v ssa.Value, reason string) bool {
		if v == nil || tainted[v] || cut[v] {
			return false
		}
		tainted[v] = true
		why[v] = reason
		return true
	}
	isFmt := func(c *ssa.Call) bool {
		o := ssau.CalleeObj(c)
		return o != nil && o.Pkg() != nil && (o.Pkg().Path() == "fmt" || o.Pkg().Path() == "log" || o.Pkg().Path() == "errors")
	}
	for changed := true; changed; {
		changed = false
		for _, b := range fn.Blocks {
			for _, in := range b.Instrs {
				if st, ok := in.(*ssa.Store); ok {
					if tainted[st.Val] {
						ad := sx.ResolveAddr(st.Addr)
						root := ad.Root
						if ad.Slice != nil {
							root, _ = e.SliceRoot(ad.Slice)
						}
						dup := false
						for _, d := range dirty {
							if d.root == root && samePath(d.path, ad.Path) {
								dup = true
							}
						}
						if !dup && root != nil {
							dirty = append(dirty, loc{root, ad.Path})
							changed = true
						}
					}
					continue
				}
				v, ok := in.(ssa.Value)
				if !ok {
					continue
				}
				if tainted[v] || cut[v] {
					continue
				}
				if isSource(v) {
					changed = mark(v, "header bytes") || changed
					continue
				}
				if c, ok := v.(*ssa.Call); ok && isFmt(c) {
					continue
				}
				// loads of dirty local storage
				if ld, ok := v.(*ssa.UnOp); ok && ld.Op == token.MUL {
					ad := sx.ResolveAddr(ld.X)
					root := ad.Root
					if ad.Slice != nil {
						root, _ = e.SliceRoot(ad.Slice)
					}
					for _, d := range dirty {
						if d.root == root && sx.PathsOverlap(d.path, ad.Path) {
							changed = mark(v, "storage holding header bytes") || changed
						}
					}
					if tainted[v] {
						continue
					}
				}
				// a pointer to storage is not its content
				switch v.(type) {
				case *ssa.Alloc, *ssa.FieldAddr, *ssa.IndexAddr:
					continue
				}
				for _, op := range in.Operands(nil) {
					if *op != nil && tainted[*op] {
						changed = mark(v, why[*op]) || changed
						break
					}
				}
			}
		}
	}
	n := 0
	report := func(pos token.Pos, k, what string) {
		n++
		r.Violate("HDR-FREE", fmt.Sprintf("%s#%s", name, k), a.p.Pos(pos), "the 80-byte header of a binary STL file is free-form, but "+what+" depends on its content: well-formed files are treated differently (or rejected) because of their header text")
	}
	for _, b := range fn.Blocks {
		for _, in := range b.Instrs {
			switch x := in.(type) {
			case *ssa.If:
				if tainted[x.Cond] {
					report(ssau.PosOf(x), "branch", "a branch condition")
				}
			case *ssa.MakeSlice:
				if tainted[x.Len] || tainted[x.Cap] {
					report(x.Pos(), "alloc-size", "an allocation size")
				}
			case *ssa.Panic:
				if tainted[x.X] {
					report(x.Pos(), "panic", "a panic")
				}
			case *ssa.Return:
				for _, res := range x.Results {
					if tn, ok := res.Type().(*types.Named); ok && tn.Obj().Pkg() == nil && tn.Obj().Name() == "error" && tainted[res] {
						report(x.Pos(), "returned-error", "a returned error")
					}
				}
			}
		}
	}
	if n == 0 {
		srcs := 0
		for v := range tainted {
			if why[v] == "header bytes" {
				srcs++
			}
		}
		r.Hold("HDR-FREE", name, a.p.Pos(fn.Pos()), fmt.Sprintf("%d header-derived values, %d values reached by def-use; none reaches a branch condition, allocation size, returned error or panic", srcs, len(tainted)))
	}
}
