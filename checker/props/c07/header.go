package c07

import (
	"fmt"
	"go/token"
	"go/types"
	"sort"

	"golang.org/x/tools/go/ssa"

	"polycheck/props/c07/sx"
	"polycheck/ssau"
)

// HDR-FREE and ATTR-OPAQUE: opaque payload of a binary STL file.
//
//   HDR-FREE     the 80 header bytes are free-form;
//   ATTR-OPAQUE  the 2-byte attribute word of a record is opaque payload.
//
// On the decode side (Read, ReadMesh and the package-local functions they
// call) nothing but storing / copying may be done with either: no branch
// condition, allocation size, read length / skip amount, returned error or
// panic may be data-dependent on it — only the count and the record block
// decide whether and how a file is accepted. Forward def-use taint:
//   sources  HDR-FREE: values of type stl.Header, []byte views sliced from a
//            Header, bytes loaded from / indexed in one (type-resolved);
//            ATTR-OPAQUE: reads of the field stl.Triangle.Attribute (by field
//            object, wherever the record lives) and every value that is stored
//            into that field (a hand decoder's word at record offset 48);
//   flow     every SSA operand → result (calls: a tainted argument taints the
//            results), stores into local storage and later loads of it;
//   cut      the recognised stream operations themselves (the read that fills
//            the storage does not read it), fmt / log / errors formatting;
//   sinks    If conditions, make() sizes, arguments of any other call that is
//            handed a stream (read length, CopyN / Seek / Discard amount),
//            error results of returns, panics.
// Copying into the result, through locals or struct fields, logging and
// quoting in an unrelated error message stay silent.

type taintCfg struct {
	rule    string
	what    string // "the 80-byte header of a binary STL file is free-form"
	isSrc   func(v ssa.Value) bool
	stSrc   func(st *ssa.Store) bool // the stored value itself is a source
	srcName string
}

func decodeClosure(a *anchors, roots []*ssa.Function) []*ssa.Function {
	seen := map[*ssa.Function]bool{}
	var fns []*ssa.Function
	var add func(f *ssa.Function)
	add = func(f *ssa.Function) {
		if f == nil || f.Blocks == nil || seen[f] || f.Pkg != a.pkg {
			return
		}
		seen[f] = true
		fns = append(fns, f)
		ssau.AllInstrs(f, func(in ssa.Instruction) {
			if c, ok := in.(ssa.CallInstruction); ok {
				add(c.Common().StaticCallee())
			}
		})
		for _, an := range f.AnonFuncs {
			add(an)
		}
	}
	for _, f := range roots {
		add(f)
	}
	sort.SliceStable(fns, func(i, j int) bool { return fns[i].Pos() < fns[j].Pos() })
	return fns
}

func (a *anchors) isHeaderType(t types.Type) bool { return types.Identical(t, a.tHeader) }

func (a *anchors) isHeaderPtr(t types.Type) bool {
	p, ok := t.Underlying().(*types.Pointer)
	return ok && a.isHeaderType(p.Elem())
}

func hdrFree(a *anchors, r *rep, roots []*ssa.Function) {
	cfg := taintCfg{rule: "HDR-FREE", what: "the 80-byte header of a binary STL file is free-form", srcName: "header bytes"}
	cfg.isSrc = func(v ssa.Value) bool {
		if a.isHeaderType(v.Type()) {
			if _, isC := v.(*ssa.Const); isC {
				return false
			}
			return true
		}
		switch x := v.(type) {
		case *ssa.Slice:
			return a.isHeaderPtr(x.X.Type()) || a.isHeaderType(x.X.Type())
		case *ssa.UnOp:
			if x.Op == token.MUL {
				if ia, ok := x.X.(*ssa.IndexAddr); ok && (a.isHeaderPtr(ia.X.Type()) || a.isHeaderType(ia.X.Type())) {
					return true
				}
			}
		case *ssa.Index:
			return a.isHeaderType(x.X.Type())
		}
		return false
	}
	for _, fn := range decodeClosure(a, roots) {
		taintFn(a, r, fn, cfg)
	}
}

func attrOpaque(a *anchors, r *rep, roots []*ssa.Function) {
	st := a.tTri.Underlying().(*types.Struct)
	var attrVar *types.Var
	for i := 0; i < st.NumFields(); i++ {
		if st.Field(i).Name() == "Attribute" {
			attrVar = st.Field(i)
		}
	}
	if attrVar == nil {
		return
	}
	cfg := taintCfg{rule: "ATTR-OPAQUE", what: "the 2-byte attribute word of a binary STL record is opaque payload", srcName: "attribute word"}
	cfg.isSrc = func(v ssa.Value) bool {
		switch x := v.(type) {
		case *ssa.UnOp:
			if x.Op == token.MUL {
				if fa, ok := x.X.(*ssa.FieldAddr); ok && ssau.FieldOf(fa) == attrVar {
					return true
				}
			}
		case *ssa.Field:
			return ssau.FieldOf(x) == attrVar
		}
		return false
	}
	cfg.stSrc = func(s *ssa.Store) bool {
		if fa, ok := s.Addr.(*ssa.FieldAddr); ok && ssau.FieldOf(fa) == attrVar {
			if _, isC := s.Val.(*ssa.Const); !isC {
				return true
			}
		}
		return false
	}
	for _, fn := range decodeClosure(a, roots) {
		taintFn(a, r, fn, cfg)
	}
}

func isStreamTyped(t types.Type) bool {
	it, ok := t.Underlying().(*types.Interface)
	if !ok {
		return false
	}
	for i := 0; i < it.NumMethods(); i++ {
		switch it.Method(i).Name() {
		case "Read", "Write", "Seek", "Discard":
			return true
		}
	}
	return false
}

func taintFn(a *anchors, r *rep, fn *ssa.Function, cfg taintCfg) {
	name := a.p.FuncName(fn)
	e := sx.NewEnv(fn)
	cut := map[ssa.Value]bool{}
	for _, op := range e.FindIO(nil) {
		cut[op.Call] = true
	}
	tainted := map[ssa.Value]bool{}
	why := map[ssa.Value]string{}
	type loc struct {
		root ssa.Value
		path []int
	}
	var dirty []loc
	mark := func(v ssa.Value, reason string) bool {
		if v == nil || tainted[v] || cut[v] {
			return false
		}
		if _, isC := v.(*ssa.Const); isC {
			return false
		}
		tainted[v] = true
		why[v] = reason
		return true
	}
	isFmt := func(c *ssa.Call) bool {
		o := ssau.CalleeObj(c)
		return o != nil && o.Pkg() != nil && (o.Pkg().Path() == "fmt" || o.Pkg().Path() == "log" || o.Pkg().Path() == "errors")
	}
	for changed := true; changed; {
		changed = false
		for _, b := range fn.Blocks {
			for _, in := range b.Instrs {
				if st, ok := in.(*ssa.Store); ok {
					if cfg.stSrc != nil && cfg.stSrc(st) {
						changed = mark(st.Val, cfg.srcName) || changed
					}
					if tainted[st.Val] {
						ad := sx.ResolveAddr(st.Addr)
						root := ad.Root
						if ad.Slice != nil {
							root, _ = e.SliceRoot(ad.Slice)
						}
						dup := false
						for _, d := range dirty {
							if d.root == root && samePath(d.path, ad.Path) {
								dup = true
							}
						}
						if !dup && root != nil {
							dirty = append(dirty, loc{root, ad.Path})
							changed = true
						}
					}
					continue
				}
				v, ok := in.(ssa.Value)
				if !ok {
					continue
				}
				if tainted[v] || cut[v] {
					continue
				}
				if cfg.isSrc(v) {
					changed = mark(v, cfg.srcName) || changed
					continue
				}
				if c, ok := v.(*ssa.Call); ok && isFmt(c) {
					continue
				}
				if ld, ok := v.(*ssa.UnOp); ok && ld.Op == token.MUL {
					ad := sx.ResolveAddr(ld.X)
					root := ad.Root
					if ad.Slice != nil {
						root, _ = e.SliceRoot(ad.Slice)
					}
					for _, d := range dirty {
						// a load is tainted only if it reads (part of) the dirty location itself
						if d.root == root && len(ad.Path) >= len(d.path) && sx.PathsOverlap(d.path, ad.Path) {
							changed = mark(v, "storage holding the "+cfg.srcName) || changed
						}
					}
					if tainted[v] {
						continue
					}
				}
				switch v.(type) {
				case *ssa.Alloc, *ssa.FieldAddr, *ssa.IndexAddr:
					continue
				}
				for _, op := range in.Operands(nil) {
					if *op != nil && tainted[*op] {
						changed = mark(v, why[*op]) || changed
						break
					}
				}
			}
		}
	}
	n := 0
	report := func(pos token.Pos, k, what string) {
		n++
		r.Violate(cfg.rule, fmt.Sprintf("%s#%s", name, k), a.p.Pos(pos), cfg.what+", but "+what+" depends on its content: well-formed files are treated differently (or rejected) because of it")
	}
	for _, b := range fn.Blocks {
		for _, in := range b.Instrs {
			switch x := in.(type) {
			case *ssa.If:
				if tainted[x.Cond] {
					report(ssau.PosOf(x), "branch", "a branch condition")
				}
			case *ssa.MakeSlice:
				if tainted[x.Len] || tainted[x.Cap] {
					report(x.Pos(), "alloc-size", "an allocation size")
				}
			case *ssa.Panic:
				if tainted[x.X] {
					report(x.Pos(), "panic", "a panic")
				}
			case *ssa.Return:
				for _, res := range x.Results {
					if tn, ok := res.Type().(*types.Named); ok && tn.Obj().Pkg() == nil && tn.Obj().Name() == "error" && tainted[res] {
						report(x.Pos(), "returned-error", "a returned error")
					}
				}
			case *ssa.Call:
				if cut[x] || isFmt(x) {
					continue
				}
				hasStream, hasTaint := false, false
				args := x.Call.Args
				if x.Call.IsInvoke() {
					args = append([]ssa.Value{x.Call.Value}, args...)
				}
				for _, arg := range args {
					if isStreamTyped(arg.Type()) {
						hasStream = true
					}
					if tainted[arg] {
						hasTaint = true
					}
				}
				if hasStream && hasTaint {
					report(x.Pos(), "stream-amount", "the amount read / skipped / written by a stream operation")
				}
			}
		}
	}
	if n == 0 {
		srcs := 0
		for v := range tainted {
			if why[v] == cfg.srcName {
				srcs++
			}
		}
		r.Hold(cfg.rule, name, a.p.Pos(fn.Pos()), fmt.Sprintf("%d source values (%s), %d values reached by def-use; none reaches a branch condition, allocation size, stream amount, returned error or panic", srcs, cfg.srcName, len(tainted)))
	}
}
