package c07

import (
	"fmt"
	"go/types"
	"sort"
	"strings"

	"golang.org/x/tools/go/ssa"

	"polycheck/props/c07/sx"
)

// NRM-PATH — the facet normal is the *normalised* mean on every path.
//
// NRM-1 asks that a length-normalising operation lies somewhere on the data
// slice of Triangle.Normal. That is an "exists" over the union of all paths: a
// shortcut that hands a corner normal (or the plain mean) to the record on one
// path and normalises on the other satisfies it. NRM-PATH is the matching
// "for all": on the field-sensitive backward slice of the stored component,
// *cut* at the length-normalising operations NRM-1 recognised (Normalized,
// Scale / DivByConstant / a per-component division by a Length()/sqrt), no
// corner gather Tri.PkVec3Attr may remain reachable. A corner call that is
// still reachable has a data path into the record that bypasses the
// normalisation (a join, an early return of a same-package helper, a
// conditional reassignment): for corner normals that are not unit length the
// record then holds something else than the normalised mean.
//
// Paths that end in constants / zero values only (an explicit zero vector for a
// degenerate sum, a record left at its zero Normal) do not reach a corner call
// and stay silent. When a bypass exists but one of the branch conditions of the
// functions on the bypass path is itself computed through a length (Length,
// LengthSquared, Dot, math.Sqrt/Hypot) the shortcut may be restricted to unit
// vectors, which the rule cannot evaluate: UNDECIDED instead of VIOLATION.

type normPath struct {
	bypass   map[int]bool    // corner ordinals reachable without crossing a normalising operation
	via      map[string]bool // functions / joins the bypassing path runs through
	cuts     int             // normalising operations the cut slice stopped at
	lenGuard bool
}

func (a *anchors) normEveryPath(e *sx.Env, val ssa.Value, rest []int, lc *leafClass) normPath {
	np := normPath{bypass: map[int]bool{}, via: map[string]bool{}}
	isCut := func(v ssa.Value) bool { return lc.normAt[v] > 0 && lc.normNot[v] == 0 }
	sl := sx.NewSlicer(a.inline).WithEnv(e)
	sl.StopAt = isCut
	sl.From(val, rest, nil)
	seenCut := map[ssa.Value]bool{}
	fns := map[*ssa.Function]bool{}
	for _, vis := range sl.Visits {
		if vis.Kind != sx.VValue {
			continue
		}
		if vis.Fn != nil {
			fns[vis.Fn] = true
		}
		if isCut(vis.V) && !seenCut[vis.V] {
			seenCut[vis.V] = true
			np.cuts++
		}
	}
	for _, c := range sl.Calls() {
		if k := a.cornerOrdinal(c); k > 0 {
			np.bypass[k] = true
		}
	}
	if len(np.bypass) == 0 {
		return np
	}
	// where the bypass runs: helpers entered (a parameter resolved through a
	// call-string context) and joins
	for _, vis := range sl.Visits {
		if vis.Kind != sx.VValue {
			continue
		}
		switch x := vis.V.(type) {
		case *ssa.Parameter:
			if vis.Ctx != nil && x.Parent() != nil {
				np.via["helper "+a.p.FuncName(x.Parent())] = true
			}
		case *ssa.Phi:
			if b, isBasic := x.Type().Underlying().(*types.Basic); isBasic && b.Info()&(types.IsInteger|types.IsBoolean) != 0 {
				continue // loop counters / flags reached through subscripts
			}
			if x.Parent() != nil {
				np.via["a join in "+a.p.FuncName(x.Parent())] = true
			}
		}
	}
	// is any branch of the functions involved decided by a length?
	for fn := range fns {
		for _, b := range fn.Blocks {
			if len(b.Instrs) == 0 {
				continue
			}
			iff, ok := b.Instrs[len(b.Instrs)-1].(*ssa.If)
			if !ok {
				continue
			}
			cs := sx.NewSlicer(a.inline)
			cs.From(iff.Cond, nil, nil)
			for _, c := range cs.Calls() {
				o := ssaCallee(c)
				if o == nil {
					continue
				}
				if o.Pkg() != nil && o.Pkg().Path() == "math" && (o.Name() == "Sqrt" || o.Name() == "Hypot") {
					np.lenGuard = true
				}
				for _, n := range []string{"Length", "LengthSquared", "Dot"} {
					if sx.VecMethod(o, n) {
						np.lenGuard = true
					}
				}
			}
		}
	}
	return np
}

// normPathAgg joins the per-store results of one Normal component.
type normPathAgg struct {
	seen     bool
	pos      string
	bypass   map[int]bool
	via      map[string]bool
	cuts     int
	lenGuard bool
	badPos   string
}

func (g *normPathAgg) add(np normPath, pos string) {
	if g.bypass == nil {
		g.bypass, g.via = map[int]bool{}, map[string]bool{}
	}
	g.seen = true
	if g.pos == "" {
		g.pos = pos
	}
	g.cuts += np.cuts
	for k := range np.bypass {
		g.bypass[k] = true
		if g.badPos == "" {
			g.badPos = pos
		}
	}
	for k := range np.via {
		g.via[k] = true
	}
	g.lenGuard = g.lenGuard || np.lenGuard
}

func (g *normPathAgg) report(r *rep, key, leafName string) {
	if !g.seen {
		return // nothing builds this component: NRM-1 reports that
	}
	if len(g.bypass) == 0 {
		r.Hold("NRM-PATH", key, g.pos, fmt.Sprintf("every data path from a corner normal to %s crosses a length-normalising operation (%d on the slice); paths that bypass it carry constants / zero only", leafName, g.cuts))
		return
	}
	var via []string
	for k := range g.via {
		via = append(via, k)
	}
	sort.Strings(via)
	where := ""
	if len(via) > 0 {
		where = " (through " + strings.Join(via, ", ") + ")"
	}
	cs := setStr(g.bypass, func(i int) string { return fmt.Sprintf("P%d", i) })
	if g.lenGuard {
		r.Undecide("NRM-PATH", key, g.badPos, fmt.Sprintf("corner normal(s) %s reach %s on a data path that does not cross the length-normalising operation%s; a branch condition there is computed through a length, so the shortcut may be restricted to unit vectors, which the rule cannot evaluate", cs, leafName, where))
		return
	}
	r.Violate("NRM-PATH", key, g.badPos, fmt.Sprintf("corner normal(s) %s reach %s on a data path that does not cross the length-normalising operation%s: on that path the record holds a corner normal / plain mean as is, not the normalised mean (corner normals need not be unit length)", cs, leafName, where))
}
