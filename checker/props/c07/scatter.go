package c07

import (
	"fmt"
	"go/token"
	"go/types"
	"sort"
	"strings"

	"golang.org/x/tools/go/ssa"

	"polycheck/ob"
	"polycheck/props/c07/sx"
	"polycheck/ssau"
)

// scatter decides the reader side (ReadMesh): SYM-STRIDE, SHAPE-2 ordinals, NRM-1 fallback.
func scatter(a *anchors, r *rep, fn, read *ssa.Function) {
	name := a.p.FuncName(fn)
	e := sx.NewEnv(fn)
	ti := sx.FieldIndex(a.tBinary, "Triangles")

	// records = Triangles field of the value returned by read
	isRecords := func(base ssa.Value) bool {
		rt, off := e.SliceRoot(base)
		if !off.IsZero() {
			return false
		}
		ld, ok := rt.(*ssa.UnOp)
		if !ok || ld.Op != token.MUL {
			return false
		}
		ad := sx.ResolveAddr(ld.X)
		if ad.Slice != nil || len(ad.Path) != 1 || ad.Path[0] != ti {
			return false
		}
		root := ad.Root
		if al, ok := root.(*ssa.Alloc); ok {
			// `bin := *ptr` style copies are not followed
			_ = al
			return false
		}
		if ex, ok := root.(*ssa.Extract); ok {
			if c, ok := ex.Tuple.(*ssa.Call); ok && c.Call.StaticCallee() == read {
				return true
			}
		}
		if c, ok := root.(*ssa.Call); ok && c.Call.StaticCallee() == read {
			return true
		}
		return false
	}
	var n *sx.Poly
	ssau.AllInstrs(fn, func(in ssa.Instruction) {
		if ld, ok := in.(*ssa.UnOp); ok && ld.Op == token.MUL && n == nil {
			if _, isSl := ld.Type().Underlying().(*types.Slice); isSl && isRecords(ld) {
				p := e.Len(ld)
				n = &p
			}
		}
	})
	if n == nil {
		r.Undecide("SYM-STRIDE", name, a.p.Pos(fn.Pos()), "the records decoded by Read (result.Triangles) are not used through a recognised access path")
		return
	}

	// sink arrays by role
	type role struct {
		name string
		arg  ssa.Value
		pos  token.Pos
	}
	var roles []role
	ssau.AllInstrs(fn, func(in ssa.Instruction) {
		c, ok := in.(*ssa.Call)
		if !ok {
			return
		}
		obj := ssau.CalleeObj(c)
		switch {
		case ssau.IsFunc(obj, a.modelingPath(), "NewTriangleMesh") && len(c.Call.Args) == 1:
			roles = append(roles, role{"indices", c.Call.Args[0], c.Pos()})
		case a.isMeshMethod(c, "SetFloat3Attribute") && len(c.Call.Args) == 3:
			if s, ok := sx.ConstStringArg(c, 1); ok {
				switch s {
				case a.posAttr:
					roles = append(roles, role{"position", c.Call.Args[2], c.Pos()})
				case a.nrmAttr:
					roles = append(roles, role{"normals", c.Call.Args[2], c.Pos()})
				}
			}
		}
	})
	have := map[string]bool{}
	for _, ro := range roles {
		have[ro.name] = true
	}
	for _, want := range []string{"indices", "position", "normals"} {
		if !have[want] {
			r.Violate("SHAPE-2", name+"#"+want, a.p.Pos(fn.Pos()), "the mesh built from the records has no "+want+" array (NewTriangleMesh / SetFloat3Attribute not found)")
		}
	}
	want3n := n.MulConst(3)
	vertexOrd := map[*types.Var]int{}
	tst := a.tTri.Underlying().(*types.Struct)
	var normalVar *types.Var
	for i := 0; i < tst.NumFields(); i++ {
		f := tst.Field(i)
		switch f.Name() {
		case "Vertex1":
			vertexOrd[f] = 1
		case "Vertex2":
			vertexOrd[f] = 2
		case "Vertex3":
			vertexOrd[f] = 3
		case "Normal":
			normalVar = f
		}
	}

	var normJoin *ssa.Phi
	var normFallback []int
	var scatterHeader *ssa.BasicBlock
	defer func() {
		if normJoin != nil {
			normalsKept(a, r, e, fn, normJoin, normFallback, normalVarOf(a))
		}
		if scatterHeader != nil {
			emptyGuardOnly(a, r, e, fn, scatterHeader, *n)
		}
	}()
	for _, ro := range roles {
		key := name + "#" + ro.name
		type site struct {
			val ssa.Value // value stored / appended
			pos token.Pos
			blk *ssa.BasicBlock
			idx sx.Poly
			ivs []*sx.IV
		}
		var sites []site
		bad := false
		var length sx.Poly
		var mkPos token.Pos
		root, off := e.SliceRoot(ro.arg)
		mk, isMk := root.(*ssa.MakeSlice)
		if app, isApp := appendForm(e, ro.arg); isApp {
			// append idiom: s := make([]T, 0, cap); for … { s = append(s, e0, …, e(m-1)) } — element j of
			// iteration t has the virtual subscript m·t + j; the final length is m·trip
			if app.why != "" && app.violation {
				r.Violate("SYM-STRIDE", key, a.p.Pos(ro.pos), "the "+ro.name+" array is built by append, but "+app.why)
				continue
			}
			if app.why != "" {
				r.Undecide("SYM-STRIDE", key, a.p.Pos(ro.pos), "the "+ro.name+" array is built by append, but "+app.why)
				continue
			}
			m := int64(len(app.elems))
			t := sx.Sym(app.iv.Sym).Sub(app.iv.Lo)
			for j, el := range app.elems {
				sites = append(sites, site{val: el.val, pos: el.call.Pos(), blk: el.call.Block(), idx: t.MulConst(m).Add(sx.Const(int64(j))), ivs: app.ivs})
			}
			length = app.iv.Trip().MulConst(m)
			mkPos = app.mk.Pos()
		} else {
			if !isMk || !off.IsZero() {
				r.Undecide("SYM-STRIDE", key, a.p.Pos(ro.pos), "the "+ro.name+" array is neither a make([]T, n) filled by indexed stores nor a make([]T, 0, n) filled by append in this function")
				continue
			}
			length = e.Len(mk)
			mkPos = mk.Pos()
			for _, st := range e.SliceStores() {
				rt, o := e.SliceRoot(st.Ad.Slice)
				if rt != root {
					continue
				}
				ivs, ok := e.EnclosingIVs(st.St.Block())
				if !ok || len(ivs) == 0 {
					r.Undecide("SYM-STRIDE", key, a.p.Pos(st.St.Pos()), "an element is stored outside a canonical counted loop")
					bad = true
					break
				}
				sites = append(sites, site{val: st.St.Val, pos: st.St.Pos(), blk: st.St.Block(), idx: e.Int(st.Ad.SliceIdx).Add(o), ivs: ivs})
			}
		}
		if !bad && !length.Equal(want3n) {
			r.Violate("SYM-STRIDE", key, a.p.Pos(mkPos), fmt.Sprintf("the %s array ends up with %s elements; three corners per record need %s", ro.name, length, want3n))
			continue
		}
		if bad {
			continue
		}
		if len(sites) == 0 {
			r.Violate("SYM-STRIDE", key, a.p.Pos(mkPos), "the "+ro.name+" array is never filled")
			continue
		}
		var idx []sx.Poly
		sameLoop := true
		for _, s := range sites {
			if s.ivs[len(s.ivs)-1] != sites[0].ivs[len(sites[0].ivs)-1] {
				sameLoop = false
			}
			dup := false
			for _, p := range idx {
				if p.Equal(s.idx) {
					dup = true
				}
			}
			if dup {
				r.Violate("SYM-STRIDE", key, a.p.Pos(s.pos), fmt.Sprintf("element %s is stored twice per iteration", s.idx))
				bad = true
			}
			idx = append(idx, s.idx)
		}
		if bad {
			continue
		}
		if !sameLoop {
			r.Undecide("SYM-STRIDE", key, a.p.Pos(sites[0].pos), "the array is filled from more than one loop")
			continue
		}
		condStore := false
		for _, st := range sites {
			if !everyIteration(st.blk, st.ivs) {
				condStore = true
			}
		}
		if condStore {
			r.Violate("SYM-STRIDE", key, a.p.Pos(sites[0].pos), "an element of the "+ro.name+" array is stored conditionally inside the record loop: some records can be skipped (one output per record, unconditionally)")
			continue
		}
		res := sx.Cover(idx, sites[0].ivs, length)
		if scatterHeader == nil {
			scatterHeader = sites[0].ivs[0].Loop.Header
		}
		early := false
		for _, lp := range sites[0].ivs {
			for _, x := range sx.LoopExitTargets(lp.Loop) {
				if x != lp.NormalExit() && !sx.ErrorOnly(x, nil) {
					early = true
				}
			}
		}
		switch {
		case !res.OK:
			r.Violate("SYM-STRIDE", key, a.p.Pos(sites[0].pos), "subscripts do not cover the array exactly once: "+res.Why)
			continue
		case early:
			r.Violate("SYM-STRIDE", key, a.p.Pos(sites[0].pos), "the scatter loop can be left early on a success path")
			continue
		default:
			r.Hold("SYM-STRIDE", key, a.p.Pos(sites[0].pos), res.Explain)
		}

		// per store
		sort.SliceStable(sites, func(i, j int) bool { return sites[i].idx.ConstPart() < sites[j].idx.ConstPart() })
		for rank, s := range sites {
			pos := a.p.Pos(s.pos)
			switch ro.name {
			case "indices":
				k := fmt.Sprintf("%s[+%d]", key, rank)
				if v := e.Int(s.val); v.Equal(s.idx) {
					r.Hold("SHAPE-2", k, pos, "identity index")
				} else {
					r.Violate("SHAPE-2", k, pos, fmt.Sprintf("indices[%s] = %s: the unwelded mesh read back needs identity indices", s.idx, v))
				}
			case "position", "normals":
				sl := sx.NewSlicer(a.inline).WithEnv(e)
				sl.From(s.val, nil, nil)
				// record ordinal
				var c int64 = -1
				recOK := true
				nrec := 0
				for _, mr := range sl.MemReads() {
					if !isRecords(mr.Base) {
						continue
					}
					nrec++
					d := s.idx.Sub(e.Int(mr.Index).MulConst(3))
					cc, isC := d.IsConst()
					if !isC || cc < 0 || cc > 2 {
						recOK = false
						r.Violate("SHAPE-2", fmt.Sprintf("%s[+%d]", key, rank), pos, fmt.Sprintf("element %s is built from record %s (expected record (%s − k)/3)", s.idx, e.Int(mr.Index), s.idx))
						break
					}
					c = cc
				}
				if !recOK {
					continue
				}
				k := fmt.Sprintf("%s[3·i+%d]", key, c)
				if nrec == 0 {
					r.Undecide("SHAPE-2", fmt.Sprintf("%s[+%d]", key, rank), pos, "the stored value does not read a decoded record through a recognised path")
					continue
				}
				fr := sl.FieldReads(a.tTri)
				if len(sl.Swizzles()) > 0 {
					r.Violate("AXIS-1", k, pos, "the stored vector passes through a component-permuting method")
					continue
				}
				if ro.name == "position" {
					// stop at the record load: what lies beyond (the decoder) is not part of the value map
					vs := sx.NewSlicer(a.inline).WithEnv(e)
					vs.StopAt = func(v ssa.Value) bool {
						if ld, ok := v.(*ssa.UnOp); ok && ld.Op == token.MUL {
							return sx.ResolveAddr(ld.X).Slice != nil
						}
						return false
					}
					vs.From(s.val, nil, nil)
					if alt := a.valueChanging(vs); alt != "" {
						r.Violate("SHAPE-2", k, pos, fmt.Sprintf("position[3·i+%d] is not a plain copy of the stored vertex: it passes through %s", c, alt))
						continue
					}
					ords := map[int]bool{}
					other := false
					for f := range fr {
						if o, ok := vertexOrd[f]; ok {
							ords[o] = true
						} else {
							other = true
						}
					}
					want := int(c) + 1
					cs := setStr(ords, func(i int) string { return fmt.Sprintf("Vertex%d", i) })
					if len(ords) == 1 && ords[want] && !other {
						r.Hold("SHAPE-2", k, pos, fmt.Sprintf("position[3·i+%d] ← record i .Vertex%d", c, want))
					} else {
						r.Violate("SHAPE-2", k, pos, fmt.Sprintf("position[3·i+%d] is built from %s (other fields: %v); corner %d of record i is Vertex%d", c, cs, other, want, want))
					}
				} else {
					if j, fbs := normalsStore(a, r, e, k, pos, s.val, fr, vertexOrd, normalVar); j != nil && normJoin == nil {
						normJoin, normFallback = j, fbs
					}
				}
			}
		}
	}
}

// everyIteration: block b (inside the loop nest ivs, outermost first) executes in
// every iteration: it dominates the latches of its innermost loop, and each inner
// loop's header dominates the latches of the loop around it.
func everyIteration(b *ssa.BasicBlock, ivs []*sx.IV) bool {
	for i := len(ivs) - 1; i >= 0; i-- {
		for _, l := range ivs[i].Loop.Latch {
			if !b.Dominates(l) {
				return false
			}
		}
		b = ivs[i].Loop.Header
	}
	return true
}

func normalVarOf(a *anchors) *types.Var {
	st := a.tTri.Underlying().(*types.Struct)
	for i := 0; i < st.NumFields(); i++ {
		if st.Field(i).Name() == "Normal" {
			return st.Field(i)
		}
	}
	return nil
}

func fieldSetStr(fr map[*types.Var]bool) string {
	var ns []string
	for f := range fr {
		ns = append(ns, f.Name())
	}
	sort.Strings(ns)
	return "{" + strings.Join(ns, ",") + "}"
}

// normalsStore decides NRM-1 for one store into the normals array.
func normalsStore(a *anchors, r *rep, e *sx.Env, key, pos string, val ssa.Value, fr map[*types.Var]bool, vertexOrd map[*types.Var]int, normalVar *types.Var) (join *ssa.Phi, fallbackEdges []int) {
	want := map[*types.Var]bool{normalVar: true}
	for f := range vertexOrd {
		want[f] = true
	}
	for f := range want {
		if !fr[f] {
			r.Violate("NRM-1", key, pos, fmt.Sprintf("the normal stored depends on fields %s of the record; it must use the stored Normal and, as fallback, all of Vertex1, Vertex2, Vertex3", fieldSetStr(fr)))
			return
		}
	}
	for f := range fr {
		if !want[f] {
			r.Violate("NRM-1", key, pos, "the normal stored depends on field "+f.Name()+" of the record")
			return
		}
	}
	// finer: the two alternatives
	v := val
	for {
		if ct, ok := v.(*ssa.ChangeType); ok {
			v = ct.X
			continue
		}
		break
	}
	phi, isPhi := v.(*ssa.Phi)
	if !isPhi || len(phi.Edges) < 2 {
		r.Hold("NRM-1", key, pos, "normal depends on "+fieldSetStr(fr)+" of the same record (alternatives not separated: value is not a join)")
		return
	}
	var sets []map[*types.Var]bool
	var crossed, normed []bool
	for _, ed := range phi.Edges {
		sl := sx.NewSlicer(a.inline).WithEnv(e)
		sl.From(ed, nil, nil)
		sets = append(sets, sl.FieldReads(a.tTri))
		cr, nm := false, false
		for _, c := range sl.Calls() {
			if sx.VecMethod(ssaCallee(c), "Cross") {
				cr = true
			}
			if sx.VecMethod(ssaCallee(c), "Normalized") {
				nm = true
			}
		}
		crossed, normed = append(crossed, cr), append(normed, nm)
	}
	isVerts := func(s map[*types.Var]bool) bool {
		if len(s) != 3 {
			return false
		}
		for f := range s {
			if _, ok := vertexOrd[f]; !ok {
				return false
			}
		}
		return true
	}
	isNormal := func(s map[*types.Var]bool) bool { return len(s) == 1 && s[normalVar] }
	var fbs []int
	nStored := 0
	for i, st := range sets {
		switch {
		case isVerts(st):
			fbs = append(fbs, i)
		case isNormal(st):
			nStored++
		default:
			r.Violate("NRM-1", key, pos, fmt.Sprintf("one alternative of the normal reads %s; expected the stored Normal alone, or the three vertices alone for the flat fallback", fieldSetStr(st)))
			return
		}
	}
	if len(fbs) == 0 || nStored == 0 {
		r.Violate("NRM-1", key, pos, "the normal has no separate stored / flat-fallback alternatives")
		return
	}
	fb := fbs[0]
	for _, i := range fbs {
		if !crossed[i] {
			fb = i
		}
	}
	if !crossed[fb] {
		r.Undecide("NRM-1", key, pos, "the fallback normal does not pass through vector3.Cross; a geometric normal by other means is not recognised")
		return
	}
	// the selecting test reads all three components of the stored normal
	conds := sx.ControlConds(phi)
	sl := sx.NewSlicer(a.inline).WithEnv(e)
	sl.Control = true
	for _, c := range conds {
		sl.From(c, nil, nil)
	}
	tf := sl.FieldReads(a.tTri)
	vf := sl.FieldReads(a.tVec)
	if !(len(tf) == 1 && tf[normalVar]) {
		r.Violate("NRM-1", key, pos, "the choice between stored and flat normal is not decided by the record's Normal alone (reads "+fieldSetStr(tf)+")")
		return
	}
	if len(vf) != 3 {
		r.Violate("NRM-1", key, pos, "the zero test of the stored normal reads components "+fieldSetStr(vf)+"; a normal with any non-zero component is a stored normal")
		return
	}
	facts := []string{"stored alternative reads {Normal}; fallback reads {Vertex1,Vertex2,Vertex3} through Cross", "selected by a test of Normal" + fieldSetStr(vf)}
	// polarity: abstract evaluation of the selecting predicate over {component is zero / non-zero}
	switch pol, why := fallbackPolarity(a, e, phi, fbs, normalVar); pol {
	case sx.TF:
		r.Violate("NRM-1", key, pos, "the flat fallback is not selected exactly when the stored normal is the zero vector: "+why)
		return
	case sx.TT:
		facts = append(facts, "abstract evaluation over zero/non-zero components: fallback taken iff Normal = (0,0,0)")
	default:
		facts = append(facts, "polarity of the zero test not decided (predicate idiom not evaluated)")
	}
	if normed[fb] {
		facts = append(facts, "fallback is Normalized")
	}
	r.Hold("NRM-1", key, pos, facts...)
	fallbackDirection(a, r, e, key+".direction", pos, phi.Edges[fb])
	return phi, fbs
}

// ---------------------------------------------------------------------------
// AXIS-1 at positional vector constructors

// axisSlots: in every function of the package, slot k of vectorN.New must not
// receive a value whose axis tags (component getters, stl.Vec.X/Y/Z reads) are
// non-empty and lack axis k.
func axisSlots(a *anchors, r *rep) {
	for _, fn := range a.p.FuncsOf(a.pkg) {
		if a.p.IsControl(fn.Pos()) {
			continue
		}
		axisSlotsFn(a, r, fn)
	}
}

func axisSlotsFn(a *anchors, r *rep, fn *ssa.Function) {
	name := a.p.FuncName(fn)
	var e *sx.Env
	j := 0
	for _, b := range fn.Blocks {
		for _, in := range b.Instrs {
			c, ok := in.(*ssa.Call)
			if !ok {
				continue
			}
			dim, ok := sx.VecNew(ssau.CalleeObj(c))
			if !ok || len(c.Call.Args) != dim {
				continue
			}
			if e == nil {
				e = sx.NewEnv(fn)
			}
			for k := 0; k < dim; k++ {
				sl := sx.NewSlicer(nil).WithEnv(e)
				sl.From(c.Call.Args[k], nil, nil)
				tags := sl.AxisTags()
				vst := a.tVec.Underlying().(*types.Struct)
				for f := range sl.FieldReads(a.tVec) {
					for i := 0; i < vst.NumFields(); i++ {
						if vst.Field(i) == f {
							tags[i] = true
						}
					}
				}
				if len(tags) == 0 {
					continue
				}
				key := fmt.Sprintf("%s→vector%d.New#%d.%s", name, dim, j, sx.AxisName(k))
				if tags[k] {
					r.Hold("AXIS-1", key, a.p.Pos(c.Pos()), "slot "+sx.AxisName(k)+" ← component "+setStr(tags, sx.AxisName))
				} else {
					r.Violate("AXIS-1", key, a.p.Pos(c.Pos()), "slot "+sx.AxisName(k)+" of the vector receives component "+setStr(tags, sx.AxisName))
				}
			}
			j++
		}
	}
}

// ---------------------------------------------------------------------------
// self-test controls

func controls() map[string]string {
	return map[string]string{
		"formats/stl/zz_verif_control_c07.go": controlSrc,
	}
}

const controlFile = "formats/stl/zz_verif_control_c07.go"

const controlSrc = `package stl

import (
	"encoding/binary"
	"io"

	"github.com/EliCDavis/polyform/modeling"
	"github.com/EliCDavis/vector/vector3"
)

// ---- codec pair: must be reported (count off by one, big-endian count on the read side)
func verifControlPairBadWrite(out io.Writer, bin Binary) error {
	if _, err := out.Write(bin.Header[:]); err != nil {
		return err
	}
	if err := binary.Write(out, binary.LittleEndian, uint32(len(bin.Triangles)+1)); err != nil {
		return err
	}
	return binary.Write(out, binary.LittleEndian, bin.Triangles)
}

func verifControlPairBadRead(in io.Reader) (*Binary, error) {
	var h Header
	if err := binary.Read(in, binary.LittleEndian, &h); err != nil {
		return nil, err
	}
	var n uint32
	if err := binary.Read(in, binary.BigEndian, &n); err != nil {
		return nil, err
	}
	ts := make([]Triangle, n)
	if err := binary.Read(in, binary.LittleEndian, &ts); err != nil {
		return nil, err
	}
	return &Binary{Header: h, Triangles: ts}, nil
}

// ---- codec pair: accepted idioms (record-at-a-time loops, different locals, hoisted length)
func verifControlPairGoodWrite(sink io.Writer, b Binary) error {
	hdr := b.Header[:]
	if _, err := sink.Write(hdr); err != nil {
		return err
	}
	total := len(b.Triangles)
	if err := binary.Write(sink, binary.LittleEndian, uint32(total)); err != nil {
		return err
	}
	for _, t := range b.Triangles {
		if err := binary.Write(sink, binary.LittleEndian, t); err != nil {
			return err
		}
	}
	return nil
}

func verifControlPairGoodRead(src io.Reader) (*Binary, error) {
	res := &Binary{}
	if err := binary.Read(src, binary.LittleEndian, &res.Header); err != nil {
		return nil, err
	}
	var count uint32
	if err := binary.Read(src, binary.LittleEndian, &count); err != nil {
		return nil, err
	}
	recs := make([]Triangle, count)
	for i := range recs {
		if err := binary.Read(src, binary.LittleEndian, &recs[i]); err != nil {
			return nil, err
		}
	}
	res.Triangles = recs
	return res, nil
}

// ---- gather: must be reported (Vertex2 from corner 3)
func verifControlGatherBad(out io.Writer, m modeling.Mesh) error {
	count := m.PrimitiveCount()
	tris := make([]Triangle, count)
	for i := 0; i < count; i++ {
		tri := m.Tri(i)
		v1 := tri.P1Vec3Attr(modeling.PositionAttribute).ToFloat32()
		v2 := tri.P3Vec3Attr(modeling.PositionAttribute).ToFloat32()
		v3 := tri.P3Vec3Attr(modeling.PositionAttribute).ToFloat32()
		n := tri.P1Vec3Attr(modeling.NormalAttribute).Add(tri.P2Vec3Attr(modeling.NormalAttribute)).Add(tri.P3Vec3Attr(modeling.NormalAttribute)).Normalized().ToFloat32()
		tris[i] = Triangle{
			Normal:  Vec{X: n.X(), Y: n.Y(), Z: n.Z()},
			Vertex1: Vec{X: v1.X(), Y: v1.Y(), Z: v1.Z()},
			Vertex2: Vec{X: v2.X(), Y: v2.Y(), Z: v2.Z()},
			Vertex3: Vec{X: v3.X(), Y: v3.Y(), Z: v3.Z()},
		}
	}
	return Write(out, Binary{Triangles: tris})
}

func verifControlToVec(v vector3.Float64) Vec {
	f := v.ToFloat32()
	return Vec{X: f.X(), Y: f.Y(), Z: f.Z()}
}

// ---- gather: accepted idioms (helper, single loop, range loop, field-wise stores)
func verifControlGatherGood(out io.Writer, m modeling.Mesh) error {
	recs := make([]Triangle, m.PrimitiveCount())
	withNormals := m.HasFloat3Attribute(modeling.NormalAttribute)
	for k := range recs {
		t := m.Tri(k)
		recs[k].Vertex3 = verifControlToVec(t.P3Vec3Attr(modeling.PositionAttribute))
		recs[k].Vertex1 = verifControlToVec(t.P1Vec3Attr(modeling.PositionAttribute))
		recs[k].Vertex2 = verifControlToVec(t.P2Vec3Attr(modeling.PositionAttribute))
		if withNormals {
			sum := t.P1Vec3Attr(modeling.NormalAttribute).Add(t.P2Vec3Attr(modeling.NormalAttribute)).Add(t.P3Vec3Attr(modeling.NormalAttribute))
			recs[k].Normal = verifControlToVec(sum.Normalized())
		}
	}
	return Write(out, Binary{Triangles: recs})
}

// ---- facet normal on every path: must be reported (flat-shaded shortcut hands the corner normal over as is)
func verifControlNormBad(out io.Writer, m modeling.Mesh) error {
	recs := make([]Triangle, m.PrimitiveCount())
	withNormals := m.HasFloat3Attribute(modeling.NormalAttribute)
	for k := range recs {
		t := m.Tri(k)
		recs[k].Vertex1 = verifControlToVec(t.P1Vec3Attr(modeling.PositionAttribute))
		recs[k].Vertex2 = verifControlToVec(t.P2Vec3Attr(modeling.PositionAttribute))
		recs[k].Vertex3 = verifControlToVec(t.P3Vec3Attr(modeling.PositionAttribute))
		if withNormals {
			a, b, c := t.P1Vec3Attr(modeling.NormalAttribute), t.P2Vec3Attr(modeling.NormalAttribute), t.P3Vec3Attr(modeling.NormalAttribute)
			facet := a
			if a != b || b != c {
				facet = a.Add(b).Add(c).DivByConstant(3).Normalized()
			}
			recs[k].Normal = verifControlToVec(facet)
		}
	}
	return Write(out, Binary{Triangles: recs})
}

// ---- facet normal on every path: accepted idioms (helper, normalisation by hand, explicit zero for a degenerate sum)
func verifControlUnit(v vector3.Float64) vector3.Float64 {
	l := v.Length()
	if l == 0 {
		return vector3.Zero[float64]()
	}
	return vector3.New(v.X()/l, v.Y()/l, v.Z()/l)
}

func verifControlFacet(t modeling.Tri) vector3.Float64 {
	sum := t.P1Vec3Attr(modeling.NormalAttribute).Add(t.P2Vec3Attr(modeling.NormalAttribute))
	sum = sum.Add(t.P3Vec3Attr(modeling.NormalAttribute))
	return verifControlUnit(sum.Scale(1. / 3.))
}

func verifControlNormGood(out io.Writer, m modeling.Mesh) error {
	recs := make([]Triangle, m.PrimitiveCount())
	withNormals := m.HasFloat3Attribute(modeling.NormalAttribute)
	for k := range recs {
		t := m.Tri(k)
		recs[k].Vertex1 = verifControlToVec(t.P1Vec3Attr(modeling.PositionAttribute))
		recs[k].Vertex2 = verifControlToVec(t.P2Vec3Attr(modeling.PositionAttribute))
		recs[k].Vertex3 = verifControlToVec(t.P3Vec3Attr(modeling.PositionAttribute))
		if withNormals {
			recs[k].Normal = verifControlToVec(verifControlFacet(t))
		}
	}
	return Write(out, Binary{Triangles: recs})
}

// ---- scatter: must be reported (start = 3*i+1)
func verifControlScatterBad(in io.Reader) (*modeling.Mesh, error) {
	bin, err := Read(in)
	if err != nil {
		return nil, err
	}
	indices := make([]int, len(bin.Triangles)*3)
	position := make([]vector3.Float64, len(bin.Triangles)*3)
	normals := make([]vector3.Float64, len(bin.Triangles)*3)
	for i, tri := range bin.Triangles {
		start := i*3 + 1
		indices[start] = start
		indices[start+1] = start + 1
		indices[start+2] = start + 2
		position[start] = tri.Vertex1.Float64()
		position[start+1] = tri.Vertex2.Float64()
		position[start+2] = tri.Vertex3.Float64()
		var normal vector3.Float64
		if tri.Normal.Zero() {
			normal = tri.Vertex2.Float64().Sub(tri.Vertex1.Float64()).Cross(tri.Vertex3.Float64().Sub(tri.Vertex1.Float64())).Normalized()
		} else {
			normal = tri.Normal.Float64()
		}
		normals[start] = normal
		normals[start+1] = normal
		normals[start+2] = normal
	}
	mesh := modeling.NewTriangleMesh(indices).
		SetFloat3Attribute(modeling.PositionAttribute, position).
		SetFloat3Attribute(modeling.NormalAttribute, normals)
	return &mesh, nil
}

// ---- scatter: accepted idioms (counted loop, hoisted count, other local names, switch-free)
func verifControlScatterGood(in io.Reader) (*modeling.Mesh, error) {
	decoded, err := Read(in)
	if err != nil {
		return nil, err
	}
	n := len(decoded.Triangles)
	idx := make([]int, 3*n)
	pos := make([]vector3.Float64, 3*n)
	nrm := make([]vector3.Float64, n*3)
	for t := 0; t < n; t++ {
		rec := decoded.Triangles[t]
		base := 3 * t
		for c := 0; c < 3; c++ {
			idx[base+c] = base + c
		}
		pos[base+2] = rec.Vertex3.Float64()
		pos[base] = rec.Vertex1.Float64()
		pos[base+1] = rec.Vertex2.Float64()
		facet := rec.Normal.Float64()
		if nv := rec.Normal; nv.Y == 0 && nv.Z == 0 && 0 == nv.X {
			e1 := rec.Vertex2.Float64().Sub(rec.Vertex1.Float64())
			e2 := rec.Vertex3.Float64().Sub(rec.Vertex1.Float64())
			facet = e1.Cross(e2).Normalized()
		}
		nrm[base], nrm[base+1], nrm[base+2] = facet, facet, facet
	}
	mesh := modeling.NewTriangleMesh(idx).SetFloat3Attribute(modeling.PositionAttribute, pos)
	mesh = mesh.SetFloat3Attribute(modeling.NormalAttribute, nrm)
	return &mesh, nil
}
`

func runControls(a *anchors) {
	c := a.c
	if len(c.P.Controls) == 0 {
		return
	}
	get := func(name string) *ssa.Function {
		f := a.pkg.Func(name)
		if f == nil || f.Blocks == nil {
			return nil
		}
		return f
	}
	write, read := get("Write"), get("Read")
	ctls := []sx.Control{
		{Rule: "LAY-2", Label: "control:pair-bad", Want: ob.Violation, Run: func(r *rep) bool {
			w, rd := get("verifControlPairBadWrite"), get("verifControlPairBadRead")
			if w == nil || rd == nil {
				return false
			}
			codecPair(a, r, w, rd, false)
			return true
		}},
		{Rule: "LAY-2", Label: "control:pair-good", Want: ob.Holds, Run: func(r *rep) bool {
			w, rd := get("verifControlPairGoodWrite"), get("verifControlPairGoodRead")
			if w == nil || rd == nil {
				return false
			}
			codecPair(a, r, w, rd, true)
			return true
		}},
		{Rule: "SHAPE-2", Label: "control:gather-bad", Want: ob.Violation, Run: func(r *rep) bool {
			f := get("verifControlGatherBad")
			if f == nil || write == nil {
				return false
			}
			gather(a, r, f, write)
			return true
		}},
		{Rule: "SHAPE-2", Label: "control:gather-good", Want: ob.Holds, Run: func(r *rep) bool {
			f := get("verifControlGatherGood")
			if f == nil || write == nil {
				return false
			}
			writeMeshBytes(a, r, f, write)
			gather(a, r, f, write)
			return true
		}},
		{Rule: "NRM-PATH", Label: "control:normpath-bad", Want: ob.Violation, Run: func(r *rep) bool {
			f := get("verifControlNormBad")
			if f == nil || write == nil {
				return false
			}
			gather(a, r, f, write)
			return true
		}},
		{Rule: "NRM-PATH", Label: "control:normpath-good", Want: ob.Holds, Run: func(r *rep) bool {
			f := get("verifControlNormGood")
			if f == nil || write == nil {
				return false
			}
			gather(a, r, f, write)
			return true
		}},
		{Rule: "SYM-STRIDE", Label: "control:scatter-bad", Want: ob.Violation, Run: func(r *rep) bool {
			f := get("verifControlScatterBad")
			if f == nil || read == nil {
				return false
			}
			scatter(a, r, f, read)
			return true
		}},
		{Rule: "SYM-STRIDE", Label: "control:scatter-good", Want: ob.Holds, Run: func(r *rep) bool {
			f := get("verifControlScatterGood")
			if f == nil || read == nil {
				return false
			}
			scatter(a, r, f, read)
			return true
		}},
	}
	sx.RunControls(c, controlFile, ctls)
}

// emptyGuardOnly: a success return that bypasses the scatter loop is only
// allowed when there are no records (n == 0).
func emptyGuardOnly(a *anchors, r *rep, e *sx.Env, fn *ssa.Function, header *ssa.BasicBlock, n sx.Poly) {
	key := a.p.FuncName(fn) + "#empty-guard"
	okAll := true
	var facts []string
	for _, ret := range sx.SuccessReturns(fn) {
		if header.Dominates(ret.Block()) {
			continue
		}
		b := ret.Block()
		guarded := false
		if len(b.Preds) == 1 {
			p := b.Preds[0]
			if iff, ok := p.Instrs[len(p.Instrs)-1].(*ssa.If); ok {
				if cmp, ok := iff.Cond.(*ssa.BinOp); ok {
					x, y := e.Int(cmp.X), e.Int(cmp.Y)
					if c, isC := x.IsConst(); isC && c == 0 {
						x, y = y, x
					}
					c, isC := y.IsConst()
					onTrue := p.Succs[0] == b
					if isC && c == 0 && x.Equal(n) && ((cmp.Op == token.EQL && onTrue) || (cmp.Op == token.NEQ && !onTrue)) {
						guarded = true
						facts = append(facts, "early return under "+n.String()+" == 0")
					}
				}
			}
		}
		if !guarded {
			okAll = false
			r.Violate("SHAPE-2", key, a.p.Pos(ret.Pos()), "a success return bypasses the scatter loop without being guarded by an empty record list: triangles are dropped")
		}
	}
	if okAll {
		r.Hold("SHAPE-2", key, a.p.Pos(fn.Pos()), facts...)
	}
}

// normalsKept decides LATCH-1. When the normals attribute is attached only under
// a loop-carried boolean flag, the flag must be a latch over the record loop:
//
//	(a) monotone — once true it stays true: the value carried around the back edge,
//	    evaluated abstractly (sx.BoolEval, three-valued, package-local helpers
//	    inlined) with the previous value set to true and everything else unknown,
//	    is true (`flag = flag || e`, `if e { flag = true }`, `flag = or(flag, e)`);
//	    an assignment that does not even read the previous value is a reset;
//	(b) raised by every record that stores a normal: with the previous value false
//	    and the record's Normal non-zero (each single component, and all), the
//	    carried value is true.
//
// Contract assumed (recorded in the evidence): any record with a stored normal ⇒
// the mesh read back carries the normals attribute — otherwise stored normals are
// lost on ReadMesh → WriteMesh.
func normalsKept(a *anchors, r *rep, e *sx.Env, fn *ssa.Function, join *ssa.Phi, fallbackEdges []int, normalVar *types.Var) {
	key := a.p.FuncName(fn) + "#normals-flag"
	var call *ssa.Call
	ssau.AllInstrs(fn, func(in ssa.Instruction) {
		if c, ok := in.(*ssa.Call); ok && a.isMeshMethod(c, "SetFloat3Attribute") && len(c.Call.Args) == 3 {
			if s, ok := sx.ConstStringArg(c, 1); ok && s == a.nrmAttr {
				call = c
			}
		}
	})
	if call == nil {
		return
	}
	pos := a.p.Pos(call.Pos())
	uncond := true
	after := join.Block()
	var loop *ssau.Loop
	if ls := e.LoopsOf(join.Block()); len(ls) > 0 {
		after, loop = ls[0].Header, ls[0]
	}
	for _, ret := range sx.SuccessReturns(fn) {
		if after.Dominates(ret.Block()) && !call.Block().Dominates(ret.Block()) {
			uncond = false
		}
	}
	if uncond {
		r.Hold("LATCH-1", key, pos, "the normals array is attached unconditionally")
		return
	}
	// the guard
	var cond ssa.Value
	onTrue := false
	for b := call.Block(); b != nil && cond == nil; b = b.Idom() {
		d := b.Idom()
		if d == nil || len(d.Instrs) == 0 {
			continue
		}
		iff, ok := d.Instrs[len(d.Instrs)-1].(*ssa.If)
		if !ok {
			continue
		}
		switch {
		case d.Succs[0].Dominates(call.Block()) && !d.Succs[1].Dominates(call.Block()):
			cond, onTrue = iff.Cond, true
		case d.Succs[1].Dominates(call.Block()) && !d.Succs[0].Dominates(call.Block()):
			cond, onTrue = iff.Cond, false
		}
	}
	if u, ok := cond.(*ssa.UnOp); ok && u.Op == token.NOT {
		cond, onTrue = u.X, !onTrue
	}
	hdr, ok := cond.(*ssa.Phi)
	if !ok || !onTrue || loop == nil || hdr.Block() != loop.Header {
		a.c.R.Note("LATCH-1 %s: the guard of the normals attribute is not a flag carried around the record loop (e.g. computed by a helper over all records); not judged", key)
		return
	}
	var latches []ssa.Value
	for i, ed := range hdr.Edges {
		if loop.Blocks[hdr.Block().Preds[i]] {
			latches = append(latches, ed)
		} else if c, ok := ed.(*ssa.Const); !ok || c.Value == nil || c.Value.String() != "false" {
			a.c.R.Note("LATCH-1 %s: flag does not start as false; not judged", key)
			return
		}
	}
	eval := func(v ssa.Value, prev sx.Tri, zero *[3]bool) sx.Tri {
		be := &sx.BoolEval{Inline: a.inline}
		var comp func(ssa.Value, *sx.Ctx) (sx.Tri, bool)
		if zero != nil {
			comp = normalAtom(a, e, normalVar, *zero)
		}
		be.Atom = func(x ssa.Value, ctx *sx.Ctx) (sx.Tri, bool) {
			if x == ssa.Value(hdr) {
				return prev, true
			}
			if comp != nil {
				return comp(x, ctx)
			}
			return sx.TU, false
		}
		return be.Value(v, nil)
	}
	for _, l := range latches {
		// (a) monotone
		if got := eval(l, sx.TT, nil); got != sx.TT {
			sl := sx.NewSlicer(a.inline).WithEnv(e)
			sl.Control = true
			sl.From(l, nil, nil)
			if got == sx.TF {
				r.Violate("LATCH-1", key, a.p.Pos(hdr.Pos()), "the flag that decides whether the normals attribute is attached can be reset: with the previous value true its update evaluates to false, so stored normals of earlier records are dropped")
			} else if !sl.Has(hdr) {
				r.Violate("LATCH-1", key, a.p.Pos(hdr.Pos()), "the flag that decides whether the normals attribute is attached is overwritten per record without reading its previous value: after the loop it reflects the last record only, so stored normals of earlier records are dropped when the last record has none")
			} else {
				r.Undecide("LATCH-1", key, a.p.Pos(hdr.Pos()), "the flag that decides whether the normals attribute is attached is not shown to stay true once set (its update reads the previous value but is not of the form flag || e / if e { flag = true })")
			}
			return
		}
	}
	// (b) raised by stored normals
	decided := true
	for _, zero := range [][3]bool{{false, true, true}, {true, false, true}, {true, true, false}, {false, false, false}} {
		z := zero
		for _, l := range latches {
			switch eval(l, sx.TF, &z) {
			case sx.TF:
				r.Violate("LATCH-1", key, pos, "a record with a stored (non-zero) normal does not raise the flag under which the normals attribute is attached: stored normals are dropped from the mesh read back")
				return
			case sx.TU:
				decided = false
			}
		}
	}
	facts := []string{"back-edge value is true whenever the previous value is true (abstract evaluation)"}
	if decided {
		facts = append(facts, "with the previous value false, a record whose Normal has any non-zero component sets it")
	} else {
		facts = append(facts, "raising by stored normals not decided for this predicate idiom")
	}
	_ = fallbackEdges
	r.Hold("LATCH-1", key, pos, facts...)
}

// normalAtom decides comparisons `component ==/!= 0` of the record's Normal for a given zero pattern.
func normalAtom(a *anchors, e *sx.Env, normalVar *types.Var, zero [3]bool) func(ssa.Value, *sx.Ctx) (sx.Tri, bool) {
	vst := a.tVec.Underlying().(*types.Struct)
	compOf := func(v ssa.Value, ctx *sx.Ctx) int {
		sl := sx.NewSlicer(a.inline).WithEnv(e)
		sl.From(v, nil, ctx)
		tf := sl.FieldReads(a.tTri)
		if len(tf) != 1 || !tf[normalVar] {
			return -1
		}
		vf := sl.FieldReads(a.tVec)
		if len(vf) != 1 {
			return -1
		}
		for f := range vf {
			for i := 0; i < vst.NumFields(); i++ {
				if vst.Field(i) == f {
					return i
				}
			}
		}
		return -1
	}
	isZeroConst := func(v ssa.Value) bool {
		c, ok := v.(*ssa.Const)
		if !ok || c.Value == nil {
			return false
		}
		k := c.Value.Kind().String()
		return (k == "Float" || k == "Int") && c.Value.String() == "0"
	}
	return func(v ssa.Value, ctx *sx.Ctx) (sx.Tri, bool) {
		bo, ok := v.(*ssa.BinOp)
		if !ok || (bo.Op != token.EQL && bo.Op != token.NEQ) {
			return sx.TU, false
		}
		x, y := bo.X, bo.Y
		if isZeroConst(x) {
			x, y = y, x
		}
		if !isZeroConst(y) {
			return sx.TU, false
		}
		c := compOf(x, ctx)
		if c < 0 || c > 2 {
			return sx.TU, false
		}
		res := sx.TF
		if zero[c] {
			res = sx.TT
		}
		if bo.Op == token.NEQ {
			res = res.Not()
		}
		return res, true
	}
}

// fallbackPolarity evaluates, over the abstract domain {zero, non-zero} for the
// three components of the record's Normal, which edge of the join is taken.
// TT: the fallback edge fb is taken exactly for (0,0,0); TF: decided otherwise; TU: not decided.
func fallbackPolarity(a *anchors, e *sx.Env, phi *ssa.Phi, fbs []int, normalVar *types.Var) (sx.Tri, string) {
	blk := phi.Block()
	d := blk.Idom()
	if d == nil {
		return sx.TU, ""
	}
	vst := a.tVec.Underlying().(*types.Struct)
	compOf := func(v ssa.Value, ctx *sx.Ctx) int {
		sl := sx.NewSlicer(a.inline).WithEnv(e)
		sl.From(v, nil, ctx)
		tf := sl.FieldReads(a.tTri)
		if len(tf) != 1 || !tf[normalVar] {
			return -1
		}
		vf := sl.FieldReads(a.tVec)
		if len(vf) != 1 {
			return -1
		}
		for f := range vf {
			for i := 0; i < vst.NumFields(); i++ {
				if vst.Field(i) == f {
					return i
				}
			}
		}
		return -1
	}
	isZeroConst := func(v ssa.Value) bool {
		c, ok := v.(*ssa.Const)
		if !ok || c.Value == nil {
			return false
		}
		k := c.Value.Kind().String()
		return (k == "Float" || k == "Int") && c.Value.String() == "0"
	}
	eval := func(zero [3]bool) sx.Tri {
		be := &sx.BoolEval{Inline: a.inline}
		be.Atom = func(v ssa.Value, ctx *sx.Ctx) (sx.Tri, bool) {
			bo, ok := v.(*ssa.BinOp)
			if !ok || (bo.Op != token.EQL && bo.Op != token.NEQ) {
				return sx.TU, false
			}
			x, y := bo.X, bo.Y
			if isZeroConst(x) {
				x, y = y, x
			}
			if !isZeroConst(y) {
				return sx.TU, false
			}
			c := compOf(x, ctx)
			if c < 0 || c > 2 {
				return sx.TU, false
			}
			res := sx.TF
			if zero[c] {
				res = sx.TT
			}
			if bo.Op == token.NEQ {
				res = res.Not()
			}
			return res, true
		}
		res := sx.TF
		for _, fb := range fbs {
			p := blk.Preds[fb]
			reach := be.Reached(p, d, nil)
			var ec sx.Tri = sx.TT
			if iff, ok := p.Instrs[len(p.Instrs)-1].(*ssa.If); ok {
				c := be.Value(iff.Cond, nil)
				if p.Succs[0] == blk && p.Succs[1] != blk {
					ec = c
				} else if p.Succs[1] == blk && p.Succs[0] != blk {
					ec = c.Not()
				}
			}
			var taken sx.Tri
			switch {
			case reach == sx.TF || ec == sx.TF:
				taken = sx.TF
			case reach == sx.TT && ec == sx.TT:
				taken = sx.TT
			default:
				taken = sx.TU
			}
			switch {
			case taken == sx.TT:
				return sx.TT
			case taken == sx.TU:
				res = sx.TU
			}
		}
		return res
	}
	cases := []struct {
		zero [3]bool
		want sx.Tri
		desc string
	}{
		{[3]bool{true, true, true}, sx.TT, "for the zero vector the stored (zero) normal is kept"},
		{[3]bool{false, true, true}, sx.TF, "a normal with only X non-zero is replaced by the flat normal"},
		{[3]bool{true, false, true}, sx.TF, "a normal with only Y non-zero is replaced by the flat normal"},
		{[3]bool{true, true, false}, sx.TF, "a normal with only Z non-zero is replaced by the flat normal"},
		{[3]bool{false, false, false}, sx.TF, "a fully non-zero stored normal is replaced by the flat normal"},
	}
	for _, c := range cases {
		got := eval(c.zero)
		if got == sx.TU {
			return sx.TU, ""
		}
		if got != c.want {
			return sx.TF, c.desc
		}
	}
	return sx.TT, ""
}

// appendForm recognises `s := make([]T, 0, cap); for i … { s = append(s, e0, …) [; s = append(s, …)] }`:
// the value handed on after the loop is the loop-header phi of the slice, whose
// initial value is an empty make and whose back-edge value is a chain of appends
// starting at the phi. elems are the appended values in order.
type appendElem struct {
	val  ssa.Value
	call *ssa.Call
}

type appendInfo struct {
	mk    *ssa.MakeSlice
	iv    *sx.IV
	ivs   []*sx.IV
	elems []appendElem
	why   string // non-empty: append idiom, but a shape the rule does not decide
	// violation: why describes a decided defect rather than an unrecognised shape
	violation bool
}

func appendForm(e *sx.Env, v ssa.Value) (*appendInfo, bool) {
	phi, ok := v.(*ssa.Phi)
	if !ok {
		return nil, false
	}
	var loop *ssau.Loop
	for _, l := range e.Loops() {
		if l.Header == phi.Block() {
			loop = l
		}
	}
	if loop == nil {
		return nil, false
	}
	info := &appendInfo{}
	var latch ssa.Value
	for i, ed := range phi.Edges {
		if loop.Blocks[phi.Block().Preds[i]] {
			if latch != nil && latch != ed {
				info.why = "the slice is carried around the loop along paths with different appends (a skipped or conditional append)"
				return info, true
			}
			latch = ed
		} else {
			root, off := e.SliceRoot(ed)
			mk, isMk := root.(*ssa.MakeSlice)
			if !isMk || !off.IsZero() {
				return nil, false
			}
			if l, isC := e.Len(mk).IsConst(); !isC || l != 0 {
				info.why = "its initial value is not an empty make([]T, 0, n)"
				return info, true
			}
			info.mk = mk
		}
	}
	if latch == nil || info.mk == nil {
		return nil, false
	}
	// chain of appends from the latch value down to the phi
	var chain []*ssa.Call
	cur := latch
	for i := 0; i < 16; i++ {
		if cur == ssa.Value(phi) {
			break
		}
		c, isCall := cur.(*ssa.Call)
		if jp, isPhi := cur.(*ssa.Phi); isPhi && !isCall {
			for _, l := range phiLeaves(jp) {
				if ac, ok := l.(*ssa.Call); ok && ssau.Builtin(ac) == "append" {
					info.why = "an append is conditional: some records add no elements (one output per record, unconditionally)"
					info.violation = true
					return info, true
				}
			}
		}
		if !isCall || ssau.Builtin(c) != "append" || len(c.Call.Args) != 2 {
			if cur == latch && i == 0 {
				return nil, false
			}
			info.why = "the value carried around the loop is not a plain chain of appends onto the previous value"
			return info, true
		}
		chain = append([]*ssa.Call{c}, chain...)
		cur = c.Call.Args[0]
	}
	if cur != ssa.Value(phi) || len(chain) == 0 {
		info.why = "the appends do not start from the slice of the previous iteration"
		return info, true
	}
	iv := e.IVOfLoop(loop)
	if iv == nil {
		info.why = "the loop is not a canonical counted loop"
		return info, true
	}
	info.iv = iv
	for _, c := range chain {
		ivs, ok := e.EnclosingIVs(c.Block())
		if !ok || len(ivs) == 0 || ivs[len(ivs)-1] != iv {
			info.why = "an append sits in a nested or non-counted loop"
			return info, true
		}
		info.ivs = ivs
		sl, isSl := c.Call.Args[1].(*ssa.Slice)
		if !isSl {
			info.why = "a slice is appended as a whole (append(s, other...))"
			return info, true
		}
		al, isAl := sl.X.(*ssa.Alloc)
		if !isAl {
			info.why = "a slice is appended as a whole (append(s, other...))"
			return info, true
		}
		sts := append([]sx.StoreAt{}, e.Stores(al)...)
		sort.SliceStable(sts, func(i, j int) bool {
			pi, pj := -1, -1
			if len(sts[i].Ad.Path) > 0 {
				pi = sts[i].Ad.Path[0]
			}
			if len(sts[j].Ad.Path) > 0 {
				pj = sts[j].Ad.Path[0]
			}
			return pi < pj
		})
		for k, st := range sts {
			if len(st.Ad.Path) != 1 || st.Ad.Path[0] != k {
				info.why = "the appended values are not a plain argument list"
				return info, true
			}
			info.elems = append(info.elems, appendElem{st.St.Val, c})
		}
	}
	return info, true
}
