package sx

import (
	"go/token"

	"golang.org/x/tools/go/ssa"
)

// Tri is a three-valued truth value.
type Tri int

const (
	TU Tri = iota // unknown
	TT
	TF
)

func (t Tri) Not() Tri {
	switch t {
	case TT:
		return TF
	case TF:
		return TT
	}
	return TU
}

func triAnd(a, b Tri) Tri {
	if a == TF || b == TF {
		return TF
	}
	if a == TT && b == TT {
		return TT
	}
	return TU
}

func triOr(a, b Tri) Tri {
	if a == TT || b == TT {
		return TT
	}
	if a == TF && b == TF {
		return TF
	}
	return TU
}

// BoolEval evaluates boolean SSA values over an abstract assignment of atoms
// (abstract interpretation of loop-free predicate code: comparisons decided by
// the Atom hook, !, short-circuit phis, calls into inlineable predicates).
// Nothing is executed; unknown constructs evaluate to TU.
type BoolEval struct {
	// Atom decides a comparison (or any other boolean leaf); ok=false when it is not an atom.
	Atom   func(v ssa.Value, ctx *Ctx) (Tri, bool)
	Inline func(*ssa.Function) bool
	depth  int
}

// Value evaluates a boolean value in context ctx.
func (b *BoolEval) Value(v ssa.Value, ctx *Ctx) Tri {
	if b.depth > 64 {
		return TU
	}
	b.depth++
	defer func() { b.depth-- }()
	if b.Atom != nil {
		if t, ok := b.Atom(v, ctx); ok {
			return t
		}
	}
	switch x := v.(type) {
	case *ssa.Const:
		if x.Value != nil && x.Value.Kind().String() == "Bool" {
			if x.Value.String() == "true" {
				return TT
			}
			return TF
		}
	case *ssa.UnOp:
		if x.Op == token.NOT {
			return b.Value(x.X, ctx).Not()
		}
	case *ssa.Parameter:
		if ctx != nil {
			for i, p := range x.Parent().Params {
				if p == x && i < len(ctx.Call.Call.Args) {
					return b.Value(ctx.Call.Call.Args[i], ctx.Parent)
				}
			}
		}
	case *ssa.ChangeType:
		return b.Value(x.X, ctx)
	case *ssa.Phi:
		blk := x.Block()
		d := blk.Idom()
		if d == nil {
			return TU
		}
		for _, p := range blk.Preds {
			if blk.Dominates(p) {
				return TU // loop header
			}
		}
		res := TU
		decided := false
		for i, p := range blk.Preds {
			taken := triAnd(b.Reached(p, d, ctx), edgeCond(b, p, blk, ctx))
			switch taken {
			case TT:
				return b.Value(x.Edges[i], ctx)
			case TU:
				// cannot exclude this edge: the phi is known only if all possible edges agree
				v := b.Value(x.Edges[i], ctx)
				if !decided {
					res, decided = v, true
				} else if res != v {
					return TU
				}
			}
		}
		if decided {
			return res
		}
	case *ssa.Call:
		callee := x.Call.StaticCallee()
		if callee == nil || callee.Blocks == nil || b.Inline == nil || !b.Inline(callee) || ctx.has(callee) {
			return TU
		}
		nctx := &Ctx{Call: x, Parent: ctx}
		if ctx != nil {
			nctx.Depth = ctx.Depth + 1
		}
		if nctx.Depth > 4 {
			return TU
		}
		entry := callee.Blocks[0]
		res := TU
		decided := false
		for _, blk := range callee.Blocks {
			if len(blk.Instrs) == 0 {
				continue
			}
			ret, ok := blk.Instrs[len(blk.Instrs)-1].(*ssa.Return)
			if !ok || len(ret.Results) != 1 {
				continue
			}
			switch b.Reached(blk, entry, nctx) {
			case TT:
				return b.Value(ret.Results[0], nctx)
			case TU:
				v := b.Value(ret.Results[0], nctx)
				if !decided {
					res, decided = v, true
				} else if res != v {
					return TU
				}
			}
		}
		if decided {
			return res
		}
	}
	return TU
}

func edgeCond(b *BoolEval, from, to *ssa.BasicBlock, ctx *Ctx) Tri {
	if len(from.Instrs) == 0 {
		return TU
	}
	switch t := from.Instrs[len(from.Instrs)-1].(type) {
	case *ssa.Jump:
		return TT
	case *ssa.If:
		c := b.Value(t.Cond, ctx)
		if from.Succs[0] == to && from.Succs[1] == to {
			return TT
		}
		if from.Succs[0] == to {
			return c
		}
		return c.Not()
	}
	return TU
}

// Reached evaluates whether block blk is reached, given that block from (which
// must dominate blk) is reached. The region between them must be loop-free.
func (b *BoolEval) Reached(blk, from *ssa.BasicBlock, ctx *Ctx) Tri {
	if blk == from {
		return TT
	}
	if !from.Dominates(blk) {
		return TU
	}
	if b.depth > 64 {
		return TU
	}
	b.depth++
	defer func() { b.depth-- }()
	res := TF
	for _, p := range blk.Preds {
		if blk.Dominates(p) {
			return TU // back edge
		}
		res = triOr(res, triAnd(b.Reached(p, from, ctx), edgeCond(b, p, blk, ctx)))
	}
	return res
}
