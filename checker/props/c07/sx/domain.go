package sx

import (
	"go/constant"
	"go/types"
	"strings"

	"golang.org/x/tools/go/ssa"

	"polycheck/ssau"
)

const vecPkgPrefix = "github.com/EliCDavis/vector/vector"

// vecDim returns N for the package github.com/EliCDavis/vector/vectorN.
func vecDim(pkg *types.Package) int {
	if pkg == nil || !strings.HasPrefix(pkg.Path(), vecPkgPrefix) {
		return 0
	}
	switch pkg.Path()[len(vecPkgPrefix):] {
	case "2":
		return 2
	case "3":
		return 3
	case "4":
		return 4
	}
	return 0
}

// IsVecType reports whether t is vectorN.Vector[T] and returns N.
func IsVecType(t types.Type) (int, bool) {
	n := ssau.NamedOf(t)
	if n == nil || n.Origin().Obj().Name() != "Vector" {
		return 0, false
	}
	d := vecDim(n.Origin().Obj().Pkg())
	return d, d > 0
}

// AxisGetter reports whether fn is the component accessor X/Y/Z/W of a
// vectorN.Vector and returns the axis ordinal (X=0 … W=3).
func AxisGetter(fn *types.Func) (int, bool) {
	if fn == nil {
		return 0, false
	}
	n := ssau.RecvNamed(fn)
	if n == nil || n.Origin().Obj().Name() != "Vector" || vecDim(n.Origin().Obj().Pkg()) == 0 {
		return 0, false
	}
	switch fn.Name() {
	case "X":
		return 0, true
	case "Y":
		return 1, true
	case "Z":
		return 2, true
	case "W":
		return 3, true
	}
	return 0, false
}

// IsSwizzle reports whether fn is a component-permuting method of a vector
// (XZY, ZXY, ZYX, YXZ, YZX, and the 2-component projections YX, ZX, ZY …).
func IsSwizzle(fn *types.Func) bool {
	if fn == nil {
		return false
	}
	n := ssau.RecvNamed(fn)
	if n == nil || n.Origin().Obj().Name() != "Vector" || vecDim(n.Origin().Obj().Pkg()) == 0 {
		return false
	}
	name := fn.Name()
	if len(name) < 2 || len(name) > 4 {
		return false
	}
	for _, c := range name {
		if c != 'X' && c != 'Y' && c != 'Z' && c != 'W' {
			return false
		}
	}
	// identity-ordered projections (XY, XYZ, YZ, XZ) keep the relative order; anything else permutes
	ord := "XYZW"
	last := -1
	for _, c := range name {
		i := strings.IndexRune(ord, c)
		if i <= last {
			return true
		}
		last = i
	}
	return false
}

// VecNew reports whether fn is vectorN.New and returns N.
func VecNew(fn *types.Func) (int, bool) {
	if fn == nil || fn.Name() != "New" || ssau.RecvNamed(fn) != nil {
		return 0, false
	}
	if sig, ok := fn.Type().(*types.Signature); ok && sig.Recv() != nil {
		return 0, false
	}
	d := vecDim(fn.Pkg())
	return d, d > 0
}

// VecMethod reports whether fn is the named method of a vectorN.Vector.
func VecMethod(fn *types.Func, name string) bool {
	if fn == nil || fn.Name() != name {
		return false
	}
	n := ssau.RecvNamed(fn)
	return n != nil && n.Origin().Obj().Name() == "Vector" && vecDim(n.Origin().Obj().Pkg()) > 0
}

// VecFunc reports whether fn is the named package-level function of a vectorN package.
func VecFunc(fn *types.Func, name string) bool {
	if fn == nil || fn.Name() != name || ssau.RecvNamed(fn) != nil {
		return false
	}
	return vecDim(fn.Pkg()) > 0
}

// StringConst returns the value of the string constant pkg.name.
func StringConst(pkg *types.Package, name string) (string, bool) {
	if pkg == nil {
		return "", false
	}
	c, ok := pkg.Scope().Lookup(name).(*types.Const)
	if !ok || c.Val().Kind() != constant.String {
		return "", false
	}
	return constant.StringVal(c.Val()), true
}

// AxisName renders an axis ordinal.
func AxisName(a int) string {
	if a >= 0 && a < 4 {
		return string("XYZW"[a])
	}
	return "?"
}

// AxisTags collects the axis ordinals of the component getters on a slice.
func (s *Slicer) AxisTags() map[int]bool {
	out := map[int]bool{}
	for _, c := range s.Calls() {
		if a, ok := AxisGetter(ssau.CalleeObj(c)); ok {
			out[a] = true
		}
	}
	return out
}

// Swizzles returns the component-permuting calls on a slice.
func (s *Slicer) Swizzles() []*ssa.Call {
	var out []*ssa.Call
	for _, c := range s.Calls() {
		if IsSwizzle(ssau.CalleeObj(c)) {
			out = append(out, c)
		}
	}
	return out
}

// ConstStringArg returns the constant string passed as argument i of a call.
func ConstStringArg(c *ssa.Call, i int) (string, bool) {
	if i >= len(c.Call.Args) {
		return "", false
	}
	return ssau.ConstString(c.Call.Args[i])
}

// ErrorOnly reports whether every return reachable from block b (without
// entering a block in avoid) returns a non-nil error or panics — i.e. b starts
// a failure path.
func ErrorOnly(b *ssa.BasicBlock, avoid map[*ssa.BasicBlock]bool) bool {
	seen := map[*ssa.BasicBlock]bool{}
	stack := []*ssa.BasicBlock{b}
	for len(stack) > 0 {
		n := stack[len(stack)-1]
		stack = stack[:len(stack)-1]
		if seen[n] {
			continue
		}
		seen[n] = true
		if avoid[n] {
			return false
		}
		if len(n.Instrs) == 0 {
			continue
		}
		switch t := n.Instrs[len(n.Instrs)-1].(type) {
		case *ssa.Return:
			if !returnsError(t) {
				return false
			}
		case *ssa.Panic:
		default:
			stack = append(stack, n.Succs...)
		}
	}
	return true
}

// returnsError reports whether the last result of ret is of type error and is
// not the constant nil.
func returnsError(ret *ssa.Return) bool {
	if len(ret.Results) == 0 {
		return false
	}
	last := ret.Results[len(ret.Results)-1]
	if !isErrorType(last.Type()) {
		return false
	}
	if c, ok := last.(*ssa.Const); ok && c.IsNil() {
		return false
	}
	return true
}

func isErrorType(t types.Type) bool {
	n, ok := t.(*types.Named)
	return ok && n.Obj().Pkg() == nil && n.Obj().Name() == "error"
}

// SuccessReturns lists the returns of fn whose error result may be nil
// (constant nil, or a value that is not provably non-nil such as a forwarded
// callee result).
func SuccessReturns(fn *ssa.Function) []*ssa.Return {
	var out []*ssa.Return
	for _, b := range fn.Blocks {
		if len(b.Instrs) == 0 {
			continue
		}
		if r, ok := b.Instrs[len(b.Instrs)-1].(*ssa.Return); ok {
			if len(r.Results) == 0 {
				out = append(out, r)
				continue
			}
			last := r.Results[len(r.Results)-1]
			if c, ok := last.(*ssa.Const); ok && c.IsNil() {
				out = append(out, r)
			}
		}
	}
	return out
}
