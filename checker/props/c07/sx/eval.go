package sx

import (
	"fmt"
	"go/constant"
	"go/token"
	"go/types"
	"sort"
	"strings"

	"golang.org/x/tools/go/ssa"

	"polycheck/ssau"
)

// Addr is a resolved address expression.
type Addr struct {
	Root     ssa.Value   // *ssa.Alloc, *ssa.Global or any pointer-valued value the chain starts from; nil when the chain ends in a slice element
	Path     []int       // field indices / constant array indices below Root (or below the slice element); -1 = non-constant array index
	Dyn      []ssa.Value // the non-constant array indices
	Slice    ssa.Value   // the slice value when the chain goes through an element of a slice
	SliceIdx ssa.Value
	Chain    []ssa.Value // the FieldAddr / IndexAddr instructions walked, outermost first
}

// ResolveAddr walks a FieldAddr/IndexAddr chain down to its root.
func ResolveAddr(a ssa.Value) Addr {
	var ad Addr
	for {
		switch x := a.(type) {
		case *ssa.FieldAddr:
			ad.Path = append([]int{x.Field}, ad.Path...)
			ad.Chain = append(ad.Chain, x)
			a = x.X
			continue
		case *ssa.IndexAddr:
			ad.Chain = append(ad.Chain, x)
			if _, isSlice := x.X.Type().Underlying().(*types.Slice); isSlice {
				ad.Slice, ad.SliceIdx = x.X, x.Index
				return ad
			}
			if c, ok := ssau.ConstInt(x.Index); ok {
				ad.Path = append([]int{int(c)}, ad.Path...)
			} else {
				ad.Path = append([]int{-1}, ad.Path...)
				ad.Dyn = append(ad.Dyn, x.Index)
			}
			a = x.X
			continue
		case *ssa.ChangeType:
			a = x.X
			continue
		}
		ad.Root = a
		return ad
	}
}

// PathsOverlap reports whether two paths below the same root can denote
// overlapping storage (one is a prefix of the other; -1 matches any index).
func PathsOverlap(p, q []int) bool {
	n := len(p)
	if len(q) < n {
		n = len(q)
	}
	for i := 0; i < n; i++ {
		if p[i] != q[i] && p[i] != -1 && q[i] != -1 {
			return false
		}
	}
	return true
}

// StoreAt is a store instruction with its resolved destination.
type StoreAt struct {
	St *ssa.Store
	Ad Addr
}

// Env is the per-function symbolic environment.
type Env struct {
	Fn       *ssa.Function
	cache    map[ssa.Value]Poly
	busy     map[ssa.Value]bool
	symRoots map[string][]ssa.Value  // symbol -> values whose definition point decides loop variance
	stores   map[ssa.Value][]StoreAt // root (alloc or pointer value) -> stores below it
	sliceSt  []StoreAt               // stores into slice elements
	escapes  map[*ssa.Alloc][]Esc
	loops    []*ssau.Loop
	ivs      []*IV
	ivDone   bool
	ivBuild  bool // IVs are being recognised: loop-carried accumulators are not resolved yet
}

func NewEnv(fn *ssa.Function) *Env {
	e := &Env{Fn: fn, cache: map[ssa.Value]Poly{}, busy: map[ssa.Value]bool{}, symRoots: map[string][]ssa.Value{},
		stores: map[ssa.Value][]StoreAt{}, escapes: map[*ssa.Alloc][]Esc{}}
	ssau.AllInstrs(fn, func(in ssa.Instruction) {
		if st, ok := in.(*ssa.Store); ok {
			ad := ResolveAddr(st.Addr)
			if ad.Slice != nil {
				e.sliceSt = append(e.sliceSt, StoreAt{st, ad})
			} else {
				e.stores[ad.Root] = append(e.stores[ad.Root], StoreAt{st, ad})
			}
		}
	})
	for _, b := range fn.Blocks {
		for _, in := range b.Instrs {
			if al, ok := in.(*ssa.Alloc); ok {
				e.escapes[al] = allocEscapes(al)
			}
		}
	}
	e.loops = ssau.Loops(fn)
	return e
}

// Esc is a use of an alloc (or of an address below it) that is neither a load
// nor the address operand of a store: the storage at Path may be read or
// written by someone else from there on.
type Esc struct {
	In   ssa.Instruction
	Path []int
}

func allocEscapes(al *ssa.Alloc) []Esc {
	var out []Esc
	seen := map[ssa.Value]bool{}
	var walk func(v ssa.Value, path []int)
	walk = func(v ssa.Value, path []int) {
		if seen[v] {
			return
		}
		seen[v] = true
		for _, r := range ssau.Refs(v) {
			switch x := r.(type) {
			case *ssa.UnOp:
				if x.Op == token.MUL {
					continue
				}
				out = append(out, Esc{r, path})
			case *ssa.Store:
				if x.Addr == v {
					continue
				}
				out = append(out, Esc{r, path})
			case *ssa.FieldAddr:
				walk(x, append(append([]int{}, path...), x.Field))
			case *ssa.IndexAddr:
				k := -1
				if c, ok := ssau.ConstInt(x.Index); ok {
					k = int(c)
				}
				walk(x, append(append([]int{}, path...), k))
			case *ssa.DebugRef:
			default:
				out = append(out, Esc{r, path})
			}
		}
	}
	walk(al, nil)
	return out
}

// Stores returns the stores whose destination lies below root.
func (e *Env) Stores(root ssa.Value) []StoreAt { return e.stores[root] }

// SliceStores returns all stores into slice elements in the function.
func (e *Env) SliceStores() []StoreAt { return e.sliceSt }

// Escapes returns the escaping uses of an alloc.
func (e *Env) Escapes(al *ssa.Alloc) []Esc { return e.escapes[al] }

// EscapesAt returns the escapes that overlap the given path below the alloc.
func (e *Env) EscapesAt(al *ssa.Alloc, path []int) []Esc {
	var out []Esc
	for _, x := range e.escapes[al] {
		if PathsOverlap(x.Path, path) {
			out = append(out, x)
		}
	}
	return out
}

// Spill recognises the "value parameter spilled to a local" idiom: the alloc's
// only store is `*alloc = param`. The returned value is the parameter.
func (e *Env) Spill(al *ssa.Alloc) (ssa.Value, bool) {
	sts := e.stores[al]
	if len(sts) != 1 || len(sts[0].Ad.Path) != 0 {
		return nil, false
	}
	p, ok := sts[0].St.Val.(*ssa.Parameter)
	if !ok {
		return nil, false
	}
	return p, true
}

func pathName(rootType types.Type, path []int) string {
	t := rootType
	if p, ok := t.Underlying().(*types.Pointer); ok {
		t = p.Elem()
	}
	var b strings.Builder
	for _, k := range path {
		switch u := t.Underlying().(type) {
		case *types.Struct:
			if k >= 0 && k < u.NumFields() {
				b.WriteString("." + u.Field(k).Name())
				t = u.Field(k).Type()
				continue
			}
		case *types.Array:
			fmt.Fprintf(&b, "[%d]", k)
			t = u.Elem()
			continue
		}
		fmt.Fprintf(&b, ".#%d", k)
	}
	return b.String()
}

func (e *Env) sym(name string, roots ...ssa.Value) Poly {
	if _, ok := e.symRoots[name]; !ok {
		e.symRoots[name] = roots
	}
	return Sym(name)
}

func (e *Env) opaque(v ssa.Value) Poly { return e.sym(v.Name(), v) }

// SymRoots returns the values on whose definition point the symbol depends.
func (e *Env) SymRoots(s string) []ssa.Value { return e.symRoots[s] }

// VariantIn reports whether polynomial p may change between iterations of loop l.
func (e *Env) VariantIn(p Poly, l *ssau.Loop) bool {
	for _, s := range p.Symbols() {
		roots, ok := e.symRoots[s]
		if !ok {
			return true
		}
		for _, r := range roots {
			if in, ok := r.(ssa.Instruction); ok && in.Block() != nil && l.Blocks[in.Block()] {
				return true
			}
		}
	}
	return false
}

func isInt(t types.Type) bool {
	b, ok := t.Underlying().(*types.Basic)
	return ok && b.Info()&types.IsInteger != 0
}

func (e *Env) isLoopHeader(b *ssa.BasicBlock) bool {
	for _, l := range e.loops {
		if l.Header == b {
			return true
		}
	}
	return false
}

// Int evaluates an integer-valued SSA value to a polynomial over canonical
// symbols. It never fails: what is not understood becomes an opaque symbol
// named after the SSA register. Integer conversions are identities
// (no-overflow assumption).
func (e *Env) Int(v ssa.Value) Poly {
	if !e.ivDone {
		e.IVs()
	}
	if p, ok := e.cache[v]; ok {
		return p
	}
	if e.busy[v] {
		return e.opaque(v)
	}
	e.busy[v] = true
	p := e.int1(v)
	delete(e.busy, v)
	e.cache[v] = p
	return p
}

func (e *Env) int1(v ssa.Value) Poly {
	switch x := v.(type) {
	case *ssa.Const:
		if x.Value != nil && x.Value.Kind() == constant.Int {
			if i, ok := constant.Int64Val(x.Value); ok {
				return Const(i)
			}
			if u, ok := constant.Uint64Val(x.Value); ok {
				return Const(int64(u))
			}
		}
		if x.Value != nil && x.Value.Kind() == constant.Float {
			if i, ok := constant.Int64Val(constant.ToInt(x.Value)); ok {
				return Const(i)
			}
		}
		return e.sym("const:"+x.String(), x)
	case *ssa.Parameter:
		return e.sym(x.Name(), x)
	case *ssa.Convert:
		if isInt(x.Type()) && isInt(x.X.Type()) {
			return e.Int(x.X)
		}
	case *ssa.ChangeType:
		return e.Int(x.X)
	case *ssa.BinOp:
		if !isInt(x.Type()) {
			break
		}
		switch x.Op {
		case token.ADD:
			return e.Int(x.X).Add(e.Int(x.Y))
		case token.SUB:
			return e.Int(x.X).Sub(e.Int(x.Y))
		case token.MUL:
			return e.Int(x.X).Mul(e.Int(x.Y))
		case token.SHL:
			if s, ok := ssau.ConstInt(x.Y); ok && s >= 0 && s < 62 {
				return e.Int(x.X).MulConst(1 << uint(s))
			}
		}
	case *ssa.UnOp:
		switch x.Op {
		case token.SUB:
			if isInt(x.Type()) {
				return e.Int(x.X).Neg()
			}
		case token.MUL:
			if p, ok := e.loadInt(x); ok {
				return p
			}
		}
	case *ssa.Phi:
		if e.isLoopHeader(x.Block()) && !e.ivBuild {
			if p, ok := e.accumulator(x); ok {
				return p
			}
		}
		if !e.isLoopHeader(x.Block()) {
			var first *Poly
			same := true
			for _, ed := range x.Edges {
				p := e.Int(ed)
				if first == nil {
					first = &p
				} else if !first.Equal(p) {
					same = false
				}
			}
			if same && first != nil {
				return *first
			}
		}
	case *ssa.Call:
		switch ssau.Builtin(x) {
		case "len", "cap":
			return e.Len(x.Call.Args[0])
		}
		if k, ok := e.pureCallKey(x); ok {
			return e.sym(k, e.keyRoots(x)...)
		}
	case *ssa.Extract:
		if c, ok := x.Tuple.(*ssa.Call); ok {
			if k, ok := e.pureCallKey(c); ok {
				return e.sym(fmt.Sprintf("%s#%d", k, x.Index), e.keyRoots(c)...)
			}
		}
	}
	return e.opaque(v)
}

// pureCallKey canonicalises calls of value-receiver methods (and plain
// functions) whose arguments are canonical: two such calls with the same key
// are taken to return the same value (assumption: value-receiver accessors of
// the analysed types are pure functions of their arguments).
func (e *Env) pureCallKey(c *ssa.Call) (string, bool) {
	if c.Call.IsInvoke() {
		return "", false
	}
	callee := c.Call.StaticCallee()
	if callee == nil {
		return "", false
	}
	sig := callee.Signature
	if sig.Recv() == nil {
		return "", false
	}
	if _, isPtr := sig.Recv().Type().Underlying().(*types.Pointer); isPtr {
		return "", false
	}
	var parts []string
	for _, a := range c.Call.Args {
		k, ok := e.Key(a)
		if !ok {
			return "", false
		}
		parts = append(parts, k)
	}
	return callee.Name() + "(" + strings.Join(parts, ",") + ")", true
}

func (e *Env) keyRoots(c *ssa.Call) []ssa.Value {
	var roots []ssa.Value
	for _, a := range c.Call.Args {
		roots = append(roots, e.valueRoots(a)...)
	}
	return roots
}

func (e *Env) valueRoots(v ssa.Value) []ssa.Value {
	if isInt(v.Type()) {
		var out []ssa.Value
		for _, s := range e.Int(v).Symbols() {
			out = append(out, e.symRoots[s]...)
		}
		return out
	}
	switch x := v.(type) {
	case *ssa.UnOp:
		if x.Op == token.MUL {
			ad := ResolveAddr(x.X)
			if al, ok := ad.Root.(*ssa.Alloc); ok {
				if p, ok := e.Spill(al); ok {
					return []ssa.Value{p}
				}
			}
			if ad.Root != nil {
				return []ssa.Value{ad.Root}
			}
		}
	case *ssa.Const, *ssa.Parameter, *ssa.Global:
		return nil
	}
	return []ssa.Value{v}
}

// Key gives a canonical identity string for a value, when it has one.
func (e *Env) Key(v ssa.Value) (string, bool) {
	if isInt(v.Type()) {
		if _, isConst := v.(*ssa.Const); isConst {
			return e.Int(v).String(), true
		}
		p := e.Int(v)
		for _, s := range p.Symbols() {
			// opaque registers are canonical only for themselves; accept (the symbol is the SSA value)
			_ = s
		}
		return p.String(), true
	}
	switch x := v.(type) {
	case *ssa.Const:
		return x.String(), true
	case *ssa.Parameter:
		return x.Name(), true
	case *ssa.Global:
		return x.String(), true
	case *ssa.ChangeType:
		return e.Key(x.X)
	case *ssa.MakeInterface:
		return e.Key(x.X)
	case *ssa.UnOp:
		if x.Op == token.MUL {
			if name, ok := e.pathSym(x); ok {
				return name, true
			}
		}
	case *ssa.Call:
		return e.pureCallKey(x)
	case *ssa.Extract:
		if c, ok := x.Tuple.(*ssa.Call); ok {
			if k, ok := e.pureCallKey(c); ok {
				return fmt.Sprintf("%s#%d", k, x.Index), true
			}
		}
		return x.Name(), true
	}
	return "", false
}

// pathSym names a load by its access path when no store in the function can
// change what the path denotes: "pgh.NumPoints", "t1.Triangles", "bin".
func (e *Env) pathSym(ld *ssa.UnOp) (string, bool) {
	ad := ResolveAddr(ld.X)
	if ad.Slice != nil || ad.Root == nil {
		return "", false
	}
	for _, k := range ad.Path {
		if k < 0 {
			return "", false
		}
	}
	switch r := ad.Root.(type) {
	case *ssa.Alloc:
		if p, ok := e.Spill(r); ok {
			if len(e.EscapesAt(r, ad.Path)) > 0 {
				return "", false
			}
			return p.Name() + pathName(r.Type(), ad.Path), true
		}
		return "", false
	case *ssa.Parameter, *ssa.Extract, *ssa.Call, *ssa.Global, *ssa.FreeVar, *ssa.UnOp, *ssa.Phi:
		for _, st := range e.stores[ad.Root] {
			if PathsOverlap(st.Ad.Path, ad.Path) {
				return "", false
			}
		}
		name := ad.Root.Name()
		if g, ok := r.(*ssa.Global); ok {
			name = g.String()
		}
		return name + pathName(ad.Root.Type(), ad.Path), true
	}
	return "", false
}

func (e *Env) loadInt(ld *ssa.UnOp) (Poly, bool) {
	if name, ok := e.pathSym(ld); ok {
		ad := ResolveAddr(ld.X)
		root := ad.Root
		if al, ok := root.(*ssa.Alloc); ok {
			if p, ok := e.Spill(al); ok {
				root = p
			}
		}
		return e.sym(name, root), true
	}
	ad := ResolveAddr(ld.X)
	al, ok := ad.Root.(*ssa.Alloc)
	if !ok || ad.Slice != nil {
		return Poly{}, false
	}
	// local cell / local struct field: single dominating store of exactly this path, nothing else overlapping, no escape
	if len(e.EscapesAt(al, ad.Path)) > 0 {
		// address-taken cell (e.g. filled by binary.Read): one symbol per set of clobbering calls that can precede the load
		return e.sym(e.cellVersion(al, ld), al), true
	}
	var exact []StoreAt
	for _, st := range e.stores[al] {
		if !PathsOverlap(st.Ad.Path, ad.Path) {
			continue
		}
		if len(st.Ad.Path) != len(ad.Path) {
			return Poly{}, false
		}
		exact = append(exact, st)
	}
	if len(exact) == 1 && ssau.Before(exact[0].St, ld) {
		return e.Int(exact[0].St.Val), true
	}
	return Poly{}, false
}

func (e *Env) cellVersion(al *ssa.Alloc, at ssa.Instruction) string {
	var ids []string
	for _, esc := range e.escapes[al] {
		// find the call(s) this escape feeds
		for _, c := range feedsCalls(esc.In) {
			if ssau.CanFollow(c, at) {
				ids = append(ids, c.(ssa.Value).Name())
			}
		}
	}
	for _, st := range e.stores[al] {
		if ssau.CanFollow(st.St, at) {
			ids = append(ids, fmt.Sprintf("st%d", ssau.InstrIndex(st.St)))
		}
	}
	sort.Strings(ids)
	comment := al.Comment
	if comment == "" {
		comment = al.Name()
	}
	return "*" + comment + "@" + al.Name() + "{" + strings.Join(ids, ",") + "}"
}

// feedsCalls returns the call instructions that (transitively through
// MakeInterface / ChangeType) receive the value produced by in.
func feedsCalls(in ssa.Instruction) []ssa.Instruction {
	var out []ssa.Instruction
	switch x := in.(type) {
	case *ssa.Call:
		return []ssa.Instruction{x}
	case *ssa.MakeInterface:
		for _, r := range ssau.Refs(x) {
			out = append(out, feedsCalls(r)...)
		}
	case *ssa.ChangeType:
		for _, r := range ssau.Refs(x) {
			out = append(out, feedsCalls(r)...)
		}
	case *ssa.Slice:
		for _, r := range ssau.Refs(x) {
			out = append(out, feedsCalls(r)...)
		}
	}
	return out
}

// CellValue resolves a load from a local slice/pointer cell to the single value
// stored into it (the cell may escape to calls as an argument: a callee filling
// a slice through a pointer does not re-size it). ok=false when there is not
// exactly one store or it does not dominate the load.
func (e *Env) CellValue(ld *ssa.UnOp) (ssa.Value, bool) {
	if ld.Op != token.MUL {
		return nil, false
	}
	ad := ResolveAddr(ld.X)
	al, ok := ad.Root.(*ssa.Alloc)
	if !ok || ad.Slice != nil || len(ad.Path) != 0 {
		return nil, false
	}
	sts := e.stores[al]
	if len(sts) != 1 || len(sts[0].Ad.Path) != 0 || !ssau.Before(sts[0].St, ld) {
		return nil, false
	}
	for _, esc := range e.escapes[al] {
		if mc, isClosure := esc.In.(*ssa.MakeClosure); isClosure {
			// a closure that only reads the captured variable does not change it
			if closureWrites(mc, al) {
				return nil, false
			}
		}
	}
	return sts[0].St.Val, true
}

// SliceRoot follows a slice value back to what defines its backing array:
// a MakeSlice, a Slice of a local array, a parameter, a path load, a call…
// off is the element offset accumulated through constant re-slicing.
func (e *Env) SliceRoot(v ssa.Value) (root ssa.Value, off Poly) {
	for i := 0; i < 32; i++ {
		switch x := v.(type) {
		case *ssa.ChangeType:
			v = x.X
			continue
		case *ssa.Convert:
			v = x.X
			continue
		case *ssa.Slice:
			if _, isSlice := x.X.Type().Underlying().(*types.Slice); isSlice {
				if x.Low != nil {
					off = off.Add(e.Int(x.Low))
				}
				v = x.X
				continue
			}
			// slice of (pointer to) array: the array is the root
			if x.Low != nil {
				off = off.Add(e.Int(x.Low))
			}
			return x.X, off
		case *ssa.UnOp:
			if x.Op == token.MUL {
				if sv, ok := e.CellValue(x); ok {
					v = sv
					continue
				}
			}
		case *ssa.Phi:
			if !e.isLoopHeader(x.Block()) && len(x.Edges) > 0 {
				r0, o0 := e.SliceRoot(x.Edges[0])
				same := true
				for _, ed := range x.Edges[1:] {
					r, o := e.SliceRoot(ed)
					if r != r0 || !o.Equal(o0) {
						same = false
					}
				}
				if same {
					return r0, off.Add(o0)
				}
			}
		}
		return v, off
	}
	return v, off
}

// SliceName is a canonical display / identity key for a slice value's backing store.
func (e *Env) SliceName(v ssa.Value) string {
	r, _ := e.SliceRoot(v)
	if ld, ok := r.(*ssa.UnOp); ok && ld.Op == token.MUL {
		if n, ok := e.pathSym(ld); ok {
			return n
		}
	}
	if k, ok := e.Key(r); ok && !isInt(r.Type()) {
		return k
	}
	return r.Name()
}

// Len evaluates the length of a slice / array / string value.
func (e *Env) Len(v ssa.Value) Poly {
	switch x := v.(type) {
	case *ssa.MakeSlice:
		return e.Int(x.Len)
	case *ssa.ChangeType:
		return e.Len(x.X)
	case *ssa.Const:
		if x.Value != nil && x.Value.Kind() == constant.String {
			return Const(int64(len(constant.StringVal(x.Value))))
		}
		if x.IsNil() {
			return Const(0)
		}
	case *ssa.Slice:
		var hi Poly
		switch {
		case x.High != nil:
			hi = e.Int(x.High)
		default:
			if arr := arrayOf(x.X.Type()); arr != nil {
				hi = Const(arr.Len())
			} else {
				hi = e.Len(x.X)
			}
		}
		if x.Low != nil {
			return hi.Sub(e.Int(x.Low))
		}
		return hi
	case *ssa.UnOp:
		if x.Op == token.MUL {
			if sv, ok := e.CellValue(x); ok {
				return e.Len(sv)
			}
			// element of a local slice of slices all of whose stored elements have one length
			if ad := ResolveAddr(x.X); ad.Slice != nil && len(ad.Path) == 0 {
				root, _ := e.SliceRoot(ad.Slice)
				if _, isMk := root.(*ssa.MakeSlice); isMk {
					var l *Poly
					same := true
					for _, st := range e.sliceSt {
						if len(st.Ad.Path) != 0 {
							continue
						}
						if r2, _ := e.SliceRoot(st.Ad.Slice); r2 != root {
							continue
						}
						if st.St.Val == ssa.Value(x) {
							continue
						}
						p := e.Len(st.St.Val)
						if l == nil {
							l = &p
						} else if !l.Equal(p) {
							same = false
						}
					}
					if l != nil && same {
						return *l
					}
				}
			}
			if n, ok := e.pathSym(x); ok {
				ad := ResolveAddr(x.X)
				root := ad.Root
				if al, ok := root.(*ssa.Alloc); ok {
					if p, ok := e.Spill(al); ok {
						root = p
					}
				}
				return e.sym("len("+n+")", root)
			}
		}
	case *ssa.Phi:
		if !e.isLoopHeader(x.Block()) && len(x.Edges) > 0 {
			first := e.Len(x.Edges[0])
			same := true
			for _, ed := range x.Edges[1:] {
				if !first.Equal(e.Len(ed)) {
					same = false
				}
			}
			if same {
				return first
			}
		}
	case *ssa.Parameter:
		return e.sym("len("+x.Name()+")", x)
	}
	if arr, ok := v.Type().Underlying().(*types.Array); ok {
		return Const(arr.Len())
	}
	if k, ok := e.Key(v); ok && !isInt(v.Type()) {
		return e.sym("len("+k+")", e.valueRoots(v)...)
	}
	return e.sym("len("+v.Name()+")", v)
}

func arrayOf(t types.Type) *types.Array {
	if p, ok := t.Underlying().(*types.Pointer); ok {
		t = p.Elem()
	}
	a, _ := t.Underlying().(*types.Array)
	return a
}

// accumulator resolves a loop-carried accumulator — a header phi φ(c0, φ + k)
// whose every back edge carries φ + k with c0 and k loop-invariant, in a loop
// that has a canonical induction variable i over [Lo, Hi) — to its closed form
// at the top of an iteration: c0 + k·(i − Lo). A `continue` before the
// increment or a conditional increment makes the back-edge values differ and
// the phi stays opaque.
func (e *Env) accumulator(phi *ssa.Phi) (Poly, bool) {
	if !isInt(phi.Type()) {
		return Poly{}, false
	}
	var loop *ssau.Loop
	for _, l := range e.loops {
		if l.Header == phi.Block() {
			loop = l
		}
	}
	if loop == nil {
		return Poly{}, false
	}
	iv := e.IVOfLoop(loop)
	if iv == nil || iv.Phi == phi {
		return Poly{}, false
	}
	self := e.opaque(phi)
	var c0, k *Poly
	for i, ed := range phi.Edges {
		if loop.Blocks[phi.Block().Preds[i]] {
			// φ ± k read off the instruction itself (independent of evaluation order)
			var d Poly
			if bo, ok := ed.(*ssa.BinOp); ok && (bo.Op == token.ADD || bo.Op == token.SUB) && (bo.X == ssa.Value(phi) || (bo.Y == ssa.Value(phi) && bo.Op == token.ADD)) {
				switch {
				case bo.X == ssa.Value(phi) && bo.Op == token.ADD:
					d = e.Int(bo.Y)
				case bo.X == ssa.Value(phi):
					d = e.Int(bo.Y).Neg()
				default:
					d = e.Int(bo.X)
				}
			} else {
				d = e.Int(ed).Sub(self)
			}
			if d.Has(phi.Name()) {
				return Poly{}, false
			}
			if k != nil && !k.Equal(d) {
				return Poly{}, false
			}
			k = &d
		} else {
			p := e.Int(ed)
			if p.Has(phi.Name()) || (c0 != nil && !c0.Equal(p)) {
				return Poly{}, false
			}
			c0 = &p
		}
	}
	if c0 == nil || k == nil || e.VariantIn(*c0, loop) || e.VariantIn(*k, loop) {
		return Poly{}, false
	}
	return c0.Add(k.Mul(Sym(iv.Sym).Sub(iv.Lo))), true
}

// closureWrites reports whether the closure (or a function nested in it) may
// store to the captured variable al, or hands its address on.
func closureWrites(mc *ssa.MakeClosure, al *ssa.Alloc) bool {
	fn, ok := mc.Fn.(*ssa.Function)
	if !ok {
		return true
	}
	for i, b := range mc.Bindings {
		if b != ssa.Value(al) || i >= len(fn.FreeVars) {
			continue
		}
		fv := fn.FreeVars[i]
		for _, ref := range Refs0(fv) {
			switch x := ref.(type) {
			case *ssa.UnOp:
				if x.Op != token.MUL {
					return true
				}
			case *ssa.DebugRef:
			default:
				return true
			}
		}
	}
	return false
}

// Refs0 is a nil-safe Referrers.
func Refs0(v ssa.Value) []ssa.Instruction {
	r := v.Referrers()
	if r == nil {
		return nil
	}
	return *r
}
