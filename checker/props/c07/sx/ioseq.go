package sx

import (
	"fmt"
	"go/token"
	"go/types"
	"sort"

	"golang.org/x/tools/go/ssa"

	"polycheck/ssau"
)

// IOKind classifies a stream operation.
type IOKind int

const (
	IOBinaryWrite IOKind = iota // encoding/binary.Write(w, order, data)
	IOBinaryRead                // encoding/binary.Read(r, order, data)
	IOWrite                     // w.Write(buf) on an io.Writer
	IOReadFull                  // io.ReadFull(r, buf)
	IOTyped                     // a typed scalar writer method (bitlib.Writer.Float32, .Byte, …)
	IOCall                      // a call into a repository function that is handed the stream
)

func (k IOKind) String() string {
	return [...]string{"binary.Write", "binary.Read", "Write", "io.ReadFull", "typed-write", "call"}[k]
}

// IOOp is one operation on a byte stream.
type IOOp struct {
	Kind    IOKind
	Call    *ssa.Call
	Stream  ssa.Value     // canonical stream value (interfaces stripped)
	Order   *ssa.Global   // byte-order object (encoding/binary.LittleEndian …), nil if none / unknown
	OrderOK bool          // the byte-order operand was resolved to a global
	Data    ssa.Value     // payload value (interfaces stripped); for reads the destination pointer / buffer
	Type    types.Type    // static wire type of the payload (pointee for binary.Read; elem slice kept as slice)
	Callee  *ssa.Function // IOCall: the callee ; IOTyped: the method
	Loop    *IV           // innermost counted loop containing the call (nil: straight-line)
	InLoop  bool          // inside some loop (counted or not)
}

const binPkg = "encoding/binary"

// orderOf resolves a binary.ByteOrder operand to the package-level object it was loaded from.
func orderOf(v ssa.Value) (*ssa.Global, bool) {
	v = stripIface(v)
	if ld, ok := v.(*ssa.UnOp); ok && ld.Op == token.MUL {
		if g, ok := ld.X.(*ssa.Global); ok {
			if g.Pkg != nil && g.Pkg.Pkg.Path() != binPkg {
				// a package-level alias (`var order = binary.LittleEndian`) assigned exactly once, in the initialiser
				if r, ok := aliasedGlobal(g); ok {
					return r, true
				}
			}
			return g, true
		}
	}
	return nil, false
}

// aliasedGlobal resolves a package-level variable that is stored exactly once
// in its package (by the initialiser) with the value of another package-level
// variable.
func aliasedGlobal(g *ssa.Global) (*ssa.Global, bool) {
	var stores []*ssa.Store
	addrTaken := false
	var scan func(fn *ssa.Function)
	scan = func(fn *ssa.Function) {
		if fn == nil {
			return
		}
		for _, b := range fn.Blocks {
			for _, in := range b.Instrs {
				if st, ok := in.(*ssa.Store); ok && st.Addr == ssa.Value(g) {
					stores = append(stores, st)
				}
				for _, op := range in.Operands(nil) {
					if *op == ssa.Value(g) {
						switch x := in.(type) {
						case *ssa.UnOp:
						case *ssa.Store:
							if x.Val == ssa.Value(g) {
								addrTaken = true
							}
						default:
							addrTaken = true
						}
					}
				}
			}
		}
		for _, a := range fn.AnonFuncs {
			scan(a)
		}
	}
	for _, m := range g.Pkg.Members {
		switch x := m.(type) {
		case *ssa.Function:
			scan(x)
		case *ssa.Type:
			for _, t := range []types.Type{x.Type(), types.NewPointer(x.Type())} {
				ms := g.Pkg.Prog.MethodSets.MethodSet(t)
				for i := 0; i < ms.Len(); i++ {
					if f := g.Pkg.Prog.MethodValue(ms.At(i)); f != nil && f.Pkg == g.Pkg {
						scan(f)
					}
				}
			}
		}
	}
	if addrTaken || len(stores) != 1 || stores[0].Parent().Name() != "init" {
		return nil, false
	}
	if ld, ok := stripIface(stores[0].Val).(*ssa.UnOp); ok && ld.Op == token.MUL {
		if r, ok := ld.X.(*ssa.Global); ok {
			return r, true
		}
	}
	return nil, false
}

// IsGlobal reports whether g is the package-level variable pkgPath.name.
func IsGlobal(g *ssa.Global, pkgPath, name string) bool {
	return g != nil && g.Pkg != nil && g.Pkg.Pkg.Path() == pkgPath && g.Name() == name
}

// FindIO lists the stream operations of a function, in dominance order.
// isRepoFn decides which static callees count as nested stream calls.
// typedWriter recognises typed scalar writer methods and returns the wire type.
func (e *Env) FindIO(isRepoFn func(*ssa.Function) bool) []*IOOp {
	var ops []*IOOp
	ssau.AllInstrs(e.Fn, func(in ssa.Instruction) {
		c, ok := in.(*ssa.Call)
		if !ok {
			return
		}
		cc := c.Common()
		obj := ssau.CalleeObj(c)
		var op *IOOp
		switch {
		case ssau.IsFunc(obj, binPkg, "Write") && len(cc.Args) == 3:
			op = &IOOp{Kind: IOBinaryWrite, Call: c, Stream: stripIface(cc.Args[0]), Data: stripIface(cc.Args[2])}
			op.Order, op.OrderOK = orderOf(cc.Args[1])
			op.Type = op.Data.Type()
		case ssau.IsFunc(obj, binPkg, "Read") && len(cc.Args) == 3:
			op = &IOOp{Kind: IOBinaryRead, Call: c, Stream: stripIface(cc.Args[0]), Data: stripIface(cc.Args[2])}
			op.Order, op.OrderOK = orderOf(cc.Args[1])
			op.Type = op.Data.Type()
			if p, ok := op.Type.Underlying().(*types.Pointer); ok {
				op.Type = p.Elem()
			}
		case ssau.IsFunc(obj, "io", "ReadFull") && len(cc.Args) == 2:
			op = &IOOp{Kind: IOReadFull, Call: c, Stream: stripIface(cc.Args[0]), Data: cc.Args[1], Type: cc.Args[1].Type()}
		case cc.IsInvoke() && obj != nil && obj.Name() == "Write" && isByteSliceSig(obj):
			op = &IOOp{Kind: IOWrite, Call: c, Stream: stripIface(cc.Value), Data: cc.Args[0], Type: cc.Args[0].Type()}
		default:
			if callee := cc.StaticCallee(); callee != nil {
				if t, ok := typedWriterMethod(callee); ok && len(cc.Args) == 2 {
					op = &IOOp{Kind: IOTyped, Call: c, Stream: stripIface(cc.Args[0]), Data: cc.Args[1], Type: t, Callee: callee}
				} else if isRepoFn != nil && isRepoFn(callee) {
					for _, a := range cc.Args {
						if isStreamType(a.Type()) {
							op = &IOOp{Kind: IOCall, Call: c, Stream: stripIface(a), Callee: callee}
							break
						}
					}
				}
			}
		}
		if op == nil {
			return
		}
		loops := e.LoopsOf(c.Block())
		if len(loops) > 0 {
			op.InLoop = true
			op.Loop = e.IVOfLoop(loops[len(loops)-1])
		}
		ops = append(ops, op)
	})
	sort.SliceStable(ops, func(i, j int) bool { return ssau.Before(ops[i].Call, ops[j].Call) })
	return ops
}

// TotallyOrdered reports whether each operation dominates the next one.
func TotallyOrdered(ops []*IOOp) bool {
	for i := 0; i+1 < len(ops); i++ {
		if !ssau.Before(ops[i].Call, ops[i+1].Call) {
			return false
		}
	}
	return true
}

func isByteSliceSig(fn *types.Func) bool {
	sig, ok := fn.Type().(*types.Signature)
	if !ok || sig.Params().Len() != 1 {
		return false
	}
	sl, ok := sig.Params().At(0).Type().Underlying().(*types.Slice)
	if !ok {
		return false
	}
	b, ok := sl.Elem().Underlying().(*types.Basic)
	return ok && b.Kind() == types.Uint8
}

func isStreamType(t types.Type) bool {
	it, ok := t.Underlying().(*types.Interface)
	if !ok {
		return false
	}
	for i := 0; i < it.NumMethods(); i++ {
		n := it.Method(i).Name()
		if n == "Read" || n == "Write" {
			return true
		}
	}
	return false
}

// typedWriterMethod recognises methods of github.com/EliCDavis/bitlib.Writer
// that take one fixed-size scalar and write exactly its wire size
// (Float32, Float64, Int16/32/64, UInt16/32/64, Byte). The wire type is read off
// the method's parameter type.
func typedWriterMethod(fn *ssa.Function) (types.Type, bool) {
	obj, _ := fn.Object().(*types.Func)
	if obj == nil {
		return nil, false
	}
	n := ssau.RecvNamed(obj)
	if n == nil || n.Obj().Pkg() == nil || n.Obj().Pkg().Path() != "github.com/EliCDavis/bitlib" || n.Obj().Name() != "Writer" {
		return nil, false
	}
	switch obj.Name() {
	case "Float32", "Float64", "Int16", "Int32", "Int64", "UInt16", "UInt32", "UInt64", "Byte":
	default:
		return nil, false
	}
	sig := obj.Type().(*types.Signature)
	if sig.Params().Len() != 1 {
		return nil, false
	}
	t := sig.Params().At(0).Type()
	if b, ok := t.Underlying().(*types.Basic); !ok || basicSize(b.Kind()) == 0 {
		return nil, false
	}
	return t, true
}

// IsTypedWriterOther reports whether fn is some other method of bitlib.Writer
// that emits bytes (variable-size or array writers): their size is not decided here.
func IsTypedWriterOther(fn *ssa.Function) bool {
	obj, _ := fn.Object().(*types.Func)
	if obj == nil {
		return false
	}
	n := ssau.RecvNamed(obj)
	if n == nil || n.Obj().Pkg() == nil || n.Obj().Pkg().Path() != "github.com/EliCDavis/bitlib" || n.Obj().Name() != "Writer" {
		return false
	}
	switch obj.Name() {
	case "Error", "Float32", "Float64", "Int16", "Int32", "Int64", "UInt16", "UInt32", "UInt64", "Byte":
		return false
	}
	return true
}

// Bytes gives the number of bytes the operation moves as a polynomial
// (per execution; the trip count of an enclosing loop is not included).
func (e *Env) Bytes(op *IOOp) (Poly, error) {
	switch op.Kind {
	case IOWrite, IOReadFull:
		return e.Len(op.Data), nil
	case IOTyped:
		l, err := Flatten(op.Type)
		if err != nil {
			return Poly{}, err
		}
		return Const(l.Size), nil
	case IOBinaryWrite, IOBinaryRead:
		t := op.Type
		if sl, ok := t.Underlying().(*types.Slice); ok {
			l, err := Flatten(sl.Elem())
			if err != nil {
				return Poly{}, err
			}
			n, err := e.PayloadLen(op)
			if err != nil {
				return Poly{}, err
			}
			return n.MulConst(l.Size), nil
		}
		l, err := Flatten(t)
		if err != nil {
			return Poly{}, err
		}
		return Const(l.Size), nil
	}
	return Poly{}, fmt.Errorf("size of %s is not defined", op.Kind)
}

// PayloadLen returns the element count of a slice payload: len(data) for a
// write; for binary.Read(&s) the length s has when the call executes.
func (e *Env) PayloadLen(op *IOOp) (Poly, error) {
	switch op.Kind {
	case IOBinaryWrite, IOWrite, IOReadFull:
		return e.Len(op.Data), nil
	case IOBinaryRead:
		// data is a pointer to a slice variable
		if _, ok := op.Data.Type().Underlying().(*types.Slice); ok {
			return e.Len(op.Data), nil
		}
		al, ok := op.Data.(*ssa.Alloc)
		if !ok {
			return Poly{}, fmt.Errorf("destination of binary.Read is not a local variable")
		}
		var last *ssa.Store
		for _, st := range e.Stores(al) {
			if len(st.Ad.Path) != 0 {
				continue
			}
			if !ssau.CanFollow(st.St, op.Call) {
				continue
			}
			if last != nil {
				return Poly{}, fmt.Errorf("destination slice of binary.Read is assigned more than once before the read")
			}
			last = st.St
		}
		if last == nil || !ssau.Before(last, op.Call) {
			return Poly{}, fmt.Errorf("destination slice of binary.Read has no dominating allocation")
		}
		return e.Len(last.Val), nil
	}
	return Poly{}, fmt.Errorf("no slice payload")
}

// WireSig is the layout signature of the payload ("n×(12×f32 1×u16)" for slices).
func WireSig(t types.Type) (string, error) {
	if sl, ok := t.Underlying().(*types.Slice); ok {
		l, err := Flatten(sl.Elem())
		if err != nil {
			return "", err
		}
		return "n×(" + l.Sig() + ")", nil
	}
	l, err := Flatten(t)
	if err != nil {
		return "", err
	}
	return l.Sig(), nil
}
