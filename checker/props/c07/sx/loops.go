package sx

import (
	"fmt"
	"go/token"
	"sort"
	"strings"

	"golang.org/x/tools/go/ssa"

	"polycheck/ssau"
)

// IV is a canonical counted loop: inside the body the header phi takes every
// value of [Lo, Hi) once, in steps of one. Both `for i := a; i < b; i++` and
// `for i := range s` (rangeindex form: phi from -1, body uses phi+1) are
// expressed this way; in the second form Lo = -1 and Hi = len-1 so that
// phi+1 ranges over [0, len).
type IV struct {
	Phi  *ssa.Phi
	Sym  string
	Lo   Poly
	Hi   Poly
	Loop *ssau.Loop
	If   *ssa.If
}

// Trip returns the trip count Hi - Lo.
func (iv *IV) Trip() Poly { return iv.Hi.Sub(iv.Lo) }

// IVs recognises the canonical counted loops of the function.
func (e *Env) IVs() []*IV {
	if e.ivDone {
		return e.ivs
	}
	e.ivDone = true
	e.ivBuild = true
	for _, l := range e.loops {
		if iv := e.recogniseIV(l); iv != nil {
			e.ivs = append(e.ivs, iv)
		}
	}
	e.ivBuild = false
	// values seen while recognising the loops were evaluated without resolving accumulators
	e.cache = map[ssa.Value]Poly{}
	return e.ivs
}

// IVBySym returns the induction variable whose phi has the given symbol.
func (e *Env) IVBySym(s string) *IV {
	for _, iv := range e.IVs() {
		if iv.Sym == s {
			return iv
		}
	}
	return nil
}

// IVOfLoop returns the induction variable of loop l, or nil.
func (e *Env) IVOfLoop(l *ssau.Loop) *IV {
	for _, iv := range e.IVs() {
		if iv.Loop == l {
			return iv
		}
	}
	return nil
}

// Loops returns the natural loops of the function.
func (e *Env) Loops() []*ssau.Loop { return e.loops }

// LoopsOf returns the loops containing block b, outermost first.
func (e *Env) LoopsOf(b *ssa.BasicBlock) []*ssau.Loop {
	var out []*ssau.Loop
	for _, l := range e.loops {
		if l.Blocks[b] {
			out = append(out, l)
		}
	}
	sort.Slice(out, func(i, j int) bool { return len(out[i].Blocks) > len(out[j].Blocks) })
	return out
}

func (e *Env) recogniseIV(l *ssau.Loop) *IV {
	h := l.Header
	if len(h.Instrs) == 0 {
		return nil
	}
	iff, ok := h.Instrs[len(h.Instrs)-1].(*ssa.If)
	if !ok {
		return nil
	}
	cond, ok := iff.Cond.(*ssa.BinOp)
	if !ok {
		return nil
	}
	bodyOnTrue := l.Blocks[h.Succs[0]] && !l.Blocks[h.Succs[1]]
	bodyOnFalse := l.Blocks[h.Succs[1]] && !l.Blocks[h.Succs[0]]
	if !bodyOnTrue && !bodyOnFalse {
		return nil
	}
	for _, in := range h.Instrs {
		phi, ok := in.(*ssa.Phi)
		if !ok {
			break
		}
		if !isInt(phi.Type()) {
			continue
		}
		sym := phi.Name()
		// edges: outside -> init ; inside -> phi + 1
		var init *Poly
		okEdges := true
		for i, ed := range phi.Edges {
			pred := h.Preds[i]
			if l.Blocks[pred] {
				if !e.Int(ed).Equal(e.opaque(phi).Add(Const(1))) {
					okEdges = false
				}
			} else {
				p := e.Int(ed)
				if init != nil && !init.Equal(p) {
					okEdges = false
				}
				init = &p
			}
		}
		if !okEdges || init == nil {
			continue
		}
		// condition: (phi + c) OP bound
		x, y := e.Int(cond.X), e.Int(cond.Y)
		op := cond.Op
		if y.Has(sym) && !x.Has(sym) {
			x, y = y, x
			switch op {
			case token.LSS:
				op = token.GTR
			case token.GTR:
				op = token.LSS
			case token.LEQ:
				op = token.GEQ
			case token.GEQ:
				op = token.LEQ
			}
		}
		if !x.Has(sym) || y.Has(sym) {
			continue
		}
		coef, rest, lin := x.Linear(sym)
		if !lin {
			continue
		}
		if c, isC := coef.IsConst(); !isC || c != 1 {
			continue
		}
		// phi + rest OP y  <=>  phi OP y - rest
		bound := y.Sub(rest)
		if !bodyOnTrue {
			// loop continues while the condition is false: negate
			switch op {
			case token.LSS:
				op = token.GEQ
			case token.LEQ:
				op = token.GTR
			case token.GEQ:
				op = token.LSS
			case token.GTR:
				op = token.LEQ
			case token.NEQ:
				op = token.EQL
			case token.EQL:
				op = token.NEQ
			}
		}
		var hi Poly
		switch op {
		case token.LSS, token.NEQ: // != is read as < (the start does not exceed the bound)
			hi = bound
		case token.LEQ:
			hi = bound.Add(Const(1))
		default:
			continue
		}
		if e.VariantIn(hi, l) || e.VariantIn(*init, l) {
			continue
		}
		e.sym(sym, phi)
		return &IV{Phi: phi, Sym: sym, Lo: *init, Hi: hi, Loop: l, If: iff}
	}
	return nil
}

// LoopExitTargets lists the blocks outside the loop that are entered from inside it.
func LoopExitTargets(l *ssau.Loop) []*ssa.BasicBlock {
	seen := map[*ssa.BasicBlock]bool{}
	var out []*ssa.BasicBlock
	var blocks []*ssa.BasicBlock
	for b := range l.Blocks {
		blocks = append(blocks, b)
	}
	sort.Slice(blocks, func(i, j int) bool { return blocks[i].Index < blocks[j].Index })
	for _, b := range blocks {
		for _, s := range b.Succs {
			if !l.Blocks[s] && !seen[s] {
				seen[s] = true
				out = append(out, s)
			}
		}
	}
	return out
}

// NormalExit returns the block the counted loop falls into when its condition fails.
func (iv *IV) NormalExit() *ssa.BasicBlock {
	h := iv.Loop.Header
	if iv.Loop.Blocks[h.Succs[0]] {
		return h.Succs[1]
	}
	return h.Succs[0]
}

// ---------------------------------------------------------------------------
// exact cover

// CoverResult explains a cover decision.
type CoverResult struct {
	OK      bool
	Why     string // reason when !OK
	Explain string // human-readable closed form when OK
	Offsets []int64
	Strides map[string]Poly // iv symbol -> stride
}

// Cover decides whether the subscripts idx — each affine in the induction
// variables ivs with a constant offset — enumerate [0, length) exactly once
// when every induction variable runs over its whole range:
// offsets = {0..m-1}, and some ordering of the loops satisfies the mixed-radix
// chain stride_1 = m, stride_{k+1} = stride_k · trip_k, length = stride_last · trip_last.
// Strides and trip counts are compared as polynomials (symbolic counts are
// taken to be non-negative).
func Cover(idx []Poly, ivs []*IV, length Poly) CoverResult {
	if len(idx) == 0 {
		return CoverResult{Why: "no subscripts"}
	}
	// rewrite phi = Lo + j
	type lin struct {
		strides map[string]Poly
		c       int64
	}
	var forms []lin
	for _, p := range idx {
		f := lin{strides: map[string]Poly{}}
		rest := p
		for _, iv := range ivs {
			coef, r, ok := rest.Linear(iv.Sym)
			if !ok {
				return CoverResult{Why: fmt.Sprintf("subscript %s is not linear in %s", p, iv.Sym)}
			}
			for _, other := range ivs {
				if coef.Has(other.Sym) {
					return CoverResult{Why: fmt.Sprintf("subscript %s multiplies induction variables", p)}
				}
			}
			f.strides[iv.Sym] = coef
			rest = r.Add(coef.Mul(iv.Lo))
		}
		c, isC := rest.IsConst()
		if !isC {
			return CoverResult{Why: fmt.Sprintf("subscript %s has a non-constant offset %s outside the induction variables", p, rest)}
		}
		f.c = c
		forms = append(forms, f)
	}
	for _, f := range forms[1:] {
		for _, iv := range ivs {
			if !f.strides[iv.Sym].Equal(forms[0].strides[iv.Sym]) {
				return CoverResult{Why: fmt.Sprintf("subscripts disagree on the stride of %s (%s vs %s)", iv.Sym, f.strides[iv.Sym], forms[0].strides[iv.Sym])}
			}
		}
	}
	var offs []int64
	seen := map[int64]bool{}
	for _, f := range forms {
		if seen[f.c] {
			return CoverResult{Why: fmt.Sprintf("offset %d is used twice (not injective)", f.c)}
		}
		seen[f.c] = true
		offs = append(offs, f.c)
	}
	sort.Slice(offs, func(i, j int) bool { return offs[i] < offs[j] })
	for i, o := range offs {
		if o != int64(i) {
			return CoverResult{Why: fmt.Sprintf("constant offsets %v are not {0..%d}", offs, len(offs)-1), Offsets: offs}
		}
	}
	m := int64(len(offs))
	// active loops: those with non-zero stride
	var act []*IV
	for _, iv := range ivs {
		if forms[0].strides[iv.Sym].IsZero() {
			return CoverResult{Why: fmt.Sprintf("subscript does not advance with loop variable %s (every iteration touches the same elements)", iv.Sym)}
		}
		act = append(act, iv)
	}
	// try all orders
	perm := make([]int, len(act))
	for i := range perm {
		perm[i] = i
	}
	var okOrder []int
	var try func(k int) bool
	try = func(k int) bool {
		if k == len(perm) {
			cur := Const(m)
			for _, pi := range perm {
				iv := act[pi]
				if !forms[0].strides[iv.Sym].Equal(cur) {
					return false
				}
				cur = cur.Mul(iv.Trip())
			}
			if !cur.Equal(length) {
				return false
			}
			okOrder = append([]int{}, perm...)
			return true
		}
		for i := k; i < len(perm); i++ {
			perm[k], perm[i] = perm[i], perm[k]
			if try(k + 1) {
				return true
			}
			perm[k], perm[i] = perm[i], perm[k]
		}
		return false
	}
	res := CoverResult{Offsets: offs, Strides: forms[0].strides}
	if !try(0) {
		var parts []string
		for _, iv := range act {
			parts = append(parts, fmt.Sprintf("%s·%s over [0,%s)", forms[0].strides[iv.Sym], iv.Sym, iv.Trip()))
		}
		res.Why = fmt.Sprintf("strides do not tile [0,%s): offsets {0..%d}, %s", length, m-1, strings.Join(parts, ", "))
		return res
	}
	var parts []string
	for _, pi := range okOrder {
		iv := act[pi]
		parts = append(parts, fmt.Sprintf("%s·%s[0,%s)", forms[0].strides[iv.Sym], iv.Sym, iv.Trip()))
	}
	off := "0"
	if m > 1 {
		off = fmt.Sprintf("{0..%d}", m-1)
	}
	res.OK = true
	res.Explain = fmt.Sprintf("%s + %s covers [0,%s) exactly once", strings.Join(parts, " + "), off, length)
	return res
}

// EnclosingIVs returns the induction variables of all loops containing b
// (outermost first); ok is false when some enclosing loop is not a canonical
// counted loop.
func (e *Env) EnclosingIVs(b *ssa.BasicBlock) ([]*IV, bool) {
	var out []*IV
	for _, l := range e.LoopsOf(b) {
		iv := e.IVOfLoop(l)
		if iv == nil {
			return out, false
		}
		out = append(out, iv)
	}
	return out, true
}
