package sx

import (
	"fmt"
	"sort"
	"strings"
)

// Poly is a multivariate polynomial with integer coefficients over named
// symbols. The zero value is the zero polynomial. Polys are immutable values.
type Poly struct {
	t map[string]int64 // monomial key ("" = constant; symbols sorted, joined by "·") -> coefficient
}

const monSep = "·"

func monKey(syms []string) string {
	sort.Strings(syms)
	return strings.Join(syms, monSep)
}

func monSyms(k string) []string {
	if k == "" {
		return nil
	}
	return strings.Split(k, monSep)
}

// Const returns the constant polynomial c.
func Const(c int64) Poly {
	if c == 0 {
		return Poly{}
	}
	return Poly{t: map[string]int64{"": c}}
}

// Sym returns the polynomial consisting of one symbol.
func Sym(name string) Poly {
	if strings.Contains(name, monSep) {
		name = strings.ReplaceAll(name, monSep, "*")
	}
	return Poly{t: map[string]int64{name: 1}}
}

func (p Poly) clone() Poly {
	q := Poly{t: make(map[string]int64, len(p.t))}
	for k, v := range p.t {
		q.t[k] = v
	}
	return q
}

func (p Poly) Add(o Poly) Poly {
	q := p.clone()
	for k, v := range o.t {
		q.t[k] += v
		if q.t[k] == 0 {
			delete(q.t, k)
		}
	}
	return q
}

func (p Poly) Neg() Poly {
	q := Poly{t: make(map[string]int64, len(p.t))}
	for k, v := range p.t {
		q.t[k] = -v
	}
	return q
}

func (p Poly) Sub(o Poly) Poly { return p.Add(o.Neg()) }

func (p Poly) Mul(o Poly) Poly {
	q := Poly{t: map[string]int64{}}
	for k1, v1 := range p.t {
		for k2, v2 := range o.t {
			k := monKey(append(append([]string{}, monSyms(k1)...), monSyms(k2)...))
			q.t[k] += v1 * v2
			if q.t[k] == 0 {
				delete(q.t, k)
			}
		}
	}
	return q
}

func (p Poly) MulConst(c int64) Poly { return p.Mul(Const(c)) }

func (p Poly) IsZero() bool { return len(p.t) == 0 }

func (p Poly) Equal(o Poly) bool { return p.Sub(o).IsZero() }

// IsConst reports whether p is a constant and returns it.
func (p Poly) IsConst() (int64, bool) {
	switch len(p.t) {
	case 0:
		return 0, true
	case 1:
		if c, ok := p.t[""]; ok {
			return c, true
		}
	}
	return 0, false
}

// ConstPart returns the constant term.
func (p Poly) ConstPart() int64 { return p.t[""] }

// Symbols returns the sorted set of symbols occurring in p.
func (p Poly) Symbols() []string {
	set := map[string]bool{}
	for k := range p.t {
		for _, s := range monSyms(k) {
			set[s] = true
		}
	}
	out := make([]string, 0, len(set))
	for s := range set {
		out = append(out, s)
	}
	sort.Strings(out)
	return out
}

// Has reports whether symbol s occurs in p.
func (p Poly) Has(s string) bool {
	for k := range p.t {
		for _, x := range monSyms(k) {
			if x == s {
				return true
			}
		}
	}
	return false
}

// Subst replaces symbol s by polynomial r.
func (p Poly) Subst(s string, r Poly) Poly {
	out := Poly{}
	for k, v := range p.t {
		term := Const(v)
		for _, x := range monSyms(k) {
			if x == s {
				term = term.Mul(r)
			} else {
				term = term.Mul(Sym(x))
			}
		}
		out = out.Add(term)
	}
	return out
}

// Linear splits p = coef·s + rest where neither coef nor rest mention s.
// ok is false when s occurs with degree > 1.
func (p Poly) Linear(s string) (coef, rest Poly, ok bool) {
	coef, rest = Poly{t: map[string]int64{}}, Poly{t: map[string]int64{}}
	for k, v := range p.t {
		syms := monSyms(k)
		n := 0
		var others []string
		for _, x := range syms {
			if x == s {
				n++
			} else {
				others = append(others, x)
			}
		}
		switch n {
		case 0:
			rest.t[k] += v
		case 1:
			coef.t[monKey(others)] += v
		default:
			return Poly{}, Poly{}, false
		}
	}
	return coef, rest, true
}

func (p Poly) String() string {
	if len(p.t) == 0 {
		return "0"
	}
	keys := make([]string, 0, len(p.t))
	for k := range p.t {
		keys = append(keys, k)
	}
	sort.Slice(keys, func(i, j int) bool {
		// constant last, otherwise lexicographic
		if (keys[i] == "") != (keys[j] == "") {
			return keys[j] == ""
		}
		return keys[i] < keys[j]
	})
	var b strings.Builder
	for i, k := range keys {
		v := p.t[k]
		if i > 0 {
			if v < 0 {
				b.WriteString(" - ")
				v = -v
			} else {
				b.WriteString(" + ")
			}
		} else if v < 0 {
			b.WriteString("-")
			v = -v
		}
		switch {
		case k == "":
			fmt.Fprintf(&b, "%d", v)
		case v == 1:
			b.WriteString(k)
		default:
			fmt.Fprintf(&b, "%d·%s", v, k)
		}
	}
	return b.String()
}

// Monomials returns the monomial keys of p (sorted; "" is the constant term).
func (p Poly) Monomials() []string {
	out := make([]string, 0, len(p.t))
	for k := range p.t {
		out = append(out, k)
	}
	sort.Strings(out)
	return out
}

// Coeff returns the coefficient of a monomial key.
func (p Poly) Coeff(mon string) int64 { return p.t[mon] }
