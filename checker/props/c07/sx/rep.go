package sx

import (
	"fmt"
	"os"
	"strings"

	"polycheck/ob"
	"polycheck/props"
)

// Finding is one obligation outcome collected while analysing a self-test control.
type Finding struct {
	Rule, Construct, Pos, Msg string
	V                         ob.Verdict
	Facts                     []string
}

// Rep records obligations. For control functions (Collect) the findings are
// kept aside instead of being recorded as repository obligations.
type Rep struct {
	C        *props.Ctx
	Collect  bool
	Findings []Finding
}

var debug = os.Getenv("POLYCHECK_DEBUG") != ""

func (r *Rep) Add(v ob.Verdict, rule, construct, pos, msg string, facts ...string) {
	if debug {
		tag := ""
		if r.Collect {
			tag = "[control] "
		}
		fmt.Printf("  %s%-10s %-9s %s @%s %s %s\n", tag, rule, v, construct, pos, msg, strings.Join(facts, " | "))
	}
	if r.Collect {
		r.Findings = append(r.Findings, Finding{rule, construct, pos, msg, v, facts})
		return
	}
	switch v {
	case ob.Holds:
		r.C.R.Hold(rule, construct, pos, facts...)
	case ob.Violation:
		r.C.R.Violate(rule, construct, pos, msg, facts...)
	default:
		r.C.R.Undecide(rule, construct, pos, msg, facts...)
	}
}

func (r *Rep) Hold(rule, construct, pos string, facts ...string) {
	r.Add(ob.Holds, rule, construct, pos, "", facts...)
}
func (r *Rep) Violate(rule, construct, pos, msg string, facts ...string) {
	r.Add(ob.Violation, rule, construct, pos, msg, facts...)
}
func (r *Rep) Undecide(rule, construct, pos, msg string, facts ...string) {
	r.Add(ob.Undecided, rule, construct, pos, msg, facts...)
}

// Bad reports whether any collected finding of the rule is not HOLDS.
func (r *Rep) Bad(rule string) (bool, string) {
	for _, f := range r.Findings {
		if f.Rule == rule && f.V != ob.Holds {
			return true, f.Msg
		}
	}
	return false, ""
}

// AnyBad reports whether any collected finding is not HOLDS.
func (r *Rep) AnyBad() (bool, string) {
	for _, f := range r.Findings {
		if f.V != ob.Holds {
			return true, f.Rule + ": " + f.Msg
		}
	}
	return false, ""
}

// Control is one self-test control: Run analyses control functions with a
// collecting Rep; want says whether Rule must be reported (Violation) or
// everything must stay silent (Holds).
type Control struct {
	Rule  string
	Label string
	Want  ob.Verdict
	Run   func(r *Rep) bool // false: control functions not loaded
}

// RunControls executes the controls and records their outcomes.
func RunControls(c *props.Ctx, file string, ctls []Control) {
	if len(c.P.Controls) == 0 {
		return
	}
	for _, ct := range ctls {
		r := &Rep{C: c, Collect: true}
		if !ct.Run(r) {
			c.R.Note("control %s skipped: control functions not loaded", ct.Label)
			continue
		}
		got := ob.Holds
		msg := "accepted idioms must stay silent"
		if ct.Want == ob.Violation {
			msg = "positive control must be reported"
			if bad, _ := r.Bad(ct.Rule); bad {
				got = ob.Violation
			}
		} else if bad, why := r.AnyBad(); bad {
			got = ob.Violation
			msg += " — reported: " + why
		}
		c.R.Control(ct.Rule, ct.Label, file, got, ct.Want, msg)
	}
}
