package sx

import (
	"fmt"
	"go/token"
	"go/types"
	"strings"

	"golang.org/x/tools/go/ssa"

	"polycheck/ssau"
)

// Ctx is a call-string context of the backward slicer (callee inlined at Call).
type Ctx struct {
	Call   *ssa.Call
	Parent *Ctx
	Depth  int
}

func (c *Ctx) has(fn *ssa.Function) bool {
	for x := c; x != nil; x = x.Parent {
		if x.Call.Call.StaticCallee() == fn {
			return true
		}
	}
	return false
}

// VisitKind classifies what the slicer saw.
type VisitKind int

const (
	VValue     VisitKind = iota // an SSA value on the data path
	VFieldRead                  // a FieldAddr / Field through which data was read
	VMemRead                    // a load of a slice element
	VZero                       // a read of local storage nobody stored to (zero value)
	VWriter                     // a call that received the address of local storage the data was read from
)

// Visit is one node of a backward slice.
type Visit struct {
	Kind  VisitKind
	V     ssa.Value     // the value / FieldAddr / load
	Field *types.Var    // VFieldRead
	Owner types.Type    // VFieldRead: struct type owning the field
	Base  ssa.Value     // VMemRead: the slice value
	Index ssa.Value     // VMemRead: the subscript
	Path  []int         // residual path at this node
	Fn    *ssa.Function // function the node belongs to
	Ctx   *Ctx
	At    ssa.Instruction // VZero: the alloc
}

// Slicer computes field-sensitive backward data slices over SSA, seeing through
// local struct spills, composite literals, varargs arrays and — for callees
// accepted by Inline — through calls (context-sensitive, bounded depth).
type Slicer struct {
	Inline   func(callee *ssa.Function) bool
	MaxDepth int
	// StopAt: do not continue below this value (it is still recorded).
	StopAt func(v ssa.Value) bool
	// Control: at a (non loop-header) phi also follow the branch conditions that
	// select among its edges (short-circuit && / || chains, if/else joins).
	Control bool

	envs    map[*ssa.Function]*Env
	seen    map[string]bool
	Visits  []Visit
	Dropped []string // reasons precision was lost (escaped local storage, …)
}

func NewSlicer(inline func(*ssa.Function) bool) *Slicer {
	return &Slicer{Inline: inline, MaxDepth: 4, envs: map[*ssa.Function]*Env{}, seen: map[string]bool{}}
}

// WithEnv lets callers share already-built environments.
func (s *Slicer) WithEnv(e *Env) *Slicer { s.envs[e.Fn] = e; return s }

func (s *Slicer) env(fn *ssa.Function) *Env {
	if e, ok := s.envs[fn]; ok {
		return e
	}
	e := NewEnv(fn)
	s.envs[fn] = e
	return e
}

// Fresh returns a slicer with the same configuration and environments but an empty result.
func (s *Slicer) Fresh() *Slicer {
	return &Slicer{Inline: s.Inline, MaxDepth: s.MaxDepth, StopAt: s.StopAt, Control: s.Control, envs: s.envs, seen: map[string]bool{}}
}

func pathStr(p []int) string {
	var b strings.Builder
	for _, k := range p {
		fmt.Fprintf(&b, "/%d", k)
	}
	return b.String()
}

func (s *Slicer) mark(v ssa.Value, path []int, ctx *Ctx, tag string) bool {
	k := fmt.Sprintf("%p|%s|%p|%s", v, pathStr(path), ctx, tag)
	if s.seen[k] {
		return false
	}
	s.seen[k] = true
	return true
}

func fnOf(v ssa.Value) *ssa.Function {
	switch x := v.(type) {
	case ssa.Instruction:
		return x.Parent()
	case *ssa.Parameter:
		return x.Parent()
	case *ssa.FreeVar:
		return x.Parent()
	}
	return nil
}

// From slices backwards from value v restricted to the sub-object at path.
func (s *Slicer) From(v ssa.Value, path []int, ctx *Ctx) {
	if v == nil || !s.mark(v, path, ctx, "v") {
		return
	}
	s.Visits = append(s.Visits, Visit{Kind: VValue, V: v, Path: path, Fn: fnOf(v), Ctx: ctx})
	if s.StopAt != nil && s.StopAt(v) {
		return
	}
	switch x := v.(type) {
	case *ssa.Const, *ssa.Global, *ssa.Builtin, *ssa.Function, *ssa.FreeVar, *ssa.MakeClosure, *ssa.MakeMap, *ssa.MakeChan:
		return
	case *ssa.Alloc:
		return
	case *ssa.MakeSlice:
		s.sliceWriters(x, ctx)
		return
	case *ssa.Parameter:
		if ctx == nil {
			return
		}
		fn := x.Parent()
		for i, p := range fn.Params {
			if p == x && i < len(ctx.Call.Call.Args) {
				s.From(ctx.Call.Call.Args[i], path, ctx.Parent)
			}
		}
	case *ssa.Phi:
		for _, ed := range x.Edges {
			s.From(ed, path, ctx)
		}
		if s.Control {
			for _, c := range ControlConds(x) {
				s.From(c, nil, ctx)
			}
		}
	case *ssa.UnOp:
		if x.Op == token.MUL {
			s.fromLoad(x, path, ctx)
			return
		}
		s.From(x.X, nil, ctx)
	case *ssa.BinOp:
		s.From(x.X, nil, ctx)
		s.From(x.Y, nil, ctx)
	case *ssa.Convert:
		s.From(x.X, path, ctx)
	case *ssa.ChangeType:
		s.From(x.X, path, ctx)
	case *ssa.MakeInterface:
		s.From(x.X, path, ctx)
	case *ssa.ChangeInterface:
		s.From(x.X, path, ctx)
	case *ssa.TypeAssert:
		s.From(x.X, path, ctx)
	case *ssa.Field:
		if st, ok := x.X.Type().Underlying().(*types.Struct); ok && x.Field < st.NumFields() {
			s.Visits = append(s.Visits, Visit{Kind: VFieldRead, V: x, Field: st.Field(x.Field), Owner: x.X.Type(), Fn: x.Parent(), Ctx: ctx})
		}
		s.From(x.X, append([]int{x.Field}, path...), ctx)
	case *ssa.Extract:
		s.From(x.Tuple, append([]int{x.Index}, path...), ctx)
	case *ssa.Index:
		s.From(x.X, nil, ctx)
		s.From(x.Index, nil, ctx)
	case *ssa.Lookup:
		s.From(x.X, nil, ctx)
		s.From(x.Index, nil, ctx)
	case *ssa.Slice:
		s.From(x.X, path, ctx)
		for _, o := range []ssa.Value{x.Low, x.High, x.Max} {
			if o != nil {
				s.From(o, nil, ctx)
			}
		}
	case *ssa.FieldAddr:
		s.From(x.X, nil, ctx)
	case *ssa.IndexAddr:
		s.From(x.X, nil, ctx)
		s.From(x.Index, nil, ctx)
	case *ssa.Next:
		s.From(x.Iter, nil, ctx)
	case *ssa.Range:
		s.From(x.X, nil, ctx)
	case *ssa.Call:
		s.fromCall(x, path, ctx)
	}
}

func (s *Slicer) fromCall(c *ssa.Call, path []int, ctx *Ctx) {
	cc := c.Common()
	if b := ssau.Builtin(c); b != "" {
		for _, a := range cc.Args {
			s.From(a, nil, ctx)
		}
		return
	}
	callee := cc.StaticCallee()
	depth := 0
	if ctx != nil {
		depth = ctx.Depth
	}
	if callee != nil && callee.Blocks != nil && s.Inline != nil && s.Inline(callee) && depth < s.MaxDepth && !ctx.has(callee) {
		nctx := &Ctx{Call: c, Parent: ctx, Depth: depth + 1}
		nres := callee.Signature.Results().Len()
		ri := 0
		rest := path
		if nres > 1 {
			if len(path) == 0 {
				ri = -1 // whole tuple
			} else {
				ri, rest = path[0], path[1:]
			}
		}
		for _, b := range callee.Blocks {
			if len(b.Instrs) == 0 {
				continue
			}
			ret, ok := b.Instrs[len(b.Instrs)-1].(*ssa.Return)
			if !ok {
				continue
			}
			for i, r := range ret.Results {
				if ri == -1 || i == ri {
					s.From(r, rest, nctx)
				}
			}
		}
		return
	}
	if cc.IsInvoke() {
		s.From(cc.Value, nil, ctx)
	} else if callee == nil {
		s.From(cc.Value, nil, ctx)
	}
	for _, a := range cc.Args {
		s.From(a, nil, ctx)
	}
}

func (s *Slicer) fromLoad(ld *ssa.UnOp, path []int, ctx *Ctx) {
	ad := ResolveAddr(ld.X)
	for _, ch := range ad.Chain {
		if fa, ok := ch.(*ssa.FieldAddr); ok {
			if f := ssau.FieldOf(fa); f != nil {
				owner := fa.X.Type()
				if p, ok := owner.Underlying().(*types.Pointer); ok {
					owner = p.Elem()
				}
				s.Visits = append(s.Visits, Visit{Kind: VFieldRead, V: fa, Field: f, Owner: owner, Fn: fa.Parent(), Ctx: ctx})
			}
		}
	}
	for _, d := range ad.Dyn {
		s.From(d, nil, ctx)
	}
	full := append(append([]int{}, ad.Path...), path...)
	if ad.Slice != nil {
		s.Visits = append(s.Visits, Visit{Kind: VMemRead, V: ld, Base: ad.Slice, Index: ad.SliceIdx, Path: full, Fn: ld.Parent(), Ctx: ctx})
		s.From(ad.Slice, nil, ctx)
		s.From(ad.SliceIdx, nil, ctx)
		return
	}
	al, ok := ad.Root.(*ssa.Alloc)
	if !ok {
		// non-local memory: depends on the pointer
		s.From(ad.Root, nil, ctx)
		return
	}
	s.FromStorage(al, full, ld, ctx)
}

// FromStorage slices backwards from the content of local storage al at path
// full as seen by instruction at (a load, or e.g. the return that publishes a
// pointer to the storage).
func (s *Slicer) FromStorage(al *ssa.Alloc, full []int, ld ssa.Instruction, ctx *Ctx) {
	e := s.env(al.Parent())
	ad := Addr{Root: al}
	matched := false
	var cand []StoreAt
	for _, st := range e.Stores(al) {
		if !PathsOverlap(st.Ad.Path, full) {
			continue
		}
		if st.St.Parent() == ld.Parent() && !ssau.CanFollow(st.St, ld) {
			continue
		}
		cand = append(cand, st)
	}
	for _, st := range cand {
		q := st.Ad.Path
		// killed by a later store that covers the loaded sub-object and dominates the load
		killed := false
		for _, k := range cand {
			if k.St == st.St || len(k.Ad.Path) > len(full) || hasWild(k.Ad.Path) {
				continue
			}
			if k.St.Parent() == ld.Parent() && st.St.Parent() == ld.Parent() && ssau.Before(st.St, k.St) && ssau.Before(k.St, ld) {
				killed = true
				break
			}
		}
		if killed {
			matched = true
			continue
		}
		matched = true
		for _, d := range st.Ad.Dyn {
			s.From(d, nil, ctx)
		}
		if len(q) <= len(full) {
			s.From(st.St.Val, full[len(q):], ctx)
		} else {
			s.From(st.St.Val, nil, ctx)
		}
	}
	// storage handed to a call by address: the call may have written it
	for _, esc := range e.EscapesAt(al, full) {
		for _, c := range feedsCalls(esc.In) {
			if call, ok := c.(*ssa.Call); ok {
				if call.Parent() == ld.Parent() && !ssau.CanFollow(call, ld) {
					continue
				}
				matched = true
				if s.mark(call, nil, ctx, "w") {
					s.Visits = append(s.Visits, Visit{Kind: VWriter, V: call, Fn: call.Parent(), Ctx: ctx, Path: full})
					for _, a := range call.Call.Args {
						if stripIface(a) == ad.Root {
							continue
						}
						s.From(a, nil, ctx)
					}
				}
			}
		}
	}
	if !matched {
		s.Visits = append(s.Visits, Visit{Kind: VZero, V: al, Path: full, Fn: ld.Parent(), Ctx: ctx, At: al})
	}
}

// sliceWriters records the calls that are handed a freshly made slice (or the
// address of one of its elements): they may have filled it.
func (s *Slicer) sliceWriters(v ssa.Value, ctx *Ctx) {
	var visit func(x ssa.Value, depth int)
	visit = func(x ssa.Value, depth int) {
		if depth > 3 {
			return
		}
		for _, r := range ssau.Refs(x) {
			switch y := r.(type) {
			case *ssa.Call:
				if ssau.Builtin(y) != "" {
					continue
				}
				if s.mark(y, nil, ctx, "w") {
					s.Visits = append(s.Visits, Visit{Kind: VWriter, V: y, Fn: y.Parent(), Ctx: ctx})
				}
			case *ssa.IndexAddr:
				if y.X == x {
					for _, rr := range ssau.Refs(y) {
						switch z := rr.(type) {
						case *ssa.MakeInterface:
							visit(z, depth+1)
						case *ssa.Call:
							if s.mark(z, nil, ctx, "w") {
								s.Visits = append(s.Visits, Visit{Kind: VWriter, V: z, Fn: z.Parent(), Ctx: ctx})
							}
						}
					}
				}
			case *ssa.MakeInterface:
				visit(y, depth+1)
			case *ssa.ChangeType:
				visit(y, depth+1)
			case *ssa.Slice:
				if y.X == x {
					visit(y, depth+1)
				}
			}
		}
	}
	visit(v, 0)
}

func hasWild(p []int) bool {
	for _, k := range p {
		if k < 0 {
			return true
		}
	}
	return false
}

func stripIface(v ssa.Value) ssa.Value {
	for {
		switch x := v.(type) {
		case *ssa.MakeInterface:
			v = x.X
		case *ssa.ChangeType:
			v = x.X
		case *ssa.ChangeInterface:
			v = x.X
		default:
			return v
		}
	}
}

// ---------------------------------------------------------------------------
// queries

// Calls returns the call instructions on the data path, in visit order.
func (s *Slicer) Calls() []*ssa.Call {
	var out []*ssa.Call
	seen := map[*ssa.Call]bool{}
	for _, v := range s.Visits {
		if v.Kind != VValue {
			continue
		}
		if c, ok := v.V.(*ssa.Call); ok && !seen[c] {
			seen[c] = true
			out = append(out, c)
		}
	}
	return out
}

// CallsTo returns the calls on the data path whose callee satisfies pred.
func (s *Slicer) CallsTo(pred func(fn *types.Func) bool) []*ssa.Call {
	var out []*ssa.Call
	for _, c := range s.Calls() {
		if o := ssau.CalleeObj(c); o != nil && pred(o) {
			out = append(out, c)
		}
	}
	return out
}

// FieldReads returns the struct fields of the given owner type read on the data path.
func (s *Slicer) FieldReads(owner types.Type) map[*types.Var]bool {
	out := map[*types.Var]bool{}
	for _, v := range s.Visits {
		if v.Kind == VFieldRead && types.Identical(v.Owner, owner) {
			out[v.Field] = true
		}
	}
	return out
}

// MemReads returns the slice-element loads on the data path.
func (s *Slicer) MemReads() []Visit {
	var out []Visit
	seen := map[ssa.Value]bool{}
	for _, v := range s.Visits {
		if v.Kind == VMemRead && !seen[v.V] {
			seen[v.V] = true
			out = append(out, v)
		}
	}
	return out
}

// Zeros returns the reads of never-written local storage.
func (s *Slicer) Zeros() []Visit {
	var out []Visit
	for _, v := range s.Visits {
		if v.Kind == VZero {
			out = append(out, v)
		}
	}
	return out
}

// Writers returns the calls that filled local storage read on the data path.
func (s *Slicer) Writers() []*ssa.Call {
	var out []*ssa.Call
	for _, v := range s.Visits {
		if v.Kind == VWriter {
			out = append(out, v.V.(*ssa.Call))
		}
	}
	return out
}

// Values returns all plain values visited.
func (s *Slicer) Values() []ssa.Value {
	var out []ssa.Value
	seen := map[ssa.Value]bool{}
	for _, v := range s.Visits {
		if v.Kind == VValue && !seen[v.V] {
			seen[v.V] = true
			out = append(out, v.V)
		}
	}
	return out
}

// Has reports whether value x lies on the data path.
func (s *Slicer) Has(x ssa.Value) bool {
	for _, v := range s.Visits {
		if v.V == x {
			return true
		}
	}
	return false
}

// OnlyConsts reports whether the slice bottoms out in constants / zero values only.
func (s *Slicer) OnlyConsts() bool {
	for _, v := range s.Visits {
		switch v.Kind {
		case VZero:
			continue
		case VValue:
			switch v.V.(type) {
			case *ssa.Const, *ssa.UnOp, *ssa.Alloc:
				continue
			}
			return false
		case VFieldRead:
			continue
		default:
			return false
		}
	}
	return true
}

// ControlConds returns the branch conditions that decide which edge of a
// join phi is taken: the conditions of all If terminators in the region
// between the phi block's immediate dominator (inclusive) and the phi block.
// Loop-header phis give nil.
func ControlConds(phi *ssa.Phi) []ssa.Value {
	b := phi.Block()
	for _, p := range b.Preds {
		if b.Dominates(p) {
			return nil
		}
	}
	d := b.Idom()
	if d == nil {
		return nil
	}
	region := map[*ssa.BasicBlock]bool{}
	stack := append([]*ssa.BasicBlock{}, b.Preds...)
	for len(stack) > 0 {
		n := stack[len(stack)-1]
		stack = stack[:len(stack)-1]
		if region[n] {
			continue
		}
		region[n] = true
		if n == d {
			continue
		}
		stack = append(stack, n.Preds...)
	}
	var out []ssa.Value
	for _, blk := range b.Parent().Blocks {
		if !region[blk] || len(blk.Instrs) == 0 {
			continue
		}
		if iff, ok := blk.Instrs[len(blk.Instrs)-1].(*ssa.If); ok {
			out = append(out, iff.Cond)
		}
	}
	return out
}
