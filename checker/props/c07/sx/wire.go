// Package sx holds the symbolic helpers shared by the C07 and C15 checks:
// wire layouts after encoding/binary (LAY-6), polynomials over SSA symbols and
// canonical access paths (SYM-BYTES / SYM-STRIDE), counted-loop recognition,
// exact-cover decisions for affine subscripts, a field-sensitive backward
// slicer (dependency shape: SHAPE / AXIS / NRM / INV) and the extraction of
// stream operations from a codec function (LAY-2, PLANE-1).
//
// Nothing here executes repository code; everything is read off go/types and go/ssa.
package sx

import (
	"fmt"
	"go/types"
	"strings"
)

// Run is a maximal run of identical scalars in a wire layout.
type Run struct {
	Path string          // first field path of the run ("Vertex1.X")
	Kind types.BasicKind // Uint8, Float32, …
	Size int64           // bytes of one scalar
	N    int64           // number of scalars in the run
}

// Layout is the flattened wire layout of a fixed-size value as encoding/binary
// serialises it: fields in declaration order, no padding, arrays element by
// element, blank fields included.
type Layout struct {
	Runs []Run
	Size int64
}

func basicSize(k types.BasicKind) int64 {
	switch k {
	case types.Bool, types.Int8, types.Uint8:
		return 1
	case types.Int16, types.Uint16:
		return 2
	case types.Int32, types.Uint32, types.Float32:
		return 4
	case types.Int64, types.Uint64, types.Float64, types.Complex64:
		return 8
	case types.Complex128:
		return 16
	}
	return 0
}

func kindName(k types.BasicKind) string {
	switch k {
	case types.Bool:
		return "bool"
	case types.Int8:
		return "i8"
	case types.Uint8:
		return "u8"
	case types.Int16:
		return "i16"
	case types.Uint16:
		return "u16"
	case types.Int32:
		return "i32"
	case types.Uint32:
		return "u32"
	case types.Float32:
		return "f32"
	case types.Int64:
		return "i64"
	case types.Uint64:
		return "u64"
	case types.Float64:
		return "f64"
	case types.Complex64:
		return "c64"
	case types.Complex128:
		return "c128"
	}
	return fmt.Sprintf("kind%d", k)
}

// Flatten computes the encoding/binary layout of t. Types encoding/binary
// cannot serialise at a fixed size (int, uint, uintptr, string, pointer, map,
// slice, interface, chan, func) give an error.
func Flatten(t types.Type) (*Layout, error) {
	l := &Layout{}
	if err := l.add(t, ""); err != nil {
		return nil, err
	}
	return l, nil
}

func (l *Layout) push(path string, k types.BasicKind, n int64) {
	sz := basicSize(k)
	if len(l.Runs) > 0 {
		last := &l.Runs[len(l.Runs)-1]
		if last.Kind == k {
			last.N += n
			l.Size += sz * n
			return
		}
	}
	l.Runs = append(l.Runs, Run{Path: path, Kind: k, Size: sz, N: n})
	l.Size += sz * n
}

func (l *Layout) add(t types.Type, path string) error {
	switch u := t.Underlying().(type) {
	case *types.Basic:
		if basicSize(u.Kind()) == 0 {
			return fmt.Errorf("%s: type %s has no fixed wire size under encoding/binary", pathOr(path), t)
		}
		l.push(path, u.Kind(), 1)
		return nil
	case *types.Array:
		if eb, ok := u.Elem().Underlying().(*types.Basic); ok {
			if basicSize(eb.Kind()) == 0 {
				return fmt.Errorf("%s: element type %s has no fixed wire size", pathOr(path), u.Elem())
			}
			if u.Len() > 0 {
				l.push(path, eb.Kind(), u.Len())
			}
			return nil
		}
		for i := int64(0); i < u.Len(); i++ {
			if err := l.add(u.Elem(), fmt.Sprintf("%s[%d]", path, i)); err != nil {
				return err
			}
		}
		return nil
	case *types.Struct:
		for i := 0; i < u.NumFields(); i++ {
			f := u.Field(i)
			p := f.Name()
			if path != "" {
				p = path + "." + f.Name()
			}
			if err := l.add(f.Type(), p); err != nil {
				return err
			}
		}
		return nil
	}
	return fmt.Errorf("%s: type %s cannot be serialised at a fixed size by encoding/binary", pathOr(path), t)
}

func pathOr(p string) string {
	if p == "" {
		return "value"
	}
	return p
}

// Sig renders the layout ("80×u8", "12×f32 1×u16").
func (l *Layout) Sig() string {
	var parts []string
	for _, r := range l.Runs {
		parts = append(parts, fmt.Sprintf("%d×%s", r.N, kindName(r.Kind)))
	}
	if len(parts) == 0 {
		return "∅"
	}
	return strings.Join(parts, " ")
}

// MultiByte reports whether the layout contains a scalar wider than one byte
// (only then does the byte order matter).
func (l *Layout) MultiByte() bool {
	for _, r := range l.Runs {
		if r.Size > 1 {
			return true
		}
	}
	return false
}

// FieldNames returns the field names of a struct type in declaration order.
func FieldNames(t types.Type) []string {
	st, ok := t.Underlying().(*types.Struct)
	if !ok {
		return nil
	}
	var out []string
	for i := 0; i < st.NumFields(); i++ {
		out = append(out, st.Field(i).Name())
	}
	return out
}

// FieldIndex returns the index of the named field, or -1.
func FieldIndex(t types.Type, name string) int {
	st, ok := t.Underlying().(*types.Struct)
	if !ok {
		return -1
	}
	for i := 0; i < st.NumFields(); i++ {
		if st.Field(i).Name() == name {
			return i
		}
	}
	return -1
}
