// Package c08: PLY files written by other tools load to what the specification says (structural clauses).
package c08

import (
	"golang.org/x/tools/go/ssa"

	"polycheck/props"
	"polycheck/props/plycommon"
)

func init() {
	props.Register(&props.Prop{
		ID: "C08",
		Explanation: "Decode-side layout rules of formats/ply for an arbitrary header of the restricted grammar, decided on source (go/ssa): " +
			"LAY-4 in the 8 build* functions the byte offset captured for a component is the running size before its advance, the running size advances by Size(property) exactly once on every back edge, the ASCII column is the property's ordinal; the ASCII list reader consumes count+1 columns and the face line walker advances by that; " +
			"LAY-3 alias table has both spellings of all eight types, Size() matches the format, every binary scalar reader covers uchar/int/float/double, list counts cover uchar/int/uint, lists int/uint and float; LAY-1/LAY-2 each case decodes exactly Size(type) bytes with the format's encoding; " +
			"AXIS-1 component x is captured under the x name test, read at xOffset and stored in slot X; LAY-7 scalarType derives from the header; LAY-8 quad fan (0,1,2),(0,2,3) for indices and texture coordinates in both face readers; " +
			"IO-3 no decode error is dropped; HDRP-1 \\r stripped, arms are equality tests on the first token, blank/unknown lines skipped, property attaches to the last element, token positions of element/property lines; " +
			"CLAIM-2 one scalar reader per unclaimed property; REC-1 record i is delivered with index i to readers whose arrays have Count slots; LAY-5 byte order; " +
			"STATE-1 no function reachable from the reader entry points writes package-level storage that the decoder reads (all decode state is per call). " +
			"Decides necessary conditions for every property order / type mix; does not decide numeric conversion, attribute naming beyond the reader table, CRLF inside ASCII bodies, lists on the vertex element.",
		Assumptions: []string{
			"EliCDavis/vector DivByConstant divides every component by its argument; vectorN.New stores its k-th argument in component k",
		},
		Controls: controls,
		Run:      run,
	})
}

func run(c *props.Ctx) {
	e := plycommon.New(c)
	if e == nil {
		return
	}
	plycommon.LAY4(e)
	plycommon.LAY7(e)
	plycommon.LAY9(e)
	plycommon.IO3(e)
	plycommon.EnumInventory(e)
	tab := plycommon.Codec(e, false, true)
	plycommon.LAY3Foreign(e, tab)
	plycommon.ListReaders(e)
	plycommon.AliasTable(e)
	plycommon.LAY8(e)
	plycommon.HDRP1(e)
	plycommon.CLAIM2(e)
	plycommon.ReaderPlumbing(e)
	plycommon.REC1Driver(e)
	plycommon.NAME1(e)
	plycommon.SENT1(e)
	plycommon.LINE1(e)
	plycommon.BYTES1(e)
	plycommon.TOKSEP1(e)
	plycommon.UNW1(e)
	ft := plycommon.FormatTable(e, false, true)
	decode := map[*ssa.Function]bool{}
	for _, f := range e.DecodeScope() {
		decode[f] = true
	}
	plycommon.LAY5(e, ft, func(fn *ssa.Function) bool { return decode[fn] })
	plycommon.LAY10(e)
	plycommon.CFG1(e, func(fn *ssa.Function) bool { return decode[fn] })
	STATE1(e)

	c.R.Floor("LAY-4", 22)
	c.R.Floor("AXIS-1", 30)
	c.R.Floor("LAY-7", 6)
	c.R.Floor("LAY-9", 5)
	c.R.Floor("IO-3", 30)
	c.R.Floor("LAY-3", 25)
	c.R.Floor("LAY-1", 20)
	c.R.Floor("LAY-2", 18)
	c.R.Floor("LAY-8", 3)
	c.R.Floor("HDRP-1", 5)
	c.R.Floor("CLAIM-2", 2)
	c.R.Floor("CLAIM-3", 14)
	c.R.Floor("ATTR-1", 6)
	c.R.Floor("REC-1", 14)
	c.R.Floor("LAY-5", 2)
	c.R.Floor("NAME-1", 5)
	c.R.Floor("SENT-1", 19)
	c.R.Floor("LINE-1", 2)
	c.R.Floor("BYTES-1", 1)
	c.R.Floor("TOKSEP-1", 4)
	c.R.Floor("UNW-1", 1)
	c.R.Floor("LAY-10", 11)
	c.R.Floor("CFG-1", 8)
	c.R.Floor("STATE-1", 2)
}
