package c08

import (
	"fmt"
	"go/token"
	"go/types"
	"sort"
	"strings"

	"golang.org/x/tools/go/ssa"

	"polycheck/props/plycommon"
	"polycheck/ssau"
)

// STATE-1: decoding one file is a function of its bytes only.
//
// No function of formats/ply reachable from the reader entry points writes the
// storage of a package-level variable of formats/ply that the decoder also
// observes. "Storage" is the variable itself and everything reachable from it
// without a copy: fields, array elements, the backing array of a slice held in
// it (or in a field of it), a map held in it, the pointee of a pointer held in
// it — followed through local copies of the header (slice / struct values,
// phis, re-slices, locals and captured variables the value was stored in,
// results of in-package helpers that return it). A write is: a store through
// such an address, a map update, copy/clear/delete/append into it, handing it
// to a callee that fills its argument (io.Reader.Read and the io / binary / sort
// helpers built on it) or to a formats/ply function that does one of these to
// that parameter. Package initialisers are exempt (they run once, before any
// decode).

const state1Rule = "STATE-1"

const state1ControlFile = "formats/ply/zz_verif_control_c08_state.go"

const state1ControlSrc = `package ply

import (
	"io"
	"strings"
)

var verifControlSTATE1Scratch = make([]byte, 1)

var verifControlSTATE1Table = map[string]int{"a": 1}

type verifControlSTATE1Cfg struct{ buf []byte }

var verifControlSTATE1Default = verifControlSTATE1Cfg{buf: make([]byte, 4)}

// must fire: the read buffer is package-level storage, filled by the reader and read back
func verifControlSTATE1Bad(in io.Reader) (string, error) {
	data := strings.Builder{}
	buf := verifControlSTATE1Scratch
	for {
		if _, err := io.ReadFull(in, buf); err != nil {
			return "", err
		}
		if buf[0] == '\n' {
			return data.String(), nil
		}
		data.WriteByte(buf[0])
	}
}

func verifControlSTATE1fill(in io.Reader, p []byte) error {
	_, err := in.Read(p[:1])
	return err
}

// must fire: same through a helper and a struct copy of the package default
func verifControlSTATE1Bad2(in io.Reader) (byte, error) {
	cfg := verifControlSTATE1Default
	if err := verifControlSTATE1fill(in, cfg.buf); err != nil {
		return 0, err
	}
	return cfg.buf[0], nil
}

// must fire: memoising in a package-level map
func verifControlSTATE1Bad3(name string) int {
	if v, ok := verifControlSTATE1Table[name]; ok {
		return v
	}
	verifControlSTATE1Table[name] = len(name)
	return len(name)
}

// must stay silent: per-call buffer; the package-level table is only read; a copy of the default is written
func verifControlSTATE1Good(in io.Reader, name string) (int, error) {
	buf := make([]byte, 1)
	if _, err := io.ReadFull(in, buf); err != nil {
		return 0, err
	}
	own := append([]byte{}, verifControlSTATE1Default.buf...)
	own[0] = buf[0]
	cfg := verifControlSTATE1Default
	cfg.buf = own
	cfg.buf[0] = 1
	return verifControlSTATE1Table[name] + int(own[0]) + len(verifControlSTATE1Scratch), nil
}
`

func controls() map[string]string {
	m := plycommon.Controls()
	m[state1ControlFile] = state1ControlSrc
	return m
}

// ---------------------------------------------------------------------------

func hasRef(t types.Type, depth int) bool {
	if depth > 6 {
		return true
	}
	switch u := t.Underlying().(type) {
	case *types.Basic:
		return u.Kind() == types.UnsafePointer
	case *types.Struct:
		for i := 0; i < u.NumFields(); i++ {
			if hasRef(u.Field(i).Type(), depth+1) {
				return true
			}
		}
		return false
	case *types.Array:
		return hasRef(u.Elem(), depth+1)
	case *types.Tuple:
		return true
	}
	return true // slice, map, pointer, chan, func, interface, type parameter
}

type stSink struct {
	in      ssa.Instruction
	what    string
	unknown bool // effect of the callee on its argument is not known
}

type stSummary struct {
	written map[int][]stSink // parameter index -> sinks (in the callee)
	results map[int]map[ssa.Value]bool
	done    bool
}

type stAnalysis struct {
	e       *plycommon.Env
	byName  map[string][]*ssa.Function
	sum     map[*ssa.Function]*stSummary
	depth   int
	obsMemo map[string]bool
}

// origins: the package-level variables / parameters whose storage v (an address
// or a reference-carrying value) may denote.
func (a *stAnalysis) origins(v ssa.Value, seen map[ssa.Value]bool, out map[ssa.Value]bool) {
	if v == nil || seen[v] {
		return
	}
	seen[v] = true
	switch x := v.(type) {
	case *ssa.Global:
		if x.Pkg == a.e.Pkg {
			out[x] = true
		}
	case *ssa.Parameter:
		if hasRef(x.Type(), 0) {
			out[x] = true
		}
	case *ssa.FieldAddr:
		a.origins(x.X, seen, out)
	case *ssa.IndexAddr:
		a.origins(x.X, seen, out)
	case *ssa.Field:
		if hasRef(x.Type(), 0) {
			a.origins(x.X, seen, out)
		}
	case *ssa.Index:
		if hasRef(x.Type(), 0) {
			a.origins(x.X, seen, out)
		}
	case *ssa.Slice:
		a.origins(x.X, seen, out)
	case *ssa.Phi:
		for _, ed := range x.Edges {
			a.origins(ed, seen, out)
		}
	case *ssa.ChangeType:
		a.origins(x.X, seen, out)
	case *ssa.Convert:
		if hasRef(x.Type(), 0) {
			a.origins(x.X, seen, out)
		}
	case *ssa.MakeInterface:
		a.origins(x.X, seen, out)
	case *ssa.ChangeInterface:
		a.origins(x.X, seen, out)
	case *ssa.TypeAssert:
		if hasRef(x.Type(), 0) {
			a.origins(x.X, seen, out)
		}
	case *ssa.SliceToArrayPointer:
		a.origins(x.X, seen, out)
	case *ssa.Lookup:
		if hasRef(x.Type(), 0) {
			a.origins(x.X, seen, out)
		}
	case *ssa.UnOp:
		if x.Op != token.MUL || !hasRef(x.Type(), 0) {
			return
		}
		a.loadOrigins(x.X, x, seen, out)
	case *ssa.Extract:
		if c, ok := x.Tuple.(*ssa.Call); ok {
			a.callResult(c, x.Index, seen, out)
		} else if hasRef(x.Type(), 0) {
			a.origins(x.Tuple, seen, out)
		}
	case *ssa.Call:
		if ssau.Builtin(x) == "append" {
			a.origins(x.Common().Args[0], seen, out)
			return
		}
		if hasRef(x.Type(), 0) {
			a.callResult(x, 0, seen, out)
		}
	}
}

// loadOrigins: what a load through address p may yield. A local (or captured)
// variable yields what was stored in it; anything else yields storage of p's origin.
func (a *stAnalysis) loadOrigins(p ssa.Value, at ssa.Instruction, seen map[ssa.Value]bool, out map[ssa.Value]bool) {
	base := p
	for {
		switch b := base.(type) {
		case *ssa.FieldAddr:
			base = b.X
			continue
		case *ssa.IndexAddr:
			if _, isPtr := b.X.Type().Underlying().(*types.Pointer); isPtr {
				base = b.X
				continue
			}
		}
		break
	}
	switch b := base.(type) {
	case *ssa.Alloc:
		a.storedInto(b, p, at, seen, out)
		return
	case *ssa.FreeVar:
		fn := b.Parent()
		par := fn.Parent()
		if par == nil {
			return
		}
		idx := -1
		for i, fv := range fn.FreeVars {
			if fv == b {
				idx = i
			}
		}
		ssau.AllInstrs(par, func(in ssa.Instruction) {
			mc, ok := in.(*ssa.MakeClosure)
			if !ok || mc.Fn != fn || idx < 0 || idx >= len(mc.Bindings) {
				return
			}
			switch bv := mc.Bindings[idx].(type) {
			case *ssa.Alloc:
				a.storedInto(bv, nil, nil, seen, out)
			default:
				a.loadOrigins(bv, nil, seen, out)
			}
		})
		// stores made by the closure itself
		a.storedThrough(fn, b, seen, out)
		return
	}
	a.origins(p, seen, out)
}

func (a *stAnalysis) storedInto(al *ssa.Alloc, loadAddr ssa.Value, at ssa.Instruction, seen map[ssa.Value]bool, out map[ssa.Value]bool) {
	captured := false
	for _, r := range ssau.Refs(al) {
		if _, ok := r.(*ssa.MakeClosure); ok {
			captured = true
		}
	}
	if at != nil && !captured && at.Parent() == al.Parent() {
		if lp, ok := stFieldPath(loadAddr, al); ok {
			a.storedReaching(al, lp, at, seen, out)
			return
		}
	}
	if seen[stAllocKey{al}] {
		return
	}
	seen[stAllocKey{al}] = true
	a.storedThrough(al.Parent(), al, seen, out)
	for _, an := range al.Parent().AnonFuncs {
		// closures writing the captured variable
		ssau.AllInstrs(al.Parent(), func(in ssa.Instruction) {
			mc, ok := in.(*ssa.MakeClosure)
			if !ok || mc.Fn != an {
				return
			}
			for i, bv := range mc.Bindings {
				if bv == al && i < len(an.FreeVars) {
					a.storedThrough(an, an.FreeVars[i], seen, out)
				}
			}
		})
	}
}

type stAllocKey struct{ ssa.Value }

// stFieldPath: addr is base followed by field selections only; returns the field indices.
func stFieldPath(addr ssa.Value, base ssa.Value) ([]int, bool) {
	var rev []int
	for addr != base {
		fa, ok := addr.(*ssa.FieldAddr)
		if !ok {
			return nil, false
		}
		rev = append(rev, fa.Field)
		addr = fa.X
	}
	for i, j := 0, len(rev)-1; i < j; i, j = i+1, j-1 {
		rev[i], rev[j] = rev[j], rev[i]
	}
	return rev, true
}

// storedReaching: like storedThrough for a local that no closure captures, but a
// store that is always followed by a store covering the loaded location before
// the load (and cannot run again after it) does not reach the load.
func (a *stAnalysis) storedReaching(al *ssa.Alloc, loadPath []int, at ssa.Instruction, seen map[ssa.Value]bool, out map[ssa.Value]bool) {
	type cand struct {
		st     *ssa.Store
		covers bool
	}
	var cs []cand
	ssau.AllInstrs(al.Parent(), func(in ssa.Instruction) {
		st, ok := in.(*ssa.Store)
		if !ok {
			return
		}
		p := st.Addr
		for p != ssa.Value(al) {
			switch b := p.(type) {
			case *ssa.FieldAddr:
				p = b.X
				continue
			case *ssa.IndexAddr:
				if _, isPtr := b.X.Type().Underlying().(*types.Pointer); isPtr {
					p = b.X
					continue
				}
			}
			return
		}
		covers := false
		if sp, ok := stFieldPath(st.Addr, al); ok && len(sp) <= len(loadPath) {
			covers = true
			for i := range sp {
				if sp[i] != loadPath[i] {
					covers = false
				}
			}
			if !covers {
				return // a different field: does not touch the loaded location
			}
		}
		cs = append(cs, cand{st, covers})
	})
	for _, c := range cs {
		killed := false
		for _, k := range cs {
			if k.st != c.st && k.covers && ssau.Before(c.st, k.st) && ssau.Before(k.st, at) && !ssau.CanFollow(k.st, c.st) {
				killed = true
			}
		}
		if !killed && hasRef(c.st.Val.Type(), 0) {
			a.origins(c.st.Val, seen, out)
		}
	}
}

// storedThrough: origins of every value stored (in fn) at an address based on base.
func (a *stAnalysis) storedThrough(fn *ssa.Function, base ssa.Value, seen map[ssa.Value]bool, out map[ssa.Value]bool) {
	ssau.AllInstrs(fn, func(in ssa.Instruction) {
		st, ok := in.(*ssa.Store)
		if !ok {
			return
		}
		p := st.Addr
		for p != base {
			switch b := p.(type) {
			case *ssa.FieldAddr:
				p = b.X
				continue
			case *ssa.IndexAddr:
				if _, isPtr := b.X.Type().Underlying().(*types.Pointer); isPtr {
					p = b.X
					continue
				}
			}
			return
		}
		if hasRef(st.Val.Type(), 0) {
			a.origins(st.Val, seen, out)
		}
	})
}

func (a *stAnalysis) inPly(fn *ssa.Function) bool {
	if fn == nil || fn.Blocks == nil {
		return false
	}
	r := fn
	for r.Parent() != nil {
		r = r.Parent()
	}
	return r.Pkg == a.e.Pkg
}

// callResult: origins of result k of a call (in-package callees that hand back a parameter or a package variable).
func (a *stAnalysis) callResult(c *ssa.Call, k int, seen map[ssa.Value]bool, out map[ssa.Value]bool) {
	sc := c.Common().StaticCallee()
	if !a.inPly(sc) {
		return
	}
	s := a.summary(sc)
	if s == nil {
		return
	}
	var keys []ssa.Value
	for o := range s.results[k] {
		keys = append(keys, o)
	}
	for _, o := range keys {
		switch p := o.(type) {
		case *ssa.Global:
			out[p] = true
		case *ssa.Parameter:
			for i, fp := range sc.Params {
				if fp == p && i < len(c.Common().Args) {
					a.origins(c.Common().Args[i], seen, out)
				}
			}
		}
	}
}

func (a *stAnalysis) originsOf(v ssa.Value) map[ssa.Value]bool {
	out := map[ssa.Value]bool{}
	a.origins(v, map[ssa.Value]bool{}, out)
	return out
}

// external callees that fill (part of) an argument: callee -> argument positions (receiver excluded)
var stWriters = map[string][]int{
	"io.ReadFull": {1}, "io.ReadAtLeast": {1}, "io.CopyBuffer": {2},
	"encoding/binary.Read": {2}, "encoding/binary.Decode": {0}, "encoding/binary.Encode": {0},
	"encoding/json.Unmarshal": {1},
	"sort.Slice":              {0}, "sort.SliceStable": {0}, "sort.Sort": {0}, "sort.Stable": {0}, "sort.Strings": {0}, "sort.Ints": {0}, "sort.Float64s": {0},
	"slices.Sort": {0}, "slices.SortFunc": {0}, "slices.SortStableFunc": {0}, "slices.Reverse": {0},
}

// packages whose functions only read what they are given (apart from the entries of stWriters and the fmt scanners)
var stReadOnlyPkgs = map[string]bool{
	"fmt": true, "strings": true, "errors": true, "strconv": true, "math": true, "bytes": true, "slices": true, "maps": true,
	"unicode": true, "unicode/utf8": true, "path": true, "path/filepath": true, "reflect": true, "encoding/binary": true,
}

// classify an argument position of a call whose body is not analysed: "write", "read", "unknown"
func stClassify(cc *ssa.CallCommon, callee *types.Func, k int) string {
	if callee == nil || callee.Pkg() == nil {
		return "unknown"
	}
	sig, _ := callee.Type().(*types.Signature)
	name := callee.Pkg().Path() + "." + callee.Name()
	if sig != nil && sig.Recv() != nil {
		// the io.Reader role: Read / ReadAt / ReadFrom-like fillers take the buffer first
		if k == 0 && sig.Params().Len() >= 1 {
			if sl, ok := sig.Params().At(0).Type().Underlying().(*types.Slice); ok {
				if b, ok := sl.Elem().Underlying().(*types.Basic); ok && b.Kind() == types.Byte {
					switch callee.Name() {
					case "Read", "ReadAt", "ReadFull":
						return "write"
					case "Write", "WriteAt", "WriteString":
						return "read"
					}
				}
			}
		}
		if callee.Pkg().Path() == "encoding/binary" && strings.HasPrefix(callee.Name(), "Put") && k == 0 {
			return "write"
		}
		if callee.Pkg().Path() == "encoding/binary" || callee.Pkg().Path() == "strings" || callee.Pkg().Path() == "bytes" {
			if callee.Pkg().Path() == "bytes" && (callee.Name() == "Read" || callee.Name() == "ReadAt") {
				return "write"
			}
			return "read"
		}
		return "unknown"
	}
	if ks, ok := stWriters[name]; ok {
		for _, w := range ks {
			if w == k {
				return "write"
			}
		}
		return "read"
	}
	if callee.Pkg().Path() == "fmt" && (strings.Contains(callee.Name(), "scan") || strings.Contains(callee.Name(), "Scan")) {
		return "write"
	}
	if callee.Pkg().Path() == "strconv" && strings.HasPrefix(callee.Name(), "Append") && k == 0 {
		return "write"
	}
	if callee.Pkg().Path() == "encoding/binary" && (strings.HasPrefix(callee.Name(), "Append") || strings.HasPrefix(callee.Name(), "Put")) && k == 0 {
		return "write"
	}
	if stReadOnlyPkgs[callee.Pkg().Path()] {
		return "read"
	}
	return "unknown"
}

// stClassifyRecv: what an out-of-package pointer-receiver method does to its receiver, by role.
func stClassifyRecv(callee *types.Func) string {
	if callee.Pkg() != nil && callee.Pkg().Path() == "sync" {
		return "read" // locks and once: synchronisation, not decode state
	}
	n := callee.Name()
	for _, p := range []string{"Write", "Read", "Reset", "Grow", "Truncate", "Seek", "Scan", "Store", "Add", "Swap", "Set", "Next", "Unread", "Discard", "Push", "Pop", "Init"} {
		if strings.HasPrefix(n, p) {
			return "write"
		}
	}
	for _, p := range []string{"String", "Len", "Cap", "Bytes", "Error", "Load", "Is", "Has", "Get", "Equal"} {
		if strings.HasPrefix(n, p) {
			return "read"
		}
	}
	return "unknown"
}

type stHit struct {
	sink    stSink
	origins map[ssa.Value]bool
}

// hits: every write in fn together with the origins of the storage written.
func (a *stAnalysis) hits(fn *ssa.Function) []stHit {
	var out []stHit
	add := func(in ssa.Instruction, target ssa.Value, what string, unknown bool) {
		o := a.originsOf(target)
		if len(o) > 0 {
			out = append(out, stHit{stSink{in, what, unknown}, o})
		}
	}
	ssau.AllInstrs(fn, func(in ssa.Instruction) {
		switch x := in.(type) {
		case *ssa.Store:
			switch x.Addr.(type) {
			case *ssa.Alloc:
				return
			}
			add(x, x.Addr, "store", false)
		case *ssa.MapUpdate:
			add(x, x.Map, "map update", false)
		case ssa.CallInstruction:
			cc := x.Common()
			switch ssau.Builtin(x) {
			case "append":
				if !stFreshBySliceCap(cc.Args[0]) {
					add(x, cc.Args[0], "append onto", false)
				}
				return
			case "copy", "clear", "delete":
				add(x, cc.Args[0], ssau.Builtin(x)+" into", false)
				return
			case "":
			default:
				return
			}
			_, callee := plycommon.CallTo(x)
			// formats/ply callees: by summary
			var targets []*ssa.Function
			off := 0
			if cc.IsInvoke() {
				if cc.Method.Pkg() != nil && cc.Method.Pkg() == a.e.Pkg.Pkg {
					iface, _ := cc.Value.Type().Underlying().(*types.Interface)
					for _, m := range a.byName[cc.Method.Name()] {
						rt := m.Signature.Recv().Type()
						if iface == nil || types.Implements(rt, iface) || types.Implements(types.NewPointer(rt), iface) {
							targets = append(targets, m)
						}
					}
					off = 1
				}
			} else if sc := cc.StaticCallee(); a.inPly(sc) {
				targets = append(targets, sc)
			} else if mc, ok := cc.Value.(*ssa.MakeClosure); ok {
				if f, ok := mc.Fn.(*ssa.Function); ok && a.inPly(f) {
					targets = append(targets, f)
				}
			}
			if len(targets) > 0 {
				for _, t := range targets {
					s := a.summary(t)
					if s == nil {
						continue
					}
					for i, arg := range cc.Args {
						sk := s.written[i+off]
						if len(sk) == 0 {
							continue
						}
						unknown := true
						for _, k := range sk {
							if !k.unknown {
								unknown = false
							}
						}
						add(x, arg, "passed to "+a.e.Name(t)+", which writes its parameter ("+sk[0].what+")", unknown)
					}
				}
				return
			}
			if cc.IsInvoke() && cc.Method.Pkg() != nil && cc.Method.Pkg() == a.e.Pkg.Pkg {
				return
			}
			// everything else: by role
			roff := 0
			if !cc.IsInvoke() && callee != nil {
				if sig, ok := callee.Type().(*types.Signature); ok && sig.Recv() != nil {
					roff = 1
				}
			}
			for i, arg := range cc.Args {
				if !hasRef(arg.Type(), 0) {
					continue
				}
				if i < roff {
					// receiver of an out-of-package method: only pointer receivers can be written through
					sig := callee.Type().(*types.Signature)
					if _, isPtr := sig.Recv().Type().Underlying().(*types.Pointer); !isPtr {
						continue
					}
					switch stClassifyRecv(callee) {
					case "write":
						add(x, arg, "receiver of "+callee.FullName()+", which modifies it", false)
					case "unknown":
						add(x, arg, "receiver of "+callee.FullName()+", whose effect on it is not known", true)
					}
					continue
				}
				k := i - roff
				if callee != nil {
					if sig, ok := callee.Type().(*types.Signature); ok && sig.Variadic() && k >= sig.Params().Len()-1 {
						k = sig.Params().Len() - 1
					}
				}
				cn := "a function value"
				if callee != nil {
					cn = callee.FullName()
				}
				switch stClassify(cc, callee, k) {
				case "write":
					add(x, arg, "handed to "+cn+", which fills it", false)
				case "unknown":
					add(x, arg, "handed to "+cn+", whose effect on it is not known", true)
				}
			}
		}
	})
	return out
}

func stFreshBySliceCap(v ssa.Value) bool {
	s, ok := v.(*ssa.Slice)
	if !ok || s.Max == nil || s.High == nil {
		return false
	}
	if s.Max == s.High {
		return true
	}
	x, okA := ssau.ConstInt(s.Max)
	y, okB := ssau.ConstInt(s.High)
	return okA && okB && x == y
}

func (a *stAnalysis) summary(fn *ssa.Function) *stSummary {
	if s, ok := a.sum[fn]; ok {
		if !s.done {
			return nil // recursion: in progress
		}
		return s
	}
	s := &stSummary{written: map[int][]stSink{}, results: map[int]map[ssa.Value]bool{}}
	a.sum[fn] = s
	if a.depth > 6 {
		s.done = true
		return s
	}
	a.depth++
	defer func() { a.depth-- }()
	for _, h := range a.hits(fn) {
		for o := range h.origins {
			if p, ok := o.(*ssa.Parameter); ok && p.Parent() == fn {
				for i, fp := range fn.Params {
					if fp == p {
						s.written[i] = append(s.written[i], h.sink)
					}
				}
			}
		}
	}
	ssau.AllInstrs(fn, func(in ssa.Instruction) {
		r, ok := in.(*ssa.Return)
		if !ok {
			return
		}
		for k, res := range r.Results {
			if !hasRef(res.Type(), 0) {
				continue
			}
			if s.results[k] == nil {
				s.results[k] = map[ssa.Value]bool{}
			}
			for o := range a.originsOf(res) {
				s.results[k][o] = true
			}
		}
	})
	s.done = true
	return s
}

// observed: some value derived from g in fn reaches something other than a write back into g.
func (a *stAnalysis) observed(fn *ssa.Function, g ssa.Value, writes map[ssa.Instruction]bool) (bool, string) {
	derived := map[ssa.Value]bool{}
	for changed := true; changed; {
		changed = false
		ssau.AllInstrs(fn, func(in ssa.Instruction) {
			v, ok := in.(ssa.Value)
			if !ok || derived[v] {
				return
			}
			if c, isCall := in.(*ssa.Call); isCall {
				switch ssau.Builtin(c) {
				case "append", "len", "cap":
				default:
					return
				}
			}
			for _, op := range in.Operands(nil) {
				if *op == nil {
					continue
				}
				if *op == g || derived[*op] {
					derived[v] = true
					changed = true
					return
				}
			}
		})
	}
	found, where := false, ""
	ssau.AllInstrs(fn, func(in ssa.Instruction) {
		if found {
			return
		}
		if writes[in] {
			// a formats/ply callee that writes the storage handed to it may also read it back
			ci, ok := in.(ssa.CallInstruction)
			if !ok {
				return
			}
			cc := ci.Common()
			if sc := cc.StaticCallee(); a.inPly(sc) && !cc.IsInvoke() {
				for i, arg := range cc.Args {
					if i < len(sc.Params) && (arg == g || derived[arg]) && a.paramObserved(sc, i) {
						found, where = true, a.e.IPos(in)+" (inside "+a.e.Name(sc)+")"
					}
				}
			}
			return
		}
		if _, isDbg := in.(*ssa.DebugRef); isDbg {
			return
		}
		if v, ok := in.(ssa.Value); ok && derived[v] {
			return // a derivation step, judged by its own uses
		}
		uses := false
		for _, op := range in.Operands(nil) {
			if *op != nil && (*op == g || derived[*op]) {
				uses = true
			}
		}
		if !uses {
			return
		}
		if st, ok := in.(*ssa.Store); ok {
			// a store back into g's own storage is not an observation
			if a.originsOf(st.Addr)[g] {
				return
			}
		}
		found, where = true, a.e.IPos(in)
	})
	return found, where
}

// paramObserved: the callee observes storage reachable from its i-th parameter (other than by writing it).
func (a *stAnalysis) paramObserved(fn *ssa.Function, i int) bool {
	key := fmt.Sprintf("%p/%d", fn, i)
	if r, ok := a.obsMemo[key]; ok {
		return r
	}
	a.obsMemo[key] = false
	s := a.summary(fn)
	w := map[ssa.Instruction]bool{}
	if s != nil {
		for _, k := range s.written[i] {
			w[k.in] = true
		}
	}
	r, _ := a.observed(fn, fn.Params[i], w)
	a.obsMemo[key] = r
	return r
}

// STATE1 runs the rule over the decode scope.
func STATE1(e *plycommon.Env) {
	a := &stAnalysis{e: e, byName: map[string][]*ssa.Function{}, sum: map[*ssa.Function]*stSummary{}, obsMemo: map[string]bool{}}
	for _, f := range e.All {
		if f.Signature.Recv() != nil {
			a.byName[f.Name()] = append(a.byName[f.Name()], f)
		}
	}
	var scope []*ssa.Function
	for _, fn := range e.DecodeScope() {
		if fn.Name() == "init" || strings.HasPrefix(fn.Name(), "init#") || fn.Synthetic != "" {
			continue
		}
		if e.IsCtl(fn) && !strings.HasPrefix(fn.Name(), "verifControlSTATE1") {
			continue
		}
		scope = append(scope, fn)
	}
	// which functions of the scope refer to which package variable
	refs := map[*ssa.Global][]*ssa.Function{}
	for _, fn := range scope {
		if e.IsCtl(fn) {
			continue
		}
		seen := map[*ssa.Global]bool{}
		ssau.AllInstrs(fn, func(in ssa.Instruction) {
			for _, op := range in.Operands(nil) {
				if g, ok := (*op).(*ssa.Global); ok && g.Pkg == e.Pkg && !seen[g] {
					seen[g] = true
					refs[g] = append(refs[g], fn)
				}
			}
		})
	}
	type wr struct {
		fn *ssa.Function
		h  stHit
	}
	written := map[*ssa.Global][]wr{}
	nFn := 0
	for _, fn := range scope {
		nFn++
		for _, h := range a.hits(fn) {
			for o := range h.origins {
				if g, ok := o.(*ssa.Global); ok {
					written[g] = append(written[g], wr{fn, h})
				}
			}
		}
	}
	e.R.Extra["state1_functions"] = nFn

	obsIn := func(g *ssa.Global, ctl *ssa.Function, ws []wr) (bool, string) {
		wset := map[ssa.Instruction]bool{}
		for _, w := range ws {
			wset[w.h.sink.in] = true
		}
		for _, fn := range scope {
			if ctl != nil && fn != ctl {
				continue
			}
			if ctl == nil && e.IsCtl(fn) {
				continue
			}
			if ok, where := a.observed(fn, g, wset); ok {
				return true, e.Name(fn) + " @" + where
			}
		}
		return false, ""
	}

	var gs []*ssa.Global
	gseen := map[*ssa.Global]bool{}
	for g := range refs {
		if !gseen[g] {
			gseen[g] = true
			gs = append(gs, g)
		}
	}
	for g := range written {
		if !gseen[g] {
			gseen[g] = true
			gs = append(gs, g)
		}
	}
	sort.Slice(gs, func(i, j int) bool { return gs[i].Name() < gs[j].Name() })

	for _, g := range gs {
		// group the writes per function
		perFn := map[*ssa.Function][]wr{}
		var fns []*ssa.Function
		for _, w := range written[g] {
			if perFn[w.fn] == nil {
				fns = append(fns, w.fn)
			}
			perFn[w.fn] = append(perFn[w.fn], w)
		}
		sort.Slice(fns, func(i, j int) bool { return e.Name(fns[i]) < e.Name(fns[j]) })
		repoWritten := false
		for _, fn := range fns {
			ws := perFn[fn]
			var ctl *ssa.Function
			if e.IsCtl(fn) {
				ctl = fn
			} else {
				repoWritten = true
			}
			construct := e.Name(fn) + "→" + g.Name()
			var facts []string
			decided := false
			var first *stSink
			for i := range ws {
				s := ws[i].h.sink
				facts = append(facts, fmt.Sprintf("%s: %s storage of package variable %s", e.IPos(s.in), s.what, g.Name()))
				if !s.unknown && !decided {
					decided = true
					first = &ws[i].h.sink
				}
			}
			sort.Strings(facts)
			obs, where := obsIn(g, ctl, written[g])
			if !obs {
				e.Hold(fn, state1Rule, construct, ws[0].h.sink.in.Pos(), append(facts, "the decoder never observes what is written there")...)
				continue
			}
			facts = append(facts, "observed by the decoder in "+where)
			if !decided {
				e.Undecide(fn, state1Rule, construct, ws[0].h.sink.in.Pos(),
					"package-level storage that the decoder reads is "+ws[0].h.sink.what+": cannot tell whether it is written", facts...)
				continue
			}
			e.Violate(fn, state1Rule, construct, first.in.Pos(),
				"decode state lives in package variable "+g.Name()+": "+first.what+" — the decoder writes package-level storage and reads it back, so what one load sees depends on other loads in the process (earlier ones, or ones running at the same time on another goroutine) and not only on the file's bytes",
				facts...)
		}
		if !repoWritten && len(refs[g]) > 0 {
			var names []string
			for _, fn := range refs[g] {
				names = append(names, e.Name(fn))
			}
			sort.Strings(names)
			e.Hold(nil, state1Rule, "decode→"+g.Name(), g.Pos(),
				fmt.Sprintf("read by %d decode function(s): %s; no store, map update, append/copy/clear/delete, filling callee or writing helper reaches its storage", len(names), strings.Join(names, ", ")))
		}
	}
	// the scope as a whole (so that the rule is not vacuous when no package variable is referenced at all)
	if nRepo := len(scope); nRepo > 0 {
		e.Hold(nil, state1Rule, "decode-scope", scope[0].Pos(), fmt.Sprintf("%d functions reachable from the reader entry points examined for writes to package-level storage", nFn))
	}
	e.CtlDone(state1Rule, "STATE1")
}
