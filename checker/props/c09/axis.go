package c09

import (
	"fmt"
	"go/token"
	"go/types"
	"sort"
	"strings"

	"golang.org/x/tools/go/ssa"

	"polycheck/ob"
	"polycheck/props"
	"polycheck/ssau"
)

// AXIS engine (DESIGN 3.11), def-use over SSA.
//
// Every scalar value carries a set of axis tags {X,Y,Z} (from reads of
// modeling.VectorInt.X/Y/Z and calls of vector3.Vector.X()/Y()/Z()) and a set of
// *roots*: integer parameters and integer loop variables, i.e. grid coordinates
// whose axis is not written in their definition (`for x := 0; …`). Tags and
// roots flow through arithmetic, conversions, phis, pure math calls and
// summarised in-package helpers. A positional slot of axis a (vector3.New,
// VectorInt{…} fields, index(x,y,z), a helper parameter that itself reaches such
// a slot) must not receive a value tagged with another axis (AXIS-1), and one
// root must not reach slots of two different axes (AXIS-1 on the minority slots).
// Comparisons, and the condition that selects between two values of one axis,
// must talk about that axis (AXIS-2).

type axset uint8

const (
	axX axset = 1 << iota
	axY
	axZ
	axAll = axX | axY | axZ
)

func (a axset) String() string {
	var s []string
	for i, n := range []string{"X", "Y", "Z"} {
		if a&(1<<uint(i)) != 0 {
			s = append(s, n)
		}
	}
	if len(s) == 0 {
		return "∅"
	}
	return strings.Join(s, "")
}

func (a axset) single() (int, bool) {
	switch a {
	case axX:
		return 0, true
	case axY:
		return 1, true
	case axZ:
		return 2, true
	}
	return -1, false
}

type axval struct {
	tags  axset
	roots map[ssa.Value]bool
}

func (v axval) empty() bool { return v.tags == 0 && len(v.roots) == 0 }

func (v axval) union(o axval) axval {
	out := axval{tags: v.tags | o.tags}
	if len(v.roots)+len(o.roots) > 0 {
		out.roots = map[ssa.Value]bool{}
		for r := range v.roots {
			out.roots[r] = true
		}
		for r := range o.roots {
			out.roots[r] = true
		}
	}
	return out
}

func (v axval) equal(o axval) bool {
	if v.tags != o.tags || len(v.roots) != len(o.roots) {
		return false
	}
	for r := range v.roots {
		if !o.roots[r] {
			return false
		}
	}
	return true
}

type axSummary struct {
	demand   map[int]int  // param index -> axis it must carry
	retFlows map[int]bool // params whose value flows into the (scalar) result
	linked   [][2]int     // params compared with each other inside
}

type axSink struct {
	fn    *ssa.Function
	kind  string // "index", "vector3.New", "VectorInt", helper name
	ord   int
	axis  int
	val   ssa.Value
	pos   token.Pos
	v     axval
	isCtl bool
}

type axisEngine struct {
	dead  map[*ssa.Call]bool // calls whose result only feeds a store that is overwritten before every read
	c     *props.Ctx
	p     *c09path
	sums  map[*ssa.Function]*axSummary
	viFld map[*types.Var]int // VectorInt field object -> axis
	sinks []*axSink
	viol  map[*ssa.Function]int
}

type axisOutcome struct {
	viol     map[*ssa.Function]int
	analysed map[*ssa.Function]bool
}

func axisRules(c *props.Ctx, p *c09path, dead map[*ssa.Call]bool) *axisOutcome {
	e := &axisEngine{c: c, p: p, dead: dead, sums: map[*ssa.Function]*axSummary{}, viFld: map[*types.Var]int{}, viol: map[*ssa.Function]int{}}
	mp := c.P.Pkg("modeling")
	if mp == nil {
		c.R.Failf("anchor package modeling not found")
		return nil
	}
	vi, _ := mp.Types.Scope().Lookup("VectorInt").(*types.TypeName)
	if vi == nil {
		c.R.Failf("anchor type modeling.VectorInt not found")
		return nil
	}
	st, ok := vi.Type().Underlying().(*types.Struct)
	if !ok {
		c.R.Failf("modeling.VectorInt is not a struct")
		return nil
	}
	for i := 0; i < st.NumFields(); i++ {
		switch st.Field(i).Name() {
		case "X":
			e.viFld[st.Field(i)] = 0
		case "Y":
			e.viFld[st.Field(i)] = 1
		case "Z":
			e.viFld[st.Field(i)] = 2
		}
	}
	if len(e.viFld) != 3 {
		c.R.Failf("modeling.VectorInt no longer has fields X, Y, Z")
		return nil
	}
	// scope: functions on the C09 path (minus index, whose body mixes axes by design) + control functions
	var fns []*ssa.Function
	for _, fn := range p.order {
		if fn != p.index {
			fns = append(fns, fn)
		}
	}
	sp := c.P.SSAPkg(pkgRel)
	for _, fn := range sortedFuncs(c, sp) {
		if c.P.IsControl(fn.Pos()) && strings.HasPrefix(fn.Name(), "verifControlAxis") {
			fns = append(fns, fn)
		}
	}
	// callee-first order
	done := map[*ssa.Function]bool{}
	inScope := map[*ssa.Function]bool{}
	for _, fn := range fns {
		inScope[fn] = true
	}
	var order []*ssa.Function
	var visit func(fn *ssa.Function, stack map[*ssa.Function]bool)
	visit = func(fn *ssa.Function, stack map[*ssa.Function]bool) {
		if done[fn] || stack[fn] {
			return
		}
		stack[fn] = true
		ssau.AllInstrs(fn, func(in ssa.Instruction) {
			if call, ok := in.(ssa.CallInstruction); ok {
				if cal := call.Common().StaticCallee(); cal != nil && inScope[cal] {
					visit(cal, stack)
				}
			}
		})
		delete(stack, fn)
		done[fn] = true
		order = append(order, fn)
	}
	for _, fn := range fns {
		visit(fn, map[*ssa.Function]bool{})
	}
	for _, fn := range order {
		e.analyse(fn)
	}
	// report sinks
	sort.SliceStable(e.sinks, func(i, j int) bool { return posLess(c.P.Fset, e.sinks[i].pos, e.sinks[j].pos) })
	n := 0
	for _, fn := range order {
		if !c.P.IsControl(fn.Pos()) {
			n++
		}
	}
	c.R.Extra["axis_functions"] = n
	var names []string
	for _, fn := range p.order {
		names = append(names, c.P.FuncName(fn))
	}
	c.R.Extra["c09_path_functions"] = names
	an := map[*ssa.Function]bool{}
	for _, fn := range order {
		an[fn] = true
	}
	return &axisOutcome{viol: e.viol, analysed: an}
}

func (e *axisEngine) fieldAxis(v ssa.Value) (int, bool) {
	f := ssau.FieldOf(v)
	if f == nil {
		return 0, false
	}
	a, ok := e.viFld[f]
	return a, ok
}

func isRootCandidate(fn *ssa.Function, v ssa.Value, loops []*ssau.Loop) bool {
	if !isInt(v.Type()) {
		return false
	}
	switch x := v.(type) {
	case *ssa.Parameter:
		return true
	case *ssa.Phi:
		for _, l := range loops {
			if l.Header == x.Block() {
				for i := range x.Edges {
					if l.Blocks[x.Block().Preds[i]] {
						return true
					}
				}
			}
		}
	}
	return false
}

var pureMath1 = map[string]bool{"Floor": true, "Ceil": true, "Round": true, "Trunc": true, "Abs": true, "RoundToEven": true}
var pureMath2 = map[string]bool{"Min": true, "Max": true}

func (e *axisEngine) analyse(fn *ssa.Function) {
	c := e.c
	isCtl := c.P.IsControl(fn.Pos())
	loops := ssau.Loops(fn)
	val := map[ssa.Value]axval{}
	get := func(v ssa.Value) axval { return val[v] }
	paramIdx := map[ssa.Value]int{}
	for i, p := range fn.Params {
		paramIdx[p] = i
	}
	// fixpoint
	for iter := 0; iter < 50; iter++ {
		changed := false
		set := func(v ssa.Value, nv axval) {
			if isRootCandidate(fn, v, loops) {
				nv = nv.union(axval{roots: map[ssa.Value]bool{v: true}})
			}
			if !val[v].equal(nv) {
				val[v] = nv
				changed = true
			}
		}
		for _, p := range fn.Params {
			set(p, axval{})
		}
		for _, b := range fn.Blocks {
			for _, in := range b.Instrs {
				v, ok := in.(ssa.Value)
				if !ok {
					continue
				}
				switch x := in.(type) {
				case *ssa.Phi:
					var u axval
					for _, ed := range x.Edges {
						u = u.union(get(ed))
					}
					set(x, u)
				case *ssa.BinOp:
					switch x.Op {
					case token.ADD, token.SUB, token.MUL, token.QUO, token.REM:
						if isNumeric(x.Type()) {
							set(x, get(x.X).union(get(x.Y)))
						}
					}
				case *ssa.Convert:
					if isNumeric(x.Type()) {
						set(x, get(x.X))
					}
				case *ssa.ChangeType:
					set(x, get(x.X))
				case *ssa.UnOp:
					switch x.Op {
					case token.SUB:
						set(x, get(x.X))
					case token.MUL:
						if a, ok := e.fieldAxis(x.X); ok {
							set(x, axval{tags: 1 << uint(a)})
						}
					}
				case *ssa.Field:
					if a, ok := e.fieldAxis(x); ok {
						set(x, axval{tags: 1 << uint(a)})
					}
				case *ssa.Call:
					obj := ssau.CalleeObj(x)
					switch {
					case obj != nil && ssau.RecvNamed(obj) != nil && ssau.IsNamed(ssau.RecvNamed(obj), vec3Path, "Vector") && (obj.Name() == "X" || obj.Name() == "Y" || obj.Name() == "Z"):
						set(x, axval{tags: 1 << uint(obj.Name()[0]-'X')})
					case obj != nil && obj.Pkg() != nil && obj.Pkg().Path() == "math" && pureMath1[obj.Name()] && len(x.Call.Args) == 1:
						set(x, get(x.Call.Args[0]))
					case obj != nil && obj.Pkg() != nil && obj.Pkg().Path() == "math" && pureMath2[obj.Name()] && len(x.Call.Args) == 2:
						set(x, get(x.Call.Args[0]).union(get(x.Call.Args[1])))
					case ssau.Builtin(x) == "min" || ssau.Builtin(x) == "max":
						var u axval
						for _, a := range x.Call.Args {
							u = u.union(get(a))
						}
						set(x, u)
					default:
						if cal := x.Call.StaticCallee(); cal != nil {
							if sum := e.sums[cal]; sum != nil && isNumeric(x.Type()) {
								var u axval
								off := len(x.Call.Args) - len(cal.Params)
								for i := range cal.Params {
									if sum.retFlows[i] && i+off >= 0 {
										u = u.union(get(x.Call.Args[i+off]))
									}
								}
								set(x, u)
							}
						}
					}
				}
				_ = v
			}
		}
		if !changed {
			break
		}
	}

	// sinks
	type vote struct {
		axis int
		sink *axSink
	}
	votes := map[ssa.Value][]vote{}
	ords := map[string]int{}
	var local []*axSink
	sink := func(kind string, axis int, v ssa.Value, pos token.Pos) {
		ok := fmt.Sprintf("%s.%d", kind, axis)
		ords[ok]++
		s := &axSink{fn: fn, kind: kind, ord: ords[ok] - 1, axis: axis, val: v, pos: pos, v: get(v), isCtl: isCtl}
		local = append(local, s)
		for r := range s.v.roots {
			votes[r] = append(votes[r], vote{axis, s})
		}
	}
	type cmpNote struct {
		pos token.Pos
		msg string
		key string
	}
	var cmpViol []cmpNote
	cmpN := 0
	compareVote := func(x, y ssa.Value, pos token.Pos, what string) {
		a, b := get(x), get(y)
		if a.tags == 0 && b.tags == 0 {
			return
		}
		cmpN++
		sa, oka := a.tags.single()
		sb, okb := b.tags.single()
		if oka && okb && sa != sb {
			cmpViol = append(cmpViol, cmpNote{pos, fmt.Sprintf("%s relates a %s value with a %s value", what, a.tags, b.tags), fmt.Sprintf("cmp#%d", cmpN)})
			return
		}
		// a tagged side votes for the roots of the other side
		if oka && b.tags == 0 {
			for r := range b.roots {
				votes[r] = append(votes[r], vote{sa, &axSink{fn: fn, kind: what, axis: sa, val: y, pos: pos, v: b, isCtl: isCtl, ord: -1}})
			}
		}
		if okb && a.tags == 0 {
			for r := range a.roots {
				votes[r] = append(votes[r], vote{sb, &axSink{fn: fn, kind: what, axis: sb, val: x, pos: pos, v: a, isCtl: isCtl, ord: -1}})
			}
		}
	}
	for _, b := range fn.Blocks {
		for _, in := range b.Instrs {
			switch x := in.(type) {
			case *ssa.Store:
				if a, ok := e.fieldAxis(x.Addr); ok {
					sink("VectorInt", a, x.Val, x.Pos())
					// conditional override of one component: the guard must talk about the same axis
					if get(x.Val).empty() {
						if fa, ok := x.Addr.(*ssa.FieldAddr); ok {
							if al, ok := fa.X.(*ssa.Alloc); ok && overrides(al, fa.Field, x) {
								if iff, _, ok := guardOf(x.Block()); ok {
									if cmp, ok := iff.Cond.(*ssa.BinOp); ok {
										t := get(cmp.X).tags | get(cmp.Y).tags
										if t != 0 && t&(1<<uint(a)) == 0 {
											cmpN++
											cmpViol = append(cmpViol, cmpNote{x.Pos(), fmt.Sprintf("component %c is overridden under a condition on %s", "XYZ"[a], t), fmt.Sprintf("override#%c", "XYZ"[a])})
										}
									}
								}
							}
						}
					}
				}
			case *ssa.BinOp:
				switch x.Op {
				case token.EQL, token.NEQ, token.LSS, token.LEQ, token.GTR, token.GEQ:
					if isNumeric(x.X.Type()) {
						compareVote(x.X, x.Y, x.Pos(), "comparison")
					}
				}
			case *ssa.Phi:
				// selection between two values of one axis: the deciding condition votes / must agree
				if isRootCandidate(fn, x, loops) || !isNumeric(x.Type()) || len(x.Edges) != 2 {
					continue
				}
				t := get(x).tags
				a, ok := t.single()
				if !ok || x.Edges[0] == x.Edges[1] {
					continue
				}
				idom := x.Block().Idom()
				if idom == nil || len(idom.Instrs) == 0 {
					continue
				}
				iff, ok := idom.Instrs[len(idom.Instrs)-1].(*ssa.If)
				if !ok {
					continue
				}
				cmp, ok := iff.Cond.(*ssa.BinOp)
				if !ok || !isNumeric(cmp.X.Type()) {
					continue
				}
				ct := get(cmp.X).union(get(cmp.Y))
				if ct.tags != 0 && ct.tags&(1<<uint(a)) == 0 {
					cmpN++
					cmpViol = append(cmpViol, cmpNote{cmp.Pos(), fmt.Sprintf("a %c value is selected under a condition on %s", "XYZ"[a], ct.tags), fmt.Sprintf("select#%s", x.Comment)})
				}
				if ct.tags == 0 {
					for r := range ct.roots {
						votes[r] = append(votes[r], vote{a, &axSink{fn: fn, kind: "condition selecting a " + string("XYZ"[a]) + " value", axis: a, val: cmp, pos: cmp.Pos(), v: ct, isCtl: isCtl, ord: -1}})
					}
				}
			case *ssa.Call:
				obj := ssau.CalleeObj(x)
				args := x.Call.Args
				switch {
				case isVec3New(x) && len(args) == 3:
					for a := 0; a < 3; a++ {
						sink("vector3.New", a, args[a], x.Pos())
					}
				case x.Call.StaticCallee() == e.p.index && len(args) >= 3:
					if e.dead[x] {
						break
					}
					for a := 0; a < 3; a++ {
						sink("index", a, args[len(args)-3+a], x.Pos())
					}
				case obj != nil && ssau.RecvNamed(obj) != nil && ssau.IsNamed(ssau.RecvNamed(obj), vec3Path, "Vector") && (obj.Name() == "SetX" || obj.Name() == "SetY" || obj.Name() == "SetZ") && len(args) == 2:
					sink("vector3.Set", int(obj.Name()[3]-'X'), args[1], x.Pos())
				default:
					if cal := x.Call.StaticCallee(); cal != nil {
						if sum := e.sums[cal]; sum != nil {
							off := len(args) - len(cal.Params)
							var idxs []int
							for i := range sum.demand {
								idxs = append(idxs, i)
							}
							sort.Ints(idxs)
							for _, i := range idxs {
								if i+off >= 0 {
									sink(cal.Name(), sum.demand[i], args[i+off], x.Pos())
								}
							}
						}
					}
				}
			}
		}
	}

	// decide
	name := c.P.FuncName(fn)
	bad := map[*axSink]string{}
	for _, s := range local {
		if s.v.tags != 0 && s.v.tags != axAll && s.v.tags != 1<<uint(s.axis) {
			bad[s] = fmt.Sprintf("slot %c of %s receives a value derived from %s components", "XYZ"[s.axis], s.kind, s.v.tags)
		}
	}
	var roots []ssa.Value
	for r := range votes {
		roots = append(roots, r)
	}
	sort.Slice(roots, func(i, j int) bool {
		return roots[i].Pos() < roots[j].Pos() || roots[i].Pos() == roots[j].Pos() && roots[i].Name() < roots[j].Name()
	})
	sum := &axSummary{demand: map[int]int{}, retFlows: map[int]bool{}}
	rootAxis := map[ssa.Value]int{}
	for _, r := range roots {
		cnt := [3]int{}
		for _, v := range votes[r] {
			cnt[v.axis]++
		}
		best, second := -1, -1
		for a := 0; a < 3; a++ {
			if best < 0 || cnt[a] > cnt[best] {
				second = best
				best = a
			} else if second < 0 || cnt[a] > cnt[second] {
				second = a
			}
		}
		nax := 0
		for a := 0; a < 3; a++ {
			if cnt[a] > 0 {
				nax++
			}
		}
		if nax == 1 {
			rootAxis[r] = best
			if i, ok := paramIdx[r]; ok {
				sum.demand[i] = best
			}
			continue
		}
		tie := cnt[best] == cnt[second]
		rn := rootName(r)
		for _, v := range votes[r] {
			if v.axis == best && !tie {
				continue
			}
			msg := fmt.Sprintf("grid coordinate %s is used as %c here but as %c in %d other places of the function", rn, "XYZ"[v.axis], "XYZ"[best], cnt[best])
			if tie {
				msg = fmt.Sprintf("grid coordinate %s is used for several axes (X:%d Y:%d Z:%d uses)", rn, cnt[0], cnt[1], cnt[2])
			}
			if v.sink.ord >= 0 {
				if bad[v.sink] == "" {
					bad[v.sink] = msg
				}
			} else {
				cmpN++
				cmpViol = append(cmpViol, cmpNote{v.sink.pos, msg + " (" + v.sink.kind + ")", fmt.Sprintf("root:%s#%d", rn, cmpN)})
			}
		}
	}
	// summary: which params flow to the result
	for _, b := range fn.Blocks {
		for _, in := range b.Instrs {
			if ret, ok := in.(*ssa.Return); ok {
				for _, r := range ret.Results {
					if !isNumeric(r.Type()) {
						continue
					}
					for root := range get(r).roots {
						if i, ok := paramIdx[root]; ok {
							sum.retFlows[i] = true
						}
					}
				}
			}
			if cmp, ok := in.(*ssa.BinOp); ok {
				switch cmp.Op {
				case token.EQL, token.NEQ, token.LSS, token.LEQ, token.GTR, token.GEQ:
					i, ok1 := paramIdx[cmp.X]
					j, ok2 := paramIdx[cmp.Y]
					if ok1 && ok2 && i != j {
						sum.linked = append(sum.linked, [2]int{i, j})
					}
				}
			}
		}
	}
	e.sums[fn] = sum

	// record
	if isCtl {
		n := len(cmpViol)
		for range bad {
			n++
		}
		e.viol[fn] = n
		return
	}
	for _, s := range local {
		key := fmt.Sprintf("%s→%s#%d.%c", name, s.kind, s.ord, "xyz"[s.axis])
		if m, isBad := bad[s]; isBad {
			e.viol[fn]++
			c.R.Violate("AXIS-1", key, c.P.Pos(s.pos), m, "value: "+describe(s.v))
		} else if s.v.empty() {
			c.R.Hold("AXIS-1", key, c.P.Pos(s.pos))
		} else {
			c.R.Hold("AXIS-1", key, c.P.Pos(s.pos), "receives "+describe(s.v)+rootNote(s.v, rootAxis))
		}
	}
	for _, n := range cmpViol {
		e.viol[fn]++
		c.R.Violate("AXIS-2", name+"→"+n.key, c.P.Pos(n.pos), n.msg)
	}
	if len(cmpViol) == 0 && cmpN > 0 {
		c.R.Hold("AXIS-2", name, c.P.Pos(fn.Pos()), fmt.Sprintf("%d comparisons / selections / overrides relate values of one axis only", cmpN))
	}
	e.sinks = append(e.sinks, local...)
}

func rootNote(v axval, rootAxis map[ssa.Value]int) string {
	var parts []string
	for r := range v.roots {
		if a, ok := rootAxis[r]; ok {
			parts = append(parts, fmt.Sprintf("%s is %c everywhere", rootName(r), "XYZ"[a]))
		}
	}
	sort.Strings(parts)
	if len(parts) == 0 {
		return ""
	}
	return " (" + strings.Join(parts, ", ") + ")"
}

func rootName(r ssa.Value) string {
	switch x := r.(type) {
	case *ssa.Parameter:
		return "parameter " + x.Name()
	case *ssa.Phi:
		if x.Comment != "" {
			return "loop variable " + x.Comment
		}
	}
	return r.Name()
}

func describe(v axval) string {
	var parts []string
	if v.tags != 0 {
		parts = append(parts, "tags "+v.tags.String())
	}
	var rs []string
	for r := range v.roots {
		rs = append(rs, rootName(r))
	}
	sort.Strings(rs)
	if len(rs) > 0 {
		parts = append(parts, strings.Join(rs, ", "))
	}
	if len(parts) == 0 {
		return "an axis-neutral value"
	}
	return strings.Join(parts, "; ")
}

// overrides: st writes field f of local struct al, and another store to the same field
// (or to the whole struct) dominates it.
func overrides(al *ssa.Alloc, f int, st *ssa.Store) bool {
	for _, r := range ssau.Refs(al) {
		switch u := r.(type) {
		case *ssa.Store:
			if u.Addr == al && u != st && ssau.Before(u, st) {
				return true
			}
		case *ssa.FieldAddr:
			if u.Field != f {
				continue
			}
			for _, rr := range ssau.Refs(u) {
				if o, ok := rr.(*ssa.Store); ok && o.Addr == u && o != st && ssau.Before(o, st) {
					return true
				}
			}
		}
	}
	return false
}

var _ = ob.Holds
