// Package c09: marching cubes yields a closed, outward-oriented surface on the
// isosurface — the table-level and structural clauses (DESIGN.md section 4, C09).
package c09

import (
	"fmt"
	"go/token"
	"go/types"
	"os"
	"sort"
	"strings"

	"golang.org/x/tools/go/ssa"

	"polycheck/eng"
	"polycheck/ob"
	"polycheck/props"
	"polycheck/ssau"
)

func init() {
	props.Register(&props.Prop{
		ID: "C09",
		Explanation: "Marching cubes, decided on source. TAB-0..5: the 256-row case table, the two edge→corner tables and the per-corner lists " +
			"are read from the type-checked AST / SSA of modeling/marching (never written outside their initialisers) and evaluated exhaustively " +
			"(256 cases × 6 faces, for each function that walks the table): edges join corners differing in one axis of the code's own corner " +
			"layout; every row's triangles use exactly the sign-changing edges, no directed edge twice, every open edge lies on one cube face, the " +
			"open segments on a face are a function of that face's four signs and the opposite face under the same signs carries the reversed set " +
			"(any two face-adjacent cells close against each other); orientation is outward for the polarity, bit assignment and emission order the " +
			"code actually uses; POL-1: a sample equal to the threshold is outside (zero-filled blocks, threshold 0). TAB-4: positions, sample index " +
			"offsets, neighbour block flags and increments enumerate the corners in the order the tables assume. PAIR-1/SYM-ALG: every emitted vertex " +
			"is the affine interpolant of the two corners of one edge entry (rational-function identity). AXIS-1/2: x/y/z components reach index(), " +
			"VectorInt{} and vector3.New in axis order on the AddField+March path. XB-1..7: the corner fetch across block boundaries pairs each axis " +
			"with itself, selects the neighbour exactly on the last cell, skips a cell only when a neighbour is missing. CELL-1: no decision that keeps " +
			"a cell, a row or a whole block from reaching the case-table walk depends on stored samples other than that cell's own eight corner samples " +
			"(a block whose own samples are all outside still owns cells whose far corners lie in the next block). SYM-STRIDE: index() is a " +
			"bijection onto the S³ cells of a block and every S in the code agrees; writer and reader place a sample at the same world cell. " +
			"CHUNK-1/RANGE-1/2/ALLOC-1: floor-division block coordinates, per-block clamps and the block list cover exactly the padded domain; the " +
			"block allocator is a correct lookup-or-add. PAD-1/2: one padding cell on each side on all axes. MERGE-1/WELD-1/SHARE-1/SCALE-1: vertices " +
			"shared by position in a block, all blocks merged, welded on the marched attribute, scaled by the sampling factor. FIELD-IDX/TREE/ALL/CAP: " +
			"in fields assembled from members through an octree query (CombineFields, MultiSegmentLine) the per-member tables are subscripted with " +
			"the element ids read from the query result (never the position in the hit list or a constant), the tree is built over exactly those " +
			"members in table order, every hit is folded, and the closure sees the table and tree of the iteration that created it. FIELD-OUT: what such " +
			"a field reports where no member applies, and what a fresh canvas block holds, is a finite constant on the outside of the sign convention " +
			"(SYM-ALG's interpolation identity holds for finite samples only: an infinite sample gives Inf/Inf = NaN vertices). COMB-1: the fold over the " +
			"members containing the point leaves only through its counter test and folds with min. DOM-1: the domain a field constructor declares does " +
			"not depend on the order of the defining points (no signed point difference as a size) and a box of the defining points is widened by at " +
			"least the radius. SDF-REF: the distance functions the constructors call are those C19 decides, or compositions of them. Not decided: geometric " +
			"closeness for non-linear fields, decimal rounding merging distinct vertices at high resolution, degenerate triangles when a sample equals " +
			"the threshold, whether a shape's declared domain really contains its inside, numeric volume, the parallel variants (C10).",
		Assumptions: []string{
			"EliCDavis/vector's Add/Sub/Scale/DivByConstant/Lerp/Midpoint act component-wise (taken from the published API, not re-derived)",
			"real arithmetic: the interpolant identity is decided over the rationals, not over float64",
			"a trees query answers with positions of the slice the tree was constructed from (C16 IDENT-1)",
			"scalar and size parameters of the field constructors (radius, strength, size) are non-negative magnitudes (caller's contract)",
			"the closed forms of math/sdf are C19's (SDF-FORM / SDF-OP); C09 only checks that marching calls nothing outside C19's table",
		},
		Controls: controls,
		Run:      run,
	})
}

const pkgRel = "modeling/marching"

type ctlOutcome struct {
	viol  map[string]int
	undec int
}

func run(c *props.Ctx) {
	funcsCache = map[*ssa.Package][]*ssa.Function{}
	siteCache = map[*ssa.Function]*ssa.Call{}
	sp := c.P.SSAPkg(pkgRel)
	if sp == nil {
		c.R.Failf("anchor package %s not found", pkgRel)
		return
	}
	// the C09 path: what AddField / March reach inside the package
	path := c09Path(c, sp)
	if path == nil {
		return
	}
	t := loadTables(c, path)
	if t == nil {
		return
	}
	tab0(c, t, sp)

	sites := findSites(c, t)
	onPath := 0
	ctl := map[string]*site{}
	var blockSite *site
	var allSites []*site
	for _, fn := range sites {
		s := analyseSite(c, t, fn)
		allSites = append(allSites, s)
		if s.ctl {
			ctl[fn.Name()] = s
			continue
		}
		if path.canvas[fn] {
			onPath++
		}
		if s.ok {
			runTables(c, t, s)
		}
		if path.fns[fn] && s.P != nil && s.D != nil && s.I != nil {
			crossBlock(c, s, path)
			if path.canvas[fn] {
				blockSite = s
			}
		}
	}
	if onPath == 0 {
		c.R.Failf("anchor: MarchingCanvas.March no longer reaches a function that walks the case table `triangulation` (static calls inside %s)", pkgRel)
	}
	c.R.Extra["march_sites"] = len(sites) - len(ctl)
	c.R.Extra["march_sites_on_canvas_path"] = onPath

	dead := map[*ssa.Call]bool{}
	for _, s := range allSites {
		for call := range s.deadCalls {
			if len(ssau.Refs(call)) == 1 {
				dead[call] = true
			}
		}
	}
	ax := axisRules(c, path, dead)
	strideRules(c, path, blockSite)
	padRule(c, path, allSites)
	weldRules(c, path, blockSite)
	cellRule(c, blockSite)
	engineSelfTest(c, t)
	siteControls(c, ctl, ax)
	fieldIdxRules(c, sp, blockSite == nil || blockSite.inside)
	domainRules(c, sp)
	dump(c)

	// vacuity floors guard a *passing* run against rules that silently match nothing; when something is
	// already reported, downstream rules legitimately did not run and the floors would only add noise
	for _, o := range c.R.Obs {
		if !o.Control && o.Verdict != ob.Holds && !strings.HasPrefix(o.Rule, "FIELD-") && o.Rule != "DOM-1" && o.Rule != "COMB-1" && o.Rule != "SDF-REF" {
			c.R.Note("vacuity floors not applied: the run already reports %s %s", o.Rule, o.Construct)
			return
		}
	}
	c.R.Floor("TAB-0", 3)
	c.R.Floor("TAB-1", 12)
	c.R.Floor("TAB-2", 256)
	c.R.Floor("TAB-3", 200)
	c.R.Floor("TAB-4", 40)
	c.R.Floor("TAB-5", 8)
	c.R.Floor("PAIR-1", 3)
	c.R.Floor("SYM-ALG", 3)
	c.R.Floor("AXIS-1", 100)
	c.R.Floor("AXIS-2", 2)
	c.R.Floor("SYM-STRIDE", 5)
	c.R.Floor("PAD-1", 6)
	c.R.Floor("XB-1", 3)
	c.R.Floor("XB-2", 3)
	c.R.Floor("XB-3", 8)
	c.R.Floor("XB-5", 3)
	c.R.Floor("XB-6", 1)
	c.R.Floor("XB-7", 2)
	c.R.Floor("CELL-1", 10)
	c.R.Floor("POL-1", 1)
	c.R.Floor("CHUNK-1", 2)
	c.R.Floor("RANGE-1", 8)
	c.R.Floor("RANGE-2", 3)
	c.R.Floor("ALLOC-1", 1)
	c.R.Floor("SCALE-1", 1)
	c.R.Floor("WELD-1", 1)
	c.R.Floor("SHARE-1", 1)
	c.R.Floor("MERGE-1", 1)
	weldDegenerate(c)
}

// weldDegenerate (DEGEN-1, shared engine): the stitch pass of March — Mesh.WeldByFloat3Attribute — drops a welded
// triangle exactly when two of its corners fall into one weld cell; a degenerate face that survives the weld is a
// doubly used / unpaired edge in the marched surface.
func weldDegenerate(c *props.Ctx) {
	fn := c.P.Func("modeling", "Mesh.WeldByFloat3Attribute")
	if fn == nil {
		c.R.Failf("anchor modeling.Mesh.WeldByFloat3Attribute (stitch pass of March) not found")
		return
	}
	modelingPath := fn.Pkg.Pkg.Path()
	isKey := func(o types.Object) bool {
		f, ok := o.(*types.Func)
		return ok && ssau.IsFunc(f, modelingPath, "Vector3ToInt")
	}
	r := eng.AnalyseDegenerateDrop(fn, isKey)
	for i, f := range r.Findings {
		construct := fmt.Sprintf("%s#%d", c.P.FuncName(fn), i+1)
		pos := c.P.Pos(fn.Pos())
		if f.At != nil {
			pos = c.P.Pos(ssau.PosOf(f.At))
		}
		if f.OK {
			c.R.Hold(f.Rule, construct, pos, f.Detail)
		} else {
			c.R.Violate(f.Rule, construct, pos, f.Detail)
		}
	}
	c.R.Floor("DEGEN-1", 1)
}

// ---------------------------------------------------------------------------
// TAB-0: the tables are what their initialisers say (never written elsewhere)

func tab0(c *props.Ctx, t *tables, sp *ssa.Package) {
	globals := map[*ssa.Global]string{t.gTri: t.gTri.Name(), t.gA: t.gA.Name(), t.gB: t.gB.Name()}
	bad := map[*ssa.Global]string{}
	badPos := map[*ssa.Global]token.Pos{}
	reads := map[*ssa.Global]int{}
	for _, fn := range sortedFuncs(c, sp) {
		if c.P.IsControl(fn.Pos()) {
			continue
		}
		// derived: values that are (addresses into / slices of) a table
		derived := map[ssa.Value]*ssa.Global{}
		for g := range globals {
			derived[g] = g
		}
		changed := true
		for changed {
			changed = false
			ssau.AllInstrs(fn, func(in ssa.Instruction) {
				v, ok := in.(ssa.Value)
				if !ok || derived[v] != nil {
					return
				}
				var src ssa.Value
				switch x := in.(type) {
				case *ssa.IndexAddr:
					src = x.X
				case *ssa.Slice:
					src = x.X
				case *ssa.UnOp:
					if x.Op == token.MUL {
						if g := derived[x.X]; g != nil {
							// loading a slice header / row keeps aliasing the table; loading an int does not
							switch x.Type().Underlying().(type) {
							case *types.Slice, *types.Array:
								src = x.X
							}
						}
					}
				case *ssa.Phi:
					for _, e := range x.Edges {
						if derived[e] != nil {
							src = e
						}
					}
				case *ssa.ChangeType:
					src = x.X
				}
				if src != nil {
					if g := derived[src]; g != nil {
						derived[v] = g
						changed = true
					}
				}
			})
		}
		ssau.AllInstrs(fn, func(in ssa.Instruction) {
			note := func(g *ssa.Global, how string) {
				if fn.Synthetic != "" && strings.Contains(fn.Synthetic, "package initializer") {
					return
				}
				if bad[g] == "" {
					bad[g] = how + " in " + c.P.FuncName(fn)
					badPos[g] = ssau.PosOf(in)
				}
			}
			switch x := in.(type) {
			case *ssa.Store:
				if g := derived[x.Addr]; g != nil {
					note(g, "written")
				}
				if g := derived[x.Val]; g != nil {
					note(g, "aliased by a store")
				}
			case *ssa.UnOp:
				if g := derived[x.X]; g != nil && x.Op == token.MUL {
					reads[g]++
				}
			case ssa.CallInstruction:
				for i, a := range x.Common().Args {
					if g := derived[a]; g != nil {
						switch ssau.Builtin(x) {
						case "len", "cap":
						case "append", "copy":
							if i == 0 {
								note(g, "destination of "+ssau.Builtin(x))
							}
						default:
							note(g, "passed to a call")
						}
					}
				}
			case *ssa.MakeInterface:
				if g := derived[x.X]; g != nil {
					note(g, "converted to an interface")
				}
			case *ssa.MakeClosure:
				for _, b := range x.Bindings {
					if g := derived[b]; g != nil {
						note(g, "captured by a closure")
					}
				}
			case *ssa.Return:
				for _, r := range x.Results {
					if g := derived[r]; g != nil {
						note(g, "returned")
					}
				}
			}
		})
	}
	var gs []*ssa.Global
	for g := range globals {
		gs = append(gs, g)
	}
	sort.Slice(gs, func(i, j int) bool { return globals[gs[i]] < globals[gs[j]] })
	for _, g := range gs {
		name := pkgRel + "." + globals[g]
		if bad[g] != "" {
			c.R.Violate("TAB-0", name, c.P.Pos(badPos[g]), "the table is "+bad[g]+": its run-time content need not be the initialiser the other TAB rules evaluate")
		} else {
			c.R.Hold("TAB-0", name, c.P.Pos(g.Pos()), fmt.Sprintf("only indexed reads (%d loads) outside the package initialiser", reads[g]))
		}
	}
}

// ---------------------------------------------------------------------------
// table engine per site

func specOf(t *tables, s *site) *cubeSpec {
	return &cubeSpec{Corner: s.corner, EdgeA: t.ea.Flat, EdgeB: t.eb.Flat, Tri: t.tri.Rows, Stop: s.stop, StopS: s.stopS,
		BitVal: s.bitVal, InsideWhenBit: s.inside, Emit: s.emit}
}

const maxRowReports = 12

func runTables(c *props.Ctx, t *tables, s *site) {
	spec := specOf(t, s)
	cb := newCube(spec)
	ef := cb.checkEdges()
	badEdge := map[string]string{}
	for _, f := range ef {
		badEdge[f.Key] = f.Msg
	}
	for e := 0; e < len(t.ea.Flat) || e < len(t.eb.Flat); e++ {
		k := fmt.Sprintf("edge[%d]", e)
		pos := t.ea.Pos
		if e < len(t.ea.RPos) {
			pos = t.ea.RPos[e]
		}
		if m, bad := badEdge[k]; bad {
			s.violate("TAB-1", k, pos, m)
		} else if _, all := badEdge["edges"]; !all && e < len(t.ea.Flat) && e < len(t.eb.Flat) {
			a, b := t.ea.Flat[e], t.eb.Flat[e]
			s.hold("TAB-1", k, pos, fmt.Sprintf("edge %d joins corner %d %v and corner %d %v", e, a, s.corner[a], b, s.corner[b]))
		}
	}
	if m, bad := badEdge["edges"]; bad {
		s.violate("TAB-1", "edges", t.ea.Pos, m)
	}
	if len(ef) > 0 {
		return
	}
	if len(spec.Tri) != 256 {
		s.violate("TAB-2", "triangulation", t.tri.Pos, fmt.Sprintf("the case table has %d rows, the case index ranges over 256 sign patterns", len(spec.Tri)))
		return
	}
	res := cb.run()
	byRow := map[string]map[int][]string{"TAB-2": {}, "TAB-3": {}}
	for _, f := range res.Findings {
		byRow[f.Rule][f.Row] = append(byRow[f.Rule][f.Row], f.Msg)
	}
	for _, rule := range []string{"TAB-2", "TAB-3"} {
		reported := 0
		var rows []int
		for r := range byRow[rule] {
			rows = append(rows, r)
		}
		sort.Ints(rows)
		for cs := 0; cs < 256; cs++ {
			key := fmt.Sprintf("triangulation[%d]", cs)
			msgs := byRow[rule][cs]
			if len(msgs) == 0 {
				if rule == "TAB-3" && res.RowFacts[cs] == "" && len(byRow["TAB-2"][cs]) > 0 {
					continue // row structurally broken: orientation not evaluated
				}
				if rule == "TAB-3" && strings.HasPrefix(res.RowFacts[cs], "0 triangles") {
					continue // nothing to orient
				}
				fact := res.RowFacts[cs]
				if rule == "TAB-3" {
					fact = "every open segment has the outside corners on the normal's side; " + fact
				}
				s.hold(rule, key, t.tri.RPos[cs], fact)
				continue
			}
			reported++
			if reported > maxRowReports {
				continue
			}
			s.violate(rule, key, t.tri.RPos[cs], msgs[0], msgs[1:]...)
		}
		if reported > maxRowReports {
			s.violate(rule, "triangulation:more", t.tri.Pos, fmt.Sprintf("%d further rows fail %s (%d in total; first rows reported individually) — a systematic cause (polarity, bit assignment, corner order, emission order) is likely", reported-maxRowReports, rule, reported))
		}
	}
	if !s.ctl {
		c.R.Extra["tab_triangles:"+s.name] = res.Triangles
		c.R.Extra["tab_face_segments:"+s.name] = res.FaceSegments
		c.R.Extra["tab_face_sign_groups:"+s.name] = res.PairsChecked
	}
	// TAB-5
	tabFail := len(res.Findings) > 0
	for k := 0; k < 8; k++ {
		sub := fmt.Sprintf("caseIndex:corner[%d]", k)
		if s.bitVal[k] == 1<<k {
			s.hold("TAB-5", sub, s.refPos, fmt.Sprintf("corner %d sets bit %d (1<<%d) when its sample is %s the threshold", k, s.bitVal[k], k, map[bool]string{true: "below", false: "not below"}[s.inside]))
		} else if tabFail {
			s.violate("TAB-5", sub, s.refPos, fmt.Sprintf("corner %d sets bit value %d of the case index, the tables assume 1<<%d = %d", k, s.bitVal[k], k, 1<<k))
		} else {
			s.hold("TAB-5", sub, s.refPos, fmt.Sprintf("corner %d sets bit value %d (not 1<<%d) but the tables close and are outward under this numbering", k, s.bitVal[k], k))
		}
	}
	// POL-1: blocks are zero-filled and the threshold may be 0: a sample equal to the threshold must be outside
	insideAtEq := s.flaggedAtEq == s.inside
	switch {
	case s.D != nil && insideAtEq:
		s.violate("POL-1", "caseIndex:boundary", s.refPos, "a sample equal to the threshold counts as inside (non-strict comparison): cells of a block that no field wrote hold 0, so with threshold 0 every untouched cell is solid")
	case s.D != nil:
		s.hold("POL-1", "caseIndex:boundary", s.refPos, "all eight corners use the same strict comparison: the zero of an unwritten cell is outside for every threshold ≤ 0")
	default:
		s.hold("POL-1", "caseIndex:boundary", s.refPos, "all eight corners use the same comparison")
	}
	pol := "sample < threshold ⇒ bit set ⇒ inside"
	if !s.inside {
		pol = "sample ≥ threshold ⇒ bit set ⇒ outside"
	}
	if len(byRow["TAB-3"]) == 0 {
		s.hold("TAB-3", "polarity+emission", s.emitPos, pol, fmt.Sprintf("emitted vertex slots use row entries i+%d, i+%d, i+%d", s.emit[0], s.emit[1], s.emit[2]))
	}
}

// ---------------------------------------------------------------------------
// in-memory self test of the table engine (positive / negative controls that need no overlay)

func engineSelfTest(c *props.Ctx, t *tables) {
	base := &cubeSpec{
		Corner: [8][3]int{{0, 0, 0}, {1, 0, 0}, {1, 0, 1}, {0, 0, 1}, {0, 1, 0}, {1, 1, 0}, {1, 1, 1}, {0, 1, 1}},
		Stop:   func(v int64) bool { return v == -1 }, StopS: "== -1",
		BitVal: [8]int{1, 2, 4, 8, 16, 32, 64, 128}, InsideWhenBit: true, Emit: [3]int{0, 1, 2},
	}
	// a self-contained reference: the 16 rows of the pinned table are not copied here; instead the
	// repository's own tables are mutated in memory, so the control tests the engine, not the data.
	clone := func() *cubeSpec {
		s2 := *base
		s2.Tri = make([][]int64, len(t.tri.Rows))
		for i := range t.tri.Rows {
			s2.Tri[i] = append([]int64{}, t.tri.Rows[i]...)
		}
		s2.EdgeA = append([]int64{}, t.ea.Flat...)
		s2.EdgeB = append([]int64{}, t.eb.Flat...)
		return &s2
	}
	count := func(s *cubeSpec) map[string]int {
		cb := newCube(s)
		out := map[string]int{}
		fs := append(cb.checkLayout(), cb.checkEdges()...)
		if len(fs) == 0 && len(s.Tri) == 256 {
			fs = cb.run().Findings
		}
		for _, f := range fs {
			out[f.Rule]++
		}
		return out
	}
	type exp struct {
		name string
		mut  func(s *cubeSpec)
		rule string
	}
	// rows / edges that pass today: the self test mutates those, so that a defect already present in the
	// repository's tables can neither mask nor undo the seeded mutation
	refSpec := clone()
	refCube := newCube(refSpec)
	refPre := append(refCube.checkLayout(), refCube.checkEdges()...)
	if len(refPre) > 0 || len(refSpec.Tri) != 256 {
		c.R.Note("engine self-test skipped: the repository's edge tables already fail TAB-1 under the reference corner numbering, so row mutations cannot be evaluated")
		return
	}
	badRow := map[int]bool{}
	for _, f := range refCube.run().Findings {
		badRow[f.Row] = true
	}
	goodRow := -1
	for r := range refSpec.Tri {
		row := refSpec.Tri[r]
		if !badRow[r] && len(row) >= 7 && row[0] >= 0 && row[1] >= 0 && row[2] >= 0 && row[3] < 0 {
			goodRow = r
			break
		}
	}
	if goodRow < 0 {
		c.R.Note("engine self-test skipped: no passing single-triangle row to mutate")
		return
	}
	exps := []exp{
		{"swap two entries of a row", func(s *cubeSpec) {
			s.Tri[goodRow][0], s.Tri[goodRow][1] = s.Tri[goodRow][1], s.Tri[goodRow][0]
		}, "TAB-3"},
		{"replace one row entry by another edge", func(s *cubeSpec) {
			s.Tri[goodRow][0] = (s.Tri[goodRow][0] + 1) % 12
			for s.Tri[goodRow][0] == s.Tri[goodRow][1] || s.Tri[goodRow][0] == s.Tri[goodRow][2] {
				s.Tri[goodRow][0] = (s.Tri[goodRow][0] + 1) % 12
			}
		}, "TAB-2"},
		{"row without terminator", func(s *cubeSpec) { s.Tri[goodRow] = s.Tri[goodRow][:3] }, "TAB-2"},
		{"edge table names a diagonal", func(s *cubeSpec) {
			s.EdgeB[5] = 7 - s.EdgeA[5]
		}, "TAB-1"},
		{"inverted polarity", func(s *cubeSpec) { s.InsideWhenBit = !s.InsideWhenBit }, "TAB-3"},
		{"odd emission order", func(s *cubeSpec) { s.Emit = [3]int{0, 2, 1} }, "TAB-3"},
		{"mirrored corner layout", func(s *cubeSpec) {
			for k := range s.Corner {
				s.Corner[k][0] = 1 - s.Corner[k][0]
			}
		}, "TAB-3"},
	}
	// the self test is only meaningful relative to the unmutated outcome under the reference numbering
	ref := count(clone())
	for _, e := range exps {
		s2 := clone()
		e.mut(s2)
		got := count(s2)
		v := ob.Holds
		if got[e.rule] > ref[e.rule] {
			v = ob.Violation
		}
		c.R.Control(e.rule, "control:engine:"+e.name, "in-memory mutation of the tables read from "+pkgRel, v, ob.Violation, "the table engine must report this mutation")
	}
	// negative control: a rotation of the corner layout (x→y→z→x) and a cyclic rotation of the
	// emission order are symmetries of the cube and must not change the outcome
	s2 := clone()
	for k := range s2.Corner {
		s2.Corner[k][0], s2.Corner[k][1], s2.Corner[k][2] = s2.Corner[k][1], s2.Corner[k][2], s2.Corner[k][0]
	}
	s2.Emit = [3]int{1, 2, 0}
	got := count(s2)
	v := ob.Holds
	for r, n := range got {
		if n > ref[r] {
			v = ob.Violation
		}
	}
	c.R.Control("TAB-3", "control:engine:rotation is a symmetry", "in-memory", v, ob.Holds, "a proper rotation of the layout and a cyclic emission order must stay silent")
}

// dump prints every obligation when C09_DUMP is set (development aid).
func dump(c *props.Ctx) {
	if os.Getenv("C09_DUMP") == "" {
		return
	}
	for _, o := range c.R.Obs {
		fmt.Printf("OB %-10s %-9s %s @%s %s %v\n", o.Rule, o.Verdict, o.Construct, o.Pos, o.Msg, o.Facts)
	}
}
