package c09

import (
	"fmt"
	"go/token"
	"go/types"
	"sort"
	"strings"

	"golang.org/x/tools/go/ssa"

	"polycheck/ob"
	"polycheck/props"
	"polycheck/ssau"
)

// CELL-1 — every cell of every block is triangulated.
//
// A block's last layer of cells takes its far corners from the neighbouring blocks, so whether a cell of the
// block is crossed by the surface is a function of the eight corner samples of *that cell* and of nothing
// else the block stores. Hence a necessary condition of C09: no decision that keeps control from reaching the
// case-table walk (a `return`, a `continue`, a loop bound, a skipped call of the block function in a caller)
// may depend on stored samples other than the cell's own eight corner samples (the loads through the
// per-corner block array). Geometry (counters, block coordinates), block-map lookups and the "neighbour
// missing" flag are what such decisions may depend on.
//
// Decided on SSA: in the site function, and in every in-package static caller up to March, each `If` from
// which the table walk (resp. the call that leads to it) is reachable along forward edges but one of whose
// edges is a back edge or leads where the walk is no longer forward-reachable is a *skip decision*. Its
// condition is sliced backward (data flow, local memory through the stores into it, φ with the conditions
// that choose between its edges, in-package callees with all their branch conditions and results, parameters
// through all call sites). A load `block[i]` whose block value comes from the block storage field (directly,
// through a local array, φ, a helper result or a parameter) is a stored sample.

const cellCtlFile = "modeling/marching/zz_verif_control_c09_cell.go"

const cellControls = `package marching

import "github.com/EliCDavis/polyform/modeling"

// must fire: a block is only marched when one of its own samples lies below the cutoff
func verifControlCellBad(d *MarchingCanvas, cutoff float64, section *marchingSection) modeling.Mesh {
	out := modeling.EmptyMesh(modeling.TriangleTopology)
	for bp, at := range section.positions {
		low := false
		for _, v := range d.float1Data[at] {
			if v < cutoff {
				low = true
			}
		}
		if !low {
			continue
		}
		out = out.Append(d.marchFloat1BlockPosition(cutoff, "p", section, bp))
	}
	return out
}

// must stay silent: blocks are skipped by coordinate / map lookup; the samples are read but decide nothing
func verifControlCellGood(d *MarchingCanvas, cutoff float64, section *marchingSection, only modeling.VectorInt) (modeling.Mesh, int) {
	out := modeling.EmptyMesh(modeling.TriangleTopology)
	n := 0
	for bp, at := range section.positions {
		if _, ok := section.positions[only]; !ok || bp.X < only.X {
			continue
		}
		for _, v := range d.float1Data[at] {
			if v < cutoff {
				n++
			}
		}
		out = out.Append(d.marchFloat1BlockPosition(cutoff, "p", section, bp))
	}
	return out, n
}
`

type cellAll struct {
	c       *props.Ctx
	s       *site
	storage *types.Var
	funcs   []*ssa.Function
	block   map[ssa.Value]int // 0 unknown, 1 in progress / no, 2 yes
	stores  map[*ssa.Function][]*ssa.Store
	listing []string
}

type cellDeps struct {
	seen    map[ssa.Value]bool
	entered map[*ssa.Function]bool
	bad     []*ssa.UnOp // stored samples read outside the per-corner fetch
	corner  int         // loads of the cell's own corner samples
	lookups int
	depth   int
}

func cellRule(c *props.Ctx, s *site) {
	if s == nil || s.fn == nil || s.iPhi == nil || s.D == nil {
		return
	}
	storage := storageField(s)
	if storage == nil {
		c.R.Undecide("CELL-1", s.key("blockStorage"), c.P.Pos(s.fn.Pos()), "the field the per-corner blocks are loaded from was not resolved; which loads are stored samples is unknown")
		return
	}
	x := &cellAll{c: c, s: s, storage: storage, funcs: allFuncs(s.fn.Pkg), block: map[ssa.Value]int{}, stores: map[*ssa.Function][]*ssa.Store{}}
	type job struct {
		fn      *ssa.Function
		targets []*ssa.BasicBlock
	}
	ctl := map[string][2]int{} // control function -> {holds, violations}
	done := map[*ssa.Function]bool{}
	work := []job{{s.fn, []*ssa.BasicBlock{s.iPhi.Block()}}}
	for depth := 0; len(work) > 0 && depth < 6; depth++ {
		var next []job
		for _, j := range work {
			if done[j.fn] {
				continue
			}
			done[j.fn] = true
			h, v := x.analyse(j.fn, j.targets)
			if c.P.IsControl(j.fn.Pos()) {
				ctl[j.fn.Name()] = [2]int{h, v}
			}
			callers := map[*ssa.Function][]*ssa.BasicBlock{}
			var order []*ssa.Function
			for _, f := range x.funcs {
				ssau.AllInstrs(f, func(in ssa.Instruction) {
					if call, ok := in.(*ssa.Call); ok && call.Call.StaticCallee() == j.fn {
						if _, ok := callers[f]; !ok {
							order = append(order, f)
						}
						callers[f] = append(callers[f], call.Block())
					}
				})
			}
			sort.SliceStable(order, func(a, b int) bool { return posLess(c.P.Fset, order[a].Pos(), order[b].Pos()) })
			for _, f := range order {
				next = append(next, job{f, callers[f]})
			}
		}
		work = next
	}
	c.R.Extra["cell_skip_decisions"] = x.listing
	if len(c.P.Controls) == 0 {
		return
	}
	present := false
	for f := range c.P.Controls {
		if strings.HasSuffix(f, cellCtlFile) {
			present = true
		}
	}
	if !present {
		return
	}
	got := ob.Holds
	if ctl["verifControlCellBad"][1] > 0 {
		got = ob.Violation
	}
	c.R.Control("CELL-1", "control:cell:verifControlCellBad", cellCtlFile, got, ob.Violation, "a block skipped because none of its own samples is below the cutoff must be reported")
	got = ob.Holds
	if r := ctl["verifControlCellGood"]; r[1] > 0 || r[0] == 0 {
		got = ob.Violation
	}
	c.R.Control("CELL-1", "control:cell:verifControlCellGood", cellCtlFile, got, ob.Holds, "skipping by block coordinate / map lookup while the samples are only counted must stay silent")
}

// analyse records one obligation per skip decision of fn relative to the target blocks.
func (x *cellAll) analyse(fn *ssa.Function, targets []*ssa.BasicBlock) (holds, viols int) {
	c := x.c
	isCtl := c.P.IsControl(fn.Pos())
	isTarget := map[*ssa.BasicBlock]bool{}
	reach := map[*ssa.BasicBlock]bool{}
	var stack []*ssa.BasicBlock
	for _, t := range targets {
		isTarget[t] = true
		reach[t] = true
		stack = append(stack, t)
	}
	for len(stack) > 0 {
		b := stack[len(stack)-1]
		stack = stack[:len(stack)-1]
		for _, p := range b.Preds {
			if reach[p] || b.Dominates(p) { // back edge p→b
				continue
			}
			reach[p] = true
			stack = append(stack, p)
		}
	}
	k := 0
	for _, b := range fn.Blocks {
		if !reach[b] || isTarget[b] || len(b.Instrs) == 0 {
			continue
		}
		iff, ok := b.Instrs[len(b.Instrs)-1].(*ssa.If)
		if !ok {
			continue
		}
		skips := false
		for _, w := range b.Succs {
			if w.Dominates(b) || !reach[w] {
				skips = true
			}
		}
		if !skips {
			continue
		}
		d := &cellDeps{seen: map[ssa.Value]bool{}, entered: map[*ssa.Function]bool{}}
		x.visit(d, iff.Cond)
		pos := ssau.PosOf(iff)
		if !pos.IsValid() {
			if in, ok := iff.Cond.(ssa.Instruction); ok {
				pos = ssau.PosOf(in)
			}
		}
		if len(d.bad) > 0 {
			sort.SliceStable(d.bad, func(i, j int) bool { return posLess(c.P.Fset, d.bad[i].Pos(), d.bad[j].Pos()) })
			first := d.bad[0]
			where := "skip"
			if first.Parent() != fn {
				where = "skip→" + first.Parent().Name()
			}
			viols++
			if !isCtl {
				var at []string
				for _, u := range d.bad {
					at = append(at, fmt.Sprintf("%s reads %s[%s] at %s", u.Parent().Name(), valName(u.X.(*ssa.IndexAddr).X), valName(u.X.(*ssa.IndexAddr).Index), c.P.Pos(u.Pos())))
				}
				c.R.Violate("CELL-1", c.P.FuncName(fn)+"#"+where, c.P.Pos(pos),
					"whether the case table is walked (a cell, a row or the whole block is skipped) depends on samples stored in a block that are not the eight corner samples of the cell: the last layer of cells of a block takes its far corners from the neighbouring blocks, so a block whose own samples are all outside can still hold cells the surface crosses — those are never triangulated and the surface is left open at the block face",
					strings.Join(at, "; "))
			}
			continue
		}
		holds++
		if !isCtl {
			x.listing = append(x.listing, fmt.Sprintf("%s#skip[%d] corner=%d lookups=%d", c.P.FuncName(fn), k, d.corner, d.lookups))
			c.R.Hold("CELL-1", fmt.Sprintf("%s#skip[%d]", c.P.FuncName(fn), k), c.P.Pos(pos),
				fmt.Sprintf("skip decision depends on %d values; stored samples outside the cell's corner fetch: 0, corner samples of the cell: %d, block-map lookups: %d", len(d.seen), d.corner, d.lookups))
		}
		k++
	}
	return
}

func valName(v ssa.Value) string {
	if v == nil {
		return "?"
	}
	if n := v.Name(); n != "" {
		return n
	}
	return v.String()
}

// cellMemRoot: the object an address (or slice value) points into.
func cellMemRoot(v ssa.Value) ssa.Value {
	for i := 0; i < 32; i++ {
		switch y := v.(type) {
		case *ssa.IndexAddr:
			v = y.X
		case *ssa.FieldAddr:
			v = y.X
		case *ssa.Slice:
			v = y.X
		case *ssa.ChangeType:
			v = y.X
		default:
			return v
		}
	}
	return v
}

func isLocalMem(v ssa.Value) bool {
	switch v.(type) {
	case *ssa.Alloc, *ssa.MakeSlice:
		return true
	}
	return false
}

func (x *cellAll) storesOf(fn *ssa.Function) []*ssa.Store {
	if st, ok := x.stores[fn]; ok {
		return st
	}
	var out []*ssa.Store
	ssau.AllInstrs(fn, func(in ssa.Instruction) {
		if st, ok := in.(*ssa.Store); ok {
			out = append(out, st)
		}
	})
	x.stores[fn] = out
	return out
}

// storedInto: the values stored into the local memory object root (in the function that owns it).
func (x *cellAll) storedInto(root ssa.Value) []ssa.Value {
	in, ok := root.(ssa.Instruction)
	if !ok || in.Parent() == nil {
		return nil
	}
	var out []ssa.Value
	for _, st := range x.storesOf(in.Parent()) {
		if cellMemRoot(st.Addr) == root {
			out = append(out, st.Val)
		}
	}
	return out
}

// isBlock: v is (may be) one of the sample blocks of the storage field.
func (x *cellAll) isBlock(v ssa.Value) bool {
	switch x.block[v] {
	case 1:
		return false
	case 2:
		return true
	}
	x.block[v] = 1
	r := x.isBlock0(v)
	if r {
		x.block[v] = 2
	}
	return r
}

func (x *cellAll) isBlock0(v ssa.Value) bool {
	if _, ok := v.Type().Underlying().(*types.Slice); !ok {
		if _, ok := v.Type().Underlying().(*types.Array); !ok {
			return false
		}
	}
	if f, _, ok := blockElem(v, 0); ok && f == x.storage {
		return true
	}
	switch y := v.(type) {
	case *ssa.ChangeType:
		return x.isBlock(y.X)
	case *ssa.Slice:
		return x.isBlock(y.X)
	case *ssa.Phi:
		for _, e := range y.Edges {
			if x.isBlock(e) {
				return true
			}
		}
	case *ssa.UnOp:
		if y.Op != token.MUL {
			return false
		}
		if ia, ok := y.X.(*ssa.IndexAddr); ok {
			if ld, ok := ia.X.(*ssa.UnOp); ok && ld.Op == token.MUL && ssau.FieldOf(ld.X) == x.storage {
				return true
			}
		}
		root := cellMemRoot(y.X)
		if x.s.D != nil && x.s.D.Base != nil && root == ssa.Value(x.s.D.Base) {
			return true
		}
		if isLocalMem(root) {
			for _, sv := range x.storedInto(root) {
				if x.isBlock(sv) {
					return true
				}
			}
		}
	case *ssa.Parameter:
		fn := y.Parent()
		idx := -1
		for i, p := range fn.Params {
			if p == y {
				idx = i
			}
		}
		if idx < 0 || fn.Pkg == nil {
			return false
		}
		for _, f := range x.funcs {
			found := false
			ssau.AllInstrs(f, func(in ssa.Instruction) {
				ci, ok := in.(ssa.CallInstruction)
				if !ok || found || ci.Common().StaticCallee() != fn || ci.Common().IsInvoke() {
					return
				}
				if idx < len(ci.Common().Args) && x.isBlock(ci.Common().Args[idx]) {
					found = true
				}
			})
			if found {
				return true
			}
		}
	case *ssa.Call:
		callee := y.Call.StaticCallee()
		if callee == nil || callee.Pkg != x.s.fn.Pkg || len(callee.Blocks) == 0 {
			return false
		}
		for _, b := range callee.Blocks {
			if ret, ok := b.Instrs[len(b.Instrs)-1].(*ssa.Return); ok {
				for _, rv := range ret.Results {
					if x.isBlock(rv) {
						return true
					}
				}
			}
		}
	}
	return false
}

// cornerBlock: the block value is read out of the per-corner block array of the site.
func (x *cellAll) cornerBlock(v ssa.Value) bool {
	for {
		switch y := v.(type) {
		case *ssa.ChangeType:
			v = y.X
			continue
		case *ssa.Slice:
			v = y.X
			continue
		}
		break
	}
	ld, ok := v.(*ssa.UnOp)
	if !ok || ld.Op != token.MUL {
		return false
	}
	if _, ok := ld.X.(*ssa.IndexAddr); !ok {
		return false
	}
	return x.s.D.Base != nil && cellMemRoot(ld.X) == ssa.Value(x.s.D.Base)
}

func isFloatType(t types.Type) bool {
	b, ok := t.Underlying().(*types.Basic)
	return ok && b.Info()&types.IsFloat != 0
}

// visit: backward slice of a skip condition.
func (x *cellAll) visit(d *cellDeps, v ssa.Value) {
	if v == nil || d.seen[v] {
		return
	}
	d.seen[v] = true
	d.depth++
	defer func() { d.depth-- }()
	if d.depth > 200 {
		return
	}
	switch y := v.(type) {
	case *ssa.Const, *ssa.Global, *ssa.Builtin, *ssa.Function:
		return
	case *ssa.FreeVar:
		fn := y.Parent()
		idx := -1
		for i, fv := range fn.FreeVars {
			if fv == y {
				idx = i
			}
		}
		for _, f := range x.funcs {
			ssau.AllInstrs(f, func(in ssa.Instruction) {
				if mc, ok := in.(*ssa.MakeClosure); ok && mc.Fn == ssa.Value(fn) && idx >= 0 && idx < len(mc.Bindings) {
					x.visit(d, mc.Bindings[idx])
				}
			})
		}
		return
	case *ssa.Parameter:
		fn := y.Parent()
		idx := -1
		for i, p := range fn.Params {
			if p == y {
				idx = i
			}
		}
		if idx < 0 {
			return
		}
		for _, f := range x.funcs {
			ssau.AllInstrs(f, func(in ssa.Instruction) {
				ci, ok := in.(ssa.CallInstruction)
				if !ok || ci.Common().StaticCallee() != fn || ci.Common().IsInvoke() {
					return
				}
				if idx < len(ci.Common().Args) {
					x.visit(d, ci.Common().Args[idx])
				}
			})
		}
		return
	case *ssa.Phi:
		for _, e := range y.Edges {
			x.visit(d, e)
		}
		for _, cond := range phiChoosers(y) {
			x.visit(d, cond)
		}
		return
	case *ssa.UnOp:
		if y.Op != token.MUL {
			x.visit(d, y.X)
			return
		}
		if ia, ok := y.X.(*ssa.IndexAddr); ok && isFloatType(y.Type()) && x.isBlock(ia.X) {
			if x.cornerBlock(ia.X) {
				d.corner++
			} else {
				d.bad = append(d.bad, y)
			}
			x.visit(d, ia.Index)
			return
		}
		// address chain operands (indices, base pointers)
		a := y.X
		for i := 0; i < 32; i++ {
			switch z := a.(type) {
			case *ssa.IndexAddr:
				x.visit(d, z.Index)
				a = z.X
				continue
			case *ssa.FieldAddr:
				a = z.X
				continue
			case *ssa.Slice:
				a = z.X
				continue
			case *ssa.ChangeType:
				a = z.X
				continue
			}
			break
		}
		if isLocalMem(a) {
			for _, sv := range x.storedInto(a) {
				x.visit(d, sv)
			}
			return
		}
		x.visit(d, a)
		return
	case *ssa.Lookup:
		d.lookups++
		x.visit(d, y.X)
		x.visit(d, y.Index)
		return
	case *ssa.Call:
		for _, a := range y.Call.Args {
			x.visit(d, a)
		}
		if y.Call.StaticCallee() == nil {
			x.visit(d, y.Call.Value)
		}
		callee := y.Call.StaticCallee()
		if mc, ok := y.Call.Value.(*ssa.MakeClosure); ok {
			callee, _ = mc.Fn.(*ssa.Function)
		}
		if callee != nil && callee.Pkg == x.s.fn.Pkg && len(callee.Blocks) > 0 && !d.entered[callee] {
			d.entered[callee] = true
			for _, b := range callee.Blocks {
				switch t := b.Instrs[len(b.Instrs)-1].(type) {
				case *ssa.If:
					x.visit(d, t.Cond)
				case *ssa.Return:
					for _, rv := range t.Results {
						x.visit(d, rv)
					}
				}
			}
		}
		return
	}
	if isLocalMem(v) {
		for _, sv := range x.storedInto(v) {
			x.visit(d, sv)
		}
	}
	if in, ok := v.(ssa.Instruction); ok {
		for _, op := range in.Operands(nil) {
			if op != nil && *op != nil {
				x.visit(d, *op)
			}
		}
	}
}

// phiChoosers: the branch conditions that decide which edge of the φ is taken. For a loop-header φ whose
// in-loop edges all carry the same value (a counter) nothing inside the loop chooses; otherwise every `If`
// between the φ's immediate dominator and the φ's block (walking predecessors, not past the dominator).
func phiChoosers(phi *ssa.Phi) []ssa.Value {
	b := phi.Block()
	id := b.Idom()
	if id == nil {
		return nil
	}
	var inLoop []ssa.Value
	header := false
	for i, p := range b.Preds {
		if b.Dominates(p) {
			header = true
			inLoop = append(inLoop, phi.Edges[i])
		}
	}
	same := true
	if header {
		for _, e := range inLoop {
			if e != inLoop[0] {
				same = false
			}
		}
	} else {
		for _, e := range phi.Edges {
			if e != phi.Edges[0] {
				same = false
			}
		}
	}
	if same {
		return nil
	}
	seen := map[*ssa.BasicBlock]bool{b: true}
	stack := append([]*ssa.BasicBlock{}, b.Preds...)
	var out []ssa.Value
	for len(stack) > 0 {
		p := stack[len(stack)-1]
		stack = stack[:len(stack)-1]
		if seen[p] {
			continue
		}
		seen[p] = true
		if len(p.Instrs) > 0 {
			if iff, ok := p.Instrs[len(p.Instrs)-1].(*ssa.If); ok {
				out = append(out, iff.Cond)
			}
		}
		if p == id {
			continue
		}
		stack = append(stack, p.Preds...)
	}
	return out
}
