package c09

import (
	"fmt"
	"go/ast"
	"go/constant"
	"go/token"
	"go/types"

	"golang.org/x/tools/go/packages"
)

// A constTable is the value of a package-level variable whose initialiser is a
// (nested) composite literal of integer constants, read from the type-checked
// AST: every leaf is taken from TypesInfo's constant value (so named constants,
// `-1`, `1<<3`, parenthesised or typed forms are all the same thing) and keyed
// elements (`5: {...}`) are honoured. Nothing is matched as text.
type constTable struct {
	Obj  *types.Var
	Pos  token.Pos
	Rows [][]int64   // for a two-level table
	Flat []int64     // for a one-level table
	RPos []token.Pos // position of each row (two-level) or element (one-level)
}

// findVarInit locates the initialiser expression of the package-level variable obj.
func findVarInit(pk *packages.Package, obj types.Object) ast.Expr {
	for _, f := range pk.Syntax {
		for _, d := range f.Decls {
			gd, ok := d.(*ast.GenDecl)
			if !ok || gd.Tok != token.VAR {
				continue
			}
			for _, s := range gd.Specs {
				vs := s.(*ast.ValueSpec)
				for i, n := range vs.Names {
					if pk.TypesInfo.Defs[n] == obj {
						if len(vs.Values) == len(vs.Names) {
							return vs.Values[i]
						}
						return nil
					}
				}
			}
		}
	}
	return nil
}

func unparen(e ast.Expr) ast.Expr {
	for {
		p, ok := e.(*ast.ParenExpr)
		if !ok {
			return e
		}
		e = p.X
	}
}

// constInt evaluates e as an integer constant through the type checker.
func constIntExpr(info *types.Info, e ast.Expr) (int64, bool) {
	tv, ok := info.Types[e]
	if !ok || tv.Value == nil {
		return 0, false
	}
	v := constant.ToInt(tv.Value)
	if v.Kind() != constant.Int {
		return 0, false
	}
	n, exact := constant.Int64Val(v)
	return n, exact
}

// litLen returns the length of the array/slice type of a composite literal (or -1 for slices).
func litLen(info *types.Info, cl *ast.CompositeLit) (int64, bool) {
	tv, ok := info.Types[cl]
	if !ok {
		return 0, false
	}
	switch t := tv.Type.Underlying().(type) {
	case *types.Array:
		return t.Len(), true
	case *types.Slice:
		return -1, true
	}
	return 0, false
}

// elements returns the (index -> expr) assignment of an array/slice literal,
// following Go's rule for keyed elements; size is the resulting length.
func elements(info *types.Info, cl *ast.CompositeLit) (map[int64]ast.Expr, int64, error) {
	n, ok := litLen(info, cl)
	if !ok {
		return nil, 0, fmt.Errorf("composite literal is not an array or slice")
	}
	out := map[int64]ast.Expr{}
	var idx, max int64
	for _, el := range cl.Elts {
		val := el
		if kv, ok := el.(*ast.KeyValueExpr); ok {
			k, ok := constIntExpr(info, kv.Key)
			if !ok {
				return nil, 0, fmt.Errorf("non-constant key in table literal")
			}
			idx = k
			val = kv.Value
		}
		if _, dup := out[idx]; dup {
			return nil, 0, fmt.Errorf("duplicate index %d in table literal", idx)
		}
		out[idx] = val
		idx++
		if idx > max {
			max = idx
		}
	}
	if n < 0 {
		n = max
	}
	return out, n, nil
}

// readTable reads the variable `name` of package pk as a one- or two-level integer table.
func readTable(pk *packages.Package, name string) (*constTable, error) {
	obj, _ := pk.Types.Scope().Lookup(name).(*types.Var)
	if obj == nil {
		return nil, fmt.Errorf("package-level variable %s not found", name)
	}
	init := findVarInit(pk, obj)
	if init == nil {
		return nil, fmt.Errorf("%s has no initialiser expression of its own", name)
	}
	cl, ok := unparen(init).(*ast.CompositeLit)
	if !ok {
		return nil, fmt.Errorf("%s is not initialised by a composite literal", name)
	}
	info := pk.TypesInfo
	els, n, err := elements(info, cl)
	if err != nil {
		return nil, fmt.Errorf("%s: %v", name, err)
	}
	t := &constTable{Obj: obj, Pos: obj.Pos()}
	twoLevel := false
	if tv, ok := info.Types[cl]; ok {
		var et types.Type
		switch u := tv.Type.Underlying().(type) {
		case *types.Array:
			et = u.Elem()
		case *types.Slice:
			et = u.Elem()
		}
		if et != nil {
			switch et.Underlying().(type) {
			case *types.Array, *types.Slice:
				twoLevel = true
			}
		}
	}
	if !twoLevel {
		t.Flat = make([]int64, n)
		t.RPos = make([]token.Pos, n)
		for i := int64(0); i < n; i++ {
			e, ok := els[i]
			if !ok {
				t.RPos[i] = cl.Pos()
				continue // zero value
			}
			v, ok := constIntExpr(info, e)
			if !ok {
				return nil, fmt.Errorf("%s[%d] is not an integer constant", name, i)
			}
			t.Flat[i] = v
			t.RPos[i] = e.Pos()
		}
		return t, nil
	}
	t.Rows = make([][]int64, n)
	t.RPos = make([]token.Pos, n)
	for i := int64(0); i < n; i++ {
		e, ok := els[i]
		if !ok {
			t.RPos[i] = cl.Pos()
			t.Rows[i] = nil // zero row: nil slice / zero array
			if al, ok2 := rowArrayLen(info, cl); ok2 {
				t.Rows[i] = make([]int64, al)
			}
			continue
		}
		rl, ok := unparen(e).(*ast.CompositeLit)
		if !ok {
			return nil, fmt.Errorf("%s[%d] is not a composite literal", name, i)
		}
		rels, rn, err := elements(info, rl)
		if err != nil {
			return nil, fmt.Errorf("%s[%d]: %v", name, i, err)
		}
		row := make([]int64, rn)
		for j := int64(0); j < rn; j++ {
			re, ok := rels[j]
			if !ok {
				continue
			}
			v, ok := constIntExpr(info, re)
			if !ok {
				return nil, fmt.Errorf("%s[%d][%d] is not an integer constant", name, i, j)
			}
			row[j] = v
		}
		t.Rows[i] = row
		t.RPos[i] = rl.Pos()
	}
	return t, nil
}

func rowArrayLen(info *types.Info, cl *ast.CompositeLit) (int64, bool) {
	tv, ok := info.Types[cl]
	if !ok {
		return 0, false
	}
	var et types.Type
	switch u := tv.Type.Underlying().(type) {
	case *types.Array:
		et = u.Elem()
	case *types.Slice:
		et = u.Elem()
	}
	if a, ok := et.Underlying().(*types.Array); ok {
		return a.Len(), true
	}
	return 0, false
}
