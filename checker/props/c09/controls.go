package c09

import (
	"fmt"
	"sort"
	"strings"

	"polycheck/ob"
	"polycheck/props"
)

// Positive / negative controls, type-checked inside package marching as an overlay.
// The "site" controls are compact marching-cubes cell functions that use the
// repository's own tables; the good one deliberately uses other idioms than the
// repository (array instead of slice, no existence array, swapped comparison
// operands, else-branch, `+=` instead of `|=`, `>= 0` loop test, inline
// interpolation, cyclically rotated emission).

const ctlFile = "modeling/marching/zz_verif_control_c09.go"

const siteTemplate = `
func verifControlSite@NAME@(f func(vector3.Float64) float64, v vector3.Float64, u, cutoff float64) []vector3.Float64 {
	p := [8]vector3.Float64{
		v,
		v.Add(vector3.New(u, 0, 0)),
		@P2@,
		@P3@,
		v.Add(vector3.New(0, u, 0)),
		v.Add(vector3.New(u, u, 0)),
		v.Add(vector3.New(u, u, u)),
		v.Add(vector3.New(0, u, u)),
	}
	var c [8]float64
	c[0] = f(p[0])
	c[1] = f(p[1])
	c[2] = f(p[2])
	c[3] = f(p[3])
	c[4] = f(p[4])
	c[5] = f(p[5])
	c[6] = f(p[6])
	c[7] = f(p[7])
	l := 0
	if c[0] @LT@ cutoff {
		l |= 1
	}
	if cutoff @GT@ c[1] {
		l |= 2
	}
	if c[2] @GE@ cutoff {
	} else {
		l |= @BIT2@
	}
	if c[3] @LT@ cutoff {
		l += 8
	}
	if c[4] @LT@ cutoff {
		l |= 1 << 4
	}
	if c[5] @LT@ cutoff {
		l |= 32
	}
	if c[6] @LT@ cutoff {
		l |= 64
	}
	if c[7] @LT@ cutoff {
		l |= 128
	}
	var out []vector3.Float64
	for i := 0; triangulation[l][i] >= 0; i += 3 {
		e0, e1, e2 := triangulation[l][i], triangulation[l][i+1], triangulation[l][i+2]
		a0, b0 := cornerIndexAFromEdge[e0], cornerIndexBFromEdge[e0]
		a1, b1 := cornerIndexAFromEdge[e1], cornerIndexBFromEdge[e1]
		a2, b2 := cornerIndexAFromEdge[e2], cornerIndexBFromEdge[e2]
		t0 := (cutoff - c[a0]) / (c[@SB0@] - c[a0])
		t1 := (cutoff - c[a1]) / (c[b1] - c[a1])
		t2 := (cutoff - c[a2]) / (c[b2] - c[a2])
		v0 := p[a0].Add(p[b0].Sub(p[a0]).Scale(t0))
		v1 := p[a1].Add(p[b1].Sub(p[a1]).Scale(t1))
		v2 := vector3.Lerp(p[a2], p[b2], t2)
		out = append(out, @EMIT@)
	}
	return out
}
`

type siteCtl struct {
	name string
	sub  map[string]string
	// check inspects the model extracted from the control function. The table content is not involved
	// (the controls use the repository's tables, which the in-memory engine self-test covers), so a
	// defective table can not make a site control fail.
	check func(s *site) bool // true = the expected outcome was observed
	bad   bool
	rule  string
}

var refCorner = [8][3]int{{0, 0, 0}, {1, 0, 0}, {1, 0, 1}, {0, 0, 1}, {0, 1, 0}, {1, 1, 0}, {1, 1, 1}, {0, 1, 1}}

func evenPerm(p [3]int) bool {
	return p == [3]int{0, 1, 2} || p == [3]int{1, 2, 0} || p == [3]int{2, 0, 1}
}

var siteCtls = []siteCtl{
	{"Good", nil, func(s *site) bool {
		return s.ok && len(s.viol) == 0 && s.corner == refCorner && s.bitVal == [8]int{1, 2, 4, 8, 16, 32, 64, 128} && s.inside && evenPerm(s.emit)
	}, false, "TAB-4"},
	{"BadCorner", map[string]string{"@P2@": "v.Add(vector3.New(0, 0, u))", "@P3@": "v.Add(vector3.New(u, 0, u))"},
		func(s *site) bool { return s.ok && s.corner != refCorner }, true, "TAB-4"},
	{"BadBit", map[string]string{"@BIT2@": "8"}, func(s *site) bool { return s.viol["TAB-5"] > 0 }, true, "TAB-5"},
	{"BadPolarity", map[string]string{"@LT@": ">", "@GT@": "<", "@GE@": "<="}, func(s *site) bool { return s.ok && !s.inside }, true, "TAB-3"},
	{"BadPair", map[string]string{"@SB0@": "b1"}, func(s *site) bool { return s.viol["PAIR-1"] > 0 }, true, "PAIR-1"},
	{"BadEmit", map[string]string{"@EMIT@": "v0, v2, v1"}, func(s *site) bool { return s.ok && !evenPerm(s.emit) }, true, "TAB-3"},
}

var siteDefaults = map[string]string{
	"@P2@": "v.Add(vector3.New(u, 0, u))", "@P3@": "v.Add(vector3.New(0, 0, u))",
	"@LT@": "<", "@GT@": ">", "@GE@": ">=", "@BIT2@": "4", "@SB0@": "b0", "@EMIT@": "v1, v2, v0",
}

const axisControls = `
// must fire: y and z swapped in one index call
func verifControlAxisBadIndex(d MarchingCanvas) int {
	s := 0
	for z := 0; z < 4; z++ {
		for y := 0; y < 4; y++ {
			for x := 0; x < 4; x++ {
				s += d.index(x, y, z)
				s += d.index(x+1, z, y)
			}
		}
	}
	return s
}

// must fire: keyed literal fed from the wrong component
func verifControlAxisBadLiteral(bp modeling.VectorInt) modeling.VectorInt {
	return modeling.VectorInt{X: bp.X, Y: bp.Z, Z: bp.Y}
}

// must fire: the X override is decided by the Y components
func verifControlAxisBadOverride(a, b modeling.VectorInt, x, y, z int) modeling.VectorInt {
	n := modeling.VectorInt{X: x, Y: y, Z: z}
	if a.Y != b.Y {
		n.X = 0
	}
	return n
}

// must stay silent: tagged loop variables, shared scale factor, isotropic size, helper calls
func verifControlAxisGood(d MarchingCanvas, lo, hi modeling.VectorInt, c float64) (int, vector3.Float64, modeling.VectorInt) {
	s := 0
	var p vector3.Float64
	for z := lo.Z; z < hi.Z; z++ {
		for y := lo.Y; y < hi.Y; y++ {
			for x := lo.X; x < hi.X; x++ {
				s += d.index(x-lo.X, y-lo.Y, z-lo.Z)
				p = vector3.New(float64(x)/c, float64(y)/c, float64(z)/c)
			}
		}
	}
	size := maxInt(maxInt(hi.X-lo.X, hi.Y-lo.Y), hi.Z-lo.Z)
	cube := modeling.VectorInt{X: lo.X + size, Y: lo.Y + size, Z: lo.Z + size}
	n := modeling.VectorInt{X: lo.X, Y: lo.Y, Z: lo.Z}
	if lo.X != hi.X {
		n.X = 0
	}
	_ = n
	return s, p, cube
}
`

func controls() map[string]string {
	var sb strings.Builder
	sb.WriteString("package marching\n\nimport (\n\t\"github.com/EliCDavis/polyform/modeling\"\n\t\"github.com/EliCDavis/vector/vector3\"\n)\n")
	for _, sc := range siteCtls {
		src := strings.ReplaceAll(siteTemplate, "@NAME@", sc.name)
		var keys []string
		for k := range siteDefaults {
			keys = append(keys, k)
		}
		sort.Strings(keys)
		for _, k := range keys {
			v := siteDefaults[k]
			if o, ok := sc.sub[k]; ok {
				v = o
			}
			src = strings.ReplaceAll(src, k, v)
		}
		sb.WriteString(src)
	}
	sb.WriteString(axisControls)
	return map[string]string{ctlFile: sb.String(), fieldCtlFile: fieldControls, cellCtlFile: cellControls}
}

func siteControls(c *props.Ctx, ctl map[string]*site, ax *axisOutcome) {
	if len(c.P.Controls) == 0 {
		return
	}
	for _, sc := range siteCtls {
		s := ctl["verifControlSite"+sc.name]
		observed := s != nil && sc.check(s)
		detail := "control function not recognised as a marching-cubes site"
		if s != nil {
			var fired []string
			for r, n := range s.viol {
				if n > 0 {
					fired = append(fired, r)
				}
			}
			sort.Strings(fired)
			detail = fmt.Sprintf("extracted: corners %v bits %v insideWhenBit=%v emit %v; reported at extraction: %s", s.corner, s.bitVal, s.inside, s.emit, strings.Join(fired, ","))
		}
		got, want := ob.Holds, ob.Holds
		if sc.bad {
			want = ob.Violation
			if observed {
				got = ob.Violation
			}
		} else if !observed {
			got = ob.Violation
		}
		c.R.Control(sc.rule, "control:site:"+sc.name, ctlFile, got, want, detail)
	}
	if ax == nil {
		return
	}
	byName := map[string]int{}
	seen := map[string]bool{}
	for fn, n := range ax.viol {
		if c.P.IsControl(fn.Pos()) {
			byName[fn.Name()] = n
		}
	}
	for fn := range ax.analysed {
		if c.P.IsControl(fn.Pos()) {
			seen[fn.Name()] = true
		}
	}
	for _, n := range []string{"verifControlAxisBadIndex", "verifControlAxisBadLiteral", "verifControlAxisBadOverride"} {
		got := ob.Holds
		if byName[n] > 0 {
			got = ob.Violation
		}
		rule := "AXIS-1"
		if n == "verifControlAxisBadOverride" {
			rule = "AXIS-2"
		}
		c.R.Control(rule, "control:axis:"+n, ctlFile, got, ob.Violation, "swapped components must be reported")
	}
	got := ob.Holds
	if byName["verifControlAxisGood"] > 0 || !seen["verifControlAxisGood"] {
		got = ob.Violation
	}
	c.R.Control("AXIS-1", "control:axis:verifControlAxisGood", ctlFile, got, ob.Holds, "axis-consistent code (shared scale factor, isotropic size, helper calls) must stay silent")
}
