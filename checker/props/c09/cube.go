package c09

import (
	"fmt"
	"sort"
	"strings"
)

// cubeSpec is everything the table engine needs, all of it read from the code:
// corner k's position offsets, the two edge→corner tables, the case table, how a
// sign pattern becomes a case index (bit value per corner), which side of the
// comparison is "inside", and in which order the three row entries of a triangle
// are emitted.
type cubeSpec struct {
	Corner        [8][3]int // corner k -> offsets in {0,1}^3 (from the site's own corner position list)
	EdgeA, EdgeB  []int64
	Tri           [][]int64
	Stop          func(int64) bool // the triangle loop's termination test on row[i]
	StopS         string
	BitVal        [8]int // case index = OR of BitVal[k] over flagged corners k
	InsideWhenBit bool   // flagged (bit set) ⇔ sample on the inside (below-threshold) side
	Emit          [3]int // emitted vertex slot s is built from row entry i+Emit[s]
}

type finding struct {
	Rule string
	Key  string // "edge[5]", "row[17]", "face", ...
	Row  int    // -1 when not a row
	Msg  string
}

type cubeResult struct {
	Findings     []finding
	RowsChecked  int
	Triangles    int
	FaceSegments int
	PairsChecked int
	RowFacts     map[int]string
}

type dirEdge struct{ u, v int }

type faceID struct{ axis, side int }

func (f faceID) String() string {
	s := "-"
	if f.side == 1 {
		s = "+"
	}
	return s + string("XYZ"[f.axis])
}

type cube struct {
	spec    *cubeSpec
	ne      int
	ea, eb  []int
	faces   [][]faceID // per edge
	layoutK bool
}

func newCube(s *cubeSpec) *cube {
	c := &cube{spec: s}
	return c
}

// checkLayout: the eight corner offsets are a bijection onto {0,1}^3.
func (c *cube) checkLayout() []finding {
	var out []finding
	seen := map[[3]int]int{}
	for k := 0; k < 8; k++ {
		p := c.spec.Corner[k]
		for a := 0; a < 3; a++ {
			if p[a] != 0 && p[a] != 1 {
				out = append(out, finding{"TAB-4", fmt.Sprintf("corner[%d]", k), -1, fmt.Sprintf("corner %d has offset %v: not a unit-cube corner", k, p)})
			}
		}
		if j, dup := seen[p]; dup {
			out = append(out, finding{"TAB-4", fmt.Sprintf("corner[%d]", k), -1, fmt.Sprintf("corners %d and %d have the same offset %v: the corner list does not enumerate the eight cube corners", j, k, p)})
		}
		seen[p] = k
	}
	c.layoutK = len(out) == 0
	return out
}

// checkEdges is TAB-1: every edge joins two corners differing in exactly one axis,
// and the twelve edges are the twelve distinct cube edges.
func (c *cube) checkEdges() []finding {
	var out []finding
	s := c.spec
	if len(s.EdgeA) != len(s.EdgeB) {
		out = append(out, finding{"TAB-1", "edges", -1, fmt.Sprintf("edge tables have different lengths %d / %d", len(s.EdgeA), len(s.EdgeB))})
		return out
	}
	c.ne = len(s.EdgeA)
	if c.ne != 12 {
		out = append(out, finding{"TAB-1", "edges", -1, fmt.Sprintf("edge tables have %d entries, a cube has 12 edges", c.ne)})
	}
	c.ea = make([]int, c.ne)
	c.eb = make([]int, c.ne)
	c.faces = make([][]faceID, c.ne)
	seen := map[[2]int]int{}
	for e := 0; e < c.ne; e++ {
		a, b := int(s.EdgeA[e]), int(s.EdgeB[e])
		c.ea[e], c.eb[e] = a, b
		if a < 0 || a > 7 || b < 0 || b > 7 {
			out = append(out, finding{"TAB-1", fmt.Sprintf("edge[%d]", e), -1, fmt.Sprintf("edge %d names corner %d/%d outside 0..7", e, a, b)})
			c.ea[e], c.eb[e] = 0, 0
			continue
		}
		diff := 0
		for ax := 0; ax < 3; ax++ {
			if s.Corner[a][ax] != s.Corner[b][ax] {
				diff++
			}
		}
		if diff != 1 {
			out = append(out, finding{"TAB-1", fmt.Sprintf("edge[%d]", e), -1,
				fmt.Sprintf("edge %d joins corner %d %v and corner %d %v which differ in %d axes (a cube edge differs in exactly one)", e, a, s.Corner[a], b, s.Corner[b], diff)})
			continue
		}
		k := [2]int{a, b}
		if a > b {
			k = [2]int{b, a}
		}
		if o, dup := seen[k]; dup {
			out = append(out, finding{"TAB-1", fmt.Sprintf("edge[%d]", e), -1, fmt.Sprintf("edges %d and %d join the same corners %v", o, e, k)})
		}
		seen[k] = e
		for ax := 0; ax < 3; ax++ {
			if s.Corner[a][ax] == s.Corner[b][ax] {
				c.faces[e] = append(c.faces[e], faceID{ax, s.Corner[a][ax]})
			}
		}
	}
	return out
}

func (c *cube) inside(k, cs int) bool {
	flagged := cs&c.spec.BitVal[k] != 0
	return flagged == c.spec.InsideWhenBit
}

// doubled coordinates so that edge midpoints are integral
func (c *cube) corner2(k int) [3]int {
	p := c.spec.Corner[k]
	return [3]int{2 * p[0], 2 * p[1], 2 * p[2]}
}
func (c *cube) mid2(e int) [3]int {
	a, b := c.spec.Corner[c.ea[e]], c.spec.Corner[c.eb[e]]
	return [3]int{a[0] + b[0], a[1] + b[1], a[2] + b[2]}
}

func sub3(a, b [3]int) [3]int { return [3]int{a[0] - b[0], a[1] - b[1], a[2] - b[2]} }
func cross3(a, b [3]int) [3]int {
	return [3]int{a[1]*b[2] - a[2]*b[1], a[2]*b[0] - a[0]*b[2], a[0]*b[1] - a[1]*b[0]}
}
func dot3(a, b [3]int) int { return a[0]*b[0] + a[1]*b[1] + a[2]*b[2] }

// proj drops axis ax and encodes the remaining two 0/1 coordinates in two bits.
func proj(p [3]int, ax int) int {
	code, sh := 0, 0
	for a := 0; a < 3; a++ {
		if a == ax {
			continue
		}
		code |= p[a] << sh
		sh++
	}
	return code
}

// projEdge: canonical id of cube edge e inside a face orthogonal to ax.
func (c *cube) projEdge(e, ax int) int {
	p, q := proj(c.spec.Corner[c.ea[e]], ax), proj(c.spec.Corner[c.eb[e]], ax)
	if p > q {
		p, q = q, p
	}
	return p<<2 | q
}

func commonFaces(a, b []faceID) []faceID {
	var out []faceID
	for _, x := range a {
		for _, y := range b {
			if x == y {
				out = append(out, x)
			}
		}
	}
	return out
}

type segSet string // canonical, sorted encoding of a set of projected directed segments

func encodeSegs(segs [][2]int, reverse bool) segSet {
	ss := make([]string, 0, len(segs))
	for _, s := range segs {
		if reverse {
			ss = append(ss, fmt.Sprintf("%d>%d", s[1], s[0]))
		} else {
			ss = append(ss, fmt.Sprintf("%d>%d", s[0], s[1]))
		}
	}
	sort.Strings(ss)
	return segSet(strings.Join(ss, ","))
}

// run decides TAB-2 and TAB-3 exhaustively. Preconditions: checkLayout and
// checkEdges produced no finding.
func (c *cube) run() *cubeResult {
	s := c.spec
	res := &cubeResult{RowFacts: map[int]string{}}
	add := func(rule string, row int, format string, a ...any) {
		res.Findings = append(res.Findings, finding{rule, fmt.Sprintf("row[%d]", row), row, fmt.Sprintf(format, a...)})
	}
	// the case index must be a bijection sign patterns -> rows
	nrows := len(s.Tri)
	type faceKey struct {
		f     faceID
		signs int
	}
	// faceSegs[case][face] -> projected directed segments
	faceSegs := make([]map[faceID][][2]int, nrows)
	rowOK := make([]bool, nrows)

	for cs := 0; cs < 256 && cs < nrows; cs++ {
		res.RowsChecked++
		row := s.Tri[cs]
		n := -1
		for i, v := range row {
			if s.Stop(v) {
				n = i
				break
			}
		}
		if n < 0 {
			add("TAB-2", cs, "row %d has no terminating entry (%s): the triangle loop runs off the end of the row", cs, s.StopS)
			continue
		}
		if n%3 != 0 {
			add("TAB-2", cs, "row %d has %d entries before the terminator, not a multiple of 3", cs, n)
			continue
		}
		bad := false
		for i := 0; i < n; i++ {
			if row[i] < 0 || int(row[i]) >= c.ne {
				add("TAB-2", cs, "row %d entry %d is %d, not an edge id in 0..%d", cs, i, row[i], c.ne-1)
				bad = true
			}
		}
		if bad {
			continue
		}
		// sign-changing edges
		crossing := map[int]bool{}
		for e := 0; e < c.ne; e++ {
			if c.inside(c.ea[e], cs) != c.inside(c.eb[e], cs) {
				crossing[e] = true
			}
		}
		used := map[int]bool{}
		var tris [][3]int
		for i := 0; i < n; i += 3 {
			t := [3]int{int(row[i+s.Emit[0]]), int(row[i+s.Emit[1]]), int(row[i+s.Emit[2]])}
			tris = append(tris, t)
			used[t[0]], used[t[1]], used[t[2]] = true, true, true
			if t[0] == t[1] || t[1] == t[2] || t[0] == t[2] {
				add("TAB-2", cs, "row %d triangle %d uses an edge twice %v: degenerate face", cs, i/3, t)
				bad = true
			}
		}
		res.Triangles += len(tris)
		var missing, extra []int
		for e := range crossing {
			if !used[e] {
				missing = append(missing, e)
			}
		}
		for e := range used {
			if !crossing[e] {
				extra = append(extra, e)
			}
		}
		sort.Ints(missing)
		sort.Ints(extra)
		if len(missing) > 0 || len(extra) > 0 {
			add("TAB-2", cs, "row %d: triangles must use exactly the sign-changing edges of case %d; unused sign-changing edges %v, used edges without sign change %v", cs, cs, missing, extra)
			bad = true
		}
		if bad {
			continue
		}
		// directed edges
		cnt := map[dirEdge]int{}
		var order []dirEdge
		for _, t := range tris {
			for j := 0; j < 3; j++ {
				d := dirEdge{t[j], t[(j+1)%3]}
				if cnt[d] == 0 {
					order = append(order, d)
				}
				cnt[d]++
			}
		}
		fs := map[faceID][][2]int{}
		for _, d := range order {
			if cnt[d] > 1 {
				add("TAB-2", cs, "row %d: directed edge %d→%d is produced by %d triangles (each directed edge may appear once)", cs, d.u, d.v, cnt[d])
				bad = true
				continue
			}
			cf := commonFaces(c.faces[d.u], c.faces[d.v])
			if cnt[dirEdge{d.v, d.u}] > 0 {
				if len(cf) > 0 {
					add("TAB-2", cs, "row %d: edge %d↔%d is shared by two triangles of the cell but lies on cube face %s, where the neighbouring cell may also emit it", cs, d.u, d.v, cf[0])
					bad = true
				}
				continue
			}
			if len(cf) != 1 {
				add("TAB-2", cs, "row %d: directed edge %d→%d has no opposite edge in the cell and does not lie on a cube face: the surface is open inside the cell", cs, d.u, d.v)
				bad = true
				continue
			}
			f := cf[0]
			fs[f] = append(fs[f], [2]int{c.projEdge(d.u, f.axis), c.projEdge(d.v, f.axis)})
			res.FaceSegments++
			// TAB-3 (a): seen from outside the cube the outside corners are on the left of the segment
			if msg := c.segmentSide(cs, d, f); msg != "" {
				add("TAB-3", cs, "row %d: %s", cs, msg)
			}
		}
		// a triangle must not lie in a face plane
		for ti, t := range tris {
			cf := commonFaces(commonFaces(c.faces[t[0]], c.faces[t[1]]), c.faces[t[2]])
			if len(cf) > 0 {
				add("TAB-2", cs, "row %d triangle %d %v lies entirely in cube face %s", cs, ti, t, cf[0])
				bad = true
			}
		}
		// TAB-3 (b): every triangle's normal has a non-negative component along each of its
		// three inside→outside edge directions and a positive one along at least one.
		for ti, t := range tris {
			if msg := c.triangleNormal(cs, t); msg != "" {
				add("TAB-3", cs, "row %d triangle %d %v: %s", cs, ti, t, msg)
			}
		}
		if !bad {
			rowOK[cs] = true
			faceSegs[cs] = fs
			res.RowFacts[cs] = fmt.Sprintf("%d triangles on %d sign-changing edges, %d open edges all on faces", len(tris), len(crossing), func() int {
				k := 0
				for _, v := range fs {
					k += len(v)
				}
				return k
			}())
		}
	}

	// face signature: segments on a face are a function of the face's four signs,
	// and the opposite face under the same signs carries the reversed set.
	type group struct {
		sets  map[segSet][]int // set -> cases
		cases int
	}
	groups := map[faceKey]*group{}
	for cs := 0; cs < 256 && cs < nrows; cs++ {
		if !rowOK[cs] {
			continue
		}
		for ax := 0; ax < 3; ax++ {
			for side := 0; side < 2; side++ {
				f := faceID{ax, side}
				signs := 0
				for k := 0; k < 8; k++ {
					if s.Corner[k][ax] == side && c.inside(k, cs) {
						signs |= 1 << proj(s.Corner[k], ax)
					}
				}
				key := faceKey{f, signs}
				g := groups[key]
				if g == nil {
					g = &group{sets: map[segSet][]int{}}
					groups[key] = g
				}
				enc := encodeSegs(faceSegs[cs][f], false)
				g.sets[enc] = append(g.sets[enc], cs)
				g.cases++
			}
		}
	}
	modeOf := func(g *group) (segSet, int) {
		var best segSet
		bn := -1
		var keys []string
		for k := range g.sets {
			keys = append(keys, string(k))
		}
		sort.Strings(keys)
		for _, k := range keys {
			if n := len(g.sets[segSet(k)]); n > bn {
				best, bn = segSet(k), n
			}
		}
		return best, bn
	}
	var gkeys []faceKey
	for k := range groups {
		gkeys = append(gkeys, k)
	}
	sort.Slice(gkeys, func(i, j int) bool {
		a, b := gkeys[i], gkeys[j]
		if a.f.axis != b.f.axis {
			return a.f.axis < b.f.axis
		}
		if a.f.side != b.f.side {
			return a.f.side < b.f.side
		}
		return a.signs < b.signs
	})
	for _, k := range gkeys {
		g := groups[k]
		res.PairsChecked += g.cases
		mode, _ := modeOf(g)
		if len(g.sets) > 1 {
			var keys []string
			for sk := range g.sets {
				keys = append(keys, string(sk))
			}
			sort.Strings(keys)
			for _, sk := range keys {
				if segSet(sk) == mode {
					continue
				}
				for _, cs := range g.sets[segSet(sk)] {
					add("TAB-2", cs, "row %d: on face %s with corner signs %04b it draws segments {%s} while %d other cases with the same four signs draw {%s}: two cells sharing this face would not close", cs, k.f, k.signs, sk, len(g.sets[mode]), mode)
				}
			}
		}
		if k.f.side == 0 {
			opp := groups[faceKey{faceID{k.f.axis, 1}, k.signs}]
			if opp != nil {
				om, _ := modeOf(opp)
				// reversed encoding of mode
				var segs [][2]int
				if mode != "" {
					for _, p := range strings.Split(string(mode), ",") {
						var a, b int
						fmt.Sscanf(p, "%d>%d", &a, &b)
						segs = append(segs, [2]int{a, b})
					}
				}
				if encodeSegs(segs, true) != om {
					// blame the cases on both faces (they are consistent among themselves but not with the opposite face)
					cs := g.sets[mode][0]
					add("TAB-2", cs, "row %d (and the %d cases like it): face %s with signs %04b draws {%s} but the opposite face under the same signs draws {%s}, which is not the reversed set: cell and neighbour do not close", cs, len(g.sets[mode])-1, k.f, k.signs, mode, om)
				}
			}
		}
	}
	return res
}

// segmentSide checks TAB-3 (a) for one open directed segment on face f.
// Looking at the face from outside the cube, the triangle's normal projects to
// the left of the directed segment; an outward normal therefore needs the
// outside corners on the left and the inside corners on the right.
func (c *cube) segmentSide(cs int, d dirEdge, f faceID) string {
	nf := [3]int{}
	nf[f.axis] = -1
	if f.side == 1 {
		nf[f.axis] = 1
	}
	m1, m2 := c.mid2(d.u), c.mid2(d.v)
	dir := sub3(m2, m1)
	var left, right []int
	for k := 0; k < 8; k++ {
		if c.spec.Corner[k][f.axis] != f.side {
			continue
		}
		t := dot3(cross3(dir, sub3(c.corner2(k), m1)), nf)
		if t > 0 {
			left = append(left, k)
		} else if t < 0 {
			right = append(right, k)
		}
	}
	allLeftOut := len(left) > 0
	for _, k := range left {
		if c.inside(k, cs) {
			allLeftOut = false
		}
	}
	allRightIn := len(right) > 0
	for _, k := range right {
		if !c.inside(k, cs) {
			allRightIn = false
		}
	}
	if allLeftOut || allRightIn {
		return ""
	}
	return fmt.Sprintf("segment %d→%d on face %s has corners %v on the normal's side and %v behind it, but inside corners are %v: the triangle faces the inside (inward orientation)", d.u, d.v, f, left, right, c.insideList(cs))
}

func (c *cube) insideList(cs int) []int {
	var in []int
	for k := 0; k < 8; k++ {
		if c.inside(k, cs) {
			in = append(in, k)
		}
	}
	return in
}

// triangleNormal checks TAB-3 (b) for one triangle (vertices at edge midpoints).
func (c *cube) triangleNormal(cs int, t [3]int) string {
	m0, m1, m2 := c.mid2(t[0]), c.mid2(t[1]), c.mid2(t[2])
	n := cross3(sub3(m1, m0), sub3(m2, m0))
	if n == [3]int{} {
		return "zero-area triangle"
	}
	sum := 0
	for _, e := range t {
		a, b := c.ea[e], c.eb[e]
		in, out := a, b
		if !c.inside(a, cs) {
			in, out = b, a
		}
		sum += dot3(n, sub3(c.corner2(out), c.corner2(in)))
	}
	if sum <= 0 {
		return fmt.Sprintf("normal %v points from the outside corners toward the inside corners %v (Σ n·(out−in) = %d ≤ 0): inward orientation", n, c.insideList(cs), sum)
	}
	return ""
}
