package c09

// DOM-1 / COMB-1 / SDF-REF (round 7).
//
// DOM-1   the domain a field constructor declares is where the canvas samples the field at all; a shape that
//         sticks out of its own domain is cut to a slab or never sampled. Decided structurally:
//           size    the size handed to geometry.NewAABB is not sign-indefinite by construction: a difference
//                   of two points (end − start) is negative on every axis where the points come in the
//                   other order — the box no longer contains the shape; abs / max−min / sizes, products and
//                   sums of magnitudes are fine. Scalar and size parameters are magnitudes by contract.
//           margin  a box spanned by the defining points (NewAABBFromPoints) is widened by at least the
//                   radius on every side (AABB.Expand(a) adds a/2 per side, so a ≥ 2·radius).
// COMB-1  the loop that folds the members containing the sample point leaves only through its counter
//         test (no exit or skip that depends on the running value) and folds with min (union of fields
//         whose inside is below the threshold).
// SDF-REF the distance functions the marching constructors call are the ones C19 (SDF-FORM / SDF-OP)
//         decides, or compositions of those: a defect inside them is C19's to report.

import (
	"fmt"
	"go/constant"
	"go/token"
	"go/types"
	"sort"
	"strings"

	"golang.org/x/tools/go/ssa"

	"polycheck/ob"
	"polycheck/props"
	"polycheck/ssau"
)

// c19Decides: constructors of math/sdf whose closed form / lattice law C19 decides (props/c19/refs.go and the
// SDF-OP operators). Keep in step with C19's required anchors.
var c19Decides = map[string]bool{
	"Sphere": true, "Box": true, "RoundedBox": true, "Line": true, "RoundedCone": true, "RoundedCylinder": true, "Plane": true,
	"Union": true, "Intersect": true, "Subtract": true, "Translate": true,
}

type sgnKind int

const (
	sgnUnknown  sgnKind = iota
	sgnNonNeg           // ≥ 0 by construction
	sgnContract         // a parameter (or a product / sum of parameters and non-negative values): a magnitude by contract
	sgnNeg              // a negative constant / negated magnitude
	sgnIndef            // difference of two points: the sign depends on their order
)

type sgn struct {
	k   sgnKind
	why string
}

func domainRules(c *props.Ctx, sp *ssa.Package) {
	gp := c.P.SSAPkg("math/geometry")
	if gp == nil {
		c.R.Failf("anchor package math/geometry (AABB of the field domains) not found")
		return
	}
	geoPath := gp.Pkg.Path()
	d := &dom{c: c, geoPath: geoPath}
	expandHalves := d.expandHalves(gp)
	nSize, nMargin := 0, 0
	ctlRuns := map[string]*ob.Run{}
	real := c.R
	for _, fn := range sortedFuncs(c, sp) {
		isCtl := c.P.IsControl(fn.Pos())
		if isCtl && !strings.HasPrefix(fn.Name(), "verifControlDom") {
			continue
		}
		// control functions are judged by the same code into a scratch run, then summarised
		c.R = real
		if isCtl {
			scratch := ob.NewRun("C09", "control", 0, "")
			c.R = scratch
			ctlRuns[fn.Name()] = scratch
		}
		name := c.P.FuncName(fn)
		ord := 0
		var calls []*ssa.Call
		ssau.AllInstrs(fn, func(in ssa.Instruction) {
			if call, ok := in.(*ssa.Call); ok {
				calls = append(calls, call)
			}
		})
		for _, call := range calls {
			o := ssau.CalleeObj(call)
			if o == nil || o.Pkg() == nil || o.Pkg().Path() != geoPath {
				continue
			}
			switch o.Name() {
			case "NewAABB":
				if len(call.Call.Args) != 2 {
					continue
				}
				ord++
				nSize++
				key := fmt.Sprintf("%s→NewAABB#%d:size", name, ord)
				pos := c.P.Pos(call.Pos())
				s := d.sign(call.Call.Args[1], 0)
				switch s.k {
				case sgnNonNeg:
					c.R.Hold("DOM-1", key, pos, "size is non-negative by construction: "+s.why)
				case sgnContract:
					c.R.Hold("DOM-1", key, pos, "size is built from size / magnitude parameters only (non-negative by contract): "+s.why)
				case sgnIndef:
					c.R.Violate("DOM-1", key, pos, "the size of the declared domain is "+s.why+": it is negative on every axis where the second point lies before the first, the box then does not contain the shape (geometry.AABB keeps the signed half-size: Min() > Max(), the canvas bounds shrink by the padding only) and the field is cut to a slab or never sampled — the domain must not depend on the order of the defining points (NewAABBFromPoints, or Abs of the difference)")
				case sgnNeg:
					c.R.Violate("DOM-1", key, pos, "the size of the declared domain is negative: "+s.why)
				default:
					c.R.Undecide("DOM-1", key, pos, "the sign of the size handed to NewAABB is not decided: "+s.why)
				}
			case "NewAABBFromPoints":
				// the box of the defining points must be widened by the radius
				cell := storedCell(call)
				if cell == nil {
					// not a variable: declared / handed on as it is (a box that is only merged into another one is
					// an intermediate and not judged)
					if declaredAsIs(call) {
						nMargin++
						c.R.Violate("DOM-1", fmt.Sprintf("%s→box:margin", name), c.P.Pos(call.Pos()), "the box of the defining points is declared as the domain without being expanded by the radius: everything of the shape outside the box of its axis points lies outside the declared domain and is cut off")
					}
					continue
				}
				nMargin++
				key := fmt.Sprintf("%s→%s:margin", name, cell.Comment)
				pos := c.P.Pos(call.Pos())
				if !expandHalves {
					c.R.Undecide("DOM-1", key, pos, "geometry.AABB.Expand no longer adds half of its argument to the half-size: the margin it gives is not known")
					continue
				}
				radii := d.sdfRadii(fn)
				var best *ssa.Call
				bestC, found := 0.0, false
				und := ""
				for _, r := range ssau.Refs(cell) {
					ex, ok := r.(*ssa.Call)
					if !ok {
						continue
					}
					eo := ssau.CalleeObj(ex)
					if eo == nil || eo.Name() != "Expand" || eo.Pkg() == nil || eo.Pkg().Path() != geoPath || len(ex.Call.Args) != 2 || ex.Call.Args[0] != ssa.Value(cell) {
						continue
					}
					coef, leaf, ok := monomial(ex.Call.Args[1], 0)
					if !ok || leaf == "" {
						und = "the amount the box is expanded by is not a constant multiple of one radius parameter"
						continue
					}
					if len(radii) > 0 && !radii[leaf] {
						und = fmt.Sprintf("the box is expanded by a multiple of %s, which is not the radius handed to the distance function (%s)", leaf, strings.Join(sortedKeys(radii), ", "))
						continue
					}
					if !found || coef > bestC {
						best, bestC, found = ex, coef, true
					}
				}
				switch {
				case found && bestC >= 2:
					c.R.Hold("DOM-1", key, c.P.Pos(best.Pos()), fmt.Sprintf("box of the defining points, Expand(%.4g·radius): margin %.4g·radius ≥ radius on every side", bestC, bestC/2))
				case found:
					c.R.Violate("DOM-1", key, c.P.Pos(best.Pos()), fmt.Sprintf("the box of the defining points is expanded by %.4g·radius; AABB.Expand adds half of that per side, so the margin is %.4g·radius < radius: the surface of the shape lies outside its declared domain and is cut off", bestC, bestC/2))
				case und != "":
					c.R.Undecide("DOM-1", key, pos, und)
				default:
					c.R.Violate("DOM-1", key, pos, "the box of the defining points is never expanded by the radius: everything of the shape outside the box of its axis points lies outside the declared domain and is cut off")
				}
			}
		}
	}
	c.R = real
	if len(c.P.Controls) > 0 {
		for _, w := range []struct {
			name string
			bad  bool
		}{{"verifControlDomBad", true}, {"verifControlDomGood", false}} {
			holds, reports := 0, 0
			if r := ctlRuns[w.name]; r != nil {
				for _, o := range r.Obs {
					if o.Verdict == ob.Holds {
						holds++
					} else {
						reports++
					}
				}
			}
			got, want := ob.Holds, ob.Holds
			if w.bad {
				want = ob.Violation
				if reports > 0 {
					got = ob.Violation
				}
			} else if reports > 0 || holds < 2 {
				got = ob.Violation
			}
			c.R.Control("DOM-1", "control:domain:"+w.name, fieldCtlFile, got, want, fmt.Sprintf("%d obligations hold, %d reported", holds, reports))
		}
	}
	c.R.Floor("DOM-1", 12)
	c.R.Extra["dom1_sizes"] = nSize
	c.R.Extra["dom1_margins"] = nMargin
	sdfRef(c, sp)
}

type dom struct {
	c       *props.Ctx
	geoPath string
}

// expandHalves: AABB.Expand(amount) multiplies its argument by the constant 0.5 (and nothing else).
func (d *dom) expandHalves(gp *ssa.Package) bool {
	fn := d.c.P.Func("math/geometry", "AABB.Expand")
	if fn == nil || len(fn.Params) != 2 {
		return false
	}
	ok := false
	for _, r := range ssau.Refs(fn.Params[1]) {
		b, isB := r.(*ssa.BinOp)
		if !isB || b.Op != token.MUL {
			return false
		}
		other := b.X
		if other == ssa.Value(fn.Params[1]) {
			other = b.Y
		}
		k, isK := constRat(other)
		if !isK {
			return false
		}
		f, _ := k.Float64()
		if f != 0.5 {
			return false
		}
		ok = true
	}
	return ok
}

func storedCell(v ssa.Value) *ssa.Alloc {
	for _, r := range ssau.Refs(v) {
		if st, ok := r.(*ssa.Store); ok && st.Val == v {
			if a, ok := st.Addr.(*ssa.Alloc); ok {
				return a
			}
		}
	}
	return nil
}

func sortedKeys(m map[string]bool) []string {
	var ks []string
	for k := range m {
		ks = append(ks, k)
	}
	sort.Strings(ks)
	return ks
}

// leafName: a float parameter, a float field of a parameter / receiver / element of a parameter ("l.radius").
func leafName(v ssa.Value, depth int) string {
	if depth > 6 {
		return ""
	}
	switch t := v.(type) {
	case *ssa.Parameter:
		return t.Name()
	case *ssa.FreeVar:
		return t.Name()
	case *ssa.UnOp:
		if t.Op != token.MUL {
			return ""
		}
		switch a := t.X.(type) {
		case *ssa.FreeVar:
			return a.Name()
		case *ssa.Alloc:
			if p := paramOfSpill(a); p != nil {
				return p.Name()
			}
			// a local copy of a parameter element: one whole store
			var whole []ssa.Value
			for _, r := range ssau.Refs(a) {
				if st, ok := r.(*ssa.Store); ok && st.Addr == ssa.Value(a) {
					whole = append(whole, st.Val)
				}
			}
			if len(whole) == 1 {
				return leafName(whole[0], depth+1)
			}
		case *ssa.FieldAddr:
			base := leafName(addrBase(a.X), depth+1)
			if base == "" {
				return ""
			}
			return base + "." + fieldNameOf(a.X.Type(), a.Field)
		case *ssa.IndexAddr:
			base := leafName(a.X, depth+1)
			if base == "" {
				return ""
			}
			return base + "[·]"
		}
	case *ssa.Field:
		base := leafName(t.X, depth+1)
		if base == "" {
			return ""
		}
		return base + "." + fieldNameOf(t.X.Type(), t.Field)
	}
	return ""
}

// addrBase: the value an address is taken of, as a value whose leafName can be asked.
func addrBase(addr ssa.Value) ssa.Value {
	switch a := addr.(type) {
	case *ssa.Alloc:
		if p := paramOfSpill(a); p != nil {
			return p
		}
		for _, r := range ssau.Refs(a) {
			if st, ok := r.(*ssa.Store); ok && st.Addr == ssa.Value(a) {
				return st.Val
			}
		}
	}
	return addr
}

func fieldNameOf(t types.Type, f int) string {
	if p, ok := t.Underlying().(*types.Pointer); ok {
		t = p.Elem()
	}
	if s, ok := t.Underlying().(*types.Struct); ok && f < s.NumFields() {
		return s.Field(f).Name()
	}
	return fmt.Sprintf("#%d", f)
}

// monomial: v = coef · leaf (leaf "" for a constant).
func monomial(v ssa.Value, depth int) (float64, string, bool) {
	if depth > 8 {
		return 0, "", false
	}
	if k, ok := constRat(v); ok {
		f, _ := k.Float64()
		return f, "", true
	}
	if n := leafName(v, 0); n != "" {
		return 1, n, true
	}
	switch t := v.(type) {
	case *ssa.Convert:
		return monomial(t.X, depth+1)
	case *ssa.BinOp:
		c1, l1, ok1 := monomial(t.X, depth+1)
		c2, l2, ok2 := monomial(t.Y, depth+1)
		if !ok1 || !ok2 {
			return 0, "", false
		}
		switch t.Op {
		case token.MUL:
			if l1 != "" && l2 != "" {
				return 0, "", false
			}
			return c1 * c2, l1 + l2, true
		case token.QUO:
			if l2 != "" || c2 == 0 {
				return 0, "", false
			}
			return c1 / c2, l1, true
		case token.ADD:
			if l1 != l2 {
				return 0, "", false
			}
			return c1 + c2, l1, true
		}
	}
	return 0, "", false
}

// sdfRadii: the float leaves handed to a distance function of math/sdf in fn and its closures.
func (d *dom) sdfRadii(fn *ssa.Function) map[string]bool {
	out := map[string]bool{}
	var visit func(f *ssa.Function)
	visit = func(f *ssa.Function) {
		ssau.AllInstrs(f, func(in ssa.Instruction) {
			call, ok := in.(*ssa.Call)
			if !ok {
				return
			}
			o := ssau.CalleeObj(call)
			if o == nil || o.Pkg() == nil || !strings.HasSuffix(o.Pkg().Path(), "/math/sdf") {
				return
			}
			for _, a := range call.Call.Args {
				if b, ok := a.Type().Underlying().(*types.Basic); ok && b.Info()&types.IsFloat != 0 {
					if n := leafName(a, 0); n != "" {
						out[n] = true
					}
				}
			}
		})
		for _, a := range f.AnonFuncs {
			visit(a)
		}
	}
	visit(fn)
	return out
}

func isVectorPkg(o *types.Func) bool {
	return o != nil && o.Pkg() != nil && strings.HasSuffix(o.Pkg().Path(), "/vector/vector3")
}

func mulSgn(a, b sgn) sgn {
	switch {
	case a.k == sgnUnknown || b.k == sgnUnknown:
		return sgn{sgnUnknown, firstNonEmpty(a, b, sgnUnknown)}
	case a.k == sgnIndef:
		return a
	case b.k == sgnIndef:
		return b
	case a.k == sgnNeg && b.k == sgnNeg:
		return sgn{sgnNonNeg, "product of two negatives"}
	case a.k == sgnNeg:
		return sgn{sgnNeg, a.why + " · " + b.why}
	case b.k == sgnNeg:
		return sgn{sgnNeg, a.why + " · " + b.why}
	case a.k == sgnContract || b.k == sgnContract:
		return sgn{sgnContract, a.why + " · " + b.why}
	}
	return sgn{sgnNonNeg, a.why + " · " + b.why}
}

func addSgn(a, b sgn) sgn {
	switch {
	case a.k == sgnUnknown || b.k == sgnUnknown:
		return sgn{sgnUnknown, firstNonEmpty(a, b, sgnUnknown)}
	case a.k == sgnIndef:
		return a
	case b.k == sgnIndef:
		return b
	case a.k == sgnNeg || b.k == sgnNeg:
		if a.k == sgnNeg && b.k == sgnNeg {
			return sgn{sgnNeg, a.why + " + " + b.why}
		}
		return sgn{sgnUnknown, "sum of a negative and a non-negative term: " + a.why + " + " + b.why}
	case a.k == sgnContract || b.k == sgnContract:
		return sgn{sgnContract, a.why + " + " + b.why}
	}
	return sgn{sgnNonNeg, a.why + " + " + b.why}
}

func firstNonEmpty(a, b sgn, k sgnKind) string {
	if a.k == k {
		return a.why
	}
	return b.why
}

// sign: abstract sign of a float or of every component of a vector.
func (d *dom) sign(v ssa.Value, depth int) sgn {
	if depth > 14 {
		return sgn{sgnUnknown, "expression too deep"}
	}
	if c, ok := v.(*ssa.Const); ok {
		if c.Value == nil {
			return sgn{sgnNonNeg, "zero value"}
		}
		if c.Value.Kind() == constant.Float || c.Value.Kind() == constant.Int {
			if constant.Sign(c.Value) < 0 {
				return sgn{sgnNeg, "constant " + c.Value.String()}
			}
			return sgn{sgnNonNeg, "constant " + c.Value.String()}
		}
	}
	if n := leafName(v, 0); n != "" {
		return sgn{sgnContract, n}
	}
	switch t := v.(type) {
	case *ssa.Convert:
		return d.sign(t.X, depth+1)
	case *ssa.ChangeType:
		return d.sign(t.X, depth+1)
	case *ssa.UnOp:
		if t.Op == token.SUB {
			s := d.sign(t.X, depth+1)
			switch s.k {
			case sgnNonNeg, sgnContract:
				return sgn{sgnNeg, "−(" + s.why + ")"}
			case sgnNeg:
				return sgn{sgnNonNeg, "−(" + s.why + ")"}
			}
			return s
		}
		if t.Op == token.MUL {
			// a local with one definition
			if a, ok := t.X.(*ssa.Alloc); ok {
				var vals []ssa.Value
				for _, r := range ssau.Refs(a) {
					if st, ok := r.(*ssa.Store); ok && st.Addr == ssa.Value(a) {
						vals = append(vals, st.Val)
					}
				}
				if len(vals) == 1 {
					return d.sign(vals[0], depth+1)
				}
			}
		}
	case *ssa.BinOp:
		switch t.Op {
		case token.MUL, token.QUO:
			return mulSgn(d.sign(t.X, depth+1), d.sign(t.Y, depth+1))
		case token.ADD:
			return addSgn(d.sign(t.X, depth+1), d.sign(t.Y, depth+1))
		case token.SUB:
			a, b := d.sign(t.X, depth+1), d.sign(t.Y, depth+1)
			if b.k == sgnNeg && (a.k == sgnNonNeg || a.k == sgnContract) {
				return sgn{a.k, a.why + " − (" + b.why + ")"}
			}
			return sgn{sgnUnknown, "difference " + describeSgn(a) + " − " + describeSgn(b)}
		}
	case *ssa.Phi:
		var out *sgn
		for _, e := range t.Edges {
			if e == ssa.Value(t) {
				continue
			}
			s := d.sign(e, depth+1)
			if out == nil {
				out = &s
				continue
			}
			if s.k != out.k {
				if (s.k == sgnContract && out.k == sgnNonNeg) || (s.k == sgnNonNeg && out.k == sgnContract) {
					out.k = sgnContract
					continue
				}
				if s.k == sgnIndef || s.k == sgnNeg {
					*out = s
					continue
				}
				if out.k == sgnIndef || out.k == sgnNeg {
					continue
				}
				return sgn{sgnUnknown, "alternatives of different sign classes"}
			}
		}
		if out != nil {
			return *out
		}
	case *ssa.Call:
		if b := ssau.Builtin(t); b == "max" || b == "min" {
			return d.signMinMax(b, t.Call.Args, depth)
		}
		o := ssau.CalleeObj(t)
		if o == nil || o.Pkg() == nil {
			return sgn{sgnUnknown, "result of a dynamic call"}
		}
		args := t.Call.Args
		switch {
		case o.Pkg().Path() == "math":
			switch o.Name() {
			case "Abs", "Sqrt", "Hypot":
				return sgn{sgnNonNeg, "math." + o.Name() + "(…)"}
			case "Max", "Min":
				return d.signMinMax(strings.ToLower(o.Name()), args, depth)
			}
		case isVectorPkg(o):
			recv := func() sgn { return d.sign(args[0], depth+1) }
			switch o.Name() {
			case "New":
				out := sgn{sgnNonNeg, "vector3.New(…)"}
				var parts []string
				for _, a := range args {
					s := d.sign(a, depth+1)
					parts = append(parts, s.why)
					switch {
					case s.k == sgnUnknown || s.k == sgnIndef || s.k == sgnNeg:
						return s
					case s.k == sgnContract:
						out.k = sgnContract
					}
				}
				out.why = "(" + strings.Join(uniq(parts), ", ") + ")"
				return out
			case "Fill":
				if len(args) == 1 {
					return d.sign(args[0], depth+1)
				}
			case "Zero", "One", "Up", "Right", "Forward":
				return sgn{sgnNonNeg, "vector3." + o.Name() + "()"}
			case "Abs":
				return sgn{sgnNonNeg, "Abs(…)"}
			case "Scale", "MultByConstant", "DivByConstant", "MultByVector":
				if len(args) == 2 {
					return mulSgn(recv(), d.sign(args[1], depth+1))
				}
			case "Add":
				if len(args) == 2 {
					return addSgn(recv(), d.sign(args[1], depth+1))
				}
			case "Sub":
				if len(args) == 2 {
					a, b := pointName(args[0]), pointName(args[1])
					if a != "" && b != "" && a != b {
						return sgn{sgnIndef, fmt.Sprintf("the difference %s − %s of two points", a, b)}
					}
					return sgn{sgnUnknown, "a vector difference"}
				}
			case "Length", "Distance", "LengthSquared", "DistanceSquared":
				return sgn{sgnNonNeg, o.Name() + "(…)"}
			case "X", "Y", "Z":
				if len(args) == 1 {
					s := recv()
					if s.k == sgnContract {
						// a component of a parameter that is used as a point is a coordinate; as a size it is a magnitude.
						// Without knowing which, stay with the contract reading.
						return s
					}
					return s
				}
			}
		case o.Pkg().Path() == d.geoPath:
			switch o.Name() {
			case "Size":
				return sgn{sgnNonNeg, "Size() of an existing box"}
			}
		}
		return sgn{sgnUnknown, "result of " + o.Name()}
	}
	return sgn{sgnUnknown, fmt.Sprintf("%T", v)}
}

func (d *dom) signMinMax(op string, args []ssa.Value, depth int) sgn {
	var ss []sgn
	for _, a := range args {
		ss = append(ss, d.sign(a, depth+1))
	}
	anyGood, allGood, contract := false, true, false
	var parts []string
	for _, s := range ss {
		parts = append(parts, s.why)
		if s.k == sgnNonNeg || s.k == sgnContract {
			anyGood = true
			if s.k == sgnContract {
				contract = true
			}
		} else {
			allGood = false
		}
	}
	why := op + "(" + strings.Join(parts, ", ") + ")"
	k := sgnNonNeg
	if contract {
		k = sgnContract
	}
	if (op == "max" && anyGood) || (op == "min" && allGood) {
		return sgn{k, why}
	}
	return sgn{sgnUnknown, why}
}

func describeSgn(s sgn) string { return s.why }

func uniq(in []string) []string {
	seen := map[string]bool{}
	var out []string
	for _, s := range in {
		if !seen[s] {
			seen[s] = true
			out = append(out, s)
		}
	}
	return out
}

// pointName: a vector parameter (or a field / element of one) used as a point.
func pointName(v ssa.Value) string { return leafName(v, 0) }

// ---------------------------------------------------------------------------
// SDF-REF

func sdfRef(c *props.Ctx, sp *ssa.Package) {
	sdfPkg := c.P.SSAPkg("math/sdf")
	if sdfPkg == nil {
		c.R.Failf("anchor package math/sdf (distance functions of the marching constructors) not found")
		return
	}
	called := map[*ssa.Function]token.Pos{}
	var order []*ssa.Function
	for _, fn := range sortedFuncs(c, sp) {
		if c.P.IsControl(fn.Pos()) {
			continue
		}
		ssau.AllInstrs(fn, func(in ssa.Instruction) {
			ci, ok := in.(ssa.CallInstruction)
			if !ok {
				return
			}
			callee := ci.Common().StaticCallee()
			if callee == nil {
				return
			}
			if callee.Origin() != nil {
				callee = callee.Origin()
			}
			if callee.Pkg != sdfPkg || callee.Name() == "init" {
				return
			}
			if _, seen := called[callee]; !seen {
				called[callee] = in.Pos()
				order = append(order, callee)
			}
		})
	}
	sort.SliceStable(order, func(i, j int) bool { return order[i].Name() < order[j].Name() })
	for _, f := range order {
		key := "modeling/marching→sdf." + f.Name()
		pos := c.P.Pos(called[f])
		if c19Decides[f.Name()] && f.Signature.Recv() == nil {
			c.R.Hold("SDF-REF", key, pos, "decided by C19 (SDF-FORM / SDF-OP): a defect inside it is reported there")
			continue
		}
		parts, why := sdfComposition(f, sdfPkg, 0)
		if why == "" {
			c.R.Hold("SDF-REF", key, pos, "not in C19's table itself, but a composition of functions that are: "+strings.Join(parts, ", "))
			continue
		}
		c.R.Violate("SDF-REF", key, pos, fmt.Sprintf("the marching constructors call sdf.%s, whose distance formula no check decides (C19's SDF-FORM / SDF-OP cover %s): %s — closeness of the marched surface to the shape rests on a function nobody verifies", f.Name(), strings.Join(sortedKeys(c19Decides), ", "), why))
	}
	c.R.Floor("SDF-REF", 4)
}

// sdfComposition: f only combines distance functions C19 decides: every function of math/sdf it calls is decided
// (or such a composition itself) and every value it returns is the result of one of them.
func sdfComposition(f *ssa.Function, sdfPkg *ssa.Package, depth int) ([]string, string) {
	if depth > 2 || len(f.Blocks) == 0 {
		return nil, "its body is not available"
	}
	parts := map[string]bool{}
	why := ""
	ok := func(callee *ssa.Function) bool {
		if callee.Origin() != nil {
			callee = callee.Origin()
		}
		if callee.Pkg != sdfPkg {
			return false
		}
		if c19Decides[callee.Name()] && callee.Signature.Recv() == nil {
			parts[callee.Name()] = true
			return true
		}
		sub, w := sdfComposition(callee, sdfPkg, depth+1)
		if w != "" {
			return false
		}
		for _, s := range sub {
			parts[s] = true
		}
		return true
	}
	ssau.AllInstrs(f, func(in ssa.Instruction) {
		ci, isCall := in.(ssa.CallInstruction)
		if !isCall {
			return
		}
		callee := ci.Common().StaticCallee()
		if callee == nil || (callee.Pkg != sdfPkg && (callee.Origin() == nil || callee.Origin().Pkg != sdfPkg)) {
			return
		}
		if !ok(callee) && why == "" {
			why = "it calls sdf." + callee.Name() + ", which is not decided either"
		}
	})
	for _, b := range f.Blocks {
		ret, isRet := b.Instrs[len(b.Instrs)-1].(*ssa.Return)
		if !isRet || b == f.Recover {
			continue
		}
		for _, r := range ret.Results {
			call, isCall := r.(*ssa.Call)
			if !isCall || call.Call.StaticCallee() == nil || !ok(call.Call.StaticCallee()) {
				if why == "" {
					why = "it returns a distance it computes itself"
				}
			}
		}
	}
	if len(f.AnonFuncs) > 0 && why == "" {
		why = "it builds its own distance closure"
	}
	return sortedKeys(parts), why
}

// declaredAsIs: the box value is stored into a struct field, returned or boxed — not merely passed on to a call.
func declaredAsIs(v ssa.Value) bool {
	for _, r := range ssau.Refs(v) {
		switch u := r.(type) {
		case *ssa.Store:
			if _, ok := u.Addr.(*ssa.FieldAddr); ok && u.Val == v {
				return true
			}
		case *ssa.Return, *ssa.MakeInterface:
			return true
		}
	}
	return false
}
