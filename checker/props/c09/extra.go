package c09

import (
	"fmt"
	"go/token"
	"go/types"

	"golang.org/x/tools/go/ssa"

	"polycheck/props"
	"polycheck/ssau"
)

// extraRules: structural necessary conditions beyond DESIGN.md that the block storage needs for
// "regardless of where the shape sits relative to the blocks".
//
//	ALLOC-1  the block allocator is a correct lookup-or-add: a block position that is not yet in the map gets
//	         index len(blockList) *before* the append, that index is recorded under the same position in the
//	         map the block march reads, and it is what the allocator returns
//	SCALE-1  the marched mesh (cell units) is scaled by exactly the factor the writer used to turn a cell
//	         coordinate into the position it sampled (1/cubesPerUnit), so vertices land where the field was sampled
//	XB-7     a cell (or a whole layer of cells) is skipped on a block-map lookup only on the "missing" side
func extraRules(c *props.Ctx, p *c09path, bs *site, storage *types.Var, writer *ssa.Function) {
	if bs == nil {
		return
	}
	if storage != nil {
		alloc1(c, p, bs, storage)
	}
	scale1(c, p, bs, writer)
	xb7(c, bs)
}

// ---------------------------------------------------------------------------

func alloc1(c *props.Ctx, p *c09path, bs *site, storage *types.Var) {
	mapField := bs.blockMapField()
	for _, fn := range p.order {
		var appStore *ssa.Store
		ssau.AllInstrs(fn, func(in ssa.Instruction) {
			st, ok := in.(*ssa.Store)
			if !ok || ssau.FieldOf(st.Addr) != storage {
				return
			}
			if call, ok := st.Val.(*ssa.Call); ok && ssau.Builtin(call) == "append" {
				appStore = st
			}
		})
		if appStore == nil {
			continue
		}
		key := c.P.FuncName(fn)
		pos := c.P.Pos(appStore.Pos())
		var lk *ssa.Lookup
		var mus []*ssa.MapUpdate
		nl := 0
		ssau.AllInstrs(fn, func(in ssa.Instruction) {
			switch x := in.(type) {
			case *ssa.Lookup:
				if x.CommaOk && ssau.FieldOf(loadAddr(x.X)) == mapField {
					lk = x
					nl++
				}
			case *ssa.MapUpdate:
				if ssau.FieldOf(loadAddr(x.Map)) == mapField {
					mus = append(mus, x)
				}
			}
		})
		if mapField == nil || nl != 1 {
			c.R.Undecide("ALLOC-1", key, pos, fmt.Sprintf("expected one comma-ok lookup in the block-position map, found %d", nl))
			continue
		}
		if _, ok := vectorIntFields(lk.Index.Type()); !ok {
			c.R.Undecide("ALLOC-1", key, pos, "the block map is not keyed by a block position")
			continue
		}
		if len(mus) == 0 {
			c.R.Violate("ALLOC-1", key, pos, "a newly allocated block is never recorded in the block-position map: the march cannot find it and the next AddField allocates another one")
			continue
		}
		if len(mus) != 1 {
			c.R.Undecide("ALLOC-1", key, pos, "several updates of the block-position map")
			continue
		}
		mu := mus[0]
		if structSource(mu.Key) != structSource(lk.Index) {
			c.R.Violate("ALLOC-1", key, c.P.Pos(mu.Pos()), "the new block is recorded under a different position than the one that was looked up")
			continue
		}
		// the index of the new block: len(storage) before the append, in the block that appends
		var ln *ssa.Call
		ssau.AllInstrs(fn, func(in ssa.Instruction) {
			call, ok := in.(*ssa.Call)
			if !ok || ssau.Builtin(call) != "len" || ssau.FieldOf(loadAddr(call.Call.Args[0])) != storage {
				return
			}
			if call.Block() == appStore.Block() || call.Block().Dominates(appStore.Block()) {
				ln = call
			}
		})
		if ln == nil || !ssau.Before(ln, appStore) || !ssau.Before(ln.Call.Args[0].(ssa.Instruction), appStore) {
			c.R.Violate("ALLOC-1", key, pos, "the index of the new block is not len(blockList) taken before the block is appended: the position maps to a neighbouring block's data")
			continue
		}
		if !flowsFrom(mu.Value, ln, appStore.Block()) {
			c.R.Violate("ALLOC-1", key, c.P.Pos(mu.Pos()), "the value recorded for the new block is not its index in the block list")
			continue
		}
		// what is returned: the looked-up index when found, the recorded one otherwise
		okRet := true
		nret := 0
		hit, miss := false, false
		ssau.AllInstrs(fn, func(in ssa.Instruction) {
			ret, ok := in.(*ssa.Return)
			if !ok || len(ret.Results) != 1 || (ret.Block().Comment == "recover") {
				return
			}
			nret++
			srcs := valueSources(ret.Results[0], 0)
			// constants that merge with the new index in one phi are the untaken arms of the data-type switch
			armConst := map[ssa.Value]bool{}
			for _, s := range srcs {
				if phi, ok := s.(*ssa.Phi); ok {
					has := false
					for _, e := range phi.Edges {
						if e == ssa.Value(ln) {
							has = true
						}
					}
					if has {
						for _, e := range phi.Edges {
							if _, isC := e.(*ssa.Const); isC {
								armConst[e] = true
							}
						}
					}
				}
			}
			for _, s := range srcs {
				if _, isPhi := s.(*ssa.Phi); isPhi {
					continue
				}
				switch {
				case armConst[s]:
				case isExtract(s, lk, 0):
					hit = true
				case s == ssa.Value(ln):
					miss = true
				case isLenOfField(s):
					// index of a block list of another data type (same allocator serves several lists)
				default:
					okRet = false
				}
			}
		})
		if !okRet || nret == 0 || !hit || !miss {
			c.R.Violate("ALLOC-1", key, pos, "the allocator does not return the looked-up index when the block exists and the recorded index when it was just created")
			continue
		}
		c.R.Hold("ALLOC-1", key, pos, "miss: i = len("+storage.Name()+"); append; "+mapField.Name()+"[pos] = i; return i — hit: return "+mapField.Name()+"[pos]")
	}
}

// flowsFrom: v is want, or a phi one of whose edges from a block dominated by `in` is want.
func flowsFrom(v ssa.Value, want ssa.Value, in *ssa.BasicBlock) bool {
	if v == want {
		return true
	}
	phi, ok := v.(*ssa.Phi)
	if !ok {
		return false
	}
	for i, e := range phi.Edges {
		pr := phi.Block().Preds[i]
		if e == want && (pr == in || in.Dominates(pr)) {
			return true
		}
	}
	return false
}

// valueSources: the values that may flow into v through phis and loads of a local that is only assigned whole values.
func valueSources(v ssa.Value, depth int) []ssa.Value {
	if depth > 6 {
		return []ssa.Value{v}
	}
	switch x := v.(type) {
	case *ssa.Phi:
		var out []ssa.Value
		out = append(out, v)
		for _, e := range x.Edges {
			out = append(out, valueSources(e, depth+1)...)
		}
		return out
	case *ssa.UnOp:
		if x.Op == token.MUL {
			if al, ok := x.X.(*ssa.Alloc); ok {
				var out []ssa.Value
				// the nearest store before the load in the same block decides (named results with defer)
				var last *ssa.Store
				for _, in := range x.Block().Instrs {
					if in == ssa.Instruction(x) {
						break
					}
					if st, ok := in.(*ssa.Store); ok && st.Addr == ssa.Value(al) {
						last = st
					}
				}
				if last != nil {
					return valueSources(last.Val, depth+1)
				}
				for _, r := range ssau.Refs(al) {
					if st, ok := r.(*ssa.Store); ok && st.Addr == al {
						out = append(out, valueSources(st.Val, depth+1)...)
					}
				}
				return out
			}
		}
	}
	return []ssa.Value{v}
}

// ---------------------------------------------------------------------------

// uniformScale evaluates a vector expression whose three components are the same scalar; sym names the
// struct field a loaded scalar comes from.
func uniformScale(v ssa.Value, depth int) (ratfn, bool) {
	if depth > 10 {
		return ratfn{}, false
	}
	if r, ok := constRat(v); ok {
		return rPoly(pConst(r)), true
	}
	switch x := v.(type) {
	case *ssa.Call:
		obj := ssau.CalleeObj(x)
		args := x.Call.Args
		switch {
		case obj != nil && ssau.IsFunc(obj, vec3Path, "One"):
			return rPoly(pInt(1)), true
		case obj != nil && ssau.IsFunc(obj, vec3Path, "Fill") && len(args) == 1:
			return uniformScale(args[0], depth+1)
		case isVec3New(x) && len(args) == 3:
			a, ok1 := uniformScale(args[0], depth+1)
			b, ok2 := uniformScale(args[1], depth+1)
			cc, ok3 := uniformScale(args[2], depth+1)
			if ok1 && ok2 && ok3 && a.equal(b) && b.equal(cc) {
				return a, true
			}
		case isVec3Method(x, "DivByConstant") && len(args) == 2:
			a, ok1 := uniformScale(args[0], depth+1)
			b, ok2 := uniformScale(args[1], depth+1)
			if ok1 && ok2 && !b.num.isZero() {
				return a.div(b), true
			}
		case (isVec3Method(x, "Scale") || isVec3Method(x, "MultByConstant")) && len(args) == 2:
			a, ok1 := uniformScale(args[0], depth+1)
			b, ok2 := uniformScale(args[1], depth+1)
			if ok1 && ok2 {
				return a.mul(b), true
			}
		}
	case *ssa.BinOp:
		a, ok1 := uniformScale(x.X, depth+1)
		b, ok2 := uniformScale(x.Y, depth+1)
		if !ok1 || !ok2 {
			return ratfn{}, false
		}
		switch x.Op {
		case token.MUL:
			return a.mul(b), true
		case token.QUO:
			if !b.num.isZero() {
				return a.div(b), true
			}
		case token.ADD:
			return a.add(b, 1), true
		case token.SUB:
			return a.add(b, -1), true
		}
	case *ssa.Convert:
		return uniformScale(x.X, depth+1)
	case *ssa.UnOp:
		if x.Op == token.MUL {
			if f := ssau.FieldOf(x.X); f != nil {
				return rPoly(pSym("field:" + f.Name())), true
			}
			if al, ok := x.X.(*ssa.Alloc); ok {
				if srcs := wholeDefs(al, x); len(srcs) == 1 {
					return uniformScale(srcs[0], depth+1)
				}
			}
		}
	}
	return ratfn{}, false
}

func scale1(c *props.Ctx, p *c09path, bs *site, writer *ssa.Function) {
	if writer == nil {
		return
	}
	// writer: the position handed to the field function = New(x,y,z) scaled by f_w
	var fw *ratfn
	ssau.AllInstrs(writer, func(in ssa.Instruction) {
		call, ok := in.(*ssa.Call)
		if !ok || call.Call.IsInvoke() || call.Call.StaticCallee() != nil || ssau.Builtin(call) != "" {
			return
		}
		if len(call.Call.Args) != 1 || !isVec3(call.Call.Args[0].Type()) {
			return
		}
		f := rPoly(pInt(1))
		v := call.Call.Args[0]
		for {
			c2, ok := v.(*ssa.Call)
			if !ok {
				return
			}
			if isVec3New(c2) {
				break
			}
			switch {
			case isVec3Method(c2, "DivByConstant"):
				k, ok := uniformScale(c2.Call.Args[1], 0)
				if !ok || k.num.isZero() {
					return
				}
				f = f.div(k)
			case isVec3Method(c2, "Scale"), isVec3Method(c2, "MultByConstant"):
				k, ok := uniformScale(c2.Call.Args[1], 0)
				if !ok {
					return
				}
				f = f.mul(k)
			default:
				return
			}
			v = c2.Call.Args[0]
		}
		fw = &f
	})
	blockFn := bs.blockFnOrSelf()
	n := 0
	for _, fn := range p.order {
		if fn == blockFn || fn == bs.fn {
			continue
		}
		ssau.AllInstrs(fn, func(in ssa.Instruction) {
			ret, ok := in.(*ssa.Return)
			if !ok {
				return
			}
			for _, r := range ret.Results {
				if !isMesh(r.Type()) {
					continue
				}
				// walk the receiver chain back to the merge of the block meshes, collecting Transform calls
				var transforms []*ssa.Call
				reaches := false
				cur := r
				for depth := 0; depth < 12; depth++ {
					call, ok := cur.(*ssa.Call)
					if !ok {
						break
					}
					if cal := call.Call.StaticCallee(); cal != nil && p.fns[cal] && callsFn(cal, blockFn) {
						reaches = true
						break
					}
					obj := ssau.CalleeObj(call)
					if obj == nil || ssau.RecvNamed(obj) == nil || !ssau.IsNamed(ssau.RecvNamed(obj), modelingPath, "Mesh") || len(call.Call.Args) == 0 {
						break
					}
					if obj.Name() == "Transform" {
						transforms = append(transforms, call)
					}
					cur = call.Call.Args[0]
				}
				if !reaches {
					continue
				}
				n++
				key := c.P.FuncName(fn) + "#scale"
				pos := c.P.Pos(ret.Pos())
				if fw == nil {
					c.R.Undecide("SCALE-1", key, pos, "the factor between cell coordinates and sampled positions was not recognised in the writer")
					continue
				}
				total := rPoly(pInt(1))
				okT := true
				nScale := 0
				for _, t := range transforms {
					for _, tv := range variadicValues(t.Call.Args[1:]) {
						mi, ok := tv.(*ssa.MakeInterface)
						if !ok || !ssau.IsNamed(mi.X.Type(), "github.com/EliCDavis/polyform/modeling/meshops", "ScaleAttribute3DTransformer") {
							continue // other transformers (none today) are not interpreted
						}
						amt, ok := structLiteralField(mi.X, "Amount")
						if !ok {
							okT = false
							continue
						}
						k, ok := uniformScale(amt, 0)
						if !ok {
							okT = false
							continue
						}
						total = total.mul(k)
						nScale++
					}
				}
				switch {
				case !okT:
					c.R.Undecide("SCALE-1", key, pos, "a scale transformer's amount is not a uniform scalar expression the rule evaluates")
				case !total.equal(*fw):
					c.R.Violate("SCALE-1", key, pos, fmt.Sprintf("the marched mesh is scaled by %s but the field was sampled at cell·(%s): vertices do not land where the samples were taken", total, *fw))
				default:
					c.R.Hold("SCALE-1", key, pos, fmt.Sprintf("mesh scale %s = sampling scale %s", total, *fw))
				}
			}
		})
	}
	if n == 0 {
		c.R.Undecide("SCALE-1", bs.name+"#result", c.P.Pos(p.march.Pos()), "no path function returns the merged block meshes")
	}
}

func callsFn(fn, target *ssa.Function) bool {
	found := false
	ssau.AllInstrs(fn, func(in ssa.Instruction) {
		if ci, ok := in.(ssa.CallInstruction); ok && ci.Common().StaticCallee() == target {
			found = true
		}
	})
	return found
}

// variadicValues: the elements of `f(xs...)` built from a literal varargs array.
func variadicValues(args []ssa.Value) []ssa.Value {
	var out []ssa.Value
	for _, a := range args {
		al := arrayAlloc(a)
		if al == nil {
			out = append(out, a)
			continue
		}
		m := newSlotModel()
		sa := m.arrOf(a)
		for k := 0; sa != nil && k < sa.N; k++ {
			for _, v := range m.eval(nil).slotVals(sa, k) {
				out = append(out, v.val)
			}
		}
	}
	return out
}

// structLiteralField: value stored into the named field of a struct literal (a load of a local).
func structLiteralField(v ssa.Value, name string) (ssa.Value, bool) {
	st, ok := v.Type().Underlying().(*types.Struct)
	if !ok {
		return nil, false
	}
	for i := 0; i < st.NumFields(); i++ {
		if st.Field(i).Name() == name {
			return structFieldValue(v, i)
		}
	}
	return nil, false
}

// ---------------------------------------------------------------------------

func xb7(c *props.Ctx, bs *site) {
	fn := bs.blockFnOrSelf()
	mapField := bs.blockMapField()
	if mapField == nil {
		return
	}
	loops := ssau.Loops(fn)
	// the triangle loop header (in fn, or the call of the extracted helper)
	var triBlock *ssa.BasicBlock
	if bs.fn == fn {
		triBlock = bs.iPhi.Block()
	} else {
		ssau.AllInstrs(fn, func(in ssa.Instruction) {
			if call, ok := in.(*ssa.Call); ok && call.Call.StaticCallee() == bs.fn {
				triBlock = call.Block()
			}
		})
	}
	if triBlock == nil {
		return
	}
	n := 0
	ssau.AllInstrs(fn, func(in ssa.Instruction) {
		iff, ok := in.(*ssa.If)
		if !ok {
			return
		}
		cond := iff.Cond
		neg := false
		if u, ok := cond.(*ssa.UnOp); ok && u.Op == token.NOT {
			cond, neg = u.X, true
		}
		ex, ok := cond.(*ssa.Extract)
		if !ok || ex.Index != 1 {
			return
		}
		lk, ok := ex.Tuple.(*ssa.Lookup)
		if !ok || ssau.FieldOf(loadAddr(lk.X)) != mapField {
			return
		}
		b := iff.Block()
		var inner *ssau.Loop
		for _, l := range loops {
			if l.Blocks[b] && (inner == nil || len(l.Blocks) < len(inner.Blocks)) {
				inner = l
			}
		}
		if inner == nil || !inner.Blocks[triBlock] {
			return // not in a cell loop (e.g. the per-corner loop, whose early exit XB-6 covers)
		}
		n++
		okSide, missSide := b.Succs[0], b.Succs[1]
		if neg {
			okSide, missSide = missSide, okSide
		}
		key := fmt.Sprintf("%s#blockPresent#%d", bs.name, n)
		okReaches := okSide == triBlock || reachesVia(okSide, triBlock, inner.Header)
		missReaches := missSide == triBlock || reachesVia(missSide, triBlock, inner.Header)
		switch {
		case !okReaches && missReaches:
			c.R.Violate("XB-7", key, c.P.Pos(iff.Pos()), "cells are skipped when the neighbouring block exists and triangulated when it is missing: the surface is left open along every block boundary")
		case !okReaches && !missReaches:
			// both sides skip: the lookup does not decide anything here
		default:
			c.R.Hold("XB-7", key, c.P.Pos(ssau.PosOf(lk)), "cells are triangulated on the side where the block lookup succeeded")
		}
	})
}

func isExtract(v ssa.Value, tuple ssa.Value, idx int) bool {
	ex, ok := v.(*ssa.Extract)
	return ok && ex.Tuple == tuple && ex.Index == idx
}

func isLenOfField(v ssa.Value) bool {
	call, ok := v.(*ssa.Call)
	return ok && ssau.Builtin(call) == "len" && ssau.FieldOf(loadAddr(call.Call.Args[0])) != nil
}
