package c09

// FIELD-IDX / FIELD-TREE / FIELD-CAP — index-space typing of spatial-query results.
//
// A field that is assembled from members (CombineFields: member fields; MultiSegmentLine: segments)
// asks an octree which members contain the sample point. The query answers with *element ids*
// (positions in the slice the tree was built from). Two integer spaces meet in such a function:
//
//	E  element id   — a value read out of the query result (elements[i], the range value)
//	H  hit position — a position in the result list (the loop counter bounded by len(elements))
//
// FIELD-IDX   every subscript of a per-member table inside the querying function is E (+ a constant
//             offset the tree's element was itself built with), or enumerates the whole table; an H
//             or a constant is the defect "the i-th hit is taken for member i".
// FIELD-TREE  the per-member table is the one the tree was built over: element k of the slice handed to
//             the tree constructor is built from table[k+a] (indexed build), or elements and table are
//             appended in lock-step from one member per iteration (map-of-slices build, same key).
// FIELD-CAP   the tree / table the closure sees at call time is the one of the iteration that created
//             the closure (a captured cell that is overwritten after the closure was made is not).
//
// That a tree answers with positions of its input slice is C16's IDENT-1, not re-derived here.

import (
	"fmt"
	"go/constant"
	"go/token"
	"go/types"
	"sort"
	"strings"

	"golang.org/x/tools/go/ssa"

	"polycheck/ob"
	"polycheck/props"
	"polycheck/ssau"
)

const fieldCtlFile = "modeling/marching/zz_verif_control_c09_field.go"

const fieldControls = `package marching

import (
	"math"

	"github.com/EliCDavis/polyform/math/geometry"
	"github.com/EliCDavis/polyform/trees"
	"github.com/EliCDavis/vector/vector3"
)

// must fire FIELD-OUT: +Inf where no member contains the point (through a helper and a negation)
func verifControlFieldBadInf(boxes []geometry.AABB) func(vector3.Float64) float64 {
	elems := make([]trees.Element, len(boxes))
	for i := range boxes {
		elems[i] = trees.BoundingBoxElement(boxes[i])
	}
	tree := trees.NewOctree(elems)
	return func(p vector3.Float64) float64 {
		s := verifControlFieldFar()
		for _, h := range tree.ElementsContainingPoint(p) {
			s = math.Min(s, boxes[h].Size().X())
		}
		return s
	}
}

func verifControlFieldFar() float64 { return -math.Inf(-1) }

// must fire COMB-1: the fold stops as soon as the running value is negative
func verifControlFieldBadEarlyExit(boxes []geometry.AABB) func(vector3.Float64) float64 {
	elems := make([]trees.Element, len(boxes))
	for i := range boxes {
		elems[i] = trees.BoundingBoxElement(boxes[i])
	}
	tree := trees.NewOctree(elems)
	return func(p vector3.Float64) float64 {
		hits := tree.ElementsContainingPoint(p)
		s := 1.
		for i := 0; i < len(hits) && s >= 0; i++ {
			s = math.Min(s, boxes[hits[i]].Size().X())
		}
		return s
	}
}

// must fire DOM-1: the size is the signed difference of the two points
func verifControlDomBad(a, b vector3.Float64, r float64) geometry.AABB {
	box := geometry.NewAABB(a.Midpoint(b), b.Sub(a))
	box.Expand(r * 2)
	return box
}

// must stay silent: Abs of the difference, expanded; and the box of the points expanded by 2.5 radii
func verifControlDomGood(a, b vector3.Float64, r float64) (geometry.AABB, geometry.AABB) {
	box := geometry.NewAABB(a.Midpoint(b), b.Sub(a).Abs().Add(vector3.Fill(r*2)))
	pts := geometry.NewAABBFromPoints(a, b)
	margin := 2.5 * r
	pts.Expand(margin)
	return box, pts
}

// must stay silent: element id subscripts, other idioms than the repository (indexed build from a
// range copy, range over the hits, hoisted id, helper taking table and id, pre-filtered local slice)
func verifControlFieldGood(boxes []geometry.AABB) func(vector3.Float64) float64 {
	elems := make([]trees.Element, len(boxes))
	for i, b := range boxes {
		elems[i] = trees.BoundingBoxElement(b)
	}
	tree := trees.NewOctree(elems)
	return func(p vector3.Float64) float64 {
		hits := tree.ElementsContainingPoint(p)
		if len(hits) == 0 {
			return 0
		}
		first := hits[0]
		s := boxes[first].Center().X()
		picked := make([]geometry.AABB, 0, len(hits))
		for _, h := range hits {
			picked = append(picked, boxes[h])
			s = math.Min(s, verifControlFieldSize(boxes, h))
		}
		for i := 1; i < len(picked); i++ {
			s = math.Min(s, picked[i].Size().Y())
		}
		for i := 0; i < len(boxes); i++ {
			s = math.Min(s, boxes[i].Size().Z())
		}
		return s
	}
}

func verifControlFieldSize(all []geometry.AABB, id int) float64 { return all[id].Size().X() }

// must fire FIELD-IDX: the loop counter over the hit list subscripts the member table
func verifControlFieldBadCounter(boxes []geometry.AABB) func(vector3.Float64) float64 {
	elems := make([]trees.Element, len(boxes))
	for i := range boxes {
		elems[i] = trees.BoundingBoxElement(boxes[i])
	}
	tree := trees.NewOctree(elems)
	return func(p vector3.Float64) float64 {
		hits := tree.ElementsContainingPoint(p)
		s := 0.
		for i := range hits {
			s = math.Min(s, boxes[i].Size().X())
		}
		return s
	}
}

// must fire FIELD-IDX: element id shifted by an offset the elements were not built with
func verifControlFieldBadOffset(boxes []geometry.AABB) func(vector3.Float64) float64 {
	elems := make([]trees.Element, len(boxes)-1)
	for i := 0; i < len(boxes)-1; i++ {
		elems[i] = trees.BoundingBoxElement(boxes[i])
	}
	tree := trees.NewOctree(elems)
	return func(p vector3.Float64) float64 {
		s := 0.
		for _, h := range tree.ElementsContainingPoint(p) {
			s = math.Min(s, boxes[h+1].Size().X())
		}
		return s
	}
}

// must fire FIELD-IDX: element k is built from member k+1 but the table is read at k
func verifControlFieldBadBuild(boxes []geometry.AABB) func(vector3.Float64) float64 {
	elems := make([]trees.Element, len(boxes)-1)
	for i := 0; i < len(boxes)-1; i++ {
		elems[i] = trees.BoundingBoxElement(boxes[i+1])
	}
	tree := trees.NewOctree(elems)
	return func(p vector3.Float64) float64 {
		s := 0.
		for _, h := range tree.ElementsContainingPoint(p) {
			s = math.Min(s, boxes[h].Size().X())
		}
		return s
	}
}

// must fire FIELD-CAP: the table variable is overwritten after the closure was created
func verifControlFieldBadCapture(groups [][]geometry.AABB) []func(vector3.Float64) float64 {
	var out []func(vector3.Float64) float64
	var boxes []geometry.AABB
	for g := 0; g < len(groups); g++ {
		boxes = groups[g]
		elems := make([]trees.Element, len(boxes))
		for i := range boxes {
			elems[i] = trees.BoundingBoxElement(boxes[i])
		}
		tree := trees.NewOctree(elems)
		out = append(out, func(p vector3.Float64) float64 {
			s := 0.
			for _, h := range tree.ElementsContainingPoint(p) {
				s = math.Min(s, boxes[h].Size().X())
			}
			return s
		})
	}
	return out
}
`

// fiOrigin identifies "the same slice" on the building and on the querying side.
type fiOrigin struct {
	v   ssa.Value // a plain value (parameter, make, call result)
	m   ssa.Value // … or entry `key` of map m
	key ssa.Value
}

func (o fiOrigin) isMap() bool { return o.m != nil }

type fiFinding struct {
	rule, construct, msg string
	pos                  token.Pos
	verdict              ob.Verdict
	facts                []string
}

type fi struct {
	c         *props.Ctx
	treesPath string
	fns       []*ssa.Function
	callers   map[*ssa.Function][]ssa.CallInstruction
	closures  map[*ssa.Function][]*ssa.MakeClosure
	capDone   map[string]bool
	ctl       map[string][]fiFinding // control function name -> findings
	ctlSeen   map[string]bool
	cur       *ssa.Function // querying function being analysed (attribution of findings)
	sp        *ssa.Package
	// polarity of the march (POL-1 / TAB-3): a sample below the threshold is inside
	belowIsInside bool
	ord           map[string]int
}

func (x *fi) top(fn *ssa.Function) *ssa.Function {
	for fn.Parent() != nil {
		fn = fn.Parent()
	}
	return fn
}

func (x *fi) rec(at *ssa.Function, f fiFinding) {
	if x.c.P.IsControl(at.Pos()) {
		n := x.top(at).Name()
		x.ctl[n] = append(x.ctl[n], f)
		return
	}
	pos := x.c.P.Pos(f.pos)
	switch f.verdict {
	case ob.Holds:
		x.c.R.Hold(f.rule, f.construct, pos, f.facts...)
	case ob.Violation:
		x.c.R.Violate(f.rule, f.construct, pos, f.msg, f.facts...)
	default:
		x.c.R.Undecide(f.rule, f.construct, pos, f.msg, f.facts...)
	}
}

func fieldIdxRules(c *props.Ctx, sp *ssa.Package, belowIsInside bool) {
	tp := c.P.SSAPkg("trees")
	if tp == nil {
		c.R.Failf("anchor package trees (spatial queries used by the member-combining fields) not found")
		return
	}
	x := &fi{c: c, treesPath: tp.Pkg.Path(), fns: sortedFuncs(c, sp),
		callers: map[*ssa.Function][]ssa.CallInstruction{}, closures: map[*ssa.Function][]*ssa.MakeClosure{},
		capDone: map[string]bool{}, ctl: map[string][]fiFinding{}, ctlSeen: map[string]bool{}, ord: map[string]int{}, sp: sp, belowIsInside: belowIsInside}
	for _, fn := range x.fns {
		ssau.AllInstrs(fn, func(in ssa.Instruction) {
			switch t := in.(type) {
			case *ssa.MakeClosure:
				if f, ok := t.Fn.(*ssa.Function); ok {
					x.closures[f] = append(x.closures[f], t)
				}
			case ssa.CallInstruction:
				if f := t.Common().StaticCallee(); f != nil {
					x.callers[f] = append(x.callers[f], t)
				}
			}
		})
	}
	queries := 0
	for _, fn := range x.fns {
		var qs []*ssa.Call
		ssau.AllInstrs(fn, func(in ssa.Instruction) {
			if call, ok := in.(*ssa.Call); ok && x.isQuery(call) {
				qs = append(qs, call)
			}
		})
		for _, q := range qs {
			if c.P.IsControl(fn.Pos()) {
				x.ctlSeen[x.top(fn).Name()] = true
			} else {
				queries++
			}
			x.analyseQuery(fn, q)
		}
	}
	c.R.Extra["field_tree_queries"] = queries
	x.controls()

	treeOK := true
	for _, o := range c.R.Obs {
		if !o.Control && o.Rule == "FIELD-TREE" && o.Verdict != ob.Holds {
			treeOK = false
		}
	}
	c.R.Floor("FIELD-TREE", 2)
	c.R.Floor("FIELD-CAP", 3)
	if treeOK {
		c.R.Floor("FIELD-IDX", 4)
		c.R.Floor("FIELD-ALL", 2)
		c.R.Floor("FIELD-OUT", 3)
		c.R.Floor("COMB-1", 2)
	}
}

// isQuery: a method of package trees that answers with element ids ([]int, or (int, …)).
func (x *fi) isQuery(call *ssa.Call) bool {
	o := ssau.CalleeObj(call)
	if o == nil || o.Pkg() == nil || o.Pkg().Path() != x.treesPath {
		return false
	}
	sig, ok := o.Type().(*types.Signature)
	if !ok || sig.Recv() == nil || sig.Results().Len() == 0 {
		return false
	}
	return fiIsIntSlice(sig.Results().At(0).Type()) || (sig.Results().Len() > 1 && fiIsInt(sig.Results().At(0).Type()))
}

func fiIsInt(t types.Type) bool {
	b, ok := t.Underlying().(*types.Basic)
	return ok && b.Kind() == types.Int
}

func fiIsIntSlice(t types.Type) bool {
	s, ok := t.Underlying().(*types.Slice)
	return ok && fiIsInt(s.Elem())
}

// ---------------------------------------------------------------------------
// resolution of values through cells, closures and (unexported) parameters

func (x *fi) cellOf(addr ssa.Value) *ssa.Alloc {
	for depth := 0; depth < 8; depth++ {
		switch a := addr.(type) {
		case *ssa.Alloc:
			return a
		case *ssa.FreeVar:
			fn := a.Parent()
			mcs := x.closures[fn]
			if len(mcs) != 1 {
				return nil
			}
			idx := -1
			for i, fv := range fn.FreeVars {
				if fv == a {
					idx = i
				}
			}
			if idx < 0 || idx >= len(mcs[0].Bindings) {
				return nil
			}
			addr = mcs[0].Bindings[idx]
		default:
			return nil
		}
	}
	return nil
}

// cellValue: the one value ever stored into a variable cell (nil when there are several / none, or the
// address is used for anything but loads, stores and closure capture).
func (x *fi) cellValue(cell *ssa.Alloc) ssa.Value {
	var stores []*ssa.Store
	for _, r := range ssau.Refs(cell) {
		switch u := r.(type) {
		case *ssa.Store:
			if u.Addr != ssa.Value(cell) {
				return nil
			}
			stores = append(stores, u)
		case *ssa.UnOp, *ssa.MakeClosure, *ssa.DebugRef:
		default:
			return nil
		}
	}
	if len(stores) != 1 {
		return nil
	}
	x.captureCheck(cell, stores[0])
	return stores[0].Val
}

// captureCheck (FIELD-CAP): a closure that captures `cell` must not be followed by a store into the same
// cell instance (re-executing the cell's allocation gives a new instance).
func (x *fi) captureCheck(cell *ssa.Alloc, st *ssa.Store) {
	for _, r := range ssau.Refs(cell) {
		mc, ok := r.(*ssa.MakeClosure)
		if !ok {
			continue
		}
		cf, _ := mc.Fn.(*ssa.Function)
		if cf == nil {
			continue
		}
		name := cell.Comment
		for i, b := range mc.Bindings {
			if b == ssa.Value(cell) && i < len(cf.FreeVars) {
				name = cf.FreeVars[i].Name()
			}
		}
		key := x.c.P.FuncName(cf) + "." + name
		if x.capDone[key] {
			continue
		}
		x.capDone[key] = true
		at := mc.Pos()
		if !at.IsValid() {
			at = cf.Pos()
		}
		f := fiFinding{rule: "FIELD-CAP", construct: key, pos: at, verdict: ob.Holds,
			facts: []string{fmt.Sprintf("captured variable %s is assigned once per instance, before the closure is created", name)}}
		if fiStoreAfter(mc, st, cell) {
			f.verdict = ob.Violation
			f.pos = st.Pos()
			if !f.pos.IsValid() {
				f.pos = at
			}
			f.msg = fmt.Sprintf("the closure captures the variable %s itself, and the variable is assigned again after the closure was created (one variable for all iterations: a `for … := range` variable under the module's go 1.21 semantics, or a variable declared outside the loop): when the closure is called it subscripts the table of a later iteration with the element ids of its own tree", name)
			f.facts = nil
		}
		x.rec(cf, f)
	}
}

// storeAfter: can st execute after mc on the same instance of cell?
func fiStoreAfter(mc *ssa.MakeClosure, st *ssa.Store, cell *ssa.Alloc) bool {
	mb, sb, ab := mc.Block(), st.Block(), cell.Block()
	if mb == sb && ssau.Before(mc, st) {
		return true
	}
	if sb == ab {
		// reaching the store again means passing the allocation first (it precedes the store in its block)
		return false
	}
	seen := map[*ssa.BasicBlock]bool{}
	work := append([]*ssa.BasicBlock{}, mb.Succs...)
	for len(work) > 0 {
		b := work[len(work)-1]
		work = work[:len(work)-1]
		if seen[b] || b == ab {
			continue
		}
		seen[b] = true
		if b == sb {
			return true
		}
		work = append(work, b.Succs...)
	}
	return false
}

func (x *fi) singleCallArg(p *ssa.Parameter) ssa.Value {
	fn := p.Parent()
	if fn == nil || fn.Parent() != nil {
		return nil
	}
	if o := fn.Object(); o == nil || o.Exported() {
		return nil
	}
	cs := x.callers[fn]
	if len(cs) != 1 {
		return nil
	}
	for i, q := range fn.Params {
		if q == p && i < len(cs[0].Common().Args) {
			return cs[0].Common().Args[i]
		}
	}
	return nil
}

func (x *fi) resolve(v ssa.Value) ssa.Value {
	for depth := 0; depth < 40 && v != nil; depth++ {
		switch t := v.(type) {
		case *ssa.ChangeType:
			v = t.X
		case *ssa.MakeInterface:
			v = t.X
		case *ssa.UnOp:
			if t.Op != token.MUL {
				return v
			}
			switch a := t.X.(type) {
			case *ssa.FreeVar, *ssa.Alloc:
				cell := x.cellOf(a)
				if cell == nil {
					return v
				}
				nv := x.cellValue(cell)
				if nv == nil {
					return v
				}
				v = nv
			case *ssa.FieldAddr, *ssa.IndexAddr, *ssa.Global:
				return v
			default:
				// loading a struct through a pointer: the pointer carries the identity
				if p, ok := a.Type().Underlying().(*types.Pointer); ok {
					if _, ok := p.Elem().Underlying().(*types.Struct); ok {
						v = a
						continue
					}
				}
				return v
			}
		case *ssa.Parameter:
			arg := x.singleCallArg(t)
			if arg == nil {
				return v
			}
			v = arg
		default:
			return v
		}
	}
	return v
}

func (x *fi) keyID(k ssa.Value) ssa.Value {
	rk := x.resolve(k)
	if e, ok := rk.(*ssa.Extract); ok && e.Index == 1 {
		if n, ok := e.Tuple.(*ssa.Next); ok && !n.IsString {
			return n
		}
	}
	return rk
}

type fiEnv struct {
	isE map[*ssa.Parameter]bool
	tab map[*ssa.Parameter]fiOrigin
}

func (x *fi) originOf(v ssa.Value, env *fiEnv) fiOrigin {
	if p, ok := v.(*ssa.Parameter); ok && env != nil {
		if o, ok := env.tab[p]; ok {
			return o
		}
	}
	r := x.resolve(v)
	if p, ok := r.(*ssa.Parameter); ok && env != nil {
		if o, ok := env.tab[p]; ok {
			return o
		}
	}
	switch t := r.(type) {
	case *ssa.Extract:
		switch tu := t.Tuple.(type) {
		case *ssa.Next:
			if t.Index == 2 && !tu.IsString {
				if rg, ok := tu.Iter.(*ssa.Range); ok {
					if _, ok := rg.X.Type().Underlying().(*types.Map); ok {
						return fiOrigin{m: x.resolve(rg.X), key: tu}
					}
				}
			}
		case *ssa.Lookup:
			if t.Index == 0 {
				if _, ok := tu.X.Type().Underlying().(*types.Map); ok {
					return fiOrigin{m: x.resolve(tu.X), key: x.keyID(tu.Index)}
				}
			}
		}
	case *ssa.Lookup:
		if _, ok := t.X.Type().Underlying().(*types.Map); ok {
			return fiOrigin{m: x.resolve(t.X), key: x.keyID(t.Index)}
		}
	case *ssa.Slice:
		// a full re-slice keeps positions only when it starts at 0
		if t.Low == nil {
			return x.originOf(t.X, env)
		}
	}
	return fiOrigin{v: r}
}

// peel: v = root + off (root nil: constant)
func fiPeel(v ssa.Value) (ssa.Value, int64) {
	var off int64
	for depth := 0; depth < 16; depth++ {
		switch t := v.(type) {
		case *ssa.Const:
			if k, ok := ssau.ConstInt(t); ok {
				return nil, off + k
			}
			return v, off
		case *ssa.Convert:
			if fiIsInt(t.X.Type()) || fiIsInteger(t.X.Type()) {
				v = t.X
				continue
			}
			return v, off
		case *ssa.BinOp:
			if t.Op == token.ADD {
				if k, ok := ssau.ConstInt(t.Y); ok {
					off += k
					v = t.X
					continue
				}
				if k, ok := ssau.ConstInt(t.X); ok {
					off += k
					v = t.Y
					continue
				}
			}
			if t.Op == token.SUB {
				if k, ok := ssau.ConstInt(t.Y); ok {
					off -= k
					v = t.X
					continue
				}
			}
			return v, off
		default:
			return v, off
		}
	}
	return v, off
}

func fiIsInteger(t types.Type) bool {
	b, ok := t.Underlying().(*types.Basic)
	return ok && b.Info()&types.IsInteger != 0
}

func fiName(v ssa.Value) string {
	for depth := 0; depth < 6; depth++ {
		switch t := v.(type) {
		case *ssa.UnOp:
			v = t.X
		case *ssa.FreeVar:
			return t.Name()
		case *ssa.Parameter:
			return t.Name()
		case *ssa.Alloc:
			if t.Comment != "" {
				return t.Comment
			}
			return t.Name()
		case *ssa.Lookup:
			return fiName(t.X) + "[key]"
		case *ssa.Extract:
			if n, ok := t.Tuple.(*ssa.Next); ok {
				if rg, ok := n.Iter.(*ssa.Range); ok {
					return "range value of " + fiName(rg.X)
				}
			}
			v = t.Tuple
		case *ssa.Slice:
			v = t.X
		case *ssa.ChangeType:
			v = t.X
		case *ssa.MakeMap:
			return fmt.Sprintf("the map made at line %d", fiLine(t))
		default:
			return v.Name()
		}
	}
	return v.Name()
}

func fiLine(in ssa.Instruction) int {
	if fn := in.Parent(); fn != nil && fn.Prog != nil && in.Pos().IsValid() {
		return fn.Prog.Fset.Position(in.Pos()).Line
	}
	return 0
}

// ---------------------------------------------------------------------------
// one query

type fiTables struct {
	offs  map[fiOrigin]map[int64]bool
	names map[fiOrigin]string
}

func (x *fi) analyseQuery(g *ssa.Function, q *ssa.Call) {
	x.cur = g
	cc := q.Common()
	var recv ssa.Value
	if cc.IsInvoke() {
		recv = cc.Value
	} else if len(cc.Args) > 0 {
		recv = cc.Args[0]
	}
	if recv == nil {
		return
	}
	// the id sources of this query
	var result ssa.Value = q
	single := false
	if tup, ok := q.Type().(*types.Tuple); ok {
		single = true
		result = nil
		for _, r := range ssau.Refs(q) {
			if e, ok := r.(*ssa.Extract); ok && e.Index == 0 && tup.Len() > 0 {
				result = e
			}
		}
		if result == nil {
			return // the id is not used
		}
	}
	st := &fiScan{x: x, g: g, q: q, result: result, single: single}

	treeName := fiName(recv)
	treeKey := x.c.P.FuncName(g) + "→" + treeName
	tv := x.resolve(recv)
	ctor, _ := tv.(*ssa.Call)
	if ctor != nil && !x.isCtor(ctor) {
		ctor = nil
	}
	if ctor == nil {
		// only a problem when ids are used as subscripts at all
		st.tabs = &fiTables{offs: map[fiOrigin]map[int64]bool{}, names: map[fiOrigin]string{}}
		st.dry = true
		st.scan(g, nil, 0)
		if st.eSubs > 0 {
			x.rec(g, fiFinding{rule: "FIELD-TREE", construct: treeKey, pos: q.Pos(), verdict: ob.Undecided,
				msg: fmt.Sprintf("the ids %s answers subscript %d slice(s) here, but the tree cannot be traced to a constructor call of package trees (receiver resolves to %s): which slice the ids are positions of is not decided", fiCallee(q), st.eSubs, fiDescribe(tv))})
		}
		return
	}
	tabs, f := x.memberTables(ctor)
	f.rule, f.construct = "FIELD-TREE", treeKey
	if !f.pos.IsValid() {
		f.pos = ctor.Pos()
	}
	x.rec(g, f)
	if f.verdict != ob.Holds {
		return
	}
	st.tabs = tabs
	st.scan(g, nil, 0)
	if !single && st.judged > 0 {
		st.coverage()
		st.fold()
	}
	if st.judged > 0 {
		x.outsideValues(g, st)
	}
}

func fiCallee(c ssa.CallInstruction) string {
	if o := ssau.CalleeObj(c); o != nil {
		return o.Name()
	}
	return "the query"
}

func fiDescribe(v ssa.Value) string {
	if v == nil {
		return "nothing"
	}
	s := v.String()
	if len(s) > 90 {
		s = s[:90] + "…"
	}
	return fmt.Sprintf("%T %s", v, s)
}

// isCtor: a function of package trees (no receiver) whose first parameter is a slice and that returns a tree.
func (x *fi) isCtor(call *ssa.Call) bool {
	o := ssau.CalleeObj(call)
	if o == nil || o.Pkg() == nil || o.Pkg().Path() != x.treesPath {
		return false
	}
	sig, ok := o.Type().(*types.Signature)
	if !ok || sig.Recv() != nil || sig.Params().Len() == 0 || len(call.Call.Args) == 0 {
		return false
	}
	_, ok = sig.Params().At(0).Type().Underlying().(*types.Slice)
	return ok
}

// ---------------------------------------------------------------------------
// FIELD-TREE: which tables are the elements built from, and at which offsets

func (x *fi) memberTables(ctor *ssa.Call) (*fiTables, fiFinding) {
	tabs := &fiTables{offs: map[fiOrigin]map[int64]bool{}, names: map[fiOrigin]string{}}
	arg := ctor.Call.Args[0]
	o := x.originOf(arg, nil)
	if o.isMap() {
		return tabs, x.lockstep(ctor, o, tabs)
	}
	if ms, ok := o.v.(*ssa.MakeSlice); ok {
		return tabs, x.indexedBuild(ctor, ms, tabs)
	}
	return tabs, fiFinding{verdict: ob.Undecided, pos: ctor.Pos(),
		msg: fmt.Sprintf("the element slice handed to %s is neither a make()d slice filled by position nor a map entry grown by append (it resolves to %s): element id ↔ member correspondence not decided", fiCallee(ctor), fiDescribe(o.v))}
}

type fiSub struct {
	base ssa.Value
	idx  ssa.Value
	at   token.Pos
}

type fiField struct {
	base  ssa.Value
	field int
	ft    types.Type
}

// slice walks backwards from v over the values it is built from and reports table subscripts and
// (when stopAtField) struct field reads.
func (x *fi) backward(v ssa.Value, stopAtField bool) (subs []fiSub, fields []fiField) {
	seen := map[ssa.Value]bool{}
	var visit func(v ssa.Value)
	var visitCell func(a ssa.Value, field int)
	visitCell = func(a ssa.Value, field int) {
		for _, r := range ssau.Refs(a) {
			switch u := r.(type) {
			case *ssa.Store:
				if u.Addr == a {
					visit(u.Val)
				}
			case *ssa.FieldAddr:
				if field >= 0 && u.Field != field {
					continue
				}
				for _, r2 := range ssau.Refs(u) {
					if s, ok := r2.(*ssa.Store); ok && s.Addr == ssa.Value(u) {
						visit(s.Val)
					}
				}
			case *ssa.IndexAddr:
				for _, r2 := range ssau.Refs(u) {
					if s, ok := r2.(*ssa.Store); ok && s.Addr == ssa.Value(u) {
						visit(s.Val)
					}
				}
			}
		}
	}
	visit = func(v ssa.Value) {
		if v == nil || seen[v] {
			return
		}
		seen[v] = true
		switch t := v.(type) {
		case *ssa.MakeInterface:
			visit(t.X)
		case *ssa.ChangeType:
			visit(t.X)
		case *ssa.Convert:
			visit(t.X)
		case *ssa.ChangeInterface:
			visit(t.X)
		case *ssa.Alloc:
			visitCell(t, -1)
		case *ssa.UnOp:
			if t.Op != token.MUL {
				visit(t.X)
				return
			}
			switch a := t.X.(type) {
			case *ssa.IndexAddr:
				subs = append(subs, fiSub{a.X, a.Index, a.Pos()})
			case *ssa.FieldAddr:
				if stopAtField {
					ft := fiDerefField(a.X.Type(), a.Field)
					fields = append(fields, fiField{a.X, a.Field, ft})
					return
				}
				switch b := a.X.(type) {
				case *ssa.Alloc:
					visitCell(b, a.Field)
				case *ssa.IndexAddr:
					subs = append(subs, fiSub{b.X, b.Index, b.Pos()})
				default:
					visit(b)
				}
			case *ssa.Alloc:
				visitCell(a, -1)
			case *ssa.FreeVar:
				if cell := x.cellOf(a); cell != nil {
					visitCell(cell, -1)
				}
			default:
				visit(a)
			}
		case *ssa.Field:
			if stopAtField {
				fields = append(fields, fiField{t.X, t.Field, t.Type()})
				return
			}
			visit(t.X)
		case *ssa.Extract:
			visit(t.Tuple)
		case *ssa.Next:
			visit(t.Iter)
		case *ssa.Range:
			visit(t.X)
		case *ssa.Lookup:
			visit(t.X)
			visit(t.Index)
		case *ssa.Index:
			visit(t.X)
		case *ssa.Slice:
			visit(t.X)
		case *ssa.BinOp:
			visit(t.X)
			visit(t.Y)
		case *ssa.Phi:
			for _, e := range t.Edges {
				visit(e)
			}
		case *ssa.Call:
			if _, ok := t.Call.Value.(*ssa.Builtin); !ok && !t.Call.IsInvoke() && t.Call.StaticCallee() == nil {
				visit(t.Call.Value)
			}
			if t.Call.IsInvoke() {
				visit(t.Call.Value)
			}
			for _, a := range t.Call.Args {
				visit(a)
			}
		}
	}
	visit(v)
	return
}

func fiDerefField(t types.Type, f int) types.Type {
	if p, ok := t.Underlying().(*types.Pointer); ok {
		t = p.Elem()
	}
	if s, ok := t.Underlying().(*types.Struct); ok && f < s.NumFields() {
		return s.Field(f).Type()
	}
	return nil
}

// indexedBuild: elems := make([]E, n); elems[p] = element(table[p+a], …)
func (x *fi) indexedBuild(ctor *ssa.Call, ms *ssa.MakeSlice, tabs *fiTables) fiFinding {
	und := func(pos token.Pos, format string, a ...any) fiFinding {
		return fiFinding{verdict: ob.Undecided, pos: pos, msg: fmt.Sprintf(format, a...)}
	}
	aliases := []ssa.Value{ms}
	for _, r := range ssau.Refs(ms) {
		if s, ok := r.(*ssa.Store); ok && s.Val == ssa.Value(ms) {
			if cell, ok := s.Addr.(*ssa.Alloc); ok && x.cellValue(cell) == ssa.Value(ms) {
				for _, r2 := range ssau.Refs(cell) {
					if u, ok := r2.(*ssa.UnOp); ok && u.Op == token.MUL {
						aliases = append(aliases, u)
					}
				}
				continue
			}
			return und(s.Pos(), "the element slice is stored somewhere else before the tree is built")
		}
	}
	type est struct {
		ia *ssa.IndexAddr
		st *ssa.Store
	}
	var stores []est
	for _, a := range aliases {
		for _, r := range ssau.Refs(a) {
			switch u := r.(type) {
			case *ssa.IndexAddr:
				for _, r2 := range ssau.Refs(u) {
					switch w := r2.(type) {
					case *ssa.Store:
						if w.Addr == ssa.Value(u) {
							stores = append(stores, est{u, w})
						}
					case *ssa.UnOp, *ssa.DebugRef:
					default:
						return und(u.Pos(), "the address of an element of the slice handed to the tree escapes")
					}
				}
			case *ssa.Store, *ssa.DebugRef:
			case *ssa.Call:
				if u == ctor || ssau.Builtin(u) == "len" || ssau.Builtin(u) == "cap" || x.isCtor(u) {
					continue
				}
				return und(u.Pos(), "the element slice is passed to %s before the tree is built", fiCallee(u))
			default:
				return und(ctor.Pos(), "the element slice is used by %T: positions may change before the tree is built", r)
			}
		}
	}
	if len(stores) == 0 {
		return und(ctor.Pos(), "no element store into the slice handed to %s was found", fiCallee(ctor))
	}
	var facts []string
	for _, e := range stores {
		proot, poff := fiPeel(e.ia.Index)
		subs, _ := x.backward(e.st.Val, false)
		if len(subs) == 0 {
			return und(e.st.Pos(), "the element stored at position %s is not built from any slice element: no per-member table to relate the ids to", fiExpr(proot, poff))
		}
		for _, s := range subs {
			r, o := fiPeel(s.idx)
			org := x.originOf(s.base, nil)
			if r != proot {
				return und(s.at, "element %s of the tree's slice is built from %s[%s]: not the element position plus a constant", fiExpr(proot, poff), fiName(s.base), fiExpr(r, o))
			}
			if tabs.offs[org] == nil {
				tabs.offs[org] = map[int64]bool{}
				tabs.names[org] = fiName(s.base)
			}
			tabs.offs[org][o-poff] = true
		}
	}
	var names []string
	for org, n := range tabs.names {
		names = append(names, fmt.Sprintf("element k is built from %s[k%s]", n, fiOffList(tabs.offs[org])))
	}
	sort.Strings(names)
	facts = append(facts, names...)
	return fiFinding{verdict: ob.Holds, pos: ctor.Pos(), facts: facts}
}

func fiExpr(root ssa.Value, off int64) string {
	if root == nil {
		return fmt.Sprint(off)
	}
	n := root.Name()
	if p, ok := root.(*ssa.Phi); ok && p.Comment != "" && p.Comment != "rangeindex" {
		n = p.Comment
	} else if ok && p.Comment == "rangeindex" {
		n = "the range index" // the index used in the body is this phi plus one
		off--
	}
	if c, ok := root.(*ssa.Call); ok && ssau.Builtin(c) == "len" && len(c.Call.Args) == 1 {
		n = "len(" + fiName(c.Call.Args[0]) + ")"
	}
	if off == 0 {
		return n
	}
	return fmt.Sprintf("%s%+d", n, off)
}

func fiOffList(m map[int64]bool) string {
	if len(m) == 1 && m[0] {
		return ""
	}
	var ks []int64
	for k := range m {
		ks = append(ks, k)
	}
	sort.Slice(ks, func(i, j int) bool { return ks[i] < ks[j] })
	var s []string
	for _, k := range ks {
		s = append(s, fmt.Sprintf("%+d", k))
	}
	return strings.Join(s, ",")
}

type fiUpdate struct {
	u     *ssa.MapUpdate
	reset bool
	elem  ssa.Value // appended element (append updates)
}

// mapUpdates classifies every write into map m (nil, reason on anything else than reset / append-one).
func (x *fi) mapUpdates(m ssa.Value) ([]fiUpdate, string, token.Pos) {
	var out []fiUpdate
	for _, r := range ssau.Refs(m) {
		switch u := r.(type) {
		case *ssa.MapUpdate:
			if u.Map != m {
				return nil, "the map is stored as a value of another map", u.Pos()
			}
			fu := fiUpdate{u: u}
			switch v := u.Value.(type) {
			case *ssa.Slice:
				if a, ok := v.X.(*ssa.Alloc); ok && v.Low == nil {
					if p, ok := a.Type().Underlying().(*types.Pointer); ok {
						if arr, ok := p.Elem().Underlying().(*types.Array); ok && arr.Len() == 0 {
							fu.reset = true
						}
					}
				}
			case *ssa.MakeSlice:
				if k, ok := ssau.ConstInt(v.Len); ok && k == 0 {
					fu.reset = true
				}
			case *ssa.Const:
				fu.reset = v.IsNil()
			case *ssa.Call:
				if ssau.Builtin(v) == "append" && len(v.Call.Args) == 2 {
					base := v.Call.Args[0]
					if e, ok := base.(*ssa.Extract); ok {
						base = e.Tuple
					}
					lk, ok := base.(*ssa.Lookup)
					if !ok || lk.X != m || x.keyID(lk.Index) != x.keyID(u.Key) {
						return nil, "an entry is replaced by an append onto something else than the same entry", u.Pos()
					}
					if sl, ok := v.Call.Args[1].(*ssa.Slice); ok {
						if a, ok := sl.X.(*ssa.Alloc); ok {
							var elems []ssa.Value
							n := int64(-1)
							if p, ok := a.Type().Underlying().(*types.Pointer); ok {
								if arr, ok := p.Elem().Underlying().(*types.Array); ok {
									n = arr.Len()
								}
							}
							for _, r2 := range ssau.Refs(a) {
								if ia, ok := r2.(*ssa.IndexAddr); ok {
									for _, r3 := range ssau.Refs(ia) {
										if s, ok := r3.(*ssa.Store); ok {
											elems = append(elems, s.Val)
										}
									}
								}
							}
							if n == 1 && len(elems) == 1 {
								fu.elem = elems[0]
							}
						}
					}
				}
			}
			if !fu.reset && fu.elem == nil {
				return nil, "an entry is assigned something else than an empty slice or `append(entry, one element)`", u.Pos()
			}
			out = append(out, fu)
		case *ssa.Lookup, *ssa.Range, *ssa.DebugRef:
		case *ssa.Store:
			if cell, ok := u.Addr.(*ssa.Alloc); ok && x.cellValue(cell) == m {
				// captured map variable: every load of the cell must be a read
				for _, r2 := range ssau.Refs(cell) {
					if ld, ok := r2.(*ssa.UnOp); ok {
						for _, r3 := range ssau.Refs(ld) {
							switch r3.(type) {
							case *ssa.Lookup, *ssa.Range, *ssa.DebugRef:
							default:
								return nil, "the map is modified through a captured variable", r3.Pos()
							}
						}
					}
				}
				continue
			}
			return nil, "the map is stored somewhere else", u.Pos()
		case *ssa.Call:
			if b := ssau.Builtin(u); b == "len" {
				continue
			}
			return nil, fmt.Sprintf("the map is passed to %s", fiCallee(u)), u.Pos()
		default:
			return nil, fmt.Sprintf("the map is used by %T", r), r.Pos()
		}
	}
	return out, "", token.NoPos
}

// lockstep: elements = mE[k] and table = mT[k] are grown by one append each in the same iteration, from
// the same member.
func (x *fi) lockstep(ctor *ssa.Call, el fiOrigin, tabs *fiTables) fiFinding {
	und := func(pos token.Pos, format string, a ...any) fiFinding {
		if !pos.IsValid() {
			pos = ctor.Pos()
		}
		return fiFinding{verdict: ob.Undecided, pos: pos, msg: fmt.Sprintf(format, a...)}
	}
	if _, ok := el.m.(*ssa.MakeMap); !ok {
		return und(ctor.Pos(), "the map holding the element slices does not resolve to a make(map) in the building function (%s)", fiDescribe(el.m))
	}
	eu, why, pos := x.mapUpdates(el.m)
	if eu == nil {
		return und(pos, "element map %s: %s", fiName(el.m), why)
	}
	fn := ctor.Parent()
	// candidate tables: every other make(map[K][]T) of the building function that has an append in the same
	// block, under the same key, as an element append
	var eApp []fiUpdate
	for _, u := range eu {
		if !u.reset {
			eApp = append(eApp, u)
		}
	}
	if len(eApp) == 0 {
		return und(ctor.Pos(), "no append onto an entry of the element map found")
	}
	var facts []string
	found := 0
	var maps []*ssa.MakeMap
	ssau.AllInstrs(fn, func(in ssa.Instruction) {
		if mm, ok := in.(*ssa.MakeMap); ok && ssa.Value(mm) != el.m {
			if mt, ok := mm.Type().Underlying().(*types.Map); ok {
				if _, ok := mt.Elem().Underlying().(*types.Slice); ok {
					maps = append(maps, mm)
				}
			}
		}
	})
	for _, mm := range maps {
		tu, _, _ := x.mapUpdates(mm)
		if tu == nil {
			continue
		}
		var tApp, tReset []fiUpdate
		for _, u := range tu {
			if u.reset {
				tReset = append(tReset, u)
			} else {
				tApp = append(tApp, u)
			}
		}
		// pair the appends
		if len(tApp) != len(eApp) {
			continue
		}
		paired := true
		var pairFacts []string
		var bad *fiFinding
		for _, ea := range eApp {
			var mate *fiUpdate
			for i := range tApp {
				if tApp[i].u.Block() == ea.u.Block() && x.keyID(tApp[i].u.Key) == x.keyID(ea.u.Key) {
					mate = &tApp[i]
				}
			}
			if mate == nil {
				paired = false
				break
			}
			f, fact := x.sameMember(ea, *mate)
			if f != nil {
				bad = f
				break
			}
			pairFacts = append(pairFacts, fact)
		}
		if !paired {
			continue
		}
		if bad != nil {
			return *bad
		}
		// resets must come in pairs too (or be guarded by the entry's own absence)
		var eReset []fiUpdate
		for _, u := range eu {
			if u.reset {
				eReset = append(eReset, u)
			}
		}
		if f := x.resetsPaired(eReset, tReset, el.m, mm); f != nil {
			return *f
		}
		org := fiOrigin{m: mm, key: el.key}
		tabs.offs[org] = map[int64]bool{0: true}
		tabs.names[org] = fiName(mm) + "[key]"
		found++
		facts = append(facts, pairFacts...)
	}
	if found == 0 {
		return und(ctor.Pos(), "no per-member table grown in lock-step with the element slices %s[key] was found (one append per table, in the same iteration, under the same key)", fiName(el.m))
	}
	sort.Strings(facts)
	return fiFinding{verdict: ob.Holds, pos: ctor.Pos(), facts: facts}
}

func (x *fi) resetsPaired(er, tr []fiUpdate, em, tm ssa.Value) *fiFinding {
	match := func(a []fiUpdate, b []fiUpdate) *fiUpdate {
		for i := range a {
			ok := false
			for _, o := range b {
				if o.u.Block() == a[i].u.Block() && x.keyID(o.u.Key) == x.keyID(a[i].u.Key) {
					ok = true
				}
			}
			// the two maps have the same keys (lock-step appends), so absence in either is absence in both
			if !ok && !fiGuardedByAbsence(a[i].u, em, x) && !fiGuardedByAbsence(a[i].u, tm, x) {
				return &a[i]
			}
		}
		return nil
	}
	if u := match(er, tr); u != nil {
		return &fiFinding{verdict: ob.Undecided, pos: u.u.Pos(), msg: "the element slice of a key is emptied where the member table of that key is not: positions may drift apart"}
	}
	if u := match(tr, er); u != nil {
		return &fiFinding{verdict: ob.Undecided, pos: u.u.Pos(), msg: "the member table of a key is emptied where the element slice of that key is not: positions may drift apart"}
	}
	return nil
}

// guardedByAbsence: the update sits on the `!ok` side of `_, ok := m[key]` for its own map and key.
func fiGuardedByAbsence(u *ssa.MapUpdate, m ssa.Value, x *fi) bool {
	b := u.Block()
	if len(b.Preds) != 1 {
		return false
	}
	p := b.Preds[0]
	iff, ok := p.Instrs[len(p.Instrs)-1].(*ssa.If)
	if !ok {
		return false
	}
	e, ok := iff.Cond.(*ssa.Extract)
	if !ok || e.Index != 1 {
		return false
	}
	lk, ok := e.Tuple.(*ssa.Lookup)
	if !ok || lk.X != m || x.keyID(lk.Index) != x.keyID(u.Key) {
		return false
	}
	return p.Succs[1] == b
}

// sameMember: the element appended to the element slice is the bounding box of the member whose
// function (under the update's key) is appended to the table.
func (x *fi) sameMember(ea, ta fiUpdate) (*fiFinding, string) {
	und := func(pos token.Pos, format string, a ...any) *fiFinding {
		return &fiFinding{verdict: ob.Undecided, pos: pos, msg: fmt.Sprintf(format, a...)}
	}
	_, ef := x.backward(ea.elem, true)
	_, tf := x.backward(ta.elem, true)
	ef, tf = fiDedupFields(ef), fiDedupFields(tf)
	if len(ef) != 1 {
		return und(ea.u.Pos(), "the appended tree element reads %d struct fields; expected exactly the member's bounding box", len(ef)), ""
	}
	if len(tf) != 1 {
		return und(ta.u.Pos(), "the appended table entry reads %d struct fields; expected exactly the member's function map", len(tf)), ""
	}
	if n := ssau.NamedOf(ef[0].ft); n == nil || n.Obj().Name() != "AABB" {
		return und(ea.u.Pos(), "the appended tree element is not built from a bounding-box field of the member (field type %v)", ef[0].ft), ""
	}
	mt, ok := tf[0].ft.Underlying().(*types.Map)
	if !ok {
		return und(ta.u.Pos(), "the appended table entry is not read from a map field of the member (field type %v)", tf[0].ft), ""
	}
	_ = mt
	// the table entry is the map field's value under the update's key
	okKey := false
	switch t := ta.elem.(type) {
	case *ssa.Extract:
		if n, ok := t.Tuple.(*ssa.Next); ok && t.Index == 2 && x.keyID(ta.u.Key) == ssa.Value(n) {
			okKey = true
		}
		if lk, ok := t.Tuple.(*ssa.Lookup); ok && t.Index == 0 && x.keyID(lk.Index) == x.keyID(ta.u.Key) {
			okKey = true
		}
	case *ssa.Lookup:
		okKey = x.keyID(t.Index) == x.keyID(ta.u.Key)
	}
	if !okKey {
		return und(ta.u.Pos(), "the table entry appended under a key is not the member's function for that same key"), ""
	}
	eb, tb := fiMemberKey(x, ef[0].base), fiMemberKey(x, tf[0].base)
	if eb == "" || tb == "" {
		return und(ea.u.Pos(), "the member the tree element / the table entry is read from is not a loop variable or slice element"), ""
	}
	if eb != tb {
		return &fiFinding{verdict: ob.Violation, pos: ea.u.Pos(),
			msg: fmt.Sprintf("tree element k is built from the bounding box of %s but table entry k is the function of %s: the ids the tree answers do not name the member whose function is looked up", eb, tb)}, ""
	}
	// a member variable cell: written once, before both appends
	if cell, ok := ef[0].base.(*ssa.Alloc); ok {
		var stores []*ssa.Store
		for _, r := range ssau.Refs(cell) {
			if s, ok := r.(*ssa.Store); ok && s.Addr == ssa.Value(cell) {
				stores = append(stores, s)
			}
		}
		if len(stores) != 1 || !stores[0].Block().Dominates(ea.u.Block()) {
			return und(ea.u.Pos(), "the member variable %s is assigned %d times / not before the appends", cell.Comment, len(stores)), ""
		}
	}
	return nil, fmt.Sprintf("per key: %s gets the member's %s, %s gets the same member's %s in the same iteration",
		fiName(ea.u.Map), fiFieldName(ef[0]), fiName(ta.u.Map), fiFieldName(tf[0]))
}

func fiFieldName(f fiField) string {
	t := f.base.Type()
	if p, ok := t.Underlying().(*types.Pointer); ok {
		t = p.Elem()
	}
	if s, ok := t.Underlying().(*types.Struct); ok && f.field < s.NumFields() {
		return s.Field(f.field).Name()
	}
	return fmt.Sprintf("field#%d", f.field)
}

func fiDedupFields(fs []fiField) []fiField {
	var out []fiField
	for _, f := range fs {
		dup := false
		for _, o := range out {
			if o.base == f.base && o.field == f.field {
				dup = true
			}
		}
		if !dup {
			out = append(out, f)
		}
	}
	return out
}

func fiMemberKey(x *fi, base ssa.Value) string {
	switch b := base.(type) {
	case *ssa.Alloc:
		return "variable " + b.Comment + "@" + b.Name()
	case *ssa.IndexAddr:
		r, o := fiPeel(b.Index)
		return fmt.Sprintf("%s[%s]", fiName(b.X), fiExpr(r, o))
	case *ssa.UnOp:
		if ia, ok := b.X.(*ssa.IndexAddr); ok && b.Op == token.MUL {
			r, o := fiPeel(ia.Index)
			return fmt.Sprintf("%s[%s]", fiName(ia.X), fiExpr(r, o))
		}
	}
	return ""
}

// ---------------------------------------------------------------------------
// FIELD-IDX: subscripts in the querying function (and the helpers ids / tables are passed to)

type fiScan struct {
	x      *fi
	g      *ssa.Function
	q      *ssa.Call
	result ssa.Value
	single bool
	tabs   *fiTables
	dry    bool
	eSubs  int
	judged int // member-table subscripts judged
}

func (s *fiScan) isResult(v ssa.Value) bool {
	for depth := 0; depth < 6; depth++ {
		if v == s.result && !s.single {
			return true
		}
		switch t := v.(type) {
		case *ssa.Slice:
			v = t.X
		case *ssa.ChangeType:
			v = t.X
		case *ssa.UnOp:
			if t.Op != token.MUL {
				return false
			}
			cell := s.x.cellOf(t.X)
			if cell == nil {
				return false
			}
			nv := s.x.cellValue(cell)
			if nv == nil {
				return false
			}
			v = nv
		default:
			return false
		}
	}
	return false
}

func (s *fiScan) isE(v ssa.Value, env *fiEnv, seen map[ssa.Value]bool) bool {
	if v == nil || seen[v] {
		return false
	}
	seen[v] = true
	if s.single && v == s.result {
		return true
	}
	switch t := v.(type) {
	case *ssa.Parameter:
		return env != nil && env.isE[t]
	case *ssa.Convert:
		return s.isE(t.X, env, seen)
	case *ssa.ChangeType:
		return s.isE(t.X, env, seen)
	case *ssa.UnOp:
		if t.Op != token.MUL {
			return false
		}
		switch a := t.X.(type) {
		case *ssa.IndexAddr:
			return s.isResult(a.X)
		case *ssa.Alloc, *ssa.FreeVar:
			cell := s.x.cellOf(a)
			if cell == nil {
				return false
			}
			n, all := 0, true
			for _, r := range ssau.Refs(cell) {
				if st, ok := r.(*ssa.Store); ok && st.Addr == ssa.Value(cell) {
					n++
					if !s.isE(st.Val, env, seen) {
						all = false
					}
				}
			}
			return n > 0 && all
		}
	case *ssa.Phi:
		for _, e := range t.Edges {
			if e == ssa.Value(t) {
				continue
			}
			if !s.isE(e, env, seen) {
				return false
			}
		}
		return len(t.Edges) > 0
	}
	return false
}

// hitPosition: v counts positions of the result list (subscripts it, or is bounded by its length).
func (s *fiScan) hitPosition(v ssa.Value) bool {
	if s.lenOfResult(v) {
		return true
	}
	cands := []ssa.Value{v}
	if p, ok := v.(*ssa.Phi); ok {
		cands = append(cands, p.Edges...)
	}
	for _, r := range ssau.Refs(v) {
		if b, ok := r.(*ssa.BinOp); ok && (b.Op == token.ADD || b.Op == token.SUB) {
			cands = append(cands, b)
		}
	}
	for _, c := range cands {
		if c == nil {
			continue
		}
		for _, r := range ssau.Refs(c) {
			switch u := r.(type) {
			case *ssa.IndexAddr:
				if u.Index == c && s.isResult(u.X) {
					return true
				}
			case *ssa.BinOp:
				switch u.Op {
				case token.LSS, token.LEQ, token.GTR, token.GEQ, token.NEQ, token.EQL:
					other := u.X
					if other == c {
						other = u.Y
					}
					if s.lenOfResult(other) {
						return true
					}
				}
			}
		}
	}
	return false
}

func (s *fiScan) lenOfResult(v ssa.Value) bool {
	r, _ := fiPeel(v)
	call, ok := r.(*ssa.Call)
	return ok && ssau.Builtin(call) == "len" && len(call.Call.Args) == 1 && s.isResult(call.Call.Args[0])
}

// enumeratesTable: v is a loop counter bounded by the length of the table it subscripts.
func (s *fiScan) enumeratesTable(v ssa.Value, org fiOrigin, env *fiEnv) bool {
	cands := []ssa.Value{v}
	if p, ok := v.(*ssa.Phi); ok {
		cands = append(cands, p.Edges...)
	}
	if b, ok := v.(*ssa.BinOp); ok {
		cands = append(cands, b.X)
	}
	for _, r := range ssau.Refs(v) {
		if b, ok := r.(*ssa.BinOp); ok && (b.Op == token.ADD) {
			cands = append(cands, b)
		}
	}
	for _, c := range cands {
		if c == nil {
			continue
		}
		for _, r := range ssau.Refs(c) {
			u, ok := r.(*ssa.BinOp)
			if !ok || u.Op != token.LSS || u.X != c {
				continue
			}
			call, ok := u.Y.(*ssa.Call)
			if ok && ssau.Builtin(call) == "len" && len(call.Call.Args) == 1 && s.x.originOf(call.Call.Args[0], env) == org {
				return true
			}
		}
	}
	return false
}

func (s *fiScan) scan(h *ssa.Function, env *fiEnv, depth int) {
	if depth > 3 || h == nil || len(h.Blocks) == 0 {
		return
	}
	x := s.x
	type sub struct {
		base, idx ssa.Value
		pos       token.Pos
	}
	var subs []sub
	var calls []*ssa.Call
	ssau.AllInstrs(h, func(in ssa.Instruction) {
		switch t := in.(type) {
		case *ssa.IndexAddr:
			subs = append(subs, sub{t.X, t.Index, t.Pos()})
		case *ssa.Index:
			subs = append(subs, sub{t.X, t.Index, t.Pos()})
		case *ssa.Call:
			calls = append(calls, t)
		}
	})
	for _, sb := range subs {
		if s.isResult(sb.base) {
			continue
		}
		root, off := fiPeel(sb.idx)
		e := root != nil && s.isE(root, env, map[ssa.Value]bool{})
		org := x.originOf(sb.base, env)
		offs := s.tabs.offs[org]
		if offs == nil {
			if e {
				s.eSubs++
				if !s.dry && org.isMap() {
					other := false
					for t := range s.tabs.offs {
						if t.isMap() && t.m == org.m && t.key != org.key {
							other = true
						}
					}
					if other {
						s.judged++
						name := fiName(sb.base)
						x.rec(s.g, fiFinding{rule: "FIELD-IDX", construct: s.key(h, name), pos: sb.pos, verdict: ob.Violation,
							msg: fmt.Sprintf("the element ids subscript the member table of one key (%s) but the tree that answered them was built from the element slice of another key: id k of that tree is not member k of this table", name)})
						continue
					}
				}
				if !s.dry {
					name := fiName(sb.base)
					x.rec(s.g, fiFinding{rule: "FIELD-IDX", construct: s.key(h, name), pos: sb.pos, verdict: ob.Undecided,
						msg: fmt.Sprintf("an element id answered by %s subscripts %s, which is not a slice the tree's elements were built from (known per-member tables: %s): that position k of it belongs to element k is not decided", fiCallee(s.q), name, s.tableNames())})
				}
			}
			continue
		}
		if s.dry {
			continue
		}
		s.judged++
		name := s.tabs.names[org]
		if n := fiName(sb.base); n != "" && !strings.HasPrefix(n, "t") {
			name = n
		}
		f := fiFinding{rule: "FIELD-IDX", construct: s.key(h, name), pos: sb.pos}
		switch {
		case e && offs[off]:
			f.verdict = ob.Holds
			f.facts = []string{fmt.Sprintf("%s[id%s]: id is read from the result of %s; the tree's element k is built from %s[k%s]", name, fiOffStr(off), fiCallee(s.q), name, fiOffList(offs))}
		case e:
			f.verdict = ob.Violation
			f.msg = fmt.Sprintf("%s is subscripted with element id %s, but the tree's element k is built from %s[k%s]: the entry read does not belong to the element the tree reported", name, fiOffStr(off), name, fiOffList(offs))
		case root == nil:
			f.verdict = ob.Violation
			f.msg = fmt.Sprintf("per-member table %s is subscripted with the constant %d inside the function that asks the tree which members contain the point: member %d is used whatever the tree answered (an element id read from the query result is required)", name, off, off)
		case s.hitPosition(root):
			f.verdict = ob.Violation
			f.msg = fmt.Sprintf("per-member table %s is subscripted with %s, a position in the hit list of %s, not with the element id stored at that position: the i-th hit is taken for member i, so whenever the tree reports members in another order than 0,1,2… a member that does not contain the point is sampled and one that does is skipped", name, fiExpr(root, off), fiCallee(s.q))
		case s.enumeratesTable(root, org, env):
			f.verdict = ob.Holds
			f.facts = []string{fmt.Sprintf("%s[%s] enumerates the whole table (counter bounded by its length)", name, fiExpr(root, off))}
		default:
			f.verdict = ob.Undecided
			f.msg = fmt.Sprintf("per-member table %s is subscripted with %s, which is neither an element id read from the result of %s nor a counter over the whole table", name, fiExpr(root, off), fiCallee(s.q))
		}
		x.rec(s.g, f)
	}
	// helpers that receive ids or tables
	for _, call := range calls {
		callee := call.Call.StaticCallee()
		if callee == nil || callee.Pkg != h.Pkg || len(callee.Blocks) == 0 || callee == h {
			continue
		}
		ne := &fiEnv{isE: map[*ssa.Parameter]bool{}, tab: map[*ssa.Parameter]fiOrigin{}}
		use := false
		for i, a := range call.Call.Args {
			if i >= len(callee.Params) {
				break
			}
			root, off := fiPeel(a)
			if root != nil && off == 0 && s.isE(root, env, map[ssa.Value]bool{}) {
				ne.isE[callee.Params[i]] = true
				use = true
				continue
			}
			if _, ok := a.Type().Underlying().(*types.Slice); ok {
				org := x.originOf(a, env)
				if s.tabs.offs[org] != nil {
					ne.tab[callee.Params[i]] = org
					use = true
				}
			}
		}
		if use {
			s.scan(callee, ne, depth+1)
		}
	}
}

func fiOffStr(o int64) string {
	if o == 0 {
		return ""
	}
	return fmt.Sprintf("%+d", o)
}

func (s *fiScan) tableNames() string {
	var n []string
	for _, v := range s.tabs.names {
		n = append(n, v)
	}
	sort.Strings(n)
	if len(n) == 0 {
		return "none"
	}
	return strings.Join(n, ", ")
}

func (s *fiScan) key(h *ssa.Function, table string) string {
	base := s.x.c.P.FuncName(h) + "→" + table
	s.x.ord[base]++
	return fmt.Sprintf("%s#%d", base, s.x.ord[base])
}

// ---------------------------------------------------------------------------
// controls

func (x *fi) controls() {
	if len(x.c.P.Controls) == 0 {
		return
	}
	type want struct {
		name, rule string
		bad        bool
	}
	for _, w := range []want{
		{"verifControlFieldGood", "FIELD-IDX", false},
		{"verifControlFieldBadCounter", "FIELD-IDX", true},
		{"verifControlFieldBadOffset", "FIELD-IDX", true},
		{"verifControlFieldBadBuild", "FIELD-IDX", true},
		{"verifControlFieldBadCapture", "FIELD-CAP", true},
		{"verifControlFieldBadInf", "FIELD-OUT", true},
		{"verifControlFieldBadEarlyExit", "COMB-1", true},
	} {
		fs := x.ctl[w.name]
		fired, holds := 0, 0
		var detail []string
		for _, f := range fs {
			if f.verdict == ob.Holds {
				if f.rule == w.rule {
					holds++
				}
				continue
			}
			detail = append(detail, f.rule+" "+string(f.verdict))
			if f.rule == w.rule && f.verdict == ob.Violation {
				fired++
			}
		}
		got, wantV := ob.Holds, ob.Holds
		msg := fmt.Sprintf("query seen=%v, %d obligations hold, reported: %s", x.ctlSeen[w.name], holds, strings.Join(detail, ","))
		if w.bad {
			wantV = ob.Violation
			if fired > 0 {
				got = ob.Violation
			}
		} else if len(detail) > 0 || holds < 4 || !x.ctlSeen[w.name] {
			got = ob.Violation
		}
		x.c.R.Control(w.rule, "control:field:"+w.name, fieldCtlFile, got, wantV, msg)
	}
}

// ---------------------------------------------------------------------------
// FIELD-ALL: every position of the hit list is read (a union folds all members that contain the point)

// resultLow: v is the result (low 0) or result[low:] with a constant low and no upper bound.
func (s *fiScan) resultLow(v ssa.Value) (int64, bool) {
	if sl, ok := v.(*ssa.Slice); ok && sl.High == nil && sl.Max == nil {
		base, ok := s.resultLow(sl.X)
		if !ok {
			return 0, false
		}
		if sl.Low == nil {
			return base, true
		}
		if k, ok := ssau.ConstInt(sl.Low); ok {
			return base + k, true
		}
		return 0, false
	}
	if s.isResult(v) {
		if _, ok := v.(*ssa.Slice); !ok {
			return 0, true
		}
	}
	return 0, false
}

// counterRange: phi takes the values lo, lo+1, … while phi < len(result)+hiOff (positions of the result).
func (s *fiScan) counterRange(phi *ssa.Phi) (lo, hiOff int64, ok bool) {
	if len(phi.Edges) < 2 {
		return
	}
	var init ssa.Value
	var step *ssa.BinOp
	for _, e := range phi.Edges {
		if b, isB := e.(*ssa.BinOp); isB && b.Op == token.ADD && b.X == ssa.Value(phi) {
			if k, isK := ssau.ConstInt(b.Y); isK && k == 1 {
				if step != nil && step != b {
					return // two different increments
				}
				step = b
				continue
			}
		}
		if init != nil {
			return
		}
		init = e
	}
	c0, isK := ssau.ConstInt(init)
	if step == nil || init == nil || !isK {
		return
	}
	// the controlling comparison: (phi + d) < len(result[low:]) + k
	try := func(cand ssa.Value, d int64) (int64, bool) {
		for _, r := range ssau.Refs(cand) {
			b, isB := r.(*ssa.BinOp)
			if !isB || b.X != cand || (b.Op != token.LSS && b.Op != token.LEQ) {
				continue
			}
			root, k := fiPeel(b.Y)
			call, isC := root.(*ssa.Call)
			if !isC || ssau.Builtin(call) != "len" || len(call.Call.Args) != 1 {
				continue
			}
			low, isR := s.resultLow(call.Call.Args[0])
			if !isR {
				continue
			}
			if b.Op == token.LEQ {
				k++
			}
			// phi + d < (len - low) + k   =>   phi < len + (k - d - low)
			return k - d - low, true
		}
		return 0, false
	}
	if h, found := try(phi, 0); found {
		return c0, h, true
	}
	if h, found := try(step, 1); found {
		return c0, h, true
	}
	return
}

func (s *fiScan) coverage() {
	x := s.x
	consts := map[int64]bool{}
	type rng struct{ lo, hiOff int64 }
	var ranges []rng
	unknown := ""
	var scanFn func(h *ssa.Function)
	scanFn = func(h *ssa.Function) {
		ssau.AllInstrs(h, func(in ssa.Instruction) {
			ia, ok := in.(*ssa.IndexAddr)
			if !ok || !s.isResult(ia.X) {
				return
			}
			low, ok := s.resultLow(ia.X)
			if !ok {
				unknown = "a re-slice of the hit list with a non-constant bound"
				return
			}
			root, off := fiPeel(ia.Index)
			if root == nil {
				consts[low+off] = true
				return
			}
			phi, ok := root.(*ssa.Phi)
			if !ok {
				unknown = "a computed position " + fiExpr(root, off)
				return
			}
			lo, hiOff, ok := s.counterRange(phi)
			if !ok {
				unknown = "a counter whose bounds are not `c … < len(hits)`"
				return
			}
			// positions: low + off + phi, phi in [lo, len+hiOff)
			ranges = append(ranges, rng{low + off + lo, hiOff + low + off})
		})
	}
	scanFn(s.g)
	pos := int64(0)
	covered := false
	for steps := 0; steps < 64 && !covered; steps++ {
		hit := false
		for _, r := range ranges {
			if r.lo <= pos && r.hiOff >= 0 {
				covered = true
			}
		}
		if covered {
			break
		}
		if consts[pos] {
			pos++
			hit = true
		}
		if !hit {
			break
		}
	}
	f := fiFinding{rule: "FIELD-ALL", construct: x.c.P.FuncName(s.g) + "→hits", pos: s.q.Pos()}
	var desc []string
	var cs []int64
	for k := range consts {
		cs = append(cs, k)
	}
	sort.Slice(cs, func(i, j int) bool { return cs[i] < cs[j] })
	for _, k := range cs {
		desc = append(desc, fmt.Sprint(k))
	}
	for _, r := range ranges {
		desc = append(desc, fmt.Sprintf("[%d, len%s)", r.lo, fiOffStr(r.hiOff)))
	}
	sort.Strings(desc)
	switch {
	case covered:
		f.verdict = ob.Holds
		f.facts = []string{"positions of the hit list that are read: " + strings.Join(desc, " ∪ ") + " ⊇ [0, len)"}
	case unknown != "":
		f.verdict = ob.Undecided
		f.msg = fmt.Sprintf("whether every hit of %s is read is not decided: %s (recognised reads: %s)", fiCallee(s.q), unknown, strings.Join(desc, " ∪ "))
	default:
		f.verdict = ob.Violation
		f.msg = fmt.Sprintf("the hit at position %d of the list %s answers is never read (positions read: %s): a member whose domain contains the sample point is left out of the combined field whenever the list is longer than %d", pos, fiCallee(s.q), strings.Join(desc, " ∪ "), pos)
	}
	x.rec(s.g, f)
}

// ---------------------------------------------------------------------------
// FIELD-OUT: what a member-combining field reports where no member applies
//
// SYM-ALG's interpolant P[a] + (P[b]−P[a])·(t−C[a])/(C[b]−C[a]) is an identity over the reals: it holds for
// finite samples only. A default of +Inf keeps the sign test right (the corner is outside) but makes
// (t−C[a])/(C[b]−C[a]) = Inf/Inf = NaN whenever the infinite sample is corner a of the edge: NaN vertices, an
// open surface after the weld. So every constant-like value such a function can return must be finite, and on
// the outside of the march's sign convention.

type foLeaf struct {
	pos    token.Pos
	desc   string
	finite bool
	sign   int // of the value (after negations), meaningful when finite
}

func (x *fi) outsideValues(g *ssa.Function, st *fiScan) {
	var leaves []foLeaf
	seen := map[ssa.Value]bool{}
	var walk func(v ssa.Value, neg, arith bool, depth int, at token.Pos)
	walk = func(v ssa.Value, neg, arith bool, depth int, at token.Pos) {
		if v == nil || depth > 12 {
			return
		}
		if _, isConst := v.(*ssa.Const); !isConst {
			if seen[v] {
				return
			}
			seen[v] = true
		}
		if in, ok := v.(ssa.Instruction); ok && in.Pos().IsValid() {
			at = in.Pos()
		}
		switch t := v.(type) {
		case *ssa.Const:
			if arith || t.Value == nil || (t.Value.Kind() != constant.Float && t.Value.Kind() != constant.Int) {
				return
			}
			sg := constant.Sign(t.Value)
			if neg {
				sg = -sg
			}
			leaves = append(leaves, foLeaf{at, t.Value.String(), true, sg})
		case *ssa.Phi:
			skip := st.foldIdentity(t)
			for i, e := range t.Edges {
				if i == skip {
					continue
				}
				walk(e, neg, arith, depth+1, at)
			}
		case *ssa.Convert:
			walk(t.X, neg, arith, depth+1, at)
		case *ssa.ChangeType:
			walk(t.X, neg, arith, depth+1, at)
		case *ssa.BinOp:
			walk(t.X, neg, true, depth+1, at)
			walk(t.Y, neg, true, depth+1, at)
		case *ssa.UnOp:
			switch t.Op {
			case token.SUB:
				walk(t.X, !neg, arith, depth+1, at)
			case token.MUL:
				switch a := t.X.(type) {
				case *ssa.Global:
					if iv := x.globalInit(a); iv != nil {
						walk(iv, neg, arith, depth+1, at)
					}
				case *ssa.FreeVar, *ssa.Alloc:
					if cell := x.cellOf(a); cell != nil {
						if cv := x.cellValue(cell); cv != nil {
							walk(cv, neg, arith, depth+1, at)
						}
					}
				}
			}
		case *ssa.Call:
			if b := ssau.Builtin(t); b == "min" || b == "max" {
				for _, a := range t.Call.Args {
					walk(a, neg, arith, depth+1, at)
				}
				return
			}
			o := ssau.CalleeObj(t)
			if o != nil && o.Pkg() != nil && o.Pkg().Path() == "math" {
				switch o.Name() {
				case "Inf", "NaN":
					leaves = append(leaves, foLeaf{at, "math." + o.Name() + "(…)", false, 0})
				case "Min", "Max":
					for _, a := range t.Call.Args {
						walk(a, neg, arith, depth+1, at)
					}
				default:
					for _, a := range t.Call.Args {
						walk(a, neg, true, depth+1, at)
					}
				}
				return
			}
			// an in-package helper with one return: look at what it returns (constants only matter)
			if callee := t.Call.StaticCallee(); callee != nil && callee.Pkg == g.Pkg {
				if ret := singleReturn(callee); ret != nil && len(ret.Results) == 1 {
					walk(ret.Results[0], neg, arith, depth+1, at)
				}
			}
			// anything else (a member function, an sdf) is a member value: not judged
		}
	}
	for _, b := range g.Blocks {
		if ret, ok := b.Instrs[len(b.Instrs)-1].(*ssa.Return); ok && len(ret.Results) == 1 {
			if bt, ok := ret.Results[0].Type().Underlying().(*types.Basic); ok && bt.Info()&types.IsFloat != 0 {
				walk(ret.Results[0], false, false, 0, ret.Pos())
			}
		}
	}
	sort.SliceStable(leaves, func(i, j int) bool { return posLess(x.c.P.Fset, leaves[i].pos, leaves[j].pos) })
	name := x.c.P.FuncName(g)
	for i, l := range leaves {
		f := fiFinding{rule: "FIELD-OUT", construct: fmt.Sprintf("%s→default#%d", name, i+1), pos: l.pos}
		outsideSign := 1
		side := "not below"
		if !x.belowIsInside {
			outsideSign = -1
			side = "not above"
		}
		switch {
		case !l.finite:
			f.verdict = ob.Violation
			f.msg = fmt.Sprintf("the field can report %s where no member applies: the sign test still says outside, but the vertex interpolation (threshold − C[a]) / (C[b] − C[a]) — the identity SYM-ALG decides holds for finite samples only — becomes Inf/Inf = NaN whenever this sample is corner a of a crossing edge: NaN vertices, the weld collapses them and the surface is left open. A finite constant on the outside of the threshold is required", l.desc)
		case l.sign*outsideSign < 0:
			f.verdict = ob.Violation
			f.msg = fmt.Sprintf("the field can report the constant %s where no member applies; the march classifies a sample %s the threshold as outside, so for threshold 0 everything outside the members' domains is solid", l.desc, side)
		default:
			f.verdict = ob.Holds
			f.facts = []string{fmt.Sprintf("constant %s: finite (the interpolation identity of SYM-ALG applies) and %s a threshold of 0 (outside)", l.desc, side)}
		}
		x.rec(g, f)
	}
}

// globalInit: the one value a package-level variable is initialised with (nil when it is assigned elsewhere too).
func (x *fi) globalInit(g *ssa.Global) ssa.Value {
	var val ssa.Value
	n := 0
	init := x.sp.Func("init")
	for _, fn := range x.fns {
		if fn == init {
			continue
		}
		ssau.AllInstrs(fn, func(in ssa.Instruction) {
			if st, ok := in.(*ssa.Store); ok && st.Addr == ssa.Value(g) {
				n++
				val = st.Val
			}
		})
	}
	if init != nil {
		ssau.AllInstrs(init, func(in ssa.Instruction) {
			if st, ok := in.(*ssa.Store); ok && st.Addr == ssa.Value(g) {
				n++
				val = st.Val
			}
		})
	}
	if n != 1 {
		return nil
	}
	return val
}

// foldIdentity: phi is the accumulator of `acc := ±Inf; for … over the hits { acc = math.Min/Max(acc, …) }` at a
// place where the hit list is known to be non-empty and the loop runs at least once: the infinite start value
// is the identity element of the fold and never leaves the loop. Returns the index of that edge, or -1.
func (s *fiScan) foldIdentity(phi *ssa.Phi) int {
	if s == nil || s.single || len(phi.Edges) != 2 {
		return -1
	}
	b := phi.Block()
	initIdx := -1
	for i, p := range b.Preds {
		if !b.Dominates(p) {
			if initIdx >= 0 {
				return -1
			}
			initIdx = i
		}
	}
	if initIdx < 0 {
		return -1
	}
	back, _ := phi.Edges[1-initIdx].(*ssa.Call)
	if back == nil {
		return -1
	}
	op := ssau.Builtin(back)
	if o := ssau.CalleeObj(back); o != nil && o.Pkg() != nil && o.Pkg().Path() == "math" {
		op = strings.ToLower(o.Name())
	}
	if op != "min" && op != "max" {
		return -1
	}
	uses := false
	for _, a := range back.Call.Args {
		if a == ssa.Value(phi) {
			uses = true
		}
	}
	// the start value: math.Inf(+1) for min, math.Inf(-1) for max
	iv := phi.Edges[initIdx]
	neg := false
	for {
		if u, ok := iv.(*ssa.UnOp); ok && u.Op == token.SUB {
			neg = !neg
			iv = u.X
			continue
		}
		if c, ok := iv.(*ssa.Convert); ok {
			iv = c.X
			continue
		}
		break
	}
	ic, _ := iv.(*ssa.Call)
	if !uses || ic == nil {
		return -1
	}
	if o := ssau.CalleeObj(ic); o == nil || o.Pkg() == nil || o.Pkg().Path() != "math" || o.Name() != "Inf" || len(ic.Call.Args) != 1 {
		return -1
	}
	k, ok := ssau.ConstInt(ic.Call.Args[0])
	if !ok {
		return -1
	}
	positive := (k >= 0) != neg
	if positive != (op == "min") {
		return -1
	}
	// the hit list is not empty here …
	nonEmpty := false
	for _, blk := range b.Parent().Blocks {
		iff, ok := blk.Instrs[len(blk.Instrs)-1].(*ssa.If)
		if !ok {
			continue
		}
		cmp, ok := iff.Cond.(*ssa.BinOp)
		if !ok {
			continue
		}
		kk, isK := ssau.ConstInt(cmp.Y)
		if !isK || !s.lenOfResult(cmp.X) {
			continue
		}
		if root, off := fiPeel(cmp.X); off != 0 || root == nil {
			continue
		}
		var succ *ssa.BasicBlock
		switch {
		case cmp.Op == token.EQL && kk == 0, cmp.Op == token.LSS && kk == 1, cmp.Op == token.LEQ && kk == 0:
			succ = blk.Succs[1]
		case cmp.Op == token.NEQ && kk == 0, cmp.Op == token.GTR && kk == 0, cmp.Op == token.GEQ && kk == 1:
			succ = blk.Succs[0]
		}
		if succ != nil && len(succ.Preds) == 1 && succ.Dominates(b) {
			nonEmpty = true
		}
	}
	if !nonEmpty {
		return -1
	}
	// … and the loop over it runs at least once
	for _, in := range b.Instrs {
		cp, ok := in.(*ssa.Phi)
		if !ok {
			break
		}
		if cp == phi {
			continue
		}
		if c0, hiOff, ok := s.counterRange(cp); ok && c0 <= hiOff {
			return initIdx
		}
	}
	return -1
}

// ---------------------------------------------------------------------------
// COMB-1: the fold over the members that contain the point

// fold: every loop of the querying function that walks the hit list, or that carries a float accumulator, leaves
// only through its counter test, and the accumulator is folded with min (max when inside is above the threshold).
func (s *fiScan) fold() {
	x := s.x
	g := s.g
	n := 0
	for _, l := range ssau.Loops(g) {
		walksHits := false
		for b := range l.Blocks {
			for _, in := range b.Instrs {
				if ia, ok := in.(*ssa.IndexAddr); ok && s.isResult(ia.X) {
					walksHits = true
				}
			}
		}
		var accs []*ssa.Phi
		for _, in := range l.Header.Instrs {
			phi, ok := in.(*ssa.Phi)
			if !ok {
				break
			}
			if bt, ok := phi.Type().Underlying().(*types.Basic); ok && bt.Info()&types.IsFloat != 0 {
				accs = append(accs, phi)
			}
		}
		if !walksHits && len(accs) == 0 {
			continue
		}
		n++
		f := fiFinding{rule: "COMB-1", construct: fmt.Sprintf("%s→fold#%d", x.c.P.FuncName(g), n), pos: l.Header.Instrs[0].Pos()}
		for _, in := range l.Header.Instrs {
			if in.Pos().IsValid() {
				f.pos = in.Pos()
				break
			}
		}
		// exits
		bad := ""
		var badPos token.Pos
		for _, b := range g.Blocks {
			if !l.Blocks[b] {
				continue
			}
			for _, w := range b.Succs {
				if l.Blocks[w] {
					continue
				}
				iff, _ := b.Instrs[len(b.Instrs)-1].(*ssa.If)
				if iff != nil && counterTest(iff.Cond, l) {
					continue
				}
				dep := ""
				if iff != nil && dependsOn(iff.Cond, accs, 0) {
					dep = " that depends on the running value"
				}
				bad = "the loop has an exit" + dep + " besides its counter test"
				if iff != nil {
					badPos = iff.Cond.Pos()
					if in, ok := iff.Cond.(ssa.Instruction); ok {
						badPos = in.Pos()
					}
				}
			}
		}
		// accumulators
		op := "min"
		if !x.belowIsInside {
			op = "max"
		}
		und := ""
		var facts []string
		for _, acc := range accs {
			// `if x < acc { acc = x }` whose merge block was threaded into the header: two back edges, one
			// carrying x from the taken side and one carrying acc from the comparing block
			if got := splitCompareAssign(acc, l); got != "" {
				if got == op {
					facts = append(facts, fmt.Sprintf("%s = %s(%s, member value) on every iteration (compare and assign)", accName(acc), op, accName(acc)))
				} else if bad == "" {
					bad = fmt.Sprintf("the members are folded with %s; a union of fields whose inside lies %s the threshold is their %s", got, map[bool]string{true: "below", false: "above"}[x.belowIsInside], op)
					badPos = acc.Pos()
				}
				continue
			}
			for i, pr := range l.Header.Preds {
				if !l.Blocks[pr] {
					continue
				}
				got := foldOp(acc.Edges[i], acc)
				switch got {
				case op:
					facts = append(facts, fmt.Sprintf("%s = %s(%s, member value) on every iteration", accName(acc), op, accName(acc)))
				case "min", "max":
					if bad == "" {
						bad = fmt.Sprintf("the members are folded with %s; a union of fields whose inside lies %s the threshold is their %s", got, map[bool]string{true: "below", false: "above"}[x.belowIsInside], op)
						badPos = acc.Pos()
					}
				case "same":
					if bad == "" {
						bad = "an iteration can leave the running value untouched (a member containing the point is skipped)"
						badPos = acc.Pos()
					}
				default:
					und = "the running value is not updated by min / max of itself and a member value"
				}
			}
		}
		switch {
		case bad != "":
			f.verdict = ob.Violation
			if badPos.IsValid() {
				f.pos = badPos
			}
			f.msg = bad + ": the combined field is the fold over ALL members whose domain contains the point; stopping or skipping once the value has some sign keeps the sign but not the magnitude, so inside overlaps the surface for any threshold other than 0 is wrong"
		case und != "":
			f.verdict = ob.Undecided
			f.msg = und
		default:
			f.verdict = ob.Holds
			sort.Strings(facts)
			f.facts = append([]string{"the loop leaves only through its counter test"}, uniqStrings(facts)...)
		}
		x.rec(g, f)
	}
}

func uniqStrings(in []string) []string {
	var out []string
	for i, v := range in {
		if i == 0 || v != in[i-1] {
			out = append(out, v)
		}
	}
	return out
}

func accName(p *ssa.Phi) string {
	if p.Comment != "" {
		return p.Comment
	}
	return p.Name()
}

// counterTest: cond compares an integer that is a loop counter of l (a header phi, plus a constant) with an integer.
func counterTest(cond ssa.Value, l *ssau.Loop) bool {
	b, ok := cond.(*ssa.BinOp)
	if !ok {
		return false
	}
	switch b.Op {
	case token.LSS, token.LEQ, token.GTR, token.GEQ, token.NEQ:
	default:
		return false
	}
	for _, side := range []ssa.Value{b.X, b.Y} {
		if !fiIsInteger(side.Type()) {
			return false
		}
	}
	for _, side := range []ssa.Value{b.X, b.Y} {
		root, _ := fiPeel(side)
		if phi, ok := root.(*ssa.Phi); ok && phi.Block() == l.Header {
			return true
		}
	}
	return false
}

func dependsOn(v ssa.Value, accs []*ssa.Phi, depth int) bool {
	if depth > 6 || v == nil {
		return false
	}
	for _, a := range accs {
		if v == ssa.Value(a) {
			return true
		}
	}
	in, ok := v.(ssa.Instruction)
	if !ok {
		return false
	}
	if _, isPhi := v.(*ssa.Phi); isPhi && depth > 0 {
		return false
	}
	for _, op := range in.Operands(nil) {
		if op != nil && dependsOn(*op, accs, depth+1) {
			return true
		}
	}
	return false
}

// foldOp: how the back-edge value v updates the accumulator acc: "min" / "max" (math.Min/Max, builtin, or
// `if x < acc { acc = x }`), "same" (unchanged), "" (something else).
func foldOp(v ssa.Value, acc *ssa.Phi) string {
	if v == ssa.Value(acc) {
		return "same"
	}
	switch t := v.(type) {
	case *ssa.Call:
		name := ssau.Builtin(t)
		if o := ssau.CalleeObj(t); o != nil && o.Pkg() != nil && o.Pkg().Path() == "math" {
			name = strings.ToLower(o.Name())
		}
		if name != "min" && name != "max" {
			return ""
		}
		for _, a := range t.Call.Args {
			if a == ssa.Value(acc) {
				return name
			}
		}
		return ""
	case *ssa.Phi:
		// merge of `acc` and `x` under a comparison of the two
		if len(t.Edges) != 2 || t.Block() == acc.Block() {
			return ""
		}
		var xv ssa.Value
		xi := -1
		for i, e := range t.Edges {
			if e != ssa.Value(acc) {
				if xv != nil {
					return ""
				}
				xv, xi = e, i
			}
		}
		if xv == nil {
			return "same"
		}
		other := t.Edges[1-xi]
		if other != ssa.Value(acc) {
			return ""
		}
		// the branch: the immediate dominator of the merge block ends in `if x OP acc`
		idom := t.Block().Idom()
		if idom == nil {
			return ""
		}
		iff, ok := idom.Instrs[len(idom.Instrs)-1].(*ssa.If)
		if !ok {
			return ""
		}
		cmp, ok := iff.Cond.(*ssa.BinOp)
		if !ok {
			return ""
		}
		opx := cmp.Op
		switch {
		case cmp.X == xv && cmp.Y == ssa.Value(acc):
		case cmp.Y == xv && cmp.X == ssa.Value(acc):
			switch opx {
			case token.LSS:
				opx = token.GTR
			case token.LEQ:
				opx = token.GEQ
			case token.GTR:
				opx = token.LSS
			case token.GEQ:
				opx = token.LEQ
			}
		default:
			return ""
		}
		// is x taken on the true side?
		pred := t.Block().Preds[xi]
		onTrue := pred != idom && (pred == idom.Succs[0] || idom.Succs[0].Dominates(pred))
		if pred == idom {
			onTrue = idom.Succs[0] == t.Block()
		}
		less := opx == token.LSS || opx == token.LEQ
		greater := opx == token.GTR || opx == token.GEQ
		if !less && !greater {
			return ""
		}
		if less == onTrue {
			return "min"
		}
		return "max"
	}
	return ""
}

// splitCompareAssign: acc has exactly two back edges: acc itself from a block ending in `if x OP acc` (its
// not-taken side) and x from the taken side. Returns "min" / "max", or "".
func splitCompareAssign(acc *ssa.Phi, l *ssau.Loop) string {
	hdr := acc.Block()
	var same, other *ssa.BasicBlock
	var xv ssa.Value
	n := 0
	for i, pr := range hdr.Preds {
		if !l.Blocks[pr] {
			continue
		}
		n++
		if acc.Edges[i] == ssa.Value(acc) {
			same = pr
		} else {
			other, xv = pr, acc.Edges[i]
		}
	}
	if n != 2 || same == nil || other == nil {
		return ""
	}
	iff, ok := same.Instrs[len(same.Instrs)-1].(*ssa.If)
	if !ok {
		return ""
	}
	cmp, ok := iff.Cond.(*ssa.BinOp)
	if !ok {
		return ""
	}
	opx := cmp.Op
	switch {
	case cmp.X == xv && cmp.Y == ssa.Value(acc):
	case cmp.Y == xv && cmp.X == ssa.Value(acc):
		switch opx {
		case token.LSS:
			opx = token.GTR
		case token.LEQ:
			opx = token.GEQ
		case token.GTR:
			opx = token.LSS
		case token.GEQ:
			opx = token.LEQ
		}
	default:
		return ""
	}
	// the edge same→header is one branch of the If, the x edge comes from the other branch
	var takenOnTrue bool
	switch {
	case same.Succs[1] == hdr && (other == same.Succs[0] || same.Succs[0].Dominates(other)):
		takenOnTrue = true
	case same.Succs[0] == hdr && (other == same.Succs[1] || same.Succs[1].Dominates(other)):
		takenOnTrue = false
	default:
		return ""
	}
	less := opx == token.LSS || opx == token.LEQ
	greater := opx == token.GTR || opx == token.GEQ
	if !less && !greater {
		return ""
	}
	if less == takenOnTrue {
		return "min"
	}
	return "max"
}
