package c09

import (
	"fmt"

	"golang.org/x/tools/go/ssa"

	"polycheck/props"
	"polycheck/ssau"
)

const geometryPath = "github.com/EliCDavis/polyform/math/geometry"

// padRule: PAD-1. Wherever a function on the C09 path turns the field's Domain
// (geometry.AABB Min()/Max()) into integer grid bounds, the lower bound is
// floor(min·cubesPerUnit) − p and the upper bound ceil(max·cubesPerUnit) + p with
// p ≥ 1, on each of the three axes: one cell of padding on each side, so the
// sign change at the domain boundary is always inside the sampled grid.
func padRule(c *props.Ctx, p *c09path, sites []*site) {
	n := 0
	type padStore struct {
		side string
		axis int
		val  ssa.Value
	}
	padStores := map[*ssa.Function][]padStore{}
	for _, fn := range p.order {
		if fn == p.index {
			continue
		}
		name := c.P.FuncName(fn)
		m := newSlotModel()
		e := m.eval(nil)
		seen := map[string]int{}
		ssau.AllInstrs(fn, func(in ssa.Instruction) {
			st, ok := in.(*ssa.Store)
			if !ok {
				return
			}
			f := ssau.FieldOf(st.Addr)
			if f == nil || !isVectorIntField(f.Name()) {
				return
			}
			if _, ok := vectorIntFieldsOfAddr(st.Addr); !ok {
				return
			}
			a := e.aff(st.Val)
			if a.isConst() || a.Base.F >= 0 {
				return
			}
			// base: int(math.Floor|Ceil(expr)) with expr depending on Domain.Min()/Max()
			call, ok := a.Base.V.(*ssa.Call)
			if !ok {
				return
			}
			obj := ssau.CalleeObj(call)
			if obj == nil || obj.Pkg() == nil || obj.Pkg().Path() != "math" || len(call.Call.Args) != 1 {
				return
			}
			side := domainSide(call.Call.Args[0])
			if side == "" {
				return
			}
			n++
			kind := "lower"
			if side == "Max" {
				kind = "upper"
			}
			seen[kind+f.Name()]++
			key := fmt.Sprintf("%s#%sBound.%s", name, kind, f.Name())
			if seen[kind+f.Name()] > 1 {
				key += fmt.Sprintf("#%d", seen[kind+f.Name()])
			}
			pos := c.P.Pos(st.Pos())
			switch {
			case side == "both":
				c.R.Undecide("PAD-1", key, pos, "a grid bound mixes Domain.Min() and Domain.Max()")
			case a.Coef != 1:
				c.R.Undecide("PAD-1", key, pos, "a grid bound is scaled after rounding: "+a.String())
			case side == "Min" && obj.Name() != "Floor":
				c.R.Violate("PAD-1", key, pos, fmt.Sprintf("the lower grid bound rounds Domain.Min() with math.%s, not Floor: the domain boundary may fall outside the sampled grid", obj.Name()))
			case side == "Max" && obj.Name() != "Ceil":
				c.R.Violate("PAD-1", key, pos, fmt.Sprintf("the upper grid bound rounds Domain.Max() with math.%s, not Ceil: the domain boundary may fall outside the sampled grid", obj.Name()))
			case side == "Min" && a.Off > -1:
				c.R.Violate("PAD-1", key, pos, fmt.Sprintf("the lower grid bound on %s is floor(min)%+d: no padding cell below the domain, a shape touching the domain boundary is left open there", f.Name(), a.Off))
			case side == "Max" && a.Off < 1:
				c.R.Violate("PAD-1", key, pos, fmt.Sprintf("the upper grid bound on %s is ceil(max)%+d: no padding cell above the domain (the bound is exclusive), a shape touching the domain boundary is left open there", f.Name(), a.Off))
			default:
				c.R.Hold("PAD-1", key, pos, fmt.Sprintf("%s bound %s = %s(domain.%s()·cubesPerUnit)%+d", kind, f.Name(), obj.Name(), side, a.Off))
				padStores[fn] = append(padStores[fn], padStore{side, int(f.Name()[0] - 'X'), st.Val})
			}
		})
	}
	c.R.Extra["pad_bounds"] = n
	// PAD-2: a site that computes its own padded bounds and samples the field itself (no block storage) runs its
	// cell loops from the lower bound to upper−1 exclusive, so that with corner offsets {0,1} the samples cover
	// [lower, upper) — the same coverage the canvas path gets from RANGE-1
	for _, s := range sites {
		if s == nil || s.ctl || s.P == nil || s.D != nil || len(padStores[s.fn]) == 0 {
			continue
		}
		roots, ok := s.cellRoots()
		if !ok {
			c.R.Undecide("PAD-2", s.name+"#cellLoops", c.P.Pos(s.fn.Pos()), "the cell coordinates of a self-sampling site were not recognised")
			continue
		}
		e := s.root()
		for a := 0; a < 3; a++ {
			key := fmt.Sprintf("%s#cellLoop%c", s.name, "XYZ"[a])
			phi, ok := roots[a].V.(*ssa.Phi)
			if !ok || roots[a].F >= 0 {
				c.R.Undecide("PAD-2", key, c.P.Pos(s.fn.Pos()), "a cell coordinate is not a loop variable")
				continue
			}
			init, bound, ok := countedLoop(e, phi)
			if !ok {
				c.R.Undecide("PAD-2", key, c.P.Pos(phi.Pos()), "the loop of a cell coordinate is not a counted loop")
				continue
			}
			var lo, hi *lin
			for _, ps := range padStores[s.fn] {
				if ps.axis != a {
					continue
				}
				l := e.lin(ps.val)
				if ps.side == "Min" {
					lo = &l
				} else {
					hi = &l
				}
			}
			if lo == nil || hi == nil {
				c.R.Undecide("PAD-2", key, c.P.Pos(phi.Pos()), "padded bounds of this axis not found in the same function")
				continue
			}
			wantHi := *hi
			wantHi.Off--
			// starting earlier / stopping later than needed only samples more padding
			dLo := lo.addScaled(init, -1)
			dHi := bound.addScaled(wantHi, -1)
			switch {
			case dLo.isConst() && dLo.Off >= 0 && dHi.isConst() && dHi.Off >= 0:
				c.R.Hold("PAD-2", key, c.P.Pos(phi.Pos()), fmt.Sprintf("%c ∈ [lower%+d, upper−1%+d): samples cover [lower, upper)", "xyz"[a], -dLo.Off, dHi.Off))
			case !sameLin(init, *lo):
				c.R.Violate("PAD-2", key, c.P.Pos(phi.Pos()), fmt.Sprintf("the %c cell loop starts at %s, the padded lower bound is %s", "xyz"[a], init, *lo))
			case !sameLin(bound, wantHi):
				c.R.Violate("PAD-2", key, c.P.Pos(phi.Pos()), fmt.Sprintf("the %c cell loop stops before %s; with corner offsets {0,1} it must stop before upper−1 = %s to sample the padding cell above the domain", "xyz"[a], bound, wantHi))
			default:
				c.R.Hold("PAD-2", key, c.P.Pos(phi.Pos()), fmt.Sprintf("%c ∈ [lower, upper−1): samples cover [lower, upper)", "xyz"[a]))
			}
		}
	}
}

// cellRoots: the three loop variables the corner positions are built from.
func (s *site) cellRoots() ([3]baseKey, bool) {
	var out [3]baseKey
	e := s.root()
	vals := e.slotVals(s.P, 0)
	if len(vals) != 1 {
		return out, false
	}
	d := s.evalVec(vals[0].ev(e), vals[0].val)
	if !d.comps {
		v := d.vbase
		for depth := 0; depth < 4 && v != nil; depth++ {
			call, ok := v.(*ssa.Call)
			if !ok {
				break
			}
			if isVec3Method(call, "Scale") || isVec3Method(call, "DivByConstant") || isVec3Method(call, "MultByConstant") {
				v = call.Call.Args[0]
				continue
			}
			break
		}
		d = s.evalVec(e, v)
		if !d.comps {
			return out, false
		}
	}
	for a := 0; a < 3; a++ {
		if d.comp[a].isConst() || d.comp[a].Coef != 1 {
			return out, false
		}
		out[a] = d.comp[a].Base
	}
	return out, true
}

func isVectorIntField(n string) bool { return n == "X" || n == "Y" || n == "Z" }

func vectorIntFieldsOfAddr(addr ssa.Value) ([3]int, bool) {
	fa, ok := addr.(*ssa.FieldAddr)
	if !ok {
		return [3]int{}, false
	}
	return vectorIntFields(fa.X.Type())
}

// domainSide: does v depend (through arithmetic and accessor calls) on AABB.Min() / AABB.Max()?
func domainSide(v ssa.Value) string {
	seen := map[ssa.Value]bool{}
	min, max := false, false
	var walk func(v ssa.Value)
	walk = func(v ssa.Value) {
		if seen[v] {
			return
		}
		seen[v] = true
		switch x := v.(type) {
		case *ssa.Call:
			obj := ssau.CalleeObj(x)
			if ssau.IsMethod(obj, geometryPath, "AABB", "Min") {
				min = true
				return
			}
			if ssau.IsMethod(obj, geometryPath, "AABB", "Max") {
				max = true
				return
			}
			// accessor on a vector: follow the receiver
			if obj != nil && ssau.RecvNamed(obj) != nil && ssau.IsNamed(ssau.RecvNamed(obj), vec3Path, "Vector") && len(x.Call.Args) >= 1 {
				walk(x.Call.Args[0])
			}
		case *ssa.BinOp:
			walk(x.X)
			walk(x.Y)
		case *ssa.Convert:
			walk(x.X)
		case *ssa.UnOp:
			walk(x.X)
		case *ssa.Alloc:
			for _, r := range ssau.Refs(x) {
				if st, ok := r.(*ssa.Store); ok && st.Addr == x {
					walk(st.Val)
				}
			}
		case *ssa.Phi:
			for _, e := range x.Edges {
				walk(e)
			}
		}
	}
	walk(v)
	switch {
	case min && max:
		return "both"
	case min:
		return "Min"
	case max:
		return "Max"
	}
	return ""
}

var _ = props.Get
