package c09

import (
	"fmt"

	"golang.org/x/tools/go/ssa"

	"polycheck/props"
	"polycheck/ssau"
)

const geometryPath = "github.com/EliCDavis/polyform/math/geometry"

// padRule: PAD-1. Wherever a function on the C09 path turns the field's Domain
// (geometry.AABB Min()/Max()) into integer grid bounds, the lower bound is
// floor(min·cubesPerUnit) − p and the upper bound ceil(max·cubesPerUnit) + p with
// p ≥ 1, on each of the three axes: one cell of padding on each side, so the
// sign change at the domain boundary is always inside the sampled grid.
func padRule(c *props.Ctx, p *c09path) {
	n := 0
	for _, fn := range p.order {
		if fn == p.index {
			continue
		}
		name := c.P.FuncName(fn)
		m := newSlotModel()
		e := m.eval(nil)
		seen := map[string]int{}
		ssau.AllInstrs(fn, func(in ssa.Instruction) {
			st, ok := in.(*ssa.Store)
			if !ok {
				return
			}
			f := ssau.FieldOf(st.Addr)
			if f == nil || !isVectorIntField(f.Name()) {
				return
			}
			if _, ok := vectorIntFieldsOfAddr(st.Addr); !ok {
				return
			}
			a := e.aff(st.Val)
			if a.isConst() || a.Base.F >= 0 {
				return
			}
			// base: int(math.Floor|Ceil(expr)) with expr depending on Domain.Min()/Max()
			call, ok := a.Base.V.(*ssa.Call)
			if !ok {
				return
			}
			obj := ssau.CalleeObj(call)
			if obj == nil || obj.Pkg() == nil || obj.Pkg().Path() != "math" || len(call.Call.Args) != 1 {
				return
			}
			side := domainSide(call.Call.Args[0])
			if side == "" {
				return
			}
			n++
			kind := "lower"
			if side == "Max" {
				kind = "upper"
			}
			seen[kind+f.Name()]++
			key := fmt.Sprintf("%s#%sBound.%s", name, kind, f.Name())
			if seen[kind+f.Name()] > 1 {
				key += fmt.Sprintf("#%d", seen[kind+f.Name()])
			}
			pos := c.P.Pos(st.Pos())
			switch {
			case side == "both":
				c.R.Undecide("PAD-1", key, pos, "a grid bound mixes Domain.Min() and Domain.Max()")
			case a.Coef != 1:
				c.R.Undecide("PAD-1", key, pos, "a grid bound is scaled after rounding: "+a.String())
			case side == "Min" && obj.Name() != "Floor":
				c.R.Violate("PAD-1", key, pos, fmt.Sprintf("the lower grid bound rounds Domain.Min() with math.%s, not Floor: the domain boundary may fall outside the sampled grid", obj.Name()))
			case side == "Max" && obj.Name() != "Ceil":
				c.R.Violate("PAD-1", key, pos, fmt.Sprintf("the upper grid bound rounds Domain.Max() with math.%s, not Ceil: the domain boundary may fall outside the sampled grid", obj.Name()))
			case side == "Min" && a.Off > -1:
				c.R.Violate("PAD-1", key, pos, fmt.Sprintf("the lower grid bound on %s is floor(min)%+d: no padding cell below the domain, a shape touching the domain boundary is left open there", f.Name(), a.Off))
			case side == "Max" && a.Off < 1:
				c.R.Violate("PAD-1", key, pos, fmt.Sprintf("the upper grid bound on %s is ceil(max)%+d: no padding cell above the domain (the bound is exclusive), a shape touching the domain boundary is left open there", f.Name(), a.Off))
			default:
				c.R.Hold("PAD-1", key, pos, fmt.Sprintf("%s bound %s = %s(domain.%s()·cubesPerUnit)%+d", kind, f.Name(), obj.Name(), side, a.Off))
			}
		})
	}
	c.R.Extra["pad_bounds"] = n
}

func isVectorIntField(n string) bool { return n == "X" || n == "Y" || n == "Z" }

func vectorIntFieldsOfAddr(addr ssa.Value) ([3]int, bool) {
	fa, ok := addr.(*ssa.FieldAddr)
	if !ok {
		return [3]int{}, false
	}
	return vectorIntFields(fa.X.Type())
}

// domainSide: does v depend (through arithmetic and accessor calls) on AABB.Min() / AABB.Max()?
func domainSide(v ssa.Value) string {
	seen := map[ssa.Value]bool{}
	min, max := false, false
	var walk func(v ssa.Value)
	walk = func(v ssa.Value) {
		if seen[v] {
			return
		}
		seen[v] = true
		switch x := v.(type) {
		case *ssa.Call:
			obj := ssau.CalleeObj(x)
			if ssau.IsMethod(obj, geometryPath, "AABB", "Min") {
				min = true
				return
			}
			if ssau.IsMethod(obj, geometryPath, "AABB", "Max") {
				max = true
				return
			}
			// accessor on a vector: follow the receiver
			if obj != nil && ssau.RecvNamed(obj) != nil && ssau.IsNamed(ssau.RecvNamed(obj), vec3Path, "Vector") && len(x.Call.Args) >= 1 {
				walk(x.Call.Args[0])
			}
		case *ssa.BinOp:
			walk(x.X)
			walk(x.Y)
		case *ssa.Convert:
			walk(x.X)
		case *ssa.UnOp:
			walk(x.X)
		case *ssa.Alloc:
			for _, r := range ssau.Refs(x) {
				if st, ok := r.(*ssa.Store); ok && st.Addr == x {
					walk(st.Val)
				}
			}
		case *ssa.Phi:
			for _, e := range x.Edges {
				walk(e)
			}
		}
	}
	walk(v)
	switch {
	case min && max:
		return "both"
	case min:
		return "Min"
	case max:
		return "Max"
	}
	return ""
}

var _ = props.Get
