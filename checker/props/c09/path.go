package c09

import (
	"go/token"
	"go/types"
	"sort"

	"golang.org/x/tools/go/ssa"

	"polycheck/props"
	"polycheck/ssau"
)

// c09path: the functions of the marching package that the sequential
// AddField + March path executes (static calls, closures created on the way).
type c09path struct {
	fns      map[*ssa.Function]bool
	canvas   map[*ssa.Function]bool // reached from MarchingCanvas.AddField / March / MarchOnAttribute only
	order    []*ssa.Function        // deterministic
	addField *ssa.Function
	march    *ssa.Function
	index    *ssa.Function
	roots    []*ssa.Function
}

func methodOf(c *props.Ctx, typ, name string) *ssa.Function {
	return c.P.Func(pkgRel, typ+"."+name)
}

func c09Path(c *props.Ctx, sp *ssa.Package) *c09path {
	p := &c09path{fns: map[*ssa.Function]bool{}}
	p.addField = methodOf(c, "MarchingCanvas", "AddField")
	p.march = methodOf(c, "MarchingCanvas", "March")
	mo := methodOf(c, "MarchingCanvas", "MarchOnAttribute")
	fm := methodOf(c, "Field", "March")
	if p.addField == nil || p.march == nil || mo == nil {
		c.R.Failf("anchor methods MarchingCanvas.AddField / March / MarchOnAttribute not found in %s", pkgRel)
		return nil
	}
	p.roots = []*ssa.Function{p.addField, p.march, mo}
	if fm != nil {
		p.roots = append(p.roots, fm)
	}
	var visit func(fn *ssa.Function)
	visit = func(fn *ssa.Function) {
		if fn == nil || p.fns[fn] || fn.Blocks == nil {
			return
		}
		if fn.Pkg != sp {
			return
		}
		p.fns[fn] = true
		ssau.AllInstrs(fn, func(in ssa.Instruction) {
			switch x := in.(type) {
			case ssa.CallInstruction:
				if _, isGo := in.(*ssa.Go); isGo {
					return // goroutine bodies are the parallel variants (C10)
				}
				if callee := x.Common().StaticCallee(); callee != nil {
					visit(callee)
				}
			case *ssa.MakeClosure:
				if f, ok := x.Fn.(*ssa.Function); ok {
					// closures handed to `go` are excluded above only if called directly; a closure value built on
					// the sequential path is followed unless its only use is a go statement
					onlyGo := true
					for _, r := range ssau.Refs(x) {
						if _, isGo := r.(*ssa.Go); !isGo {
							onlyGo = false
						}
					}
					if !onlyGo {
						visit(f)
					}
				}
			}
		})
	}
	for _, r := range []*ssa.Function{p.addField, p.march, mo} {
		visit(r)
	}
	p.canvas = map[*ssa.Function]bool{}
	for fn := range p.fns {
		p.canvas[fn] = true
	}
	if fm != nil {
		visit(fm)
	}
	for fn := range p.fns {
		p.order = append(p.order, fn)
	}
	sort.Slice(p.order, func(i, j int) bool { return posLess(c.P.Fset, p.order[i].Pos(), p.order[j].Pos()) })
	// the linear index function, by role: the in-package straight-line function (x, y, z int) int that the path
	// calls; the name `index` is only the fallback when that is not unique
	var cands []*ssa.Function
	seen := map[*ssa.Function]bool{}
	for _, fn := range p.order {
		ssau.AllInstrs(fn, func(in ssa.Instruction) {
			call, ok := in.(*ssa.Call)
			if !ok {
				return
			}
			cal := call.Common().StaticCallee()
			if cal == nil || seen[cal] || cal.Pkg != sp || len(cal.Blocks) != 1 {
				return
			}
			seen[cal] = true
			sig := cal.Signature
			if sig.Params().Len() == 3 && sig.Results().Len() == 1 && allInts(sig.Params()) && isInt(sig.Results().At(0).Type()) {
				cands = append(cands, cal)
			}
		})
	}
	if len(cands) == 1 {
		p.index = cands[0]
	} else {
		p.index = methodOf(c, "MarchingCanvas", "index")
	}
	if p.index == nil {
		c.R.Failf("anchor: no unique straight-line (x, y, z int) int helper is called on the AddField/March path and MarchingCanvas.index does not exist")
		return nil
	}
	sig := p.index.Signature
	if sig.Params().Len() != 3 || sig.Results().Len() != 1 || !allInts(sig.Params()) {
		c.R.Failf("anchor: the linear index function no longer has the shape (x, y, z int) int")
		return nil
	}
	return p
}

func allInts(t *types.Tuple) bool {
	for i := 0; i < t.Len(); i++ {
		if !isInt(t.At(i).Type()) {
			return false
		}
	}
	return true
}

// posLess orders positions by (file name, offset): token.Pos values of different files depend on the
// order in which the loader happened to parse them and are not stable between runs.
func posLess(fset *token.FileSet, a, b token.Pos) bool {
	pa, pb := fset.Position(a), fset.Position(b)
	if pa.Filename != pb.Filename {
		return pa.Filename < pb.Filename
	}
	return pa.Offset < pb.Offset
}

// sortedFuncs: FuncsOf in an order that does not depend on the loader's file parse order.
func sortedFuncs(c *props.Ctx, sp *ssa.Package) []*ssa.Function {
	fs := append([]*ssa.Function{}, c.P.FuncsOf(sp)...)
	sort.SliceStable(fs, func(i, j int) bool { return posLess(c.P.Fset, fs[i].Pos(), fs[j].Pos()) })
	return fs
}
