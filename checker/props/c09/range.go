package c09

import (
	"fmt"
	"go/token"
	"go/types"

	"golang.org/x/tools/go/ssa"

	"polycheck/props"
	"polycheck/ssau"
)

// rangeRules: the AddField side of "regardless of where the shape sits relative to the blocks".
//
//	CHUNK-1  a canvas coordinate becomes a block coordinate by floor(c / S) — Floor (not truncation,
//	         which sends negative coordinates to the wrong block) and the S of the index strides
//	RANGE-1  the writer samples world cells [start.a, end.a) on each axis, and AddField passes
//	         start.a = max(cp.a·S, lo.a), end.a = min(cp.a·S + S, hi.a) for the block cp it writes to,
//	         (lo, hi) being the padded bounds: every padded cell of the block is sampled, none outside it
//	RANGE-2  the block list enumerates every block coordinate from blockOf(lo) to blockOf(hi) inclusive
func rangeRules(c *props.Ctx, p *c09path, S int64, writer *ssa.Function, cpParam *ssa.Parameter) {
	chunk1(c, p, S)
	if writer == nil || cpParam == nil {
		return
	}
	startP, endP, ok := writerLoops(c, p, writer)
	if !ok || startP == nil || endP == nil {
		return
	}
	callerClamps(c, p, S, writer, cpParam, startP, endP)
}

// ---------------------------------------------------------------------------

func chunk1(c *props.Ctx, p *c09path, S int64) {
	n := 0
	for _, fn := range p.order {
		name := c.P.FuncName(fn)
		ssau.AllInstrs(fn, func(in ssa.Instruction) {
			st, ok := in.(*ssa.Store)
			if !ok {
				return
			}
			f := ssau.FieldOf(st.Addr)
			if f == nil || !isVectorIntField(f.Name()) {
				return
			}
			if _, ok := vectorIntFieldsOfAddr(st.Addr); !ok {
				return
			}
			v := st.Val
			conv, isConv := v.(*ssa.Convert)
			inner := v
			if isConv && isInt(conv.Type()) {
				inner = conv.X
			}
			fname := ""
			arg := inner
			if call, ok := inner.(*ssa.Call); ok {
				obj := ssau.CalleeObj(call)
				if obj != nil && obj.Pkg() != nil && obj.Pkg().Path() == "math" && len(call.Call.Args) == 1 {
					fname = obj.Name()
					arg = call.Call.Args[0]
				}
			}
			for {
				cv, ok := arg.(*ssa.Convert)
				if !ok {
					break
				}
				arg = cv.X
			}
			q, ok := arg.(*ssa.BinOp)
			if !ok || q.Op != token.QUO {
				return
			}
			k, ok := constNum(q.Y)
			if !ok || k <= 1 {
				return
			}
			n++
			key := fmt.Sprintf("%s#blockOf.%s", name, f.Name())
			pos := c.P.Pos(st.Pos())
			switch {
			case fname == "" || (fname != "Floor"):
				how := "integer conversion / division (rounds toward zero)"
				if fname != "" {
					how = "math." + fname
				}
				c.R.Violate("CHUNK-1", key, pos, fmt.Sprintf("the block coordinate is computed with %s instead of Floor: cells with negative coordinates are assigned to the wrong block", how))
			case k != S:
				c.R.Violate("CHUNK-1", key, pos, fmt.Sprintf("the block coordinate divides by %d but a block has %d cells per axis (index strides)", k, S))
			default:
				c.R.Hold("CHUNK-1", key, pos, fmt.Sprintf("block.%s = floor(cell.%s / %d)", f.Name(), f.Name(), S))
			}
		})
	}
	c.R.Extra["chunk_of_sites"] = n
}

// ---------------------------------------------------------------------------

// countedLoop: phi is `for v := init; v < bound; v++` (or <=); returns init and the exclusive bound as linear forms.
func countedLoop(e *evaluator, phi *ssa.Phi) (lin, lin, bool) {
	var loop *ssau.Loop
	for _, l := range ssau.Loops(phi.Parent()) {
		if l.Header == phi.Block() {
			loop = l
		}
	}
	if loop == nil || len(phi.Edges) < 2 {
		return lin{}, lin{}, false
	}
	var init lin
	initOK, stepOK := false, false
	for i, ed := range phi.Edges {
		if loop.Blocks[phi.Block().Preds[i]] {
			a := e.aff(ed)
			if a.Base == (baseKey{phi, -1}) && a.Coef == 1 && a.Off == 1 {
				stepOK = true
			} else {
				return lin{}, lin{}, false
			}
		} else {
			if initOK {
				return lin{}, lin{}, false
			}
			init = e.lin(ed)
			initOK = true
		}
	}
	if !initOK || !stepOK {
		return lin{}, lin{}, false
	}
	b := phi.Block()
	iff, ok := b.Instrs[len(b.Instrs)-1].(*ssa.If)
	if !ok || !loop.Blocks[b.Succs[0]] || loop.Blocks[b.Succs[1]] {
		return lin{}, lin{}, false
	}
	cmp, ok := iff.Cond.(*ssa.BinOp)
	if !ok || cmp.X != ssa.Value(phi) {
		return lin{}, lin{}, false
	}
	bound := e.lin(cmp.Y)
	switch cmp.Op {
	case token.LSS:
	case token.LEQ:
		bound.Off++
	default:
		return lin{}, lin{}, false
	}
	return init, bound, true
}

func singleParamField(l lin) (*ssa.Parameter, int, bool) {
	if l.Off != 0 || len(l.T) != 1 {
		return nil, 0, false
	}
	for b, cf := range l.T {
		if p, ok := b.V.(*ssa.Parameter); ok && cf == 1 && b.F >= 0 {
			return p, b.F, true
		}
	}
	return nil, 0, false
}

// writerLoops: RANGE-1 (writer half).
func writerLoops(c *props.Ctx, p *c09path, w *ssa.Function) (*ssa.Parameter, *ssa.Parameter, bool2) {
	name := c.P.FuncName(w)
	m := newSlotModel()
	e := m.eval(nil)
	var idxCall *ssa.Call
	ssau.AllInstrs(w, func(in ssa.Instruction) {
		if call, ok := in.(*ssa.Call); ok && call.Call.StaticCallee() == p.index && idxCall == nil {
			idxCall = call
		}
	})
	world, msg := worldCoords(w, m, idxCall)
	if msg != "" {
		return nil, nil, false
	}
	var startP, endP *ssa.Parameter
	good := true
	for a := 0; a < 3; a++ {
		key := fmt.Sprintf("%s#loop%c", name, "XYZ"[a])
		phi, ok := world[a].V.(*ssa.Phi)
		if !ok || world[a].F >= 0 {
			c.R.Undecide("RANGE-1", key, c.P.Pos(w.Pos()), "a sampled world coordinate is not a loop variable")
			good = false
			continue
		}
		init, bound, ok := countedLoop(e, phi)
		if !ok {
			c.R.Undecide("RANGE-1", key, c.P.Pos(phi.Pos()), "the loop over a world coordinate is not a counted loop")
			good = false
			continue
		}
		sp, sf, ok1 := singleParamField(init)
		ep, ef, ok2 := singleParamField(bound)
		if !ok1 || !ok2 {
			c.R.Violate("RANGE-1", key, c.P.Pos(phi.Pos()), fmt.Sprintf("the %c loop of the writer runs over [%s, %s), not over [start.%c, end.%c) of the range it was given", "xyz"[a], init, bound, "XYZ"[a], "XYZ"[a]))
			good = false
			continue
		}
		fields, okf := vectorIntFields(sp.Type())
		if !okf || fields[a] != sf || fields[a] != ef {
			c.R.Violate("AXIS-1", key, c.P.Pos(phi.Pos()), fmt.Sprintf("the %c loop of the writer runs from component #%d to component #%d of its range", "xyz"[a], sf, ef))
			good = false
			continue
		}
		if (startP != nil && startP != sp) || (endP != nil && endP != ep) || sp == ep {
			c.R.Violate("RANGE-1", key, c.P.Pos(phi.Pos()), "the loops of the writer take their bounds from inconsistent parameters")
			good = false
			continue
		}
		startP, endP = sp, ep
		c.R.Hold("RANGE-1", key, c.P.Pos(phi.Pos()), fmt.Sprintf("%c ∈ [%s.%c, %s.%c)", "xyz"[a], sp.Name(), "XYZ"[a], ep.Name(), "XYZ"[a]))
	}
	if !good {
		return nil, nil, false
	}
	return startP, endP, true
}

type bool2 = bool

// minmaxKind: fn(a, b int) int returning the larger ("max") or the smaller ("min") argument; "" otherwise.
func minmaxKind(fn *ssa.Function) string {
	if fn == nil || len(fn.Params) != 2 || len(fn.Blocks) == 0 {
		return ""
	}
	a, b := fn.Params[0], fn.Params[1]
	// concrete evaluation on three orderings
	eval := func(x, y int64) (int64, bool) {
		val := func(v ssa.Value) (int64, bool) {
			switch v {
			case ssa.Value(a):
				return x, true
			case ssa.Value(b):
				return y, true
			}
			return constNum(v)
		}
		blk := fn.Blocks[0]
		var prev *ssa.BasicBlock
		for steps := 0; steps < 16; steps++ {
			var next *ssa.BasicBlock
			for _, in := range blk.Instrs {
				switch t := in.(type) {
				case *ssa.Return:
					if len(t.Results) != 1 {
						return 0, false
					}
					r := t.Results[0]
					if phi, ok := r.(*ssa.Phi); ok && phi.Block() == blk && prev != nil {
						for i, pb := range blk.Preds {
							if pb == prev {
								return val(phi.Edges[i])
							}
						}
						return 0, false
					}
					return val(r)
				case *ssa.If:
					cmp, ok := t.Cond.(*ssa.BinOp)
					if !ok {
						return 0, false
					}
					l, ok1 := val(cmp.X)
					r, ok2 := val(cmp.Y)
					pr := cmpPred(cmp.Op, r)
					if !ok1 || !ok2 || pr == nil {
						return 0, false
					}
					if pr(l) {
						next = blk.Succs[0]
					} else {
						next = blk.Succs[1]
					}
				case *ssa.Jump:
					next = blk.Succs[0]
				case *ssa.BinOp, *ssa.Phi, *ssa.DebugRef:
				default:
					return 0, false
				}
			}
			if next == nil {
				return 0, false
			}
			prev, blk = blk, next
		}
		return 0, false
	}
	isMax, isMin := true, true
	for _, pr := range [][2]int64{{1, 2}, {2, 1}, {3, 3}, {-5, 4}, {4, -5}} {
		r, ok := eval(pr[0], pr[1])
		if !ok {
			return ""
		}
		mx, mn := pr[0], pr[0]
		if pr[1] > mx {
			mx = pr[1]
		}
		if pr[1] < mn {
			mn = pr[1]
		}
		if r != mx {
			isMax = false
		}
		if r != mn {
			isMin = false
		}
	}
	switch {
	case isMax && !isMin:
		return "max"
	case isMin && !isMax:
		return "min"
	}
	return ""
}

func callMinMax(call *ssa.Call) (string, []ssa.Value) {
	if b := ssau.Builtin(call); b == "min" || b == "max" {
		return b, call.Call.Args
	}
	obj := ssau.CalleeObj(call)
	if obj != nil && obj.Pkg() != nil && obj.Pkg().Path() == "math" && (obj.Name() == "Min" || obj.Name() == "Max") {
		return map[string]string{"Min": "min", "Max": "max"}[obj.Name()], call.Call.Args
	}
	if cal := call.Call.StaticCallee(); cal != nil {
		if k := minmaxKind(cal); k != "" {
			return k, call.Call.Args
		}
	}
	return "", nil
}

// callerClamps: RANGE-1 (caller half) and RANGE-2.
func callerClamps(c *props.Ctx, p *c09path, S int64, w *ssa.Function, cpParam, startP, endP *ssa.Parameter) {
	paramIdx := func(q *ssa.Parameter) int {
		for i, x := range w.Params {
			if x == q {
				return i
			}
		}
		return -1
	}
	for _, fn := range p.order {
		if fn == w {
			continue
		}
		name := c.P.FuncName(fn)
		m := newSlotModel()
		e := m.eval(nil)
		ssau.AllInstrs(fn, func(in ssa.Instruction) {
			call, ok := in.(*ssa.Call)
			if !ok || call.Call.StaticCallee() != w {
				return
			}
			args := call.Call.Args
			cpV := structSource(args[paramIdx(cpParam)])
			stV, enV := args[paramIdx(startP)], args[paramIdx(endP)]
			fields, okf := vectorIntFields(cpParam.Type())
			if !okf {
				return
			}
			var lo, hi ssa.Value
			var bounds [2][3]ssa.Value
			var bkeys, bpos [2][3]string
			good := true
			for a := 0; a < 3; a++ {
				for side, sv := range []ssa.Value{stV, enV} {
					which := []string{"start", "end"}[side]
					key := fmt.Sprintf("%s→%s#%s.%c", name, w.Name(), which, "XYZ"[a])
					fv, ev, ok := rangeComponent(e, sv, fields[a], 0)
					pos := c.P.Pos(call.Pos())
					if !ok {
						c.R.Undecide("RANGE-1", key, pos, "the range handed to the writer is not a struct literal with one definition per component")
						good = false
						continue
					}
					if in2, ok := fv.(ssa.Instruction); ok {
						pos = c.P.Pos(ssau.PosOf(in2))
					}
					mc, ok := fv.(*ssa.Call)
					kind, margs := "", []ssa.Value(nil)
					if ok {
						kind, margs = callMinMax(mc)
					}
					wantKind := []string{"max", "min"}[side]
					if kind == "" || len(margs) != 2 {
						c.R.Undecide("RANGE-1", key, pos, "the "+which+" of the sampled range is not a max/min clamp of the block extent against the padded bounds")
						good = false
						continue
					}
					if kind != wantKind {
						c.R.Violate("RANGE-1", key, pos, fmt.Sprintf("the %s of the sampled range takes the %s of the block extent and the padded bound; it must take the %s", which, kind, wantKind))
						good = false
						continue
					}
					l0, l1 := ev.lin(margs[0]), ev.lin(margs[1])
					blockTerm := lin{T: map[baseKey]int64{{cpV, fields[a]}: S}, Off: int64(side) * S}
					var other lin
					switch {
					case sameLin(l0, blockTerm):
						other = l1
					case sameLin(l1, blockTerm):
						other = l0
					default:
						c.R.Violate("RANGE-1", key, pos, fmt.Sprintf("the %s of the sampled range clamps %s against %s; the extent of the block being written is %s on this axis — cells of the block are left unsampled or cells outside it are written", which, l0, l1, blockTerm))
						good = false
						continue
					}
					// the other operand: component a of one bounds value
					if other.Off != 0 || len(other.T) != 1 {
						c.R.Violate("RANGE-1", key, pos, fmt.Sprintf("the %s of the sampled range is clamped against %s, not against the padded bound itself", which, other))
						good = false
						continue
					}
					for b, cf := range other.T {
						if cf != 1 || b.F != fields[a] {
							c.R.Violate("RANGE-1", key, pos, fmt.Sprintf("the %s of the sampled range on %c is clamped against %s", which, "XYZ"[a], other))
							good = false
							continue
						}
						bounds[side][a] = b.V
						bkeys[side][a] = key
						bpos[side][a] = pos
					}
					if good {
						c.R.Hold("RANGE-1", key, pos, fmt.Sprintf("%s.%c = %s(%s, %s)", which, "XYZ"[a], kind, l0, l1))
					}
				}
			}
			if !good {
				return
			}
			// all three axes must clamp against the same lower / upper value: blame the odd one out
			for side := 0; side < 2; side++ {
				cnt := map[ssa.Value]int{}
				for a := 0; a < 3; a++ {
					cnt[bounds[side][a]]++
				}
				var maj ssa.Value
				for v, n := range cnt {
					if maj == nil || n > cnt[maj] {
						maj = v
					}
				}
				for a := 0; a < 3; a++ {
					if bounds[side][a] != maj {
						c.R.Violate("RANGE-1", bkeys[side][a], bpos[side][a], fmt.Sprintf("the %s of the sampled range on %c is clamped against a different bounds value than on the other axes", []string{"start", "end"}[side], "XYZ"[a]))
						good = false
					}
				}
				if side == 0 {
					lo = maj
				} else {
					hi = maj
				}
			}
			if !good || lo == nil || hi == nil {
				return
			}
			// (lo, hi) are results #0 / #1 of one call; the block list comes from listFn(lo, hi)
			key := fmt.Sprintf("%s→%s#bounds", name, w.Name())
			lx, ok1 := lo.(*ssa.Extract)
			hx, ok2 := hi.(*ssa.Extract)
			if ok1 && ok2 && lx.Tuple == hx.Tuple && (lx.Index != 0 || hx.Index != 1) {
				c.R.Violate("RANGE-1", key, c.P.Pos(call.Pos()), fmt.Sprintf("the start of the sampled range is clamped against result #%d and the end against result #%d of %s: lower and upper bound are confused", lx.Index, hx.Index, calleeName(lx.Tuple)))
				return
			}
			if !ok1 || !ok2 || lx.Tuple != hx.Tuple {
				c.R.Undecide("RANGE-1", key, c.P.Pos(call.Pos()), "lower and upper bound are not the two results of one bounds computation")
				return
			}
			c.R.Hold("RANGE-1", key, c.P.Pos(call.Pos()), "lower / upper clamp bounds are results #0 / #1 of "+calleeName(lx.Tuple))
			// block list: cpV is an element of a slice returned by listFn(lo, hi)
			listCall := blockListCall(cpV)
			if listCall == nil {
				c.R.Undecide("RANGE-2", name+"#blockList", c.P.Pos(call.Pos()), "the block being written is not an element of a block list computed by a helper")
				return
			}
			var largs []ssa.Value
			for _, a := range listCall.Call.Args {
				if _, ok := vectorIntFields(a.Type()); ok {
					largs = append(largs, structSource(a))
				}
			}
			if len(largs) != 2 || largs[0] != lo || largs[1] != hi {
				c.R.Violate("RANGE-2", name+"#blockList", c.P.Pos(listCall.Pos()), "the block list is not computed from the same (lower, upper) bounds the sampled ranges are clamped to")
				return
			}
			c.R.Hold("RANGE-2", name+"#blockList", c.P.Pos(listCall.Pos()), "blocks = "+calleeName(listCall)+"(lower, upper)")
			if lf := listCall.Call.StaticCallee(); lf != nil {
				blockList(c, p, lf)
			}
		})
	}
}

func calleeName(v ssa.Value) string {
	if call, ok := v.(*ssa.Call); ok {
		if cal := call.Call.StaticCallee(); cal != nil {
			return cal.Name()
		}
	}
	return v.Name()
}

// rangeComponent: the value of component f of a range struct handed to the writer, and the evaluator in whose
// context it is to be read: a local struct literal with one definition per component, or result #i of an
// in-package helper with a single return whose result #i is such a literal (the helper's parameters are bound
// to the caller's arguments, so the clamp is judged in the caller's terms exactly as if it were written inline).
func rangeComponent(e *evaluator, sv ssa.Value, f int, depth int) (ssa.Value, *evaluator, bool) {
	if fv, ok := structFieldValue(sv, f); ok {
		return fv, e, true
	}
	if depth >= 2 {
		return nil, nil, false
	}
	src := structSource(sv)
	var call *ssa.Call
	idx := 0
	switch t := src.(type) {
	case *ssa.Extract:
		call, _ = t.Tuple.(*ssa.Call)
		idx = t.Index
	case *ssa.Call:
		call = t
	}
	if call == nil {
		return nil, nil, false
	}
	callee := call.Call.StaticCallee()
	if callee == nil || call.Parent() == nil || callee.Pkg != call.Parent().Pkg {
		return nil, nil, false
	}
	ret := singleReturn(callee)
	if ret == nil || idx >= len(ret.Results) {
		return nil, nil, false
	}
	sub := e.enter(call)
	if sub == nil {
		return nil, nil, false
	}
	return rangeComponent(sub, ret.Results[idx], f, depth+1)
}

// structFieldValue: the SSA value stored into field f of the struct value sv (a load of a local literal).
func structFieldValue(sv ssa.Value, f int) (ssa.Value, bool) {
	u, ok := sv.(*ssa.UnOp)
	if !ok || u.Op != token.MUL {
		return nil, false
	}
	al, ok := u.X.(*ssa.Alloc)
	if !ok {
		return nil, false
	}
	defs := fieldDefs(al, f, u)
	if len(defs) != 1 {
		return nil, false
	}
	if defs[0].whole {
		return structFieldValue(defs[0].val, f)
	}
	return defs[0].val, true
}

// blockListCall: v is (a copy of) an element of the slice returned by a call.
func blockListCall(v ssa.Value) *ssa.Call {
	u, ok := v.(*ssa.UnOp)
	if !ok || u.Op != token.MUL {
		return nil
	}
	ia, ok := u.X.(*ssa.IndexAddr)
	if !ok {
		return nil
	}
	call, _ := ia.X.(*ssa.Call)
	return call
}

// blockList: RANGE-2 on the function that enumerates the blocks between two bounds.
func blockList(c *props.Ctx, p *c09path, fn *ssa.Function) {
	name := c.P.FuncName(fn)
	m := newSlotModel()
	e := m.eval(nil)
	// the two VectorInt parameters, in order
	var ps []*ssa.Parameter
	for _, q := range fn.Params {
		if _, ok := vectorIntFields(q.Type()); ok {
			ps = append(ps, q)
		}
	}
	if len(ps) != 2 {
		c.R.Undecide("RANGE-2", name, c.P.Pos(fn.Pos()), "the block list function does not take exactly two bounds")
		return
	}
	fields, _ := vectorIntFields(ps[0].Type())
	// blockOf(param): calls whose three int arguments are the components of one parameter
	blockOf := map[ssa.Value]*ssa.Parameter{}
	ssau.AllInstrs(fn, func(in ssa.Instruction) {
		call, ok := in.(*ssa.Call)
		if !ok || call.Call.StaticCallee() == nil || !p.fns[call.Call.StaticCallee()] {
			return
		}
		if _, ok := vectorIntFields(call.Type()); !ok {
			return
		}
		args := call.Call.Args
		if len(args) < 3 {
			return
		}
		var q *ssa.Parameter
		for a := 0; a < 3; a++ {
			pa, f, ok := singleParamField(e.lin(args[len(args)-3+a]))
			if !ok || f != fields[a] || (q != nil && q != pa) {
				return
			}
			q = pa
		}
		blockOf[call] = q
	})
	// appended elements inside the loops
	n := 0
	ssau.AllInstrs(fn, func(in ssa.Instruction) {
		call, ok := in.(*ssa.Call)
		if !ok || ssau.Builtin(call) != "append" || !inAnyLoop(fn, call.Block()) {
			return
		}
		sa := m.arrOf(call.Call.Args[1])
		if sa == nil || sa.N != 1 {
			return
		}
		if _, ok := vectorIntFields(sa.Elem); !ok {
			return
		}
		for a := 0; a < 3; a++ {
			n++
			key := fmt.Sprintf("%s#enumerate.%c", name, "XYZ"[a])
			pos := c.P.Pos(call.Pos())
			el, _, ok := e.elemField(sa, 0, fields[a])
			if !ok {
				c.R.Undecide("RANGE-2", key, pos, "component of the appended block position has several definitions")
				continue
			}
			l := e.lin(el.Base.V)
			if el.Base.F >= 0 || el.isConst() {
				l = linOf(el)
			} else {
				l = lin{T: map[baseKey]int64{}, Off: el.Off}.addScaled(l, el.Coef)
			}
			// exactly one loop variable with coefficient 1
			var lv *ssa.Phi
			rest := lin{T: map[baseKey]int64{}, Off: l.Off}
			for b, cf := range l.T {
				if ph, ok := b.V.(*ssa.Phi); ok && b.F < 0 && cf == 1 && lv == nil {
					if _, _, isLoop := countedLoop(e, ph); isLoop {
						lv = ph
						continue
					}
				}
				rest.T[b] = cf
			}
			if lv == nil {
				c.R.Undecide("RANGE-2", key, pos, "appended block coordinate is not loopVariable + offset: "+l.String())
				continue
			}
			init, bound, _ := countedLoop(e, lv)
			first := rest.addScaled(init, 1)
			last := rest.addScaled(bound, 1)
			last.Off--
			wantFirst, wantLast := blockOfLin(blockOf, ps[0], fields[a]), blockOfLin(blockOf, ps[1], fields[a])
			if wantFirst == nil || wantLast == nil {
				c.R.Undecide("RANGE-2", key, pos, "the block coordinates of the two bounds were not recognised")
				continue
			}
			if !sameLin(first, *wantFirst) || !sameLin(last, *wantLast) {
				c.R.Violate("RANGE-2", key, pos, fmt.Sprintf("blocks enumerated on %c run from %s to %s (inclusive), the bounds lie in blocks %s and %s: a block the field reaches is never sampled, the shape is cut off there", "XYZ"[a], first, last, *wantFirst, *wantLast))
				continue
			}
			c.R.Hold("RANGE-2", key, pos, fmt.Sprintf("block.%c ∈ [blockOf(lower).%c, blockOf(upper).%c]", "XYZ"[a], "XYZ"[a], "XYZ"[a]))
		}
	})
	if n == 0 {
		c.R.Undecide("RANGE-2", name, c.P.Pos(fn.Pos()), "no enumeration loop appending block positions found")
	}
	// early returns: a single-element list is only returned when both bounds lie in the same block
	ssau.AllInstrs(fn, func(in ssa.Instruction) {
		ret, ok := in.(*ssa.Return)
		if !ok || len(ret.Results) != 1 || inAnyLoop(fn, ret.Block()) {
			return
		}
		sa := m.arrOf(ret.Results[0])
		if sa == nil {
			return // the accumulated list
		}
		key := name + "#singleBlock"
		iff, onTrue, ok := guardOf(ret.Block())
		if !ok {
			c.R.Undecide("RANGE-2", key, c.P.Pos(ret.Pos()), "a literal block list is returned on a path that is not a simple if")
			return
		}
		cmp, ok := iff.Cond.(*ssa.BinOp)
		if !ok || !((cmp.Op == token.EQL && onTrue) || (cmp.Op == token.NEQ && !onTrue)) {
			c.R.Undecide("RANGE-2", key, c.P.Pos(ret.Pos()), "the condition of the early return is not an equality of the two block positions")
			return
		}
		x, y := structSource(cmp.X), structSource(cmp.Y)
		px, py := blockOf[x], blockOf[y]
		if px == nil || py == nil || px == py {
			c.R.Violate("RANGE-2", key, c.P.Pos(cmp.Pos()), "a one-block list is returned under a condition other than blockOf(lower) == blockOf(upper): blocks are dropped for fields that span several blocks")
			return
		}
		// the element returned is one of the two (equal) block positions
		vals := e.slotVals(sa, 0)
		if sa.N != 1 || len(vals) != 1 || blockOf[structSource(vals[0].val)] == nil {
			c.R.Violate("RANGE-2", key, c.P.Pos(ret.Pos()), "the early return does not return the block both bounds lie in")
			return
		}
		c.R.Hold("RANGE-2", key, c.P.Pos(ret.Pos()), "returns [blockOf(lower)] only when blockOf(lower) == blockOf(upper)")
	})
}

func blockOfLin(blockOf map[ssa.Value]*ssa.Parameter, q *ssa.Parameter, f int) *lin {
	for v, pp := range blockOf {
		if pp == q {
			return &lin{T: map[baseKey]int64{{v, f}: 1}}
		}
	}
	return nil
}

var _ types.Type
