package c09

import (
	"math/big"
	"sort"
	"strings"
)

// poly: multivariate polynomial with rational coefficients; a monomial is the
// sorted, '*'-joined list of its symbols (with repetition).
type poly map[string]*big.Rat

func pConst(r *big.Rat) poly {
	if r.Sign() == 0 {
		return poly{}
	}
	return poly{"": new(big.Rat).Set(r)}
}
func pInt(n int64) poly     { return pConst(big.NewRat(n, 1)) }
func pSym(s string) poly    { return poly{s: big.NewRat(1, 1)} }
func (p poly) isZero() bool { return len(p) == 0 }

func (p poly) add(q poly, sign int64) poly {
	out := poly{}
	for k, v := range p {
		out[k] = new(big.Rat).Set(v)
	}
	s := big.NewRat(sign, 1)
	for k, v := range q {
		t := new(big.Rat).Mul(v, s)
		if o, ok := out[k]; ok {
			o.Add(o, t)
			if o.Sign() == 0 {
				delete(out, k)
			}
		} else if t.Sign() != 0 {
			out[k] = t
		}
	}
	return out
}

func mulMono(a, b string) string {
	if a == "" {
		return b
	}
	if b == "" {
		return a
	}
	parts := append(strings.Split(a, "*"), strings.Split(b, "*")...)
	sort.Strings(parts)
	return strings.Join(parts, "*")
}

func (p poly) mul(q poly) poly {
	out := poly{}
	for k1, v1 := range p {
		for k2, v2 := range q {
			k := mulMono(k1, k2)
			t := new(big.Rat).Mul(v1, v2)
			if o, ok := out[k]; ok {
				o.Add(o, t)
				if o.Sign() == 0 {
					delete(out, k)
				}
			} else if t.Sign() != 0 {
				out[k] = t
			}
		}
	}
	return out
}

func (p poly) symbols() []string {
	set := map[string]bool{}
	for k := range p {
		if k == "" {
			continue
		}
		for _, s := range strings.Split(k, "*") {
			set[s] = true
		}
	}
	var out []string
	for s := range set {
		out = append(out, s)
	}
	sort.Strings(out)
	return out
}

func (p poly) String() string {
	var ks []string
	for k := range p {
		ks = append(ks, k)
	}
	sort.Strings(ks)
	var sb strings.Builder
	for i, k := range ks {
		if i > 0 {
			sb.WriteString(" + ")
		}
		c := p[k].RatString()
		switch {
		case k == "":
			sb.WriteString(c)
		case c == "1":
			sb.WriteString(k)
		default:
			sb.WriteString(c + "*" + k)
		}
	}
	if len(ks) == 0 {
		return "0"
	}
	return sb.String()
}

// ratfn = num/den
type ratfn struct{ num, den poly }

func rPoly(p poly) ratfn { return ratfn{p, pInt(1)} }

func (a ratfn) add(b ratfn, sign int64) ratfn {
	return ratfn{a.num.mul(b.den).add(b.num.mul(a.den), sign), a.den.mul(b.den)}
}
func (a ratfn) mul(b ratfn) ratfn { return ratfn{a.num.mul(b.num), a.den.mul(b.den)} }
func (a ratfn) div(b ratfn) ratfn { return ratfn{a.num.mul(b.den), a.den.mul(b.num)} }

// equal: a == b as rational functions (cross-multiplied), both denominators non-zero polynomials.
func (a ratfn) equal(b ratfn) bool {
	if a.den.isZero() || b.den.isZero() {
		return false
	}
	return a.num.mul(b.den).add(b.num.mul(a.den), -1).isZero()
}

func (a ratfn) symbols() []string {
	set := map[string]bool{}
	for _, s := range a.num.symbols() {
		set[s] = true
	}
	for _, s := range a.den.symbols() {
		set[s] = true
	}
	var out []string
	for s := range set {
		out = append(out, s)
	}
	sort.Strings(out)
	return out
}

func (a ratfn) String() string {
	if len(a.den) == 1 {
		if c, ok := a.den[""]; ok && c.Cmp(big.NewRat(1, 1)) == 0 {
			return a.num.String()
		}
	}
	return "(" + a.num.String() + ")/(" + a.den.String() + ")"
}
