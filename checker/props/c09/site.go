package c09

import (
	"fmt"
	"go/token"
	"go/types"
	"sort"
	"strings"

	"golang.org/x/tools/go/packages"
	"golang.org/x/tools/go/ssa"

	"polycheck/props"
	"polycheck/ssau"
)

const (
	vec3Path     = "github.com/EliCDavis/vector/vector3"
	modelingPath = "github.com/EliCDavis/polyform/modeling"
	marchingPath = "github.com/EliCDavis/polyform/modeling/marching"
)

// tables: the three constant tables and their SSA globals.
type tables struct {
	pk           *packages.Package
	tri, ea, eb  *constTable
	gTri, gA, gB *ssa.Global
}

// loadTables finds the three constant tables by the role they play in the functions the March path
// executes — a package-level two-level integer table read as table[case][i], and the two one-level tables
// subscripted by its entries — and reads their initialisers. The names `triangulation`,
// `cornerIndexAFromEdge`, `cornerIndexBFromEdge` are only a fallback (and what the reports call them).
func loadTables(c *props.Ctx, p *c09path) *tables {
	pk := c.P.Pkg(pkgRel)
	sp := c.P.SSAPkg(pkgRel)
	if pk == nil || sp == nil {
		c.R.Failf("anchor package %s not found", pkgRel)
		return nil
	}
	tri := map[*ssa.Global]int{}
	entries := map[ssa.Value]*ssa.Global{}
	for _, fn := range p.order {
		ssau.AllInstrs(fn, func(in ssa.Instruction) {
			v, ok := in.(ssa.Value)
			if !ok {
				return
			}
			if g, idx, ok := tableRead(v); ok && len(idx) == 2 && g.Pkg == sp && isInt(v.Type()) {
				tri[g]++
				entries[v] = g
			}
		})
	}
	var gTri *ssa.Global
	for g := range tri {
		if gTri != nil {
			c.R.Failf("anchor: the March path reads two different two-level integer tables (%s, %s); cannot tell which is the case table", gTri.Name(), g.Name())
			return nil
		}
		gTri = g
	}
	edge := map[*ssa.Global]int{}
	for _, fn := range p.order {
		ssau.AllInstrs(fn, func(in ssa.Instruction) {
			v, ok := in.(ssa.Value)
			if !ok {
				return
			}
			if g, idx, ok := tableRead(v); ok && len(idx) == 1 && g.Pkg == sp && entries[idx[0]] != nil {
				edge[g]++
			}
		})
	}
	var edges []*ssa.Global
	for g := range edge {
		edges = append(edges, g)
	}
	sort.Slice(edges, func(i, j int) bool { return edges[i].Name() < edges[j].Name() })
	if gTri == nil || len(edges) != 2 {
		// fall back to the names
		gTri = sp.Var("triangulation")
		edges = []*ssa.Global{sp.Var("cornerIndexAFromEdge"), sp.Var("cornerIndexBFromEdge")}
		if gTri == nil || edges[0] == nil || edges[1] == nil {
			c.R.Failf("anchor tables not found: no function reached from MarchingCanvas.March / Field.March reads a case table as table[case][i] with two edge→corner tables subscripted by its entries, and the names triangulation / cornerIndexAFromEdge / cornerIndexBFromEdge do not exist")
			return nil
		}
	}
	t := &tables{pk: pk, gTri: gTri, gA: edges[0], gB: edges[1]}
	var err error
	if t.tri, err = readTable(pk, gTri.Name()); err != nil {
		c.R.Failf("anchor table: %v", err)
		return nil
	}
	if t.ea, err = readTable(pk, edges[0].Name()); err != nil {
		c.R.Failf("anchor table: %v", err)
		return nil
	}
	if t.eb, err = readTable(pk, edges[1].Name()); err != nil {
		c.R.Failf("anchor table: %v", err)
		return nil
	}
	if t.tri.Rows == nil || t.ea.Flat == nil || t.eb.Flat == nil {
		c.R.Failf("anchor tables do not have the expected nesting (case table two-level, edge tables one-level)")
		return nil
	}
	return t
}

// tableRead recognises a read of an element of a package-level table and returns
// the global and the index values, outermost first. Both slice-typed rows
// (load the row header, then index) and array-typed rows (nested IndexAddr) are accepted.
func tableRead(v ssa.Value) (*ssa.Global, []ssa.Value, bool) {
	u, ok := v.(*ssa.UnOp)
	if !ok || u.Op != token.MUL {
		return nil, nil, false
	}
	ia, ok := u.X.(*ssa.IndexAddr)
	if !ok {
		return nil, nil, false
	}
	return elemAddrRoot(ia)
}

func elemAddrRoot(ia *ssa.IndexAddr) (*ssa.Global, []ssa.Value, bool) {
	switch x := ia.X.(type) {
	case *ssa.Global:
		return x, []ssa.Value{ia.Index}, true
	case *ssa.IndexAddr:
		g, idx, ok := elemAddrRoot(x)
		if !ok {
			return nil, nil, false
		}
		return g, append(idx, ia.Index), true
	case *ssa.UnOp:
		if x.Op != token.MUL {
			return nil, nil, false
		}
		switch a := x.X.(type) {
		case *ssa.Global:
			return a, []ssa.Value{ia.Index}, true
		case *ssa.IndexAddr:
			g, idx, ok := elemAddrRoot(a)
			if !ok {
				return nil, nil, false
			}
			return g, append(idx, ia.Index), true
		}
	}
	return nil, nil, false
}

// cornerRef: an SSA value that holds "corner A (or B) of the edge named by row entry i+J".
type cornerRef struct {
	Side byte // 'A' or 'B'
	J    int64
}

func (r cornerRef) String() string { return fmt.Sprintf("%c%d", r.Side, r.J) }

// site is one marching-cubes cell loop (a function that walks the case table).
type site struct {
	c    *props.Ctx
	t    *tables
	fn   *ssa.Function
	name string
	ctl  bool
	m    *slotModel

	L      ssa.Value
	iPhi   *ssa.Phi
	step   int64
	stop   func(int64) bool
	stopS  string
	refs   map[ssa.Value]cornerRef
	refPos token.Pos
	P, C   *slotArr

	corner  [8][3]int
	frame   string
	bitVal  [8]int
	inside  bool // InsideWhenBit
	cutoff  ssa.Value
	emit    [3]int
	emitPos token.Pos

	// canvas-style sample fetch
	D, I *slotArr
	// loop-invariant vectors added to every emitted vertex (block offset)
	ksOffset []ssa.Value
	// loop bounds of the three cell coordinates (block-storage site)
	loopBounds [3]int64
	// the vertex sharing helper the emission goes through (index-of(vertex)), if any
	lookupFn *ssa.Function
	vertsOK  bool
	rootEv   *evaluator
	blockFn  *ssa.Function // the function that owns the cell loops (the site itself unless the triangle loop was extracted)
	// calls whose only use is a dead default store (their arguments cannot matter)
	deadCalls   map[*ssa.Call]bool
	flaggedAtEq bool                 // the corner bit is set when the sample equals the threshold
	invs        map[string]ssa.Value // loop-invariant scalar symbols seen in vertex formulas

	// outcome bookkeeping for controls
	viol  map[string]int
	undec int
	ok    bool
}

func (s *site) key(sub string) string { return s.name + "#" + sub }

// root is the evaluator for the site function itself. When the function has exactly one in-package call
// site its parameters can be followed upward (a triangle loop or a cell body extracted into a helper).
func (s *site) root() *evaluator {
	if s.rootEv != nil {
		return s.rootEv
	}
	s.rootEv = &evaluator{m: s.m, up: upBindings(s.m, s.fn, 0)}
	return s.rootEv
}

func upBindings(m *slotModel, fn *ssa.Function, depth int) map[*ssa.Parameter]boundVal {
	if depth > 3 || fn.Pkg == nil || len(fn.Params) == 0 {
		return nil
	}
	var calls []*ssa.Call
	for _, mem := range fn.Pkg.Members {
		_ = mem
	}
	for _, other := range allFuncs(fn.Pkg) {
		ssau.AllInstrs(other, func(in ssa.Instruction) {
			if ci, ok := in.(ssa.CallInstruction); ok && ci.Common().StaticCallee() == fn {
				if call, ok := in.(*ssa.Call); ok {
					calls = append(calls, call)
				} else {
					calls = append(calls, nil)
				}
			}
		})
	}
	if len(calls) != 1 || calls[0] == nil {
		return nil
	}
	call := calls[0]
	caller := &evaluator{m: m, up: upBindings(m, call.Parent(), depth+1)}
	up := map[*ssa.Parameter]boundVal{}
	for i, p := range fn.Params {
		if i < len(call.Call.Args) {
			up[p] = boundVal{call.Call.Args[i], caller}
		}
	}
	return up
}

var funcsCache = map[*ssa.Package][]*ssa.Function{}

// allFuncs: functions, methods and closures of a package (cached per run).
func allFuncs(pkg *ssa.Package) []*ssa.Function {
	if fs, ok := funcsCache[pkg]; ok {
		return fs
	}
	seen := map[*ssa.Function]bool{}
	var out []*ssa.Function
	var add func(f *ssa.Function)
	add = func(f *ssa.Function) {
		if f == nil || seen[f] || f.Blocks == nil {
			return
		}
		seen[f] = true
		out = append(out, f)
		for _, a := range f.AnonFuncs {
			add(a)
		}
	}
	for _, mem := range pkg.Members {
		switch x := mem.(type) {
		case *ssa.Function:
			add(x)
		case *ssa.Type:
			for _, t := range []types.Type{x.Type(), types.NewPointer(x.Type())} {
				ms := pkg.Prog.MethodSets.MethodSet(t)
				for i := 0; i < ms.Len(); i++ {
					if f := pkg.Prog.MethodValue(ms.At(i)); f != nil && f.Pkg == pkg {
						add(f)
					}
				}
			}
		}
	}
	sort.Slice(out, func(i, j int) bool { return posLess(pkg.Prog.Fset, out[i].Pos(), out[j].Pos()) })
	funcsCache[pkg] = out
	return out
}

func (s *site) hold(rule, sub string, pos token.Pos, facts ...string) {
	if s.ctl {
		return
	}
	s.c.R.Hold(rule, s.key(sub), s.c.P.Pos(pos), facts...)
}
func (s *site) violate(rule, sub string, pos token.Pos, msg string, facts ...string) {
	s.viol[rule]++
	if s.ctl {
		return
	}
	s.c.R.Violate(rule, s.key(sub), s.c.P.Pos(pos), msg, facts...)
}
func (s *site) undecide(rule, sub string, pos token.Pos, msg string) {
	s.undec++
	s.viol[rule+"?"]++
	if s.ctl {
		return
	}
	s.c.R.Undecide(rule, s.key(sub), s.c.P.Pos(pos), msg)
}

// findSites returns every function of the package that reads the case table.
func findSites(c *props.Ctx, t *tables) []*ssa.Function {
	sp := c.P.SSAPkg(pkgRel)
	var out []*ssa.Function
	for _, fn := range sortedFuncs(c, sp) {
		if fn.Synthetic != "" {
			continue
		}
		reads := false
		ssau.AllInstrs(fn, func(in ssa.Instruction) {
			if v, ok := in.(ssa.Value); ok {
				if g, idx, ok := tableRead(v); ok && g == t.gTri && len(idx) == 2 {
					reads = true
				}
			}
		})
		if reads {
			out = append(out, fn)
		}
	}
	sort.Slice(out, func(i, j int) bool { return posLess(c.P.Fset, out[i].Pos(), out[j].Pos()) })
	return out
}

func isVec3(t types.Type) bool { return ssau.IsNamed(t, vec3Path, "Vector") }

func isVec3New(call *ssa.Call) bool {
	return ssau.IsFunc(ssau.CalleeObj(call), vec3Path, "New")
}

func isVec3Method(call *ssa.Call, name string) bool {
	return ssau.IsMethod(ssau.CalleeObj(call), vec3Path, "Vector", name)
}

// analyseSite extracts the model of one site and records TAB-4/TAB-5/PAIR-1/SYM-ALG
// obligations; it returns false when the table engine cannot be run for it.
func analyseSite(c *props.Ctx, t *tables, fn *ssa.Function) *site {
	s := &site{c: c, t: t, fn: fn, name: c.P.FuncName(fn), ctl: c.P.IsControl(fn.Pos()), m: newSlotModel(),
		refs: map[ssa.Value]cornerRef{}, viol: map[string]int{}, invs: map[string]ssa.Value{}, deadCalls: map[*ssa.Call]bool{}}
	if !s.findTriLoop() {
		return s
	}
	if !s.findCornerArrays() {
		return s
	}
	if !s.cornerPositions() {
		return s
	}
	okS := s.samples()
	okL := s.caseIndex()
	okV := s.vertices()
	s.vertsOK = okV
	s.ok = okS && okL && okV
	return s
}

// ---------------------------------------------------------------------------
// A. triangle loop: triangulation[L][i+j], cornerIndex{A,B}FromEdge[entry]

func (s *site) findTriLoop() bool {
	fn := s.fn
	ev := s.root()
	type entry struct {
		L, J ssa.Value
	}
	entries := map[ssa.Value]entry{}
	var firstPos token.Pos
	ssau.AllInstrs(fn, func(in ssa.Instruction) {
		v, ok := in.(ssa.Value)
		if !ok {
			return
		}
		g, idx, ok := tableRead(v)
		if !ok {
			return
		}
		if g == s.t.gTri && len(idx) == 2 {
			entries[v] = entry{idx[0], idx[1]}
			if !firstPos.IsValid() {
				firstPos = ssau.PosOf(in)
			}
		}
	})
	if len(entries) == 0 {
		s.undecide("TAB-2", "triangleLoop", fn.Pos(), "the function touches the case table but no read of the form table[case][i] was recognised")
		return false
	}
	s.refPos = firstPos
	// all entries share one case index and one loop counter
	var jbase *baseKey
	entryJ := map[ssa.Value]int64{}
	for v, e := range entries {
		if s.L == nil {
			s.L = e.L
		} else if s.L != e.L {
			s.undecide("TAB-2", "triangleLoop", ssau.PosOf(v.(ssa.Instruction)), "rows of the case table are read with different case-index values in one function")
			return false
		}
		a := ev.aff(e.J)
		if a.isConst() || a.Coef != 1 {
			s.undecide("TAB-2", "triangleLoop", ssau.PosOf(v.(ssa.Instruction)), "column index of a case-table read is not loopCounter+const: "+a.String())
			return false
		}
		if jbase == nil {
			b := a.Base
			jbase = &b
		} else if *jbase != a.Base {
			s.undecide("TAB-2", "triangleLoop", ssau.PosOf(v.(ssa.Instruction)), "case-table columns are indexed from different counters")
			return false
		}
		entryJ[v] = a.Off
	}
	phi, ok := jbase.V.(*ssa.Phi)
	if !ok || jbase.F >= 0 {
		s.undecide("TAB-2", "triangleLoop", firstPos, "the column counter of the case-table reads is not a loop variable")
		return false
	}
	s.iPhi = phi
	// init 0, step
	var loop *ssau.Loop
	for _, l := range ssau.Loops(fn) {
		if l.Header == phi.Block() {
			loop = l
		}
	}
	if loop == nil {
		s.undecide("TAB-2", "triangleLoop", firstPos, "the column counter is not the variable of a natural loop")
		return false
	}
	s.step = 0
	initOK := false
	for i, e := range phi.Edges {
		pred := phi.Block().Preds[i]
		a := ev.aff(e)
		if loop.Blocks[pred] {
			if a.Base == (baseKey{phi, -1}) && a.Coef == 1 && a.Off > 0 {
				if s.step != 0 && s.step != a.Off {
					s.step = -1
				} else if s.step == 0 {
					s.step = a.Off
				}
			} else {
				s.step = -1
			}
		} else if a.isConst() && a.Off == 0 {
			initOK = true
		} else {
			initOK = false
			s.step = -1
		}
	}
	if !initOK || s.step != 3 {
		s.violate("TAB-2", "triangleLoop", phi.Pos(), fmt.Sprintf("the triangle loop must walk the row from 0 in steps of 3 (init ok=%v, step=%d)", initOK, s.step))
		return false
	}
	// termination test: compare of entry[i+0] with a constant, one branch leaving the loop
	for b := range loop.Blocks {
		if len(b.Instrs) == 0 {
			continue
		}
		iff, ok := b.Instrs[len(b.Instrs)-1].(*ssa.If)
		if !ok {
			continue
		}
		cmp, ok := iff.Cond.(*ssa.BinOp)
		if !ok {
			continue
		}
		x, y, op := cmp.X, cmp.Y, cmp.Op
		if _, isEntry := entries[y]; isEntry {
			x, y = y, x
			op = flipCmp(op)
		}
		if _, isEntry := entries[x]; !isEntry || entryJ[x] != 0 {
			continue
		}
		k, ok := constNum(y)
		if !ok {
			continue
		}
		stayTrue := loop.Blocks[b.Succs[0]]
		stayFalse := loop.Blocks[b.Succs[1]]
		if stayTrue == stayFalse {
			continue
		}
		cont := cmpPred(op, k)
		if cont == nil {
			continue
		}
		if stayTrue {
			s.stop = func(v int64) bool { return !cont(v) }
			s.stopS = fmt.Sprintf("stop unless entry %s %d", op, k)
		} else {
			s.stop = cont
			s.stopS = fmt.Sprintf("stop when entry %s %d", op, k)
		}
	}
	if s.stop == nil {
		s.undecide("TAB-2", "triangleLoop", phi.Pos(), "no termination test of the form table[case][i] <op> const found in the triangle loop")
		return false
	}
	// corner references
	nref := 0
	bad := false
	ssau.AllInstrs(fn, func(in ssa.Instruction) {
		v, ok := in.(ssa.Value)
		if !ok {
			return
		}
		g, idx, ok := tableRead(v)
		if !ok || len(idx) != 1 || (g != s.t.gA && g != s.t.gB) {
			return
		}
		j, isEntry := entryJ[idx[0]]
		if !isEntry {
			s.undecide("PAIR-1", "cornerLookup", ssau.PosOf(in), "an edge→corner table is indexed by something that is not an entry of the current case row")
			bad = true
			return
		}
		side := byte('A')
		if g == s.t.gB {
			side = 'B'
		}
		s.refs[v] = cornerRef{side, j}
		nref++
	})
	if bad {
		return false
	}
	if nref == 0 {
		s.undecide("PAIR-1", "cornerLookup", firstPos, "no lookup of the edge→corner tables by a case-row entry found")
		return false
	}
	for _, r := range s.refs {
		if r.J < 0 || r.J >= s.step {
			s.violate("TAB-2", "triangleLoop", firstPos, fmt.Sprintf("row entry i%+d is used with a loop step of %d", r.J, s.step))
			return false
		}
	}
	return true
}

func flipCmp(op token.Token) token.Token {
	switch op {
	case token.LSS:
		return token.GTR
	case token.GTR:
		return token.LSS
	case token.LEQ:
		return token.GEQ
	case token.GEQ:
		return token.LEQ
	}
	return op
}

func cmpPred(op token.Token, k int64) func(int64) bool {
	switch op {
	case token.NEQ:
		return func(v int64) bool { return v != k }
	case token.EQL:
		return func(v int64) bool { return v == k }
	case token.LSS:
		return func(v int64) bool { return v < k }
	case token.LEQ:
		return func(v int64) bool { return v <= k }
	case token.GTR:
		return func(v int64) bool { return v > k }
	case token.GEQ:
		return func(v int64) bool { return v >= k }
	}
	return nil
}

// ---------------------------------------------------------------------------
// B. per-corner arrays = local arrays subscripted by a corner reference

func (s *site) findCornerArrays() bool {
	var refs []ssa.Value
	for v := range s.refs {
		refs = append(refs, v)
	}
	sort.Slice(refs, func(i, j int) bool {
		return refs[i].Pos() < refs[j].Pos() || (refs[i].Pos() == refs[j].Pos() && refs[i].Name() < refs[j].Name())
	})
	for _, v := range refs {
		for _, r := range ssau.Refs(v) {
			switch u := r.(type) {
			case *ssa.IndexAddr:
				if u.Index != v {
					continue
				}
				sa, _ := s.root().arr(u.X)
				if sa == nil {
					s.undecide("PAIR-1", "cornerArrays", ssau.PosOf(u), "a corner number subscripts something that is not a local fixed-size per-corner array")
					return false
				}
				if isVec3(sa.Elem) {
					if s.P != nil && s.P != sa {
						s.undecide("PAIR-1", "cornerArrays", ssau.PosOf(u), "corner numbers subscript two different position arrays")
						return false
					}
					s.P = sa
				} else if b, ok := sa.Elem.Underlying().(*types.Basic); ok && b.Info()&types.IsFloat != 0 {
					if s.C != nil && s.C != sa {
						s.undecide("PAIR-1", "cornerArrays", ssau.PosOf(u), "corner numbers subscript two different sample arrays")
						return false
					}
					s.C = sa
				} else {
					s.undecide("PAIR-1", "cornerArrays", ssau.PosOf(u), "a corner number subscripts an array that is neither positions nor samples: "+sa.Elem.String())
					return false
				}
			case *ssa.DebugRef:
			default:
				s.undecide("PAIR-1", "cornerArrays", ssau.PosOf(r), fmt.Sprintf("a corner number is used other than as a subscript (%T)", r))
				return false
			}
		}
	}
	if s.P == nil || s.C == nil {
		s.undecide("PAIR-1", "cornerArrays", s.refPos, "could not find both the per-corner position array and the per-corner sample array")
		return false
	}
	for _, a := range []*slotArr{s.P, s.C} {
		if a.Opaque != "" {
			s.undecide("TAB-4", "cornerArrays", a.Base.Pos(), "per-corner array "+a.Name+" is modified in a way the model does not follow: "+a.Opaque)
			return false
		}
		if a.N != 8 {
			s.violate("TAB-4", "cornerArrays", a.Base.Pos(), fmt.Sprintf("per-corner array has %d slots, a cube has 8 corners", a.N))
			return false
		}
	}
	return true
}

// ---------------------------------------------------------------------------
// C. corner positions

type vecDesc struct {
	comps  bool      // built by vector3.New from three scalars
	comp   [3]affine // comps
	vbase  ssa.Value // !comps: base vector value
	unit   ssa.Value // !comps: the step added (nil when no offset is added)
	off    [3]int64  // !comps
	reason string
}

func (s *site) evalVec(e *evaluator, v ssa.Value) vecDesc {
	if p, ok := v.(*ssa.Parameter); ok {
		if cv, ce := e.canon(p); cv != v {
			return s.evalVec(ce, cv)
		}
	}
	if call, ok := v.(*ssa.Call); ok {
		if isVec3New(call) && len(call.Call.Args) == 3 {
			d := vecDesc{comps: true}
			for i := 0; i < 3; i++ {
				d.comp[i] = e.aff(call.Call.Args[i])
			}
			return d
		}
		if isVec3Method(call, "Add") && len(call.Call.Args) == 2 {
			a, b := s.evalVec(e, call.Call.Args[0]), s.evalVec(e, call.Call.Args[1])
			if a.comps && !b.comps {
				a, b = b, a
			}
			if !a.comps && b.comps {
				out := a
				for i := 0; i < 3; i++ {
					cm := b.comp[i]
					switch {
					case cm.isConst() && cm.Off == 0:
					case !cm.isConst() && cm.Coef == 1 && cm.Off == 0 && cm.Base.F < 0 && (out.unit == nil || out.unit == cm.Base.V):
						out.unit = cm.Base.V
						out.off[i]++
					default:
						out.reason = "offset component is neither 0 nor the common cell step: " + cm.String()
					}
				}
				return out
			}
		}
	}
	if sa, idx, ok := e.slotLoad(v); ok && sa.Opaque == "" {
		if k := e.aff(idx); k.isConst() {
			if vals := e.slotVals(sa, int(k.Off)); len(vals) == 1 {
				return s.evalVec(vals[0].ev(e), vals[0].val)
			}
		}
	}
	return vecDesc{vbase: v}
}

func (s *site) cornerPositions() bool {
	e := s.root()
	var frame string
	okAll := true
	for k := 0; k < 8; k++ {
		sub := fmt.Sprintf("corner[%d]:position", k)
		vals := e.slotVals(s.P, k)
		if len(vals) != 1 {
			s.undecide("TAB-4", sub, s.P.Base.Pos(), fmt.Sprintf("position of corner %d has %d definitions", k, len(vals)))
			okAll = false
			continue
		}
		d := s.evalVec(vals[0].ev(e), vals[0].val)
		pos := vals[0].store.Store.Pos()
		if vals[0].unknownRange {
			d.reason = "corner positions are written under a subscript whose range is not a recognisable constant loop"
		}
		if d.reason != "" {
			s.undecide("TAB-4", sub, pos, d.reason)
			okAll = false
			continue
		}
		var fr string
		var off [3]int64
		if d.comps {
			var bs []string
			for i := 0; i < 3; i++ {
				if d.comp[i].isConst() || d.comp[i].Coef != 1 {
					s.undecide("TAB-4", sub, pos, "corner position component is not cellCoordinate+const: "+d.comp[i].String())
					okAll = false
				}
				bs = append(bs, d.comp[i].Base.String())
				off[i] = d.comp[i].Off
			}
			fr = "New(" + strings.Join(bs, ",") + ")"
			if d.comp[0].Base == d.comp[1].Base || d.comp[1].Base == d.comp[2].Base || d.comp[0].Base == d.comp[2].Base {
				s.violate("AXIS-1", sub, pos, "two components of a corner position are built from the same cell coordinate: "+fr)
				okAll = false
			}
		} else {
			u := "1"
			if d.unit != nil {
				u = d.unit.Name()
			}
			fr = "vec(" + d.vbase.Name() + ")"
			_ = u
			off = d.off
		}
		if frame == "" {
			frame = fr
		} else if frame != fr {
			s.violate("TAB-4", sub, pos, fmt.Sprintf("corner %d is positioned relative to %s while the other corners use %s", k, fr, frame))
			okAll = false
			continue
		}
		for i := 0; i < 3; i++ {
			s.corner[k][i] = int(off[i])
		}
	}
	if !okAll {
		return false
	}
	s.frame = frame
	// units must agree across corners for the vector-base form
	var unit ssa.Value
	for k := 0; k < 8; k++ {
		vals := e.slotVals(s.P, k)
		d := s.evalVec(vals[0].ev(e), vals[0].val)
		if !d.comps && d.unit != nil {
			if unit == nil {
				unit = d.unit
			} else if unit != d.unit {
				s.violate("TAB-4", fmt.Sprintf("corner[%d]:position", k), vals[0].store.Store.Pos(), "corner offsets use different step values")
				return false
			}
		}
	}
	cb := newCube(&cubeSpec{Corner: s.corner})
	fs := cb.checkLayout()
	for _, f := range fs {
		s.violate(f.Rule, f.Key+":position", s.P.Base.Pos(), f.Msg)
	}
	if len(fs) > 0 {
		return false
	}
	for k := 0; k < 8; k++ {
		s.hold("TAB-4", fmt.Sprintf("corner[%d]:position", k), s.P.Base.Pos(), fmt.Sprintf("corner %d at offset %v relative to %s", k, s.corner[k], frame))
	}
	return true
}

// ---------------------------------------------------------------------------
// D. samples: C[k] = data_k[index_k]  or  C[k] = f(P[k])

func (s *site) samples() bool {
	e := s.root()
	okAll := true
	mode := ""
	var fnVal ssa.Value
	for k := 0; k < 8; k++ {
		sub := fmt.Sprintf("corner[%d]:sample", k)
		vals := e.slotVals(s.C, k)
		if len(vals) != 1 {
			s.undecide("TAB-4", sub, s.C.Base.Pos(), fmt.Sprintf("sample of corner %d has %d definitions", k, len(vals)))
			okAll = false
			continue
		}
		ek := vals[0].ev(e)
		v := vals[0].val
		pos := vals[0].store.Store.Pos()
		if vals[0].unknownRange {
			s.undecide("TAB-4", sub, pos, "samples are written under a subscript whose range is not a recognisable constant loop")
			okAll = false
			continue
		}
		// f(P[k'])
		if call, ok := v.(*ssa.Call); ok && len(call.Call.Args) == 1 && !call.Call.IsInvoke() && call.Call.StaticCallee() == nil {
			sa, idx, ok := ek.slotLoad(call.Call.Args[0])
			if !ok || sa != s.P {
				s.undecide("TAB-4", sub, pos, "sample is a function value applied to something that is not a corner position")
				okAll = false
				continue
			}
			kk := ek.aff(idx)
			if !kk.isConst() {
				s.undecide("TAB-4", sub, pos, "sample position subscript is not constant")
				okAll = false
				continue
			}
			if int(kk.Off) != k {
				s.violate("TAB-4", sub, pos, fmt.Sprintf("sample of corner %d is taken at the position of corner %d", k, kk.Off))
				okAll = false
				continue
			}
			if fnVal == nil {
				fnVal = call.Call.Value
			} else if fnVal != call.Call.Value {
				s.violate("TAB-4", sub, pos, "corners are sampled with different field functions")
				okAll = false
				continue
			}
			if mode != "" && mode != "func" {
				okAll = false
			}
			mode = "func"
			s.hold("TAB-4", sub, pos, fmt.Sprintf("sample[%d] = %s(position[%d])", k, call.Call.Value.Name(), k))
			continue
		}
		// data_k[index_k]
		u, ok := v.(*ssa.UnOp)
		var ia *ssa.IndexAddr
		if ok && u.Op == token.MUL {
			ia, _ = u.X.(*ssa.IndexAddr)
		}
		if ia == nil {
			s.undecide("TAB-4", sub, pos, "sample is neither fieldFunction(position[k]) nor data[k][index[k]]")
			okAll = false
			continue
		}
		dArr, dIdx, ok1 := ek.slotLoad(ia.X)
		iArr, iIdx, ok2 := ek.slotLoad(ia.Index)
		if !ok1 || !ok2 {
			s.undecide("TAB-4", sub, pos, "sample is read as slice[index] but slice and index do not both come from per-corner arrays")
			okAll = false
			continue
		}
		if (s.D != nil && s.D != dArr) || (s.I != nil && s.I != iArr) {
			s.violate("TAB-4", sub, pos, "corners read their block / index from different per-corner arrays")
			okAll = false
			continue
		}
		s.D, s.I = dArr, iArr
		dk, ik := ek.aff(dIdx), ek.aff(iIdx)
		if !dk.isConst() || !ik.isConst() {
			s.undecide("TAB-4", sub, pos, "per-corner subscripts of the sample fetch are not constant")
			okAll = false
			continue
		}
		if int(dk.Off) != k || int(ik.Off) != k {
			s.violate("TAB-4", sub, pos, fmt.Sprintf("sample of corner %d is read from block slot %d at index slot %d", k, dk.Off, ik.Off))
			okAll = false
			continue
		}
		if mode != "" && mode != "data" {
			okAll = false
		}
		mode = "data"
		s.hold("TAB-4", sub, pos, fmt.Sprintf("sample[%d] = %s[%d][%s[%d]]", k, dArr.Name, k, iArr.Name, k))
	}
	return okAll
}

// ---------------------------------------------------------------------------
// F. case index

// boolSource resolves a branch condition through per-corner bool arrays to a comparison.
func (s *site) boolSource(e *evaluator, v ssa.Value) (*ssa.BinOp, *evaluator, bool, bool) {
	neg := false
	for depth := 0; depth < 8; depth++ {
		switch x := v.(type) {
		case *ssa.BinOp:
			switch x.Op {
			case token.LSS, token.LEQ, token.GTR, token.GEQ:
				return x, e, neg, true
			}
			return nil, nil, false, false
		case *ssa.UnOp:
			if x.Op == token.NOT {
				neg = !neg
				v = x.X
				continue
			}
			sa, idx, ok := e.slotLoad(x)
			if !ok || sa.Opaque != "" {
				return nil, nil, false, false
			}
			k := e.aff(idx)
			if !k.isConst() {
				return nil, nil, false, false
			}
			vals := e.slotVals(sa, int(k.Off))
			if len(vals) != 1 || vals[0].unknownRange {
				return nil, nil, false, false
			}
			e = vals[0].ev(e)
			v = vals[0].val
			continue
		}
		return nil, nil, false, false
	}
	return nil, nil, false, false
}

// sampleCorner resolves a float value to "sample of corner k".
func (s *site) sampleCorner(e *evaluator, v ssa.Value) (int, bool) {
	sa, idx, ok := e.slotLoad(v)
	if !ok || sa != s.C {
		return 0, false
	}
	k := e.aff(idx)
	if !k.isConst() {
		return 0, false
	}
	return int(k.Off), true
}

type bitStep struct {
	cond   ssa.Value
	onTrue bool
	bit    affine
	bitv   ssa.Value
	pos    token.Pos
	evl    *evaluator // context of cond / bitv (an entered helper, a loop-index binding)
}

func (b bitStep) ev(e *evaluator) *evaluator {
	if b.evl != nil {
		return b.evl
	}
	return e
}

// chainSteps walks a chain `v = phi(prev, prev|bit)` backwards from cur until it reaches
// stopAt (exclusive) or a constant; it returns the steps (last first) and where it stopped.
func (s *site) chainSteps(cur ssa.Value, stopAt ssa.Value) ([]bitStep, ssa.Value, string, token.Pos) {
	var steps []bitStep
	seen := map[ssa.Value]bool{}
	for {
		if cur == stopAt {
			return steps, cur, "", token.NoPos
		}
		if _, ok := constNum(cur); ok {
			return steps, cur, "", token.NoPos
		}
		if _, ok := cur.(*ssa.Parameter); ok {
			return steps, cur, "", token.NoPos
		}
		if seen[cur] {
			return nil, nil, "the case index is built in a cyclic form the rule does not follow", s.refPos
		}
		seen[cur] = true
		phi, ok := cur.(*ssa.Phi)
		if !ok || len(phi.Edges) != 2 {
			return nil, nil, "the case index is not built as a chain of `if corner inside { index |= bit }` steps", s.refPos
		}
		if s.isLoopHeaderPhi(phi) {
			return steps, cur, "", token.NoPos
		}
		var prev ssa.Value
		var step *bitStep
		for i, ed := range phi.Edges {
			bo, ok := ed.(*ssa.BinOp)
			if !ok || (bo.Op != token.OR && bo.Op != token.ADD && bo.Op != token.XOR) {
				continue
			}
			other := phi.Edges[1-i]
			var bitv ssa.Value
			if bo.X == other || sameConst(bo.X, other) {
				bitv = bo.Y
			} else if bo.Y == other || sameConst(bo.Y, other) {
				bitv = bo.X
			} else {
				continue
			}
			pred := phi.Block().Preds[i]
			iff, onTrue, ok := guardOf(pred)
			if !ok || bo.Block() != pred {
				continue
			}
			prev = other
			step = &bitStep{cond: iff.Cond, onTrue: onTrue, bitv: bitv, pos: bo.Pos()}
		}
		if step == nil {
			return nil, nil, "a step of the case index is not `previous | bit` under an if", phi.Pos()
		}
		steps = append(steps, *step)
		cur = prev
	}
}

func (s *site) isLoopHeaderPhi(phi *ssa.Phi) bool {
	for _, l := range ssau.Loops(phi.Parent()) {
		if l.Header == phi.Block() {
			for i := range phi.Edges {
				if l.Blocks[phi.Block().Preds[i]] {
					return true
				}
			}
		}
	}
	return false
}

func (s *site) caseIndex() bool {
	e := s.root()
	var steps []bitStep
	cur := s.L
	fail := func(pos token.Pos, msg string) bool {
		s.undecide("TAB-5", "caseIndex", pos, msg)
		return false
	}
	ctx := e
	for guard := 0; ; guard++ {
		if guard > 20 {
			return fail(s.refPos, "the case index is built in too many stages")
		}
		// a parameter bound to a caller's value, or the result of a helper that computes the index
		cur, ctx = ctx.canon(cur)
		if call, ok := cur.(*ssa.Call); ok {
			callee := call.Call.StaticCallee()
			if callee != nil && callee.Pkg == s.fn.Pkg {
				if ret := singleReturn(callee); ret != nil && len(ret.Results) == 1 {
					ctx = ctx.enter(call)
					cur = ret.Results[0]
					continue
				}
			}
		}
		st, stop, msg, pos := s.chainSteps(cur, nil)
		if msg != "" {
			return fail(pos, msg)
		}
		for i := range st {
			st[i].evl = ctx
		}
		steps = append(steps, st...)
		if _, isParam := stop.(*ssa.Parameter); isParam {
			if cv, _ := ctx.canon(stop); cv != stop {
				cur = stop
				continue
			}
		}
		if n, ok := constNum(stop); ok {
			if n != 0 {
				return fail(s.refPos, fmt.Sprintf("the case index starts from %d, not 0", n))
			}
			break
		}
		// loop form: stop is the loop-carried value  l = phi(init, body(l))
		hphi, isPhi := stop.(*ssa.Phi)
		if !isPhi {
			return fail(s.refPos, "the case index does not start from the constant 0")
		}
		var loop *ssau.Loop
		for _, l := range ssau.Loops(hphi.Parent()) {
			if l.Header == hphi.Block() {
				loop = l
			}
		}
		var initV, latchV ssa.Value
		for i, ed := range hphi.Edges {
			if loop.Blocks[hphi.Block().Preds[i]] {
				latchV = ed
			} else {
				initV = ed
			}
		}
		if initV == nil || latchV == nil {
			return fail(hphi.Pos(), "loop-carried case index without a single entry value")
		}
		body, back, msg, pos := s.chainSteps(latchV, hphi)
		if msg != "" {
			return fail(pos, msg)
		}
		if back != ssa.Value(hphi) || len(body) == 0 {
			return fail(hphi.Pos(), "the loop that builds the case index does not carry `index | bit` around")
		}
		// the loop counter: an integer phi of the same header with a known constant range
		var kv ssa.Value
		var lo, hi int64
		for _, in := range hphi.Block().Instrs {
			p, ok := in.(*ssa.Phi)
			if !ok || p == hphi || !isInt(p.Type()) {
				continue
			}
			if l, h, ok := s.m.indexRange(p); ok {
				kv, lo, hi = p, l, h
			}
		}
		if kv == nil {
			return fail(hphi.Pos(), "the counter of the loop that builds the case index has no recognisable constant range")
		}
		if hi-lo > 64 {
			return fail(hphi.Pos(), "the loop that builds the case index is too long")
		}
		for k := lo; k < hi; k++ {
			for _, b := range body {
				b.evl = ctx.withEnv(map[ssa.Value]int64{kv: k})
				steps = append(steps, b)
			}
		}
		cur = initV
	}
	if len(steps) != 8 {
		s.violate("TAB-5", "caseIndex", s.refPos, fmt.Sprintf("the case index is assembled from %d corner tests, a cube has 8 corners", len(steps)))
		return false
	}
	okAll := true
	seenCorner := map[int]bool{}
	polarity := map[bool]int{}
	ops := map[[3]bool]int{}
	usedBits := 0
	for _, st := range steps {
		se := st.ev(e)
		st.bit = se.aff(st.bitv)
		cmp, ce, neg, ok := s.boolSource(se, st.cond)
		if !ok {
			s.undecide("TAB-5", "caseIndex", st.pos, "the test guarding a case-index bit is not a comparison of a corner sample with the threshold")
			okAll = false
			continue
		}
		x, y, op := cmp.X, cmp.Y, cmp.Op
		k, isS := s.sampleCorner(ce, x)
		if !isS {
			if k2, isS2 := s.sampleCorner(ce, y); isS2 {
				k, isS = k2, true
				x, y = y, x
				op = flipCmp(op)
			}
		}
		if !isS {
			s.undecide("TAB-5", "caseIndex", st.pos, "neither side of the comparison guarding a case-index bit is a corner sample")
			okAll = false
			continue
		}
		sub := fmt.Sprintf("caseIndex:corner[%d]", k)
		if seenCorner[k] {
			s.violate("TAB-5", sub, st.pos, fmt.Sprintf("corner %d contributes two bits to the case index (another corner contributes none)", k))
			okAll = false
			continue
		}
		seenCorner[k] = true
		y, _ = ce.canon(y)
		if s.cutoff == nil {
			s.cutoff = y
		} else if s.cutoff != y {
			s.violate("TAB-5", sub, st.pos, "corners are compared against different threshold values")
			okAll = false
			continue
		}
		// the bit as a function of (sample < t, sample == t, sample > t)
		var tri [3]bool
		switch op {
		case token.LSS:
			tri = [3]bool{true, false, false}
		case token.LEQ:
			tri = [3]bool{true, true, false}
		case token.GTR:
			tri = [3]bool{false, false, true}
		case token.GEQ:
			tri = [3]bool{false, true, true}
		}
		if neg != !st.onTrue {
			tri = [3]bool{!tri[0], !tri[1], !tri[2]}
		}
		ops[tri]++
		polarity[tri[0]]++
		if !st.bit.isConst() {
			s.undecide("TAB-5", sub, st.pos, "the bit contributed by the corner is not a constant: "+st.bit.String())
			okAll = false
			continue
		}
		b := int(st.bit.Off)
		if b <= 0 || b > 128 || b&(b-1) != 0 {
			s.violate("TAB-5", sub, st.pos, fmt.Sprintf("corner %d contributes %d to the case index, not a single bit below 256", k, b))
			okAll = false
			continue
		}
		if usedBits&b != 0 {
			s.violate("TAB-5", sub, st.pos, fmt.Sprintf("bit %d of the case index is set by two corners: the 256 sign patterns do not map one-to-one onto the 256 rows", b))
			okAll = false
			continue
		}
		usedBits |= b
		s.bitVal[k] = b
	}
	if !okAll {
		return false
	}
	if polarity[true] > 0 && polarity[false] > 0 {
		s.violate("TAB-3", "caseIndex:polarity", s.refPos, fmt.Sprintf("%d corners set their bit when the sample is below the threshold and %d when it is not", polarity[true], polarity[false]))
		return false
	}
	s.inside = polarity[true] > 0
	if len(ops) > 1 {
		s.violate("POL-1", "caseIndex:boundary", s.refPos, "corners are classified with different comparisons (some strict, some not): a sample equal to the threshold is inside for one corner number and outside for another, so the two cells sharing that grid point disagree and their common face does not close")
		return false
	}
	for o := range ops {
		s.flaggedAtEq = o[1]
	}
	return true
}

func sameConst(a, b ssa.Value) bool {
	x, ok1 := constNum(a)
	y, ok2 := constNum(b)
	return ok1 && ok2 && x == y
}
