package c09

import (
	"fmt"
	"go/constant"
	"go/token"
	"go/types"
	"math/big"

	"golang.org/x/tools/go/ssa"

	"polycheck/ssau"
)

// ---------------------------------------------------------------------------
// constants

// constNum returns the value of an integer or integral float constant.
func constNum(v ssa.Value) (int64, bool) {
	c, ok := v.(*ssa.Const)
	if !ok || c.Value == nil {
		return 0, false
	}
	switch c.Value.Kind() {
	case constant.Int:
		n, exact := constant.Int64Val(c.Value)
		return n, exact
	case constant.Float:
		f := constant.ToInt(c.Value)
		if f.Kind() == constant.Int {
			n, exact := constant.Int64Val(f)
			return n, exact
		}
	}
	return 0, false
}

// constRat returns a numeric constant as a rational.
func constRat(v ssa.Value) (*big.Rat, bool) {
	c, ok := v.(*ssa.Const)
	if !ok || c.Value == nil {
		return nil, false
	}
	switch c.Value.Kind() {
	case constant.Int, constant.Float:
		r := new(big.Rat)
		if _, ok := r.SetString(c.Value.ExactString()); ok {
			return r, true
		}
	}
	return nil, false
}

// ---------------------------------------------------------------------------
// slot arrays: a local fixed-size array (composite literal, make with constant
// size, or `var a [N]T`) whose elements are written and read by index.

type slotStore struct {
	Idx   ssa.Value
	K     int // constant index, or -1
	Field int // -1: the whole element; otherwise the struct field written in place (&arr[k].f = v)
	Val   ssa.Value
	Store *ssa.Store
}

type slotArr struct {
	Base   *ssa.Alloc
	N      int
	Elem   types.Type
	Stores []*slotStore
	Opaque string // non-empty: some use could write the array in a way the model does not follow
	Name   string
}

type slotModel struct {
	arrs   map[*ssa.Alloc]*slotArr
	ranges map[ssa.Value][3]int64
}

func newSlotModel() *slotModel { return &slotModel{arrs: map[*ssa.Alloc]*slotArr{}} }

func arrayAlloc(v ssa.Value) *ssa.Alloc {
	switch x := v.(type) {
	case *ssa.Alloc:
		if p, ok := x.Type().Underlying().(*types.Pointer); ok {
			if _, ok := p.Elem().Underlying().(*types.Array); ok {
				return x
			}
		}
	case *ssa.Slice:
		if a := arrayAlloc(x.X); a != nil {
			// only whole-array slices keep the slot numbering
			if x.Low != nil {
				if n, ok := constNum(x.Low); !ok || n != 0 {
					return nil
				}
			}
			return a
		}
	}
	return nil
}

// arrOf resolves the aggregate operand of an IndexAddr to a slot array (nil if it is not one).
func (m *slotModel) arrOf(v ssa.Value) *slotArr {
	a := arrayAlloc(v)
	if a == nil {
		return nil
	}
	if sa, ok := m.arrs[a]; ok {
		return sa
	}
	at := a.Type().Underlying().(*types.Pointer).Elem().Underlying().(*types.Array)
	sa := &slotArr{Base: a, N: int(at.Len()), Elem: at.Elem(), Name: a.Comment}
	m.arrs[a] = sa
	var visitAgg func(agg ssa.Value)
	visitAgg = func(agg ssa.Value) {
		for _, r := range ssau.Refs(agg) {
			switch u := r.(type) {
			case *ssa.IndexAddr:
				if u.X != agg {
					continue
				}
				k := -1
				if n, ok := constNum(u.Index); ok {
					k = int(n)
				}
				for _, rr := range ssau.Refs(u) {
					switch w := rr.(type) {
					case *ssa.Store:
						if w.Addr == u {
							sa.Stores = append(sa.Stores, &slotStore{Idx: u.Index, K: k, Field: -1, Val: w.Val, Store: w})
						} else {
							sa.Opaque = "element address stored elsewhere"
						}
					case *ssa.UnOp:
						// load
					case *ssa.FieldAddr:
						for _, r3 := range ssau.Refs(w) {
							if st, ok := r3.(*ssa.Store); ok && st.Addr == w {
								sa.Stores = append(sa.Stores, &slotStore{Idx: u.Index, K: k, Field: w.Field, Val: st.Val, Store: st})
							} else if _, ok := r3.(*ssa.UnOp); !ok {
								if _, isDbg := r3.(*ssa.DebugRef); !isDbg {
									sa.Opaque = "field address of an element escapes"
								}
							}
						}
					case *ssa.DebugRef:
					default:
						sa.Opaque = fmt.Sprintf("element address used by %T", rr)
					}
				}
			case *ssa.Slice:
				if u.X == agg {
					if arrayAlloc(u) == a {
						visitAgg(u)
					} else {
						sa.Opaque = "re-sliced with an offset"
					}
				}
			case *ssa.Call:
				// len/cap/append(second operand)/copy(source) only read the array
				switch ssau.Builtin(u) {
				case "len", "cap":
				case "append":
					if len(u.Call.Args) > 0 && u.Call.Args[0] == agg {
						sa.Opaque = "appended to"
					}
				case "copy":
					if len(u.Call.Args) > 0 && u.Call.Args[0] == agg {
						sa.Opaque = "copy destination"
					}
				default:
					sa.Opaque = "passed to a call"
				}
			case *ssa.Store:
				if u.Val == agg {
					sa.Opaque = "slice stored elsewhere"
				} else if u.Addr == agg {
					sa.Opaque = "whole array overwritten"
				}
			case *ssa.UnOp, *ssa.DebugRef, *ssa.Range:
			case *ssa.Phi:
				sa.Opaque = "flows through a phi"
			default:
				sa.Opaque = fmt.Sprintf("used by %T", r)
			}
		}
	}
	visitAgg(a)
	return sa
}

// slotLoad recognises `*(&arr[idx])`.
func (m *slotModel) slotLoad(v ssa.Value) (*slotArr, ssa.Value, bool) {
	u, ok := v.(*ssa.UnOp)
	if !ok || u.Op != token.MUL {
		return nil, nil, false
	}
	ia, ok := u.X.(*ssa.IndexAddr)
	if !ok {
		return nil, nil, false
	}
	sa := m.arrOf(ia.X)
	if sa == nil {
		return nil, nil, false
	}
	return sa, ia.Index, true
}

// ---------------------------------------------------------------------------
// affine integer expressions  coef*base + off

// baseKey names a scalar "root": an SSA value, or field F of a struct-valued SSA value/parameter.
type baseKey struct {
	V ssa.Value
	F int // -1: the value itself
}

func (b baseKey) String() string {
	if b.V == nil {
		return "<const>"
	}
	n := b.V.Name()
	if p, ok := b.V.(*ssa.Parameter); ok {
		n = p.Name()
	}
	if ph, ok := b.V.(*ssa.Phi); ok && ph.Comment != "" {
		n = ph.Comment
	}
	if b.F >= 0 {
		if st, ok := derefStructType(b.V.Type()); ok && b.F < st.NumFields() {
			return n + "." + st.Field(b.F).Name()
		}
		return fmt.Sprintf("%s.#%d", n, b.F)
	}
	return n
}

func derefStructType(t types.Type) (*types.Struct, bool) {
	if p, ok := t.Underlying().(*types.Pointer); ok {
		t = p.Elem()
	}
	st, ok := t.Underlying().(*types.Struct)
	return st, ok
}

type affine struct {
	Base baseKey // V == nil: pure constant
	Coef int64
	Off  int64
}

func (a affine) isConst() bool { return a.Base.V == nil }
func (a affine) String() string {
	if a.isConst() {
		return fmt.Sprint(a.Off)
	}
	s := a.Base.String()
	if a.Coef != 1 {
		s = fmt.Sprintf("%d*%s", a.Coef, s)
	}
	if a.Off != 0 {
		s += fmt.Sprintf("%+d", a.Off)
	}
	return s
}

// evaluator resolves scalar values through slot arrays, struct literals and
// conversions, under a binding of loop indices to constants.
type evaluator struct {
	m   *slotModel
	env map[ssa.Value]int64
	// depth guard
	depth int
}

func (m *slotModel) eval(env map[ssa.Value]int64) *evaluator {
	return &evaluator{m: m, env: env}
}

func opaque(v ssa.Value) affine { return affine{Base: baseKey{v, -1}, Coef: 1} }

// aff evaluates v to coef*base+off; unknown shapes become an opaque base (the value itself).
func (e *evaluator) aff(v ssa.Value) affine {
	e.depth++
	defer func() { e.depth-- }()
	if e.depth > 40 {
		return opaque(v)
	}
	if k, ok := e.env[v]; ok {
		return affine{Off: k}
	}
	if n, ok := constNum(v); ok {
		return affine{Off: n}
	}
	switch x := v.(type) {
	case *ssa.Convert:
		if isNumeric(x.Type()) && isNumeric(x.X.Type()) {
			return e.aff(x.X)
		}
	case *ssa.ChangeType:
		return e.aff(x.X)
	case *ssa.BinOp:
		a, b := e.aff(x.X), e.aff(x.Y)
		switch x.Op {
		case token.ADD:
			if a.isConst() {
				b.Off += a.Off
				return b
			}
			if b.isConst() {
				a.Off += b.Off
				return a
			}
			if a.Base == b.Base {
				a.Coef += b.Coef
				a.Off += b.Off
				return a
			}
		case token.SUB:
			if b.isConst() {
				a.Off -= b.Off
				return a
			}
			if a.Base == b.Base && !a.isConst() {
				a.Coef -= b.Coef
				a.Off -= b.Off
				if a.Coef == 0 {
					return affine{Off: a.Off}
				}
				return a
			}
		case token.MUL:
			if a.isConst() {
				a, b = b, a
			}
			if b.isConst() {
				a.Coef *= b.Off
				a.Off *= b.Off
				if a.isConst() {
					a.Coef = 0
				}
				return a
			}
		case token.SHL:
			if a.isConst() && b.isConst() && b.Off >= 0 && b.Off < 62 {
				return affine{Off: a.Off << uint(b.Off)}
			}
		case token.OR:
			if a.isConst() && b.isConst() {
				return affine{Off: a.Off | b.Off}
			}
		}
	case *ssa.UnOp:
		if x.Op == token.MUL {
			if r, ok := e.load(x); ok {
				return r
			}
		}
		if x.Op == token.SUB {
			a := e.aff(x.X)
			a.Coef, a.Off = -a.Coef, -a.Off
			return a
		}
	case *ssa.Field:
		if r, ok := e.structField(x.X, x.Field, x); ok {
			return r
		}
	}
	return opaque(v)
}

func isNumeric(t types.Type) bool {
	b, ok := t.Underlying().(*types.Basic)
	return ok && b.Info()&(types.IsInteger|types.IsFloat) != 0
}

// load evaluates a scalar load.
func (e *evaluator) load(u *ssa.UnOp) (affine, bool) {
	switch addr := u.X.(type) {
	case *ssa.FieldAddr:
		return e.fieldAt(addr.X, addr.Field, u)
	case *ssa.IndexAddr:
		sa := e.m.arrOf(addr.X)
		if sa == nil || sa.Opaque != "" {
			return affine{}, false
		}
		idx := e.aff(addr.Index)
		if !idx.isConst() {
			return affine{}, false
		}
		vals := e.slotVals(sa, int(idx.Off))
		if len(vals) != 1 {
			return affine{}, false
		}
		return e.withEnv(vals[0].env).aff(vals[0].val), true
	}
	return affine{}, false
}

func (e *evaluator) withEnv(env map[ssa.Value]int64) *evaluator {
	if env == nil {
		return e
	}
	return &evaluator{m: e.m, env: env, depth: e.depth}
}

type slotVal struct {
	val          ssa.Value
	env          map[ssa.Value]int64 // binding under which val is to be read (nil: current)
	store        *slotStore
	unknownRange bool // written under a subscript whose range the model could not bound
}

// slotVals: the values slot k may hold — constant-index stores to k, and
// variable-index stores read with their index bound to k.
func (e *evaluator) slotVals(sa *slotArr, k int) []slotVal {
	return e.slotFieldVals(sa, k, -1)
}

// slotFieldVals: like slotVals for the stores that write field f of the element in place (f = -1: whole element).
func (e *evaluator) slotFieldVals(sa *slotArr, k, f int) []slotVal {
	var out []slotVal
	for _, s := range sa.Stores {
		if s.Field != f {
			continue
		}
		if s.K == k {
			out = append(out, slotVal{val: s.Val, store: s})
		} else if s.K < 0 {
			if cur, bound := e.env[s.Idx]; bound {
				if int(cur) == k {
					out = append(out, slotVal{val: s.Val, store: s})
				}
				continue
			}
			lo, hi, known := e.m.indexRange(s.Idx)
			if known && (int64(k) < lo || int64(k) >= hi) {
				continue // the loop never writes this slot
			}
			env := map[ssa.Value]int64{}
			for kk, vv := range e.env {
				env[kk] = vv
			}
			bindIndex(env, s.Idx, int64(k))
			out = append(out, slotVal{val: s.Val, env: env, store: s, unknownRange: !known})
		}
	}
	return out
}

// bindIndex binds a loop index value to k. The range-loop index of go/ssa is
// `t = phi+1`; both the sum and a plain phi are accepted as index values.
func bindIndex(env map[ssa.Value]int64, idx ssa.Value, k int64) {
	env[idx] = k
}

// fieldAt evaluates field f of the struct stored at address base, as seen by the load `at`.
func (e *evaluator) fieldAt(base ssa.Value, f int, at ssa.Instruction) (affine, bool) {
	switch b := base.(type) {
	case *ssa.Alloc:
		defs := fieldDefs(b, f, at)
		if len(defs) == 1 {
			d := defs[0]
			if d.whole {
				return e.structField(d.val, f, at)
			}
			return e.aff(d.val), true
		}
		return affine{}, false
	case *ssa.IndexAddr:
		sa := e.m.arrOf(b.X)
		if sa == nil || sa.Opaque != "" {
			return affine{}, false
		}
		idx := e.aff(b.Index)
		if !idx.isConst() {
			return affine{}, false
		}
		vals := e.slotVals(sa, int(idx.Off))
		fvals := e.slotFieldVals(sa, int(idx.Off), f)
		if len(vals) == 0 && len(fvals) == 1 {
			return e.withEnv(fvals[0].env).aff(fvals[0].val), true
		}
		if len(vals) != 1 || len(fvals) != 0 {
			return affine{}, false
		}
		return e.withEnv(vals[0].env).structField(vals[0].val, f, at)
	case *ssa.Parameter:
		return affine{Base: baseKey{b, f}, Coef: 1}, true
	}
	return affine{}, false
}

// structField evaluates field f of a struct-typed value.
func (e *evaluator) structField(sv ssa.Value, f int, at ssa.Instruction) (affine, bool) {
	switch x := sv.(type) {
	case *ssa.UnOp:
		if x.Op != token.MUL {
			break
		}
		if r, ok := e.fieldAt(x.X, f, x); ok {
			return r, true
		}
		if al, ok := x.X.(*ssa.Alloc); ok {
			// several definitions of a local struct: not a single value
			if len(fieldDefs(al, f, x)) != 1 {
				return affine{}, false
			}
		}
	case *ssa.Parameter:
		return affine{Base: baseKey{x, f}, Coef: 1}, true
	}
	return affine{Base: baseKey{structSource(sv), f}, Coef: 1}, true
}

// structSource follows whole-value copies through locals: `*a = v; w = *a` makes w's source v.
func structSource(v ssa.Value) ssa.Value {
	for depth := 0; depth < 8; depth++ {
		u, ok := v.(*ssa.UnOp)
		if !ok || u.Op != token.MUL {
			return v
		}
		al, ok := u.X.(*ssa.Alloc)
		if !ok {
			return v
		}
		var whole []ssa.Value
		fieldWrites := false
		for _, r := range ssau.Refs(al) {
			switch w := r.(type) {
			case *ssa.Store:
				if w.Addr == al {
					whole = append(whole, w.Val)
				}
			case *ssa.FieldAddr:
				for _, rr := range ssau.Refs(w) {
					if st, ok := rr.(*ssa.Store); ok && st.Addr == w {
						fieldWrites = true
					}
				}
			}
		}
		if len(whole) != 1 || fieldWrites {
			return v
		}
		v = whole[0]
	}
	return v
}

type fieldDef struct {
	val   ssa.Value
	whole bool
	store *ssa.Store
}

// fieldDefs returns the stores into field f of the local struct `a` (or whole-struct
// stores) that may be the value read at `at`: stores that can precede `at`, minus
// those certainly overwritten by a later store that dominates `at`.
func fieldDefs(a *ssa.Alloc, f int, at ssa.Instruction) []fieldDef {
	var all []fieldDef
	for _, r := range ssau.Refs(a) {
		switch u := r.(type) {
		case *ssa.Store:
			if u.Addr == a {
				all = append(all, fieldDef{val: u.Val, whole: true, store: u})
			}
		case *ssa.FieldAddr:
			if u.X == a && u.Field == f {
				for _, rr := range ssau.Refs(u) {
					if st, ok := rr.(*ssa.Store); ok && st.Addr == u {
						all = append(all, fieldDef{val: st.Val, store: st})
					}
				}
			}
		}
	}
	var reach []fieldDef
	for _, d := range all {
		if !(ssau.Before(d.store, at) || ssau.CanFollow(d.store, at)) {
			continue
		}
		reach = append(reach, d)
	}
	var out []fieldDef
	for _, d := range reach {
		killed := false
		for _, o := range reach {
			if o.store != d.store && ssau.Before(d.store, o.store) && ssau.Before(o.store, at) {
				killed = true
			}
		}
		if !killed {
			out = append(out, d)
		}
	}
	return out
}

// paramOfSpill: `t0 = local T (p); *t0 = p` at function entry — returns p when `a` is such a spill
// and is never stored to again.
func paramOfSpill(a *ssa.Alloc) *ssa.Parameter {
	var p *ssa.Parameter
	n := 0
	for _, r := range ssau.Refs(a) {
		if st, ok := r.(*ssa.Store); ok && st.Addr == a {
			n++
			p, _ = st.Val.(*ssa.Parameter)
		}
		if fa, ok := r.(*ssa.FieldAddr); ok {
			for _, rr := range ssau.Refs(fa) {
				if st, ok := rr.(*ssa.Store); ok && st.Addr == fa {
					return nil
				}
			}
		}
	}
	if n == 1 {
		return p
	}
	return nil
}

// guardOf returns the If that decides whether block b runs, and on which branch
// (true: b is the then-successor), when b has that single predecessor.
func guardOf(b *ssa.BasicBlock) (*ssa.If, bool, bool) {
	if len(b.Preds) != 1 {
		return nil, false, false
	}
	p := b.Preds[0]
	if len(p.Instrs) == 0 {
		return nil, false, false
	}
	iff, ok := p.Instrs[len(p.Instrs)-1].(*ssa.If)
	if !ok {
		return nil, false, false
	}
	if p.Succs[0] == b && p.Succs[1] != b {
		return iff, true, true
	}
	if p.Succs[1] == b && p.Succs[0] != b {
		return iff, false, true
	}
	return nil, false, false
}

// elemField evaluates field f of element k of a per-corner struct array, whether the element
// was stored as a whole value or built in place field by field.
func (e *evaluator) elemField(sa *slotArr, k, f int) (affine, token.Pos, bool) {
	vals := e.slotVals(sa, k)
	fvals := e.slotFieldVals(sa, k, f)
	if len(vals) == 0 && len(fvals) == 1 {
		return e.withEnv(fvals[0].env).aff(fvals[0].val), fvals[0].store.Store.Pos(), true
	}
	if len(vals) == 1 && len(fvals) == 0 {
		r, ok := e.withEnv(vals[0].env).structField(vals[0].val, f, vals[0].store.Store)
		return r, vals[0].store.Store.Pos(), ok
	}
	return affine{}, sa.Base.Pos(), false
}

// ---------------------------------------------------------------------------
// linear combinations  Σ coef·base + off  (several bases)

type lin struct {
	T   map[baseKey]int64
	Off int64
}

func (l lin) String() string {
	var ks []baseKey
	for k := range l.T {
		ks = append(ks, k)
	}
	sortBaseKeys(ks)
	s := ""
	for _, k := range ks {
		c := l.T[k]
		switch {
		case c == 1:
			s += "+" + k.String()
		case c == -1:
			s += "-" + k.String()
		default:
			s += fmt.Sprintf("%+d*%s", c, k.String())
		}
	}
	if l.Off != 0 || s == "" {
		s += fmt.Sprintf("%+d", l.Off)
	}
	return s
}

func sortBaseKeys(ks []baseKey) {
	for i := 1; i < len(ks); i++ {
		for j := i; j > 0 && ks[j].String() < ks[j-1].String(); j-- {
			ks[j], ks[j-1] = ks[j-1], ks[j]
		}
	}
}

func linOf(a affine) lin {
	l := lin{T: map[baseKey]int64{}, Off: a.Off}
	if !a.isConst() && a.Coef != 0 {
		l.T[a.Base] = a.Coef
	}
	return l
}

func (l lin) addScaled(o lin, k int64) lin {
	out := lin{T: map[baseKey]int64{}, Off: l.Off + k*o.Off}
	for b, c := range l.T {
		out.T[b] = c
	}
	for b, c := range o.T {
		out.T[b] += k * c
		if out.T[b] == 0 {
			delete(out.T, b)
		}
	}
	return out
}

func (l lin) isConst() bool { return len(l.T) == 0 }

// lin evaluates v to a linear combination of roots; non-linear parts become opaque roots.
func (e *evaluator) lin(v ssa.Value) lin {
	e.depth++
	defer func() { e.depth-- }()
	if e.depth > 40 {
		return linOf(opaque(v))
	}
	switch x := v.(type) {
	case *ssa.Convert:
		if isNumeric(x.Type()) && isNumeric(x.X.Type()) {
			return e.lin(x.X)
		}
	case *ssa.BinOp:
		switch x.Op {
		case token.ADD:
			return e.lin(x.X).addScaled(e.lin(x.Y), 1)
		case token.SUB:
			return e.lin(x.X).addScaled(e.lin(x.Y), -1)
		case token.MUL:
			a, b := e.lin(x.X), e.lin(x.Y)
			if a.isConst() {
				return lin{T: map[baseKey]int64{}}.addScaled(b, a.Off)
			}
			if b.isConst() {
				return lin{T: map[baseKey]int64{}}.addScaled(a, b.Off)
			}
		}
	case *ssa.UnOp:
		if x.Op == token.SUB {
			return lin{T: map[baseKey]int64{}}.addScaled(e.lin(x.X), -1)
		}
	}
	a := e.aff(v)
	if !a.isConst() && a.Base.V == v && a.Base.F < 0 {
		// aff could not look inside: try to look through a load of a local field whose single definition is linear
		if u, ok := v.(*ssa.UnOp); ok && u.Op == token.MUL {
			if fa, ok := u.X.(*ssa.FieldAddr); ok {
				if al, ok := fa.X.(*ssa.Alloc); ok {
					defs := fieldDefs(al, fa.Field, u)
					if len(defs) == 1 && !defs[0].whole {
						return e.lin(defs[0].val)
					}
				}
			}
		}
	}
	if a.isConst() {
		return linOf(a)
	}
	if a.Base.F >= 0 {
		// field of the result of modeling.VectorInt.Sub: component-wise difference
		if call, ok := a.Base.V.(*ssa.Call); ok && ssau.IsMethod(ssau.CalleeObj(call), modelingPath, "VectorInt", "Sub") && len(call.Call.Args) == 2 {
			x, ok1 := e.structField(call.Call.Args[0], a.Base.F, call)
			y, ok2 := e.structField(call.Call.Args[1], a.Base.F, call)
			if ok1 && ok2 {
				d := linOf(x).addScaled(linOf(y), -1)
				return lin{T: map[baseKey]int64{}, Off: a.Off}.addScaled(d, a.Coef)
			}
		}
	}
	if a.Base.F < 0 && a.Base.V != v {
		switch a.Base.V.(type) {
		case *ssa.BinOp, *ssa.Convert, *ssa.UnOp:
			inner := e.lin(a.Base.V)
			return lin{T: map[baseKey]int64{}, Off: a.Off}.addScaled(inner, a.Coef)
		}
	}
	return linOf(a)
}

// indexRange: idx is a counted loop index with constant bounds (range-over-slice form `phi+1` included).
func (m *slotModel) indexRange(idx ssa.Value) (int64, int64, bool) {
	if r, ok := m.ranges[idx]; ok {
		return r[0], r[1], r[2] == 1
	}
	lo, hi, ok := m.indexRange0(idx)
	if m.ranges == nil {
		m.ranges = map[ssa.Value][3]int64{}
	}
	okn := int64(0)
	if ok {
		okn = 1
	}
	m.ranges[idx] = [3]int64{lo, hi, okn}
	return lo, hi, ok
}

func (m *slotModel) indexRange0(idx ssa.Value) (int64, int64, bool) {
	e := m.eval(nil)
	var phi *ssa.Phi
	shift := int64(0)
	switch v := idx.(type) {
	case *ssa.Phi:
		phi = v
	case *ssa.BinOp:
		a := e.aff(v)
		if p, ok := a.Base.V.(*ssa.Phi); ok && a.Coef == 1 && a.Base.F < 0 {
			phi, shift = p, a.Off
		}
	}
	if phi == nil || len(phi.Edges) != 2 {
		return 0, 0, false
	}
	var init int64
	initOK, stepOK := false, false
	for _, ed := range phi.Edges {
		a := e.aff(ed)
		if a.isConst() {
			init, initOK = a.Off, true
		} else if a.Base == (baseKey{phi, -1}) && a.Coef == 1 && a.Off == 1 {
			stepOK = true
		}
	}
	if !initOK || !stepOK {
		return 0, 0, false
	}
	// find the staying test  v < bound  in the loop header
	b := phi.Block()
	iff, ok := b.Instrs[len(b.Instrs)-1].(*ssa.If)
	if !ok {
		return 0, 0, false
	}
	cmp, ok := iff.Cond.(*ssa.BinOp)
	if !ok || (cmp.Op != token.LSS && cmp.Op != token.LEQ) {
		return 0, 0, false
	}
	// the true branch must stay in the loop
	stays := false
	for _, l := range ssau.Loops(phi.Parent()) {
		if l.Header == b && l.Blocks[b.Succs[0]] && !l.Blocks[b.Succs[1]] {
			stays = true
		}
	}
	if !stays {
		return 0, 0, false
	}
	tested := e.aff(cmp.X)
	if tested.Base != (baseKey{phi, -1}) || tested.Coef != 1 {
		return 0, 0, false
	}
	var bound int64
	if n, ok := constNum(cmp.Y); ok {
		bound = n
	} else if call, ok := cmp.Y.(*ssa.Call); ok && ssau.Builtin(call) == "len" {
		sa := m.arrOf(call.Call.Args[0])
		if sa == nil {
			return 0, 0, false
		}
		bound = int64(sa.N)
	} else {
		return 0, 0, false
	}
	// values taken by idx inside the body: the tested value t = phi+tested.Off satisfies t < bound; idx = phi+shift
	// first phi = init, so idx ranges from init+shift while (phi+tested.Off) < bound
	if cmp.Op == token.LEQ {
		bound++
	}
	lo := init + shift
	hi := bound - tested.Off + shift
	return lo, hi, true
}

