package c09

import (
	"fmt"
	"go/constant"
	"go/token"
	"go/types"
	"math/big"

	"golang.org/x/tools/go/ssa"

	"polycheck/ssau"
)

// ---------------------------------------------------------------------------
// constants

// constNum returns the value of an integer or integral float constant.
func constNum(v ssa.Value) (int64, bool) {
	c, ok := v.(*ssa.Const)
	if !ok || c.Value == nil {
		return 0, false
	}
	switch c.Value.Kind() {
	case constant.Int:
		n, exact := constant.Int64Val(c.Value)
		return n, exact
	case constant.Float:
		f := constant.ToInt(c.Value)
		if f.Kind() == constant.Int {
			n, exact := constant.Int64Val(f)
			return n, exact
		}
	}
	return 0, false
}

// constRat returns a numeric constant as a rational.
func constRat(v ssa.Value) (*big.Rat, bool) {
	c, ok := v.(*ssa.Const)
	if !ok || c.Value == nil {
		return nil, false
	}
	switch c.Value.Kind() {
	case constant.Int, constant.Float:
		r := new(big.Rat)
		if _, ok := r.SetString(c.Value.ExactString()); ok {
			return r, true
		}
	}
	return nil, false
}

// ---------------------------------------------------------------------------
// slot arrays: a local fixed-size array (composite literal, make with constant
// size, or `var a [N]T`) whose elements are written and read by index.

type slotStore struct {
	Idx   ssa.Value
	K     int // constant index, or -1
	Field int // -1: the whole element; otherwise the struct field written in place (&arr[k].f = v)
	Val   ssa.Value
	Store *ssa.Store
	// In: the store is made by an in-package helper through the parameter the array is passed for, at this call
	// (one level; the helper has this single call site). Its value and index are read with the helper's
	// parameters bound to the call's arguments; its place in the caller's control flow is the call.
	In *ssa.Call
}

type slotArr struct {
	Base   *ssa.Alloc
	N      int
	Elem   types.Type
	Stores []*slotStore
	Opaque string // non-empty: some use could write the array in a way the model does not follow
	Name   string
}

type slotModel struct {
	arrs   map[*ssa.Alloc]*slotArr
	ranges map[ssa.Value][3]int64
	home   map[*slotArr]*evaluator // context in which an array's stores are evaluated
	// skipLanding: per loop header, the blocks control continues at when an iteration was given up (the branch a
	// cleared flag takes after the loop) — recorded by loopCompletesBefore for the "one cell only" check
	skipLanding map[*ssa.BasicBlock][]*ssa.BasicBlock
	// helpers: functions whose stores were absorbed into a caller's array (they belong to the caller's site)
	helpers map[*ssa.Function]bool
}

func newSlotModel() *slotModel { return &slotModel{arrs: map[*ssa.Alloc]*slotArr{}} }

func arrayAlloc(v ssa.Value) *ssa.Alloc {
	switch x := v.(type) {
	case *ssa.Alloc:
		if p, ok := x.Type().Underlying().(*types.Pointer); ok {
			if _, ok := p.Elem().Underlying().(*types.Array); ok {
				return x
			}
		}
	case *ssa.Slice:
		if a := arrayAlloc(x.X); a != nil {
			// only whole-array slices keep the slot numbering and the length
			if x.Low != nil {
				if n, ok := constNum(x.Low); !ok || n != 0 {
					return nil
				}
			}
			if x.High != nil {
				n, ok := constNum(x.High)
				if !ok || n != a.Type().Underlying().(*types.Pointer).Elem().Underlying().(*types.Array).Len() {
					return nil
				}
			}
			return a
		}
	}
	return nil
}

// arrOf resolves the aggregate operand of an IndexAddr to a slot array (nil if it is not one).
func (m *slotModel) arrOf(v ssa.Value) *slotArr {
	a := arrayAlloc(v)
	if a == nil {
		return nil
	}
	if sa, ok := m.arrs[a]; ok {
		return sa
	}
	at := a.Type().Underlying().(*types.Pointer).Elem().Underlying().(*types.Array)
	sa := &slotArr{Base: a, N: int(at.Len()), Elem: at.Elem(), Name: a.Comment}
	m.arrs[a] = sa
	var visitAgg func(agg ssa.Value)
	visitAgg = func(agg ssa.Value) {
		for _, r := range ssau.Refs(agg) {
			switch u := r.(type) {
			case *ssa.IndexAddr:
				if u.X != agg {
					continue
				}
				k := -1
				if n, ok := constNum(u.Index); ok {
					k = int(n)
				}
				for _, rr := range ssau.Refs(u) {
					switch w := rr.(type) {
					case *ssa.Store:
						if w.Addr == u {
							sa.Stores = append(sa.Stores, &slotStore{Idx: u.Index, K: k, Field: -1, Val: w.Val, Store: w})
						} else {
							sa.Opaque = "element address stored elsewhere"
						}
					case *ssa.UnOp:
						// load
					case *ssa.FieldAddr:
						for _, r3 := range ssau.Refs(w) {
							if st, ok := r3.(*ssa.Store); ok && st.Addr == w {
								sa.Stores = append(sa.Stores, &slotStore{Idx: u.Index, K: k, Field: w.Field, Val: st.Val, Store: st})
							} else if _, ok := r3.(*ssa.UnOp); !ok {
								if _, isDbg := r3.(*ssa.DebugRef); !isDbg {
									sa.Opaque = "field address of an element escapes"
								}
							}
						}
					case *ssa.DebugRef:
					default:
						sa.Opaque = fmt.Sprintf("element address used by %T", rr)
					}
				}
			case *ssa.Slice:
				if u.X == agg {
					if arrayAlloc(u) == a {
						visitAgg(u)
					} else {
						sa.Opaque = "re-sliced with an offset"
					}
				}
			case *ssa.Call:
				// len/cap/append(second operand)/copy(source) only read the array
				switch ssau.Builtin(u) {
				case "len", "cap":
				case "append":
					if len(u.Call.Args) > 0 && u.Call.Args[0] == agg {
						sa.Opaque = "appended to"
					}
				case "copy":
					if len(u.Call.Args) > 0 && u.Call.Args[0] == agg {
						sa.Opaque = "copy destination"
					}
				default:
					ro := false
					if callee := u.Call.StaticCallee(); callee != nil && callee.Pkg != nil && callee.Pkg == a.Parent().Pkg {
						ro = true
						for i, arg := range u.Call.Args {
							if arg == agg && (i >= len(callee.Params) || !readOnlyUses(callee.Params[i], 0)) {
								ro = false
								if i < len(callee.Params) && m.absorbHelperStores(sa, u, callee.Params[i]) {
									ro = true
								}
							}
						}
					}
					if !ro {
						sa.Opaque = "passed to a call that may write it"
					}
				}
			case *ssa.Store:
				if u.Val == agg {
					sa.Opaque = "slice stored elsewhere"
				} else if u.Addr == agg {
					sa.Opaque = "whole array overwritten"
				}
			case *ssa.UnOp, *ssa.DebugRef, *ssa.Range:
			case *ssa.MakeInterface:
				if !onlyLogged(u) {
					sa.Opaque = "converted to an interface"
				}
			case *ssa.Return:
				// handed to the caller: e.arr only accepts the call result when the caller reads it without writing
			case *ssa.Phi:
				sa.Opaque = "flows through a phi"
			default:
				sa.Opaque = fmt.Sprintf("used by %T", r)
			}
		}
	}
	visitAgg(a)
	return sa
}

// ---------------------------------------------------------------------------
// affine integer expressions  coef*base + off

// baseKey names a scalar "root": an SSA value, or field F of a struct-valued SSA value/parameter.
type baseKey struct {
	V ssa.Value
	F int // -1: the value itself
}

func (b baseKey) String() string {
	if b.V == nil {
		return "<const>"
	}
	n := b.V.Name()
	if p, ok := b.V.(*ssa.Parameter); ok {
		n = p.Name()
	}
	if ph, ok := b.V.(*ssa.Phi); ok && ph.Comment != "" {
		n = ph.Comment
	}
	if b.F >= 0 {
		if st, ok := derefStructType(b.V.Type()); ok && b.F < st.NumFields() {
			return n + "." + st.Field(b.F).Name()
		}
		return fmt.Sprintf("%s.#%d", n, b.F)
	}
	return n
}

func derefStructType(t types.Type) (*types.Struct, bool) {
	if p, ok := t.Underlying().(*types.Pointer); ok {
		t = p.Elem()
	}
	st, ok := t.Underlying().(*types.Struct)
	return st, ok
}

type affine struct {
	Base baseKey // V == nil: pure constant
	Coef int64
	Off  int64
}

func (a affine) isConst() bool { return a.Base.V == nil }
func (a affine) String() string {
	if a.isConst() {
		return fmt.Sprint(a.Off)
	}
	s := a.Base.String()
	if a.Coef != 1 {
		s = fmt.Sprintf("%d*%s", a.Coef, s)
	}
	if a.Off != 0 {
		s += fmt.Sprintf("%+d", a.Off)
	}
	return s
}

// evaluator resolves scalar values through slot arrays, struct literals and
// conversions, under a binding of loop indices to constants.
type evaluator struct {
	m   *slotModel
	env map[ssa.Value]int64
	// sub: parameters of an in-package helper the evaluation has *entered* from a caller (the helper's body is
	// read as if inlined): parameter -> (actual argument, evaluator of the caller)
	sub map[*ssa.Parameter]boundVal
	// up: parameters of the function under analysis when it has exactly one in-package call site: consulted only
	// where a parameter must be an array, the case index or a block offset (never for plain scalars or structs)
	up map[*ssa.Parameter]boundVal
	// depth guard
	depth int
}

type boundVal struct {
	v  ssa.Value
	ev *evaluator
}

func (m *slotModel) eval(env map[ssa.Value]int64) *evaluator {
	return &evaluator{m: m, env: env}
}

// enter returns the evaluator for the body of the static in-package callee of call.
func (e *evaluator) enter(call *ssa.Call) *evaluator {
	callee := call.Call.StaticCallee()
	if callee == nil {
		return nil
	}
	sub := map[*ssa.Parameter]boundVal{}
	args := call.Call.Args
	for i, p := range callee.Params {
		if i < len(args) {
			sub[p] = boundVal{args[i], e}
		}
	}
	return &evaluator{m: e.m, sub: sub, depth: e.depth}
}

// canon follows parameter bindings (entered helpers, and the single call site of the analysed function) to the
// value a parameter stands for.
func (e *evaluator) canon(v ssa.Value) (ssa.Value, *evaluator) {
	cur := e
	for depth := 0; depth < 8; depth++ {
		p, ok := v.(*ssa.Parameter)
		if !ok {
			return v, cur
		}
		if b, ok := cur.sub[p]; ok {
			v, cur = b.v, b.ev
			continue
		}
		if b, ok := cur.up[p]; ok {
			v, cur = b.v, b.ev
			continue
		}
		return v, cur
	}
	return v, cur
}

// inlinable: an in-package helper with exactly one return statement.
func singleReturn(fn *ssa.Function) *ssa.Return {
	if fn == nil || fn.Blocks == nil {
		return nil
	}
	var ret *ssa.Return
	for _, b := range fn.Blocks {
		for _, in := range b.Instrs {
			if r, ok := in.(*ssa.Return); ok {
				if ret != nil {
					return nil
				}
				ret = r
			}
		}
	}
	return ret
}

// arr resolves an aggregate operand to a slot array and the evaluator in whose context its stores are read:
// a local array, a parameter bound to one, or the slice an in-package helper returns.
func (e *evaluator) arr(v ssa.Value) (*slotArr, *evaluator) {
	v, ev := e.canon(v)
	if sa := e.m.arrOf(v); sa != nil {
		if h, ok := e.m.home[sa]; ok {
			return sa, h
		}
		if e.m.home == nil {
			e.m.home = map[*slotArr]*evaluator{}
		}
		// the array's stores are read in the context that owns it, without loop-index bindings of the reader
		h := &evaluator{m: ev.m, sub: ev.sub, up: ev.up}
		e.m.home[sa] = h
		return sa, h
	}
	if call, ok := v.(*ssa.Call); ok && e.depth < 6 {
		callee := call.Call.StaticCallee()
		if callee != nil && callee.Pkg != nil && call.Parent() != nil && callee.Pkg == call.Parent().Pkg {
			if ret := singleReturn(callee); ret != nil && len(ret.Results) == 1 && readOnlyUses(call, 0) {
				in := ev.enter(call)
				in.depth = e.depth + 1
				return in.arr(ret.Results[0])
			}
		}
	}
	return nil, nil
}

// slotLoad recognises `*(&arr[idx])`; idx is to be evaluated by e, the stored values by the returned evaluator.
func (e *evaluator) slotLoad(v ssa.Value) (*slotArr, ssa.Value, bool) {
	u, ok := v.(*ssa.UnOp)
	if !ok || u.Op != token.MUL {
		return nil, nil, false
	}
	ia, ok := u.X.(*ssa.IndexAddr)
	if !ok {
		return nil, nil, false
	}
	sa, _ := e.arr(ia.X)
	if sa == nil {
		return nil, nil, false
	}
	return sa, ia.Index, true
}

func opaque(v ssa.Value) affine { return affine{Base: baseKey{v, -1}, Coef: 1} }

// aff evaluates v to coef*base+off; unknown shapes become an opaque base (the value itself).
func (e *evaluator) aff(v ssa.Value) affine {
	e.depth++
	defer func() { e.depth-- }()
	if e.depth > 40 {
		return opaque(v)
	}
	if k, ok := e.env[v]; ok {
		return affine{Off: k}
	}
	if n, ok := constNum(v); ok {
		return affine{Off: n}
	}
	if p, ok := v.(*ssa.Parameter); ok {
		if b, ok := e.sub[p]; ok {
			return b.ev.aff(b.v)
		}
	}
	switch x := v.(type) {
	case *ssa.Convert:
		if isNumeric(x.Type()) && isNumeric(x.X.Type()) {
			return e.aff(x.X)
		}
	case *ssa.ChangeType:
		return e.aff(x.X)
	case *ssa.BinOp:
		a, b := e.aff(x.X), e.aff(x.Y)
		switch x.Op {
		case token.ADD:
			if a.isConst() {
				b.Off += a.Off
				return b
			}
			if b.isConst() {
				a.Off += b.Off
				return a
			}
			if a.Base == b.Base {
				a.Coef += b.Coef
				a.Off += b.Off
				return a
			}
		case token.SUB:
			if b.isConst() {
				a.Off -= b.Off
				return a
			}
			if a.Base == b.Base && !a.isConst() {
				a.Coef -= b.Coef
				a.Off -= b.Off
				if a.Coef == 0 {
					return affine{Off: a.Off}
				}
				return a
			}
		case token.MUL:
			if a.isConst() {
				a, b = b, a
			}
			if b.isConst() {
				a.Coef *= b.Off
				a.Off *= b.Off
				if a.isConst() {
					a.Coef = 0
				}
				return a
			}
		case token.SHL:
			if a.isConst() && b.isConst() && b.Off >= 0 && b.Off < 62 {
				return affine{Off: a.Off << uint(b.Off)}
			}
		case token.OR:
			if a.isConst() && b.isConst() {
				return affine{Off: a.Off | b.Off}
			}
		}
	case *ssa.UnOp:
		if x.Op == token.MUL {
			if r, ok := e.load(x); ok {
				return r
			}
		}
		if x.Op == token.SUB {
			a := e.aff(x.X)
			a.Coef, a.Off = -a.Coef, -a.Off
			return a
		}
	case *ssa.Field:
		if r, ok := e.structField(x.X, x.Field, x); ok {
			return r
		}
	}
	return opaque(v)
}

func isNumeric(t types.Type) bool {
	b, ok := t.Underlying().(*types.Basic)
	return ok && b.Info()&(types.IsInteger|types.IsFloat) != 0
}

// load evaluates a scalar load.
func (e *evaluator) load(u *ssa.UnOp) (affine, bool) {
	switch addr := u.X.(type) {
	case *ssa.FieldAddr:
		return e.fieldAt(addr.X, addr.Field, u)
	case *ssa.IndexAddr:
		sa, _ := e.arr(addr.X)
		if sa == nil || sa.Opaque != "" {
			return affine{}, false
		}
		idx := e.aff(addr.Index)
		if !idx.isConst() {
			return affine{}, false
		}
		vals := e.slotVals(sa, int(idx.Off))
		if len(vals) != 1 {
			return affine{}, false
		}
		return vals[0].ev(e).aff(vals[0].val), true
	}
	return affine{}, false
}

func (e *evaluator) withEnv(env map[ssa.Value]int64) *evaluator {
	if env == nil {
		return e
	}
	return &evaluator{m: e.m, env: env, sub: e.sub, up: e.up, depth: e.depth}
}

type slotVal struct {
	val          ssa.Value
	home         *evaluator // evaluator under which val is to be read (context of the array + index binding)
	store        *slotStore
	unknownRange bool // written under a subscript whose range the model could not bound
}

// slotVals: the values slot k may hold — constant-index stores to k, and
// variable-index stores read with their index bound to k.
func (e *evaluator) slotVals(sa *slotArr, k int) []slotVal {
	return e.slotFieldVals(sa, k, -1)
}

// slotFieldVals: like slotVals for the stores that write field f of the element in place (f = -1: whole element).
func (e *evaluator) slotFieldVals(sa *slotArr, k, f int) []slotVal {
	// the context that owns the array; the reader's loop-index bindings stay visible when both live in one function
	h := e
	if hh, ok := e.m.home[sa]; ok && (hh.sub != nil || hh.up != nil || e.sub != nil) {
		h = &evaluator{m: e.m, env: e.env, sub: hh.sub, up: hh.up, depth: e.depth}
		if e.sub != nil && hh.sub == nil {
			// reader is inside an entered helper, the array lives in the caller: the helper's bindings do not apply
			h.env = nil
		}
	}
	var out []slotVal
	for _, s := range sa.Stores {
		if s.Field != f {
			continue
		}
		// a store made inside a helper is read with the helper's parameters bound to the call's arguments
		hs := h
		if s.In != nil {
			if in := h.enter(s.In); in != nil {
				in.env, in.depth = h.env, h.depth
				hs = in
			}
		}
		if s.K == k {
			out = append(out, slotVal{val: s.Val, home: hs, store: s})
		} else if s.K < 0 {
			if cur, bound := h.env[s.Idx]; bound {
				if int(cur) == k {
					out = append(out, slotVal{val: s.Val, home: hs, store: s})
				}
				continue
			}
			lo, hi, known := e.m.indexRange(s.Idx)
			if known && (int64(k) < lo || int64(k) >= hi) {
				continue // the loop never writes this slot
			}
			env := map[ssa.Value]int64{}
			for kk, vv := range h.env {
				env[kk] = vv
			}
			bindIndex(env, s.Idx, int64(k))
			out = append(out, slotVal{val: s.Val, home: hs.withEnv(env), store: s, unknownRange: !known})
		}
	}
	return out
}

// bindIndex binds a loop index value to k. The range-loop index of go/ssa is
// `t = phi+1`; both the sum and a plain phi are accepted as index values.
func bindIndex(env map[ssa.Value]int64, idx ssa.Value, k int64) {
	env[idx] = k
}

// fieldAt evaluates field f of the struct stored at address base, as seen by the load `at`.
func (e *evaluator) fieldAt(base ssa.Value, f int, at ssa.Instruction) (affine, bool) {
	switch b := base.(type) {
	case *ssa.Alloc:
		defs := fieldDefs(b, f, at)
		if len(defs) == 1 {
			d := defs[0]
			if d.whole {
				return e.structField(d.val, f, at)
			}
			return e.aff(d.val), true
		}
		return affine{}, false
	case *ssa.IndexAddr:
		sa, _ := e.arr(b.X)
		if sa == nil || sa.Opaque != "" {
			return affine{}, false
		}
		idx := e.aff(b.Index)
		if !idx.isConst() {
			return affine{}, false
		}
		vals := e.slotVals(sa, int(idx.Off))
		fvals := e.slotFieldVals(sa, int(idx.Off), f)
		if len(vals) == 0 && len(fvals) == 1 {
			return fvals[0].ev(e).aff(fvals[0].val), true
		}
		if len(vals) != 1 || len(fvals) != 0 {
			return affine{}, false
		}
		return vals[0].ev(e).structField(vals[0].val, f, at)
	case *ssa.Parameter:
		if bv, ok := e.sub[b]; ok {
			return bv.ev.structFieldOfPtr(bv.v, f, at)
		}
		return affine{Base: baseKey{b, f}, Coef: 1}, true
	}
	return affine{}, false
}

// structFieldOfPtr: field f of the struct a pointer value points to (the pointer was passed to an entered helper).
func (e *evaluator) structFieldOfPtr(ptr ssa.Value, f int, at ssa.Instruction) (affine, bool) {
	return e.fieldAt(ptr, f, at)
}

// structField evaluates field f of a struct-typed value.
func (e *evaluator) structField(sv ssa.Value, f int, at ssa.Instruction) (affine, bool) {
	switch x := sv.(type) {
	case *ssa.UnOp:
		if x.Op != token.MUL {
			break
		}
		if r, ok := e.fieldAt(x.X, f, x); ok {
			return r, true
		}
		if al, ok := x.X.(*ssa.Alloc); ok {
			// several definitions of a local struct: not a single value
			if len(fieldDefs(al, f, x)) != 1 {
				return affine{}, false
			}
		}
	case *ssa.Parameter:
		if bv, ok := e.sub[x]; ok {
			return bv.ev.structField(bv.v, f, at)
		}
		return affine{Base: baseKey{x, f}, Coef: 1}, true
	}
	return affine{Base: baseKey{structSource(sv), f}, Coef: 1}, true
}

// structSource follows whole-value copies through locals: `*a = v; w = *a` makes w's source v.
func structSource(v ssa.Value) ssa.Value {
	for depth := 0; depth < 8; depth++ {
		u, ok := v.(*ssa.UnOp)
		if !ok || u.Op != token.MUL {
			return v
		}
		al, ok := u.X.(*ssa.Alloc)
		if !ok {
			return v
		}
		var whole []ssa.Value
		fieldWrites := false
		for _, r := range ssau.Refs(al) {
			switch w := r.(type) {
			case *ssa.Store:
				if w.Addr == al {
					whole = append(whole, w.Val)
				}
			case *ssa.FieldAddr:
				for _, rr := range ssau.Refs(w) {
					if st, ok := rr.(*ssa.Store); ok && st.Addr == w {
						fieldWrites = true
					}
				}
			}
		}
		if len(whole) != 1 || fieldWrites {
			return v
		}
		v = whole[0]
	}
	return v
}

type fieldDef struct {
	val   ssa.Value
	whole bool
	store *ssa.Store
}

// fieldDefs returns the stores into field f of the local struct `a` (or whole-struct
// stores) that may be the value read at `at`: stores that can precede `at`, minus
// those certainly overwritten by a later store that dominates `at`.
func fieldDefs(a *ssa.Alloc, f int, at ssa.Instruction) []fieldDef {
	var all []fieldDef
	for _, r := range ssau.Refs(a) {
		switch u := r.(type) {
		case *ssa.Store:
			if u.Addr == a {
				all = append(all, fieldDef{val: u.Val, whole: true, store: u})
			}
		case *ssa.FieldAddr:
			if u.X == a && u.Field == f {
				for _, rr := range ssau.Refs(u) {
					if st, ok := rr.(*ssa.Store); ok && st.Addr == u {
						all = append(all, fieldDef{val: st.Val, store: st})
					}
				}
			}
		}
	}
	var reach []fieldDef
	for _, d := range all {
		if !(ssau.Before(d.store, at) || ssau.CanFollow(d.store, at)) {
			continue
		}
		reach = append(reach, d)
	}
	var out []fieldDef
	for _, d := range reach {
		killed := false
		for _, o := range reach {
			if o.store != d.store && ssau.Before(d.store, o.store) && ssau.Before(o.store, at) {
				killed = true
			}
		}
		if !killed {
			out = append(out, d)
		}
	}
	return out
}

// paramOfSpill: `t0 = local T (p); *t0 = p` at function entry — returns p when `a` is such a spill
// and is never stored to again.
func paramOfSpill(a *ssa.Alloc) *ssa.Parameter {
	var p *ssa.Parameter
	n := 0
	for _, r := range ssau.Refs(a) {
		if st, ok := r.(*ssa.Store); ok && st.Addr == a {
			n++
			p, _ = st.Val.(*ssa.Parameter)
		}
		if fa, ok := r.(*ssa.FieldAddr); ok {
			for _, rr := range ssau.Refs(fa) {
				if st, ok := rr.(*ssa.Store); ok && st.Addr == fa {
					return nil
				}
			}
		}
	}
	if n == 1 {
		return p
	}
	return nil
}

// guardOf returns the If that decides whether block b runs, and on which branch
// (true: b is the then-successor), when b has that single predecessor.
func guardOf(b *ssa.BasicBlock) (*ssa.If, bool, bool) {
	if len(b.Preds) != 1 {
		return nil, false, false
	}
	p := b.Preds[0]
	if len(p.Instrs) == 0 {
		return nil, false, false
	}
	iff, ok := p.Instrs[len(p.Instrs)-1].(*ssa.If)
	if !ok {
		return nil, false, false
	}
	if p.Succs[0] == b && p.Succs[1] != b {
		return iff, true, true
	}
	if p.Succs[1] == b && p.Succs[0] != b {
		return iff, false, true
	}
	return nil, false, false
}

// elemField evaluates field f of element k of a per-corner struct array, whether the element
// was stored as a whole value or built in place field by field.
func (e *evaluator) elemField(sa *slotArr, k, f int) (affine, token.Pos, bool) {
	vals := e.slotVals(sa, k)
	fvals := e.slotFieldVals(sa, k, f)
	if len(vals) == 0 && len(fvals) == 1 {
		return fvals[0].ev(e).aff(fvals[0].val), fvals[0].store.Store.Pos(), true
	}
	if len(vals) == 1 && len(fvals) == 0 {
		r, ok := vals[0].ev(e).structField(vals[0].val, f, vals[0].store.Store)
		return r, vals[0].store.Store.Pos(), ok
	}
	return affine{}, sa.Base.Pos(), false
}

// ---------------------------------------------------------------------------
// linear combinations  Σ coef·base + off  (several bases)

type lin struct {
	T   map[baseKey]int64
	Off int64
}

func (l lin) String() string {
	var ks []baseKey
	for k := range l.T {
		ks = append(ks, k)
	}
	sortBaseKeys(ks)
	s := ""
	for _, k := range ks {
		c := l.T[k]
		switch {
		case c == 1:
			s += "+" + k.String()
		case c == -1:
			s += "-" + k.String()
		default:
			s += fmt.Sprintf("%+d*%s", c, k.String())
		}
	}
	if l.Off != 0 || s == "" {
		s += fmt.Sprintf("%+d", l.Off)
	}
	return s
}

func sortBaseKeys(ks []baseKey) {
	for i := 1; i < len(ks); i++ {
		for j := i; j > 0 && ks[j].String() < ks[j-1].String(); j-- {
			ks[j], ks[j-1] = ks[j-1], ks[j]
		}
	}
}

func linOf(a affine) lin {
	l := lin{T: map[baseKey]int64{}, Off: a.Off}
	if !a.isConst() && a.Coef != 0 {
		l.T[a.Base] = a.Coef
	}
	return l
}

func (l lin) addScaled(o lin, k int64) lin {
	out := lin{T: map[baseKey]int64{}, Off: l.Off + k*o.Off}
	for b, c := range l.T {
		out.T[b] = c
	}
	for b, c := range o.T {
		out.T[b] += k * c
		if out.T[b] == 0 {
			delete(out.T, b)
		}
	}
	return out
}

func (l lin) isConst() bool { return len(l.T) == 0 }

// lin evaluates v to a linear combination of roots; non-linear parts become opaque roots.
func (e *evaluator) lin(v ssa.Value) lin {
	e.depth++
	defer func() { e.depth-- }()
	if e.depth > 40 {
		return linOf(opaque(v))
	}
	switch x := v.(type) {
	case *ssa.Convert:
		if isNumeric(x.Type()) && isNumeric(x.X.Type()) {
			return e.lin(x.X)
		}
	case *ssa.BinOp:
		switch x.Op {
		case token.ADD:
			return e.lin(x.X).addScaled(e.lin(x.Y), 1)
		case token.SUB:
			return e.lin(x.X).addScaled(e.lin(x.Y), -1)
		case token.MUL:
			a, b := e.lin(x.X), e.lin(x.Y)
			if a.isConst() {
				return lin{T: map[baseKey]int64{}}.addScaled(b, a.Off)
			}
			if b.isConst() {
				return lin{T: map[baseKey]int64{}}.addScaled(a, b.Off)
			}
		}
	case *ssa.UnOp:
		if x.Op == token.SUB {
			return lin{T: map[baseKey]int64{}}.addScaled(e.lin(x.X), -1)
		}
	}
	a := e.aff(v)
	if !a.isConst() && a.Base.V == v && a.Base.F < 0 {
		// aff could not look inside: try to look through a load of a local field whose single definition is linear
		if u, ok := v.(*ssa.UnOp); ok && u.Op == token.MUL {
			if fa, ok := u.X.(*ssa.FieldAddr); ok {
				if al, ok := fa.X.(*ssa.Alloc); ok {
					defs := fieldDefs(al, fa.Field, u)
					if len(defs) == 1 && !defs[0].whole {
						return e.lin(defs[0].val)
					}
				}
			}
		}
	}
	if a.isConst() {
		return linOf(a)
	}
	if a.Base.F >= 0 {
		// field of the result of modeling.VectorInt.Sub: component-wise difference
		if call, ok := a.Base.V.(*ssa.Call); ok && ssau.IsMethod(ssau.CalleeObj(call), modelingPath, "VectorInt", "Sub") && len(call.Call.Args) == 2 {
			x, ok1 := e.structField(call.Call.Args[0], a.Base.F, call)
			y, ok2 := e.structField(call.Call.Args[1], a.Base.F, call)
			if ok1 && ok2 {
				d := linOf(x).addScaled(linOf(y), -1)
				return lin{T: map[baseKey]int64{}, Off: a.Off}.addScaled(d, a.Coef)
			}
		}
	}
	if a.Base.F < 0 && a.Base.V != v {
		switch a.Base.V.(type) {
		case *ssa.BinOp, *ssa.Convert, *ssa.UnOp:
			inner := e.lin(a.Base.V)
			return lin{T: map[baseKey]int64{}, Off: a.Off}.addScaled(inner, a.Coef)
		}
	}
	return linOf(a)
}

// indexRange: idx is a counted loop index with constant bounds (range-over-slice form `phi+1` included).
func (m *slotModel) indexRange(idx ssa.Value) (int64, int64, bool) {
	if r, ok := m.ranges[idx]; ok {
		return r[0], r[1], r[2] == 1
	}
	lo, hi, ok := m.indexRange0(idx)
	if m.ranges == nil {
		m.ranges = map[ssa.Value][3]int64{}
	}
	okn := int64(0)
	if ok {
		okn = 1
	}
	m.ranges[idx] = [3]int64{lo, hi, okn}
	return lo, hi, ok
}

func (m *slotModel) indexRange0(idx ssa.Value) (int64, int64, bool) {
	e := m.eval(nil)
	var phi *ssa.Phi
	shift := int64(0)
	switch v := idx.(type) {
	case *ssa.Phi:
		phi = v
	case *ssa.BinOp:
		a := e.aff(v)
		if p, ok := a.Base.V.(*ssa.Phi); ok && a.Coef == 1 && a.Base.F < 0 {
			phi, shift = p, a.Off
		}
	}
	if phi == nil || len(phi.Edges) < 2 {
		return 0, 0, false
	}
	var init int64
	initOK, stepOK := false, false
	for _, ed := range phi.Edges {
		a := e.aff(ed)
		switch {
		case a.isConst() && (!initOK || init == a.Off):
			init, initOK = a.Off, true
		case a.Base == (baseKey{phi, -1}) && a.Coef == 1 && a.Off == 1:
			stepOK = true
		default:
			return 0, 0, false
		}
	}
	if !initOK || !stepOK {
		return 0, 0, false
	}
	// find the staying test  v < bound  in the loop header
	b := phi.Block()
	iff, ok := b.Instrs[len(b.Instrs)-1].(*ssa.If)
	if !ok {
		return 0, 0, false
	}
	cmp, ok := iff.Cond.(*ssa.BinOp)
	if !ok || (cmp.Op != token.LSS && cmp.Op != token.LEQ) {
		return 0, 0, false
	}
	// the true branch must stay in the loop
	stays := false
	for _, l := range ssau.Loops(phi.Parent()) {
		if l.Header == b && l.Blocks[b.Succs[0]] && !l.Blocks[b.Succs[1]] {
			stays = true
		}
	}
	if !stays {
		return 0, 0, false
	}
	tested := e.aff(cmp.X)
	if tested.Base != (baseKey{phi, -1}) || tested.Coef != 1 {
		return 0, 0, false
	}
	var bound int64
	if n, ok := constNum(cmp.Y); ok {
		bound = n
	} else if call, ok := cmp.Y.(*ssa.Call); ok && ssau.Builtin(call) == "len" {
		sa := m.arrOf(call.Call.Args[0])
		if sa == nil {
			if q, ok := call.Call.Args[0].(*ssa.Parameter); ok {
				sa = m.arrOfParam(q)
			}
		}
		if sa == nil {
			return 0, 0, false
		}
		bound = int64(sa.N)
	} else {
		return 0, 0, false
	}
	// values taken by idx inside the body: the tested value t = phi+tested.Off satisfies t < bound; idx = phi+shift
	// first phi = init, so idx ranges from init+shift while (phi+tested.Off) < bound
	if cmp.Op == token.LEQ {
		bound++
	}
	lo := init + shift
	hi := bound - tested.Off + shift
	return lo, hi, true
}

// ev returns the evaluator under which the slot value is to be read.
func (v slotVal) ev(e *evaluator) *evaluator {
	if v.home != nil {
		return v.home
	}
	return e
}

// ---------------------------------------------------------------------------
// dead default stores

// loadsOf returns every load `*(&arr[idx])` of the array (through its slices), with the index operand.
func loadsOf(sa *slotArr) []*ssa.UnOp {
	var out []*ssa.UnOp
	var visit func(agg ssa.Value)
	visit = func(agg ssa.Value) {
		for _, r := range ssau.Refs(agg) {
			switch u := r.(type) {
			case *ssa.IndexAddr:
				if u.X != agg {
					continue
				}
				for _, rr := range ssau.Refs(u) {
					switch w := rr.(type) {
					case *ssa.UnOp:
						if w.Op == token.MUL {
							out = append(out, w)
						}
					case *ssa.FieldAddr:
						for _, r3 := range ssau.Refs(w) {
							if ld, ok := r3.(*ssa.UnOp); ok && ld.Op == token.MUL {
								out = append(out, ld)
							}
						}
					}
				}
			case *ssa.Slice:
				if u.X == agg && arrayAlloc(u) == sa.Base {
					visit(u)
				}
			}
		}
	}
	visit(sa.Base)
	return out
}

// overwrittenBefore reports whether the constant-index store st (slot k) can never be the value a load of the
// array sees, because a loop that writes every slot runs in between on every path:
//
//	st dominates the loop and the load; the loop's index covers k; the variable-index store dominates every
//	latch (each completed iteration wrote its slot); and every way out of the loop other than its own
//	exhausted-range test sets a boolean that is tested right after the loop and sends control somewhere from
//	which the load cannot be reached without passing st again.
func (m *slotModel) overwrittenBefore(sa *slotArr, st *slotStore, ld *ssa.UnOp) bool {
	if st.K < 0 {
		return false
	}
	fn := st.Store.Parent()
	for _, v := range sa.Stores {
		if v.K >= 0 || v.Field != st.Field {
			continue
		}
		lo, hi, ok := m.indexRange(v.Idx)
		if !ok || int64(st.K) < lo || int64(st.K) >= hi {
			continue
		}
		if v.In != nil {
			// the overwriting loop runs inside a helper called at v.In
			if st.In == nil && st.Store.Parent() == v.In.Parent() && st.Store.Block().Dominates(v.In.Block()) &&
				(st.Store.Block() != v.In.Block() || ssau.Before(st.Store, v.In)) {
				if ok, _ := m.helperFillsBefore(v, ld.Block()); ok {
					return true
				}
			}
			continue
		}
		var loop *ssau.Loop
		for _, l := range ssau.Loops(fn) {
			if l.Blocks[v.Store.Block()] && (loop == nil || len(l.Blocks) < len(loop.Blocks)) {
				// innermost loop containing the store whose header carries the index
				loop = l
			}
		}
		if loop == nil || loop.Blocks[st.Store.Block()] || loop.Blocks[ld.Block()] {
			continue
		}
		if !st.Store.Block().Dominates(loop.Header) || !loop.Header.Dominates(ld.Block()) {
			continue
		}
		if !m.loopCompletesBefore(loop, v.Store.Block(), ld.Block()) {
			continue
		}
		okExits := true
		if okExits {
			return true
		}
	}
	return false
}

// abnormalExitKilled: the edge from→to leaves the loop early and cannot lead to `target`: either no path from
// `to` reaches target without passing `again` (the loop's preheader: the loop is entered afresh and fills
// everything again), or — following unconditional jumps — it reaches a block whose terminating `if` tests a
// boolean phi that is a constant on this path, and the branch taken for that constant cannot reach `target`
// without passing `again` first.
func abnormalExitKilled(from, to, again, target *ssa.BasicBlock) bool {
	// decided on the CFG alone when possible: from where the early exit lands, the reads cannot be reached
	// without entering the loop afresh through its preheader (a labelled `continue` of an enclosing loop, a
	// return, a panic). A labelled `break` that falls into the reads does reach them and is judged below.
	if to != target && !reachesVia(to, target, again) {
		return true
	}
	pred, b := from, to
	for depth := 0; depth < 6; depth++ {
		if len(b.Instrs) == 0 {
			return false
		}
		if iff, ok := b.Instrs[len(b.Instrs)-1].(*ssa.If); ok {
			cond := iff.Cond
			neg := false
			if u, ok := cond.(*ssa.UnOp); ok && u.Op == token.NOT {
				cond, neg = u.X, true
			}
			phi, ok := cond.(*ssa.Phi)
			if !ok || phi.Block() != b {
				return false
			}
			for i, p := range b.Preds {
				if p != pred {
					continue
				}
				c, ok := phi.Edges[i].(*ssa.Const)
				if !ok || c.Value == nil {
					return false
				}
				val := c.Value.String() == "true"
				if neg {
					val = !val
				}
				next := b.Succs[1]
				if val {
					next = b.Succs[0]
				}
				if next == target {
					return false
				}
				return !reachesVia(next, target, again)
			}
			return false
		}
		if _, ok := b.Instrs[len(b.Instrs)-1].(*ssa.Jump); ok && len(b.Succs) == 1 {
			pred, b = b, b.Succs[0]
			continue
		}
		return false
	}
	return false
}

// reachesVia: target reachable from start without entering `avoid`.
func reachesVia(start, target, avoid *ssa.BasicBlock) bool {
	if start == target {
		return true
	}
	if start == avoid {
		return false
	}
	seen := map[*ssa.BasicBlock]bool{start: true}
	stack := []*ssa.BasicBlock{start}
	for len(stack) > 0 {
		n := stack[len(stack)-1]
		stack = stack[:len(stack)-1]
		for _, s := range n.Succs {
			if s == target {
				return true
			}
			if s == avoid || seen[s] {
				continue
			}
			seen[s] = true
			stack = append(stack, s)
		}
	}
	return false
}

// deadDefault: the constant-index store is overwritten before every load of the array that could see it.
func (m *slotModel) deadDefault(sa *slotArr, st *slotStore) bool {
	loads := loadsOf(sa)
	if len(loads) == 0 {
		return false
	}
	for _, ld := range loads {
		if !ssau.CanFollow(st.Store, ld) {
			continue
		}
		if !m.overwrittenBefore(sa, st, ld) {
			return false
		}
	}
	return true
}

// loopCompletesBefore: control only reaches `target` (a block after the loop) when every iteration of the
// loop's range executed the block `body` (the per-slot store):
//
//   - every exit other than the header's exhausted-range test sets a boolean that is tested after the loop
//     and leads somewhere from which target is unreachable without entering the loop afresh, and
//   - every iteration that reaches a latch passed `body`, or cleared a flag (a loop-carried boolean that
//     starts at one constant, is only ever assigned the other, and is tested after the loop with the
//     cleared branch leading away from target).
func (m *slotModel) loopCompletesBefore(loop *ssau.Loop, body, target *ssa.BasicBlock) bool {
	var pre *ssa.BasicBlock
	for _, p := range loop.Header.Preds {
		if !loop.Blocks[p] {
			if pre != nil {
				return false
			}
			pre = p
		}
	}
	if pre == nil {
		return false
	}
	for b := range loop.Blocks {
		for _, w := range b.Succs {
			if loop.Blocks[w] || b == loop.Header {
				continue
			}
			if !abnormalExitKilled(b, w, pre, target) {
				return false
			}
		}
	}
	allLatches := true
	for _, lt := range loop.Latch {
		if !body.Dominates(lt) {
			allLatches = false
		}
	}
	if allLatches {
		return true
	}
	ok, cleared := flagGuardsSkippedIterations(loop, body, pre, target)
	if ok && cleared != nil {
		if m.skipLanding == nil {
			m.skipLanding = map[*ssa.BasicBlock][]*ssa.BasicBlock{}
		}
		m.skipLanding[loop.Header] = append(m.skipLanding[loop.Header], cleared)
	}
	return ok
}

func flagGuardsSkippedIterations(loop *ssau.Loop, body, pre, target *ssa.BasicBlock) (bool, *ssa.BasicBlock) {
	// the block after the normal exit, following jumps, ends in `if flag`
	var exit *ssa.BasicBlock
	for _, w := range loop.Header.Succs {
		if !loop.Blocks[w] {
			exit = w
		}
	}
	b := exit
	for depth := 0; depth < 6 && b != nil; depth++ {
		if len(b.Instrs) == 0 {
			return false, nil
		}
		if iff, ok := b.Instrs[len(b.Instrs)-1].(*ssa.If); ok {
			cond := iff.Cond
			neg := false
			if u, ok := cond.(*ssa.UnOp); ok && u.Op == token.NOT {
				cond, neg = u.X, true
			}
			// with a `break` in the loop the tested value is a phi in the exit block whose normal-exit edge is the header flag
			if p2, ok := cond.(*ssa.Phi); ok && p2.Block() == b {
				for i, pr := range b.Preds {
					if pr == loop.Header || (len(pr.Succs) == 1 && pr != b && len(pr.Preds) == 1 && pr.Preds[0] == loop.Header) {
						cond = p2.Edges[i]
					}
				}
			}
			phi, ok := cond.(*ssa.Phi)
			if !ok || phi.Block() != loop.Header {
				return false, nil
			}
			var initVal *bool
			for i, pr := range loop.Header.Preds {
				ed := phi.Edges[i]
				if !loop.Blocks[pr] {
					c, ok := ed.(*ssa.Const)
					if !ok || c.Value == nil {
						return false, nil
					}
					v := c.Value.String() == "true"
					initVal = &v
				}
			}
			if initVal == nil {
				return false, nil
			}
			for i, pr := range loop.Header.Preds {
				if !loop.Blocks[pr] {
					continue
				}
				ed := phi.Edges[i]
				if c, ok := ed.(*ssa.Const); ok && c.Value != nil {
					if (c.Value.String() == "true") == *initVal {
						return false, nil // the flag is re-armed inside the loop
					}
					continue // cleared on this path
				}
				// unchanged on this path: the iteration must have executed the body; the value may be the header
				// phi itself or a phi merging it with itself further down
				if !flagUnchanged(ed, phi, *initVal) || !body.Dominates(pr) {
					return false, nil
				}
			}
			still := *initVal
			if neg {
				still = !still
			}
			cleared := b.Succs[0]
			if still {
				cleared = b.Succs[1]
			}
			return cleared != target && !reachesVia(cleared, target, pre), cleared
		}
		if _, ok := b.Instrs[len(b.Instrs)-1].(*ssa.Jump); ok && len(b.Succs) == 1 {
			b = b.Succs[0]
			continue
		}
		return false, nil
	}
	return false, nil
}

// flagUnchanged: v is the loop-carried flag phi itself (possibly through phis that only merge it with the cleared constant
// on paths that do not reach this edge — conservatively: v == phi).
func flagUnchanged(v ssa.Value, phi *ssa.Phi, initVal bool) bool {
	return v == ssa.Value(phi)
}

// readOnlyUses: the slice value v is only read (indexed loads, len, re-slicing, handed on to read-only helpers).
func readOnlyUses(v ssa.Value, depth int) bool {
	if depth > 3 {
		return false
	}
	for _, r := range ssau.Refs(v) {
		switch u := r.(type) {
		case *ssa.IndexAddr:
			if u.X != v {
				continue
			}
			for _, rr := range ssau.Refs(u) {
				switch w := rr.(type) {
				case *ssa.UnOp, *ssa.DebugRef:
				case *ssa.FieldAddr:
					for _, r3 := range ssau.Refs(w) {
						switch r3.(type) {
						case *ssa.UnOp, *ssa.DebugRef:
						default:
							return false
						}
					}
				default:
					return false
				}
			}
		case *ssa.Slice:
			if !readOnlyUses(u, depth+1) {
				return false
			}
		case *ssa.Call:
			switch ssau.Builtin(u) {
			case "len", "cap":
				continue
			case "append", "copy":
				if len(u.Call.Args) > 0 && u.Call.Args[0] == v {
					return false
				}
				continue
			}
			callee := u.Call.StaticCallee()
			if callee == nil || callee.Blocks == nil {
				return false
			}
			for i, a := range u.Call.Args {
				if a == v && (i >= len(callee.Params) || !readOnlyUses(callee.Params[i], depth+1)) {
					return false
				}
			}
		case *ssa.DebugRef, *ssa.Range:
		case *ssa.Lookup:
			// string/map lookups do not apply to slices; ignore
		default:
			return false
		}
	}
	return true
}

// onlyLogged: the interface value is only handed to fmt / log functions (directly or through the varargs
// array of such a call): printing a slice does not change it.
func onlyLogged(mi *ssa.MakeInterface) bool {
	isLog := func(call ssa.CallInstruction) bool {
		obj := ssau.CalleeObj(call)
		if obj == nil || obj.Pkg() == nil {
			return false
		}
		switch obj.Pkg().Path() {
		case "fmt", "log", "log/slog":
			return true
		}
		return false
	}
	for _, r := range ssau.Refs(mi) {
		switch u := r.(type) {
		case *ssa.DebugRef:
		case ssa.CallInstruction:
			if !isLog(u) {
				return false
			}
		case *ssa.Store:
			// element of a varargs array: &arr[k] = mi ; slice arr[:] ; call(slice...)
			ia, ok := u.Addr.(*ssa.IndexAddr)
			if !ok || u.Val != ssa.Value(mi) {
				return false
			}
			al, ok := ia.X.(*ssa.Alloc)
			if !ok {
				return false
			}
			for _, r2 := range ssau.Refs(al) {
				switch w := r2.(type) {
				case *ssa.IndexAddr, *ssa.DebugRef:
				case *ssa.Slice:
					for _, r3 := range ssau.Refs(w) {
						if call, ok := r3.(ssa.CallInstruction); !ok || !isLog(call) {
							return false
						}
					}
				default:
					return false
				}
			}
		default:
			return false
		}
	}
	return true
}

// exitLanding: where control really continues after the early exit edge from→to of a loop: following
// unconditional jumps, and an `if` on a boolean phi that is a constant on this path (the branch that constant takes).
func exitLanding(from, to *ssa.BasicBlock) *ssa.BasicBlock {
	pred, b := from, to
	for depth := 0; depth < 6; depth++ {
		if len(b.Instrs) == 0 {
			return b
		}
		switch t := b.Instrs[len(b.Instrs)-1].(type) {
		case *ssa.If:
			cond := t.Cond
			neg := false
			if u, ok := cond.(*ssa.UnOp); ok && u.Op == token.NOT {
				cond, neg = u.X, true
			}
			phi, ok := cond.(*ssa.Phi)
			if !ok || phi.Block() != b {
				return b
			}
			for i, p := range b.Preds {
				if p != pred {
					continue
				}
				c, ok := phi.Edges[i].(*ssa.Const)
				if !ok || c.Value == nil {
					return b
				}
				val := c.Value.String() == "true"
				if neg {
					val = !val
				}
				if val {
					return b.Succs[0]
				}
				return b.Succs[1]
			}
			return b
		case *ssa.Jump:
			if len(b.Succs) != 1 {
				return b
			}
			pred, b = b, b.Succs[0]
		default:
			return b
		}
	}
	return b
}

// ---------------------------------------------------------------------------
// one level of helper inlining for arrays that a helper fills through a parameter

// singleSite: the one static call of fn inside its package (nil when there are none or several).
var siteCache = map[*ssa.Function]*ssa.Call{}

func singleSite(fn *ssa.Function) *ssa.Call {
	if fn == nil || fn.Pkg == nil {
		return nil
	}
	if c, ok := siteCache[fn]; ok {
		return c
	}
	c := singleSite0(fn)
	siteCache[fn] = c
	return c
}

func singleSite0(fn *ssa.Function) *ssa.Call {
	var site *ssa.Call
	n := 0
	for _, f := range allFuncs(fn.Pkg) {
		ssau.AllInstrs(f, func(in ssa.Instruction) {
			if ci, ok := in.(ssa.CallInstruction); ok && ci.Common().StaticCallee() == fn {
				n++
				site, _ = in.(*ssa.Call)
			}
		})
	}
	if n != 1 {
		return nil
	}
	return site
}

// arrOfParam: the caller's slot array a helper parameter stands for (single call site only).
func (m *slotModel) arrOfParam(q *ssa.Parameter) *slotArr {
	fn := q.Parent()
	call := singleSite(fn)
	if call == nil {
		return nil
	}
	for i, p := range fn.Params {
		if p == q && i < len(call.Call.Args) {
			return m.arrOf(call.Call.Args[i])
		}
	}
	return nil
}

// absorbHelperStores: the array is passed to an in-package helper that writes it through parameter q. When the
// helper has this single call site and uses q only for indexed element stores / loads / len, its stores become
// stores of the caller's array (slotStore.In = the call).
func (m *slotModel) absorbHelperStores(sa *slotArr, call *ssa.Call, q *ssa.Parameter) bool {
	fn := q.Parent()
	if fn == nil || singleSite(fn) != call || fn == call.Parent() {
		return false
	}
	var add []*slotStore
	for _, r := range ssau.Refs(q) {
		switch u := r.(type) {
		case *ssa.IndexAddr:
			if u.X != ssa.Value(q) {
				return false
			}
			k := -1
			if n, ok := constNum(u.Index); ok {
				k = int(n)
			}
			for _, rr := range ssau.Refs(u) {
				switch w := rr.(type) {
				case *ssa.Store:
					if w.Addr != ssa.Value(u) {
						return false
					}
					add = append(add, &slotStore{Idx: u.Index, K: k, Field: -1, Val: w.Val, Store: w, In: call})
				case *ssa.UnOp, *ssa.DebugRef:
				case *ssa.FieldAddr:
					for _, r3 := range ssau.Refs(w) {
						switch x := r3.(type) {
						case *ssa.Store:
							if x.Addr != ssa.Value(w) {
								return false
							}
							add = append(add, &slotStore{Idx: u.Index, K: k, Field: w.Field, Val: x.Val, Store: x, In: call})
						case *ssa.UnOp, *ssa.DebugRef:
						default:
							return false
						}
					}
				default:
					return false
				}
			}
		case *ssa.Call:
			if b := ssau.Builtin(u); b != "len" && b != "cap" {
				return false
			}
		case *ssa.DebugRef, *ssa.Range:
		default:
			return false
		}
	}
	sa.Stores = append(sa.Stores, add...)
	if m.helpers == nil {
		m.helpers = map[*ssa.Function]bool{}
	}
	m.helpers[fn] = true
	return true
}

// helperFillsBefore: the variable-index store v lives in a helper (v.In); control only reaches `target` (a block of
// the caller, after the call) when the helper's loop around v ran to completion:
//
//   - in the helper every return yields a boolean constant, and the returns with one of the two values are only
//     reachable after the loop visited every index (loopCompletesBefore on the helper's own CFG), and
//   - in the caller the call's block ends in a test of the result, the branch for the other value cannot reach
//     target without passing the call again, and the call dominates target.
//
// Returns also the block the caller continues at when the helper gave up (for the "one cell only" check).
func (m *slotModel) helperFillsBefore(v *slotStore, target *ssa.BasicBlock) (bool, *ssa.BasicBlock) {
	call := v.In
	h := v.Store.Parent()
	if call == nil || h == nil {
		return false, nil
	}
	var loop *ssau.Loop
	for _, l := range ssau.Loops(h) {
		if l.Blocks[v.Store.Block()] && (loop == nil || len(l.Blocks) < len(loop.Blocks)) {
			loop = l
		}
	}
	if loop == nil {
		return false, nil
	}
	type retInfo struct {
		b   *ssa.BasicBlock
		val bool
	}
	var rets []retInfo
	for _, b := range h.Blocks {
		if b == h.Recover {
			continue
		}
		ret, ok := b.Instrs[len(b.Instrs)-1].(*ssa.Return)
		if !ok {
			continue
		}
		if len(ret.Results) != 1 {
			return false, nil
		}
		c, ok := ret.Results[0].(*ssa.Const)
		if !ok || c.Value == nil || (c.Value.String() != "true" && c.Value.String() != "false") {
			return false, nil
		}
		rets = append(rets, retInfo{b, c.Value.String() == "true"})
	}
	if len(rets) == 0 {
		return false, nil
	}
	var done *bool
	for _, cand := range []bool{true, false} {
		ok, n := true, 0
		for _, r := range rets {
			if r.val != cand {
				continue
			}
			n++
			if loop.Blocks[r.b] || !loop.Header.Dominates(r.b) || !m.loopCompletesBefore(loop, v.Store.Block(), r.b) {
				ok = false
			}
		}
		if ok && n > 0 {
			c := cand
			done = &c
			break
		}
	}
	if done == nil {
		return false, nil
	}
	// caller side
	cb := call.Block()
	iff, ok := cb.Instrs[len(cb.Instrs)-1].(*ssa.If)
	if !ok {
		return false, nil
	}
	cond, neg := iff.Cond, false
	if u, ok := cond.(*ssa.UnOp); ok && u.Op == token.NOT {
		cond, neg = u.X, true
	}
	if cond != ssa.Value(call) {
		return false, nil
	}
	// successor taken when the helper completed
	val := *done
	if neg {
		val = !val
	}
	good, gaveUp := cb.Succs[0], cb.Succs[1]
	if !val {
		good, gaveUp = gaveUp, good
	}
	if !cb.Dominates(target) || target == cb || gaveUp == target || reachesVia(gaveUp, target, cb) {
		return false, nil
	}
	if good != target && !reachesVia(good, target, cb) {
		return false, nil
	}
	return true, gaveUp
}
