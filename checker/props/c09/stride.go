package c09

import (
	"fmt"
	"go/token"
	"go/types"
	"sort"

	"golang.org/x/tools/go/ssa"

	"polycheck/props"
	"polycheck/ssau"
)

// strideRules: SYM-STRIDE.
//
//	index            the linear index is Σ stride_a·coordinate_a with strides {1,S,S²} (a bijection [0,S)³ → [0,S³))
//	alloc            every block appended to the storage the march reads has S³ cells
//	cellLoops        the three cell loops of the block march run over [0,S)
//	write            the writer stores the sample of world cell w in block cp at index w − cp·S on every axis,
//	                 w being the components of the position handed to the field function
func strideRules(c *props.Ctx, p *c09path, blockSite *site) {
	S, ok := indexStrides(c, p)
	if !ok {
		return
	}
	c.R.Extra["block_size_S"] = S
	sp := c.P.SSAPkg(pkgRel)
	if blockSite == nil || blockSite.P == nil || blockSite.D == nil {
		c.R.Undecide("SYM-STRIDE", pkgRel+":blockSite", c.P.Pos(p.march.Pos()), "no block-storage march site could be analysed on the C09 path")
		return
	}
	name := blockSite.name
	// cell loops
	x := &xb{c: c, s: blockSite, p: p}
	e0 := blockSite.root()
	pv := e0.slotVals(blockSite.P, 0)[0]
	d := blockSite.evalVec(pv.ev(e0), pv.val)
	for a := 0; a < 3; a++ {
		key := fmt.Sprintf("%s#cellLoop%c", name, "XYZ"[a])
		if !d.comps {
			c.R.Undecide("SYM-STRIDE", key, c.P.Pos(blockSite.fn.Pos()), "cell coordinates not recognised")
			continue
		}
		b := x.loopBound(d.comp[a].Base)
		pos := blockSite.fn.Pos()
		if v, ok := d.comp[a].Base.V.(*ssa.Phi); ok {
			pos = v.Pos()
		}
		switch {
		case b < 0:
			c.R.Undecide("SYM-STRIDE", key, c.P.Pos(pos), "the loop of a cell coordinate is not `for v := 0; v < const; v++`")
		case b != S:
			c.R.Violate("SYM-STRIDE", key, c.P.Pos(pos), fmt.Sprintf("the %c cell loop runs over [0,%d) but a block has %d cells per axis (strides of the index function)", "xyz"[a], b, S))
		default:
			c.R.Hold("SYM-STRIDE", key, c.P.Pos(pos), fmt.Sprintf("%c ranges over [0,%d) = block size from the index strides", "xyz"[a], S))
		}
	}
	// storage field
	storage := storageField(blockSite)
	if storage == nil {
		c.R.Undecide("SYM-STRIDE", name+"#storage", c.P.Pos(blockSite.fn.Pos()), "the field holding the blocks was not recognised")
		return
	}
	nAlloc := 0
	for _, fn := range sortedFuncs(c, sp) {
		if c.P.IsControl(fn.Pos()) {
			continue
		}
		ssau.AllInstrs(fn, func(in ssa.Instruction) {
			st, ok := in.(*ssa.Store)
			if !ok || ssau.FieldOf(st.Addr) != storage {
				return
			}
			key := fmt.Sprintf("%s→%s#alloc", c.P.FuncName(fn), storage.Name())
			call, ok := st.Val.(*ssa.Call)
			if !ok || ssau.Builtin(call) != "append" {
				// a direct store: must be an empty list (constructor) or a value that was itself loaded from the field
				if n, ok := sliceLen(st.Val); ok && n == 0 {
					return
				}
				c.R.Undecide("SYM-STRIDE", key, c.P.Pos(st.Pos()), "the block list is assigned something other than append(blockList, newBlock) or an empty list")
				return
			}
			m := newSlotModel()
			sa := m.arrOf(call.Call.Args[1])
			if sa == nil {
				c.R.Undecide("SYM-STRIDE", key, c.P.Pos(st.Pos()), "blocks are appended from another slice; their length is not visible")
				return
			}
			ev := m.eval(nil)
			for k := 0; k < sa.N; k++ {
				for _, sv := range ev.slotVals(sa, k) {
					n, ok := sliceLen(sv.val)
					nAlloc++
					switch {
					case !ok:
						c.R.Undecide("SYM-STRIDE", key, c.P.Pos(st.Pos()), "the length of an appended block is not a constant")
					case n != S*S*S:
						c.R.Violate("SYM-STRIDE", key, c.P.Pos(st.Pos()), fmt.Sprintf("a block is allocated with %d cells but the index function addresses %d³ = %d", n, S, S*S*S))
					default:
						c.R.Hold("SYM-STRIDE", key, c.P.Pos(st.Pos()), fmt.Sprintf("make(…, %d) = %d³", n, S))
					}
					blockFill(c, fmt.Sprintf("%s→%s#fill", c.P.FuncName(fn), storage.Name()), sv.val, st, blockSite.inside)
				}
			}
		})
	}
	if nAlloc == 0 {
		c.R.Undecide("SYM-STRIDE", name+"#alloc", c.P.Pos(blockSite.fn.Pos()), "no allocation of a block for field "+storage.Name()+" found")
	}
	wfn, cp := writers(c, p, blockSite, S, storage)
	rangeRules(c, p, S, wfn, cp)
	extraRules(c, p, blockSite, storage, wfn)
}

// sliceLen: constant length of a freshly made slice.
func sliceLen(v ssa.Value) (int64, bool) {
	switch x := v.(type) {
	case *ssa.Slice:
		if a := arrayAlloc(x.X); a != nil {
			n := a.Type().Underlying().(*types.Pointer).Elem().Underlying().(*types.Array).Len()
			if x.High != nil {
				h, ok := constNum(x.High)
				if !ok {
					return 0, false
				}
				n = h
			}
			if x.Low != nil {
				l, ok := constNum(x.Low)
				if !ok {
					return 0, false
				}
				n -= l
			}
			return n, true
		}
	case *ssa.MakeSlice:
		return constNum(x.Len)
	case *ssa.ChangeType:
		return sliceLen(x.X)
	}
	return 0, false
}

// storageField: the struct field from which the site loads the per-corner blocks.
func storageField(s *site) *types.Var {
	var out *types.Var
	for _, st := range s.D.Stores {
		f, _, ok := blockElem(st.Val, 0)
		if !ok {
			continue
		}
		if out != nil && out != f {
			return nil
		}
		out = f
	}
	return out
}

// indexStrides decides the stride part of SYM-STRIDE on the body of the index function.
func indexStrides(c *props.Ctx, p *c09path) (int64, bool) {
	fn := p.index
	key := c.P.FuncName(fn)
	pos := c.P.Pos(fn.Pos())
	if len(fn.Blocks) != 1 {
		c.R.Undecide("SYM-STRIDE", key, pos, "the index function is not straight-line code")
		return 0, false
	}
	var ret *ssa.Return
	for _, in := range fn.Blocks[0].Instrs {
		if r, ok := in.(*ssa.Return); ok {
			ret = r
		}
	}
	if ret == nil || len(ret.Results) != 1 {
		c.R.Undecide("SYM-STRIDE", key, pos, "the index function does not return one value")
		return 0, false
	}
	m := newSlotModel()
	l := m.eval(nil).lin(ret.Results[0])
	np := len(fn.Params)
	coord := fn.Params[np-3:]
	var strides [3]int64
	for b, cf := range l.T {
		found := false
		for i, q := range coord {
			if b.V == ssa.Value(q) && b.F < 0 {
				strides[i] = cf
				found = true
			}
		}
		if !found {
			c.R.Undecide("SYM-STRIDE", key, pos, "the linear index depends on something other than its three coordinates: "+l.String())
			return 0, false
		}
	}
	if l.Off != 0 {
		c.R.Violate("SYM-STRIDE", key, pos, fmt.Sprintf("the linear index has a constant term %d: index(S−1,S−1,S−1) falls outside the block", l.Off), "index = "+l.String())
		return 0, false
	}
	sorted := []int64{strides[0], strides[1], strides[2]}
	sort.Slice(sorted, func(i, j int) bool { return sorted[i] < sorted[j] })
	S := sorted[1]
	if sorted[0] != 1 || S < 2 || sorted[2] != S*S {
		c.R.Violate("SYM-STRIDE", key, pos, fmt.Sprintf("strides (%d,%d,%d) are not {1,S,S²}: the index is not a bijection from [0,S)³ onto [0,S³) (two cells share a slot or slots are skipped)", strides[0], strides[1], strides[2]), "index = "+l.String())
		return 0, false
	}
	c.R.Hold("SYM-STRIDE", key, pos, fmt.Sprintf("index = %s: strides {1,%d,%d²}, mixed-radix bijection [0,%d)³ → [0,%d)", l.String(), S, S, S, S*S*S))
	return S, true
}

// writers: every call of the index function outside the march site (the AddField side).
func writers(c *props.Ctx, p *c09path, bs *site, S int64, storage *types.Var) (*ssa.Function, *ssa.Parameter) {
	n := 0
	var wfn *ssa.Function
	var wcp *ssa.Parameter
	for _, fn := range p.order {
		if fn == bs.fn || fn == bs.blockFnOrSelf() || fn == p.index || (bs.m != nil && bs.m.helpers[fn]) {
			continue // the site itself, or a helper that fills the site's per-corner arrays (judged with the site)
		}
		m := newSlotModel()
		e := m.eval(nil)
		ord := 0
		ssau.AllInstrs(fn, func(in ssa.Instruction) {
			call, ok := in.(*ssa.Call)
			if !ok || call.Call.StaticCallee() != p.index {
				return
			}
			n++
			key := fmt.Sprintf("%s→index#%d", c.P.FuncName(fn), ord)
			ord++
			args := call.Call.Args[len(call.Call.Args)-3:]
			// world cell coordinates: the components of the position given to the field function in this loop nest
			world, wmsg := worldCoords(fn, m, call)
			if wmsg != "" {
				c.R.Undecide("SYM-STRIDE", key, c.P.Pos(call.Pos()), wmsg)
				return
			}
			cp, cmsg := writerBlock(fn, m, call, storage)
			if cmsg != "" {
				c.R.Undecide("SYM-STRIDE", key, c.P.Pos(call.Pos()), cmsg)
				return
			}
			fields, ok := vectorIntFields(cp.Type())
			if !ok {
				c.R.Undecide("SYM-STRIDE", key, c.P.Pos(call.Pos()), "the block position of the writer is not a modeling.VectorInt")
				return
			}
			good := true
			for a := 0; a < 3; a++ {
				l := e.lin(args[a])
				want := lin{T: map[baseKey]int64{world[a]: 1, {cp, fields[a]}: -S}}
				if !sameLin(l, want) {
					c.R.Violate("SYM-STRIDE", key, c.P.Pos(call.Pos()), fmt.Sprintf("index slot %c is %s but the sample of world cell (%s,%s,%s) belongs at %s in block %s", "xyz"[a], l, world[0], world[1], world[2], want, cp.Name()),
						"reader: vertex position = cell coordinate + blockPosition·S")
					good = false
				}
			}
			if good {
				c.R.Hold("SYM-STRIDE", key, c.P.Pos(call.Pos()), fmt.Sprintf("index(w − %d·%s) per axis with w the coordinates of the sampled position", S, cp.Name()))
				if q, ok := cp.(*ssa.Parameter); ok && wfn == nil {
					wfn, wcp = fn, q
				}
			}
		})
	}
	if n == 0 {
		c.R.Undecide("SYM-STRIDE", pkgRel+":writer", c.P.Pos(p.addField.Pos()), "no call of the index function on the AddField side")
	}
	return wfn, wcp
}

func sameLin(a, b lin) bool {
	if a.Off != b.Off || len(a.T) != len(b.T) {
		return false
	}
	for k, v := range a.T {
		if b.T[k] != v {
			return false
		}
	}
	return true
}

// worldCoords: the three scalar roots of the vector handed to a dynamic call (the field function)
// in the same function: vector3.New(float64(x), float64(y), float64(z)) possibly scaled by a scalar.
func worldCoords(fn *ssa.Function, m *slotModel, at *ssa.Call) ([3]baseKey, string) {
	var out [3]baseKey
	e := m.eval(nil)
	found := 0
	msg := ""
	ssau.AllInstrs(fn, func(in ssa.Instruction) {
		call, ok := in.(*ssa.Call)
		if !ok || call.Call.IsInvoke() || call.Call.StaticCallee() != nil || ssau.Builtin(call) != "" {
			return
		}
		if len(call.Call.Args) != 1 || !isVec3(call.Call.Args[0].Type()) {
			return
		}
		v := call.Call.Args[0]
		// strip uniform scalings
		for {
			c2, ok := v.(*ssa.Call)
			if !ok {
				break
			}
			if isVec3Method(c2, "DivByConstant") || isVec3Method(c2, "Scale") || isVec3Method(c2, "MultByConstant") {
				v = c2.Call.Args[0]
				continue
			}
			break
		}
		c3, ok := v.(*ssa.Call)
		if !ok || !isVec3New(c3) {
			msg = "the position handed to the field function is not vector3.New(x,y,z) up to a uniform scale"
			return
		}
		var w [3]baseKey
		for a := 0; a < 3; a++ {
			af := e.aff(c3.Call.Args[a])
			if af.isConst() || af.Coef != 1 || af.Off != 0 {
				msg = "a component of the sampled position is not a plain grid coordinate"
				return
			}
			w[a] = af.Base
		}
		if found > 0 && w != out {
			msg = "the field function is sampled at two different positions in one function"
			return
		}
		out = w
		found++
	})
	if msg != "" {
		return out, msg
	}
	if found == 0 {
		return out, "no call of a field function with a position found next to the index call"
	}
	return out, ""
}

// writerBlock: the block position value whose block the write goes to: data = storage[f(…, cp)][index(…)] += …
func writerBlock(fn *ssa.Function, m *slotModel, idxCall *ssa.Call, storage *types.Var) (ssa.Value, string) {
	// the index call's result subscripts a slice loaded from storage[blockIndex]
	for _, r := range ssau.Refs(idxCall) {
		ia, ok := r.(*ssa.IndexAddr)
		if !ok || ia.Index != ssa.Value(idxCall) {
			continue
		}
		f, blockIndex, ok := blockElem(ia.X, 0)
		if !ok || f != storage {
			continue
		}
		// blockIndex = call(…, cp) with exactly one VectorInt argument, or a map lookup keyed by cp
		switch bi := blockIndex.(type) {
		case *ssa.Call:
			var cp ssa.Value
			k := 0
			for _, a := range bi.Call.Args {
				if _, ok := vectorIntFields(a.Type()); ok {
					cp = a
					k++
				}
			}
			if k == 1 {
				return structRoot(cp), ""
			}
		case *ssa.Lookup:
			return structRoot(bi.Index), ""
		}
		return nil, "the block index of the write is not derived from one block position"
	}
	return nil, "the index call does not subscript a block loaded from the block list"
}

// structRoot maps a load of a spilled struct parameter back to the parameter.
func structRoot(v ssa.Value) ssa.Value {
	if u, ok := v.(*ssa.UnOp); ok && u.Op == token.MUL {
		if al, ok := u.X.(*ssa.Alloc); ok {
			if p := paramOfSpill(al); p != nil {
				return p
			}
		}
	}
	return v
}

// blockElem: v is an element of a block list held in a struct field — `(*base.f)[idx]` — read directly, or
// handed out by an in-package helper whose every return is such an element of a field of the helper's own
// receiver / parameter, subscripted by one of the helper's parameters (a locked lookup moved into a function).
// Returns the field and the index value in the caller's terms. A helper that returns anything else on some
// path (a copy, an element of another expression, a constant or computed position) is not followed.
func blockElem(v ssa.Value, depth int) (*types.Var, ssa.Value, bool) {
	switch t := v.(type) {
	case *ssa.UnOp:
		if t.Op != token.MUL {
			return nil, nil, false
		}
		ia, ok := t.X.(*ssa.IndexAddr)
		if !ok {
			return nil, nil, false
		}
		ld, ok := ia.X.(*ssa.UnOp)
		if !ok || ld.Op != token.MUL {
			return nil, nil, false
		}
		f := ssau.FieldOf(ld.X)
		if f == nil {
			return nil, nil, false
		}
		return f, ia.Index, true
	case *ssa.Call:
		h := t.Call.StaticCallee()
		if depth >= 2 || h == nil || t.Parent() == nil || h.Pkg != t.Parent().Pkg || len(h.Blocks) == 0 || h.Signature.Results().Len() != 1 {
			return nil, nil, false
		}
		// the recover block of a function with defers is only entered when a deferred call recovers;
		// deferred calls into other packages (Unlock) cannot recover for this frame
		skip := h.Recover
		ssau.AllInstrs(h, func(in ssa.Instruction) {
			if d, ok := in.(*ssa.Defer); ok {
				if c := d.Call.StaticCallee(); c == nil || c.Pkg == h.Pkg {
					skip = nil
				}
			}
		})
		var field *types.Var
		var param *ssa.Parameter
		n := 0
		for _, b := range h.Blocks {
			if b == skip {
				continue
			}
			ret, ok := b.Instrs[len(b.Instrs)-1].(*ssa.Return)
			if !ok {
				continue
			}
			if len(ret.Results) != 1 {
				return nil, nil, false
			}
			// with a defer the result travels through a result cell: *cell = value; rundefers; return *cell
			vals := []ssa.Value{ret.Results[0]}
			if ld, ok := ret.Results[0].(*ssa.UnOp); ok && ld.Op == token.MUL {
				if cell, ok := ld.X.(*ssa.Alloc); ok {
					vals = nil
					dominated := false
					for _, r := range ssau.Refs(cell) {
						switch u := r.(type) {
						case *ssa.Store:
							if u.Addr != ssa.Value(cell) {
								return nil, nil, false
							}
							vals = append(vals, u.Val)
							if u.Block() == b || u.Block().Dominates(b) {
								dominated = true
							}
						case *ssa.UnOp, *ssa.DebugRef:
						default:
							return nil, nil, false
						}
					}
					if !dominated {
						return nil, nil, false
					}
				}
			}
			for _, rv := range vals {
				f, idx, ok := blockElem(rv, depth+1)
				if !ok {
					return nil, nil, false
				}
				// the list is a field of the helper's own receiver / parameter
				u, ok := rv.(*ssa.UnOp)
				if !ok {
					return nil, nil, false // an element handed on from a further helper: not followed
				}
				ld := u.X.(*ssa.IndexAddr).X.(*ssa.UnOp)
				fa, ok := ld.X.(*ssa.FieldAddr)
				if !ok {
					return nil, nil, false
				}
				switch base := fa.X.(type) {
				case *ssa.Parameter:
				case *ssa.Alloc:
					if paramOfSpill(base) == nil {
						return nil, nil, false
					}
				default:
					return nil, nil, false
				}
				for {
					cv, ok := idx.(*ssa.Convert)
					if !ok {
						break
					}
					idx = cv.X
				}
				p, ok := idx.(*ssa.Parameter)
				if !ok || (field != nil && (field != f || param != p)) {
					return nil, nil, false
				}
				field, param = f, p
				n++
			}
		}
		if n == 0 {
			return nil, nil, false
		}
		for i, q := range h.Params {
			if q == param && i < len(t.Call.Args) {
				return field, t.Call.Args[i], true
			}
		}
	}
	return nil, nil, false
}

// blockFill (FIELD-OUT for the canvas): the value a cell of a fresh block holds before any field is added —
// what the march reads in the padding and wherever no field reaches. It must be finite (the interpolation
// identity SYM-ALG decides is one over the reals; Inf−Inf and Inf/Inf are NaN) and not on the inside of the
// sign convention. make() zero-fills; an explicit fill before the append is judged by its value.
func blockFill(c *props.Ctx, key string, block ssa.Value, at *ssa.Store, belowIsInside bool) {
	var fills []*ssa.Store
	for _, r := range ssau.Refs(block) {
		if ia, ok := r.(*ssa.IndexAddr); ok {
			for _, r2 := range ssau.Refs(ia) {
				if st, ok := r2.(*ssa.Store); ok && st.Addr == ssa.Value(ia) {
					fills = append(fills, st)
				}
			}
		}
	}
	pos := c.P.Pos(at.Pos())
	if len(fills) == 0 {
		c.R.Hold("FIELD-OUT", key, pos, "a fresh block is zero-filled by make: the value of a cell no field wrote is the finite constant 0 (outside for thresholds ≤ 0, POL-1)")
		return
	}
	for _, st := range fills {
		p := c.P.Pos(st.Pos())
		if nonFinite(st.Val, 0) {
			c.R.Violate("FIELD-OUT", key, p, "fresh blocks are filled with a non-finite value (math.Inf / math.NaN): the sign test still works, but AddField's `+=` onto it and the vertex interpolation (threshold − C[a]) / (C[b] − C[a]) — SYM-ALG's identity holds for finite samples only — produce NaN: NaN vertices and an open surface")
			continue
		}
		k, ok := constRat(st.Val)
		switch {
		case !ok:
			c.R.Undecide("FIELD-OUT", key, p, "fresh blocks are filled with a value that is not a constant: whether it is finite and outside is not decided")
		case (k.Sign() < 0) == belowIsInside && k.Sign() != 0:
			c.R.Violate("FIELD-OUT", key, p, fmt.Sprintf("fresh blocks are filled with %s, which lies on the inside of the march's sign convention for threshold 0: every cell no field reaches is solid", k.FloatString(3)))
		default:
			c.R.Hold("FIELD-OUT", key, p, fmt.Sprintf("fresh blocks are filled with the finite constant %s (outside for threshold 0)", k.FloatString(3)))
		}
	}
}

// nonFinite: the value is, or is computed from, math.Inf(…) / math.NaN().
func nonFinite(v ssa.Value, depth int) bool {
	if depth > 6 {
		return false
	}
	switch t := v.(type) {
	case *ssa.Call:
		if o := ssau.CalleeObj(t); o != nil && o.Pkg() != nil && o.Pkg().Path() == "math" && (o.Name() == "Inf" || o.Name() == "NaN") {
			return true
		}
		for _, a := range t.Call.Args {
			if nonFinite(a, depth+1) {
				return true
			}
		}
	case *ssa.BinOp:
		return nonFinite(t.X, depth+1) || nonFinite(t.Y, depth+1)
	case *ssa.UnOp:
		if t.Op == token.SUB {
			return nonFinite(t.X, depth+1)
		}
	case *ssa.Convert:
		return nonFinite(t.X, depth+1)
	case *ssa.Phi:
		for _, e := range t.Edges {
			if e != ssa.Value(t) && nonFinite(e, depth+1) {
				return true
			}
		}
	}
	return false
}
