package c09

import (
	"fmt"
	"go/token"
	"go/types"
	"math/big"
	"sort"
	"strings"

	"golang.org/x/tools/go/ssa"

	"polycheck/ssau"
)

// symbolic evaluation of an emitted vertex. Vector operations that act
// component-wise and identically on every component (Add, Sub, Scale,
// DivByConstant, Lerp, Midpoint) are evaluated on one representative
// component, so a vector is one scalar symbol.

type vexpr struct {
	rf   ratfn
	ks   []ssa.Value // loop-invariant vectors added on top (block offset)
	fail string
}

type vctx struct {
	s     *site
	e     *evaluator
	subst map[*ssa.Parameter]vexpr // inlined callee parameters
	depth int
}

func (s *site) symFor(sa *slotArr, idx ssa.Value, e *evaluator) (string, bool) {
	arr := ""
	switch sa {
	case s.P:
		arr = "P"
	case s.C:
		arr = "C"
	default:
		return "", false
	}
	if r, ok := s.refs[idx]; ok {
		return fmt.Sprintf("%s[%s]", arr, r), true
	}
	if k := e.aff(idx); k.isConst() {
		return fmt.Sprintf("%s[#%d]", arr, k.Off), true
	}
	return "", false
}

func (x *vctx) eval(v ssa.Value) vexpr {
	x.depth++
	defer func() { x.depth-- }()
	if x.depth > 30 {
		return vexpr{fail: "expression too deep"}
	}
	if p, ok := v.(*ssa.Parameter); ok {
		if sv, ok := x.subst[p]; ok {
			return sv
		}
	}
	// a scalar that does not change inside the site's loops (a parameter, a value computed before
	// the loops): one symbol; the threshold is expected to be the only one of these in a vertex
	if len(x.subst) == 0 && isNumeric(v.Type()) {
		inv := false
		name := v.Name()
		cv, _ := x.e.canon(v)
		switch t := cv.(type) {
		case *ssa.Parameter:
			inv, name = true, t.Name()
		case *ssa.Const:
		default:
			if in, ok := cv.(ssa.Instruction); ok && !inAnyLoop(in.Parent(), in.Block()) {
				inv, name = true, cv.Name()
			}
		}
		if inv {
			sym := "inv:" + name
			x.s.invs[sym] = cv
			return vexpr{rf: rPoly(pSym(sym))}
		}
	}
	if r, ok := constRat(v); ok {
		return vexpr{rf: rPoly(pConst(r))}
	}
	// a vector computed outside every loop (of the site or of its single caller): additive block offset
	if isVec3(v.Type()) && len(x.subst) == 0 {
		cv, _ := x.e.canon(v)
		if in, ok := cv.(ssa.Instruction); ok && !inAnyLoop(in.Parent(), in.Block()) {
			return vexpr{rf: rPoly(pInt(0)), ks: []ssa.Value{cv}}
		}
	}
	switch t := v.(type) {
	case *ssa.UnOp:
		if t.Op == token.MUL {
			if sa, idx, ok := x.e.slotLoad(t); ok {
				if sym, ok := x.s.symFor(sa, idx, x.e); ok {
					return vexpr{rf: rPoly(pSym(sym))}
				}
				return vexpr{fail: "read of per-corner array " + sa.Name + " with an unrecognised subscript"}
			}
		}
		if t.Op == token.SUB {
			a := x.eval(t.X)
			if a.fail != "" {
				return a
			}
			return vexpr{rf: rPoly(pInt(0)).add(a.rf, -1), ks: a.ks}
		}
	case *ssa.BinOp:
		a, b := x.eval(t.X), x.eval(t.Y)
		if a.fail != "" {
			return a
		}
		if b.fail != "" {
			return b
		}
		if len(a.ks)+len(b.ks) > 0 && t.Op != token.ADD {
			return vexpr{fail: "block offset used under a non-additive operation"}
		}
		switch t.Op {
		case token.ADD:
			return vexpr{rf: a.rf.add(b.rf, 1), ks: append(append([]ssa.Value{}, a.ks...), b.ks...)}
		case token.SUB:
			return vexpr{rf: a.rf.add(b.rf, -1)}
		case token.MUL:
			return vexpr{rf: a.rf.mul(b.rf)}
		case token.QUO:
			if b.rf.num.isZero() {
				return vexpr{fail: "division by zero"}
			}
			return vexpr{rf: a.rf.div(b.rf)}
		}
		return vexpr{fail: "operator " + t.Op.String() + " in a vertex expression"}
	case *ssa.Convert:
		if isNumeric(t.Type()) && isNumeric(t.X.Type()) {
			return x.eval(t.X)
		}
	case *ssa.ChangeType:
		return x.eval(t.X)
	case *ssa.Call:
		return x.call(t)
	}
	return vexpr{fail: fmt.Sprintf("unrecognised operand %s (%T) in a vertex expression", v.Name(), v)}
}

func inAnyLoop(fn *ssa.Function, b *ssa.BasicBlock) bool {
	for _, l := range ssau.Loops(fn) {
		if l.Blocks[b] {
			return true
		}
	}
	return false
}

func (x *vctx) call(call *ssa.Call) vexpr {
	args := call.Call.Args
	evalArgs := func() ([]vexpr, string) {
		out := make([]vexpr, len(args))
		for i, a := range args {
			out[i] = x.eval(a)
			if out[i].fail != "" {
				return nil, out[i].fail
			}
		}
		return out, ""
	}
	noK := func(vs ...vexpr) bool {
		for _, v := range vs {
			if len(v.ks) > 0 {
				return false
			}
		}
		return true
	}
	obj := ssau.CalleeObj(call)
	if obj != nil && ssau.RecvNamed(obj) != nil && ssau.IsNamed(ssau.RecvNamed(obj), vec3Path, "Vector") {
		a, f := evalArgs()
		if f != "" {
			return vexpr{fail: f}
		}
		switch obj.Name() {
		case "Add":
			return vexpr{rf: a[0].rf.add(a[1].rf, 1), ks: append(append([]ssa.Value{}, a[0].ks...), a[1].ks...)}
		case "Sub":
			if noK(a[1]) {
				return vexpr{rf: a[0].rf.add(a[1].rf, -1), ks: a[0].ks}
			}
		case "Scale", "MultByConstant":
			if noK(a...) {
				return vexpr{rf: a[0].rf.mul(a[1].rf)}
			}
		case "DivByConstant":
			if noK(a...) && !a[1].rf.num.isZero() {
				return vexpr{rf: a[0].rf.div(a[1].rf)}
			}
		case "Midpoint":
			if noK(a...) {
				return vexpr{rf: a[0].rf.add(a[1].rf, 1).mul(rPoly(pConst(ratHalf())))}
			}
		}
		return vexpr{fail: "vector method " + obj.Name() + " is not a component-wise affine operation the rule models"}
	}
	if obj != nil && ssau.IsFunc(obj, vec3Path, "Lerp") {
		a, f := evalArgs()
		if f != "" {
			return vexpr{fail: f}
		}
		if noK(a...) {
			return vexpr{rf: a[0].rf.add(a[1].rf.add(a[0].rf, -1).mul(a[2].rf), 1)}
		}
	}
	// in-package, single-block callee: inline
	if callee := call.Call.StaticCallee(); callee != nil && callee.Pkg != nil && callee.Pkg == x.s.fn.Pkg && len(callee.Blocks) == 1 {
		a, f := evalArgs()
		if f != "" {
			return vexpr{fail: f}
		}
		var ret *ssa.Return
		for _, in := range callee.Blocks[0].Instrs {
			if r, ok := in.(*ssa.Return); ok {
				ret = r
			}
		}
		if ret == nil || len(ret.Results) != 1 {
			return vexpr{fail: "helper " + callee.Name() + " does not return one value"}
		}
		sub := map[*ssa.Parameter]vexpr{}
		for i, p := range callee.Params {
			if i < len(a) {
				sub[p] = a[i]
			}
		}
		ie := x.e.enter(call)
		if ie == nil {
			ie = x.s.root()
		}
		inner := &vctx{s: x.s, e: ie, subst: sub, depth: x.depth}
		return inner.eval(ret.Results[0])
	}
	name := "?"
	if obj != nil {
		name = obj.Name()
	}
	return vexpr{fail: "call of " + name + " in a vertex expression is not modelled"}
}

// vertices: G (vertex formula, PAIR-1 / SYM-ALG) and H (emission order).
func (s *site) vertices() bool {
	// emission = append(dst, a, b, c) inside the triangle loop with three new elements
	var loop *ssau.Loop
	for _, l := range ssau.Loops(s.fn) {
		if l.Header == s.iPhi.Block() {
			loop = l
		}
	}
	type emission struct {
		call  *ssa.Call
		slots [3]ssa.Value
	}
	var ems []emission
	var blocks []*ssa.BasicBlock
	for b := range loop.Blocks {
		blocks = append(blocks, b)
	}
	sort.Slice(blocks, func(i, j int) bool { return blocks[i].Index < blocks[j].Index })
	for _, b := range blocks {
		for _, in := range b.Instrs {
			call, ok := in.(*ssa.Call)
			if !ok || ssau.Builtin(call) != "append" || len(call.Call.Args) != 2 {
				continue
			}
			sa, _ := s.root().arr(call.Call.Args[1])
			if sa == nil || sa.N != 3 || sa.Opaque != "" {
				continue
			}
			var em emission
			em.call = call
			good := true
			e := s.root()
			for k := 0; k < 3; k++ {
				vals := e.slotVals(sa, k)
				if len(vals) != 1 {
					good = false
					break
				}
				em.slots[k] = vals[0].val
			}
			if good {
				ems = append(ems, em)
			}
		}
	}
	// classify
	var vertexEm *emission
	var vexprs [3]vexpr
	var indexOffsets *[3]int64
	var notes []string
	for i := range ems {
		em := &ems[i]
		elem := em.slots[0].Type()
		switch {
		case isVec3(elem):
			var xs [3]vexpr
			usesP := false
			opaque := false
			for k := 0; k < 3; k++ {
				x := &vctx{s: s, e: s.root()}
				xs[k] = x.eval(em.slots[k])
				if xs[k].fail != "" {
					opaque = true
					continue
				}
				for _, sym := range xs[k].rf.symbols() {
					if strings.HasPrefix(sym, "P[") {
						usesP = true
					}
				}
			}
			if opaque && !usesP {
				// e.g. interpolated user attributes f(P[a]) — not the position emission
				if dependsOnCornerArrays(s, em.slots[:]) == "P-only-through-calls" {
					notes = append(notes, "attribute emission skipped")
					continue
				}
			}
			if vertexEm != nil {
				s.undecide("PAIR-1", "emission", em.call.Pos(), "two appends in the triangle loop both look like the vertex emission")
				return false
			}
			vertexEm = em
			vexprs = xs
		case isInt(elem):
			// either index-of(vertex) calls or startIndex+const
			var xs [3]vexpr
			var offs [3]int64
			kind := ""
			for k := 0; k < 3; k++ {
				v := em.slots[k]
				if call, ok := v.(*ssa.Call); ok && call.Call.StaticCallee() != nil {
					var vecArg ssa.Value
					n := 0
					for _, a := range call.Call.Args {
						if isVec3(a.Type()) {
							vecArg = a
							n++
						}
					}
					if n == 1 {
						x := &vctx{s: s, e: s.root()}
						xs[k] = x.eval(vecArg)
						if kind == "" || kind == "lookup" {
							kind = "lookup"
							continue
						}
					}
					kind = "mixed"
					continue
				}
				a := s.root().aff(v)
				if !a.isConst() && a.Coef == 1 {
					offs[k] = a.Off
					if kind == "" || kind == "offset" {
						kind = "offset"
						continue
					}
				}
				kind = "mixed"
			}
			switch kind {
			case "lookup":
				for k := 0; k < 3; k++ {
					cal := em.slots[k].(*ssa.Call).Call.StaticCallee()
					if k == 0 {
						s.lookupFn = cal
					} else if s.lookupFn != cal {
						s.lookupFn = nil
					}
				}
				if vertexEm != nil {
					s.undecide("PAIR-1", "emission", em.call.Pos(), "two appends in the triangle loop both look like the vertex emission")
					return false
				}
				vertexEm = em
				vexprs = xs
			case "offset":
				o := offs
				indexOffsets = &o
			}
		}
	}
	if vertexEm == nil {
		s.undecide("PAIR-1", "emission", s.iPhi.Pos(), "no append of three vertices (or three vertex indices) found in the triangle loop")
		return false
	}
	s.emitPos = vertexEm.call.Pos()
	// per slot: which row entry, formula
	okAll := true
	var js [3]int
	var ks0 []ssa.Value
	haveKs := false
	for k := 0; k < 3; k++ {
		sub := fmt.Sprintf("vertex[%d]", k)
		vx := vexprs[k]
		if vx.fail != "" {
			s.undecide("SYM-ALG", sub, s.emitPos, "emitted vertex is not a formula the rule can evaluate: "+vx.fail)
			okAll = false
			continue
		}
		// symbols
		syms := vx.rf.symbols()
		jset := map[int64]bool{}
		var foreign []string
		cutSym := ""
		for _, sym := range syms {
			if strings.HasPrefix(sym, "inv:") && cutSym == "" {
				cutSym = sym
				continue
			}
			if (strings.HasPrefix(sym, "P[") || strings.HasPrefix(sym, "C[")) && len(sym) == 5 && (sym[2] == 'A' || sym[2] == 'B') {
				jset[int64(sym[3]-'0')] = true
				continue
			}
			foreign = append(foreign, sym)
		}
		if len(foreign) > 0 {
			s.violate("PAIR-1", sub, s.emitPos, fmt.Sprintf("emitted vertex %d depends on %v besides the two corners of its edge and the threshold", k, foreign), "formula: "+vx.rf.String())
			okAll = false
			continue
		}
		if len(jset) != 1 {
			var l []int64
			for j := range jset {
				l = append(l, j)
			}
			sort.Slice(l, func(a, b int) bool { return l[a] < l[b] })
			s.violate("PAIR-1", sub, s.emitPos, fmt.Sprintf("emitted vertex %d mixes the corners of row entries %v: position and sample arguments must come from the same edge entry", k, l), "formula: "+vx.rf.String())
			okAll = false
			continue
		}
		var j int64
		for jj := range jset {
			j = jj
		}
		js[k] = int(j)
		pa, pb := pSym(fmt.Sprintf("P[A%d]", j)), pSym(fmt.Sprintf("P[B%d]", j))
		ca, cb := pSym(fmt.Sprintf("C[A%d]", j)), pSym(fmt.Sprintf("C[B%d]", j))
		if cutSym == "" {
			s.violate("SYM-ALG", sub, s.emitPos, fmt.Sprintf("emitted vertex %d does not depend on the threshold", k), "formula: "+vx.rf.String())
			okAll = false
			continue
		}
		if s.cutoff != nil && s.invs[cutSym] != s.cutoff {
			s.violate("PAIR-1", sub, s.emitPos, fmt.Sprintf("emitted vertex %d is interpolated toward %s, the corners are classified against another value", k, strings.TrimPrefix(cutSym, "inv:")), "formula: "+vx.rf.String())
			okAll = false
			continue
		}
		cut := pSym(cutSym)
		want := rPoly(pa).add(ratfn{pb.add(pa, -1).mul(cut.add(ca, -1)), cb.add(ca, -1)}, 1)
		if !vx.rf.equal(want) {
			// which kind of mismatch: dependency shape or algebra
			rule := "SYM-ALG"
			need := []string{fmt.Sprintf("P[A%d]", j), fmt.Sprintf("P[B%d]", j), fmt.Sprintf("C[A%d]", j), fmt.Sprintf("C[B%d]", j)}
			have := map[string]bool{}
			for _, sy := range syms {
				have[sy] = true
			}
			for _, n := range need {
				if !have[n] {
					rule = "PAIR-1"
				}
			}
			// swapped pairing shows as equality with the a/b-swapped samples
			swapped := rPoly(pa).add(ratfn{pb.add(pa, -1).mul(cut.add(cb, -1)), ca.add(cb, -1)}, 1)
			msg := fmt.Sprintf("emitted vertex %d is not the affine interpolant P[a] + (P[b]−P[a])·(cutoff−C[a])/(C[b]−C[a]) of its edge", k)
			if vx.rf.equal(swapped) {
				rule = "PAIR-1"
				msg = fmt.Sprintf("emitted vertex %d pairs the position of corner a with the sample of corner b (and vice versa): the vertex slides to the wrong end of the edge", k)
			}
			s.violate(rule, sub, s.emitPos, msg, "formula: "+vx.rf.String())
			okAll = false
			continue
		}
		if !haveKs {
			ks0 = vx.ks
			haveKs = true
		} else if !sameValues(ks0, vx.ks) {
			s.violate("SYM-ALG", sub, s.emitPos, fmt.Sprintf("emitted vertex %d is shifted by a different offset than vertex 0", k))
			okAll = false
			continue
		}
		facts := []string{fmt.Sprintf("vertex %d = interpolant of entry i+%d: %s", k, j, vx.rf.String())}
		if len(vx.ks) > 0 {
			facts = append(facts, fmt.Sprintf("+ %d loop-invariant offset(s)", len(vx.ks)))
		}
		s.hold("SYM-ALG", sub, s.emitPos, facts...)
		s.hold("PAIR-1", sub, s.emitPos, fmt.Sprintf("position and sample operands of vertex %d all use cornerIndex{A,B}FromEdge[row[i+%d]]", k, j))
	}
	if !okAll {
		return false
	}
	if js[0] == js[1] || js[1] == js[2] || js[0] == js[2] {
		s.violate("PAIR-1", "emission", s.emitPos, fmt.Sprintf("the three emitted vertices use row entries i+%d, i+%d, i+%d: an entry is used twice", js[0], js[1], js[2]))
		return false
	}
	s.emit = js
	if indexOffsets != nil {
		// vertices are appended at positions base+0,1,2 and the index triple names base+off[k]
		o := *indexOffsets
		min := o[0]
		for _, v := range o {
			if v < min {
				min = v
			}
		}
		var perm [3]int
		seen := map[int64]bool{}
		for k := 0; k < 3; k++ {
			d := o[k] - min
			if d < 0 || d > 2 || seen[d] {
				s.violate("TAB-3", "emission", s.emitPos, fmt.Sprintf("the index triple base%+d, base%+d, base%+d does not name the three vertices just appended", o[0], o[1], o[2]))
				return false
			}
			seen[d] = true
			perm[k] = js[d]
		}
		s.emit = perm
		s.c.R.Assume("Field.March: the index triple's base (len of the index list) is assumed to be the position of the first of the three vertices just appended")
	}
	s.ksOffset = ks0
	return true
}

func ratHalf() *big.Rat { return big.NewRat(1, 2) }

func sameValues(a, b []ssa.Value) bool {
	if len(a) != len(b) {
		return false
	}
	for i := range a {
		if a[i] != b[i] {
			return false
		}
	}
	return true
}

func isInt(t types.Type) bool {
	b, ok := t.Underlying().(*types.Basic)
	return ok && b.Info()&types.IsInteger != 0
}

// dependsOnCornerArrays: crude classification used only to skip attribute emissions:
// every read of the position array in the slot expressions sits directly in the
// argument list of a dynamic call (a user field function).
func dependsOnCornerArrays(s *site, slots []ssa.Value) string {
	seen := map[ssa.Value]bool{}
	direct := false
	var walk func(v ssa.Value, underDyn bool)
	walk = func(v ssa.Value, underDyn bool) {
		if seen[v] {
			return
		}
		seen[v] = true
		if sa, _, ok := s.root().slotLoad(v); ok && (sa == s.P || sa == s.C) {
			if !underDyn && sa == s.P {
				direct = true
			}
			return
		}
		in, ok := v.(ssa.Instruction)
		if !ok || in.Parent() != s.fn {
			return
		}
		if _, isPhi := v.(*ssa.Phi); isPhi {
			return
		}
		dyn := underDyn
		if call, ok := v.(*ssa.Call); ok && call.Call.StaticCallee() == nil && !call.Call.IsInvoke() && ssau.Builtin(call) == "" {
			dyn = true
		}
		for _, op := range in.Operands(nil) {
			if *op != nil {
				walk(*op, dyn)
			}
		}
	}
	for _, v := range slots {
		walk(v, false)
	}
	if direct {
		return "direct"
	}
	return "P-only-through-calls"
}
