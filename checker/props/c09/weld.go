package c09

import (
	"fmt"
	"go/token"
	"go/types"

	"golang.org/x/tools/go/ssa"

	"polycheck/props"
	"polycheck/ssau"
)

// weldRules:
//
//	MERGE-1  the function that marches the blocks calls the block march for every key of the
//	         block-position map and returns the Append-accumulation of the results
//	WELD-1   every mesh a path function returns that derives from the merged per-block meshes passes
//	         through Mesh.WeldByFloat3Attribute on the marched attribute (blocks share no vertices
//	         until welded: without it every block boundary is an open edge loop)
//	SHARE-1  the vertex-sharing helper returns, for a vertex whose rounded key is known, the index
//	         stored for that key, and otherwise appends exactly that vertex, records len-before-append
//	         under the same key and returns it
func weldRules(c *props.Ctx, p *c09path, bs *site) {
	if bs == nil {
		c.R.Undecide("WELD-1", pkgRel+":blockSite", c.P.Pos(p.march.Pos()), "no block-storage march site on the C09 path")
		return
	}
	blockFn := bs.blockFn
	if blockFn == nil {
		blockFn = bs.fn
	}
	if bs.lookupFn != nil {
		share1(c, bs.lookupFn)
	} else {
		c.R.Undecide("SHARE-1", bs.name+"#vertexSharing", c.P.Pos(bs.fn.Pos()), "the block march does not emit vertex indices through a sharing helper")
	}
	// merge functions: path functions calling the site
	var merges []*ssa.Function
	for _, fn := range p.order {
		calls := false
		ssau.AllInstrs(fn, func(in ssa.Instruction) {
			if call, ok := in.(*ssa.Call); ok && call.Call.StaticCallee() == blockFn {
				calls = true
			}
		})
		if calls {
			merges = append(merges, fn)
		}
	}
	if len(merges) == 0 {
		c.R.Undecide("MERGE-1", bs.name+"#callers", c.P.Pos(bs.fn.Pos()), "nobody on the sequential path calls the block march")
		return
	}
	isMerge := map[*ssa.Function]bool{}
	for _, m := range merges {
		isMerge[m] = true
		merge1(c, m, bs)
	}
	nWeld := 0
	for _, fn := range p.order {
		if isMerge[fn] || fn == bs.fn || fn == blockFn {
			continue
		}
		ssau.AllInstrs(fn, func(in ssa.Instruction) {
			ret, ok := in.(*ssa.Return)
			if !ok {
				return
			}
			for _, r := range ret.Results {
				if !isMesh(r.Type()) {
					continue
				}
				w := &weldWalk{isMerge: isMerge, seen: map[ssa.Value]bool{}}
				w.walk(r, nil)
				for _, f := range w.found {
					nWeld++
					key := fmt.Sprintf("%s→%s", c.P.FuncName(fn), f.merge.Call.StaticCallee().Name())
					switch {
					case f.weld == nil:
						c.R.Violate("WELD-1", key, c.P.Pos(ret.Pos()), "the per-block meshes are returned without being welded: vertices on block boundaries stay duplicated and every block boundary is an open edge loop")
					case !sameAttr(f.weld, f.merge):
						c.R.Violate("WELD-1", key, c.P.Pos(f.weld.Pos()), "the result is welded by a different attribute than the one the blocks were marched on")
					default:
						c.R.Hold("WELD-1", key, c.P.Pos(f.weld.Pos()), "returned mesh = …WeldByFloat3Attribute(attr, …) of the merged block meshes, attr = marched attribute")
					}
				}
			}
		})
	}
	if nWeld == 0 {
		c.R.Undecide("WELD-1", bs.name+"#result", c.P.Pos(p.march.Pos()), "no path function returns the merged block meshes")
	}
}

func isMesh(t types.Type) bool { return ssau.IsNamed(t, modelingPath, "Mesh") }

type weldFound struct {
	merge *ssa.Call
	weld  *ssa.Call
}

type weldWalk struct {
	isMerge map[*ssa.Function]bool
	seen    map[ssa.Value]bool
	found   []weldFound
}

func (w *weldWalk) walk(v ssa.Value, weld *ssa.Call) {
	if w.seen[v] {
		return
	}
	w.seen[v] = true
	switch x := v.(type) {
	case *ssa.Call:
		if cal := x.Call.StaticCallee(); cal != nil && w.isMerge[cal] {
			w.found = append(w.found, weldFound{merge: x, weld: weld})
			return
		}
		obj := ssau.CalleeObj(x)
		if obj != nil && ssau.RecvNamed(obj) != nil && ssau.IsNamed(ssau.RecvNamed(obj), modelingPath, "Mesh") && len(x.Call.Args) >= 1 {
			if obj.Name() == "WeldByFloat3Attribute" && weld == nil {
				weld = x
			}
			w.walk(x.Call.Args[0], weld)
			return
		}
		// in-package helper taking and returning a mesh: follow mesh arguments
		for _, a := range x.Call.Args {
			if isMesh(a.Type()) {
				w.walk(a, weld)
			}
		}
	case *ssa.Phi:
		for _, e := range x.Edges {
			w.walk(e, weld)
		}
	}
}

// sameAttr: the weld's attribute argument is the string the merge was called with, or
// a value tested equal to it on the way to the weld.
func sameAttr(weld, merge *ssa.Call) bool {
	if len(weld.Call.Args) < 2 {
		return false
	}
	wa := weld.Call.Args[1]
	var mas []ssa.Value
	for _, a := range merge.Call.Args {
		if b, ok := a.Type().Underlying().(*types.Basic); ok && b.Kind() == types.String {
			mas = append(mas, a)
		}
	}
	for _, ma := range mas {
		if ma == wa {
			return true
		}
		// dominated by the true branch of  ma == wa
		fn := weld.Parent()
		okEq := false
		ssau.AllInstrs(fn, func(in ssa.Instruction) {
			iff, ok := in.(*ssa.If)
			if !ok {
				return
			}
			cmp, ok := iff.Cond.(*ssa.BinOp)
			if !ok || cmp.Op != token.EQL {
				return
			}
			if !((cmp.X == ma && cmp.Y == wa) || (cmp.X == wa && cmp.Y == ma)) {
				return
			}
			tb := iff.Block().Succs[0]
			if len(tb.Preds) == 1 && tb.Dominates(weld.Block()) {
				okEq = true
			}
		})
		if okEq {
			return true
		}
	}
	return false
}

func merge1(c *props.Ctx, fn *ssa.Function, bs *site) {
	key := c.P.FuncName(fn)
	var call *ssa.Call
	n := 0
	ssau.AllInstrs(fn, func(in ssa.Instruction) {
		if cl, ok := in.(*ssa.Call); ok && cl.Call.StaticCallee() == bs.blockFnOrSelf() {
			call = cl
			n++
		}
	})
	if n != 1 {
		c.R.Undecide("MERGE-1", key, c.P.Pos(fn.Pos()), fmt.Sprintf("%d calls of the block march in one function", n))
		return
	}
	// block position argument: key of a range over a map[VectorInt]…
	var bpArg ssa.Value
	for _, a := range call.Call.Args {
		if _, ok := vectorIntFields(a.Type()); ok {
			bpArg = a
		}
	}
	ex, ok := bpArg.(*ssa.Extract)
	if !ok || ex.Index != 1 {
		c.R.Undecide("MERGE-1", key, c.P.Pos(call.Pos()), "the block position handed to the block march is not the key of a range over the block map")
		return
	}
	nx, ok := ex.Tuple.(*ssa.Next)
	if !ok {
		c.R.Undecide("MERGE-1", key, c.P.Pos(call.Pos()), "the block position handed to the block march is not the key of a range over the block map")
		return
	}
	rg, ok := nx.Iter.(*ssa.Range)
	if !ok {
		c.R.Undecide("MERGE-1", key, c.P.Pos(call.Pos()), "range not recognised")
		return
	}
	mf := ssau.FieldOf(loadAddr(rg.X))
	if mf == nil || mf != bs.blockMapField() {
		c.R.Violate("MERGE-1", key, c.P.Pos(call.Pos()), "the blocks marched are not the keys of the block-position map the block march looks its neighbours up in")
		return
	}
	// the body is not left early between the range and the call: the call's block is the body block reached directly from the ok test
	if iff, onTrue, ok := guardOf(call.Block()); !ok || !onTrue || iff.Cond != ssa.Value(extractOf(nx, 0)) {
		c.R.Undecide("MERGE-1", key, c.P.Pos(call.Pos()), "some blocks may be skipped: the block march is not called unconditionally in the loop body")
		return
	}
	// accumulation: returned value is phi(init, Append(phi, call)) (either operand order)
	okAcc := false
	ssau.AllInstrs(fn, func(in ssa.Instruction) {
		ret, ok := in.(*ssa.Return)
		if !ok || len(ret.Results) != 1 {
			return
		}
		phi, ok := ret.Results[0].(*ssa.Phi)
		if !ok {
			return
		}
		for _, e := range phi.Edges {
			ap, ok := e.(*ssa.Call)
			if !ok || !ssau.IsMethod(ssau.CalleeObj(ap), modelingPath, "Mesh", "Append") || len(ap.Call.Args) != 2 {
				continue
			}
			a0, a1 := ap.Call.Args[0], ap.Call.Args[1]
			if (a0 == ssa.Value(phi) && a1 == ssa.Value(call)) || (a1 == ssa.Value(phi) && a0 == ssa.Value(call)) {
				okAcc = true
			}
		}
	})
	if !okAcc {
		c.R.Violate("MERGE-1", key, c.P.Pos(call.Pos()), "the mesh of a block is not accumulated (Mesh.Append) into the returned mesh: some blocks' triangles are dropped")
		return
	}
	c.R.Hold("MERGE-1", key, c.P.Pos(call.Pos()), "for every key of "+mf.Name()+": result = result.Append(blockMarch(key))")
}

func extractOf(t ssa.Value, idx int) *ssa.Extract {
	for _, r := range ssau.Refs(t) {
		if ex, ok := r.(*ssa.Extract); ok && ex.Index == idx {
			return ex
		}
	}
	return nil
}

func loadAddr(v ssa.Value) ssa.Value {
	if u, ok := v.(*ssa.UnOp); ok && u.Op == token.MUL {
		return u.X
	}
	return nil
}

func (s *site) blockFnOrSelf() *ssa.Function {
	if s.blockFn != nil {
		return s.blockFn
	}
	return s.fn
}

// blockMapField: the map field the site looks block positions up in.
func (s *site) blockMapField() *types.Var {
	var out *types.Var
	ssau.AllInstrs(s.blockFnOrSelf(), func(in ssa.Instruction) {
		lk, ok := in.(*ssa.Lookup)
		if !ok {
			return
		}
		if _, ok := vectorIntFields(lk.Index.Type()); !ok {
			return
		}
		if f := ssau.FieldOf(loadAddr(lk.X)); f != nil {
			out = f
		}
	})
	return out
}

// share1 checks SHARE-1 on the vertex sharing helper.
func share1(c *props.Ctx, fn *ssa.Function) {
	key := c.P.FuncName(fn)
	pos := c.P.Pos(fn.Pos())
	var vert *ssa.Parameter
	for _, p := range fn.Params {
		if isVec3(p.Type()) {
			if vert != nil {
				c.R.Undecide("SHARE-1", key, pos, "two vector parameters")
				return
			}
			vert = p
		}
	}
	if vert == nil {
		c.R.Undecide("SHARE-1", key, pos, "no vertex parameter")
		return
	}
	var lk *ssa.Lookup
	var mu *ssa.MapUpdate
	nl, nm := 0, 0
	ssau.AllInstrs(fn, func(in ssa.Instruction) {
		switch x := in.(type) {
		case *ssa.Lookup:
			if x.CommaOk {
				lk = x
				nl++
			}
		case *ssa.MapUpdate:
			mu = x
			nm++
		}
	})
	if nl == 1 && nm == 0 {
		c.R.Violate("SHARE-1", key, pos, "the index of a new vertex is never recorded in the lookup map: the next triangle that uses the same vertex gets a duplicate, and triangles inside one block no longer share edges")
		return
	}
	if nl != 1 || nm != 1 {
		c.R.Undecide("SHARE-1", key, pos, fmt.Sprintf("expected one comma-ok lookup and one map update, found %d / %d", nl, nm))
		return
	}
	// key derives from vert only
	kcall, ok := lk.Index.(*ssa.Call)
	dep := false
	if ok {
		for _, a := range kcall.Call.Args {
			if a == ssa.Value(vert) {
				dep = true
			} else if _, isC := a.(*ssa.Const); !isC {
				dep = false
				break
			}
		}
	}
	if !dep {
		c.R.Violate("SHARE-1", key, c.P.Pos(lk.Pos()), "the lookup key is not a function of the vertex alone: equal vertices may get different indices")
		return
	}
	if mu.Key != lk.Index {
		c.R.Violate("SHARE-1", key, c.P.Pos(mu.Pos()), "the index of a new vertex is recorded under a different key than the one looked up")
		return
	}
	if ssau.FieldOf(loadAddr(mu.Map)) == nil || ssau.FieldOf(loadAddr(mu.Map)) != ssau.FieldOf(loadAddr(lk.X)) {
		c.R.Violate("SHARE-1", key, c.P.Pos(mu.Pos()), "the index of a new vertex is recorded in a different map than the one looked up")
		return
	}
	okEx, valEx := extractOf(lk, 1), extractOf(lk, 0)
	if okEx == nil || valEx == nil {
		c.R.Undecide("SHARE-1", key, c.P.Pos(lk.Pos()), "lookup result not used as (index, found)")
		return
	}
	// append of exactly vert to a field, stored back
	var app *ssa.Call
	var appStore *ssa.Store
	ssau.AllInstrs(fn, func(in ssa.Instruction) {
		st, ok := in.(*ssa.Store)
		if !ok {
			return
		}
		call, ok := st.Val.(*ssa.Call)
		if !ok || ssau.Builtin(call) != "append" {
			return
		}
		app, appStore = call, st
	})
	if app == nil {
		c.R.Violate("SHARE-1", key, pos, "a vertex that is not yet known is never appended to the vertex list")
		return
	}
	vf := ssau.FieldOf(appStore.Addr)
	if vf == nil || vf != ssau.FieldOf(loadAddr(app.Call.Args[0])) {
		c.R.Undecide("SHARE-1", key, c.P.Pos(app.Pos()), "the vertex list is not a field appended to in place")
		return
	}
	m := newSlotModel()
	sa := m.arrOf(app.Call.Args[1])
	if sa == nil || sa.N != 1 {
		c.R.Undecide("SHARE-1", key, c.P.Pos(app.Pos()), "not exactly one vertex appended")
		return
	}
	vals := m.eval(nil).slotVals(sa, 0)
	if len(vals) != 1 || vals[0].val != ssa.Value(vert) {
		c.R.Violate("SHARE-1", key, c.P.Pos(app.Pos()), "the vertex appended is not the vertex that was looked up")
		return
	}
	// returns
	okAll := true
	nret := 0
	ssau.AllInstrs(fn, func(in ssa.Instruction) {
		ret, ok := in.(*ssa.Return)
		if !ok || len(ret.Results) != 1 {
			return
		}
		nret++
		r := ret.Results[0]
		iff, onTrue, g := guardOf(ret.Block())
		foundBranch := g && iff.Cond == ssa.Value(okEx) && onTrue
		if foundBranch {
			if r != ssa.Value(valEx) {
				c.R.Violate("SHARE-1", key, c.P.Pos(ret.Pos()), "when the vertex is already known the helper does not return the index stored for it")
				okAll = false
			}
			return
		}
		// miss branch: r == len(load vf) computed before the append store, and recorded in the map
		ln, ok := r.(*ssa.Call)
		if !ok || ssau.Builtin(ln) != "len" || ssau.FieldOf(loadAddr(ln.Call.Args[0])) != vf || !ssau.Before(ln, appStore) {
			c.R.Violate("SHARE-1", key, c.P.Pos(ret.Pos()), "the index returned for a new vertex is not the length of the vertex list before the append")
			okAll = false
			return
		}
		if mu.Value != r {
			c.R.Violate("SHARE-1", key, c.P.Pos(mu.Pos()), "the index recorded for a new vertex is not the index returned for it")
			okAll = false
		}
	})
	if okAll && nret == 2 {
		c.R.Hold("SHARE-1", key, pos, "hit: returns map[key(vert)]; miss: i = len(verts); map[key(vert)] = i; verts = append(verts, vert); returns i")
	} else if okAll {
		c.R.Undecide("SHARE-1", key, pos, fmt.Sprintf("%d return statements", nret))
	}
}

var _ = props.Get
