package c09

import (
	"fmt"
	"go/token"
	"go/types"

	"golang.org/x/tools/go/ssa"

	"polycheck/props"
	"polycheck/ssau"
)

// crossBlock: TAB-4 for the block-storage site (sample index offsets, neighbour
// block positions, increments) and the XB rules about the corner fetch across
// block boundaries:
//
//	XB-1  a reset `newIndex.f = 0` is guarded by `pos.f != blockPosition.f` for the same field f,
//	      pos being the neighbour-block position of the same corner
//	XB-2  the neighbour block position on axis a is blockPosition.a+1 exactly under
//	      `cell coordinate of axis a == loop bound − 1`
//	XB-3  the block fetched for corner k is the one stored at the block position of corner k
//	XB-4  the per-corner loop visits all eight corners
//	XB-5  the vertex offset of the block is blockPosition·S on each axis
func crossBlock(c *props.Ctx, s *site, p *c09path) {
	if s.P == nil || s.D == nil || s.I == nil {
		return
	}
	x := &xb{c: c, s: s, p: p}
	x.run()
}

type xb struct {
	c *props.Ctx
	s *site
	p *c09path

	roots  [3]baseKey // cell coordinate of axis a (from the corner position list)
	bounds [3]int64   // loop bound of the cell coordinate
	bp     ssa.Value  // the block position value the site marches (a struct-typed parameter)
	B      *slotArr   // per-corner neighbour block positions

	doneNext  map[ssa.Value]bool
	doneReset map[string]bool
}

func vectorIntFields(t types.Type) ([3]int, bool) {
	// field indices of X, Y, Z in modeling.VectorInt
	var out [3]int
	if !ssau.IsNamed(t, modelingPath, "VectorInt") {
		return out, false
	}
	st, ok := derefStructType(ssau.NamedOf(t))
	if !ok {
		return out, false
	}
	found := 0
	for i := 0; i < st.NumFields(); i++ {
		switch st.Field(i).Name() {
		case "X":
			out[0] = i
			found++
		case "Y":
			out[1] = i
			found++
		case "Z":
			out[2] = i
			found++
		}
	}
	return out, found == 3
}

func axisOfField(fields [3]int, f int) int {
	for a := 0; a < 3; a++ {
		if fields[a] == f {
			return a
		}
	}
	return -1
}

func (x *xb) run() {
	s := x.s
	e0 := s.root()
	// cell coordinate roots from the corner position list (component form only)
	vals := e0.slotVals(s.P, 0)
	d := s.evalVec(vals[0].ev(e0), vals[0].val)
	if !d.comps {
		s.undecide("TAB-4", "corner:sampleIndex", s.P.Base.Pos(), "block-storage site whose corner positions are not built from three cell coordinates")
		return
	}
	for a := 0; a < 3; a++ {
		x.roots[a] = d.comp[a].Base
		x.bounds[a] = x.loopBound(d.comp[a].Base)
		if ph, ok := d.comp[a].Base.V.(*ssa.Phi); ok && s.blockFn == nil {
			s.blockFn = ph.Parent()
		}
	}
	for _, arr := range []*slotArr{s.D, s.I} {
		if arr.Opaque != "" || arr.N != 8 {
			s.undecide("TAB-4", "corner:sampleIndex", arr.Base.Pos(), "per-corner array "+arr.Name+" is not an 8-slot array written only by index: "+arr.Opaque)
			return
		}
	}
	for k := 0; k < 8; k++ {
		x.corner(k)
	}
	x.perCornerLoop()
	if s.vertsOK {
		x.blockOffset()
	}
	if !s.ctl {
		x.c.R.Extra["xb_cell_loop_bounds"] = fmt.Sprint(x.bounds)
	}
	s.loopBounds = x.bounds
}

// loopBound: root is `phi [0, root+1]` tested by `root < N` to stay in its loop.
func (x *xb) loopBound(root baseKey) int64 {
	phi, ok := root.V.(*ssa.Phi)
	if !ok || root.F >= 0 {
		return -1
	}
	e := x.s.root()
	initOK, stepOK := false, false
	for _, ed := range phi.Edges {
		a := e.aff(ed)
		if a.isConst() && a.Off == 0 {
			initOK = true
		} else if a.Base == root && a.Coef == 1 && a.Off == 1 {
			stepOK = true
		} else {
			return -1
		}
	}
	if !initOK || !stepOK {
		return -1
	}
	var loop *ssau.Loop
	for _, l := range ssau.Loops(phi.Parent()) {
		if l.Header == phi.Block() {
			loop = l
		}
	}
	if loop == nil {
		return -1
	}
	b := phi.Block()
	iff, ok := b.Instrs[len(b.Instrs)-1].(*ssa.If)
	if !ok {
		return -1
	}
	cmp, ok := iff.Cond.(*ssa.BinOp)
	if !ok || cmp.X != ssa.Value(phi) || !loop.Blocks[b.Succs[0]] || loop.Blocks[b.Succs[1]] {
		return -1
	}
	n, ok := constNum(cmp.Y)
	if !ok {
		return -1
	}
	switch cmp.Op {
	case token.LSS:
		return n
	case token.LEQ:
		return n + 1
	case token.NEQ:
		return n
	}
	return -1
}

func (x *xb) corner(k int) {
	s := x.s
	e0 := s.root()
	ivals := e0.slotVals(s.I, k)
	if len(ivals) == 0 {
		s.undecide("TAB-4", fmt.Sprintf("corner[%d]:sampleIndex", k), s.I.Base.Pos(), "no definition of the sample index of this corner")
		return
	}
	nIdx, nInc := 0, 0
	for _, sv := range ivals {
		ek := sv.ev(e0)
		if sv.store.K >= 0 && s.m.deadDefault(s.I, sv.store) {
			s.hold("TAB-4", fmt.Sprintf("corner[%d]:sampleIndex", k), sv.store.Store.Pos(), "default index is overwritten by the per-corner loop before every read (dead store): its content cannot matter")
			if call, ok := sv.val.(*ssa.Call); ok {
				s.deadCalls[call] = true
			}
			continue
		}
		call, ok := sv.val.(*ssa.Call)
		if !ok || call.Call.StaticCallee() != x.p.index {
			s.undecide("TAB-4", fmt.Sprintf("corner[%d]:sampleIndex", k), sv.store.Store.Pos(), "the sample index of a corner is not a call of the linear index function")
			continue
		}
		args := call.Call.Args[len(call.Call.Args)-3:]
		variable := sv.store.K < 0
		sub := fmt.Sprintf("corner[%d]:sampleIndex", k)
		if variable {
			sub = fmt.Sprintf("corner[%d]:increment", k)
		}
		okAll := true
		var offs [3]int64
		for a := 0; a < 3; a++ {
			def, resets, fld, msg := x.indexArg(ek, args[a])
			if msg != "" {
				s.undecide("TAB-4", sub, call.Pos(), fmt.Sprintf("argument %d of the index call: %s", a, msg))
				okAll = false
				continue
			}
			if def.isConst() || def.Coef != 1 {
				s.undecide("TAB-4", sub, call.Pos(), fmt.Sprintf("argument %d of the index call is not cellCoordinate+const: %s", a, def))
				okAll = false
				continue
			}
			if def.Base != x.roots[a] {
				ax := -1
				for b := 0; b < 3; b++ {
					if def.Base == x.roots[b] {
						ax = b
					}
				}
				if ax >= 0 {
					dk := fmt.Sprintf("%p.%d", call, a)
					if x.doneReset == nil {
						x.doneReset = map[string]bool{}
					}
					if !x.doneReset[dk] {
						x.doneReset[dk] = true
						ssub := "index:" + sub
						if variable {
							ssub = "index:perCornerLoop"
						}
						s.violate("AXIS-1", ssub, call.Pos(), fmt.Sprintf("slot %c of the index call receives the %c cell coordinate (%s)", "xyz"[a], "xyz"[ax], def))
					}
				} else {
					s.undecide("TAB-4", sub, call.Pos(), fmt.Sprintf("argument %d of the index call is built from %s, not from a cell coordinate", a, def.Base))
				}
				okAll = false
				continue
			}
			offs[a] = def.Off
			if fld >= 0 {
				x.resets(ek, k, a, fld, resets, call.Pos())
			}
		}
		if !okAll {
			continue
		}
		want := s.corner[k]
		if offs != [3]int64{int64(want[0]), int64(want[1]), int64(want[2])} {
			what := "sample index offsets"
			if variable {
				what = "increments"
			}
			s.violate("TAB-4", sub, call.Pos(), fmt.Sprintf("corner %d: %s are %v but its position offset is %v — the lists do not enumerate the corners in the same order", k, what, offs, want))
			continue
		}
		if variable {
			nInc++
		} else {
			nIdx++
		}
		s.hold("TAB-4", sub, call.Pos(), fmt.Sprintf("index(x%+d, y%+d, z%+d) matches corner position offset %v", offs[0], offs[1], offs[2], want))
	}
	x.blocks(k)
}

type resetDef struct {
	val   ssa.Value
	store *ssa.Store
}

// indexArg evaluates one argument of the index call: its unconditional value and the
// conditional overrides (stores into the same struct field that do not dominate the read).
func (x *xb) indexArg(e *evaluator, v ssa.Value) (def affine, resets []resetDef, field int, msg string) {
	field = -1
	if u, ok := v.(*ssa.UnOp); ok && u.Op == token.MUL {
		if fa, ok := u.X.(*ssa.FieldAddr); ok {
			if al, ok := fa.X.(*ssa.Alloc); ok {
				defs := fieldDefs(al, fa.Field, u)
				if len(defs) > 1 {
					field = fa.Field
					n := 0
					for _, d := range defs {
						if ssau.Before(d.store, u) {
							n++
							if d.whole {
								r, ok := e.structField(d.val, fa.Field, u)
								if !ok {
									return def, nil, field, "initial value of the index vector not understood"
								}
								def = r
							} else {
								def = e.aff(d.val)
							}
						} else {
							if d.whole {
								return def, nil, field, "index vector conditionally replaced as a whole"
							}
							resets = append(resets, resetDef{d.val, d.store})
						}
					}
					if n != 1 {
						return def, nil, field, fmt.Sprintf("%d unconditional definitions of one component", n)
					}
					return def, resets, field, ""
				}
			}
		}
	}
	return e.aff(v), nil, -1, ""
}

// resets checks XB-1 for the conditional overrides of index component `fld` (slot a) of corner k.
func (x *xb) resets(e *evaluator, k, a, fld int, rs []resetDef, pos token.Pos) {
	s := x.s
	sub := fmt.Sprintf("reset%c", "XYZ"[a])
	if len(rs) == 0 {
		return
	}
	if x.doneReset == nil {
		x.doneReset = map[string]bool{}
	}
	for _, r := range rs {
		dk := fmt.Sprintf("%p", r.store)
		if x.doneReset[dk] {
			continue // one obligation per reset statement; it is evaluated for the first corner that reaches it and any corner that disagrees
		}
		if n, ok := constNum(r.val); !ok || n != 0 {
			x.doneReset[dk] = true
			s.undecide("XB-1", sub, r.store.Pos(), "a conditional override of an index component stores something other than 0")
			continue
		}
		iff, onTrue, ok := guardOf(r.store.Block())
		if !ok {
			x.doneReset[dk] = true
			s.undecide("XB-1", sub, r.store.Pos(), "the reset of an index component is not directly guarded by an if")
			continue
		}
		cmp, ok := iff.Cond.(*ssa.BinOp)
		if !ok || !((cmp.Op == token.NEQ && onTrue) || (cmp.Op == token.EQL && !onTrue)) {
			x.doneReset[dk] = true
			s.undecide("XB-1", sub, r.store.Pos(), "the reset of an index component is not guarded by a `!=` test")
			continue
		}
		l, rr := e.aff(cmp.X), e.aff(cmp.Y)
		// one side: field of the corner's neighbour block position (resolved through the per-corner list);
		// other side: field of the marched block position
		lf, lok := x.blockField(e, cmp.X)
		rf, rok := x.blockField(e, cmp.Y)
		_ = l
		_ = rr
		if !lok || !rok {
			x.doneReset[dk] = true
			s.undecide("XB-1", sub, r.store.Pos(), "the reset guard does not compare a component of the corner's block position with a component of the marched block position")
			continue
		}
		if lf.own == rf.own {
			x.doneReset[dk] = true
			s.undecide("XB-1", sub, r.store.Pos(), "the reset guard does not compare the corner's block position with the marched block position")
			continue
		}
		if lf.field != fld || rf.field != fld {
			st, _ := derefStructType(r.store.Addr.(*ssa.FieldAddr).X.Type())
			name := func(f int) string {
				if st != nil && f < st.NumFields() {
					return st.Field(f).Name()
				}
				return fmt.Sprint(f)
			}
			x.doneReset[dk] = true
			s.violate("XB-1", sub, r.store.Pos(), fmt.Sprintf("index component %s is reset to 0 when block components %s / %s differ: on the last cell of a block the neighbour block's index 0 must be used on the same axis", name(fld), name(lf.field), name(rf.field)))
			continue
		}
		if lf.cornerK >= 0 && lf.cornerK != k || rf.cornerK >= 0 && rf.cornerK != k {
			x.doneReset[dk] = true
			s.violate("XB-1", sub, r.store.Pos(), fmt.Sprintf("the reset for corner %d tests the block position of another corner", k))
			continue
		}
		if k == 7 {
			x.doneReset[dk] = true
			s.hold("XB-1", sub, r.store.Pos(), fmt.Sprintf("for every corner k: newIndex.%c = 0 iff blockPositions[k].%c != blockPosition.%c", "XYZ"[a], "XYZ"[a], "XYZ"[a]))
		}
	}
}

type blockFieldRef struct {
	own     bool // component of the marched block position itself
	field   int
	cornerK int // per-corner list slot, or -1
}

// blockField classifies a scalar as a field of the marched block position or of the
// corner's neighbour block position (an element of a per-corner VectorInt list).
func (x *xb) blockField(e *evaluator, v ssa.Value) (blockFieldRef, bool) {
	u, ok := v.(*ssa.UnOp)
	if !ok || u.Op != token.MUL {
		return blockFieldRef{}, false
	}
	fa, ok := u.X.(*ssa.FieldAddr)
	if !ok {
		return blockFieldRef{}, false
	}
	switch b := fa.X.(type) {
	case *ssa.Alloc:
		if p := paramOfSpill(b); p != nil {
			p = canonParam(e, p)
			if x.bp == nil {
				x.bp = p
			}
			if x.bp == ssa.Value(p) {
				return blockFieldRef{own: true, field: fa.Field, cornerK: -1}, true
			}
			return blockFieldRef{}, false
		}
		// range value spilled to a local: *b = *(&list[i])
		defs := fieldDefs(b, fa.Field, u)
		if len(defs) == 1 && defs[0].whole {
			if sa, idx, ok := e.slotLoad(defs[0].val); ok {
				k := e.aff(idx)
				if k.isConst() && x.isBlockList(sa) {
					return blockFieldRef{field: fa.Field, cornerK: int(k.Off)}, true
				}
			}
		}
	case *ssa.IndexAddr:
		if sa, _ := e.arr(b.X); sa != nil {
			k := e.aff(b.Index)
			if k.isConst() && x.isBlockList(sa) {
				return blockFieldRef{field: fa.Field, cornerK: int(k.Off)}, true
			}
		}
	}
	return blockFieldRef{}, false
}

func (x *xb) isBlockList(sa *slotArr) bool {
	if sa.Opaque != "" || sa.N != 8 {
		return false
	}
	if _, ok := vectorIntFields(sa.Elem); !ok {
		return false
	}
	if x.B == nil {
		x.B = sa
	}
	return x.B == sa
}

// blocks: XB-3 (block of corner k is looked up at block position k) and TAB-4 for the
// neighbour block position list, XB-2 for the "+1 on the last cell" guard.
func (x *xb) blocks(k int) {
	s := x.s
	e0 := s.root()
	sub := fmt.Sprintf("corner[%d]:block", k)
	for _, sv := range e0.slotVals(s.D, k) {
		ek := sv.ev(e0)
		if sv.store.K >= 0 && s.m.deadDefault(s.D, sv.store) {
			s.hold("XB-3", sub+":default", sv.store.Store.Pos(), "default block is overwritten by the per-corner loop before every read (dead store)")
			continue
		}
		// value: *(&storage[blockIndex]) ; blockIndex = positions[key] (plain or comma-ok)
		_, idx, ok := blockElem(sv.val, 0)
		if !ok {
			s.undecide("XB-3", sub, sv.store.Store.Pos(), "the block of a corner is not read as storage[blockIndex]")
			continue
		}
		if ex, ok := idx.(*ssa.Extract); ok {
			idx = ex.Tuple
		}
		lk, ok := idx.(*ssa.Lookup)
		if !ok {
			s.undecide("XB-3", sub, sv.store.Store.Pos(), "the block index of a corner is not looked up in the block-position map")
			continue
		}
		// key: whole marched block position, or element k of the per-corner list
		key := lk.Index
		ku, ok := key.(*ssa.UnOp)
		if !ok || ku.Op != token.MUL {
			s.undecide("XB-3", sub, sv.store.Store.Pos(), "the key of the block lookup is not a block position value")
			continue
		}
		switch b := ku.X.(type) {
		case *ssa.Alloc:
			if p := paramOfSpill(b); p != nil {
				p = canonParam(ek, p)
				if x.bp == nil {
					x.bp = p
				}
				if x.bp != ssa.Value(p) {
					s.undecide("XB-3", sub, sv.store.Store.Pos(), "blocks are looked up at two different block-position parameters")
					continue
				}
				if sv.store.K >= 0 {
					s.hold("XB-3", sub+":default", sv.store.Store.Pos(), fmt.Sprintf("default block of corner %d is the marched block", k))
				} else {
					s.violate("XB-3", sub, sv.store.Store.Pos(), fmt.Sprintf("the per-corner loop fetches the marched block itself for corner %d instead of the block at that corner's block position: on the last cell of a block the samples across the boundary are read from the wrong block", k))
				}
				continue
			}
			defs := wholeDefs(b, ku)
			if len(defs) != 1 {
				s.undecide("XB-3", sub, sv.store.Store.Pos(), "the key of the block lookup has several definitions")
				continue
			}
			sa, kidx, ok := ek.slotLoad(defs[0])
			if !ok || !x.isBlockList(sa) {
				s.undecide("XB-3", sub, sv.store.Store.Pos(), "the key of the block lookup is not an element of the per-corner block position list")
				continue
			}
			kk := ek.aff(kidx)
			if !kk.isConst() {
				s.undecide("XB-3", sub, sv.store.Store.Pos(), "block position subscript is not the per-corner loop index")
				continue
			}
			if int(kk.Off) != k {
				s.violate("XB-3", sub, sv.store.Store.Pos(), fmt.Sprintf("the block of corner %d is looked up at the block position of corner %d", k, kk.Off))
				continue
			}
			s.hold("XB-3", sub, sv.store.Store.Pos(), fmt.Sprintf("block[%d] = storage[positions[blockPositions[%d]]]", k, k))
		default:
			s.undecide("XB-3", sub, sv.store.Store.Pos(), "the key of the block lookup is not understood")
		}
	}
	// neighbour block position list, element k
	if x.B == nil {
		return
	}
	fields, ok := vectorIntFields(x.B.Elem)
	if !ok {
		return
	}
	subB := fmt.Sprintf("corner[%d]:blockPosition", k)
	pos := x.B.Base.Pos()
	var next [3]int
	okAll := true
	for a := 0; a < 3; a++ {
		r, p, ok := e0.elemField(x.B, k, fields[a])
		if p.IsValid() {
			pos = p
		}
		if !ok {
			s.undecide("TAB-4", subB, pos, fmt.Sprintf("component %c of the block position of corner %d does not have exactly one definition", "XYZ"[a], k))
			okAll = false
			continue
		}
		n, msg, viol := x.nextFlag(r, a, fields)
		if msg != "" {
			if viol != "" {
				s.violate(viol, subB, pos, msg)
			} else {
				s.undecide("TAB-4", subB, pos, msg)
			}
			okAll = false
			continue
		}
		next[a] = n
	}
	if !okAll {
		return
	}
	if next != s.corner[k] {
		s.violate("TAB-4", subB, pos, fmt.Sprintf("corner %d takes the neighbouring block on axes %v but its position offset is %v — on the last cell of a block it reads the wrong block", k, next, s.corner[k]))
		return
	}
	s.hold("TAB-4", subB, pos, fmt.Sprintf("neighbour-block flags %v match position offset", next))
}

func wholeDefs(a *ssa.Alloc, at ssa.Instruction) []ssa.Value {
	var out []ssa.Value
	for _, r := range ssau.Refs(a) {
		if st, ok := r.(*ssa.Store); ok && st.Addr == a {
			if ssau.Before(st, at) || ssau.CanFollow(st, at) {
				out = append(out, st.Val)
			}
		}
	}
	return out
}

// nextFlag: a block-position component is either blockPosition.f (0) or the phi
// {blockPosition.f, blockPosition.f+1} taken on the last cell of axis a (1).
func (x *xb) nextFlag(r affine, a int, fields [3]int) (int, string, string) {
	s := x.s
	if r.isConst() {
		return 0, "block position component is a constant", ""
	}
	if p, ok := r.Base.V.(*ssa.Parameter); ok && r.Base.F >= 0 {
		if x.bp == nil {
			x.bp = p
		}
		if x.bp != ssa.Value(p) {
			return 0, "block position component comes from another parameter", ""
		}
		if r.Coef != 1 || r.Off != 0 {
			return 0, "block position component is not blockPosition." + string("XYZ"[a]) + " itself: " + r.String(), "XB-2"
		}
		if r.Base.F != fields[a] {
			return 0, fmt.Sprintf("component %c of a corner's block position is taken from blockPosition.%c", "XYZ"[a], "XYZ"[axisOfField(fields, r.Base.F)]), "AXIS-1"
		}
		return 0, "", ""
	}
	if r.Base.F >= 0 || r.Coef != 1 || r.Off != 0 {
		return 0, "block position component is neither blockPosition.f nor its conditional successor: " + r.String(), ""
	}
	alts, keyV := x.alternatives(r.Base.V)
	if len(alts) != 2 {
		return 0, "block position component is neither blockPosition.f nor its conditional successor: " + r.String(), ""
	}
	sub := fmt.Sprintf("nextBlock%c", "XYZ"[a])
	var plus *nbAlt
	for i := range alts {
		al := &alts[i]
		ea := al.ev.aff(al.val)
		p, ok := ea.Base.V.(*ssa.Parameter)
		if !ok || ea.Coef != 1 || ea.Base.F < 0 {
			return 0, "neighbour block position is not built from blockPosition: " + ea.String(), ""
		}
		if x.bp == nil {
			x.bp = p
		}
		if x.bp != ssa.Value(p) {
			return 0, "neighbour block position comes from another parameter", ""
		}
		if ea.Base.F != fields[a] {
			return 0, fmt.Sprintf("component %c of a corner's block position is derived from blockPosition.%c", "XYZ"[a], "XYZ"[axisOfField(fields, ea.Base.F)]), "AXIS-1"
		}
		switch ea.Off {
		case 0:
		case 1:
			plus = al
		default:
			return 0, fmt.Sprintf("neighbour block position is blockPosition.%c%+d (must be +1)", "XYZ"[a], ea.Off), "XB-2"
		}
	}
	if plus == nil {
		return 0, "", ""
	}
	e := plus.ev
	pos0 := keyV.Pos()
	// XB-2: the +1 edge is taken exactly under `cell coordinate a == bound−1`
	if _, done := x.doneNext[keyV]; !done {
		if x.doneNext == nil {
			x.doneNext = map[ssa.Value]bool{}
		}
		x.doneNext[keyV] = true
		guard := x.plusGuard(plus.guardBlock, e)
		switch {
		case guard == nil:
			s.undecide("XB-2", sub, pos0, "the condition under which the neighbouring block is selected was not recognised")
		default:
			cmp := guard.cmp
			l, rr := e.aff(cmp.X), e.aff(cmp.Y)
			if l.isConst() {
				l, rr = rr, l
			}
			switch {
			case !rr.isConst() || l.isConst() || l.Coef != 1 || l.Off != 0:
				s.undecide("XB-2", sub, cmp.Pos(), "the neighbouring-block condition is not `cell coordinate == const`")
			case l.Base != x.roots[a]:
				ax := -1
				for b := 0; b < 3; b++ {
					if l.Base == x.roots[b] {
						ax = b
					}
				}
				if ax >= 0 {
					s.violate("XB-2", sub, cmp.Pos(), fmt.Sprintf("the neighbouring block on axis %c is selected when the %c cell coordinate reaches the block edge", "XYZ"[a], "xyz"[ax]))
				} else {
					s.undecide("XB-2", sub, cmp.Pos(), "the neighbouring-block condition tests something that is not a cell coordinate")
				}
			case x.bounds[a] < 0:
				s.undecide("XB-2", sub, cmp.Pos(), "the loop bound of the cell coordinate was not recognised")
			case !(guard.eq && rr.Off == x.bounds[a]-1) && !(guard.geq && rr.Off == x.bounds[a]-1) && !(guard.gtr && rr.Off == x.bounds[a]-2):
				s.violate("XB-2", sub, cmp.Pos(), fmt.Sprintf("the neighbouring block on axis %c is selected at cell coordinate %s %d but the last cell of the loop is %d", "XYZ"[a], cmp.Op, rr.Off, x.bounds[a]-1))
			default:
				s.hold("XB-2", sub, cmp.Pos(), fmt.Sprintf("blockPosition.%c+1 exactly when %c == %d (loop bound %d)", "XYZ"[a], "xyz"[a], x.bounds[a]-1, x.bounds[a]))
			}
		}
	}
	return 1, "", ""
}

type plusGuard struct {
	cmp          *ssa.BinOp
	eq, geq, gtr bool
}

// plusGuard finds the comparison that decides the +1 edge of the phi: the edge's
// predecessor chain leads (through single-predecessor blocks) to the then-branch of an if.
func (x *xb) plusGuard(b *ssa.BasicBlock, e *evaluator) *plusGuard {
	for depth := 0; depth < 6; depth++ {
		iff, onTrue, ok := guardOf(b)
		if !ok {
			return nil
		}
		cmp, isCmp := iff.Cond.(*ssa.BinOp)
		if isCmp {
			// is this the if whose other branch leads to the phi's other edge? accept the first comparison on a cell coordinate
			g := &plusGuard{cmp: cmp}
			op := cmp.Op
			if _, lc := constNum(cmp.X); lc {
				op = flipCmp(op)
			}
			switch {
			case op == token.EQL && onTrue, op == token.NEQ && !onTrue:
				g.eq = true
			case op == token.GEQ && onTrue, op == token.LSS && !onTrue:
				g.geq = true
			case op == token.GTR && onTrue, op == token.LEQ && !onTrue:
				g.gtr = true
			default:
				return nil
			}
			l, r := e.aff(cmp.X), e.aff(cmp.Y)
			if (l.isConst() != r.isConst()) && (isRootPhi(l) || isRootPhi(r)) {
				return g
			}
		}
		b = b.Preds[0]
	}
	return nil
}

func isRootPhi(a affine) bool {
	if a.isConst() || a.Base.F >= 0 {
		return false
	}
	_, ok := a.Base.V.(*ssa.Phi)
	return ok
}

// perCornerLoop: XB-4 — variable-index stores into the per-corner arrays run over all eight corners;
// XB-6 — the samples are read only when that loop ran to completion.
func (x *xb) perCornerLoop() {
	s := x.s
	seen := map[ssa.Value]bool{}
	doneLoop := map[*ssa.BasicBlock]bool{}
	for _, arr := range []*slotArr{s.D, s.I} {
		for _, st := range arr.Stores {
			if st.K >= 0 {
				continue
			}
			if st.In != nil {
				// the per-corner loop lives in a helper called at st.In: the helper reports completion, the caller
				// only goes on to the reads when it did
				cb := st.In.Block()
				if doneLoop[cb] {
					continue
				}
				doneLoop[cb] = true
				okAll, n := true, 0
				var gaveUp *ssa.BasicBlock
				for _, a2 := range []*slotArr{s.D, s.I} {
					for _, ld := range loadsOf(a2) {
						if ld.Parent() != st.In.Parent() || !cb.Dominates(ld.Block()) || (ld.Block() == cb && !ssau.Before(st.In, ld)) {
							continue // not after the call
						}
						n++
						ok, g := s.m.helperFillsBefore(st, ld.Block())
						if !ok {
							okAll = false
						} else {
							gaveUp = g
						}
					}
				}
				if n > 0 && okAll && gaveUp != nil {
					var parent *ssau.Loop
					for _, l := range ssau.Loops(st.In.Parent()) {
						if l.Blocks[cb] && (parent == nil || len(l.Blocks) < len(parent.Blocks)) {
							parent = l
						}
					}
					if parent != nil && !parent.Blocks[gaveUp] {
						s.violate("XB-6", "perCornerLoop:skipsOneCell", st.In.Pos(), "when a neighbouring block is missing (the helper that fetches the corners gives up) the caller leaves more than the current cell: the remaining cells of the row / block are never triangulated and the surface is left open there")
					} else if parent != nil {
						s.hold("XB-6", "perCornerLoop:skipsOneCell", st.In.Pos(), "when the corner-fetching helper gives up the caller stays inside the innermost cell loop: only the cell with the missing neighbour is skipped")
					}
				}
				switch {
				case n == 0:
				case okAll:
					s.hold("XB-6", "perCornerLoop:completes", st.In.Pos(), fmt.Sprintf("%d reads of the per-corner blocks / indices are reachable only when the helper %s reported that its loop visited all corners (its other returns are early exits; the caller tests the result)", n, st.Store.Parent().Name()))
				default:
					s.violate("XB-6", "perCornerLoop:completes", st.In.Pos(), "the per-corner blocks / indices are read although the helper that fills them may have stopped early (a neighbouring block is missing): its result is not tested, or the result it returns does not tell a completed loop from an early exit — the cell is triangulated from stale or default entries instead of being skipped")
				}
				continue
			}
			var loop *ssau.Loop
			for _, l := range ssau.Loops(st.Store.Parent()) {
				if l.Blocks[st.Store.Block()] && (loop == nil || len(l.Blocks) < len(loop.Blocks)) {
					loop = l
				}
			}
			if loop == nil || doneLoop[loop.Header] {
				continue
			}
			doneLoop[loop.Header] = true
			okAll := true
			n := 0
			for _, a2 := range []*slotArr{s.D, s.I} {
				for _, ld := range loadsOf(a2) {
					if loop.Blocks[ld.Block()] || !loop.Header.Dominates(ld.Block()) {
						continue
					}
					n++
					if !s.m.loopCompletesBefore(loop, st.Store.Block(), ld.Block()) {
						okAll = false
					}
				}
			}
			// an early exit gives up this cell only: it must land inside the innermost loop around the per-corner
			// loop (that cell loop's continuation), not further out (the rest of the row / block would be dropped)
			var parent *ssau.Loop
			for _, l := range ssau.Loops(st.Store.Parent()) {
				if l != loop && l.Blocks[loop.Header] && len(l.Blocks) > len(loop.Blocks) && (parent == nil || len(l.Blocks) < len(parent.Blocks)) {
					parent = l
				}
			}
			if parent != nil {
				far := false
				for b := range loop.Blocks {
					for _, w := range b.Succs {
						if !loop.Blocks[w] && b != loop.Header && !parent.Blocks[exitLanding(b, w)] {
							far = true
						}
					}
				}
				for _, w := range s.m.skipLanding[loop.Header] {
					if !parent.Blocks[w] {
						far = true
					}
				}
				if far {
					s.violate("XB-6", "perCornerLoop:skipsOneCell", st.Store.Pos(), "when a neighbouring block is missing the early exit of the per-corner loop leaves more than the current cell (it jumps out of the innermost cell loop): the remaining cells of the row / block are never triangulated and the surface is left open there")
				} else {
					s.hold("XB-6", "perCornerLoop:skipsOneCell", st.Store.Pos(), "early exits of the per-corner loop stay inside the innermost cell loop: only the cell with the missing neighbour is skipped")
				}
			}
			switch {
			case n == 0:
			case okAll:
				s.hold("XB-6", "perCornerLoop:completes", st.Store.Pos(), fmt.Sprintf("%d reads of the per-corner blocks / indices are reachable only after the loop visited all corners (early exits leave the cell: a flag tested after the loop, or a jump that cannot reach the reads without re-entering the loop)", n))
			default:
				s.violate("XB-6", "perCornerLoop:completes", st.Store.Pos(), "the per-corner blocks / indices are read although the loop that fills them may have stopped early (a neighbouring block is missing): the cell is triangulated from stale or default entries instead of being skipped")
			}
		}
	}
	for _, arr := range []*slotArr{s.D, s.I} {
		for _, st := range arr.Stores {
			if st.K >= 0 || seen[st.Idx] {
				continue
			}
			seen[st.Idx] = true
			lo, hi, ok := s.m.indexRange(st.Idx)
			switch {
			case !ok:
				s.undecide("XB-4", "perCornerLoop", st.Store.Pos(), "the range of the per-corner loop index was not recognised")
			case lo != 0 || hi != 8:
				s.violate("XB-4", "perCornerLoop", st.Store.Pos(), fmt.Sprintf("the per-corner loop runs over [%d,%d), not over the eight corners", lo, hi))
			default:
				s.hold("XB-4", "perCornerLoop", st.Store.Pos(), "per-corner loop index ranges over [0,8)")
			}
		}
	}
}

// blockOffset: XB-5 — the loop-invariant vector added to every vertex is blockPosition·S per axis.
func (x *xb) blockOffset() {
	s := x.s
	if len(s.ksOffset) == 0 {
		s.violate("XB-5", "blockOffset", s.emitPos, "emitted vertices are not shifted by the block's origin: every block would be drawn at the canvas origin")
		return
	}
	if len(s.ksOffset) != 1 {
		s.undecide("XB-5", "blockOffset", s.emitPos, "several loop-invariant vectors are added to the emitted vertex")
		return
	}
	e := s.root()
	d := s.evalVec(e, s.ksOffset[0])
	pos := s.ksOffset[0].Pos()
	if !d.comps {
		s.undecide("XB-5", "blockOffset", pos, "the block offset is not built by vector3.New from three scalars")
		return
	}
	var fields [3]int
	ok := false
	if x.B != nil {
		fields, ok = vectorIntFields(x.B.Elem)
	}
	if !ok && x.bp != nil {
		fields, ok = vectorIntFields(x.bp.Type())
	}
	if !ok {
		s.undecide("XB-5", "blockOffset", pos, "block position type not recognised")
		return
	}
	for a := 0; a < 3; a++ {
		cm := d.comp[a]
		sub := fmt.Sprintf("blockOffset%c", "XYZ"[a])
		p, isP := cm.Base.V.(*ssa.Parameter)
		switch {
		case !isP || cm.Base.F < 0 || (x.bp != nil && x.bp != ssa.Value(p)):
			s.undecide("XB-5", sub, pos, "block offset component is not a multiple of a blockPosition component: "+cm.String())
		case cm.Base.F != fields[a]:
			s.violate("AXIS-1", sub, pos, fmt.Sprintf("component %c of the block offset is built from blockPosition.%c", "XYZ"[a], "XYZ"[axisOfField(fields, cm.Base.F)]))
		case cm.Off != 0 || cm.Coef != x.bounds[a]:
			s.violate("XB-5", sub, pos, fmt.Sprintf("block offset on axis %c is %s but a block spans %d cells on that axis", "XYZ"[a], cm, x.bounds[a]))
		default:
			s.hold("XB-5", sub, pos, fmt.Sprintf("offset.%c = blockPosition.%c·%d", "XYZ"[a], "XYZ"[a], cm.Coef))
		}
	}
}

var _ = props.Get

// nbAlt: one alternative value of a neighbour-block component, the block whose guard decides it, and the
// evaluator (an entered helper, or the site) in which value and guard are read.
type nbAlt struct {
	val        ssa.Value
	guardBlock *ssa.BasicBlock
	ev         *evaluator
}

// alternatives: a two-way phi, or a call of an in-package helper that returns one of two values.
func (x *xb) alternatives(v ssa.Value) ([]nbAlt, ssa.Value) {
	root := x.s.root()
	switch t := v.(type) {
	case *ssa.Phi:
		var out []nbAlt
		for i, ed := range t.Edges {
			out = append(out, nbAlt{ed, t.Block().Preds[i], root})
		}
		return out, t
	case *ssa.Call:
		callee := t.Call.StaticCallee()
		if callee == nil || callee.Blocks == nil || callee.Pkg != x.s.fn.Pkg {
			return nil, v
		}
		ev := root.enter(t)
		if ret := singleReturn(callee); ret != nil && len(ret.Results) == 1 {
			if phi, ok := ret.Results[0].(*ssa.Phi); ok {
				var out []nbAlt
				for i, ed := range phi.Edges {
					out = append(out, nbAlt{ed, phi.Block().Preds[i], ev})
				}
				return out, t
			}
			return nil, v
		}
		var out []nbAlt
		for _, b := range callee.Blocks {
			for _, in := range b.Instrs {
				if r, ok := in.(*ssa.Return); ok && len(r.Results) == 1 {
					out = append(out, nbAlt{r.Results[0], b, ev})
				}
			}
		}
		return out, t
	}
	return nil, v
}

// canonParam: the parameter of the analysed site a helper's parameter is bound to (p itself outside helpers).
func canonParam(e *evaluator, p *ssa.Parameter) *ssa.Parameter {
	if e == nil {
		return p
	}
	v, _ := e.canon(p)
	if q, ok := structSource(v).(*ssa.Parameter); ok {
		return q
	}
	if u, ok := v.(*ssa.UnOp); ok && u.Op == token.MUL {
		if al, ok := u.X.(*ssa.Alloc); ok {
			if q := paramOfSpill(al); q != nil {
				return q
			}
		}
	}
	return p
}
