// Package c10: parallel variants equal their sequential counterparts on every schedule
// (DESIGN.md §4 C10: SYM-PART, SHAPE-2, CONC-1/2/3, SEQ-1..3, JOB-1, AXIS-1).
package c10

import (
	"fmt"
	"go/types"
	"math/big"
	"os"
	"sort"
	"strings"

	"golang.org/x/tools/go/ssa"

	"polycheck/load"
	"polycheck/ob"
	"polycheck/props"
	"polycheck/ssau"
)

func init() {
	props.Register(&props.Prop{
		ID: "C10",
		Explanation: "Decided on source for modeling/mesh.go and modeling/marching/canvas.go. mesh.go (every Mesh method that spawns goroutines): " +
			"SYM-PART — the index ranges executed by the workers, taken from the loop inside the spawned code (following the call that forwards " +
			"the callback), telescope to [0,total) as polynomial identities in (i, workers, total): lo(0)=0, hi(i)=lo(i+1), hi(last)=total with " +
			"total taken from the sequential counterpart, chunk width ⌊total/workers⌋; SHAPE-2 — callback gets (i, element i) and the result is " +
			"stored at dst[i], same element source as the sequential method; CONC-2 — Add dominates go, worker defers Done, Wait dominates every " +
			"return and every use of the result array; CONC-3 — workers write only worker-local memory or dst[own i]; SEQ-1 — workers==1 and the " +
			"Parallel() wrappers delegate with the same arguments, same result constructor. canvas.go: CONC-1 lockset over worker + coordinator " +
			"code of AddFieldParallel / AddFieldParallel2 / marchFloat1Parallel; JOB-1 symbolic job/result counts, close after last send; SEQ-2/3 " +
			"dependency-shape agreement with AddField / marchFloat1 through the job channel; AXIS-1 component order of sample positions. " +
			"Not decided: float accumulation order, races inside the user callback, the Go memory model beyond mutex/channel/WaitGroup.",
		Assumptions: []string{
			"element counts and pool sizes are non-negative and do not overflow int; float64(total)/float64(size) is exact enough that int(math.Floor(·)) = ⌊total/size⌋",
			"the user callback is race-free (as the property states)",
		},
		Controls: controls,
		Run:      run,
	})
}

func newRat(n int64) *big.Rat { return big.NewRat(n, 1) }

type checker struct {
	c *props.Ctx
}

func (k *checker) inModule(fn *ssa.Function) bool {
	for f := fn; f != nil; f = f.Parent() {
		var pk *types.Package
		if f.Pkg != nil {
			pk = f.Pkg.Pkg
		} else if o := f.Object(); o != nil {
			pk = o.Pkg()
		} else if f.Origin() != nil && f.Origin().Pkg != nil {
			pk = f.Origin().Pkg.Pkg
		}
		if pk != nil {
			return pk.Path() == load.Module || strings.HasPrefix(pk.Path(), load.Module+"/")
		}
	}
	return false
}

func (k *checker) repoSink() sink {
	r := k.c.R
	return sink{hold: r.Hold, violate: r.Violate, undecide: func(rule, c, pos, msg string) { r.Undecide(rule, c, pos, msg) }}
}

func run(c *props.Ctx) {
	k := &checker{c: c}
	k.meshRules()
	k.canvasRules()
	if os.Getenv("POLYCHECK_DUMP") != "" {
		for _, o := range c.R.Obs {
			fmt.Printf("OB %s %s %s %s %s %v\n", o.Verdict, o.Rule, o.Construct, o.Pos, o.Msg, o.Facts)
		}
	}
}

func hasGo(fn *ssa.Function) bool {
	found := false
	ssau.AllInstrs(fn, func(in ssa.Instruction) {
		if _, ok := in.(*ssa.Go); ok {
			found = true
		}
	})
	return found
}

func (k *checker) meshRules() {
	c := k.c
	p := c.P
	sp := p.SSAPkg("modeling")
	if sp == nil {
		c.R.Failf("anchor package modeling not found")
		return
	}
	meshObj := sp.Pkg.Scope().Lookup("Mesh")
	if meshObj == nil {
		c.R.Failf("anchor type modeling.Mesh not found")
		return
	}
	var pools, ctl []*ssa.Function
	byName := map[string]*ssa.Function{}
	for _, fn := range p.FuncsOf(sp) {
		if fn.Parent() != nil || fn.Signature.Recv() == nil {
			if p.IsControl(fn.Pos()) && fn.Parent() == nil && hasGo(fn) {
				ctl = append(ctl, fn)
			}
			continue
		}
		if n := ssau.NamedOf(fn.Signature.Recv().Type()); n == nil || n.Obj() != meshObj {
			continue
		}
		if p.IsControl(fn.Pos()) {
			if hasGo(fn) {
				ctl = append(ctl, fn)
			}
			continue
		}
		byName[fn.Name()] = fn
		if hasGo(fn) {
			pools = append(pools, fn)
		}
	}
	out := k.repoSink()
	wrappers := 0
	for _, fn := range pools {
		k.analysePool(fn, out)
		// Parallel() wrapper: same name without "WithPoolSize"
		wn := strings.TrimSuffix(fn.Name(), "WithPoolSize")
		if w := byName[wn]; w != nil && w != fn {
			sizeIdx := -1
			// the pool-size parameter = the spawn loop bound
			pa := &poolAnalysis{k: k, fn: fn}
			sizeIdx = pa.sizeParamIndex()
			if sizeIdx < 0 {
				c.R.Undecide("SEQ-1", p.FuncName(w)+":wrapper", p.Pos(w.Pos()), "pool-size parameter of "+fn.Name()+" not identified (spawn loop not recognised)")
			} else {
				k.wrapper(w, fn, sizeIdx, out)
			}
			wrappers++
		} else {
			c.R.Undecide("SEQ-1", p.FuncName(fn)+":wrapper", p.Pos(fn.Pos()), "no "+wn+"() wrapper found for the pool-size method")
		}
	}
	c.R.Extra["mesh_pool_methods"] = len(pools)
	c.R.Extra["mesh_parallel_wrappers"] = wrappers
	c.R.Floor("SYM-PART", 18)
	c.R.Floor("SHAPE-2", 7)
	c.R.Floor("CONC-2", 6)
	c.R.Floor("CONC-3", 6)
	c.R.Floor("CONC-7", 6)
	c.R.Floor("SEQ-1", 16)

	// controls
	if len(p.Controls) > 0 {
		sort.Slice(ctl, func(i, j int) bool { return ctl[i].Name() < ctl[j].Name() })
		for _, fn := range ctl {
			fired := map[string]bool{}
			s := sink{
				hold:     func(rule, construct, pos string, facts ...string) {},
				violate:  func(rule, construct, pos, msg string, facts ...string) { fired[rule] = true },
				undecide: func(rule, construct, pos, msg string) { fired[rule+"?"] = true },
			}
			k.analysePool(fn, s)
			want := ob.Holds
			rule := "SYM-PART"
			for _, r := range []string{"SYM-PART", "SHAPE-2", "CONC-2", "CONC-3"} {
				if strings.Contains(fn.Name(), strings.ReplaceAll(r, "-", "")) {
					rule = r
				}
			}
			got := ob.Holds
			if strings.Contains(fn.Name(), "Bad") {
				want = ob.Violation
				if fired[rule] {
					got = ob.Violation
				}
			} else {
				for r := range fired {
					if !strings.HasPrefix(r, "SEQ-1") {
						got = ob.Violation
					}
				}
			}
			c.R.Control(rule, "control:"+fn.Name(), "modeling/zz_verif_control_c10.go", got, want, "control pool function analysed with the mesh.go rules")
		}
	}
}

// sizeParamIndex finds the index (receiver included) of the parameter bounding the spawn loop.
func (pa *poolAnalysis) sizeParamIndex() int {
	fn := pa.fn
	var g *ssa.Go
	ssau.AllInstrs(fn, func(in ssa.Instruction) {
		if x, ok := in.(*ssa.Go); ok {
			g = x
		}
	})
	if g == nil {
		return -1
	}
	l := ssau.InnermostLoop(ssau.Loops(fn), g.Block())
	if l == nil {
		return -1
	}
	cl, _ := recogniseLoop(l)
	if cl == nil {
		return -1
	}
	ev := newEvaluator()
	r, _ := ev.root(fn).resolve(cl.hi)
	if _, ok := r.(*ssa.Parameter); !ok {
		if pb := paramBehind(cl.hi); pb != nil {
			r = pb
		}
	}
	for i, prm := range fn.Params {
		if ssa.Value(prm) == r {
			return i
		}
	}
	return -1
}
