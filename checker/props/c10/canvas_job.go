package c10

import (
	"fmt"
	"go/token"
	"go/types"
	"strings"

	"golang.org/x/tools/go/ssa"

	"polycheck/ssau"
)

// ---------------------------------------------------------------------------
// JOB-1: every job sent is received and its result consumed before return.

type chanUse struct {
	e      *env
	in     ssa.Instruction
	worker bool
}

// rangeChanLoop: is l the lowering of `for x := range ch` (receive with ok in the header,
// exit on !ok)?  Returns the channel operand.
func rangeChanLoop(l *ssau.Loop) ssa.Value {
	h := l.Header
	if len(h.Instrs) == 0 {
		return nil
	}
	ifi, ok := h.Instrs[len(h.Instrs)-1].(*ssa.If)
	if !ok {
		return nil
	}
	ex, ok := ifi.Cond.(*ssa.Extract)
	if !ok || ex.Index != 1 {
		return nil
	}
	u, ok := ex.Tuple.(*ssa.UnOp)
	if !ok || u.Op != token.ARROW || !u.CommaOk || u.Block() != h {
		return nil
	}
	if !l.Blocks[h.Succs[0]] || l.Blocks[h.Succs[1]] {
		return nil
	}
	return u.X
}

// mapRangeLoop: is l a range over a map?  Returns the map operand.
func mapRangeLoop(l *ssau.Loop) ssa.Value {
	for _, in := range l.Header.Instrs {
		if nx, ok := in.(*ssa.Next); ok && !nx.IsString {
			if rg, ok := nx.Iter.(*ssa.Range); ok {
				return rg.X
			}
		}
	}
	return nil
}

// multiplicity: how many times `in` executes per activation of its function, as a
// polynomial; jobLoop reports that it sits inside a range-over-job-channel loop (that
// factor — the number of jobs, summed over all workers — is supplied by the caller).
func (r *region) multiplicity(e *env, in ssa.Instruction, jobChans map[*ssa.MakeChan]bool) (p Poly, jobLoop bool, why string) {
	p = pConst(1)
	for _, l := range r.ev.loops(in.Parent()) {
		if !l.Blocks[in.Block()] {
			continue
		}
		if ch := rangeChanLoop(l); ch != nil {
			if mk := e.chanOf(ch); mk != nil && jobChans[mk] {
				if jobLoop {
					return nil, false, "nested job loops"
				}
				jobLoop = true
				continue
			}
			return nil, false, "loop over a channel that is not a job channel"
		}
		if m := mapRangeLoop(l); m != nil {
			p = p.mul(pAtom("len(" + e.str(m) + ")"))
			continue
		}
		cl, w := recogniseLoop(l)
		if cl == nil {
			return nil, false, "loop not recognised: " + w
		}
		lo, hi := cl.bounds(e)
		lp, ok1 := lo.plain()
		hp, ok2 := hi.plain()
		if !ok1 || !ok2 {
			return nil, false, "loop bounds not expressible"
		}
		p = p.mul(hp.sub(lp))
	}
	return p, jobLoop, ""
}

func (r *region) job1() {
	p := r.k.c.P
	pos := p.Pos(r.entry.Pos())
	type uses struct {
		sends, recvs, closes []chanUse
	}
	by := map[*ssa.MakeChan]*uses{}
	for _, mk := range r.chans {
		by[mk] = &uses{}
	}
	collect := func(e *env, worker bool) {
		ssau.AllInstrs(e.fn, func(in ssa.Instruction) {
			switch x := in.(type) {
			case *ssa.Send:
				if mk := e.chanOf(x.Chan); mk != nil && by[mk] != nil {
					by[mk].sends = append(by[mk].sends, chanUse{e, in, worker})
				}
			case *ssa.UnOp:
				if x.Op == token.ARROW {
					if mk := e.chanOf(x.X); mk != nil && by[mk] != nil {
						by[mk].recvs = append(by[mk].recvs, chanUse{e, in, worker})
					}
				}
			case *ssa.Call:
				if ssau.Builtin(x) == "close" {
					if mk := e.chanOf(x.Call.Args[0]); mk != nil && by[mk] != nil {
						by[mk].closes = append(by[mk].closes, chanUse{e, in, worker})
					}
				}
			}
		})
	}
	collect(r.root, false)
	for _, we := range r.workers {
		collect(we, true)
	}
	jobChans, resChans := map[*ssa.MakeChan]bool{}, map[*ssa.MakeChan]bool{}
	for mk, u := range by {
		cs, wr, ws, cr := false, false, false, false
		for _, s := range u.sends {
			if s.worker {
				ws = true
			} else {
				cs = true
			}
		}
		for _, s := range u.recvs {
			if s.worker {
				wr = true
			} else {
				cr = true
			}
		}
		if cs && wr && !ws && !cr {
			jobChans[mk] = true
		}
		if ws && cr && !cs && !wr {
			resChans[mk] = true
		}
	}
	if len(jobChans) == 0 || len(resChans) == 0 {
		r.out.undecide("JOB-1", r.name, pos, "no job channel (coordinator → workers) / result channel (workers → coordinator) pair recognised")
		return
	}
	// number of workers
	workers := Poly{}
	for _, g := range r.gos {
		m, _, why := r.multiplicity(r.root, g, nil)
		if m == nil {
			r.out.undecide("JOB-1", r.name+":workers", p.Pos(ssau.PosOf(g)), "number of spawned workers not expressible: "+why)
			return
		}
		workers = workers.add(m)
	}
	sortedChans := func(m map[*ssa.MakeChan]bool) []*ssa.MakeChan {
		var out []*ssa.MakeChan
		for _, mk := range r.chans {
			if m[mk] {
				out = append(out, mk)
			}
		}
		return out
	}
	totalJobs := Poly{}
	capOK := false
	var capFacts []string
	for _, mk := range sortedChans(jobChans) {
		u := by[mk]
		cname := r.name + ":jobs"
		// sent
		sent := Poly{}
		okCount := true
		for _, s := range u.sends {
			m, _, why := r.multiplicity(s.e, s.in, nil)
			if m == nil {
				r.out.undecide("JOB-1", cname+"-count", p.Pos(ssau.PosOf(s.in)), "number of jobs sent not expressible: "+why)
				okCount = false
				continue
			}
			sent = sent.add(m)
		}
		if okCount {
			totalJobs = totalJobs.add(sent)
		}
		// closed after the last send, before the drain
		var problems, facts []string
		if len(u.closes) == 0 {
			problems = append(problems, "the job channel is never closed: workers ranging over it never finish")
		}
		for _, c := range u.closes {
			if c.worker {
				problems = append(problems, "a worker closes the job channel")
				continue
			}
			for _, s := range u.sends {
				if ssau.CanFollow(c.in, s.in) {
					problems = append(problems, "job sent at "+p.Pos(ssau.PosOf(s.in))+" can follow close() at "+p.Pos(ssau.PosOf(c.in)))
				}
			}
			for _, rb := range r.entry.Blocks {
				if len(rb.Instrs) == 0 {
					continue
				}
				if ret, ok := rb.Instrs[len(rb.Instrs)-1].(*ssa.Return); ok && r.afterSpawn(ret) && !ssau.Before(c.in, ret) {
					problems = append(problems, "return at "+p.Pos(ssau.PosOf(ret))+" reachable from the spawn without close()")
				}
			}
			facts = append(facts, "close() after the last send, on every path to return")
		}
		// consumed until closed
		for _, rc := range u.recvs {
			l := ssau.InnermostLoop(r.ev.loops(rc.in.Parent()), rc.in.Block())
			if l == nil || rangeChanLoop(l) == nil || rc.e.chanOf(rangeChanLoop(l)) != mk {
				problems = append(problems, "worker receive at "+p.Pos(ssau.PosOf(rc.in))+" is not a `for … range jobs` loop (jobs may be left unconsumed)")
			}
		}
		if len(problems) == 0 {
			facts = append(facts, "workers range over the job channel until it is closed", "jobs sent = "+sent.String())
		}
		if len(problems) > 0 {
			problems = dedupSorted(problems)
			r.out.violate("JOB-1", cname, p.Pos(ssau.PosOf(mk)), problems[0], append(problems[1:], facts...)...)
		} else {
			r.out.hold("JOB-1", cname, p.Pos(ssau.PosOf(mk)), facts...)
		}
		if okCount {
			if c, ok := r.root.eval(mk.Size).plain(); ok {
				capFacts = append(capFacts, "cap(jobs) = "+c.String()+", jobs sent = "+sent.String())
				if c.equal(sent) {
					capOK = true
				}
			}
		}
	}
	for _, mk := range sortedChans(resChans) {
		u := by[mk]
		cname := r.name + ":results"
		produced := Poly{}
		ok := true
		for _, s := range u.sends {
			m, inJob, why := r.multiplicity(s.e, s.in, jobChans)
			if m == nil {
				r.out.undecide("JOB-1", cname, p.Pos(ssau.PosOf(s.in)), "number of results produced not expressible: "+why)
				ok = false
				continue
			}
			if inJob {
				produced = produced.add(m.mul(totalJobs))
			} else {
				produced = produced.add(m.mul(workers))
			}
		}
		drained := Poly{}
		var problems []string
		for _, rc := range u.recvs {
			m, _, why := r.multiplicity(rc.e, rc.in, nil)
			if m == nil {
				r.out.undecide("JOB-1", cname, p.Pos(ssau.PosOf(rc.in)), "number of results drained not expressible: "+why)
				ok = false
				continue
			}
			drained = drained.add(m)
			// drained before return
			for _, rb := range r.entry.Blocks {
				if len(rb.Instrs) == 0 {
					continue
				}
				if ret, isRet := rb.Instrs[len(rb.Instrs)-1].(*ssa.Return); isRet && r.afterSpawn(ret) {
					l := ssau.InnermostLoop(r.ev.loops(r.entry), rc.in.Block())
					if l != nil && (l.Blocks[ret.Block()] || !l.Header.Dominates(ret.Block())) {
						problems = append(problems, "return at "+p.Pos(ssau.PosOf(ret))+" does not wait for the drain loop")
					}
				}
			}
		}
		if !ok {
			continue
		}
		facts := []string{"results produced = " + produced.String(), "results drained = " + drained.String(), "workers = " + workers.String()}
		if !produced.equal(drained) {
			problems = append(problems, "workers produce "+produced.String()+" results but the coordinator drains "+drained.String()+
				": for counts that differ results are lost (or the coordinator blocks for ever)")
		}
		if len(problems) > 0 {
			problems = dedupSorted(problems)
			r.out.violate("JOB-1", cname, p.Pos(ssau.PosOf(mk)), problems[0], append(problems[1:], facts...)...)
		} else {
			r.out.hold("JOB-1", cname, p.Pos(ssau.PosOf(mk)), facts...)
		}
		if c, okc := r.root.eval(mk.Size).plain(); okc {
			capFacts = append(capFacts, "cap(results) = "+c.String()+", results produced = "+produced.String())
			if c.equal(produced) {
				capOK = true
			}
		}
	}
	// no mutual blocking: one of the two buffers holds everything
	if capOK {
		r.out.hold("JOB-1", r.name+":capacity", pos, append([]string{"one buffer holds its whole traffic, so coordinator and workers cannot block each other"}, capFacts...)...)
	} else {
		r.out.violate("JOB-1", r.name+":capacity", pos,
			"neither the job buffer holds every job nor the result buffer every result: the coordinator (sending before it drains) and the workers (blocked on results) can deadlock for large inputs",
			capFacts...)
	}
}

// ---------------------------------------------------------------------------
// SEQ-1 (shortcut), SEQ-2 (same job operands), SEQ-3 (same merge)

func (r *region) seq() {
	p := r.k.c.P
	pos := p.Pos(r.entry.Pos())
	seqName, ok := canvasSeq[r.entry.Name()]
	if !ok {
		r.out.undecide("SEQ-2", r.name, pos, "parallel region without an entry in the sequential-counterpart table")
		return
	}
	var seqFn *ssa.Function
	for _, fn := range p.FuncsOf(r.entry.Pkg) {
		if fn.Name() == seqName && fn.Parent() == nil && sameRecvBase(fn, r.entry) {
			seqFn = fn
		}
	}
	if seqFn == nil || len(seqFn.Params) != len(r.entry.Params) {
		r.k.c.R.Failf("anchor sequential counterpart %s of %s not found with the same parameters", seqName, r.name)
		return
	}
	// SEQ-1: a workers==1 shortcut, when present, delegates with the own arguments
	ssau.AllInstrs(r.entry, func(in ssa.Instruction) {
		c, ok := in.(*ssa.Call)
		if !ok || c.Common().StaticCallee() != seqFn {
			return
		}
		var problems []string
		for i, a := range c.Call.Args {
			if rv, _ := r.root.resolve(a); rv != ssa.Value(r.entry.Params[i]) {
				// value receivers are passed as a load of the spilled parameter
				if r.root.str(a) != r.root.str(r.entry.Params[i]) {
					problems = append(problems, fmt.Sprintf("argument %d is %s, not own parameter %s", i, r.root.str(a), r.entry.Params[i].Name()))
				}
			}
		}
		if len(problems) > 0 {
			r.out.violate("SEQ-1", r.name+":shortcut", p.Pos(ssau.PosOf(in)), problems[0], problems[1:]...)
		} else {
			r.out.hold("SEQ-1", r.name+":shortcut", p.Pos(ssau.PosOf(in)), "single-worker shortcut calls "+p.FuncName(seqFn)+" with the own arguments")
		}
	})
	var params []ssa.Value
	for _, prm := range r.entry.Params {
		params = append(params, prm)
	}
	se := r.root.callEnv(seqFn, params)

	// calls of package functions in worker code and in the sequential counterpart
	type pcall struct {
		e    *env
		call *ssa.Call
		d    int
	}
	calls := func(e *env) []pcall {
		var out []pcall
		loops := r.ev.loops(e.fn)
		ssau.AllInstrs(e.fn, func(in ssa.Instruction) {
			c, ok := in.(*ssa.Call)
			if !ok {
				return
			}
			callee := c.Common().StaticCallee()
			if callee == nil || pkgOf(callee) != r.entry.Pkg.Pkg || len(callee.Blocks) == 0 || callee.Parent() != nil {
				return
			}
			d := 0
			for _, l := range loops {
				if l.Blocks[in.Block()] {
					d++
				}
			}
			out = append(out, pcall{e, c, d})
		})
		return out
	}
	seqCalls := calls(se)
	var workerCalls []pcall
	for _, we := range r.workers {
		workerCalls = append(workerCalls, calls(we)...)
	}
	matched := false
	for _, wc := range workerCalls {
		for _, sc := range seqCalls {
			if sc.call.Common().StaticCallee() != wc.call.Common().StaticCallee() {
				continue
			}
			matched = true
			callee := wc.call.Common().StaticCallee()
			construct := r.name + "→" + callee.Name()
			var problems, facts []string
			for i := range wc.call.Call.Args {
				if i >= len(sc.call.Call.Args) {
					break
				}
				ws, ss := wc.e.str(wc.call.Call.Args[i]), sc.e.str(sc.call.Call.Args[i])
				pn := fmt.Sprintf("#%d", i)
				if i < len(callee.Params) {
					pn = callee.Params[i].Name()
				}
				if ws != ss {
					problems = append(problems, "argument "+pn+" of "+callee.Name()+" is built differently: parallel "+abbreviate(ws)+" vs sequential "+abbreviate(ss))
				} else {
					facts = append(facts, pn+" = "+abbreviate(ws))
				}
			}
			// the per-item call must run for every job the worker receives
			if l := ssau.InnermostLoop(r.ev.loops(wc.call.Parent()), wc.call.Block()); l != nil && rangeChanLoop(l) != nil {
				for _, latch := range l.Latch {
					if !wc.call.Block().Dominates(latch) {
						problems = append(problems, callee.Name()+" is not executed for every received job (a path through the job loop skips it)")
					}
				}
				facts = append(facts, "executed once for every received job")
			} else {
				problems = append(problems, callee.Name()+" is not called directly in the worker's `range jobs` loop")
			}
			rule := "SEQ-2"
			if r.isMerge() {
				rule = "SEQ-3"
			}
			if len(problems) > 0 {
				r.out.violate(rule, construct, p.Pos(ssau.PosOf(wc.call)), problems[0], append(problems[1:], facts...)...)
			} else {
				r.out.hold(rule, construct, p.Pos(ssau.PosOf(wc.call)), facts...)
			}
		}
	}
	if !matched {
		// no common per-item function: compare the job message with the operands of the
		// sequential per-item call (the call nested deepest in the sequential loops)
		var deepest *pcall
		for i := range seqCalls {
			if deepest == nil || seqCalls[i].d > deepest.d ||
				(seqCalls[i].d == deepest.d && len(seqCalls[i].call.Call.Args) > len(deepest.call.Call.Args)) {
				deepest = &seqCalls[i]
			}
		}
		construct := r.name + ":job-operands"
		if deepest == nil {
			r.out.undecide("SEQ-2", construct, pos, "sequential counterpart has no per-item call to compare with")
		} else {
			want := map[string]string{}
			callee := deepest.call.Common().StaticCallee()
			for i, a := range deepest.call.Call.Args {
				if i == 0 && callee.Signature.Recv() != nil {
					continue
				}
				want[deepest.e.str(a)] = callee.Params[i].Name()
			}
			got := map[string]string{}
			for mk, sends := range r.ev.chans.sends {
				_ = mk
				for _, s := range sends {
					if s.e != r.root {
						continue
					}
					for name, str := range r.messageFields(s) {
						got[str] = name
					}
				}
			}
			var problems, facts []string
			for str, name := range got {
				if _, ok := want[str]; !ok {
					problems = append(problems, "job field "+name+" = "+abbreviate(str)+" is not an operand of the sequential "+callee.Name()+" call")
				} else {
					facts = append(facts, "job."+name+" = sequential "+want[str])
				}
			}
			for str, name := range want {
				if _, ok := got[str]; !ok {
					problems = append(problems, "operand "+name+" = "+abbreviate(str)+" of the sequential "+callee.Name()+" call is not carried by the job")
				}
			}
			problems, facts = dedupSorted(problems), dedupSorted(facts)
			if len(problems) > 0 {
				r.out.violate("SEQ-2", construct, pos, problems[0], append(problems[1:], facts...)...)
			} else {
				r.out.hold("SEQ-2", construct, pos, facts...)
			}
		}
	}

	// SEQ-3: same merge (return value built by the same fold)
	if r.isMerge() {
		ret := func(e *env, skipCall *ssa.Function) []string {
			var out []string
			for _, b := range e.fn.Blocks {
				if len(b.Instrs) == 0 || b == e.fn.Recover {
					continue
				}
				rt, ok := b.Instrs[len(b.Instrs)-1].(*ssa.Return)
				if !ok || len(rt.Results) != 1 {
					continue
				}
				if c, ok := rt.Results[0].(*ssa.Call); ok && skipCall != nil && c.Common().StaticCallee() == skipCall {
					continue
				}
				out = append(out, e.str(rt.Results[0]))
			}
			return dedupSorted(out)
		}
		par, sq := ret(r.root, seqFn), ret(se, nil)
		construct := r.name + ":merge"
		if len(par) > 0 && strings.Join(par, " | ") == strings.Join(sq, " | ") {
			r.out.hold("SEQ-3", construct, pos, "both return "+abbreviate(par[0]))
		} else {
			r.out.violate("SEQ-3", construct, pos, "per-block results are merged differently: parallel "+abbreviate(strings.Join(par, " | "))+" vs sequential "+abbreviate(strings.Join(sq, " | ")))
		}
	}
}

// isMerge: does the region return a value (so that the way results are merged matters)?
func (r *region) isMerge() bool { return r.entry.Signature.Results().Len() > 0 }

func sameRecvBase(a, b *ssa.Function) bool {
	ra, rb := a.Signature.Recv(), b.Signature.Recv()
	if ra == nil || rb == nil {
		return ra == rb
	}
	return ssau.NamedOf(ra.Type()) == ssau.NamedOf(rb.Type())
}

// messageFields renders the fields set in the message sent at s.
func (r *region) messageFields(s sendSite) map[string]string {
	out := map[string]string{}
	t := s.send.X.Type()
	ptr := false
	if pt, ok := t.Underlying().(*types.Pointer); ok {
		t, ptr = pt.Elem(), true
	}
	st, ok := t.Underlying().(*types.Struct)
	if !ok {
		out["(message)"] = s.e.str(s.send.X)
		return out
	}
	for k := 0; k < st.NumFields(); k++ {
		var v ssa.Value
		var ve *env
		if ptr {
			v, ve = s.e.ptrField(s.send.X, k, 0)
		} else {
			v, ve = s.e.valueField(s.send.X, k, 0)
		}
		if v != nil {
			out[st.Field(k).Name()] = ve.str(v)
		}
	}
	return out
}

func abbreviate(s string) string {
	s = strings.ReplaceAll(s, "github.com/EliCDavis/polyform/", "")
	if len(s) > 300 {
		return s[:300] + "…"
	}
	return s
}

// ---------------------------------------------------------------------------
// AXIS-1 in canvas.go: a slot for axis a must not receive a value derived from another axis only.

type axisSet uint8

const (
	axX axisSet = 1 << iota
	axY
	axZ
)

func (s axisSet) String() string {
	var parts []string
	for i, n := range []string{"X", "Y", "Z"} {
		if s&(1<<uint(i)) != 0 {
			parts = append(parts, n)
		}
	}
	return "{" + strings.Join(parts, ",") + "}"
}

func axisOfName(n string) axisSet {
	switch n {
	case "X":
		return axX
	case "Y":
		return axY
	case "Z":
		return axZ
	}
	return 0
}

func isVectorInt(t types.Type) bool {
	return ssau.IsNamed(t, "github.com/EliCDavis/polyform/modeling", "VectorInt")
}

func isVector3(t types.Type) bool {
	n := ssau.NamedOf(t)
	return n != nil && n.Obj().Pkg() != nil && n.Obj().Pkg().Path() == "github.com/EliCDavis/vector/vector3" && n.Obj().Name() == "Vector"
}

type axisFlow struct {
	memo map[ssa.Value]axisSet
	busy map[ssa.Value]bool
}

func (af *axisFlow) tags(v ssa.Value) axisSet {
	if t, ok := af.memo[v]; ok {
		return t
	}
	if af.busy[v] {
		return 0
	}
	af.busy[v] = true
	defer delete(af.busy, v)
	var t axisSet
	switch x := v.(type) {
	case *ssa.UnOp:
		if x.Op == token.MUL {
			switch a := x.X.(type) {
			case *ssa.FieldAddr:
				if isVectorInt(a.X.Type()) {
					t = axisOfName(fieldName(a.X.Type(), a.Field))
				}
			case *ssa.Alloc:
				for _, r := range ssau.Refs(a) {
					if st, ok := r.(*ssa.Store); ok && st.Addr == ssa.Value(a) {
						t |= af.tags(st.Val)
					}
				}
			}
		} else {
			t = af.tags(x.X)
		}
	case *ssa.Field:
		if isVectorInt(x.X.Type()) {
			t = axisOfName(fieldName(x.X.Type(), x.Field))
		}
	case *ssa.BinOp:
		switch x.Op {
		case token.ADD, token.SUB, token.MUL, token.QUO, token.REM:
			t = af.tags(x.X) | af.tags(x.Y)
		}
	case *ssa.Convert:
		t = af.tags(x.X)
	case *ssa.ChangeType:
		t = af.tags(x.X)
	case *ssa.Phi:
		for _, e := range x.Edges {
			t |= af.tags(e)
		}
	case *ssa.Call:
		if o := ssau.CalleeObj(x); o != nil {
			if n := ssau.RecvNamed(o); n != nil && isVector3(n) && len(x.Call.Args) == 1 {
				t = axisOfName(o.Name())
			} else if isNumeric(x.Type()) && !x.Call.IsInvoke() && (o.Pkg() != nil && (o.Pkg().Path() == "math" || x.Call.StaticCallee() != nil && len(x.Call.Args) <= 3)) {
				// pure numeric helpers (math.Floor, minInt, maxInt): the result carries its operands' axes
				allNum := true
				for _, a := range x.Call.Args {
					if !isNumeric(a.Type()) {
						allNum = false
					}
				}
				if allNum {
					for _, a := range x.Call.Args {
						t |= af.tags(a)
					}
				}
			}
		}
	}
	af.memo[v] = t
	return t
}

func (k *checker) axis1(sp *ssa.Package, out sink) {
	p := k.c.P
	af := &axisFlow{memo: map[ssa.Value]axisSet{}, busy: map[ssa.Value]bool{}}
	want := []axisSet{axX, axY, axZ}
	seen := map[string]int{}
	samples := 0
	for _, fn := range p.FuncsOf(sp) {
		if !strings.HasSuffix(p.RelFile(fn.Pos()), "modeling/marching/canvas.go") {
			continue
		}
		name := p.FuncName(fn)
		type slot struct {
			v    ssa.Value
			want axisSet
			what string
			at   ssa.Instruction
		}
		var slots []slot
		ssau.AllInstrs(fn, func(in ssa.Instruction) {
			switch x := in.(type) {
			case *ssa.Call:
				o := ssau.CalleeObj(x)
				if o == nil {
					return
				}
				if o.Pkg() != nil && o.Pkg().Path() == "github.com/EliCDavis/vector/vector3" && o.Name() == "New" && len(x.Call.Args) == 3 {
					what := "vector3.New"
					if feedsFieldFunction(x) {
						what = "sample position handed to the field function: vector3.New"
						samples++
					}
					for i, a := range x.Call.Args {
						slots = append(slots, slot{a, want[i], what + " slot " + want[i].String(), in})
					}
				}
				if ssau.IsMethod(o, sp.Pkg.Path(), "MarchingCanvas", "index") && len(x.Call.Args) == 4 {
					for i, a := range x.Call.Args[1:] {
						slots = append(slots, slot{a, want[i], "MarchingCanvas.index argument " + want[i].String(), in})
					}
				}
			case *ssa.Store:
				if fa, ok := x.Addr.(*ssa.FieldAddr); ok && isVectorInt(fa.X.Type()) {
					if ax := axisOfName(fieldName(fa.X.Type(), fa.Field)); ax != 0 {
						slots = append(slots, slot{x.Val, ax, "VectorInt field " + ax.String(), in})
					}
				}
			}
		})
		// AXIS-2: both operands of a comparison carry the same single axis
		ncmp := 0
		ssau.AllInstrs(fn, func(in ssa.Instruction) {
			b, ok := in.(*ssa.BinOp)
			if !ok {
				return
			}
			switch b.Op {
			case token.LSS, token.LEQ, token.GTR, token.GEQ, token.EQL, token.NEQ:
			default:
				return
			}
			tx, ty := af.tags(b.X), af.tags(b.Y)
			single := func(t axisSet) bool { return t == axX || t == axY || t == axZ }
			if !single(tx) || !single(ty) {
				return
			}
			ncmp++
			construct := fmt.Sprintf("%s→compare#%d", name, ncmp)
			if tx != ty {
				out.violate("AXIS-2", construct, p.Pos(ssau.PosOf(in)), "comparison mixes axes: left operand derives from "+tx.String()+", right operand from "+ty.String())
			} else {
				out.hold("AXIS-2", construct, p.Pos(ssau.PosOf(in)), "both operands derive from "+tx.String())
			}
		})
		// one obligation per (function, sink kind, call) — keyed by ordinal of the sink kind in the function
		type ob struct {
			bad, ok []string
			pos     string
		}
		bySink := map[ssa.Instruction]*ob{}
		var order []ssa.Instruction
		kind := map[ssa.Instruction]string{}
		for _, s := range slots {
			o := bySink[s.at]
			if o == nil {
				o = &ob{pos: p.Pos(ssau.PosOf(s.at))}
				bySink[s.at] = o
				order = append(order, s.at)
				kind[s.at] = strings.SplitN(s.what, " slot ", 2)[0]
				kind[s.at] = strings.SplitN(kind[s.at], " argument ", 2)[0]
				kind[s.at] = strings.SplitN(kind[s.at], " field ", 2)[0]
			}
			t := af.tags(s.v)
			if t != 0 && t&s.want == 0 {
				o.bad = append(o.bad, s.what+" receives a value derived from axis "+t.String())
			} else if t != 0 {
				o.ok = append(o.ok, s.what+" ← "+t.String())
			}
		}
		for _, at := range order {
			o := bySink[at]
			if len(o.bad) == 0 && len(o.ok) == 0 {
				continue // untagged operands: no obligation
			}
			kd := kind[at]
			if strings.HasPrefix(kd, "sample position") {
				kd = "field-sample"
			}
			base := name + "→" + kd
			seen[base]++
			construct := fmt.Sprintf("%s#%d", base, seen[base])
			if len(o.bad) > 0 {
				out.violate("AXIS-1", construct, o.pos, o.bad[0], append(o.bad[1:], o.ok...)...)
			} else {
				out.hold("AXIS-1", construct, o.pos, o.ok...)
			}
		}
	}
	k.c.R.Extra["axis_field_sample_sites"] = samples
	if samples < 2 {
		out.undecide("AXIS-1", marchingRel+":field-sample", "modeling/marching/canvas.go", fmt.Sprintf("only %d vector3.New sites feed a sample.Vec3ToFloat call (expected the sequential and the parallel sampler)", samples))
	}
}

// feedsFieldFunction: does the vector built by this call (possibly after component-wise
// methods) reach a dynamic call of a func(vector3) float64 value?
func feedsFieldFunction(c *ssa.Call) bool {
	seen := map[ssa.Value]bool{}
	var walk func(v ssa.Value, d int) bool
	walk = func(v ssa.Value, d int) bool {
		if seen[v] || d > 6 {
			return false
		}
		seen[v] = true
		for _, r := range ssau.Refs(v) {
			switch x := r.(type) {
			case *ssa.Call:
				cc := x.Common()
				if cc.StaticCallee() == nil && !cc.IsInvoke() && ssau.Builtin(x) == "" {
					for _, a := range cc.Args {
						if a == v {
							return true
						}
					}
				}
				if o := ssau.CalleeObj(x); o != nil && ssau.RecvNamed(o) != nil && isVector3(ssau.RecvNamed(o)) && isVector3(x.Type()) {
					if walk(x, d+1) {
						return true
					}
				}
			case *ssa.Store:
				if a, ok := x.Addr.(*ssa.Alloc); ok && x.Val == v {
					for _, rr := range ssau.Refs(a) {
						if u, ok := rr.(*ssa.UnOp); ok && walk(u, d+1) {
							return true
						}
					}
				}
			}
		}
		return false
	}
	return walk(c, 0)
}

// ---------------------------------------------------------------------------
// SEQ-4: the parallel sibling moves samples into the canvas blocks with the same operator as
// the sequential one. AddField accumulates (`block[i] += sample`): a sibling that overwrites
// (plain store, copy()) gives a different canvas as soon as the block already holds data.

type blockWrite struct {
	at         ssa.Instruction
	accumulate bool
	how        string
}

// isCanvasBlock: v is one block of a canvas data field: an element loaded from a slice-of-slices
// field of a struct of this package, or the result of an in-package call handed such a struct.
func (r *region) isCanvasBlock(v ssa.Value, depth int) bool {
	if depth > 6 {
		return false
	}
	switch x := v.(type) {
	case *ssa.Slice:
		return r.isCanvasBlock(x.X, depth+1)
	case *ssa.Phi:
		for _, e := range x.Edges {
			if r.isCanvasBlock(e, depth+1) {
				return true
			}
		}
	case *ssa.UnOp:
		if x.Op != token.MUL {
			return false
		}
		switch a := x.X.(type) {
		case *ssa.IndexAddr:
			if u, ok := a.X.(*ssa.UnOp); ok && u.Op == token.MUL {
				if fa, ok := u.X.(*ssa.FieldAddr); ok {
					if n := ssau.NamedOf(fa.X.Type()); n != nil && n.Obj().Pkg() == r.entry.Pkg.Pkg {
						if sl, ok := u.Type().Underlying().(*types.Slice); ok {
							_, inner := sl.Elem().Underlying().(*types.Slice)
							return inner
						}
					}
				}
			}
		case *ssa.Alloc:
			for _, ref := range ssau.Refs(a) {
				if st, ok := ref.(*ssa.Store); ok && st.Addr == ssa.Value(a) && r.isCanvasBlock(st.Val, depth+1) {
					return true
				}
			}
		}
	case *ssa.Call:
		callee := x.Call.StaticCallee()
		if callee == nil || pkgOf(callee) != r.entry.Pkg.Pkg {
			return false
		}
		if _, ok := x.Type().Underlying().(*types.Slice); !ok {
			return false
		}
		for _, a := range x.Call.Args {
			if n := ssau.NamedOf(a.Type()); n != nil && n.Obj().Pkg() == r.entry.Pkg.Pkg {
				if _, isPtr := a.Type().Underlying().(*types.Pointer); isPtr {
					return true
				}
			}
		}
	}
	return false
}

func (r *region) blockWrites(fns []*ssa.Function) []blockWrite {
	var out []blockWrite
	p := r.k.c.P
	for _, fn := range fns {
		ssau.AllInstrs(fn, func(in ssa.Instruction) {
			switch x := in.(type) {
			case *ssa.Store:
				ia, ok := x.Addr.(*ssa.IndexAddr)
				if !ok || !r.isCanvasBlock(ia.X, 0) {
					return
				}
				acc := false
				if b, ok := x.Val.(*ssa.BinOp); ok && b.Op == token.ADD {
					for _, o := range []ssa.Value{b.X, b.Y} {
						if u, ok := o.(*ssa.UnOp); ok && u.Op == token.MUL {
							if ia2, ok := u.X.(*ssa.IndexAddr); ok && ia2.X == ia.X && ia2.Index == ia.Index {
								acc = true
							}
						}
					}
				}
				how := "overwrites the cell (plain store) at " + p.Pos(ssau.PosOf(in))
				if acc {
					how = "accumulates (cell += value) at " + p.Pos(ssau.PosOf(in))
				}
				out = append(out, blockWrite{in, acc, how})
			case *ssa.Call:
				if ssau.Builtin(x) == "copy" && r.isCanvasBlock(x.Call.Args[0], 0) {
					out = append(out, blockWrite{in, false, "overwrites a run of cells with copy() at " + p.Pos(ssau.PosOf(in))})
				}
			}
		})
	}
	return out
}

// packageClosure: fns plus the in-package functions they reach through static calls and literals.
func (r *region) packageClosure(roots []*ssa.Function) []*ssa.Function {
	seen := map[*ssa.Function]bool{}
	var out []*ssa.Function
	var visit func(fn *ssa.Function, d int)
	visit = func(fn *ssa.Function, d int) {
		if fn == nil || seen[fn] || d > 5 || len(fn.Blocks) == 0 || pkgOf(fn) != r.entry.Pkg.Pkg {
			return
		}
		seen[fn] = true
		out = append(out, fn)
		for _, a := range fn.AnonFuncs {
			visit(a, d+1)
		}
		ssau.AllInstrs(fn, func(in ssa.Instruction) {
			if ci, ok := in.(ssa.CallInstruction); ok {
				visit(ci.Common().StaticCallee(), d+1)
			}
		})
	}
	for _, f := range roots {
		visit(f, 0)
	}
	return out
}

func (r *region) seq4() {
	p := r.k.c.P
	seqName, ok := canvasSeq[r.entry.Name()]
	if !ok {
		return
	}
	var seqFn *ssa.Function
	for _, fn := range p.FuncsOf(r.entry.Pkg) {
		if fn.Name() == seqName && fn.Parent() == nil && sameRecvBase(fn, r.entry) {
			seqFn = fn
		}
	}
	if seqFn == nil {
		return
	}
	seqW := r.blockWrites(r.packageClosure([]*ssa.Function{seqFn}))
	// the parallel sibling without its single-worker shortcut into the sequential function
	var parFns []*ssa.Function
	for _, fn := range r.packageClosure([]*ssa.Function{r.entry}) {
		parFns = append(parFns, fn)
	}
	parW := r.blockWrites(parFns)
	if len(seqW) == 0 && len(parW) == 0 {
		return
	}
	construct := r.name + ":accumulate"
	pos := p.Pos(r.entry.Pos())
	seqAcc, seqOver := false, false
	var facts []string
	for _, w := range seqW {
		if w.accumulate {
			seqAcc = true
		} else {
			seqOver = true
		}
		facts = append(facts, "sequential "+w.how)
	}
	var problems []string
	for _, w := range parW {
		if !w.accumulate && seqAcc && !seqOver {
			problems = append(problems, "the parallel variant "+w.how+" where the sequential counterpart accumulates: the results differ whenever the block already holds data")
		}
		if w.accumulate && seqOver && !seqAcc {
			problems = append(problems, "the parallel variant "+w.how+" where the sequential counterpart overwrites")
		}
		facts = append(facts, "parallel "+w.how)
	}
	if len(parW) == 0 {
		problems = append(problems, "the parallel variant never writes a canvas block although the sequential counterpart does")
	}
	facts = dedupSorted(facts)
	if len(problems) > 0 {
		problems = dedupSorted(problems)
		r.out.violate("SEQ-4", construct, pos, problems[0], append(problems[1:], facts...)...)
	} else {
		r.out.hold("SEQ-4", construct, pos, facts...)
	}
}
