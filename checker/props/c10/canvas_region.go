package c10

import (
	"fmt"
	"go/token"
	"go/types"
	"sort"
	"strings"

	"golang.org/x/tools/go/ssa"

	"polycheck/ob"
	"polycheck/props/c13/lockset"
	"polycheck/ssau"
)

// Parallel regions of modeling/marching/canvas.go: CONC-1, JOB-1, SEQ-1/2/3, AXIS-1.

const marchingRel = "modeling/marching"

// sequential counterparts (anchor table)
var canvasSeq = map[string]string{
	"AddFieldParallel":    "AddField",
	"AddFieldParallel2":   "AddField",
	"marchFloat1Parallel": "marchFloat1",
}

type region struct {
	k       *checker
	entry   *ssa.Function
	name    string
	ev      *evaluator
	root    *env
	gos     []*ssa.Go
	workers []*env
	chans   []*ssa.MakeChan
	out     sink
}

func (k *checker) canvasRules() {
	c := k.c
	p := c.P
	sp := p.SSAPkg(marchingRel)
	if sp == nil {
		c.R.Failf("anchor package %s not found", marchingRel)
		return
	}
	var entries, ctl []*ssa.Function
	for _, fn := range p.FuncsOf(sp) {
		if fn.Parent() != nil || !hasGo(fn) {
			continue
		}
		if p.IsControl(fn.Pos()) {
			ctl = append(ctl, fn)
			continue
		}
		entries = append(entries, fn)
	}
	seen := map[string]bool{}
	for _, fn := range entries {
		seen[fn.Name()] = true
	}
	var names []string
	for n := range canvasSeq {
		names = append(names, n)
	}
	sort.Strings(names)
	for _, n := range names {
		if !seen[n] {
			c.R.Failf("anchor parallel region %s.%s (a function spawning goroutines) not found", marchingRel, n)
		}
	}
	out := k.repoSink()
	for _, fn := range entries {
		r := k.newRegion(fn, out)
		if r == nil {
			continue
		}
		r.conc1()
		r.job1()
		r.seq()
		r.seq4()
	}
	k.axis1(sp, out)
	c.R.Extra["canvas_parallel_regions"] = len(entries)
	c.R.Floor("CONC-1", 4)
	c.R.Floor("JOB-1", 8)
	c.R.Floor("SEQ-2", 2)
	c.R.Floor("SEQ-3", 2)
	c.R.Floor("SEQ-4", 2)
	c.R.Floor("AXIS-1", 10)
	c.R.Floor("AXIS-2", 8)

	if len(p.Controls) > 0 {
		for _, fn := range ctl {
			fired := map[string]bool{}
			s := sink{
				hold:     func(rule, construct, pos string, facts ...string) {},
				violate:  func(rule, construct, pos, msg string, facts ...string) { fired[rule] = true },
				undecide: func(rule, construct, pos, msg string) { fired[rule] = true },
			}
			if r := k.newRegion(fn, s); r != nil {
				r.conc1()
				r.job1()
			}
			for _, rule := range []string{"CONC-1", "JOB-1"} {
				if !strings.Contains(fn.Name(), strings.ReplaceAll(rule, "-", "")) {
					continue
				}
				got, want := ob.Holds, ob.Holds
				if fired[rule] {
					got = ob.Violation
				}
				if strings.Contains(fn.Name(), "Bad") {
					want = ob.Violation
				}
				c.R.Control(rule, "control:"+fn.Name(), "modeling/marching/zz_verif_control_c10.go", got, want, "control region analysed with the canvas rules")
			}
		}
	}
}

func (k *checker) newRegion(fn *ssa.Function, out sink) *region {
	r := &region{k: k, entry: fn, name: k.c.P.FuncName(fn), ev: newEvaluator(), out: out}
	r.ev.autoIV = true
	r.root = r.ev.root(fn)
	ssau.AllInstrs(fn, func(in ssa.Instruction) {
		switch x := in.(type) {
		case *ssa.Go:
			r.gos = append(r.gos, x)
		case *ssa.MakeChan:
			r.chans = append(r.chans, x)
		}
	})
	for _, g := range r.gos {
		cc := g.Common()
		var we *env
		if mc, ok := cc.Value.(*ssa.MakeClosure); ok {
			we = r.root.closureEnv(mc, cc.Args)
		} else if callee := cc.StaticCallee(); callee != nil && len(callee.Blocks) > 0 {
			we = r.root.callEnv(callee, cc.Args)
		}
		if we == nil {
			out.undecide("CONC-1", r.name, k.c.P.Pos(ssau.PosOf(g)), "spawned function is neither a function literal nor a static function")
			return nil
		}
		r.workers = append(r.workers, we)
	}
	// channel model
	cm := &chanModel{sends: map[*ssa.MakeChan][]sendSite{}}
	for _, e := range append([]*env{r.root}, r.workers...) {
		e := e
		ssau.AllInstrs(e.fn, func(in ssa.Instruction) {
			if s, ok := in.(*ssa.Send); ok {
				if mk := e.chanOf(s.Chan); mk != nil {
					cm.sends[mk] = append(cm.sends[mk], sendSite{e, s})
				}
			}
		})
	}
	r.ev.chans = cm
	return r
}

func (r *region) afterSpawn(in ssa.Instruction) bool {
	for _, g := range r.gos {
		if in == ssa.Instruction(g) || ssau.CanFollow(g, in) {
			return true
		}
	}
	return false
}

// ---------------------------------------------------------------------------
// CONC-1

type cAccess struct {
	fn      *ssa.Function
	at      ssa.Instruction
	owner   *types.Named
	field   *types.Var
	content bool
	write   bool
	worker  bool
	held    map[string]bool
	chain   string
}

func (a cAccess) loc() string {
	s := a.owner.Obj().Name() + "." + a.field.Name()
	if a.content {
		s += "[…]"
	}
	return s
}

func isMutexish(t types.Type) bool {
	return ssau.IsNamed(t, "sync", "Mutex") || ssau.IsNamed(t, "sync", "RWMutex")
}

// sharedTypes: struct types reachable from the values handed to the workers.
func (r *region) sharedTypes() (shared, msg map[*types.Named]bool) {
	shared, msg = map[*types.Named]bool{}, map[*types.Named]bool{}
	var visit func(t types.Type, depth int)
	visit = func(t types.Type, depth int) {
		if depth > 8 || t == nil {
			return
		}
		switch x := t.(type) {
		case *types.Named:
			if st, ok := x.Underlying().(*types.Struct); ok {
				if shared[x] {
					return
				}
				if x.Obj().Pkg() == nil || x.Obj().Pkg() != r.entry.Pkg.Pkg {
					return
				}
				shared[x] = true
				for i := 0; i < st.NumFields(); i++ {
					visit(st.Field(i).Type(), depth+1)
				}
				return
			}
			visit(x.Underlying(), depth+1)
		case *types.Alias:
			visit(types.Unalias(x), depth)
		case *types.Pointer:
			visit(x.Elem(), depth+1)
		case *types.Slice:
			visit(x.Elem(), depth+1)
		case *types.Array:
			visit(x.Elem(), depth+1)
		case *types.Map:
			visit(x.Key(), depth+1)
			visit(x.Elem(), depth+1)
		case *types.Chan:
			visit(x.Elem(), depth+1)
		case *types.Struct:
			for i := 0; i < x.NumFields(); i++ {
				visit(x.Field(i).Type(), depth+1)
			}
		}
	}
	for _, g := range r.gos {
		cc := g.Common()
		if mc, ok := cc.Value.(*ssa.MakeClosure); ok {
			for _, b := range mc.Bindings {
				visit(b.Type(), 0)
			}
		}
		for _, a := range cc.Args {
			visit(a.Type(), 0)
		}
	}
	for _, mk := range r.chans {
		t := mk.Type().Underlying().(*types.Chan).Elem()
		if pt, ok := t.Underlying().(*types.Pointer); ok {
			t = pt.Elem()
		}
		if n, ok := t.(*types.Named); ok {
			if _, isStruct := n.Underlying().(*types.Struct); isStruct {
				msg[n] = true
			}
		}
	}
	return
}

func captured(a *ssa.Alloc) bool {
	for _, r := range ssau.Refs(a) {
		if mc, ok := r.(*ssa.MakeClosure); ok {
			for _, b := range mc.Bindings {
				if b == ssa.Value(a) {
					return true
				}
			}
		}
	}
	return false
}

type conc1Walker struct {
	r      *region
	shared map[*types.Named]bool
	msg    map[*types.Named]bool
	seen   map[string]bool
	acc    []cAccess
	fns    map[*ssa.Function]bool
}

func heldNames(st lockset.State, ambient map[string]bool) map[string]bool {
	out := map[string]bool{}
	for k := range ambient {
		out[k] = true
	}
	for k := range st {
		out[k.Field()] = true
	}
	return out
}

func setSig(m map[string]bool) string {
	var ks []string
	for k := range m {
		ks = append(ks, k)
	}
	sort.Strings(ks)
	return strings.Join(ks, ",")
}

func (w *conc1Walker) walk(fn *ssa.Function, entry lockset.State, ambient map[string]bool, worker bool, filter func(ssa.Instruction) bool, depth int, chain string) {
	sig := fmt.Sprintf("%p|%v|%s|%s", fn, worker, entry.Sig(), setSig(ambient))
	if w.seen[sig] || depth > 6 || len(fn.Blocks) == 0 {
		return
	}
	w.seen[sig] = true
	w.fns[fn] = true
	p := w.r.k.c.P
	if chain == "" {
		chain = p.FuncName(fn)
	} else {
		chain += " → " + p.FuncName(fn)
	}
	res := lockset.Analyze(fn, entry)
	// a local, uncaptured struct cell: its header fields are private to this activation. When it
	// is a copy of a shared struct (value receiver, `x := *p`) the maps / slices it holds are
	// still the shared ones, so only header accesses are exempt; a fresh literal is fully private.
	localCell := func(ptr ssa.Value) (local, fresh bool) {
		k := lockset.Canon(ptr)
		a, ok := k.Root.(*ssa.Alloc)
		if !ok || k.Path != "" || a.Parent() != fn || captured(a) {
			return false, false
		}
		fresh = true
		for _, r := range ssau.Refs(a) {
			if st, ok := r.(*ssa.Store); ok && st.Addr == ssa.Value(a) {
				fresh = false
			}
		}
		return true, fresh
	}
	threadLocal := func(ptr ssa.Value) bool { l, _ := localCell(ptr); return l }
	structOf := func(ptr ssa.Value) *types.Named {
		n := ssau.NamedOf(ptr.Type())
		if n == nil || !w.shared[n] || w.msg[n] {
			return nil
		}
		return n
	}
	add := func(n *types.Named, f *types.Var, at ssa.Instruction, content, write bool) {
		if isMutexish(f.Type()) {
			return
		}
		w.acc = append(w.acc, cAccess{fn: fn, at: at, owner: n, field: f, content: content, write: write, worker: worker,
			held: heldNames(res.HeldBefore(at), ambient), chain: chain})
	}
	for _, b := range fn.Blocks {
		for _, in := range b.Instrs {
			if filter != nil && !filter(in) {
				continue
			}
			switch x := in.(type) {
			case *ssa.FieldAddr:
				n := structOf(x.X)
				if n == nil {
					continue
				}
				local, fresh := localCell(x.X)
				if local && fresh {
					continue
				}
				st := n.Underlying().(*types.Struct)
				f := st.Field(x.Field)
				for _, a := range classifyFieldUses(x) {
					if filter != nil && !filter(a.at) {
						continue
					}
					if local && !a.content {
						continue
					}
					add(n, f, a.at, a.content, a.write)
				}
			case *ssa.UnOp:
				if x.Op != token.MUL {
					continue
				}
				pt, ok := x.X.Type().Underlying().(*types.Pointer)
				if !ok {
					continue
				}
				n, _ := pt.Elem().(*types.Named)
				if n == nil || !w.shared[n] || w.msg[n] || threadLocal(x.X) {
					continue
				}
				if st, ok := n.Underlying().(*types.Struct); ok {
					for i := 0; i < st.NumFields(); i++ {
						add(n, st.Field(i), in, false, false)
					}
				}
			case ssa.CallInstruction:
				if _, ok := lockset.ClassifyCall(x); ok {
					continue
				}
				cc := x.Common()
				var callee *ssa.Function
				isClosure := false
				if mc, ok := cc.Value.(*ssa.MakeClosure); ok {
					callee, _ = mc.Fn.(*ssa.Function)
					isClosure = true
				} else {
					callee = cc.StaticCallee()
				}
				if callee == nil || len(callee.Blocks) == 0 {
					continue
				}
				if pk := pkgOf(callee); pk == nil || pk != w.r.entry.Pkg.Pkg {
					continue
				}
				held := res.HeldBefore(in)
				if _, isGo := in.(*ssa.Go); isGo {
					w.walk(callee, lockset.State{}, nil, true, nil, depth+1, chain+" (go)")
					continue
				}
				var ne lockset.State
				if isClosure {
					ne = held
				} else {
					ne = lockset.Translate(held, cc.Args, callee)
				}
				w.walk(callee, ne, heldNames(held, ambient), worker, nil, depth+1, chain)
			}
		}
	}
}

func pkgOf(fn *ssa.Function) *types.Package {
	for f := fn; f != nil; f = f.Parent() {
		if f.Pkg != nil {
			return f.Pkg.Pkg
		}
	}
	return nil
}

type fieldUse struct {
	at      ssa.Instruction
	content bool
	write   bool
}

// classifyFieldUses: header accesses (load/store of the field itself) and content accesses
// (elements of the slice / entries of the map the field holds).
func classifyFieldUses(fa *ssa.FieldAddr) []fieldUse {
	var out []fieldUse
	for _, r := range ssau.Refs(fa) {
		switch r := r.(type) {
		case *ssa.Store:
			out = append(out, fieldUse{r, false, true})
		case *ssa.UnOp:
			out = append(out, fieldUse{r, false, false})
			for _, rr := range ssau.Refs(r) {
				switch rr := rr.(type) {
				case *ssa.MapUpdate:
					if rr.Map == ssa.Value(r) {
						out = append(out, fieldUse{rr, true, true})
					}
				case *ssa.Lookup:
					if rr.X == ssa.Value(r) {
						out = append(out, fieldUse{rr, true, false})
					}
				case *ssa.Range:
					out = append(out, fieldUse{rr, true, false})
				case *ssa.Slice:
					out = append(out, fieldUse{rr, true, false})
				case *ssa.IndexAddr:
					for _, r3 := range ssau.Refs(rr) {
						switch r3 := r3.(type) {
						case *ssa.Store:
							if r3.Addr == ssa.Value(rr) {
								out = append(out, fieldUse{r3, true, true})
							}
						case *ssa.UnOp:
							out = append(out, fieldUse{r3, true, false})
						}
					}
				case ssa.CallInstruction:
					switch ssau.Builtin(rr) {
					case "delete", "clear":
						out = append(out, fieldUse{rr.(ssa.Instruction), true, true})
					case "append":
						if len(rr.Common().Args) > 0 && rr.Common().Args[0] == ssa.Value(r) {
							out = append(out, fieldUse{rr.(ssa.Instruction), true, true})
						}
					}
				}
			}
		case *ssa.DebugRef:
		default:
			if in, ok := r.(ssa.Instruction); ok {
				if _, isFA := r.(*ssa.FieldAddr); isFA {
					continue
				}
				out = append(out, fieldUse{in, false, true})
			}
		}
	}
	return out
}

func (r *region) conc1() {
	p := r.k.c.P
	w := &conc1Walker{r: r, seen: map[string]bool{}, fns: map[*ssa.Function]bool{}}
	w.shared, w.msg = r.sharedTypes()
	w.walk(r.entry, lockset.State{}, nil, false, r.afterSpawn, 0, "")
	// group by location
	type group struct {
		accs []cAccess
	}
	groups := map[string]*group{}
	var order []string
	for _, a := range w.acc {
		key := a.loc()
		if groups[key] == nil {
			groups[key] = &group{}
			order = append(order, key)
		}
		groups[key].accs = append(groups[key].accs, a)
	}
	sort.Strings(order)
	nNeed := 0
	for _, key := range order {
		g := groups[key]
		workerWrite, coordWrite, workerAccess := false, false, false
		for _, a := range g.accs {
			if a.worker {
				workerAccess = true
				if a.write {
					workerWrite = true
				}
			} else if a.write {
				coordWrite = true
			}
		}
		needs := workerWrite || (coordWrite && workerAccess)
		if !needs {
			why := "only read in the region"
			if coordWrite {
				why = "written by the coordinator only and never touched by worker code"
			}
			r.out.hold("CONC-1", r.name+"⇒"+key, p.Pos(ssau.PosOf(g.accs[0].at)), "no mutex needed: "+why, fmt.Sprintf("%d accesses", len(g.accs)))
			continue
		}
		nNeed++
		// the mutex: what every conflicting write holds
		var L map[string]bool
		for _, a := range g.accs {
			if !a.write || !(a.worker || !workerWrite) {
				continue
			}
			if L == nil {
				L = map[string]bool{}
				for k := range a.held {
					L[k] = true
				}
			} else {
				for k := range L {
					if !a.held[k] {
						delete(L, k)
					}
				}
			}
		}
		// per accessing function
		byFn := map[*ssa.Function][]cAccess{}
		var fns []*ssa.Function
		for _, a := range g.accs {
			if _, ok := byFn[a.fn]; !ok {
				fns = append(fns, a.fn)
			}
			byFn[a.fn] = append(byFn[a.fn], a)
		}
		sort.Slice(fns, func(i, j int) bool { return p.FuncName(fns[i]) < p.FuncName(fns[j]) })
		for _, fn := range fns {
			construct := r.name + "⇒" + p.FuncName(fn) + "→" + key
			var bad, ok []string
			for _, a := range byFn[fn] {
				role := "coordinator"
				if a.worker {
					role = "worker"
				}
				kind := "read"
				if a.write {
					kind = "write"
				}
				desc := role + " " + kind + " at " + p.Pos(ssau.PosOf(a.at))
				covered := false
				for k := range L {
					if a.held[k] {
						covered = true
						ok = append(ok, desc+" under "+k)
						break
					}
				}
				if !covered {
					if len(L) == 0 && a.write {
						bad = append(bad, desc+" holds no mutex common to all concurrent writers")
					} else {
						bad = append(bad, desc+" without the mutex "+setSig(L)+" that guards the concurrent writes (via "+a.chain+")")
					}
				}
			}
			bad, ok = dedupSorted(bad), dedupSorted(ok)
			pos := p.Pos(ssau.PosOf(byFn[fn][0].at))
			if len(bad) > 0 {
				r.out.violate("CONC-1", construct, pos, key+" is written by concurrently running workers: "+bad[0], append(bad[1:], ok...)...)
			} else {
				r.out.hold("CONC-1", construct, pos, ok...)
			}
		}
	}
	if len(order) == 0 {
		r.out.undecide("CONC-1", r.name, p.Pos(r.entry.Pos()), "no access to shared canvas state found in the region: the rule no longer sees the constructs it was written for")
	}
}

func dedupSorted(xs []string) []string {
	sort.Strings(xs)
	return dedup(xs)
}
