package c10

func controls() map[string]string {
	return map[string]string{
		"modeling/zz_verif_control_c10.go": `package modeling

import (
	"math"
	"sync"
)

func verifControlHelperEnd(data []float64, start, end int, f func(i int, v float64)) {
	for i := start; i < end; i++ {
		f(i, data[i])
	}
}

// must fire SYM-PART: (start, count) handed to a helper that loops to its third argument as an end
func verifControlSYMPARTBad(data []float64, size int, f func(i int, v float64)) {
	if size == 1 {
		verifControlSeq(data, f)
		return
	}
	var wg sync.WaitGroup
	workSize := int(math.Floor(float64(len(data)) / float64(size)))
	for i := 0; i < size; i++ {
		wg.Add(1)
		jobSize := workSize
		if i == size-1 {
			jobSize = len(data) - (workSize * i)
		}
		go func(start, size int) {
			defer wg.Done()
			verifControlHelperEnd(data, start, size, f)
		}(workSize*i, jobSize)
	}
	wg.Wait()
}

func verifControlSeq(data []float64, f func(i int, v float64)) {
	for i, v := range data {
		f(i, v)
	}
}

// must stay silent: end computed before the call, range loop over the sub-slice, Add(size) up front
func verifControlSYMPARTGood(data []float64, size int, f func(i int, v float64)) {
	if size == 1 {
		verifControlSeq(data, f)
		return
	}
	var wg sync.WaitGroup
	total := len(data)
	width := total / size
	wg.Add(size)
	for w := 0; w < size; w++ {
		lo := w * width
		hi := lo + width
		if w+1 == size {
			hi = total
		}
		go func(lo, hi int) {
			defer wg.Done()
			for k, v := range data[lo:hi] {
				f(lo+k, v)
			}
		}(lo, hi)
	}
	wg.Wait()
}

// must fire CONC-3: shared counter written by every worker
func verifControlCONC3Bad(data []float64, size int, f func(i int, v float64)) int {
	if size == 1 {
		verifControlSeq(data, f)
		return len(data)
	}
	var wg sync.WaitGroup
	n := 0
	workSize := int(math.Floor(float64(len(data)) / float64(size)))
	for i := 0; i < size; i++ {
		wg.Add(1)
		jobSize := workSize
		if i == size-1 {
			jobSize = len(data) - (workSize * i)
		}
		go func(start, size int) {
			defer wg.Done()
			verifControlHelperEnd(data, start, start+size, f)
			n += size
		}(workSize*i, jobSize)
	}
	wg.Wait()
	return n
}

// must fire CONC-2: result read before Wait
func verifControlCONC2Bad(data []float64, size int, f func(i int, v float64) float64) []float64 {
	out := make([]float64, len(data))
	if size == 1 {
		return out
	}
	var wg sync.WaitGroup
	workSize := int(math.Floor(float64(len(data)) / float64(size)))
	for i := 0; i < size; i++ {
		wg.Add(1)
		jobSize := workSize
		if i == size-1 {
			jobSize = len(data) - (workSize * i)
		}
		go func(start, size int) {
			defer wg.Done()
			end := start + size
			for i := start; i < end; i++ {
				out[i] = f(i, data[i])
			}
		}(workSize*i, jobSize)
	}
	res := append([]float64{}, out...)
	wg.Wait()
	return res
}
`,
		"modeling/marching/zz_verif_control_c10.go": `package marching

import "sync"

type verifControlState struct {
	blocks [][]float64
	mu     *sync.Mutex
}

func (s *verifControlState) verifControlAdd() int {
	s.mu.Lock()
	defer s.mu.Unlock()
	s.blocks = append(s.blocks, make([]float64, 4))
	return len(s.blocks) - 1
}

func (s *verifControlState) verifControlBlock(i int) []float64 {
	s.mu.Lock()
	defer s.mu.Unlock()
	return s.blocks[i]
}

// must fire CONC-1: the block list is read after the mutex was released
func (s *verifControlState) verifControlCONC1Bad(n int) {
	jobs := make(chan int, n)
	results := make(chan int, n)
	for w := 0; w < 4; w++ {
		go func() {
			for j := range jobs {
				i := s.verifControlAdd()
				b := s.blocks[i]
				b[0] = float64(j)
				results <- j
			}
		}()
	}
	for i := 0; i < n; i++ {
		jobs <- i
	}
	close(jobs)
	for i := 0; i < n; i++ {
		<-results
	}
}

// must stay silent: the read happens in a locked helper
func (s *verifControlState) verifControlCONC1Good(n int) {
	jobs := make(chan int, n)
	results := make(chan int, n)
	for w := 0; w < 4; w++ {
		go func() {
			for j := range jobs {
				b := s.verifControlBlock(s.verifControlAdd())
				b[0] = float64(j)
				results <- j
			}
		}()
	}
	for i := 0; i < n; i++ {
		jobs <- i
	}
	close(jobs)
	for i := 0; i < n; i++ {
		<-results
	}
}

// must fire JOB-1: one result is never drained
func (s *verifControlState) verifControlJOB1Bad(n int) {
	jobs := make(chan int, n)
	results := make(chan int, n)
	for w := 0; w < 4; w++ {
		go func() {
			for j := range jobs {
				results <- j
			}
		}()
	}
	for i := 0; i < n; i++ {
		jobs <- i
	}
	close(jobs)
	for i := 1; i < n; i++ {
		<-results
	}
}

// must stay silent
func (s *verifControlState) verifControlJOB1Good(n int) {
	jobs := make(chan int, n)
	results := make(chan int, n)
	for w := 0; w < 4; w++ {
		go func() {
			for j := range jobs {
				results <- j
			}
		}()
	}
	for i := 0; i < n; i++ {
		jobs <- i
	}
	close(jobs)
	for i := 0; i < n; i++ {
		<-results
	}
}
`,
	}
}
