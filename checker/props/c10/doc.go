// Rules of C10 (DESIGN.md §3.3, §3.4, §3.7, §3.11, §4 C10).
//
// modeling/mesh.go — every method of modeling.Mesh that contains a go statement (7 today), its
// sequential counterpart (name without "Parallel[WithPoolSize]") and its Parallel() wrapper:
//
//   - SYM-PART  F[→helper]: symbolic evaluation (polynomials over parameters, len(x), opaque calls, the
//     spawn index i; two-way φ guarded by the last-worker test i == workers-1 in any of ==, !=, <, >=
//     forms) of the go site's actuals; the callback invocation is located in the spawned literal or up
//     to two forwarded calls deep, its loop (counted `<`/`<=` loop or range over a slice / sub-slice)
//     gives the visited range [lo,hi) in terms of the actuals. Decided as polynomial identities:
//     lo(0)=0, hi(i)=lo(i+1), hi_notlast(N-2)=lo_last(N-1), hi_last(N-1)=total, one-worker start = 0,
//     with total = the range visited by the sequential counterpart (bound through the workers==1 call,
//     or by name), and chunk width = ⌊total/workers⌋ (int(math.Floor(float/float)) or integer division),
//     which makes the boundaries monotone inside [0,total]. Anything else is UNDECIDED.
//     F:worker-count — when the spawn loop's bound is not the pool-size parameter itself (a clamped or
//     recomputed count) it becomes a symbol `workers` for all identities above, and a lower bound of
//     it (constants, parameters ≥ 1, len = total ≥ 1, φ choices, min/max, division by a constant)
//     must be ≥ 1 whenever total ≥ 1: an attainable bound of 0 is a VIOLATION (no worker, nothing
//     visited), an unknown one UNDECIDED.
//     F:total-non-negative — the partitioned total hi_last(N-1) has a lower bound ≥ 0 at the spawn loop:
//     structural bound of the values that evaluate to it (len ≥ 0, ± const, φ, min/max, returns of
//     repository callees) or a dominating guard (total <= 0 ⇒ return); max(x,0) is accepted as a clamp.
//   - SHAPE-2   callback gets (idx, element idx): slice element index, integer call arguments (m.Tri(i))
//     and integer fields of a literal (&Point{index:i}) that depend on the loop variable must equal idx;
//     same element source as the sequential visit; result stored at dst[idx] of make(…, total).
//   - CONC-2    Add(1) dominating go in the iteration (or Add(workers) before the loop); worker
//     defers/always calls Done; Wait dominates every return reachable from the spawn and every use of
//     the result array's variable.
//   - CONC-7    :add-done-pairing — every Add(1) in the spawn loop is followed by the go statement on every
//     path through the iteration (Add(workers) up front: the go dominates every latch).
//   - CONC-3    stores in worker code go to worker-local memory or dst[idx]; no map updates; no capture
//     of a variable the spawn loop re-assigns (go.mod < 1.22).
//   - SEQ-1     :shortcut (workers==1 returns the sequential method on the own receiver/arguments, or no
//     shortcut at all), :result (same result constructor), :wrapper (Parallel() passes own arguments and
//     runtime.NumCPU()/GOMAXPROCS or a positive constant).
//
// modeling/marching/canvas.go — every function of package marching that spawns goroutines (anchors
// AddFieldParallel, AddFieldParallel2, marchFloat1Parallel; counterparts AddField, marchFloat1):
//
//   - CONC-1    worker code = functions reachable (static calls in the package) from the spawned
//     literals, coordinator code = the entry after its first go. Accesses to fields of struct types
//     reachable from what the workers are handed (channel message types exempt: ownership moves with the
//     message; fresh literals exempt) are collected per field, separately for the field itself (header)
//     and for the elements of the slice/map it holds; a whole-struct load (*d, value receivers) reads
//     every header. A location needs the mutex iff written by worker code, or written by the coordinator
//     and touched by worker code; the mutex is what all conflicting writes hold (must-hold lockset,
//     context-sensitive); every access in the region must hold it.
//   - JOB-1     :jobs (closed by the coordinator after the last send and before every return, workers
//     `range` over it), :results (symbolic count produced — per job or per worker — equals the count
//     drained; return only after the drain loop), :capacity (one of the two buffers holds its whole
//     traffic, so coordinator and workers cannot block each other).
//   - SEQ-2/3   calls of the same package function in worker code and in the sequential counterpart are
//     compared argument by argument as canonical expressions (cells, closures, struct literals and
//     channel messages are looked through; loop variables named by their range); executed once per job;
//     :job-operands (no common callee: message fields = operands of the sequential per-item call);
//     :merge (same fold over the per-block results).
//     Straight-line in-package helpers are inlined before comparing.
//   - SEQ-4     :accumulate — block cells are written with the same operator (+=) as in the sequential sibling.
//   - AXIS-1/2  in canvas.go: vector3.New slots, VectorInt literal fields and index(x,y,z) arguments must
//     not receive a value derived only from another axis (sources: VectorInt.X/Y/Z, vector3 X()/Y()/Z());
//     comparisons must not mix single axes.
//
// proposed_fixes.diff holds the minimal repairs for the violations found on the pinned tree.
package c10
