package c10

import (
	"fmt"
	"go/token"
	"go/types"
	"sort"
	"strings"

	"golang.org/x/tools/go/ssa"

	"polycheck/props/c13/lockset"
	"polycheck/ssau"
)

// Rules for the fork-join pool methods of modeling.Mesh (modeling/mesh.go):
// SYM-PART, SHAPE-2, CONC-2, CONC-3, SEQ-1.

type sink struct {
	hold     func(rule, construct, pos string, facts ...string)
	violate  func(rule, construct, pos, msg string, facts ...string)
	undecide func(rule, construct, pos, msg string)
}

// visit is one place where worker (or sequential) code hands an element to the user
// callback, together with the index range it is executed for.
type visit struct {
	e      *env
	fn     *ssa.Function
	call   *ssa.Call
	via    string // helper chain ("" = directly in the closure / sequential body)
	jAtom  string
	idx    Poly
	lo, hi GVal // visited index range [lo, hi)
	// SHAPE-2
	valDesc  string
	problems []string
	store    *ssa.Store
	dst      ssa.Value // resolved base of the store (MakeSlice …)
	dstCell  ssa.Value // the cell / value the store's slice was read from
	err      string
}

type poolAnalysis struct {
	k        *checker
	fn       *ssa.Function
	ev       *evaluator
	root     *env
	goInstr  *ssa.Go
	spawn    *countedLoop
	spawnL   *ssau.Loop
	n        Poly
	sizePar  *ssa.Parameter
	cbParams map[*ssa.Parameter]bool
	jCount   int
	out      sink
	seqArgs  []ssa.Value // actuals for the sequential counterpart when there is no shortcut call
	clamped  bool        // the spawn loop's bound is not the pool-size parameter itself
}

func (pa *poolAnalysis) isCallback(e *env, v ssa.Value) bool {
	r, _ := e.resolve(v)
	p, ok := r.(*ssa.Parameter)
	return ok && pa.cbParams[p]
}

func (pa *poolAnalysis) findVisits(e *env, via string, depth int) []visit {
	var out []visit
	fn := e.fn
	loops := ssau.Loops(fn)
	for _, b := range fn.Blocks {
		for _, in := range b.Instrs {
			call, ok := in.(*ssa.Call)
			if !ok {
				continue
			}
			cc := call.Common()
			if cc.IsInvoke() || ssau.Builtin(call) != "" {
				continue
			}
			if callee := cc.StaticCallee(); callee != nil {
				// follow a call that forwards the callback
				forwards := false
				for _, a := range cc.Args {
					if _, isFn := a.Type().Underlying().(*types.Signature); isFn && pa.isCallback(e, a) {
						forwards = true
					}
				}
				if forwards && depth < 2 && len(callee.Blocks) > 0 && pa.k.inModule(callee) {
					v := via
					if v != "" {
						v += "→"
					}
					out = append(out, pa.findVisits(e.callEnv(callee, cc.Args), v+callee.Name(), depth+1)...)
				}
				continue
			}
			if _, isClosure := cc.Value.(*ssa.MakeClosure); isClosure {
				continue
			}
			if !pa.isCallback(e, cc.Value) || len(cc.Args) < 2 {
				continue
			}
			v := visit{e: e, fn: fn, call: call, via: via}
			l := ssau.InnermostLoop(loops, b)
			if l == nil {
				v.err = "callback is not invoked inside a counted loop"
				out = append(out, v)
				continue
			}
			cl, why := recogniseLoop(l)
			if cl == nil {
				v.err = "loop around the callback not recognised: " + why
				out = append(out, v)
				continue
			}
			pa.jCount++
			v.jAtom = fmt.Sprintf("j%d", pa.jCount)
			pa.ev.ivs[cl.phi] = v.jAtom
			idx, ok := e.eval(cc.Args[0]).plain()
			if !ok {
				v.err = "index handed to the callback is not expressible: " + e.eval(cc.Args[0]).String()
				out = append(out, v)
				continue
			}
			c, rest, ok := idx.coeffOf(v.jAtom)
			if one, isC := c.constant(); !ok || !isC || one.Cmp(bigOne) != 0 {
				v.err = "index handed to the callback is not <loop variable> + offset: " + idx.String()
				out = append(out, v)
				continue
			}
			v.idx = idx
			lo, hi := cl.bounds(e)
			add := func(g GVal) GVal { return gBin(g, gPoly(rest), func(p, q Poly) Poly { return p.add(q) }) }
			v.lo, v.hi = add(lo), add(hi)
			pa.shape(&v, l)
			out = append(out, v)
		}
	}
	return out
}

// idxArg renders an index-like operand: "IDX" when it equals the callback index.
func (pa *poolAnalysis) idxArg(v *visit, val ssa.Value) (string, bool) {
	if !isNumeric(val.Type()) {
		return "", false
	}
	g := v.e.eval(val)
	p, ok := g.plain()
	if !ok || !p.mentions(v.jAtom) {
		return "", false
	}
	if p.equal(v.idx) {
		return "IDX", true
	}
	v.problems = append(v.problems, "element selected by "+p.String()+" but the callback is told index "+v.idx.String())
	return "WRONG(" + p.String() + ")", true
}

// elemAddr decomposes &base[k] (also through a sub-slice) into base and total index.
func (pa *poolAnalysis) elemAddr(e *env, ia *ssa.IndexAddr) (ssa.Value, *env, GVal) {
	base, be := e.resolve(ia.X)
	k := e.eval(ia.Index)
	for i := 0; i < 4; i++ {
		sl, ok := base.(*ssa.Slice)
		if !ok {
			break
		}
		if sl.Low != nil {
			k = gBin(k, be.eval(sl.Low), func(p, q Poly) Poly { return p.add(q) })
		}
		base, be = be.resolve(sl.X)
	}
	return base, be, k
}

// shape fills the SHAPE-2 facts of a visit: what element is handed over, where the result goes.
func (pa *poolAnalysis) shape(v *visit, l *ssau.Loop) {
	e := v.e
	val, ve := e.resolve(v.call.Call.Args[1])
	dependsOnIdx := false
	switch x := val.(type) {
	case *ssa.UnOp:
		if ia, ok := x.X.(*ssa.IndexAddr); ok && x.Op == token.MUL {
			base, be, k := pa.elemAddr(ve, ia)
			kp, ok := k.plain()
			if ok && kp.mentions(v.jAtom) {
				dependsOnIdx = true
				if !kp.equal(v.idx) {
					v.problems = append(v.problems, "callback receives element "+kp.String()+" together with index "+v.idx.String())
				}
			}
			v.valDesc = "elem(" + be.str(base) + ")"
		} else {
			v.valDesc = ve.str(val)
		}
	case *ssa.Call:
		var args []string
		for _, a := range x.Call.Args {
			if s, ok := pa.idxArg(v, a); ok {
				dependsOnIdx = true
				args = append(args, s)
			} else {
				args = append(args, ve.str(a))
			}
		}
		name := "?"
		if o := ssau.CalleeObj(x); o != nil {
			name = shortFunc(o)
		}
		v.valDesc = name + "(" + strings.Join(args, ",") + ")"
	case *ssa.Alloc:
		// &T{…}: the literal's field stores
		var fields []string
		for _, r := range ssau.Refs(x) {
			fa, ok := r.(*ssa.FieldAddr)
			if !ok {
				continue
			}
			for _, rr := range ssau.Refs(fa) {
				st, ok := rr.(*ssa.Store)
				if !ok || st.Addr != ssa.Value(fa) {
					continue
				}
				fname := fieldName(x.Type(), fa.Field)
				if s, ok := pa.idxArg(v, st.Val); ok {
					dependsOnIdx = true
					fields = append(fields, fname+":"+s)
				} else {
					fields = append(fields, fname+":"+ve.str(st.Val))
				}
			}
		}
		sort.Strings(fields)
		v.valDesc = "&" + x.Type().(*types.Pointer).Elem().String() + "{" + strings.Join(fields, ",") + "}"
	default:
		v.valDesc = ve.str(val)
	}
	if !dependsOnIdx {
		v.problems = append(v.problems, "the element handed to the callback does not depend on the loop index")
	}
	// result store: dst[k] = <callback result> in the same loop
	for b := range l.Blocks {
		for _, in := range b.Instrs {
			st, ok := in.(*ssa.Store)
			if !ok {
				continue
			}
			ia, ok := st.Addr.(*ssa.IndexAddr)
			if !ok {
				continue
			}
			base, _, k := pa.elemAddr(e, ia)
			if _, isLocalArr := base.(*ssa.Alloc); isLocalArr {
				continue // varargs arrays etc.
			}
			if st.Val != ssa.Value(v.call) {
				if r, _ := e.resolve(st.Val); r != ssa.Value(v.call) {
					continue
				}
			}
			v.store, v.dst = st, base
			if u, ok := ia.X.(*ssa.UnOp); ok {
				v.dstCell = u.X
			}
			if ms, ok := base.(*ssa.MakeSlice); ok {
				// the variable cell of the pool method that holds the result array
				for _, r := range ssau.Refs(ms) {
					if s2, ok := r.(*ssa.Store); ok && s2.Val == ssa.Value(ms) {
						if a, ok := s2.Addr.(*ssa.Alloc); ok {
							v.dstCell = a
						}
					}
				}
			}
			kp, ok := k.plain()
			if !ok || !kp.equal(v.idx) {
				v.problems = append(v.problems, "result stored at "+k.String()+" but computed for index "+v.idx.String())
			}
		}
	}
}

var bigOne = newRat(1)

// ---------------------------------------------------------------------------

func (k *checker) analysePool(fn *ssa.Function, out sink) {
	p := k.c.P
	name := p.FuncName(fn)
	pos := p.Pos(fn.Pos())
	pa := &poolAnalysis{k: k, fn: fn, ev: newEvaluator(), cbParams: map[*ssa.Parameter]bool{}, out: out}
	pa.root = pa.ev.root(fn)
	for _, prm := range fn.Params {
		if _, ok := prm.Type().Underlying().(*types.Signature); ok {
			pa.cbParams[prm] = true
		}
	}
	var gos []*ssa.Go
	ssau.AllInstrs(fn, func(in ssa.Instruction) {
		if g, ok := in.(*ssa.Go); ok {
			gos = append(gos, g)
		}
	})
	if len(gos) != 1 {
		out.undecide("SYM-PART", name, pos, fmt.Sprintf("%d go statements in one pool method: only the single spawn-loop shape is recognised", len(gos)))
		return
	}
	pa.goInstr = gos[0]
	gpos := p.Pos(ssau.PosOf(pa.goInstr))
	loops := ssau.Loops(fn)
	pa.spawnL = ssau.InnermostLoop(loops, pa.goInstr.Block())
	if pa.spawnL == nil {
		out.undecide("SYM-PART", name, gpos, "go statement is not inside a spawn loop")
		return
	}
	cl, why := recogniseLoop(pa.spawnL)
	if cl == nil {
		// typical cause: the literal captures the loop variable, which then lives in a cell
		if mc, ok := pa.goInstr.Common().Value.(*ssa.MakeClosure); ok {
			for _, b := range mc.Bindings {
				a, ok := b.(*ssa.Alloc)
				if !ok || pa.spawnL.Blocks[a.Block()] {
					continue
				}
				for _, r := range ssau.Refs(a) {
					if st, ok := r.(*ssa.Store); ok && st.Addr == ssa.Value(a) && pa.spawnL.Blocks[st.Block()] {
						out.violate("CONC-3", name, gpos, "worker captures variable '"+allocName(a)+"' which the spawn loop re-assigns: with go.mod < 1.22 all workers share it and read whatever value it has when they run")
						return
					}
				}
			}
		}
		out.undecide("SYM-PART", name, gpos, "spawn loop not recognised: "+why)
		return
	}
	pa.spawn = cl
	pa.ev.ivs[cl.phi] = "i"
	lo, hi := cl.bounds(pa.root)
	if !hi.ok() && cl.hiAdj == 0 {
		// the loop bound is not an expression over the parameters (a clamped / recomputed pool
		// size): give the worker count that is actually used a symbol of its own
		if pa.ev.named == nil {
			pa.ev.named = map[ssa.Value]string{}
		}
		pa.ev.named[cl.hi] = "workers"
		pa.clamped = true
		lo, hi = cl.bounds(pa.root)
	}
	lop, ok1 := lo.plain()
	hip, ok2 := hi.plain()
	if !ok1 || !ok2 || !lop.isZero() {
		out.undecide("SYM-PART", name, gpos, "spawn loop is not `for i := 0; i < workers; i++`: "+lo.String()+" … "+hi.String())
		return
	}
	pa.n = hip
	pa.ev.spawnIV, pa.ev.spawnN, pa.ev.haveLast = cl.phi, hip, true
	if r, _ := pa.root.resolve(cl.hi); r != nil {
		pa.sizePar, _ = r.(*ssa.Parameter)
	}
	if pa.sizePar == nil {
		pa.sizePar = paramBehind(cl.hi)
	}

	// worker environment
	var we *env
	cc := pa.goInstr.Common()
	var mc *ssa.MakeClosure
	if m, ok := cc.Value.(*ssa.MakeClosure); ok {
		mc = m
		we = pa.root.closureEnv(m, cc.Args)
	} else if callee := cc.StaticCallee(); callee != nil && len(callee.Blocks) > 0 {
		we = pa.root.callEnv(callee, cc.Args)
	}
	if we == nil {
		out.undecide("SYM-PART", name, gpos, "spawned function is neither a function literal nor a static function")
		return
	}
	visits := pa.findVisits(we, "", 0)

	// sequential counterpart (SEQ-1 shortcut) and its visits
	seqFn, seqCall := pa.shortcut(out)
	var seqVisits []visit
	var total Poly
	haveTotal := false
	if seqFn != nil {
		if seqCall != nil {
			pa.seqArgs = seqCall.Call.Args
		}
		se := pa.root.callEnv(seqFn, pa.seqArgs)
		seqVisits = pa.findVisits(se, "", 0)
		for i, sv := range seqVisits {
			if sv.err != "" {
				continue
			}
			l, ok1 := sv.lo.plain()
			h, ok2 := sv.hi.plain()
			if !ok1 || !ok2 || !l.isZero() {
				out.undecide("SYM-PART", name+":sequential-range", p.Pos(ssau.PosOf(sv.call)), "sequential counterpart does not visit [0,total): "+sv.lo.String()+" … "+sv.hi.String())
				continue
			}
			if !haveTotal {
				total, haveTotal = h, true
			} else if !total.equal(h) && i > 0 {
				out.undecide("SYM-PART", name+":sequential-range", p.Pos(ssau.PosOf(sv.call)), "sequential counterpart visits different totals: "+total.String()+" vs "+h.String())
			}
		}
	}

	// ---- SYM-PART: the number of workers the spawn loop really uses is ≥ 1 whenever total ≥ 1
	if haveTotal {
		construct := name + ":worker-count"
		lb, exact, how := pa.workersLowerBound(cl.hi, total, 0)
		switch {
		case lb >= 1:
			out.hold("SYM-PART", construct, gpos, "workers ≥ 1 whenever total ≥ 1: "+how)
		case exact:
			out.violate("SYM-PART", construct, gpos,
				fmt.Sprintf("the spawn loop runs for a worker count that can be %d while total ≥ 1 (%s): with no worker nothing is visited, so hi(last) = total fails", lb, how))
		default:
			out.undecide("SYM-PART", construct, gpos, "cannot establish that the spawn loop's worker count is ≥ 1 whenever total ≥ 1: "+how)
		}
	}

	// ---- SYM-PART per visit
	if len(visits) == 0 {
		out.undecide("SYM-PART", name, gpos, "no callback invocation found in the spawned code (followed two calls deep)")
	}
	iAtom := "i"
	for _, v := range visits {
		construct := name
		if v.via != "" {
			construct += "→" + v.via
		}
		vpos := p.Pos(ssau.PosOf(v.call))
		if v.err != "" {
			out.undecide("SYM-PART", construct, vpos, v.err)
			continue
		}
		loNL, a1 := v.lo.under(gNotLast)
		loL, a2 := v.lo.under(gLast)
		hiNL, a3 := v.hi.under(gNotLast)
		hiL, a4 := v.hi.under(gLast)
		if !(a1 && a2 && a3 && a4) {
			why := v.lo.opaque
			if why == "" {
				why = v.hi.opaque
			}
			out.undecide("SYM-PART", construct, vpos, "worker range not expressible: "+why)
			continue
		}
		facts := []string{
			"worker i visits [" + v.lo.String() + ", " + v.hi.String() + ") for i in [0," + pa.n.String() + ")",
		}
		var bad []string
		if z := loNL.subst(iAtom, pConst(0)); !z.isZero() {
			bad = append(bad, "first worker starts at "+z.String()+", not 0")
		}
		if z := loL.subst(iAtom, pConst(0)).subst(singleAtomOr(pa.n), pConst(1)); !z.isZero() {
			bad = append(bad, "with one worker the range starts at "+z.String()+", not 0")
		}
		next := loNL.subst(iAtom, pAtom(iAtom).add(pConst(1)))
		if !hiNL.equal(next) {
			bad = append(bad, "worker i ends at "+hiNL.String()+" but worker i+1 starts at "+next.String()+" (ranges overlap or leave a gap)")
		}
		nm1 := pa.n.sub(pConst(1))
		nm2 := pa.n.sub(pConst(2))
		if a, b := hiNL.subst(iAtom, nm2), loL.subst(iAtom, nm1); !a.equal(b) {
			bad = append(bad, "last worker starts at "+b.String()+" but its predecessor ends at "+a.String())
		}
		if haveTotal {
			if e := hiL.subst(iAtom, nm1); !e.equal(total) {
				bad = append(bad, "last worker ends at "+e.String()+" but the sequential counterpart visits up to "+total.String())
			}
			facts = append(facts, "total (from the sequential counterpart) = "+total.String())
		}
		if len(bad) > 0 {
			out.violate("SYM-PART", construct, vpos, "worker ranges do not partition [0,total): "+bad[0], append(bad[1:], facts...)...)
			continue
		}
		if !haveTotal {
			out.undecide("SYM-PART", construct, vpos, "ranges telescope but the total could not be taken from a sequential counterpart (SEQ-1 shortcut missing)")
			continue
		}
		// chunk width must be ⌊total/workers⌋ so that 0 ≤ lo(i) ≤ hi(i) ≤ total for every i
		w, rest, ok := loNL.coeffOf(iAtom)
		wa, single := w.singleAtom()
		want1 := "floor(div(" + total.String() + "," + pa.n.String() + "))"
		want2 := "quo(" + total.String() + "," + pa.n.String() + ")"
		if !ok || !rest.isZero() || !single || (wa != want1 && wa != want2) {
			out.undecide("SYM-PART", construct, vpos, "ranges telescope, but the chunk width "+w.String()+" is not recognised as ⌊total/workers⌋ ("+want1+"), so lo(i) ≤ hi(i) ≤ total is not established")
			continue
		}
		facts = append(facts, "chunk width = "+wa+" ⇒ boundaries are monotone and within [0,total]")
		out.hold("SYM-PART", construct, vpos, facts...)
	}

	// ---- SYM-PART: the partitioned total is non-negative on every path that reaches the spawn loop.
	// With a negative total the chunk width ⌊total/workers⌋ is negative too, the non-last workers get
	// empty ranges and the last one a range *below zero* (it calls the callback with negative indices),
	// while the sequential loop simply visits nothing.
	for _, v := range visits {
		if v.err != "" {
			continue
		}
		hiL, ok := v.hi.under(gLast)
		if !ok {
			continue
		}
		tp := hiL.subst(iAtom, pa.n.sub(pConst(1)))
		construct := name + ":total-non-negative"
		lb, exact, how := pa.totalLowerBound(tp)
		switch {
		case lb >= 0:
			out.hold("SYM-PART", construct, gpos, "partitioned total "+tp.String()+" ≥ 0: "+how)
		case exact:
			out.violate("SYM-PART", construct, gpos, fmt.Sprintf("the partitioned total %s can be %d (%s) and nothing on the way to the spawn loop excludes it: the last worker is then handed a range below zero and calls the callback with negative indices, while the sequential counterpart visits nothing", tp.String(), lb, how))
		default:
			out.undecide("SYM-PART", construct, gpos, "cannot establish that the partitioned total "+tp.String()+" is non-negative: "+how)
		}
		break
	}

	// ---- SHAPE-2
	for _, v := range visits {
		if v.err != "" {
			continue
		}
		construct := name
		if v.via != "" {
			construct += "→" + v.via
		}
		vpos := p.Pos(ssau.PosOf(v.call))
		facts := []string{"callback(" + v.idx.String() + ", " + v.valDesc + ")"}
		problems := append([]string{}, v.problems...)
		// compare with the sequential visit (same helper when there is one)
		var sv *visit
		for i := range seqVisits {
			if seqVisits[i].err == "" && (seqVisits[i].fn == v.fn || len(seqVisits) == 1) {
				sv = &seqVisits[i]
			}
		}
		if sv != nil {
			problems = append(problems, prefixAll("sequential counterpart: ", sv.problems)...)
			if sv.valDesc != v.valDesc {
				problems = append(problems, "parallel hands over "+v.valDesc+" but the sequential counterpart hands over "+sv.valDesc)
			}
			if (sv.store == nil) != (v.store == nil) {
				problems = append(problems, "only one of parallel / sequential stores the callback's result")
			}
		} else if seqFn != nil {
			problems = append(problems, "no matching callback invocation in the sequential counterpart")
		}
		if v.store != nil {
			ms, _ := v.dst.(*ssa.MakeSlice)
			if ms == nil {
				problems = append(problems, "results are stored into "+v.e.str(v.dst)+", not into a freshly made array")
			} else if haveTotal {
				ln, ok := v.e.find(ms.Parent()).eval(ms.Len).plain()
				if !ok || !ln.equal(total) {
					problems = append(problems, "result array has length "+v.e.find(ms.Parent()).eval(ms.Len).String()+", not total = "+total.String())
				} else {
					facts = append(facts, "result stored at the same index of make(…, "+ln.String()+")")
				}
			}
		}
		if len(problems) > 0 {
			out.violate("SHAPE-2", construct, vpos, problems[0], append(problems[1:], facts...)...)
		} else {
			out.hold("SHAPE-2", construct, vpos, facts...)
		}
	}

	pa.conc2(mc, we, visits, out)
	pa.conc3(mc, we, visits, out)
	pa.resultAgreement(seqFn, seqCall, visits, seqVisits, out)
}

func prefixAll(pre string, xs []string) []string {
	var out []string
	for _, x := range xs {
		out = append(out, pre+x)
	}
	return out
}

// shortcut checks SEQ-1 for the `size == 1` branch and returns the sequential counterpart.
func (pa *poolAnalysis) shortcut(out sink) (*ssa.Function, *ssa.Call) {
	p := pa.k.c.P
	fn := pa.fn
	name := p.FuncName(fn) + ":shortcut"
	var found *ssa.Call
	var foundFn *ssa.Function
	var problems []string
	for _, b := range fn.Blocks {
		if len(b.Instrs) == 0 {
			continue
		}
		ifi, ok := b.Instrs[len(b.Instrs)-1].(*ssa.If)
		if !ok {
			continue
		}
		cond, ok := ifi.Cond.(*ssa.BinOp)
		if !ok || cond.Op != token.EQL {
			continue
		}
		x, ok1 := pa.root.eval(cond.X).plain()
		y, ok2 := pa.root.eval(cond.Y).plain()
		if !ok1 || !ok2 {
			continue
		}
		isSize := func(q Poly) bool {
			// the worker count, or the pool-size parameter it was derived from
			return q.equal(pa.n) || (pa.sizePar != nil && q.equal(pAtom(pa.sizePar.Name())))
		}
		if !(isSize(x) && y.equal(pConst(1))) && !(isSize(y) && x.equal(pConst(1))) {
			continue
		}
		tb := b.Succs[0]
		if len(tb.Instrs) == 0 {
			continue
		}
		ret, ok := tb.Instrs[len(tb.Instrs)-1].(*ssa.Return)
		if !ok {
			problems = append(problems, "the workers == 1 branch does not return directly")
			continue
		}
		var call *ssa.Call
		if len(ret.Results) == 1 {
			call, _ = ret.Results[0].(*ssa.Call)
		} else if len(ret.Results) == 0 {
			for _, in := range tb.Instrs {
				if c, ok := in.(*ssa.Call); ok && c.Common().StaticCallee() != nil && pa.k.inModule(c.Common().StaticCallee()) {
					call = c
				}
			}
		}
		if call == nil || call.Common().StaticCallee() == nil {
			problems = append(problems, "the workers == 1 branch does not return a call of the sequential method")
			continue
		}
		found, foundFn = call, call.Common().StaticCallee()
	}
	pos := p.Pos(fn.Pos())
	if found == nil && len(problems) == 0 {
		// no shortcut at all: the general path also serves one worker (i = 0 is the last worker).
		// The sequential counterpart is then resolved by name and bound positionally.
		wantName := strings.TrimSuffix(strings.TrimSuffix(fn.Name(), "WithPoolSize"), "Parallel")
		if fn.Pkg != nil {
			for _, cand := range p.FuncsOf(fn.Pkg) {
				if cand.Name() == wantName && cand.Parent() == nil && sameRecv(cand, fn) && len(cand.Params) == len(fn.Params)-1 {
					pa.seqArgs = nil
					for _, prm := range fn.Params {
						if prm != pa.sizePar {
							pa.seqArgs = append(pa.seqArgs, prm)
						}
					}
					out.hold("SEQ-1", name, pos, "no single-worker shortcut: the spawn path handles workers == 1 (worker 0 is the last worker); compared against "+p.FuncName(cand))
					return cand, nil
				}
			}
		}
	}
	if found == nil {
		if len(problems) == 0 {
			problems = append(problems, "no `workers == 1` shortcut delegating to the sequential method, and no sequential counterpart found by name")
		}
		out.undecide("SEQ-1", name, pos, problems[0])
		return nil, nil
	}
	pos = p.Pos(ssau.PosOf(found))
	// expected counterpart: same receiver type, name without the parallel suffix
	wantName := strings.TrimSuffix(strings.TrimSuffix(fn.Name(), "WithPoolSize"), "Parallel")
	if foundFn.Name() != wantName || !sameRecv(foundFn, fn) {
		problems = append(problems, "workers == 1 delegates to "+p.FuncName(foundFn)+", expected the sequential counterpart "+wantName)
	}
	hasGo := false
	ssau.AllInstrs(foundFn, func(in ssa.Instruction) {
		if _, ok := in.(*ssa.Go); ok {
			hasGo = true
		}
	})
	if hasGo {
		problems = append(problems, "the sequential counterpart itself spawns goroutines")
	}
	// arguments: own parameters in order, pool size skipped
	var own []*ssa.Parameter
	for _, prm := range fn.Params {
		if prm != pa.sizePar {
			own = append(own, prm)
		}
	}
	args := found.Call.Args
	if len(args) != len(own) {
		problems = append(problems, fmt.Sprintf("sequential counterpart called with %d arguments, expected the %d own parameters", len(args), len(own)))
	} else {
		for i, a := range args {
			if r, _ := pa.root.resolve(a); r != ssa.Value(own[i]) {
				problems = append(problems, fmt.Sprintf("argument %d of the sequential call is %s, not parameter %s", i, pa.root.str(a), own[i].Name()))
			}
		}
	}
	if len(problems) > 0 {
		out.violate("SEQ-1", name, pos, problems[0], problems[1:]...)
	} else {
		out.hold("SEQ-1", name, pos, "workers == 1 returns "+p.FuncName(foundFn)+" with the same receiver and arguments")
	}
	return foundFn, found
}

func sameRecv(a, b *ssa.Function) bool {
	ra, rb := a.Signature.Recv(), b.Signature.Recv()
	if ra == nil || rb == nil {
		return ra == rb
	}
	return types.Identical(ra.Type(), rb.Type())
}

// wgOf returns the canonical root of a WaitGroup operand.
func wgRoot(v ssa.Value) ssa.Value { return lockset.Canon(v).Root }

func isWG(c ssa.CallInstruction, method string) (ssa.Value, bool) {
	o := ssau.CalleeObj(c)
	if o == nil || !ssau.IsMethod(o, "sync", "WaitGroup", method) || len(c.Common().Args) == 0 {
		return nil, false
	}
	k := lockset.Canon(c.Common().Args[0])
	if k.Path != "" {
		return c.Common().Args[0], true
	}
	return k.Root, true
}

// conc2: wait-group discipline.
func (pa *poolAnalysis) conc2(mc *ssa.MakeClosure, we *env, visits []visit, out sink) {
	p := pa.k.c.P
	fn := pa.fn
	name := p.FuncName(fn)
	pos := p.Pos(ssau.PosOf(pa.goInstr))
	var problems, facts []string
	// Done in the worker
	var wg ssa.Value
	wfn := we.fn
	doneOK := false
	ssau.AllInstrs(wfn, func(in ssa.Instruction) {
		ci, ok := in.(ssa.CallInstruction)
		if !ok {
			return
		}
		w, ok := isWG(ci, "Done")
		if !ok {
			return
		}
		wg = w
		dominatesAll := true
		for _, b := range wfn.Blocks {
			if b == wfn.Recover || len(b.Instrs) == 0 {
				continue
			}
			if _, isRet := b.Instrs[len(b.Instrs)-1].(*ssa.Return); isRet && !in.Block().Dominates(b) {
				dominatesAll = false
			}
		}
		if _, isDefer := in.(*ssa.Defer); isDefer && dominatesAll {
			doneOK = true
			facts = append(facts, "worker defers Done")
		} else if dominatesAll {
			doneOK = true
			facts = append(facts, "worker calls Done on every path (a panic in the callback would skip it)")
		}
	})
	if wg == nil {
		out.violate("CONC-2", name, pos, "spawned worker never signals a sync.WaitGroup: the coordinator cannot know when results are complete")
		return
	}
	if !doneOK {
		problems = append(problems, "worker does not call Done on every path to its return")
	}
	// Add before go
	addOK := false
	var waits []ssa.Instruction
	ssau.AllInstrs(fn, func(in ssa.Instruction) {
		ci, ok := in.(ssa.CallInstruction)
		if !ok {
			return
		}
		if w, ok := isWG(ci, "Add"); ok && w == wg {
			if _, isGo := in.(*ssa.Go); isGo {
				return
			}
			arg := pa.root.eval(ci.Common().Args[1])
			ap, plain := arg.plain()
			inLoop := pa.spawnL.Blocks[in.Block()]
			switch {
			case inLoop && plain && ap.equal(pConst(1)) && ssau.Before(in, pa.goInstr):
				addOK = true
				facts = append(facts, "Add(1) dominates the go statement in the same iteration")
			case !inLoop && plain && ap.equal(pa.n) && ssau.Before(in, pa.goInstr):
				addOK = true
				facts = append(facts, "Add(workers) before the spawn loop")
			default:
				problems = append(problems, "Add("+arg.String()+") at "+p.Pos(ssau.PosOf(in))+" does not account for exactly one Done per spawned worker before the worker starts")
			}
		}
		if w, ok := isWG(ci, "Wait"); ok && w == wg {
			if _, isCall := in.(*ssa.Call); isCall {
				waits = append(waits, in)
			}
		}
	})
	if !addOK {
		problems = append(problems, "no Add that dominates the go statement")
	}
	// CONC-7 Add/Done pairing: every Add(1) is followed, on every path through the iteration, by the go
	// statement whose worker calls Done (an Add without its worker leaves Wait() blocked for ever); with
	// Add(workers) up front every iteration must spawn.
	pairing := []string{}
	goB := pa.goInstr.Block()
	ssau.AllInstrs(fn, func(in ssa.Instruction) {
		ci, ok := in.(*ssa.Call)
		if !ok {
			return
		}
		if w, ok := isWG(ci, "Add"); !ok || w != wg {
			return
		}
		if !pa.spawnL.Blocks[in.Block()] {
			return
		}
		if in.Block() == goB {
			if ssau.InstrIndex(in) < ssau.InstrIndex(pa.goInstr) {
				return
			}
		}
		// can the iteration end (back edge, loop exit, return) without passing the go statement?
		avoid := map[*ssa.BasicBlock]bool{goB: true}
		escapes := false
		if ssau.ReachesAvoiding(in.Block(), pa.spawnL.Header, avoid) {
			escapes = true
		}
		for _, b := range fn.Blocks {
			if !pa.spawnL.Blocks[b] && b != fn.Recover && ssau.ReachesAvoiding(in.Block(), b, avoid) {
				// leaving the loop without spawning (only through the header's exit edge is normal, and
				// the header is reached via the back edge, which is checked above)
				if !pa.spawnL.Header.Dominates(b) || reachesWithout(in.Block(), b, avoid, pa.spawnL.Header) {
					escapes = true
				}
			}
		}
		if escapes {
			pairing = append(pairing, "Add(1) at "+p.Pos(ssau.PosOf(in))+" is not followed by the go statement on every path (an iteration can end after Add without starting the worker that calls Done): Wait() never returns")
		}
	})
	if addOK && len(pairing) == 0 {
		for _, in := range addsBeforeLoop(fn, pa, wg) {
			for _, latch := range pa.spawnL.Latch {
				if !goB.Dominates(latch) {
					pairing = append(pairing, "Add(workers) at "+p.Pos(ssau.PosOf(in))+" counts every iteration but an iteration can skip the go statement: Wait() never returns")
				}
			}
		}
	}
	conc7 := name + ":add-done-pairing"
	if len(pairing) > 0 {
		pairing = dedup(pairing)
		pa.out.violate("CONC-7", conc7, pos, pairing[0], pairing[1:]...)
	} else if addOK && doneOK {
		pa.out.hold("CONC-7", conc7, pos, "every Add is matched by exactly one spawned worker that calls Done on every path")
	}
	// Wait on every path from the spawn loop to a return / read of a result array
	if len(waits) == 0 {
		problems = append(problems, "no Wait(): the function returns while workers may still run")
	} else {
		afterWait := func(in ssa.Instruction) bool {
			for _, w := range waits {
				if !pa.spawnL.Blocks[w.Block()] && ssau.Before(w, in) {
					return true
				}
			}
			return false
		}
		for _, b := range fn.Blocks {
			if len(b.Instrs) == 0 {
				continue
			}
			if ret, ok := b.Instrs[len(b.Instrs)-1].(*ssa.Return); ok && ssau.CanFollow(pa.goInstr, ret) && !afterWait(ret) {
				problems = append(problems, "return at "+p.Pos(ssau.PosOf(ret))+" is reachable from the spawn loop without passing Wait()")
			}
		}
		// reads of result cells
		cells := map[ssa.Value]bool{}
		for _, v := range visits {
			if v.store != nil && v.dstCell != nil {
				if b, be := v.e.freeVarOrSelf(v.dstCell); b != nil && be != nil {
					cells[b] = true
				}
			}
		}
		for cell := range cells {
			for _, r := range ssau.Refs(cell) {
				if r.Parent() != fn {
					continue
				}
				if _, isMC := r.(*ssa.MakeClosure); isMC {
					continue
				}
				if st, ok := r.(*ssa.Store); ok && st.Addr == cell && !ssau.CanFollow(pa.goInstr, r) {
					continue
				}
				if ssau.CanFollow(pa.goInstr, r) && !afterWait(r) {
					problems = append(problems, "result array is accessed at "+p.Pos(ssau.PosOf(r))+" before Wait()")
				}
			}
		}
		if len(cells) > 0 {
			facts = append(facts, "every use of the result array after the spawn loop is dominated by Wait()")
		}
		facts = append(facts, "Wait() dominates every return reachable from the spawn loop")
	}
	if len(problems) > 0 {
		sort.Strings(problems)
		out.violate("CONC-2", name, pos, problems[0], append(problems[1:], facts...)...)
	} else {
		out.hold("CONC-2", name, pos, facts...)
	}
}

// freeVarOrSelf maps a free variable (captured cell) to its binding in the parent.
func (e *env) freeVarOrSelf(v ssa.Value) (ssa.Value, *env) {
	if fv, ok := v.(*ssa.FreeVar); ok {
		return e.freeVarBinding(fv)
	}
	return v, e
}

// conc3: what the worker writes.
func (pa *poolAnalysis) conc3(mc *ssa.MakeClosure, we *env, visits []visit, out sink) {
	p := pa.k.c.P
	name := p.FuncName(pa.fn)
	pos := p.Pos(ssau.PosOf(pa.goInstr))
	var problems, facts []string
	okStores := map[*ssa.Store]bool{}
	fns := map[*ssa.Function]bool{we.fn: true}
	for _, v := range visits {
		fns[v.fn] = true
		if v.store != nil && len(v.problems) == 0 {
			okStores[v.store] = true
		}
	}
	// captured variables the spawn loop keeps writing (per-loop variables before go 1.22)
	if mc != nil {
		for i, b := range mc.Bindings {
			a, ok := b.(*ssa.Alloc)
			if !ok {
				continue
			}
			stores := 0
			for _, r := range ssau.Refs(a) {
				if st, ok := r.(*ssa.Store); ok && st.Addr == ssa.Value(a) {
					stores++
					if pa.spawnL.Blocks[st.Block()] && !pa.spawnL.Blocks[a.Block()] {
						problems = append(problems, "worker captures variable '"+allocName(a)+"' which the spawn loop re-assigns (shared between iterations)")
					}
				}
			}
			_ = i
		}
	}
	var names []string
	for f := range fns {
		names = append(names, f.String())
	}
	sort.Strings(names)
	nStores := 0
	for f := range fns {
		local := func(addr ssa.Value) bool {
			k := lockset.Canon(addr)
			a, ok := k.Root.(*ssa.Alloc)
			if !ok {
				return false
			}
			// an alloc of this very function (or of a helper) that is not a captured cell
			return a.Parent() == f
		}
		ssau.AllInstrs(f, func(in ssa.Instruction) {
			switch x := in.(type) {
			case *ssa.Store:
				nStores++
				if okStores[x] || local(x.Addr) {
					return
				}
				if ia, ok := x.Addr.(*ssa.IndexAddr); ok {
					if base, _ := (&env{fn: f, ev: pa.ev, params: map[*ssa.Parameter]binding{}}).resolve(ia.X); base != nil {
						if a, ok := base.(*ssa.Alloc); ok && a.Parent() == f {
							return
						}
						if ms, ok := base.(*ssa.MakeSlice); ok && ms.Parent() == f {
							return
						}
					}
				}
				problems = append(problems, "worker writes shared memory at "+p.Pos(ssau.PosOf(in))+" ("+f.Name()+"): only dst[i] for its own i is disjoint between workers")
			case *ssa.MapUpdate:
				if mm, ok := x.Map.(*ssa.MakeMap); ok && mm.Parent() == f {
					return
				}
				problems = append(problems, "worker updates a map at "+p.Pos(ssau.PosOf(in)))
			}
		})
	}
	facts = append(facts, fmt.Sprintf("%d stores in worker code: all to worker-local memory or dst[own index]", nStores))
	if len(problems) > 0 {
		sort.Strings(problems)
		problems = dedup(problems)
		out.violate("CONC-3", name, pos, problems[0], append(problems[1:], facts...)...)
	} else {
		out.hold("CONC-3", name, pos, facts...)
	}
}

func dedup(xs []string) []string {
	var out []string
	for i, x := range xs {
		if i == 0 || xs[i-1] != x {
			out = append(out, x)
		}
	}
	return out
}

// resultAgreement: the parallel method returns what the sequential one returns
// (same constructor applied to the result array / the receiver itself).
func (pa *poolAnalysis) resultAgreement(seqFn *ssa.Function, seqCall *ssa.Call, visits, seqVisits []visit, out sink) {
	if seqFn == nil {
		return
	}
	p := pa.k.c.P
	name := p.FuncName(pa.fn) + ":result"
	desc := func(e *env, fn *ssa.Function, vs []visit, skip *ssa.Call) []string {
		dsts := map[ssa.Value]bool{}
		for _, v := range vs {
			if v.dst != nil {
				dsts[v.dst] = true
			}
		}
		var out []string
		for _, b := range fn.Blocks {
			if b == fn.Recover || len(b.Instrs) == 0 {
				continue
			}
			ret, ok := b.Instrs[len(b.Instrs)-1].(*ssa.Return)
			if !ok || len(ret.Results) != 1 {
				continue
			}
			if skip != nil && ret.Results[0] == ssa.Value(skip) {
				continue
			}
			r, re := e.resolve(ret.Results[0])
			if c, ok := r.(*ssa.Call); ok && c.Common().StaticCallee() != nil {
				var args []string
				for _, a := range c.Call.Args {
					ra, _ := re.resolve(a)
					if dsts[ra] {
						args = append(args, "RESULT-ARRAY")
					} else {
						args = append(args, re.str(a))
					}
				}
				out = append(out, c.Common().StaticCallee().String()+"("+strings.Join(args, ",")+")")
			} else {
				out = append(out, re.str(r))
			}
		}
		sort.Strings(out)
		return dedup(out)
	}
	par := desc(pa.root, pa.fn, visits, seqCall)
	seq := desc(pa.root.callEnv(seqFn, pa.seqArgs), seqFn, seqVisits, nil)
	pos := p.Pos(pa.fn.Pos())
	if strings.Join(par, " | ") == strings.Join(seq, " | ") && len(par) > 0 {
		out.hold("SEQ-1", name, pos, "both return "+strings.Join(par, " | "))
	} else {
		out.violate("SEQ-1", name, pos, "parallel method returns "+strings.Join(par, " | ")+" but its sequential counterpart returns "+strings.Join(seq, " | "))
	}
}

// wrapper checks SEQ-1 for X-Parallel(): delegates to the pool-size method with its own
// arguments and a pool size ≥ 1.
func (k *checker) wrapper(w, pool *ssa.Function, sizePar int, out sink) {
	p := k.c.P
	name := p.FuncName(w) + ":wrapper"
	pos := p.Pos(w.Pos())
	ev := newEvaluator()
	root := ev.root(w)
	var call *ssa.Call
	ssau.AllInstrs(w, func(in ssa.Instruction) {
		if c, ok := in.(*ssa.Call); ok && c.Common().StaticCallee() == pool {
			call = c
		}
	})
	if call == nil {
		out.violate("SEQ-1", name, pos, "does not call "+p.FuncName(pool))
		return
	}
	var problems []string
	// the call's result is returned on every path
	for _, b := range w.Blocks {
		if len(b.Instrs) == 0 {
			continue
		}
		if ret, ok := b.Instrs[len(b.Instrs)-1].(*ssa.Return); ok {
			if len(ret.Results) != 1 || ret.Results[0] != ssa.Value(call) {
				problems = append(problems, "a return does not return the pool-size method's result")
			}
		}
	}
	wi := 0
	for i, a := range call.Call.Args {
		if i == sizePar {
			r, re := root.resolve(a)
			ok := false
			if c, isCall := r.(*ssa.Call); isCall {
				if o := ssau.CalleeObj(c); o != nil && (ssau.IsFunc(o, "runtime", "NumCPU") || ssau.IsFunc(o, "runtime", "GOMAXPROCS")) {
					ok = true
				}
			}
			if g, isP := re.eval(r).plain(); isP {
				if cst, isC := g.constant(); isC && cst.Sign() > 0 {
					ok = true
				}
			}
			if !ok {
				problems = append(problems, "pool size argument "+re.str(r)+" is not runtime.NumCPU()/GOMAXPROCS or a positive constant")
			}
			continue
		}
		if wi >= len(w.Params) {
			problems = append(problems, "more arguments than own parameters")
			break
		}
		if r, _ := root.resolve(a); r != ssa.Value(w.Params[wi]) {
			problems = append(problems, fmt.Sprintf("argument %d is %s, not own parameter %s", i, root.str(a), w.Params[wi].Name()))
		}
		wi++
	}
	if len(problems) > 0 {
		out.violate("SEQ-1", name, pos, problems[0], problems[1:]...)
	} else {
		out.hold("SEQ-1", name, pos, "returns "+p.FuncName(pool)+"(own arguments…, runtime.NumCPU())")
	}
}

func singleAtomOr(p Poly) string {
	if a, ok := p.singleAtom(); ok {
		return a
	}
	return "\x00none"
}

// workersLowerBound computes a lower bound of the worker count under the assumptions
// total ≥ 1 and pool size ≥ 1. exact reports that the bound is attained for some input
// (only constants, parameters, len(total), φ choices, min/max and division by a constant
// are involved), so a bound below 1 is a counter-example and not just ignorance.
func (pa *poolAnalysis) workersLowerBound(v ssa.Value, total Poly, depth int) (lb int64, exact bool, how string) {
	const unknown = int64(-1 << 40)
	if depth > 12 {
		return unknown, false, "expression too deep"
	}
	e := pa.root
	switch x := v.(type) {
	case *ssa.Const:
		if n, ok := ssau.ConstInt(x); ok {
			return n, true, fmt.Sprint(n)
		}
	case *ssa.Parameter:
		return 1, true, "pool size parameter " + x.Name() + " ≥ 1"
	case *ssa.Convert:
		return pa.workersLowerBound(x.X, total, depth+1)
	case *ssa.ChangeType:
		return pa.workersLowerBound(x.X, total, depth+1)
	case *ssa.UnOp:
		if x.Op == token.MUL {
			if sv, _ := e.cellValue(x.X); sv != nil {
				return pa.workersLowerBound(sv, total, depth+1)
			}
		}
	case *ssa.Phi:
		best, ex := int64(1<<40), true
		var parts []string
		for _, ed := range x.Edges {
			if ed == ssa.Value(x) {
				continue
			}
			l, e1, h := pa.workersLowerBound(ed, total, depth+1)
			parts = append(parts, h)
			if l < best {
				best = l
			}
			ex = ex && e1
		}
		return best, ex, "one of {" + strings.Join(parts, " | ") + "}"
	case *ssa.BinOp:
		l1, e1, h1 := pa.workersLowerBound(x.X, total, depth+1)
		l2, e2, h2 := pa.workersLowerBound(x.Y, total, depth+1)
		switch x.Op {
		case token.QUO:
			if c, ok := ssau.ConstInt(x.Y); ok && c > 0 && l1 >= 0 {
				return l1 / c, e1, fmt.Sprintf("(%s)/%d", h1, c)
			}
		case token.ADD:
			if l1 > unknown && l2 > unknown {
				return l1 + l2, e1 && e2, h1 + " + " + h2
			}
		case token.MUL:
			if l1 >= 0 && l2 >= 0 {
				return l1 * l2, e1 && e2, h1 + " * " + h2
			}
		}
	case *ssa.Call:
		switch ssau.Builtin(x) {
		case "len", "cap":
			if p, ok := e.evalLen(x.Call.Args[0]).plain(); ok && p.equal(total) {
				return 1, true, "total ≥ 1"
			}
			return 0, false, "a length ≥ 0"
		case "min":
			best, ex := int64(1<<40), true
			var parts []string
			for _, a := range x.Call.Args {
				l, e1, h := pa.workersLowerBound(a, total, depth+1)
				parts = append(parts, h)
				if l < best {
					best = l
				}
				ex = ex && e1
			}
			return best, ex, "min(" + strings.Join(parts, ", ") + ")"
		case "max":
			best, ex := unknown, true
			var parts []string
			for _, a := range x.Call.Args {
				l, e1, h := pa.workersLowerBound(a, total, depth+1)
				parts = append(parts, h)
				if l > best {
					best = l
				}
				ex = ex && e1
			}
			return best, ex, "max(" + strings.Join(parts, ", ") + ")"
		}
		if o := ssau.CalleeObj(x); o != nil && (ssau.IsFunc(o, "runtime", "NumCPU") || ssau.IsFunc(o, "runtime", "GOMAXPROCS")) {
			return 1, true, o.Name() + "() ≥ 1"
		}
	}
	return unknown, false, "value " + e.str(v) + " has no known lower bound"
}

// reachesWithout: is there a path from a to b that avoids `avoid` and also never passes through via?
func reachesWithout(a, b *ssa.BasicBlock, avoid map[*ssa.BasicBlock]bool, via *ssa.BasicBlock) bool {
	av := map[*ssa.BasicBlock]bool{via: true}
	for k := range avoid {
		av[k] = true
	}
	return ssau.ReachesAvoiding(a, b, av)
}

// addsBeforeLoop: Add calls on wg outside the spawn loop that dominate the go statement.
func addsBeforeLoop(fn *ssa.Function, pa *poolAnalysis, wg ssa.Value) []ssa.Instruction {
	var out []ssa.Instruction
	ssau.AllInstrs(fn, func(in ssa.Instruction) {
		if ci, ok := in.(*ssa.Call); ok {
			if w, ok := isWG(ci, "Add"); ok && w == wg && !pa.spawnL.Blocks[in.Block()] && ssau.Before(in, pa.goInstr) {
				out = append(out, in)
			}
		}
	})
	return out
}

const lbUnknown = int64(-1 << 40)

// totalLowerBound: a lower bound of the value whose polynomial is tp, at the spawn loop: the best of
// the structural bounds of the SSA values that evaluate to tp, and of the bounds implied by branches
// that dominate the go statement (early returns on total <= 0 and the like).
func (pa *poolAnalysis) totalLowerBound(tp Poly) (int64, bool, string) {
	best, bestExact, bestHow := lbUnknown, false, "no value of the function evaluates to it"
	consider := func(lb int64, exact bool, how string) {
		if lb > best || (lb == best && exact && !bestExact) {
			best, bestExact, bestHow = lb, exact, how
		}
	}
	if c, ok := tp.constant(); ok && c.IsInt() {
		consider(c.Num().Int64(), true, "constant")
	}
	matches := func(v ssa.Value) bool {
		if !isNumeric(v.Type()) {
			return false
		}
		p, ok := pa.root.eval(v).plain()
		return ok && p.equal(tp)
	}
	ssau.AllInstrs(pa.fn, func(in ssa.Instruction) {
		v, ok := in.(ssa.Value)
		if !ok || !matches(v) {
			return
		}
		lb, exact, how := pa.valueLowerBound(pa.root, v, 0)
		consider(lb, exact, how)
	})
	// dominating guards
	gb := pa.goInstr.Block()
	for _, b := range pa.fn.Blocks {
		if len(b.Instrs) == 0 || !b.Dominates(gb) || b == gb {
			continue
		}
		ifi, ok := b.Instrs[len(b.Instrs)-1].(*ssa.If)
		if !ok {
			continue
		}
		cmp, ok := ifi.Cond.(*ssa.BinOp)
		if !ok {
			continue
		}
		onTrue := b.Succs[0].Dominates(gb) && !b.Succs[1].Dominates(gb)
		onFalse := b.Succs[1].Dominates(gb) && !b.Succs[0].Dominates(gb)
		if !onTrue && !onFalse {
			continue
		}
		op, x, y := cmp.Op, cmp.X, cmp.Y
		c, isC := ssau.ConstInt(y)
		if !isC {
			// constant on the left: mirror
			if c2, ok := ssau.ConstInt(x); ok && matches(y) {
				c, isC, x = c2, true, y
				switch op {
				case token.LSS:
					op = token.GTR
				case token.LEQ:
					op = token.GEQ
				case token.GTR:
					op = token.LSS
				case token.GEQ:
					op = token.LEQ
				}
			}
		}
		if !isC || !matches(x) {
			continue
		}
		bound := lbUnknown
		switch {
		case op == token.LSS && onFalse: // !(t < c)
			bound = c
		case op == token.LEQ && onFalse: // !(t <= c)
			bound = c + 1
		case op == token.GTR && onTrue:
			bound = c + 1
		case op == token.GEQ && onTrue:
			bound = c
		case op == token.EQL && onTrue:
			bound = c
		}
		if bound > lbUnknown {
			consider(bound, true, fmt.Sprintf("guarded by the branch at %s (total ≥ %d on the way to the spawn loop)", pa.k.c.P.Pos(ssau.PosOf(ifi)), bound))
		}
	}
	return best, bestExact, bestHow
}

// valueLowerBound: structural lower bound of an integer value; exact = attained for some input.
func (pa *poolAnalysis) valueLowerBound(e *env, v ssa.Value, depth int) (int64, bool, string) {
	if depth > 14 {
		return lbUnknown, false, "expression too deep"
	}
	switch x := v.(type) {
	case *ssa.Const:
		if n, ok := ssau.ConstInt(x); ok {
			return n, true, fmt.Sprint(n)
		}
	case *ssa.Convert:
		return pa.valueLowerBound(e, x.X, depth+1)
	case *ssa.ChangeType:
		return pa.valueLowerBound(e, x.X, depth+1)
	case *ssa.UnOp:
		if x.Op == token.MUL {
			if sv, se := e.cellValue(x.X); sv != nil {
				return pa.valueLowerBound(se, sv, depth+1)
			}
		}
	case *ssa.Phi:
		best, ex := int64(1<<40), true
		var parts []string
		for _, ed := range x.Edges {
			if ed == ssa.Value(x) {
				continue
			}
			l, e1, h := pa.valueLowerBound(e, ed, depth+1)
			parts = append(parts, h)
			if l < best {
				best = l
			}
			ex = ex && e1
		}
		return best, ex, "one of {" + strings.Join(parts, " | ") + "}"
	case *ssa.BinOp:
		l1, e1, h1 := pa.valueLowerBound(e, x.X, depth+1)
		switch x.Op {
		case token.ADD, token.SUB:
			if c, ok := ssau.ConstInt(x.Y); ok && l1 > lbUnknown {
				if x.Op == token.SUB {
					c = -c
				}
				return l1 + c, e1, fmt.Sprintf("%s %+d", h1, c)
			}
			if x.Op == token.ADD {
				l2, e2, h2 := pa.valueLowerBound(e, x.Y, depth+1)
				if l1 > lbUnknown && l2 > lbUnknown {
					return l1 + l2, e1 && e2, h1 + " + " + h2
				}
			}
		case token.MUL:
			l2, e2, h2 := pa.valueLowerBound(e, x.Y, depth+1)
			if l1 >= 0 && l2 >= 0 {
				return l1 * l2, e1 && e2, h1 + " * " + h2
			}
		case token.QUO:
			l2, _, h2 := pa.valueLowerBound(e, x.Y, depth+1)
			if l1 >= 0 && l2 >= 1 {
				return 0, e1, "(" + h1 + ") / (" + h2 + ")"
			}
		}
	case *ssa.Call:
		switch ssau.Builtin(x) {
		case "len", "cap":
			return 0, true, "a length (0 for an empty slice)"
		case "max":
			best, ex := lbUnknown, true
			var parts []string
			for _, a := range x.Call.Args {
				l, e1, h := pa.valueLowerBound(e, a, depth+1)
				parts = append(parts, h)
				if l > best {
					best = l
				}
				ex = ex && e1
			}
			return best, ex, "max(" + strings.Join(parts, ", ") + ")"
		case "min":
			best, ex := int64(1<<40), true
			var parts []string
			for _, a := range x.Call.Args {
				l, e1, h := pa.valueLowerBound(e, a, depth+1)
				parts = append(parts, h)
				if l < best {
					best = l
				}
				ex = ex && e1
			}
			return best, ex, "min(" + strings.Join(parts, ", ") + ")"
		}
		callee := x.Call.StaticCallee()
		if callee != nil && pa.k.inModule(callee) && len(callee.Blocks) > 0 && depth < 6 {
			ce := e.callEnv(callee, x.Call.Args)
			best, ex := int64(1<<40), true
			var parts []string
			for _, b := range callee.Blocks {
				if len(b.Instrs) == 0 || b == callee.Recover {
					continue
				}
				if ret, ok := b.Instrs[len(b.Instrs)-1].(*ssa.Return); ok && len(ret.Results) == 1 {
					l, e1, h := pa.valueLowerBound(ce, ret.Results[0], depth+1)
					parts = append(parts, h)
					if l < best {
						best = l
					}
					ex = ex && e1
				}
			}
			if len(parts) > 0 {
				return best, ex, shortName(callee) + " returns one of {" + strings.Join(dedup(sortedCopy(parts)), " | ") + "}"
			}
		}
	}
	return lbUnknown, false, "value " + e.str(v) + " has no known lower bound"
}

func shortName(fn *ssa.Function) string {
	if o, ok := fn.Object().(*types.Func); ok {
		return shortFunc(o)
	}
	return fn.Name()
}

func sortedCopy(xs []string) []string {
	out := append([]string{}, xs...)
	sort.Strings(out)
	return out
}
