package c10

import (
	"math/big"
	"sort"
	"strings"
)

// Poly is a multivariate polynomial with rational coefficients over named atoms.
// A monomial key is the sorted list of its atoms (with repetition) joined by "·";
// the constant monomial is "".
type Poly map[string]*big.Rat

type bigRat = big.Rat

const monoSep = "·"

func pConst(n int64) Poly {
	if n == 0 {
		return Poly{}
	}
	return Poly{"": big.NewRat(n, 1)}
}

func pAtom(name string) Poly {
	name = strings.ReplaceAll(name, monoSep, "*")
	return Poly{name: big.NewRat(1, 1)}
}

func (p Poly) clone() Poly {
	o := Poly{}
	for k, v := range p {
		o[k] = new(big.Rat).Set(v)
	}
	return o
}

func (p Poly) norm() Poly {
	for k, v := range p {
		if v.Sign() == 0 {
			delete(p, k)
		}
	}
	return p
}

func (p Poly) add(q Poly) Poly {
	o := p.clone()
	for k, v := range q {
		if c, ok := o[k]; ok {
			c.Add(c, v)
		} else {
			o[k] = new(big.Rat).Set(v)
		}
	}
	return o.norm()
}

func (p Poly) neg() Poly {
	o := Poly{}
	for k, v := range p {
		o[k] = new(big.Rat).Neg(v)
	}
	return o
}

func (p Poly) sub(q Poly) Poly { return p.add(q.neg()) }

func mulMono(a, b string) string {
	if a == "" {
		return b
	}
	if b == "" {
		return a
	}
	parts := append(strings.Split(a, monoSep), strings.Split(b, monoSep)...)
	sort.Strings(parts)
	return strings.Join(parts, monoSep)
}

func (p Poly) mul(q Poly) Poly {
	o := Poly{}
	for k1, v1 := range p {
		for k2, v2 := range q {
			k := mulMono(k1, k2)
			c := new(big.Rat).Mul(v1, v2)
			if old, ok := o[k]; ok {
				old.Add(old, c)
			} else {
				o[k] = c
			}
		}
	}
	return o.norm()
}

func (p Poly) isZero() bool { return len(p.norm()) == 0 }

func (p Poly) equal(q Poly) bool { return p.sub(q).isZero() }

// constant returns the value if p is a constant.
func (p Poly) constant() (*big.Rat, bool) {
	p.norm()
	if len(p) == 0 {
		return new(big.Rat), true
	}
	if len(p) == 1 {
		if v, ok := p[""]; ok {
			return v, true
		}
	}
	return nil, false
}

// singleAtom returns the atom if p is exactly 1·atom.
func (p Poly) singleAtom() (string, bool) {
	p.norm()
	if len(p) != 1 {
		return "", false
	}
	for k, v := range p {
		if k != "" && !strings.Contains(k, monoSep) && v.Cmp(big.NewRat(1, 1)) == 0 {
			return k, true
		}
	}
	return "", false
}

// subst replaces atom by q.
func (p Poly) subst(atom string, q Poly) Poly {
	o := Poly{}
	for k, v := range p {
		term := Poly{"": new(big.Rat).Set(v)}
		if k != "" {
			for _, a := range strings.Split(k, monoSep) {
				if a == atom {
					term = term.mul(q)
				} else {
					term = term.mul(pAtom(a))
				}
			}
		}
		o = o.add(term)
	}
	return o.norm()
}

// mentions reports whether the atom occurs in p.
func (p Poly) mentions(atom string) bool {
	for k := range p {
		if k == "" {
			continue
		}
		for _, a := range strings.Split(k, monoSep) {
			if a == atom {
				return true
			}
		}
	}
	return false
}

// coeffOf returns the polynomial c such that p = c·atom + rest, with rest free of atom,
// and ok=false when atom occurs with a power other than 1.
func (p Poly) coeffOf(atom string) (c Poly, rest Poly, ok bool) {
	c, rest = Poly{}, Poly{}
	for k, v := range p {
		if k == "" {
			rest[k] = new(big.Rat).Set(v)
			continue
		}
		parts := strings.Split(k, monoSep)
		n := 0
		var others []string
		for _, a := range parts {
			if a == atom {
				n++
			} else {
				others = append(others, a)
			}
		}
		switch n {
		case 0:
			rest[k] = new(big.Rat).Set(v)
		case 1:
			c[strings.Join(others, monoSep)] = new(big.Rat).Set(v)
		default:
			return nil, nil, false
		}
	}
	return c.norm(), rest.norm(), true
}

func (p Poly) String() string {
	p.norm()
	if len(p) == 0 {
		return "0"
	}
	keys := make([]string, 0, len(p))
	for k := range p {
		keys = append(keys, k)
	}
	sort.Strings(keys)
	var sb strings.Builder
	for i, k := range keys {
		v := p[k]
		s := v.RatString()
		neg := v.Sign() < 0
		if neg {
			s = s[1:]
		}
		if i == 0 {
			if neg {
				sb.WriteString("-")
			}
		} else if neg {
			sb.WriteString(" - ")
		} else {
			sb.WriteString(" + ")
		}
		switch {
		case k == "":
			sb.WriteString(s)
		case s == "1":
			sb.WriteString(strings.ReplaceAll(k, monoSep, "*"))
		default:
			sb.WriteString(s + "*" + strings.ReplaceAll(k, monoSep, "*"))
		}
	}
	return sb.String()
}

// ---------------------------------------------------------------------------
// guarded values: a value that may differ between the last worker and the others

type guard int

const (
	gAny guard = iota
	gLast
	gNotLast
)

func (g guard) String() string { return [...]string{"any", "last", "not-last"}[g] }

type gTerm struct {
	g guard
	p Poly
}

// GVal is a guarded polynomial; opaque != "" means the value could not be expressed.
type GVal struct {
	terms  []gTerm
	opaque string
}

func gPoly(p Poly) GVal       { return GVal{terms: []gTerm{{gAny, p}}} }
func gOpaque(why string) GVal { return GVal{opaque: why} }

func (v GVal) ok() bool { return v.opaque == "" && len(v.terms) > 0 }

func meetGuard(a, b guard) (guard, bool) {
	if a == gAny {
		return b, true
	}
	if b == gAny || a == b {
		return a, true
	}
	return gAny, false
}

func gBin(a, b GVal, f func(x, y Poly) Poly) GVal {
	if !a.ok() {
		return a
	}
	if !b.ok() {
		return b
	}
	var out []gTerm
	for _, x := range a.terms {
		for _, y := range b.terms {
			if g, ok := meetGuard(x.g, y.g); ok {
				out = append(out, gTerm{g, f(x.p, y.p)})
			}
		}
	}
	return GVal{terms: out}
}

// under returns the polynomial of v under guard g.
func (v GVal) under(g guard) (Poly, bool) {
	if !v.ok() {
		return nil, false
	}
	for _, t := range v.terms {
		if t.g == g {
			return t.p, true
		}
	}
	for _, t := range v.terms {
		if t.g == gAny {
			return t.p, true
		}
	}
	return nil, false
}

// plain returns the polynomial when the value is unguarded.
func (v GVal) plain() (Poly, bool) {
	if !v.ok() || len(v.terms) != 1 || v.terms[0].g != gAny {
		return nil, false
	}
	return v.terms[0].p, true
}

func (v GVal) String() string {
	if !v.ok() {
		return "⊤(" + v.opaque + ")"
	}
	if p, ok := v.plain(); ok {
		return p.String()
	}
	var parts []string
	for _, t := range v.terms {
		parts = append(parts, t.g.String()+": "+t.p.String())
	}
	sort.Strings(parts)
	return "{" + strings.Join(parts, "; ") + "}"
}
