package c10

import (
	"fmt"
	"go/constant"
	"go/token"
	"go/types"
	"strings"

	"golang.org/x/tools/go/ssa"

	"polycheck/props/c13/lockset"
	"polycheck/ssau"
)

// A small symbolic evaluator over SSA (DESIGN.md §3.4 SYM): integer values become
// polynomials over atoms (parameters, len(x), opaque calls, induction variables);
// non-numeric values get a canonical access-path string. Closure cells with a single
// store are read as the stored value; free variables are resolved at the (unique)
// MakeClosure site; parameters of a followed call / spawned closure are bound to
// the actuals in the caller's environment.

type binding struct {
	val ssa.Value
	env *env
}

type env struct {
	fn     *ssa.Function
	params map[*ssa.Parameter]binding
	parent *env // where the closure was created (lexical parent), or the caller for a followed call
	site   *ssa.MakeClosure
	ev     *evaluator
}

type evaluator struct {
	ivs map[*ssa.Phi]string // induction variables -> atom
	// named: values given a symbol of their own (the worker count actually used by the spawn
	// loop when it is not simply a parameter, e.g. a clamped pool size)
	named map[ssa.Value]string
	// spawn loop facts for the last-worker guard
	spawnIV  *ssa.Phi
	spawnN   Poly
	haveLast bool
	depth    int
	// shape mode (canvas rules): induction variables are named by their range, fold φs are
	// rendered structurally, fields of channel messages are read at the send site
	autoIV  bool
	self    map[*ssa.Phi]bool
	chans   *chanModel
	loopsOf map[*ssa.Function][]*ssau.Loop
}

// chanModel: the send sites of every channel made in a parallel region.
type chanModel struct {
	sends map[*ssa.MakeChan][]sendSite
}

type sendSite struct {
	e    *env
	send *ssa.Send
}

func (ev *evaluator) loops(fn *ssa.Function) []*ssau.Loop {
	if ev.loopsOf == nil {
		ev.loopsOf = map[*ssa.Function][]*ssau.Loop{}
	}
	if l, ok := ev.loopsOf[fn]; ok {
		return l
	}
	l := ssau.Loops(fn)
	ev.loopsOf[fn] = l
	return l
}

// autoIVAtom names an induction variable by its range, so that two loops over the same
// range in two functions get the same atom.
func (e *env) autoIVAtom(phi *ssa.Phi) (string, bool) {
	for _, l := range e.ev.loops(phi.Parent()) {
		if l.Header != phi.Block() {
			continue
		}
		cl, _ := recogniseLoop(l)
		if cl == nil || cl.phi != phi {
			return "", false
		}
		lo, hi := cl.bounds(e)
		return "iv{" + lo.String() + ".." + hi.String() + "}", true
	}
	return "", false
}

// chanOf resolves a channel operand to the MakeChan that created it.
func (e *env) chanOf(v ssa.Value) *ssa.MakeChan {
	r, _ := e.resolve(v)
	mk, _ := r.(*ssa.MakeChan)
	return mk
}

// recvOf: is v (after resolution) a value received from a channel?  Returns the channel.
func (e *env) recvOf(v ssa.Value) (*ssa.MakeChan, bool) {
	r, re := e.resolve(v)
	if ex, ok := r.(*ssa.Extract); ok && ex.Index == 0 {
		r = ex.Tuple
	}
	if u, ok := r.(*ssa.UnOp); ok && u.Op == token.ARROW {
		if mk := re.chanOf(u.X); mk != nil {
			return mk, true
		}
	}
	return nil, false
}

// fieldStore returns the single value stored into field k of the struct cell a.
func fieldStore(a *ssa.Alloc, k int) ssa.Value {
	var val ssa.Value
	n := 0
	for _, r := range ssau.Refs(a) {
		fa, ok := r.(*ssa.FieldAddr)
		if !ok || fa.Field != k {
			continue
		}
		for _, rr := range ssau.Refs(fa) {
			if st, ok := rr.(*ssa.Store); ok && st.Addr == ssa.Value(fa) {
				n++
				val = st.Val
			}
		}
	}
	if n == 1 {
		return val
	}
	return nil
}

// ptrField: the value of field k of the struct that ptr points to.
func (e *env) ptrField(ptr ssa.Value, k int, depth int) (ssa.Value, *env) {
	if depth > 8 {
		return nil, nil
	}
	r, re := e.resolve(ptr)
	switch x := r.(type) {
	case *ssa.Alloc:
		if sv, se := re.cellValue(x); sv != nil {
			return se.valueField(sv, k, depth+1)
		}
		if fv := fieldStore(x, k); fv != nil {
			ae := re.find(x.Parent())
			if ae == nil {
				ae = re.ev.root(x.Parent())
			}
			return fv, ae
		}
	case *ssa.FreeVar:
		if b, be := re.freeVarBinding(x); b != nil {
			return be.ptrField(b, k, depth+1)
		}
	}
	if mk, ok := re.recvOf(r); ok && e.ev.chans != nil {
		return e.ev.chans.messageField(mk, k, depth, true)
	}
	return nil, nil
}

// valueField: the value of field k of the struct value v.
func (e *env) valueField(v ssa.Value, k int, depth int) (ssa.Value, *env) {
	if depth > 8 {
		return nil, nil
	}
	r, re := e.resolve(v)
	if u, ok := r.(*ssa.UnOp); ok && u.Op == token.MUL {
		return re.ptrField(u.X, k, depth+1)
	}
	if mk, ok := re.recvOf(r); ok && e.ev.chans != nil {
		return e.ev.chans.messageField(mk, k, depth, false)
	}
	return nil, nil
}

func (cm *chanModel) messageField(mk *ssa.MakeChan, k int, depth int, ptr bool) (ssa.Value, *env) {
	var val ssa.Value
	var venv *env
	first := ""
	for _, s := range cm.sends[mk] {
		var v ssa.Value
		var ve *env
		if ptr {
			v, ve = s.e.ptrField(s.send.X, k, depth+1)
		} else {
			v, ve = s.e.valueField(s.send.X, k, depth+1)
		}
		if v == nil {
			return nil, nil
		}
		str := ve.str(v)
		if first == "" {
			first, val, venv = str, v, ve
		} else if str != first {
			return nil, nil
		}
	}
	return val, venv
}

// structLit renders a struct cell assembled by per-field stores.
func (e *env) structLit(a *ssa.Alloc) (string, bool) {
	st, ok := a.Type().(*types.Pointer).Elem().Underlying().(*types.Struct)
	if !ok {
		return "", false
	}
	var parts []string
	for k := 0; k < st.NumFields(); k++ {
		fv := fieldStore(a, k)
		if fv == nil {
			// unset fields of a literal are zero
			any := false
			for _, r := range ssau.Refs(a) {
				if fa, ok := r.(*ssa.FieldAddr); ok && fa.Field == k {
					for _, rr := range ssau.Refs(fa) {
						if _, ok := rr.(*ssa.Store); ok {
							any = true
						}
					}
				}
			}
			if any {
				return "", false
			}
			continue
		}
		ae := e.find(a.Parent())
		if ae == nil {
			ae = e.ev.root(a.Parent())
		}
		parts = append(parts, st.Field(k).Name()+":"+ae.str(fv))
	}
	if len(parts) == 0 {
		return "", false
	}
	return "{" + strings.Join(parts, ",") + "}", true
}

func newEvaluator() *evaluator { return &evaluator{ivs: map[*ssa.Phi]string{}} }

func (ev *evaluator) root(fn *ssa.Function) *env {
	return &env{fn: fn, params: map[*ssa.Parameter]binding{}, ev: ev}
}

// closureEnv builds the environment of a function literal created by site (evaluated in e)
// and called with args.
func (e *env) closureEnv(site *ssa.MakeClosure, args []ssa.Value) *env {
	fn, _ := site.Fn.(*ssa.Function)
	if fn == nil {
		return nil
	}
	ne := &env{fn: fn, params: map[*ssa.Parameter]binding{}, parent: e, site: site, ev: e.ev}
	for i, p := range fn.Params {
		if i < len(args) {
			ne.params[p] = binding{args[i], e}
		}
	}
	return ne
}

// callEnv builds the environment of a statically called function.
func (e *env) callEnv(callee *ssa.Function, args []ssa.Value) *env {
	ne := &env{fn: callee, params: map[*ssa.Parameter]binding{}, parent: e, ev: e.ev}
	for i, p := range callee.Params {
		if i < len(args) {
			ne.params[p] = binding{args[i], e}
		}
	}
	return ne
}

func (e *env) find(fn *ssa.Function) *env {
	for x := e; x != nil; x = x.parent {
		if x.fn == fn {
			return x
		}
	}
	return nil
}

// freeVarBinding resolves a free variable to (value, env) at the closure's creation site.
func (e *env) freeVarBinding(fv *ssa.FreeVar) (ssa.Value, *env) {
	ce := e.find(fv.Parent())
	if ce == nil || ce.site == nil || ce.parent == nil {
		// not entered through a known site: use the unique syntactic site
		site := lockset.ClosureSite(fv.Parent())
		if site == nil {
			return nil, nil
		}
		for i, f := range fv.Parent().FreeVars {
			if f == fv && i < len(site.Bindings) {
				pe := e.find(site.Parent())
				if pe == nil {
					pe = e.ev.root(site.Parent())
				}
				return site.Bindings[i], pe
			}
		}
		return nil, nil
	}
	for i, f := range ce.fn.FreeVars {
		if f == fv && i < len(ce.site.Bindings) {
			return ce.site.Bindings[i], ce.parent
		}
	}
	return nil, nil
}

// cellValue: the value read by loading from addr, when addr is a variable cell
// (Alloc / captured cell) with a single store.
func (e *env) cellValue(addr ssa.Value) (ssa.Value, *env) {
	switch a := addr.(type) {
	case *ssa.Alloc:
		sv := lockset.SingleStore(a)
		if sv == nil && e.ev.autoIV {
			// shape mode: a spilled parameter whose address is only handed to method calls
			sv = lenientSingleStore(a)
		}
		if sv != nil {
			ae := e.find(a.Parent())
			if ae == nil {
				ae = e.ev.root(a.Parent())
			}
			// the store may live in a closure; only accept stores in the alloc's own function
			if in, ok := sv.(ssa.Instruction); ok && in.Parent() != a.Parent() {
				return nil, nil
			}
			if p, ok := sv.(*ssa.Parameter); ok && p.Parent() != a.Parent() {
				return nil, nil
			}
			return sv, ae
		}
	case *ssa.FreeVar:
		b, be := e.freeVarBinding(a)
		if b != nil {
			return be.cellValue(b)
		}
	}
	return nil, nil
}

func isFloat(t types.Type) bool {
	b, ok := t.Underlying().(*types.Basic)
	return ok && b.Info()&types.IsFloat != 0
}

func isNumeric(t types.Type) bool {
	b, ok := t.Underlying().(*types.Basic)
	return ok && b.Info()&(types.IsInteger|types.IsFloat) != 0
}

func (e *env) atomOf(v ssa.Value) GVal { return gPoly(pAtom(e.str(v))) }

// eval evaluates a numeric value.
func (e *env) eval(v ssa.Value) GVal {
	e.ev.depth++
	defer func() { e.ev.depth-- }()
	if e.ev.depth > 60 {
		return gOpaque("expression too deep")
	}
	if a, ok := e.ev.named[v]; ok {
		return gPoly(pAtom(a))
	}
	switch x := v.(type) {
	case *ssa.Const:
		if x.Value == nil {
			return gOpaque("nil constant")
		}
		if x.Value.Kind() == constant.Int {
			if n, ok := constant.Int64Val(x.Value); ok {
				return gPoly(pConst(n))
			}
		}
		if x.Value.Kind() == constant.Float {
			if n, ok := constant.Int64Val(constant.ToInt(x.Value)); ok {
				return gPoly(pConst(n))
			}
		}
		return gOpaque("non-integer constant " + x.Value.String())
	case *ssa.Parameter:
		if b, ok := e.find(x.Parent()).lookupParam(x); ok {
			return b.env.eval(b.val)
		}
		return gPoly(pAtom(x.Name()))
	case *ssa.Phi:
		if a, ok := e.ev.ivs[x]; ok {
			return gPoly(pAtom(a))
		}
		if e.ev.autoIV {
			if a, ok := e.autoIVAtom(x); ok {
				return gPoly(pAtom(a))
			}
		}
		if g := e.guardPhi(x); g.ok() {
			return g
		}
		return gOpaque("φ " + x.Comment + " in " + x.Parent().Name() + " is neither an induction variable nor a last-worker choice")
	case *ssa.BinOp:
		a, b := e.eval(x.X), e.eval(x.Y)
		switch x.Op {
		case token.ADD:
			return gBin(a, b, func(p, q Poly) Poly { return p.add(q) })
		case token.SUB:
			return gBin(a, b, func(p, q Poly) Poly { return p.sub(q) })
		case token.MUL:
			return gBin(a, b, func(p, q Poly) Poly { return p.mul(q) })
		case token.QUO:
			pa, ok1 := a.plain()
			pb, ok2 := b.plain()
			if !ok1 || !ok2 {
				return gOpaque("guarded quotient")
			}
			if isFloat(x.Type()) {
				if c, ok := pb.constant(); ok && c.Sign() != 0 {
					q := Poly{}
					for k, v := range pa {
						q[k] = new(bigRat).Quo(v, c)
					}
					return gPoly(q)
				}
				return gPoly(pAtom("div(" + pa.String() + "," + pb.String() + ")"))
			}
			return gPoly(pAtom("quo(" + pa.String() + "," + pb.String() + ")"))
		}
		return gOpaque("operator " + x.Op.String())
	case *ssa.Convert:
		in := e.eval(x.X)
		if isFloat(x.X.Type()) && !isFloat(x.Type()) {
			// float -> int truncates; for the non-negative quotients used here trunc = floor
			if p, ok := in.plain(); ok {
				if a, ok := p.singleAtom(); ok && strings.HasPrefix(a, "div(") {
					return gPoly(pAtom("floor(" + a + ")"))
				}
			}
		}
		return in
	case *ssa.ChangeType:
		return e.eval(x.X)
	case *ssa.UnOp:
		switch x.Op {
		case token.MUL:
			if sv, se := e.cellValue(x.X); sv != nil {
				return se.eval(sv)
			}
			if fa, ok := x.X.(*ssa.FieldAddr); ok {
				if fv, fe := e.ptrField(fa.X, fa.Field, 0); fv != nil {
					return fe.eval(fv)
				}
			}
			return e.atomOf(v)
		case token.SUB:
			in := e.eval(x.X)
			return gBin(in, gPoly(pConst(-1)), func(p, q Poly) Poly { return p.mul(q) })
		}
		return gOpaque("unary " + x.Op.String())
	case *ssa.Call:
		if b := ssau.Builtin(x); b == "len" || b == "cap" {
			return e.evalLen(x.Call.Args[0])
		}
		if b := ssau.Builtin(x); b == "max" && len(x.Call.Args) == 2 {
			// max(x, 0): a count clamped at zero. A loop `for i := 0; i < x` visits the same (empty)
			// range for x < 0 as for 0, so the clamp is dropped in the identities; the sign clause
			// (total-non-negative) sees it structurally.
			for k, a := range x.Call.Args {
				if n, ok := ssau.ConstInt(a); ok && n == 0 {
					return e.eval(x.Call.Args[1-k])
				}
			}
		}
		if o := ssau.CalleeObj(x); o != nil && ssau.IsFunc(o, "math", "Floor") {
			in := e.eval(x.Call.Args[0])
			if p, ok := in.plain(); ok {
				if _, isConst := p.constant(); isConst {
					return in
				}
				return gPoly(pAtom("floor(" + p.String() + ")"))
			}
			return gOpaque("floor of guarded value")
		}
		return e.atomOf(v)
	}
	if isNumeric(v.Type()) {
		return e.atomOf(v)
	}
	return gOpaque("non-numeric value " + v.Name())
}

func (e *env) lookupParam(p *ssa.Parameter) (binding, bool) {
	if e == nil {
		return binding{}, false
	}
	b, ok := e.params[p]
	return b, ok
}

// evalLen evaluates len(s).
func (e *env) evalLen(s ssa.Value) GVal {
	s, se := e.resolve(s)
	switch x := s.(type) {
	case *ssa.Slice:
		if x.High != nil {
			lo := gPoly(pConst(0))
			if x.Low != nil {
				lo = se.eval(x.Low)
			}
			return gBin(se.eval(x.High), lo, func(p, q Poly) Poly { return p.sub(q) })
		}
		if x.Low == nil {
			return se.evalLen(x.X)
		}
		return gBin(se.evalLen(x.X), se.eval(x.Low), func(p, q Poly) Poly { return p.sub(q) })
	case *ssa.MakeSlice:
		return se.eval(x.Len)
	}
	return gPoly(pAtom("len(" + se.str(s) + ")"))
}

// resolve follows cells, parameters and value-preserving wrappers to the defining value.
func (e *env) resolve(v ssa.Value) (ssa.Value, *env) {
	for i := 0; i < 40; i++ {
		switch x := v.(type) {
		case *ssa.UnOp:
			if x.Op == token.MUL {
				if sv, se := e.cellValue(x.X); sv != nil {
					v, e = sv, se
					continue
				}
			}
			return v, e
		case *ssa.Parameter:
			if b, ok := e.find(x.Parent()).lookupParam(x); ok {
				v, e = b.val, b.env
				continue
			}
			return v, e
		case *ssa.ChangeType:
			v = x.X
			continue
		case *ssa.MakeInterface:
			v = x.X
			continue
		case *ssa.Convert:
			if !isNumeric(x.Type()) {
				v = x.X
				continue
			}
			return v, e
		}
		return v, e
	}
	return v, e
}

// str renders any value canonically (in terms of the root function's parameters).
func (e *env) str(v ssa.Value) string {
	e.ev.depth++
	defer func() { e.ev.depth-- }()
	if e.ev.depth > 60 {
		return "…"
	}
	if isNumeric(v.Type()) {
		switch v.(type) {
		case *ssa.BinOp, *ssa.Const, *ssa.Convert, *ssa.Phi:
			if g := e.eval(v); g.ok() {
				return g.String()
			}
		}
	}
	switch x := v.(type) {
	case *ssa.Const:
		if x.Value == nil {
			return "nil"
		}
		return x.Value.ExactString()
	case *ssa.Parameter:
		if b, ok := e.find(x.Parent()).lookupParam(x); ok {
			return b.env.str(b.val)
		}
		return x.Name()
	case *ssa.FreeVar:
		if b, be := e.freeVarBinding(x); b != nil {
			return be.str(b)
		}
		return "freevar " + x.Name()
	case *ssa.Alloc:
		if sv, se := e.cellValue(x); sv != nil {
			return "&(" + se.str(sv) + ")"
		}
		return "&" + x.Parent().Name() + "." + allocName(x)
	case *ssa.UnOp:
		if x.Op == token.MUL {
			if sv, se := e.cellValue(x.X); sv != nil {
				return se.str(sv)
			}
			if fa, ok := x.X.(*ssa.FieldAddr); ok {
				if fv, fe := e.ptrField(fa.X, fa.Field, 0); fv != nil {
					return fe.str(fv)
				}
			}
			if a, ok := x.X.(*ssa.Alloc); ok {
				if lit, ok := e.structLit(a); ok {
					return lit
				}
			}
			s := e.str(x.X)
			if strings.HasPrefix(s, "&(") && strings.HasSuffix(s, ")") {
				return s[2 : len(s)-1]
			}
			return "*" + s
		}
		if x.Op == token.ARROW {
			if mk := e.chanOf(x.X); mk != nil && e.ev.chans != nil && !x.CommaOk {
				return e.ev.chans.messageStr(mk)
			}
			return "recv(" + e.str(x.X) + ")"
		}
		return x.Op.String() + e.str(x.X)
	case *ssa.FieldAddr:
		return e.str(x.X) + "." + fieldName(x.X.Type(), x.Field)
	case *ssa.Field:
		return e.str(x.X) + "." + fieldName(x.X.Type(), x.Field)
	case *ssa.IndexAddr:
		return e.str(x.X) + "[" + e.str(x.Index) + "]"
	case *ssa.Index:
		return e.str(x.X) + "[" + e.str(x.Index) + "]"
	case *ssa.Lookup:
		return "lookup(" + e.str(x.X) + "," + e.str(x.Index) + ")"
	case *ssa.Extract:
		if u, ok := x.Tuple.(*ssa.UnOp); ok && u.Op == token.ARROW && x.Index == 0 {
			if mk := e.chanOf(u.X); mk != nil && e.ev.chans != nil {
				return e.ev.chans.messageStr(mk)
			}
		}
		if call, ok := x.Tuple.(*ssa.Call); ok {
			if rv, re := e.inlineReturn(call, x.Index); rv != nil {
				return re.str(rv)
			}
		}
		return fmt.Sprintf("%s#%d", e.str(x.Tuple), x.Index)
	case *ssa.Next:
		return "next(" + e.str(x.Iter) + ")"
	case *ssa.Range:
		return "range(" + e.str(x.X) + ")"
	case *ssa.MakeChan:
		return "chan@" + x.Parent().Name() + "." + x.Name()
	case *ssa.Phi:
		return e.foldStr(x)
	case *ssa.Slice:
		lo, hi := "", ""
		if x.Low != nil {
			lo = e.str(x.Low)
		}
		if x.High != nil {
			hi = e.str(x.High)
		}
		return e.str(x.X) + "[" + lo + ":" + hi + "]"
	case *ssa.ChangeType:
		return e.str(x.X)
	case *ssa.MakeInterface:
		return e.str(x.X)
	case *ssa.Convert:
		return e.str(x.X)
	case *ssa.MakeSlice:
		return "make(" + x.Type().String() + "," + e.str(x.Len) + ")@" + x.Parent().Name()
	case *ssa.Call:
		if rv, re := e.inlineReturn(x, 0); rv != nil && x.Call.Signature().Results().Len() == 1 {
			return re.str(rv)
		}
		var args []string
		for _, a := range x.Call.Args {
			args = append(args, e.str(a))
		}
		name := "?"
		if b := ssau.Builtin(x); b != "" {
			name = b
		} else if o := ssau.CalleeObj(x); o != nil {
			name = shortFunc(o)
			if x.Call.IsInvoke() {
				args = append([]string{e.str(x.Call.Value)}, args...)
			}
		} else {
			name = "dyn " + e.str(x.Call.Value)
		}
		return name + "(" + strings.Join(args, ",") + ")"
	case *ssa.Function:
		return x.String()
	case *ssa.Global:
		return x.String()
	case *ssa.BinOp:
		return "(" + e.str(x.X) + x.Op.String() + e.str(x.Y) + ")"
	}
	return "v:" + v.Parent().Name() + ":" + v.Name()
}

func allocName(a *ssa.Alloc) string {
	if a.Comment != "" {
		return a.Comment
	}
	return a.Name()
}

func fieldName(t types.Type, idx int) string {
	if p, ok := t.Underlying().(*types.Pointer); ok {
		t = p.Elem()
	}
	if st, ok := t.Underlying().(*types.Struct); ok && idx < st.NumFields() {
		return st.Field(idx).Name()
	}
	return fmt.Sprintf("#%d", idx)
}

// ---------------------------------------------------------------------------
// last-worker guard

// condGuard classifies a branch condition of the spawn loop: which guard holds on
// the true edge (gLast / gNotLast), or gAny when it is not a last-worker test.
func (e *env) condGuard(cond ssa.Value) guard {
	ev := e.ev
	if !ev.haveLast {
		return gAny
	}
	b, ok := cond.(*ssa.BinOp)
	if !ok {
		return gAny
	}
	x, ok1 := e.eval(b.X).plain()
	y, ok2 := e.eval(b.Y).plain()
	if !ok1 || !ok2 {
		return gAny
	}
	iv := pAtom(ev.ivs[ev.spawnIV])
	last := iv.sub(ev.spawnN).add(pConst(1)) // i - N + 1 == 0  <=> last
	d := x.sub(y)
	same, opp := d.equal(last), d.equal(last.neg())
	switch b.Op {
	case token.EQL:
		if same || opp {
			return gLast
		}
	case token.NEQ:
		if same || opp {
			return gNotLast
		}
	case token.GEQ: // i >= N-1
		if same {
			return gLast
		}
	case token.LEQ: // N-1 <= i
		if opp {
			return gLast
		}
	case token.LSS: // i < N-1
		if same {
			return gNotLast
		}
	case token.GTR: // N-1 > i
		if opp {
			return gNotLast
		}
	}
	return gAny
}

func (e *env) guardPhi(phi *ssa.Phi) GVal {
	if len(phi.Edges) != 2 {
		return gOpaque("φ with more than two edges")
	}
	pb := phi.Block()
	d := pb.Idom()
	if d == nil || len(d.Instrs) == 0 {
		return gOpaque("no controlling branch")
	}
	ifi, ok := d.Instrs[len(d.Instrs)-1].(*ssa.If)
	if !ok {
		return gOpaque("no controlling branch")
	}
	gt := e.condGuard(ifi.Cond)
	if gt == gAny {
		return gOpaque("controlling branch is not a last-worker test")
	}
	gf := gLast
	if gt == gLast {
		gf = gNotLast
	}
	var out []gTerm
	for i, pred := range pb.Preds {
		var g guard
		switch {
		case pred == d:
			if d.Succs[0] == pb {
				g = gt
			} else {
				g = gf
			}
		case d.Succs[0] != pb && d.Succs[0].Dominates(pred):
			g = gt
		case d.Succs[1] != pb && d.Succs[1].Dominates(pred):
			g = gf
		default:
			return gOpaque("φ edge not attributable to a branch side")
		}
		val := e.eval(phi.Edges[i])
		p, ok := val.under(g)
		if !ok {
			return gOpaque("φ operand not expressible: " + val.opaque)
		}
		out = append(out, gTerm{g, p})
	}
	return GVal{terms: out}
}

// ---------------------------------------------------------------------------
// counted loops

// countedLoop describes a loop whose header φ takes the values lo … hi-1 with step +1:
// `for j := lo; j < hi; j++` and the range-over-slice form (φ starts at -1, the test
// is φ+1 < len, so φ ranges over [-1, len-1) and the element index is φ+1).
type countedLoop struct {
	loop  *ssau.Loop
	phi   *ssa.Phi
	lo    ssa.Value
	hi    ssa.Value
	hiAdj int64 // added to eval(hi): +1 for <=, -1 for the range form
}

// recogniseLoop finds the canonical induction variable of l.
func recogniseLoop(l *ssau.Loop) (*countedLoop, string) {
	h := l.Header
	var ifi *ssa.If
	if len(h.Instrs) > 0 {
		ifi, _ = h.Instrs[len(h.Instrs)-1].(*ssa.If)
	}
	if ifi == nil {
		return nil, "loop header does not end in a bound test"
	}
	cond, _ := ifi.Cond.(*ssa.BinOp)
	if cond == nil {
		return nil, "loop condition is not a comparison"
	}
	if !l.Blocks[h.Succs[0]] || l.Blocks[h.Succs[1]] {
		return nil, "loop exit is not the false edge of the header test"
	}
	for _, in := range h.Instrs {
		phi, ok := in.(*ssa.Phi)
		if !ok || len(phi.Edges) != 2 {
			continue
		}
		var init, step ssa.Value
		for i, pred := range h.Preds {
			if l.Blocks[pred] {
				step = phi.Edges[i]
			} else {
				init = phi.Edges[i]
			}
		}
		if init == nil || step == nil {
			continue
		}
		inc, ok := step.(*ssa.BinOp)
		if !ok || inc.Op != token.ADD {
			continue
		}
		one := func(v ssa.Value) bool { n, ok := ssau.ConstInt(v); return ok && n == 1 }
		if !((inc.X == ssa.Value(phi) && one(inc.Y)) || (inc.Y == ssa.Value(phi) && one(inc.X))) {
			continue
		}
		cl := &countedLoop{loop: l, phi: phi, lo: init}
		switch {
		case cond.X == ssa.Value(phi) && (cond.Op == token.LSS || cond.Op == token.LEQ):
			cl.hi = cond.Y
			if cond.Op == token.LEQ {
				cl.hiAdj = 1
			}
		case cond.Y == ssa.Value(phi) && (cond.Op == token.GTR || cond.Op == token.GEQ):
			cl.hi = cond.X
			if cond.Op == token.GEQ {
				cl.hiAdj = 1
			}
		case cond.X == ssa.Value(inc) && cond.Op == token.LSS && inc.Block() == h:
			cl.hi, cl.hiAdj = cond.Y, -1
		default:
			continue
		}
		return cl, ""
	}
	return nil, "no induction variable with step +1 and a `<` bound"
}

// bounds evaluates the φ's range [lo, hi) in e.
func (cl *countedLoop) bounds(e *env) (GVal, GVal) {
	lo := e.eval(cl.lo)
	hi := gBin(e.eval(cl.hi), gPoly(pConst(cl.hiAdj)), func(p, q Poly) Poly { return p.add(q) })
	return lo, hi
}

// shortFunc renders pkg.Type.Method / pkg.Func with package names instead of paths.
func shortFunc(o *types.Func) string {
	pk := ""
	if o.Pkg() != nil {
		pk = o.Pkg().Name() + "."
	}
	if n := ssau.RecvNamed(o); n != nil {
		return pk + n.Obj().Name() + "." + o.Name()
	}
	return pk + o.Name()
}

// messageStr renders a value received from mk as the value that is sent.
func (cm *chanModel) messageStr(mk *ssa.MakeChan) string {
	first := ""
	for _, s := range cm.sends[mk] {
		str := s.e.str(s.send.X)
		if first == "" {
			first = str
		} else if first != str {
			return "recv(ambiguous " + mk.Name() + ")"
		}
	}
	if first == "" {
		return "recv(" + mk.Name() + ": never sent)"
	}
	return first
}

// foldStr renders an accumulator φ (acc = f(acc, x) in a loop) structurally.
func (e *env) foldStr(phi *ssa.Phi) string {
	if e.ev.self == nil {
		e.ev.self = map[*ssa.Phi]bool{}
	}
	if e.ev.self[phi] {
		return "SELF"
	}
	if len(phi.Edges) != 2 {
		return "v:" + phi.Parent().Name() + ":" + phi.Name()
	}
	e.ev.self[phi] = true
	defer delete(e.ev.self, phi)
	var init, step string
	for i, pred := range phi.Block().Preds {
		s := e.str(phi.Edges[i])
		if phi.Block().Dominates(pred) {
			step = s
		} else {
			init = s
		}
	}
	return "fold(" + init + "; " + step + ")"
}

// lenientSingleStore: the only value stored directly into the cell (stores through
// closures included); hand-offs of the cell's address to calls are ignored.
func lenientSingleStore(a *ssa.Alloc) ssa.Value {
	var val ssa.Value
	n := 0
	var visit func(addr ssa.Value)
	visit = func(addr ssa.Value) {
		for _, r := range ssau.Refs(addr) {
			switch r := r.(type) {
			case *ssa.Store:
				if r.Addr == addr {
					n++
					val = r.Val
				}
			case *ssa.MakeClosure:
				if fn, ok := r.Fn.(*ssa.Function); ok {
					for i, b := range r.Bindings {
						if b == addr && i < len(fn.FreeVars) {
							visit(fn.FreeVars[i])
						}
					}
				}
			case *ssa.FieldAddr:
				for _, rr := range ssau.Refs(r) {
					if s, ok := rr.(*ssa.Store); ok && s.Addr == ssa.Value(r) {
						n += 2
					}
				}
			}
		}
	}
	visit(a)
	if n != 1 {
		return nil
	}
	return val
}

// paramBehind finds the integer parameter a value is derived from through φs and
// conversions (the pool-size parameter behind a clamped worker count).
func paramBehind(v ssa.Value) *ssa.Parameter {
	seen := map[ssa.Value]bool{}
	var walk func(v ssa.Value) *ssa.Parameter
	walk = func(v ssa.Value) *ssa.Parameter {
		if seen[v] {
			return nil
		}
		seen[v] = true
		switch x := v.(type) {
		case *ssa.Parameter:
			if isNumeric(x.Type()) {
				return x
			}
		case *ssa.Phi:
			for _, e := range x.Edges {
				if p := walk(e); p != nil {
					return p
				}
			}
		case *ssa.Convert:
			return walk(x.X)
		case *ssa.UnOp:
			if a, ok := x.X.(*ssa.Alloc); ok && x.Op == token.MUL {
				for _, r := range ssau.Refs(a) {
					if st, ok := r.(*ssa.Store); ok && st.Addr == ssa.Value(a) {
						if p := walk(st.Val); p != nil {
							return p
						}
					}
				}
			}
		}
		return nil
	}
	return walk(v)
}

// inlineReturn (shape mode): result k of a call to a straight-line repository helper — one basic
// block, no calls that could not be rendered, a single return — is read as the returned expression
// in the callee's environment, so that "the same arithmetic, moved into a helper" compares equal.
func (e *env) inlineReturn(call *ssa.Call, k int) (ssa.Value, *env) {
	if !e.ev.autoIV || call.Call.IsInvoke() {
		return nil, nil
	}
	callee := call.Call.StaticCallee()
	if callee == nil || len(callee.Blocks) != 1 || callee.Pkg == nil || e.fn.Pkg == nil {
		return nil, nil
	}
	root := e
	for root.parent != nil {
		root = root.parent
	}
	if root.fn.Pkg == nil || callee.Pkg != root.fn.Pkg {
		return nil, nil // in-package helpers only
	}
	depth := 0
	for x := e; x != nil; x = x.parent {
		if x.fn == callee {
			return nil, nil // recursion
		}
		depth++
	}
	if depth > 8 {
		return nil, nil
	}
	b := callee.Blocks[0]
	ret, ok := b.Instrs[len(b.Instrs)-1].(*ssa.Return)
	if !ok || k >= len(ret.Results) {
		return nil, nil
	}
	for _, in := range b.Instrs {
		switch in.(type) {
		case *ssa.Go, *ssa.Defer, *ssa.Send, *ssa.MapUpdate, *ssa.Panic:
			return nil, nil
		}
		if st, ok := in.(*ssa.Store); ok {
			// stores into the helper's own locals (struct literals, spilled parameters) only
			if a, ok := lockset.Canon(st.Addr).Root.(*ssa.Alloc); !ok || a.Parent() != callee {
				return nil, nil
			}
		}
	}
	return ret.Results[k], e.callEnv(callee, call.Call.Args)
}
