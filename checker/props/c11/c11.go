// Package c11: node outputs are never stale and nodes recompute only when an
// input changed — the cache protocol of nodes.Struct / ValueNode / parameters as
// CFG typestate rules (DESIGN.md section 4, C11).
package c11

import (
	"fmt"
	"go/token"
	"go/types"
	"os"
	"sort"
	"strings"

	"golang.org/x/tools/go/ssa"

	"polycheck/load"
	"polycheck/props"
	"polycheck/props/c11/flow"
	"polycheck/ssau"
)

func init() {
	props.Register(&props.Prop{
		ID: "C11",
		Explanation: "Cache protocol of the node graph, decided on source as local invariants that together are the induction step of " +
			"'a read returns what evaluation from scratch returns, and a node re-executes only after a change': NODE-1 who-may-write " +
			"(version / remembered dependency versions / re-wire flag; exactly one version increment per execution, one per accepted parameter update), " +
			"NODE-2 order inside process (evaluate, then count, snapshot, reset; result cached), NODE-3 every read of the cached value is preceded by " +
			"the outdated test with process on its true edge, NODE-4 Outdated() consults nil-snapshot, flag, and Version()+State() of every dependency, " +
			"NODE-5 every re-wiring sets the flag, NODE-6/ORD-1 snapshot and comparison enumerate dependencies through one order-deterministic function, " +
			"NODE-7 State() is Stale iff Outdated(), NODE-9 every node-output reference in a node's data struct is visible to the reflective enumeration, " +
			"NODE-8 (thorough) Process methods use their inputs only through Value()/nil tests. Not decided: nodes whose Process is not a function of its inputs, " +
			"Alert subscriptions, execution counts of concrete histories.",
		Assumptions: []string{
			"refutil.SetStructField / AddToStructFieldArray / RemoveFromStructFieldArray are the only reflective writers of a node's Data (three-entry table, DESIGN.md section 8)",
			"a sort call (sort.*, slices.Sort*) fixes the order of the slice it is applied to",
		},
		Controls: controls,
		Run:      run,
	})
}

const nodesPath = load.Module + "/nodes"
const refutilPath = load.Module + "/refutil"
const paramPath = load.Module + "/generator/parameter"

// reporter separates repository obligations from self-test controls.
type reporter interface {
	hold(rule, construct string, pos token.Pos, facts ...string)
	violate(rule, construct string, pos token.Pos, msg string, facts ...string)
	undecide(rule, construct string, pos token.Pos, msg string)
}

type repoRep struct{ c *props.Ctx }

func (r repoRep) hold(rule, construct string, pos token.Pos, facts ...string) {
	r.c.R.Hold(rule, construct, r.c.P.Pos(pos), facts...)
}
func (r repoRep) violate(rule, construct string, pos token.Pos, msg string, facts ...string) {
	r.c.R.Violate(rule, construct, r.c.P.Pos(pos), msg, facts...)
}
func (r repoRep) undecide(rule, construct string, pos token.Pos, msg string) {
	r.c.R.Undecide(rule, construct, r.c.P.Pos(pos), msg)
}

// ctlRep collects what the rules say about a control type.
type ctlRep struct {
	fired map[string][]string // rule -> constructs violated
	und   map[string][]string
	held  map[string]int
}

func newCtl() *ctlRep {
	return &ctlRep{fired: map[string][]string{}, und: map[string][]string{}, held: map[string]int{}}
}
func (r *ctlRep) hold(rule, construct string, pos token.Pos, facts ...string) { r.held[rule]++ }
func (r *ctlRep) violate(rule, construct string, pos token.Pos, msg string, facts ...string) {
	r.fired[rule] = append(r.fired[rule], construct+": "+msg)
}
func (r *ctlRep) undecide(rule, construct string, pos token.Pos, msg string) {
	r.und[rule] = append(r.und[rule], construct+": "+msg)
}

func run(c *props.Ctx) {
	p := c.P
	obs0 := len(c.R.Obs)
	sp := p.SSAPkg("nodes")
	if sp == nil {
		c.R.Failf("anchor package nodes not found")
		return
	}
	if p.SSAPkg("refutil") == nil {
		c.R.Failf("anchor package refutil not found")
		return
	}
	fns := p.FuncsOf(sp)
	ci := flow.IndexCalls(fns)
	c.R.Extra["functions_analysed"] = len(fns)

	eng := newOrdEngine(c)

	// --- the repository's node type
	pr := newProto(c, sp, fns, ci, "Struct", "nodes.Struct", repoRep{c})
	if pr != nil {
		pr.eng = eng
		pr.checkAll()
	}

	// --- thorough: nobody outside package nodes re-wires an existing node behind SetInput's back
	if c.Tier == "thorough" && pr != nil {
		scanned, hits := 0, 0
		for _, pk := range p.Pkgs {
			osp := p.SSA.Package(pk.Types)
			if osp == nil || osp == sp {
				continue
			}
			for _, fn := range p.FuncsOf(osp) {
				scanned++
				ssau.AllInstrs(fn, func(in ssa.Instruction) {
					if pr.dataWrite(in) {
						hits++
						c.R.Violate("NODE-5", p.FuncName(fn)+"#rewire", p.Pos(ssau.PosOf(in)),
							"the Data of an existing node is written directly, bypassing SetInput: inputChangedSinceLastProcess stays false and the node keeps serving the output computed from the old input")
					}
				})
			}
		}
		if hits == 0 {
			c.R.Hold("NODE-5", "library#no-direct-rewire", p.Pos(pr.body(pr.mSetInput).Pos()), fmt.Sprintf("%d functions outside package nodes scanned: no store into (or reflective write of) an existing node's Data", scanned))
		}
	}

	// --- value node and parameters
	checkVersionedLeaves(c, repoRep{c}, repoLeaves)

	// --- type level
	checkDataStructs(c, eng)

	// --- controls
	if len(p.Controls) > 0 {
		runControls(c, sp, fns, ci, eng)
	}

	if os.Getenv("POLYCHECK_DEBUG") != "" {
		for _, o := range c.R.Obs[obs0:] {
			fmt.Printf("  %-9s %-7s ctl=%v %s @%s %s %v\n", o.Verdict, o.Rule, o.Control, o.Construct, o.Pos, o.Msg, o.Facts)
		}
	}

	c.R.Floor("NODE-1", 12)
	c.R.Floor("NODE-2", 2)
	c.R.Floor("NODE-3", 1)
	c.R.Floor("NODE-4", 3)
	c.R.Floor("NODE-5", 1)
	c.R.Floor("NODE-6", 1)
	c.R.Floor("NODE-7", 4)
	c.R.Floor("NODE-9", 60)
	c.R.Floor("ORD-1", 1)
	c.R.Floor("REFL-1", 1)
	c.R.Floor("REFL-2", 2)
	c.R.Floor("NODE-10", 3)
	c.R.Floor("NODE-11", 3)
	if c.Tier == "thorough" {
		c.R.Floor("NODE-8", 40)
	}
}

// ---------------------------------------------------------------------------
// protocol description of a Struct-like cached node type

type proto struct {
	c    *props.Ctx
	rep  reporter
	key  string
	sp   *ssa.Package
	fns  []*ssa.Function
	ci   *flow.CallIndex
	eng  *ordEngine
	name *types.Named

	fData, fValue, fVersion, fDepV, fFlag          *types.Var
	mProcess, mSetInput, mOutdated, mValue, mState *types.Func

	processed int64 // value of nodes.Processed
	stale     int64

	regProcess  map[*types.Func]bool
	regSetInput map[*types.Func]bool

	writes []fieldWrite
	inits  []fieldWrite // non-nil initialisations of depVersions on freshly allocated nodes

	enumerator *types.Func // discovered in Outdated (NODE-4), compared in NODE-6
}

type fieldWrite struct {
	field *types.Var // nil = whole struct
	elem  bool       // element of the slice held by the field
	fn    *ssa.Function
	at    *ssa.Store
}

func sameField(a, b *types.Var) bool {
	return a != nil && b != nil && a.Origin() == b.Origin()
}

func lookupConst(pkg *types.Package, name string) (int64, bool) {
	o, ok := pkg.Scope().Lookup(name).(*types.Const)
	if !ok {
		return 0, false
	}
	v, exact := constantInt(o)
	return v, exact
}

func newProto(c *props.Ctx, sp *ssa.Package, fns []*ssa.Function, ci *flow.CallIndex, typeName, key string, rep reporter) *proto {
	fail := func(format string, a ...any) *proto {
		c.R.Failf("anchor "+format, a...)
		return nil
	}
	tn, ok := sp.Pkg.Scope().Lookup(typeName).(*types.TypeName)
	if !ok {
		return fail("type %s.%s not found", sp.Pkg.Path(), typeName)
	}
	named, ok := tn.Type().(*types.Named)
	if !ok {
		return fail("%s is not a named type", key)
	}
	st, ok := named.Underlying().(*types.Struct)
	if !ok {
		return fail("%s is not a struct", key)
	}
	pr := &proto{c: c, rep: rep, key: key, sp: sp, fns: fns, ci: ci, name: named}
	field := func(n string) *types.Var {
		for i := 0; i < st.NumFields(); i++ {
			if st.Field(i).Name() == n {
				return st.Field(i)
			}
		}
		return nil
	}
	method := func(n string) *types.Func {
		for i := 0; i < named.NumMethods(); i++ {
			if named.Method(i).Name() == n {
				return named.Method(i).Origin()
			}
		}
		return nil
	}
	// Exported API names are the anchors; everything unexported is resolved by role from them.
	pr.fData = field("Data")
	if pr.fData == nil {
		return fail("field %s.Data not found", key)
	}
	pr.mSetInput, pr.mOutdated, pr.mValue, pr.mState = method("SetInput"), method("Outdated"), method("Value"), method("State")
	mVersion := method("Version")
	for n, m := range map[string]*types.Func{"SetInput": pr.mSetInput, "Outdated": pr.mOutdated, "Value": pr.mValue, "State": pr.mState, "Version": mVersion} {
		if m == nil {
			return fail("method %s.%s not found", key, n)
		}
		if ci.Body[m] == nil {
			return fail("method %s.%s has no body", key, n)
		}
	}
	ownField := func(fv *types.Var) *types.Var {
		for i := 0; fv != nil && i < st.NumFields(); i++ {
			if sameField(st.Field(i), fv) {
				return st.Field(i)
			}
		}
		return nil
	}
	unique := func(role string, cands map[*types.Var]bool) *types.Var {
		if len(cands) != 1 {
			var ns []string
			for f := range cands {
				ns = append(ns, f.Name())
			}
			sort.Strings(ns)
			fail("%s: cannot resolve the %s uniquely by role (candidates: %v)", key, role, ns)
			return nil
		}
		for f := range cands {
			return f
		}
		return nil
	}
	// version counter: the integer field a method of the type increments (f = f + 1); if none is
	// incremented (a defect NODE-1 reports), the field the exported Version() returns
	{
		c := map[*types.Var]bool{}
		for i := 0; i < named.NumMethods(); i++ {
			if b := ci.Body[named.Method(i).Origin()]; b != nil {
				ssau.AllInstrs(b, func(in ssa.Instruction) {
					if st, isSt := in.(*ssa.Store); isSt && !flow.IsFreshBase(st.Addr) {
						if fv, _ := flow.FieldBase(st.Addr); ownField(fv) != nil && isIncrementOf(st.Val, fv) {
							c[ownField(fv)] = true
						}
					}
				})
			}
		}
		if len(c) != 1 {
			c = map[*types.Var]bool{}
			for _, s := range flow.ReturnSites(ci.Body[mVersion], 0) {
				if fv, _ := flow.LoadedField(s.Val); ownField(fv) != nil {
					c[ownField(fv)] = true
				}
			}
		}
		if pr.fVersion = unique("version counter (the field that is incremented / that Version() returns)", c); pr.fVersion == nil {
			return nil
		}
	}
	loadedIn := func(fn *ssa.Function, ok func(*types.Var) bool) map[*types.Var]bool {
		out := map[*types.Var]bool{}
		ssau.AllInstrs(fn, func(in ssa.Instruction) {
			if v, isV := in.(ssa.Value); isV {
				if fv, _ := flow.LoadedField(v); ownField(fv) != nil && ok(ownField(fv)) {
					out[ownField(fv)] = true
				}
			}
		})
		return out
	}
	// remembered dependency versions: the []int field Outdated() reads
	{
		c := loadedIn(ci.Body[pr.mOutdated], func(f *types.Var) bool {
			sl, isSl := f.Type().Underlying().(*types.Slice)
			if !isSl {
				return false
			}
			b, isB := sl.Elem().(*types.Basic) // plain int: a slice of a named state type (remembered node states) is another role
			return isB && b.Kind() == types.Int
		})
		if pr.fDepV = unique("remembered dependency versions (the []int field Outdated() reads)", c); pr.fDepV == nil {
			return nil
		}
	}
	// re-wire flag: the bool field the methods of the type store constants into (SetInput sets it, the
	// evaluating method clears it); if no method stores one, the bool field Outdated() reads
	{
		isBool := func(f *types.Var) bool {
			b, isB := f.Type().Underlying().(*types.Basic)
			return isB && b.Kind() == types.Bool
		}
		c := map[*types.Var]bool{}
		for i := 0; i < named.NumMethods(); i++ {
			if b := ci.Body[named.Method(i).Origin()]; b != nil {
				ssau.AllInstrs(b, func(in ssa.Instruction) {
					if s, isS := in.(*ssa.Store); isS && !flow.IsFreshBase(s.Addr) {
						if fv, _ := flow.FieldBase(s.Addr); ownField(fv) != nil && isBool(ownField(fv)) {
							if _, isC := s.Val.(*ssa.Const); isC {
								c[ownField(fv)] = true
							}
						}
					}
				})
			}
		}
		if len(c) != 1 {
			c = loadedIn(ci.Body[pr.mOutdated], isBool)
		}
		if pr.fFlag = unique("re-wire flag (the bool field SetInput sets and Outdated() reads)", c); pr.fFlag == nil {
			return nil
		}
	}
	// the evaluating method: the method of the type that invokes Process() on Data
	{
		var cands []*types.Func
		for i := 0; i < named.NumMethods(); i++ {
			m := named.Method(i).Origin()
			b := ci.Body[m]
			if b == nil {
				continue
			}
			has := false
			ssau.AllInstrs(b, func(in ssa.Instruction) {
				if pr.isProcessInvoke(in) {
					has = true
				}
			})
			if has {
				cands = append(cands, m)
			}
		}
		if len(cands) != 1 {
			return fail("%s: cannot resolve the evaluating method (the method that calls Data.Process()) uniquely: %d candidates", key, len(cands))
		}
		pr.mProcess = cands[0]
	}
	// the cached value, by role: the field every return of the exported Value() loads
	rt := pr.mValue.Type().(*types.Signature).Results()
	if rt.Len() != 1 {
		return fail("%s.Value does not return exactly one result", key)
	}
	var cands []*types.Var
	{
		c := map[*types.Var]bool{}
		for _, s := range flow.ReturnSites(ci.Body[pr.mValue], 0) {
			if fv, _ := flow.LoadedField(s.Val); ownField(fv) != nil && !sameField(fv, pr.fData) {
				c[ownField(fv)] = true
			}
		}
		// a Value() that copies the cache into a local first (`v := sn.value; …; return v`): the field it loads at all
		if len(c) == 0 {
			c = loadedIn(ci.Body[pr.mValue], func(f *types.Var) bool {
				return !sameField(f, pr.fData) && !sameField(f, pr.fVersion) && !sameField(f, pr.fDepV) && !sameField(f, pr.fFlag)
			})
		}
		for f := range c {
			cands = append(cands, f)
		}
	}
	if len(cands) != 1 {
		return fail("%s: cannot resolve the cached-value field (the field Value() returns) uniquely by role (%d candidates)", key, len(cands))
	}
	pr.fValue = cands[0]
	var ok1, ok2 bool
	pr.processed, ok1 = lookupConst(sp.Pkg, "Processed")
	pr.stale, ok2 = lookupConst(sp.Pkg, "Stale")
	if !ok1 || !ok2 {
		return fail("constants nodes.Processed / nodes.Stale not found")
	}
	pr.regProcess = ci.Region(pr.mProcess)
	pr.regSetInput = ci.Region(pr.mSetInput)
	pr.collectWrites()
	return pr
}

func (pr *proto) body(m *types.Func) *ssa.Function { return pr.ci.Body[m] }

func (pr *proto) fname(fn *ssa.Function) string { return pr.c.P.FuncName(fn) }

func (pr *proto) isOurs(t types.Type) bool {
	n := ssau.NamedOf(t)
	return n != nil && n.Origin() == pr.name.Origin()
}

// collectWrites finds every store into the protocol fields through a non-fresh base.
func (pr *proto) collectWrites() {
	for _, fn := range pr.fns {
		ssau.AllInstrs(fn, func(in ssa.Instruction) {
			s, ok := in.(*ssa.Store)
			if !ok {
				return
			}
			if flow.IsFreshBase(s.Addr) {
				// initialisation of a fresh node: the snapshot must start out nil ("never processed")
				if fv, base := flow.FieldBase(s.Addr); sameField(fv, pr.fDepV) && !flow.IsNilConst(s.Val) {
					if a, isAlloc := base.(*ssa.Alloc); isAlloc && a.Heap {
						pr.inits = append(pr.inits, fieldWrite{field: pr.fDepV, fn: fn, at: s})
					}
				}
				return
			}
			if fv, _ := flow.FieldBase(s.Addr); fv != nil {
				for _, f := range []*types.Var{pr.fVersion, pr.fDepV, pr.fFlag, pr.fValue} {
					if sameField(fv, f) {
						pr.writes = append(pr.writes, fieldWrite{field: f, fn: fn, at: s})
					}
				}
				return
			}
			if ia, ok := s.Addr.(*ssa.IndexAddr); ok {
				if fv, base := flow.LoadedField(ia.X); sameField(fv, pr.fDepV) {
					_ = base
					pr.writes = append(pr.writes, fieldWrite{field: pr.fDepV, elem: true, fn: fn, at: s})
				}
				return
			}
			if pr.isOurs(s.Val.Type()) {
				if _, isPtr := s.Val.Type().Underlying().(*types.Pointer); !isPtr {
					pr.writes = append(pr.writes, fieldWrite{field: nil, fn: fn, at: s})
				}
			}
		})
	}
}

func (pr *proto) checkAll() {
	pr.node1()
	pr.node2()
	pr.node3()
	pr.node4()
	pr.node5()
	pr.node6()
	pr.node7()
	pr.refl1()
}

func regionNames(reg map[*types.Func]bool) string {
	var ns []string
	for f := range reg {
		ns = append(ns, f.Name())
	}
	sort.Strings(ns)
	return strings.Join(ns, ",")
}

// ---------------------------------------------------------------------------
// NODE-1 who may write

func isIncrementOf(val ssa.Value, f *types.Var) bool {
	b, ok := val.(*ssa.BinOp)
	if !ok || b.Op != token.ADD {
		return false
	}
	one := func(v ssa.Value) bool { k, ok := ssau.ConstInt(v); return ok && k == 1 }
	ld := func(v ssa.Value) bool { fv, _ := flow.LoadedField(v); return sameField(fv, f) }
	return (one(b.Y) && ld(b.X)) || (one(b.X) && ld(b.Y))
}

func (pr *proto) node1() {
	type bucket struct {
		construct string
		allowed   map[*types.Func]bool
		what      string
		n         int
		bad       bool
		first     token.Pos
	}
	bk := map[string]*bucket{
		"version":     {construct: pr.key + ".version", allowed: pr.regProcess, what: "process"},
		"depVersions": {construct: pr.key + ".depVersions", allowed: pr.regProcess, what: "process (snapshot)"},
		"flag=true":   {construct: pr.key + ".inputChangedSinceLastProcess=true", allowed: pr.regSetInput, what: "SetInput"},
		"flag=false":  {construct: pr.key + ".inputChangedSinceLastProcess=false", allowed: pr.regProcess, what: "process"},
		"value":       {construct: pr.key + ".value", allowed: pr.regProcess, what: "process"},
	}
	for _, w := range pr.writes {
		owner := flow.Owner(w.fn)
		pos := ssau.PosOf(w.at)
		if w.field == nil {
			pr.rep.violate("NODE-1", pr.key+"→"+pr.fname(w.fn), pos, "whole-struct store overwrites version, remembered dependency versions and the re-wire flag of an existing node outside the cache protocol")
			continue
		}
		var b *bucket
		switch {
		case sameField(w.field, pr.fVersion):
			b = bk["version"]
			if !isIncrementOf(w.at.Val, pr.fVersion) {
				pr.rep.violate("NODE-1", b.construct+"←"+pr.fname(w.fn), pos, "version is assigned something other than version+1")
				b.bad = true
			}
		case sameField(w.field, pr.fDepV):
			b = bk["depVersions"]
		case sameField(w.field, pr.fValue):
			b = bk["value"]
		case sameField(w.field, pr.fFlag):
			cb, ok := flow.ConstBool(asConst(w.at.Val))
			if !ok {
				pr.rep.undecide("NODE-1", pr.key+".inputChangedSinceLastProcess←"+pr.fname(w.fn), pos, "re-wire flag assigned a non-constant")
				continue
			}
			if cb {
				b = bk["flag=true"]
			} else {
				b = bk["flag=false"]
			}
		}
		b.n++
		if !b.first.IsValid() {
			b.first = pos
		}
		if !b.allowed[owner] {
			b.bad = true
			pr.rep.violate("NODE-1", b.construct+"←"+pr.fname(w.fn), pos,
				fmt.Sprintf("written outside %s: only {%s} may write it, otherwise the cache's bookkeeping changes without an execution (or an execution without the bookkeeping)", b.what, regionNames(b.allowed)))
		}
	}
	for _, w := range pr.inits {
		pr.rep.violate("NODE-1", pr.key+".depVersions#init←"+pr.fname(w.fn), ssau.PosOf(w.at),
			"a freshly constructed node starts with a non-nil dependency-version snapshot: Outdated() takes nil to mean 'never executed', so a node without inputs would report fresh and Value() would return the zero value without ever executing")
	}
	// the getter dependents compare against
	if mv := methodOf(pr.name, "Version"); mv != nil {
		if gb := bodyOf(pr.c.P.SSA, mv); gb != nil {
			okG := true
			for _, s := range flow.ReturnSites(gb, 0) {
				if fv, _ := flow.LoadedField(s.Val); !sameField(fv, pr.fVersion) {
					okG = false
				}
			}
			if okG {
				pr.rep.hold("NODE-1", pr.key+".Version", gb.Pos(), "Version() returns the execution counter")
			} else {
				pr.rep.violate("NODE-1", pr.key+".Version", gb.Pos(), "Version() does not return the execution counter: dependents compare something that does not move with executions")
			}
		}
	}
	var keys []string
	for k := range bk {
		keys = append(keys, k)
	}
	sort.Strings(keys)
	for _, k := range keys {
		b := bk[k]
		if b.bad {
			continue
		}
		if b.n == 0 {
			pr.rep.violate("NODE-1", b.construct, pr.body(pr.mProcess).Pos(), "no write of this protocol field found in "+b.what+" — the cache protocol cannot work without it")
			continue
		}
		pr.rep.hold("NODE-1", b.construct, b.first, fmt.Sprintf("%d write(s), all inside {%s}", b.n, regionNames(b.allowed)))
	}
}

func asConst(v ssa.Value) *ssa.Const { c, _ := v.(*ssa.Const); return c }

// ---------------------------------------------------------------------------
// NODE-2 order inside process, and NODE-1 "exactly one ++ on every path"

const (
	evP     = 0 // Data.Process() invoked
	evV     = 1 // version incremented
	evS     = 2 // depVersions field assigned (snapshot)
	evF     = 3 // flag reset
	evC     = 4 // result of Process stored into the cached value
	evEarly = 5 // V/S/F/C before P
)

func (pr *proto) isProcessInvoke(in ssa.Instruction) bool {
	c, ok := in.(*ssa.Call)
	if !ok {
		return false
	}
	cc := c.Common()
	if cc.Method == nil && cc.StaticCallee() == nil {
		return false
	}
	callee := flow.Callee(c)
	if callee == nil || callee.Name() != "Process" {
		return false
	}
	// receiver is the node's Data
	var recv ssa.Value
	if cc.IsInvoke() {
		recv = cc.Value
	} else if len(cc.Args) > 0 {
		recv = cc.Args[0]
	}
	recv = flow.StripAll(recv)
	if fv, _ := flow.LoadedField(recv); sameField(fv, pr.fData) {
		return true
	}
	if fv, _ := flow.FieldBase(recv); sameField(fv, pr.fData) {
		return true
	}
	return false
}

func (pr *proto) processStep(memo map[string][]flow.Vec, stack map[*ssa.Function]bool) flow.Step {
	var step flow.Step
	step = func(in ssa.Instruction, cur flow.Vec) []flow.Vec {
		early := func(v flow.Vec) flow.Vec {
			if cur[evP] == 0 {
				return v.Bump(evEarly)
			}
			return v
		}
		switch x := in.(type) {
		case *ssa.Store:
			if flow.IsFreshBase(x.Addr) {
				return nil
			}
			fv, _ := flow.FieldBase(x.Addr)
			switch {
			case sameField(fv, pr.fVersion):
				return []flow.Vec{early(cur.Bump(evV))}
			case sameField(fv, pr.fDepV):
				return []flow.Vec{early(cur.Bump(evS))}
			case sameField(fv, pr.fFlag):
				if cb, ok := flow.ConstBool(asConst(x.Val)); ok && !cb {
					return []flow.Vec{early(cur.Bump(evF))}
				}
			case sameField(fv, pr.fValue):
				// must be result #0 of the Process call
				if ex, ok := flow.StripAll(x.Val).(*ssa.Extract); ok && ex.Index == 0 {
					if ci, ok := ex.Tuple.(ssa.Instruction); ok && pr.isProcessInvoke(ci) {
						return []flow.Vec{cur.Bump(evC)}
					}
				}
				if ci, ok := flow.StripAll(x.Val).(ssa.Instruction); ok && pr.isProcessInvoke(ci) {
					return []flow.Vec{cur.Bump(evC)}
				}
			}
		case *ssa.Call:
			if pr.isProcessInvoke(x) {
				return []flow.Vec{cur.Bump(evP)}
			}
			callee := flow.Callee(x)
			if callee != nil && callee != pr.mProcess && pr.regProcess[callee] {
				g := pr.body(callee)
				if g == nil || stack[g] {
					return nil
				}
				k := fmt.Sprintf("%p/%v", g, cur)
				if r, ok := memo[k]; ok {
					return r
				}
				stack[g] = true
				r := flow.AllVectors(g, cur, step)
				delete(stack, g)
				if len(r) == 0 {
					r = []flow.Vec{cur} // helper never returns normally
				}
				memo[k] = r
				return r
			}
		}
		return nil
	}
	return step
}

func (pr *proto) node2() {
	fn := pr.body(pr.mProcess)
	name := pr.fname(fn)
	step := pr.processStep(map[string][]flow.Vec{}, map[*ssa.Function]bool{fn: true})
	vecs := flow.AllVectors(fn, flow.Vec{}, step)
	if len(vecs) == 0 {
		pr.rep.undecide("NODE-2", name, fn.Pos(), "process has no normal return")
		return
	}
	describe := func() string {
		var s []string
		for _, v := range vecs {
			s = append(s, fmt.Sprintf("[Process=%d version++=%d snapshot=%d reset=%d cached=%d before-Process=%d]", v[evP], v[evV], v[evS], v[evF], v[evC], v[evEarly]))
		}
		return "per-path event counts (2 = two or more): " + strings.Join(s, " ")
	}
	type chk struct {
		rule, construct, msg string
		bad                  func(v flow.Vec) bool
	}
	checks := []chk{
		{"NODE-1", pr.key + ".version#once", "a path through process increments the version a number of times other than exactly one (the property: 'increases by exactly one per execution')", func(v flow.Vec) bool { return v[evV] != 1 }},
		{"NODE-2", name + "#evaluate", "a path through process evaluates Data.Process() a number of times other than exactly one", func(v flow.Vec) bool { return v[evP] != 1 }},
		{"NODE-2", name + "#order", "the version increment, the dependency-version snapshot or the flag reset can happen before Data.Process() — a snapshot taken before evaluation records versions that evaluation then bumps, so the node looks outdated (or fresh) wrongly", func(v flow.Vec) bool { return v[evEarly] != 0 }},
		{"NODE-2", name + "#snapshot", "a path through process does not take the dependency-version snapshot (or reset the re-wire flag): the node stays outdated and re-executes on every read", func(v flow.Vec) bool { return v[evS] == 0 || v[evF] == 0 }},
		{"NODE-2", name + "#cache", "a path through process does not store the result of Data.Process() into the cached value: readers keep getting the old output", func(v flow.Vec) bool { return v[evC] == 0 }},
	}
	for _, ck := range checks {
		bad := false
		for _, v := range vecs {
			if ck.bad(v) {
				bad = true
			}
		}
		if bad {
			pr.rep.violate(ck.rule, ck.construct, fn.Pos(), ck.msg, describe())
		} else {
			pr.rep.hold(ck.rule, ck.construct, fn.Pos(), describe())
		}
	}
}

// ---------------------------------------------------------------------------
// NODE-3 every read of the cached value is fresh

func (pr *proto) outdatedFreshEdges(fn *ssa.Function) map[flow.Edge]bool {
	cut := map[flow.Edge]bool{}
	for _, b := range fn.Blocks {
		ifi := flow.IfOf(b)
		if ifi == nil {
			continue
		}
		v, pos := flow.BoolTest(ifi.Cond)
		c, ok := v.(*ssa.Call)
		if !ok || flow.Callee(c) != pr.mOutdated {
			continue
		}
		// edge on which Outdated() == false
		if pos {
			cut[flow.Edge{From: b, K: 1}] = true
		} else {
			cut[flow.Edge{From: b, K: 0}] = true
		}
	}
	return cut
}

func (pr *proto) node3() {
	n := 0
	for _, fn := range pr.fns {
		if pr.regProcess[flow.Owner(fn)] {
			continue
		}
		var loads []*ssa.UnOp
		ssau.AllInstrs(fn, func(in ssa.Instruction) {
			if u, ok := in.(*ssa.UnOp); ok && u.Op == token.MUL {
				if fv, _ := flow.FieldBase(u.X); sameField(fv, pr.fValue) {
					loads = append(loads, u)
				}
			}
			if f, ok := in.(*ssa.Field); ok && sameField(ssau.FieldOf(f), pr.fValue) {
				_ = f // a Field read of a struct *value* (copy) — also a read of the cache
			}
		})
		if len(loads) == 0 {
			continue
		}
		cut := pr.outdatedFreshEdges(fn)
		avoid := func(in ssa.Instruction) bool {
			if c, ok := in.(ssa.CallInstruction); ok {
				cal := flow.Callee(c)
				return cal == pr.mProcess || cal == pr.mValue
			}
			return false
		}
		for k, ld := range loads {
			n++
			construct := fmt.Sprintf("%s#read%d", pr.fname(fn), k)
			if flow.PathAvoiding(fn, nil, ld, avoid, cut) {
				pr.rep.violate("NODE-3", construct, ssau.PosOf(ld),
					"the cached value is read on a path that neither passed the not-outdated edge of Outdated() nor went through process(): a stale output can be returned",
					fmt.Sprintf("%d Outdated() test edge(s) recognised in this function", len(cut)))
			} else {
				pr.rep.hold("NODE-3", construct, ssau.PosOf(ld), fmt.Sprintf("every path to the read passes Outdated()==false or process(); %d test edge(s)", len(cut)))
			}
		}
	}
	if n == 0 {
		pr.rep.violate("NODE-3", pr.key+".Value", pr.body(pr.mValue).Pos(), "no read of the cached value found: Value() does not return the cache")
	}
}

// ---------------------------------------------------------------------------
// NODE-5 every re-wiring sets the flag

func (pr *proto) touchesData(v ssa.Value) bool {
	for d := 0; d < 16 && v != nil; d++ {
		switch x := v.(type) {
		case *ssa.FieldAddr:
			if sameField(ssau.FieldOf(x), pr.fData) {
				return true
			}
			v = x.X
		case *ssa.IndexAddr:
			v = x.X
		case *ssa.MakeInterface:
			v = x.X
		case *ssa.ChangeType:
			v = x.X
		case *ssa.ChangeInterface:
			v = x.X
		default:
			return false
		}
	}
	return false
}

var reflectiveWriters = map[string]bool{"SetStructField": true, "AddToStructFieldArray": true, "RemoveFromStructFieldArray": true}

// dataWrite reports whether in rewires the node's inputs.
func (pr *proto) dataWrite(in ssa.Instruction) bool {
	switch x := in.(type) {
	case *ssa.Store:
		return !flow.IsFreshBase(x.Addr) && pr.touchesData(x.Addr)
	case ssa.CallInstruction:
		cal := flow.Callee(x)
		if cal != nil && cal.Pkg() != nil && cal.Pkg().Path() == refutilPath && reflectiveWriters[cal.Name()] {
			if len(x.Common().Args) > 0 && pr.touchesData(x.Common().Args[0]) {
				return true
			}
		}
	}
	return false
}

func (pr *proto) isFlagSet(in ssa.Instruction) bool {
	s, ok := in.(*ssa.Store)
	if !ok || flow.IsFreshBase(s.Addr) {
		return false
	}
	fv, _ := flow.FieldBase(s.Addr)
	if !sameField(fv, pr.fFlag) {
		return false
	}
	cb, ok := flow.ConstBool(asConst(s.Val))
	return ok && cb
}

func (pr *proto) node5() {
	// (a) the anchor: every non-panicking path of SetInput sets the flag
	fn := pr.body(pr.mSetInput)
	name := pr.fname(fn)
	memo := map[*ssa.Function][]flow.Vec{}
	var step flow.Step
	stack := map[*ssa.Function]bool{fn: true}
	step = func(in ssa.Instruction, cur flow.Vec) []flow.Vec {
		if pr.isFlagSet(in) {
			return []flow.Vec{cur.Bump(0)}
		}
		if pr.dataWrite(in) {
			return []flow.Vec{cur.Bump(1)}
		}
		if c, ok := in.(*ssa.Call); ok {
			cal := flow.Callee(c)
			if cal != nil && cal != pr.mSetInput && pr.regSetInput[cal] {
				g := pr.body(cal)
				if g == nil || stack[g] {
					return nil
				}
				r, ok := memo[g]
				if !ok {
					stack[g] = true
					r = flow.AllVectors(g, flow.Vec{}, step)
					delete(stack, g)
					memo[g] = r
				}
				var out []flow.Vec
				for _, d := range r {
					v := cur
					for i := 0; i < int(d[0]); i++ {
						v = v.Bump(0)
					}
					for i := 0; i < int(d[1]); i++ {
						v = v.Bump(1)
					}
					out = append(out, v)
				}
				if len(out) == 0 {
					return nil
				}
				return out
			}
		}
		return nil
	}
	vecs := flow.AllVectors(fn, flow.Vec{}, step)
	bad, writes := false, 0
	for _, v := range vecs {
		if v[0] == 0 {
			bad = true
		}
		if v[1] > 0 {
			writes++
		}
	}
	facts := fmt.Sprintf("%d distinct (flag-set, data-write) path classes over the non-panicking returns: %v", len(vecs), vecs)
	switch {
	case len(vecs) == 0:
		pr.rep.undecide("NODE-5", name, fn.Pos(), "SetInput has no normal return")
	case bad:
		pr.rep.violate("NODE-5", name, fn.Pos(), "a non-panicking path of SetInput returns without setting inputChangedSinceLastProcess: after re-wiring, Outdated() can stay false and readers get the output computed from the old input", facts)
	case writes == 0:
		pr.rep.violate("NODE-5", name, fn.Pos(), "SetInput never writes the node's Data (no reflective writer call on &sn.Data found)", facts)
	default:
		pr.rep.hold("NODE-5", name, fn.Pos(), facts)
	}
	// (b) anybody else who rewires Data must set the flag afterwards on every path
	for _, g := range pr.fns {
		if pr.regSetInput[flow.Owner(g)] {
			continue
		}
		ssau.AllInstrs(g, func(in ssa.Instruction) {
			if !pr.dataWrite(in) {
				return
			}
			construct := pr.fname(g) + "#rewire"
			ok := true
			for _, b := range g.Blocks {
				if len(b.Instrs) == 0 {
					continue
				}
				if r, isRet := b.Instrs[len(b.Instrs)-1].(*ssa.Return); isRet {
					if flow.PathAvoiding(g, in, r, pr.isFlagSet, nil) {
						ok = false
					}
				}
			}
			if ok {
				pr.rep.hold("NODE-5", construct, ssau.PosOf(in), "re-wiring outside SetInput is followed by the flag on every path")
			} else {
				pr.rep.violate("NODE-5", construct, ssau.PosOf(in), "the node's Data is re-wired outside SetInput and a path returns without setting inputChangedSinceLastProcess")
			}
		})
	}
}

// ---------------------------------------------------------------------------
// NODE-7 State() is Stale iff Outdated()

func (pr *proto) node7() {
	fn := pr.body(pr.mState)
	name := pr.fname(fn)
	fresh := pr.outdatedFreshEdges(fn) // edges with Outdated()==false
	if len(fresh) == 0 {
		pr.rep.violate("NODE-7", name, fn.Pos(), "State() does not branch on Outdated()")
		return
	}
	staleEdges := map[flow.Edge]bool{}
	for e := range fresh {
		staleEdges[flow.Edge{From: e.From, K: 1 - e.K}] = true
	}
	sites := flow.ReturnSites(fn, 0)
	nStale, nProc := 0, 0
	for k, s := range sites {
		construct := fmt.Sprintf("%s#return%d", name, k)
		v, ok := ssau.ConstInt(s.Val)
		if !ok {
			pr.rep.undecide("NODE-7", construct, s.Pos(), "State() returns a non-constant; cannot relate it to Outdated()")
			continue
		}
		switch v {
		case pr.stale:
			nStale++
			// must be unreachable when the Outdated()==true edges are removed
			if s.Reachable(fn, staleEdges) {
				pr.rep.violate("NODE-7", construct, s.Pos(), "State() can return Stale although Outdated() is false (dependents would re-execute without any change)")
			} else {
				pr.rep.hold("NODE-7", construct, s.Pos(), "return Stale only behind Outdated()==true")
			}
		case pr.processed:
			nProc++
			if s.Reachable(fn, fresh) {
				pr.rep.violate("NODE-7", construct, s.Pos(), "State() can return Processed although Outdated() is true: dependents compare State()!=Processed to detect transitive staleness and would serve a stale output")
			} else {
				pr.rep.hold("NODE-7", construct, s.Pos(), "return Processed only behind Outdated()==false")
			}
		default:
			pr.rep.violate("NODE-7", construct, s.Pos(), fmt.Sprintf("State() returns %d, neither Stale nor Processed", v))
		}
	}
	if nStale == 0 || nProc == 0 {
		pr.rep.violate("NODE-7", name, fn.Pos(), "State() does not return both Stale and Processed")
	} else {
		pr.rep.hold("NODE-7", name, fn.Pos(), fmt.Sprintf("%d Stale / %d Processed return sites, split by Outdated()", nStale, nProc))
	}
}
