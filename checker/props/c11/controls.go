package c11

import (
	"fmt"
	"sort"
	"strings"

	"golang.org/x/tools/go/ssa"

	"polycheck/ob"
	"polycheck/props"
	"polycheck/props/c11/flow"
)

const controlFile = "nodes/zz_verif_control_c11.go"

const reflControlFile = "refutil/zz_verif_control_c11.go"

func controls() map[string]string {
	return map[string]string{controlFile: controlSrc, reflControlFile: reflControlSrc}
}

const reflControlSrc = `package refutil

import "reflect"

// must fire: stops at the first unset field, later fields are never enumerated
func verifControlFieldsBad[T any](in any) map[string]T {
	view := reflect.ValueOf(in)
	viewType := view.Type()
	out := make(map[string]T)
	for i := 0; i < viewType.NumField(); i++ {
		f := view.Field(i)
		if f.Kind() != reflect.Interface || f.IsNil() {
			break
		}
		if perm, ok := f.Interface().(T); ok {
			out[viewType.Field(i).Name] = perm
		}
	}
	return out
}

// REFL-2 must fire: one scratch slice shared by all keys
func verifControlArraysBad[T any](in any) map[string][]T {
	view := reflect.ValueOf(in)
	viewType := view.Type()
	out := make(map[string][]T)
	var scratch []T
	for i := 0; i < viewType.NumField(); i++ {
		f := view.Field(i)
		if f.Kind() != reflect.Slice {
			continue
		}
		scratch = scratch[:0]
		for j := 0; j < f.Len(); j++ {
			if e, ok := f.Index(j).Interface().(T); ok {
				scratch = append(scratch, e)
			}
		}
		out[viewType.Field(i).Name] = scratch
	}
	return out
}

// REFL-2 must stay silent: pre-sized slice per field
func verifControlArraysGood[T any](in any) map[string][]T {
	view := reflect.ValueOf(in)
	viewType := view.Type()
	out := make(map[string][]T)
	n := viewType.NumField()
	for i := 0; i < n; i++ {
		f := view.Field(i)
		if f.Kind() != reflect.Slice {
			continue
		}
		elems := make([]T, 0, f.Len())
		for j := 0; j < f.Len(); j++ {
			if e, ok := f.Index(j).Interface().(T); ok {
				elems = append(elems, e)
			}
		}
		out[viewType.Field(i).Name] = elems
	}
	return out
}

// must stay silent: hoisted bound, switch instead of if/continue
func verifControlFieldsGood[T any](in any) map[string]T {
	view := reflect.ValueOf(in)
	viewType := view.Type()
	out := make(map[string]T)
	n := viewType.NumField()
	for i := 0; i < n; i++ {
		f := view.Field(i)
		switch {
		case f.Kind() != reflect.Interface:
		case f.IsNil():
		default:
			if perm, ok := f.Interface().(T); ok {
				out[viewType.Field(i).Name] = perm
			}
		}
	}
	return out
}
`

// Two copies of the cache protocol, type-checked inside package nodes:
// verifControlBadNode breaks every rule once, verifControlGoodNode is correct but
// written with other idioms (counted loop, split tests, helper, switch, sorted keys).
const controlSrc = `package nodes

import (
	"bytes"
	"encoding/json"
	"sort"
	"strings"

	"github.com/EliCDavis/polyform/refutil"
)

type verifControlBadNode[T any, G StructProcesor[T]] struct {
	Data                         G
	value                        T
	err                          error
	depVersions                  []int
	inputChangedSinceLastProcess bool
	version                      int
}

func (sn *verifControlBadNode[T, G]) SetInput(input string, output Output) {
	if index := strings.Index(input, "."); index != -1 {
		refutil.AddToStructFieldArray(&sn.Data, input[:index], output.NodeOutput)
		return // NODE-5: flag forgotten in the array branch
	}
	refutil.SetStructField(&sn.Data, input, output.NodeOutput)
	sn.inputChangedSinceLastProcess = true
}

func (sn verifControlBadNode[T, G]) Outdated() bool {
	if sn.depVersions == nil {
		return true
	}
	if sn.inputChangedSinceLastProcess {
		return true
	}
	deps := sn.verifControlDeps()
	for i, nodeDep := range deps {
		dep := nodeDep.Dependency()
		if dep.Version() != sn.depVersions[i] { // NODE-4: State() disjunct dropped
			return true
		}
	}
	return false
}

func (sn verifControlBadNode[T, G]) verifControlDeps() []NodeDependency {
	output := make([]NodeDependency, 0)
	for key, val := range refutil.FieldValuesOfType[NodeOutputReference](sn.Data) { // ORD-1: map order returned
		output = append(output, StructDependency{name: key, dep: val.Node(), dependencyPort: val.Port()})
	}
	return output
}

func (sn verifControlBadNode[T, G]) verifControlDeps2() []NodeDependency {
	return nil
}

func (sn *verifControlBadNode[T, G]) verifControlSnapshot() {
	deps := sn.verifControlDeps2() // NODE-6: other enumerator
	sn.depVersions = make([]int, len(deps))
	for i, dep := range deps {
		sn.depVersions[i] = dep.Dependency().Version()
	}
}

func (sn *verifControlBadNode[T, G]) Value() T {
	v := sn.value // NODE-3: read before the check
	if sn.Outdated() {
		sn.process()
	}
	return v
}

func (sn *verifControlBadNode[T, G]) process() {
	sn.verifControlSnapshot() // NODE-2: snapshot before evaluation
	sn.value, sn.err = sn.Data.Process()
	sn.version++
	sn.inputChangedSinceLastProcess = false
}

func (sn verifControlBadNode[T, G]) Version() int { return sn.version }

func (sn *verifControlBadNode[T, G]) verifControlTouch() {
	sn.version++ // NODE-1: version written outside process
}

func (sn *verifControlBadNode[T, G]) State() NodeState {
	if sn.Outdated() {
		return Processed // NODE-7: inverted
	}
	return Stale
}

// ---------------------------------------------------------------------------

type verifControlGoodNode[T any, G StructProcesor[T]] struct {
	Data                         G
	value                        T
	err                          error
	depVersions                  []int
	inputChangedSinceLastProcess bool
	version                      int
}

func (sn *verifControlGoodNode[T, G]) SetInput(input string, output Output) {
	switch index := strings.Index(input, "."); {
	case index != -1 && output.NodeOutput != nil:
		refutil.AddToStructFieldArray(&sn.Data, input[:index], output.NodeOutput)
	case index != -1:
		refutil.RemoveFromStructFieldArray(&sn.Data, input[:index], 0)
	default:
		refutil.SetStructField(&sn.Data, input, output.NodeOutput)
	}
	sn.inputChangedSinceLastProcess = true
}

func (sn verifControlGoodNode[T, G]) Outdated() bool {
	if sn.depVersions == nil || sn.inputChangedSinceLastProcess {
		return true
	}
	deps := sn.verifControlDeps()
	recorded := sn.depVersions
	for i := 0; i < len(deps); i++ {
		dep := deps[i].Dependency()
		v := dep.Version()
		if v != recorded[i] {
			return true
		}
		if !(dep.State() == Processed) {
			return true
		}
	}
	return false
}

func (sn verifControlGoodNode[T, G]) verifControlKeys() []string {
	basic := refutil.FieldValuesOfType[NodeOutputReference](sn.Data)
	keys := make([]string, 0, len(basic))
	for key := range basic {
		keys = append(keys, key)
	}
	return keys // map order, sorted by the caller
}

func (sn verifControlGoodNode[T, G]) verifControlDeps() []NodeDependency {
	basic := refutil.FieldValuesOfType[NodeOutputReference](sn.Data)
	keys := sn.verifControlKeys()
	sort.Strings(keys)
	output := make([]NodeDependency, 0)
	for _, key := range keys {
		val := basic[key]
		output = append(output, StructDependency{name: key, dep: val.Node(), dependencyPort: val.Port()})
	}
	arr := refutil.FieldValuesOfTypeInArray[NodeOutputReference](sn.Data)
	var rest []NodeDependency
	for key, field := range arr {
		for _, e := range field {
			if e != nil {
				rest = append(rest, StructDependency{name: key, dep: e.Node(), dependencyPort: e.Port()})
			}
		}
	}
	sort.Slice(rest, func(i, j int) bool { return rest[i].Name() < rest[j].Name() })
	return append(output, rest...)
}

func (sn verifControlGoodNode[T, G]) Version() int { return sn.version }

func (sn *verifControlGoodNode[T, G]) verifControlBump() { sn.version = sn.version + 1 }

func (sn *verifControlGoodNode[T, G]) Value() T {
	if !sn.Outdated() {
		return sn.value
	}
	sn.process()
	return sn.value
}

func (sn *verifControlGoodNode[T, G]) process() {
	val, err := sn.Data.Process()
	sn.verifControlBump()
	sn.inputChangedSinceLastProcess = false
	deps := sn.verifControlDeps()
	sn.depVersions = make([]int, len(deps))
	for i := 0; i < len(deps); i++ {
		sn.depVersions[i] = deps[i].Dependency().Version()
	}
	sn.value = val
	sn.err = err
}

func (sn *verifControlGoodNode[T, G]) State() NodeState {
	st := Processed
	if sn.Outdated() {
		st = Stale
	}
	return st
}

// ---------------------------------------------------------------------------
// NODE-9 / NODE-8

type verifControlHiddenData struct {
	A      NodeOutput[int]
	hidden NodeOutput[int]
	Nested struct{ In NodeOutput[int] }
	ByName map[string]NodeOutput[int]
	Ptr    *ValueNode[int]
}

func (d verifControlHiddenData) Process() (int, error) {
	return d.A.Node().Version(), nil // NODE-8: reaches around Value()
}

type verifControlVisibleData struct {
	A    NodeOutput[int]
	Many []NodeOutput[int]
	Ref  NodeOutputReference
	Name string
}

func (d verifControlVisibleData) Process() (int, error) {
	t := TryGetOutputValue(d.A, 0)
	for _, m := range d.Many {
		if m == nil {
			continue
		}
		t += m.Value()
	}
	return t, nil
}

// ---------------------------------------------------------------------------
// NODE-10 / NODE-11

type verifControlLeafBad struct {
	version int
	value   []int
}

func (l *verifControlLeafBad) Value() []int     { return l.value }
func (l *verifControlLeafBad) State() NodeState { return Processed }
func (l verifControlLeafBad) Version() int      { return l.version }
func (l *verifControlLeafBad) Set(msg []byte) (bool, error) {
	if string(msg) == "[]" && len(l.value) == 0 {
		return false, nil // NODE-10: "unchanged" shortcut without a bump
	}
	if err := json.Unmarshal(msg, &l.value); err != nil { // NODE-11: decoded in place
		return false, err
	}
	l.version++
	return true, nil
}

type verifControlLeafGood struct {
	version int
	value   []int
}

func (l *verifControlLeafGood) Value() []int     { return l.value }
func (l *verifControlLeafGood) State() NodeState { return Processed }
func (l verifControlLeafGood) Version() int      { return l.version }
func (l *verifControlLeafGood) verifControlCommit(v []int) {
	l.value = v
	l.version++
}
func (l *verifControlLeafGood) Set(msg []byte) (bool, error) {
	var next []int
	if err := json.NewDecoder(bytes.NewReader(msg)).Decode(&next); err != nil {
		return false, err
	}
	l.verifControlCommit(next)
	return true, nil
}

var _ *Struct[int, verifControlHiddenData]
var _ *Struct[int, verifControlVisibleData]
`

func runControls(c *props.Ctx, sp *ssa.Package, fns []*ssa.Function, ci *flow.CallIndex, eng *ordEngine) {
	if sp.Pkg.Scope().Lookup("verifControlBadNode") == nil {
		c.R.Note("C11 control overlay not loaded (did not type-check against this tree)")
		return
	}
	rules := []string{"NODE-1", "NODE-2", "NODE-3", "NODE-4", "NODE-5", "NODE-6", "NODE-7", "ORD-1"}
	bad := newCtl()
	if pr := newProto(c, sp, fns, ci, "verifControlBadNode", "control.Bad", bad); pr != nil {
		pr.eng = eng
		pr.checkAll()
	}
	good := newCtl()
	if pr := newProto(c, sp, fns, ci, "verifControlGoodNode", "control.Good", good); pr != nil {
		pr.eng = eng
		pr.checkAll()
	}
	for _, rule := range rules {
		v := ob.Holds
		msg := "seeded defect must be reported"
		if len(bad.fired[rule]) > 0 {
			v = ob.Violation
			msg = bad.fired[rule][0]
		} else if len(bad.und[rule]) > 0 {
			msg = "undecided instead of violation: " + bad.und[rule][0]
		}
		c.R.Control(rule, "control:bad", controlFile, v, ob.Violation, msg)
		v = ob.Holds
		msg = "accepted idioms must stay silent"
		if len(good.fired[rule]) > 0 {
			v = ob.Violation
			msg = good.fired[rule][0]
		} else if len(good.und[rule]) > 0 {
			v = ob.Undecided
			msg = good.und[rule][0]
		} else if good.held[rule] == 0 {
			v = ob.Undecided
			msg = "rule recorded nothing on the good control"
		}
		c.R.Control(rule, "control:good", controlFile, v, ob.Holds, msg)
	}
	// NODE-10 / NODE-11 controls: two input-less leaves
	if sp.Pkg.Scope().Lookup("verifControlLeafBad") != nil {
		lb, lg := newCtl(), newCtl()
		checkVersionedLeaves(c, lb, []leaf{{"nodes", "verifControlLeafBad", "Set"}})
		checkVersionedLeaves(c, lg, []leaf{{"nodes", "verifControlLeafGood", "Set"}})
		for _, rule := range []string{"NODE-10", "NODE-11"} {
			v := ob.Holds
			if len(lb.fired[rule]) > 0 {
				v = ob.Violation
			}
			c.R.Control(rule, "control:bad", controlFile, v, ob.Violation, "seeded defect must be reported")
			v = ob.Holds
			if len(lg.fired[rule])+len(lg.und[rule]) > 0 || lg.held[rule] == 0 {
				v = ob.Violation
			}
			c.R.Control(rule, "control:good", controlFile, v, ob.Holds, strings.Join(append(lg.fired[rule], lg.und[rule]...), "; "))
		}
		// the good leaf must not trip the older leaf rules either
		v := ob.Holds
		if len(lg.fired["NODE-1"])+len(lg.und["NODE-1"])+len(lg.fired["NODE-7"]) > 0 {
			v = ob.Violation
		}
		c.R.Control("NODE-1", "control:good-leaf", controlFile, v, ob.Holds, strings.Join(append(lg.fired["NODE-1"], lg.und["NODE-1"]...), "; "))
	}
	// REFL-1 controls live in package refutil
	if rsp := c.P.SSAPkg("refutil"); rsp != nil && rsp.Func("verifControlFieldsBad") != nil {
		rb, rg := newCtl(), newCtl()
		pb := &proto{c: c, rep: rb}
		pb.reflHelper(rsp.Func("verifControlFieldsBad"))
		pg := &proto{c: c, rep: rg}
		pg.reflHelper(rsp.Func("verifControlFieldsGood"))
		v := ob.Holds
		if len(rb.fired["REFL-1"]) > 0 {
			v = ob.Violation
		}
		c.R.Control("REFL-1", "control:bad", reflControlFile, v, ob.Violation, "early exit from the field loop must be reported")
		v = ob.Holds
		if len(rg.fired["REFL-1"])+len(rg.und["REFL-1"]) > 0 || rg.held["REFL-1"] == 0 {
			v = ob.Violation
		}
		c.R.Control("REFL-1", "control:good", reflControlFile, v, ob.Holds, strings.Join(append(rg.fired["REFL-1"], rg.und["REFL-1"]...), "; "))
		if rsp.Func("verifControlArraysBad") != nil {
			ab, ag := newCtl(), newCtl()
			(&proto{c: c, rep: ab}).reflHelper(rsp.Func("verifControlArraysBad"))
			(&proto{c: c, rep: ag}).reflHelper(rsp.Func("verifControlArraysGood"))
			v := ob.Holds
			if len(ab.fired["REFL-2"]) > 0 {
				v = ob.Violation
			}
			c.R.Control("REFL-2", "control:bad", reflControlFile, v, ob.Violation, "a scratch slice shared by all keys must be reported")
			v = ob.Holds
			if len(ag.fired["REFL-2"])+len(ag.und["REFL-2"])+len(rg.fired["REFL-2"]) > 0 || ag.held["REFL-2"] == 0 {
				v = ob.Violation
			}
			c.R.Control("REFL-2", "control:good", reflControlFile, v, ob.Holds, strings.Join(append(ag.fired["REFL-2"], rg.fired["REFL-2"]...), "; "))
		}
	}
	var extra []string
	for r, f := range good.fired {
		extra = append(extra, fmt.Sprintf("%s:%d", r, len(f)))
	}
	sort.Strings(extra)
	if len(extra) > 0 {
		c.R.Note("good control fired: %s", strings.Join(extra, " "))
	}
}
