// Package flow: CFG / def-use helpers shared by the C11 and C12 checks
// (edge-cut reachability, saturated path-event counting, who-may-call regions,
// return-site expansion). Candidates for a shared package; kept here because
// builders must not edit ssau/.
package flow

import (
	"go/constant"
	"go/token"
	"go/types"
	"sort"

	"golang.org/x/tools/go/ssa"

	"polycheck/ssau"
)

// Edge is the K-th successor edge of a block.
type Edge struct {
	From *ssa.BasicBlock
	K    int
}

func (e Edge) To() *ssa.BasicBlock { return e.From.Succs[e.K] }

// Origin normalises a (possibly instantiated) function object to its generic declaration.
func Origin(f *types.Func) *types.Func {
	if f == nil {
		return nil
	}
	return f.Origin()
}

// Callee returns the declaration object a call resolves to (static callee or
// interface method), normalised to the generic origin; nil for closures/builtins.
func Callee(c ssa.CallInstruction) *types.Func {
	return Origin(ssau.CalleeObj(c))
}

// Owner returns the declaration object of the top-level function enclosing fn
// (closures are attributed to the function that contains them).
func Owner(fn *ssa.Function) *types.Func {
	for fn != nil && fn.Parent() != nil {
		fn = fn.Parent()
	}
	if fn == nil {
		return nil
	}
	if fn.Origin() != nil {
		fn = fn.Origin()
	}
	if o, ok := fn.Object().(*types.Func); ok {
		return Origin(o)
	}
	return nil
}

// StripAll follows value-preserving wrappers, including Convert and slicing-free ChangeType chains.
func StripAll(v ssa.Value) ssa.Value {
	for {
		w := ssau.Strip(v)
		if c, ok := w.(*ssa.Convert); ok {
			v = c.X
			continue
		}
		if w == v {
			return v
		}
		v = w
	}
}

// ReachFrom returns the blocks reachable from start (inclusive) without using an edge in cut.
func ReachFrom(start *ssa.BasicBlock, cut map[Edge]bool) map[*ssa.BasicBlock]bool {
	seen := map[*ssa.BasicBlock]bool{}
	stack := []*ssa.BasicBlock{start}
	for len(stack) > 0 {
		b := stack[len(stack)-1]
		stack = stack[:len(stack)-1]
		if seen[b] {
			continue
		}
		seen[b] = true
		for k, s := range b.Succs {
			if cut[Edge{b, k}] {
				continue
			}
			stack = append(stack, s)
		}
	}
	return seen
}

// Reach = ReachFrom(entry).
func Reach(fn *ssa.Function, cut map[Edge]bool) map[*ssa.BasicBlock]bool {
	if len(fn.Blocks) == 0 {
		return map[*ssa.BasicBlock]bool{}
	}
	return ReachFrom(fn.Blocks[0], cut)
}

// PathAvoiding reports whether some path starting just after instruction from
// (function entry when from == nil) executes instruction to without first
// executing an instruction for which avoid is true and without using a cut edge.
func PathAvoiding(fn *ssa.Function, from, to ssa.Instruction, avoid func(ssa.Instruction) bool, cut map[Edge]bool) bool {
	if len(fn.Blocks) == 0 {
		return false
	}
	type pt struct {
		b *ssa.BasicBlock
		i int
	}
	start := pt{fn.Blocks[0], 0}
	if from != nil {
		start = pt{from.Block(), ssau.InstrIndex(from) + 1}
	}
	entered := map[*ssa.BasicBlock]bool{}
	stack := []pt{start}
	for len(stack) > 0 {
		p := stack[len(stack)-1]
		stack = stack[:len(stack)-1]
		blocked := false
		for j := p.i; j < len(p.b.Instrs); j++ {
			in := p.b.Instrs[j]
			if in == to {
				return true
			}
			if avoid != nil && avoid(in) {
				blocked = true
				break
			}
		}
		if blocked {
			continue
		}
		for k, s := range p.b.Succs {
			if cut[Edge{p.b, k}] || entered[s] {
				continue
			}
			entered[s] = true
			stack = append(stack, pt{s, 0})
		}
	}
	return false
}

// Vec is a saturated vector of event counts (each component capped at 2 = "two or more").
type Vec [6]uint8

func (v Vec) add(w Vec) Vec {
	for i := range v {
		s := v[i] + w[i]
		if s > 2 {
			s = 2
		}
		v[i] = s
	}
	return v
}

// Unit returns the vector with a single event of the given kind.
func Unit(kind int) Vec {
	var v Vec
	v[kind] = 1
	return v
}

// Step is the transfer function of a path automaton: given an instruction and
// the current saturated event vector it returns the possible successor vectors,
// or nil when the instruction is not an event.
type Step func(in ssa.Instruction, cur Vec) []Vec

// Bump returns cur with one more event of the given kind (saturating at 2).
func (v Vec) Bump(kind int) Vec { return v.add(Unit(kind)) }

// PathVectors computes, for every normal return of fn, the set of saturated
// event vectors over all paths from the entry (started with init) to that return.
func PathVectors(fn *ssa.Function, init Vec, step Step) map[*ssa.Return]map[Vec]bool {
	out := map[*ssa.Return]map[Vec]bool{}
	if len(fn.Blocks) == 0 {
		return out
	}
	in := map[*ssa.BasicBlock]map[Vec]bool{fn.Blocks[0]: {init: true}}
	work := []*ssa.BasicBlock{fn.Blocks[0]}
	for len(work) > 0 {
		b := work[0]
		work = work[1:]
		cur := map[Vec]bool{}
		for v := range in[b] {
			cur[v] = true
		}
		for _, instr := range b.Instrs {
			nx := map[Vec]bool{}
			for v := range cur {
				alts := step(instr, v)
				if alts == nil {
					nx[v] = true
					continue
				}
				for _, a := range alts {
					nx[a] = true
				}
			}
			cur = nx
			if r, ok := instr.(*ssa.Return); ok {
				m := out[r]
				if m == nil {
					m = map[Vec]bool{}
					out[r] = m
				}
				for v := range cur {
					m[v] = true
				}
			}
		}
		for _, s := range b.Succs {
			m := in[s]
			if m == nil {
				m = map[Vec]bool{}
				in[s] = m
			}
			changed := false
			for v := range cur {
				if !m[v] {
					m[v] = true
					changed = true
				}
			}
			if changed {
				work = append(work, s)
			}
		}
	}
	return out
}

// AllVectors is the union of PathVectors over all returns, in deterministic order.
func AllVectors(fn *ssa.Function, init Vec, step Step) []Vec {
	set := map[Vec]bool{}
	for _, m := range PathVectors(fn, init, step) {
		for v := range m {
			set[v] = true
		}
	}
	var out []Vec
	for v := range set {
		out = append(out, v)
	}
	sort.Slice(out, func(i, j int) bool {
		for k := range out[i] {
			if out[i][k] != out[j][k] {
				return out[i][k] < out[j][k]
			}
		}
		return false
	})
	return out
}

// RetSite is one way a function produces result #idx: either a Return whose
// operand is Val, or — when the operand is a Phi in the returning block — one
// incoming edge of that Phi.
type RetSite struct {
	Ret  *ssa.Return
	Val  ssa.Value
	Via  *Edge // non-nil: the site is the incoming edge Via of a Phi feeding Ret
	Cons *ssa.Const
}

// Reachable reports whether the site can execute when the edges in cut are removed.
func (s RetSite) Reachable(fn *ssa.Function, cut map[Edge]bool) bool {
	r := Reach(fn, cut)
	if s.Via != nil {
		return r[s.Via.From] && !cut[*s.Via]
	}
	return r[s.Ret.Block()]
}

// Pos of the site.
func (s RetSite) Pos() token.Pos {
	if s.Ret.Pos().IsValid() {
		return s.Ret.Pos()
	}
	return ssau.PosOf(s.Ret)
}

// Unspill resolves a returned value that travels through a result slot: in a
// function with defers `return x` becomes `*slot = x; rundefers; t = *slot;
// return t` inside one block. It returns x.
func Unspill(r *ssa.Return, v ssa.Value) ssa.Value {
	ld, ok := v.(*ssa.UnOp)
	if !ok || ld.Op != token.MUL {
		return v
	}
	slot, ok := ld.X.(*ssa.Alloc)
	if !ok {
		return v
	}
	b := r.Block()
	for i := len(b.Instrs) - 1; i >= 0; i-- {
		if s, ok := b.Instrs[i].(*ssa.Store); ok && s.Addr == ssa.Value(slot) {
			return s.Val
		}
	}
	return v
}

// ReturnSites expands result #idx of every Return of fn.
func ReturnSites(fn *ssa.Function, idx int) []RetSite {
	var out []RetSite
	for _, b := range fn.Blocks {
		if len(b.Instrs) == 0 {
			continue
		}
		r, ok := b.Instrs[len(b.Instrs)-1].(*ssa.Return)
		if !ok || idx >= len(r.Results) {
			continue
		}
		v := Unspill(r, r.Results[idx])
		if phi, ok := v.(*ssa.Phi); ok && phi.Block() == b {
			for k, e := range phi.Edges {
				pred := b.Preds[k]
				var ed *Edge
				for sk, s := range pred.Succs {
					if s == b {
						ed = &Edge{pred, sk}
						break
					}
				}
				c, _ := e.(*ssa.Const)
				out = append(out, RetSite{Ret: r, Val: e, Via: ed, Cons: c})
			}
			continue
		}
		c, _ := v.(*ssa.Const)
		out = append(out, RetSite{Ret: r, Val: v, Cons: c})
	}
	return out
}

// ConstBool returns the value of a boolean constant.
func ConstBool(c *ssa.Const) (bool, bool) {
	if c == nil || c.Value == nil || c.Value.Kind() != constant.Bool {
		return false, false
	}
	return constant.BoolVal(c.Value), true
}

// IsNilConst reports whether v is the nil constant.
func IsNilConst(v ssa.Value) bool {
	c, ok := v.(*ssa.Const)
	return ok && c.Value == nil
}

// BoolTest describes how a branch condition depends on a boolean value of interest.
// It peels `!x`, `x == true`, `x == false`, `x != true`, `x != false`.
// It returns the underlying value and whether the If's true edge (Succs[0])
// corresponds to the value being true.
func BoolTest(cond ssa.Value) (ssa.Value, bool) {
	pos := true
	for {
		switch x := cond.(type) {
		case *ssa.UnOp:
			if x.Op == token.NOT {
				pos = !pos
				cond = x.X
				continue
			}
		case *ssa.BinOp:
			if x.Op == token.EQL || x.Op == token.NEQ {
				var other ssa.Value
				var cb bool
				var ok bool
				if c, isC := x.Y.(*ssa.Const); isC {
					cb, ok = ConstBool(c)
					other = x.X
				} else if c, isC := x.X.(*ssa.Const); isC {
					cb, ok = ConstBool(c)
					other = x.Y
				}
				if ok {
					if (x.Op == token.EQL) != cb {
						pos = !pos
					}
					cond = other
					continue
				}
			}
		}
		return cond, pos
	}
}

// IfOf returns the If terminating b, or nil.
func IfOf(b *ssa.BasicBlock) *ssa.If {
	if len(b.Instrs) == 0 {
		return nil
	}
	i, _ := b.Instrs[len(b.Instrs)-1].(*ssa.If)
	return i
}

// CallSite is one static or invoke call.
type CallSite struct {
	In   *ssa.Function
	Call ssa.CallInstruction
}

// CallIndex maps callee declarations to their call sites within a function universe.
type CallIndex struct {
	Sites map[*types.Func][]CallSite
	Body  map[*types.Func]*ssa.Function
	Funcs []*ssa.Function
}

// IndexCalls indexes the calls made by fns (closures included as given).
func IndexCalls(fns []*ssa.Function) *CallIndex {
	ci := &CallIndex{Sites: map[*types.Func][]CallSite{}, Body: map[*types.Func]*ssa.Function{}, Funcs: fns}
	for _, fn := range fns {
		if fn.Parent() == nil {
			if o := Owner(fn); o != nil && fn.Synthetic == "" {
				ci.Body[o] = fn
			}
		}
		ssau.AllInstrs(fn, func(in ssa.Instruction) {
			if c, ok := in.(ssa.CallInstruction); ok {
				if o := Callee(c); o != nil {
					ci.Sites[o] = append(ci.Sites[o], CallSite{fn, c})
				}
			}
		})
	}
	return ci
}

// Region returns root plus every unexported function of root's package that is
// called from the region and from nowhere else (its private helpers). A write
// performed by a member of the region happens only as part of executing root.
func (ci *CallIndex) Region(root *types.Func) map[*types.Func]bool {
	reg := map[*types.Func]bool{root: true}
	for changed := true; changed; {
		changed = false
		for callee, sites := range ci.Sites {
			if reg[callee] || callee.Exported() || callee.Pkg() != root.Pkg() || ci.Body[callee] == nil {
				continue
			}
			all := true
			for _, s := range sites {
				if !reg[Owner(s.In)] {
					all = false
					break
				}
			}
			if all && len(sites) > 0 {
				reg[callee] = true
				changed = true
			}
		}
	}
	return reg
}

// FieldBase returns, for an address or value derived from a struct by field
// selection, the field object and the base (the X of the FieldAddr/Field).
func FieldBase(v ssa.Value) (*types.Var, ssa.Value) {
	switch x := v.(type) {
	case *ssa.FieldAddr:
		return ssau.FieldOf(x), x.X
	case *ssa.Field:
		return ssau.FieldOf(x), x.X
	}
	return nil, nil
}

// LoadedField returns the field object when v is a load `*(&x.f)` or a Field read, else nil.
func LoadedField(v ssa.Value) (*types.Var, ssa.Value) {
	switch x := v.(type) {
	case *ssa.UnOp:
		if x.Op == token.MUL {
			return FieldBase(x.X)
		}
	case *ssa.Field:
		return FieldBase(x)
	}
	return nil, nil
}

// IsFreshBase reports whether addr's base object was allocated by the current
// function (a local or a `new`/composite literal): stores through it initialise
// a fresh object or a private copy.
func IsFreshBase(addr ssa.Value) bool {
	for {
		switch x := addr.(type) {
		case *ssa.FieldAddr:
			addr = x.X
		case *ssa.IndexAddr:
			addr = x.X
		case *ssa.Alloc:
			return true
		default:
			return false
		}
	}
}
