package flow

import (
	"fmt"
	"go/types"
	"sort"
	"strings"

	"golang.org/x/tools/go/ssa"

	"polycheck/ssau"
)

// ORD-1 (DESIGN.md 3.9): a slice built by append inside `range` over a map — or a
// stateful accumulator (append-to-field, io.Writer) fed inside such a loop —
// carries the map's iteration order. It must be sorted before it leaves the
// place where an order-sensitive consumer can see it.
//
// The engine is a forward taint over SSA with per-function summaries:
//
//	Ret      some result carries a map-ordered slice (possibly inside a struct/map)
//	Out[k]   the object behind parameter k receives a map-ordered slice
//	Accum[k] state reachable from parameter k is appended to / written to
//	         (so calling the function repeatedly records the *order of the calls*)
//	Thread[k] a result is parameter k with elements appended (threaded slice)
//
// A sort call (sort.*, slices.Sort*) on the slice, dominating the use and not
// followed by a further accumulating append, removes the taint.

type Witness struct {
	At     ssa.Instruction
	Why    string
	Origin *Witness // the callee's witness when the taint arrived through a call
}

// Root follows Origin to the accumulation that started the taint.
func (w *Witness) Root() *Witness {
	for w != nil && w.Origin != nil {
		w = w.Origin
	}
	return w
}

// Source is one order-carrying accumulation found in a function.
type Source struct {
	Fn     *ssa.Function
	At     ssa.Instruction // the append / call inside the ordered loop
	What   string          // human description of the accumulated thing
	Key    string          // stable key of the accumulated variable (name of the Go variable or field path)
	Leaks  bool            // reaches return / out-parameter / sink unsorted
	Sorted bool            // a dominating sort was found
	How    string          // how it leaks
	Fatal  bool            // cannot be repaired by sorting afterwards (stateful accumulator fed in map order)
	Origin *Witness        // for a taint that arrived through a call: the callee's witness
}

type Summary struct {
	Ret     *Witness
	Out     map[int]*Witness
	Accum   map[int]*Witness
	Thread  map[int]bool
	Sources []Source
}

type Ord1 struct {
	InScope func(*ssa.Function) bool
	Impls   func(m *types.Func) []*ssa.Function
	// SinkCall: passing a tainted value as argument #arg of this call is a leak (e.g. the encoder).
	SinkCall func(c ssa.CallInstruction, arg int) bool

	memo   map[*ssa.Function]*Summary
	prev   map[*ssa.Function]*Summary // previous fixpoint round (breaks recursion cycles)
	inprog map[*ssa.Function]bool
	dirty  bool
}

func (o *Ord1) init() {
	if o.memo == nil {
		o.memo = map[*ssa.Function]*Summary{}
		o.inprog = map[*ssa.Function]bool{}
	}
}

// Summarise analyses fns (and, on demand, the in-scope functions they call) to a
// fixpoint and returns the summaries of everything that was analysed.
func (o *Ord1) Summarise(fns ...*ssa.Function) map[*ssa.Function]*Summary {
	o.init()
	for round := 0; round < 6; round++ {
		o.dirty = false
		o.inprog = map[*ssa.Function]bool{}
		o.prev = o.memo
		o.memo = map[*ssa.Function]*Summary{}
		for _, fn := range fns {
			o.summary(fn)
		}
		if !o.dirty {
			break
		}
	}
	return o.memo
}

func sumSig(s *Summary) string {
	if s == nil {
		return ""
	}
	var parts []string
	if s.Ret != nil {
		parts = append(parts, "R")
	}
	for k := range s.Out {
		parts = append(parts, fmt.Sprintf("O%d", k))
	}
	for k := range s.Accum {
		parts = append(parts, fmt.Sprintf("A%d", k))
	}
	for k := range s.Thread {
		parts = append(parts, fmt.Sprintf("T%d", k))
	}
	sort.Strings(parts)
	return strings.Join(parts, ",")
}

func (o *Ord1) summary(fn *ssa.Function) *Summary {
	if fn == nil || fn.Blocks == nil {
		return nil
	}
	if s, ok := o.memo[fn]; ok {
		return s
	}
	if o.inprog[fn] {
		if s, ok := o.prev[fn]; ok {
			return s
		}
		o.dirty = true
		return nil
	}
	o.inprog[fn] = true
	s := o.analyse(fn)
	delete(o.inprog, fn)
	o.memo[fn] = s
	if ps, ok := o.prev[fn]; !ok || sumSig(ps) != sumSig(s) {
		o.dirty = true
	}
	return s
}

// calleeSummaries returns the summaries of the possible callees of c.
func (o *Ord1) calleeSummaries(c ssa.CallInstruction) []*Summary {
	cc := c.Common()
	var fns []*ssa.Function
	if cc.IsInvoke() {
		if o.Impls != nil {
			fns = o.Impls(cc.Method)
		}
	} else if f := cc.StaticCallee(); f != nil {
		fns = []*ssa.Function{f}
	}
	var out []*Summary
	for _, f := range fns {
		if f == nil || f.Blocks == nil || (o.InScope != nil && !o.InScope(f)) {
			continue
		}
		if s := o.summary(f); s != nil {
			out = append(out, s)
		}
	}
	return out
}

// argIndex maps call argument positions to callee parameter positions: for
// invoke calls the receiver is parameter 0 of the implementation.
func callArgs(c ssa.CallInstruction) []ssa.Value {
	cc := c.Common()
	if cc.IsInvoke() {
		return append([]ssa.Value{cc.Value}, cc.Args...)
	}
	return cc.Args
}

var sortFuncs = map[string]map[string]bool{
	"sort":   {"Slice": true, "SliceStable": true, "Strings": true, "Ints": true, "Float64s": true, "Sort": true, "Stable": true},
	"slices": {"Sort": true, "SortFunc": true, "SortStableFunc": true},
}

// SortedArg returns the slice being sorted when c is a call of a sorting function.
func SortedArg(c ssa.CallInstruction) ssa.Value {
	f := Callee(c)
	if f == nil || f.Pkg() == nil || len(c.Common().Args) == 0 {
		return nil
	}
	if m := sortFuncs[f.Pkg().Path()]; m != nil && m[f.Name()] {
		if sig, ok := f.Type().(*types.Signature); ok && sig.Recv() == nil {
			return StripAll(c.Common().Args[0])
		}
	}
	return nil
}

func isWriterIface(t types.Type) bool {
	it, ok := t.Underlying().(*types.Interface)
	if !ok {
		return false
	}
	for i := 0; i < it.NumMethods(); i++ {
		if it.Method(i).Name() == "Write" {
			return true
		}
	}
	return false
}

var writeMethods = map[string]bool{"Write": true, "WriteString": true, "WriteByte": true, "WriteRune": true, "WriteTo": false, "ReadFrom": true}

// writerObject returns the object being appended to when c is a Write-family call.
func writerObject(c ssa.CallInstruction) ssa.Value {
	cc := c.Common()
	if cc.IsInvoke() {
		if writeMethods[cc.Method.Name()] && isWriterIface(cc.Value.Type()) {
			return cc.Value
		}
		return nil
	}
	f := Callee(c)
	if f == nil || len(cc.Args) == 0 {
		return nil
	}
	if writeMethods[f.Name()] {
		if n := ssau.RecvNamed(f); n != nil && n.Obj().Pkg() != nil {
			p := n.Obj().Pkg().Path()
			if (p == "bytes" && n.Obj().Name() == "Buffer") || (p == "strings" && n.Obj().Name() == "Builder") || (p == "bufio" && n.Obj().Name() == "Writer") {
				return cc.Args[0]
			}
		}
	}
	return nil
}

type loc struct {
	root ssa.Value
	path string
}

// locOf resolves an address to (root object, access path).
func locOf(fn *ssa.Function, addr ssa.Value) (loc, bool) {
	path := ""
	for depth := 0; depth < 32; depth++ {
		switch x := addr.(type) {
		case *ssa.FieldAddr:
			path = fmt.Sprintf(".%d", x.Field) + path
			addr = x.X
		case *ssa.IndexAddr:
			path = "[]" + path
			addr = x.X
		case *ssa.UnOp:
			// pointer loaded from memory: the object is reachable from that memory's root
			path = "*" + path
			addr = x.X
		case *ssa.Slice:
			addr = x.X
		case *ssa.ChangeType:
			addr = x.X
		case *ssa.MakeInterface:
			addr = x.X
		case *ssa.Alloc:
			// a spilled parameter (value receiver / by-value struct parameter)
			if p := spilledParam(x); p != nil {
				return loc{p, path}, true
			}
			return loc{x, path}, true
		case *ssa.Parameter, *ssa.Global, *ssa.FreeVar, *ssa.MakeMap, *ssa.MakeSlice:
			return loc{x, path}, true
		default:
			if v, ok := addr.(ssa.Value); ok && v != nil {
				return loc{v, path}, true
			}
			return loc{}, false
		}
	}
	return loc{}, false
}

func spilledParam(a *ssa.Alloc) *ssa.Parameter {
	var p *ssa.Parameter
	n := 0
	for _, r := range ssau.Refs(a) {
		if s, ok := r.(*ssa.Store); ok && s.Addr == a {
			n++
			if q, ok := s.Val.(*ssa.Parameter); ok {
				p = q
			}
		}
	}
	if n == 1 {
		return p
	}
	return nil
}

func paramIndex(fn *ssa.Function, v ssa.Value) int {
	for i, p := range fn.Params {
		if p == v {
			return i
		}
	}
	return -1
}

// visible: a write at (parameter, path) is seen by the caller only through a
// pointer-like parameter or a dereference on the way (not a by-value copy).
func visible(root ssa.Value, path string) bool {
	if strings.Contains(path, "*") || strings.Contains(path, "[]") {
		return true
	}
	switch root.Type().Underlying().(type) {
	case *types.Pointer, *types.Map, *types.Slice, *types.Interface:
		return true
	}
	return false
}

func visParam(fn *ssa.Function, l loc) int {
	k := paramIndex(fn, l.root)
	if k >= 0 && !visible(l.root, l.path) {
		return -1
	}
	return k
}

func overlap(a, b string) bool {
	return strings.HasPrefix(a, b) || strings.HasPrefix(b, a)
}

type fnState struct {
	o       *Ord1
	fn      *ssa.Function
	loops   []*ssau.Loop
	ordered map[*ssau.Loop]string // loop -> why it is order-carrying
	tainted map[ssa.Value]*Witness
	tlocs   map[loc]*Witness
	tstores map[loc][]ssa.Instruction // tainting stores / map updates per location
	accApp  map[ssa.Value]bool        // append-like instructions that accumulate in an ordered loop
	sorts   []sortCall
	sum     *Summary
	srcIdx  map[ssa.Instruction]int
}

type sortCall struct {
	at  ssa.Instruction
	arg ssa.Value
}

func isMapRangeLoop(l *ssau.Loop) bool {
	for _, in := range l.Header.Instrs {
		if nx, ok := in.(*ssa.Next); ok && !nx.IsString {
			if r, ok := nx.Iter.(*ssa.Range); ok {
				if _, ok := r.X.Type().Underlying().(*types.Map); ok {
					return true
				}
			}
		}
	}
	return false
}

// MapRangeLoops counts the loops of fn that range over a map.
func MapRangeLoops(fn *ssa.Function) int {
	n := 0
	for _, l := range ssau.Loops(fn) {
		if isMapRangeLoop(l) {
			n++
		}
	}
	return n
}

func definedOutside(l *ssau.Loop, v ssa.Value) bool {
	switch x := v.(type) {
	case *ssa.Parameter, *ssa.Global, *ssa.FreeVar, *ssa.Const:
		return true
	case ssa.Instruction:
		return !l.Blocks[x.Block()]
	}
	return true
}

// appendLike: builtin append, or a call whose callee threads parameter k into its result with elements appended.
// It returns the "accumulated so far" operand.
func (st *fnState) appendLike(in ssa.Instruction) (ssa.Value, bool) {
	c, ok := in.(*ssa.Call)
	if !ok {
		return nil, false
	}
	if ssau.Builtin(c) == "append" {
		return c.Call.Args[0], true
	}
	for _, s := range st.o.calleeSummaries(c) {
		args := callArgs(c)
		var ks []int
		for k := range s.Thread {
			ks = append(ks, k)
		}
		sort.Ints(ks)
		for _, k := range ks {
			if k < len(args) {
				return args[k], true
			}
		}
	}
	return nil, false
}

func varName(v ssa.Value) string {
	switch x := v.(type) {
	case *ssa.Phi:
		if x.Comment != "" {
			return x.Comment
		}
	case *ssa.Alloc:
		if x.Comment != "" {
			return x.Comment
		}
	case *ssa.Parameter:
		return x.Name()
	case *ssa.Global:
		return x.Name()
	case *ssa.FreeVar:
		return x.Name()
	}
	return v.Name()
}

func (st *fnState) locKey(l loc) string {
	p := l.path
	// render field indexes as names where the root type is known
	t := l.root.Type()
	var b strings.Builder
	b.WriteString(varName(l.root))
	for len(p) > 0 {
		switch {
		case p[0] == '*':
			p = p[1:]
			if pt, ok := t.Underlying().(*types.Pointer); ok {
				t = pt.Elem()
			}
		case strings.HasPrefix(p, "[]"):
			p = p[2:]
			b.WriteString("[]")
			switch u := t.Underlying().(type) {
			case *types.Slice:
				t = u.Elem()
			case *types.Array:
				t = u.Elem()
			case *types.Pointer:
				if a, ok := u.Elem().Underlying().(*types.Array); ok {
					t = a.Elem()
				}
			}
		case p[0] == '.':
			j := 1
			for j < len(p) && p[j] >= '0' && p[j] <= '9' {
				j++
			}
			idx := 0
			fmt.Sscanf(p[1:j], "%d", &idx)
			p = p[j:]
			if pt, ok := t.Underlying().(*types.Pointer); ok {
				t = pt.Elem()
			}
			if s, ok := t.Underlying().(*types.Struct); ok && idx < s.NumFields() {
				b.WriteString("." + s.Field(idx).Name())
				t = s.Field(idx).Type()
			} else {
				b.WriteString(fmt.Sprintf(".#%d", idx))
			}
		default:
			p = p[1:]
		}
	}
	return b.String()
}

func (o *Ord1) analyse(fn *ssa.Function) *Summary {
	st := &fnState{o: o, fn: fn, loops: ssau.Loops(fn), ordered: map[*ssau.Loop]string{},
		tainted: map[ssa.Value]*Witness{}, tlocs: map[loc]*Witness{}, tstores: map[loc][]ssa.Instruction{}, accApp: map[ssa.Value]bool{},
		sum: &Summary{Out: map[int]*Witness{}, Accum: map[int]*Witness{}, Thread: map[int]bool{}}, srcIdx: map[ssa.Instruction]int{}}
	for _, l := range st.loops {
		if isMapRangeLoop(l) {
			st.ordered[l] = "range over a map"
		}
	}
	ssau.AllInstrs(fn, func(in ssa.Instruction) {
		if c, ok := in.(ssa.CallInstruction); ok {
			if a := SortedArg(c); a != nil {
				st.sorts = append(st.sorts, sortCall{in, a})
			}
		}
	})
	st.threadAndAccum()
	for round := 0; round < 8; round++ {
		n0 := len(st.tainted) + len(st.tlocs) + len(st.ordered) + len(st.sum.Sources)
		st.seedLoops()
		st.propagate()
		st.deriveLoops()
		if len(st.tainted)+len(st.tlocs)+len(st.ordered)+len(st.sum.Sources) == n0 {
			break
		}
	}
	st.finish()
	return st.sum
}

// chainBack walks the "same growing slice" chain backwards from v: append first
// argument, Phi edges, Slice, ChangeType. visit returns true to stop.
func chainBack(v ssa.Value, st *fnState, visit func(ssa.Value) bool) {
	seen := map[ssa.Value]bool{}
	var walk func(v ssa.Value) bool
	walk = func(v ssa.Value) bool {
		if v == nil || seen[v] {
			return false
		}
		seen[v] = true
		if visit(v) {
			return true
		}
		switch x := v.(type) {
		case *ssa.Phi:
			for _, e := range x.Edges {
				if walk(e) {
					return true
				}
			}
		case *ssa.Slice:
			return walk(x.X)
		case *ssa.ChangeType:
			return walk(x.X)
		case *ssa.Convert:
			return walk(x.X)
		case *ssa.Call:
			if a, ok := st.appendLike(x); ok {
				return walk(a)
			}
		}
		return false
	}
	walk(v)
}

func (st *fnState) addSource(at ssa.Instruction, what, key string, fatal bool) int {
	if i, ok := st.srcIdx[at]; ok {
		return i
	}
	st.sum.Sources = append(st.sum.Sources, Source{Fn: st.fn, At: at, What: what, Key: key, Fatal: fatal, Leaks: fatal})
	st.srcIdx[at] = len(st.sum.Sources) - 1
	return len(st.sum.Sources) - 1
}

// seedLoops finds, in every order-carrying loop, the accumulations that persist across iterations.
func (st *fnState) seedLoops() {
	type lw struct {
		l   *ssau.Loop
		why string
	}
	var ls []lw
	for _, l := range st.loops {
		if why, ok := st.ordered[l]; ok {
			ls = append(ls, lw{l, why})
		}
	}
	for _, x := range ls {
		l, why := x.l, x.why
		for _, b := range st.fn.Blocks {
			if !l.Blocks[b] {
				continue
			}
			for _, in := range b.Instrs {
				// (a)/(b): append-like inside the loop
				if acc, ok := st.appendLike(in); ok {
					call := in.(*ssa.Call)
					// (a) carried through a header phi
					carried := false
					var hphi ssa.Value
					chainBack(acc, st, func(v ssa.Value) bool {
						if p, ok := v.(*ssa.Phi); ok && p.Block() == l.Header {
							carried = true
							hphi = p
							return true
						}
						return false
					})
					if carried {
						st.accApp[call] = true
						w := &Witness{At: in, Why: "append inside " + why}
						if st.tainted[call] == nil {
							st.tainted[call] = w
						}
						if st.tainted[hphi] == nil {
							st.tainted[hphi] = w
						}
						st.addSource(in, "slice '"+varName(hphi)+"' grown by append inside "+why, varName(hphi), false)
						continue
					}
					// (b) carried through memory: load L; append; store back to L, L rooted outside the loop
					if ld, ok := StripAll(acc).(*ssa.UnOp); ok {
						if la, ok := locOf(st.fn, ld.X); ok && definedOutside(l, la.root) {
							for _, r := range ssau.Refs(call) {
								if s, ok := r.(*ssa.Store); ok && s.Val == call {
									if sa, ok := locOf(st.fn, s.Addr); ok && sa == la {
										st.accApp[call] = true
										w := &Witness{At: in, Why: "append inside " + why}
										if st.tlocs[la] == nil {
											st.tlocs[la] = w
										}
										st.tstores[la] = appendUnique(st.tstores[la], s)
										st.addSource(in, "'"+st.locKey(la)+"' grown by append inside "+why, st.locKey(la), false)
									}
								}
							}
						}
					}
					continue
				}
				c, ok := in.(ssa.CallInstruction)
				if !ok {
					continue
				}
				// (d) bytes written in loop order
				if obj := writerObject(c); obj != nil {
					if la, ok := locOf(st.fn, obj); ok && definedOutside(l, la.root) {
						st.addSource(in, "bytes written to '"+st.locKey(la)+"' inside "+why, st.locKey(la), true)
						st.sum.Sources[st.srcIdx[in]].How = "the writer records the iteration order; no later sort can repair it"
						if k := visParam(st.fn, la); k >= 0 && st.sum.Accum[k] == nil {
							st.sum.Accum[k] = &Witness{At: in, Why: "written inside " + why}
						}
					}
					continue
				}
				// (c) stateful callee fed in loop order
				args := callArgs(c)
				for _, s := range st.o.calleeSummaries(c) {
					var ks []int
					for k := range s.Accum {
						ks = append(ks, k)
					}
					sort.Ints(ks)
					for _, k := range ks {
						if k >= len(args) {
							continue
						}
						la, ok := locOf(st.fn, args[k])
						if !ok || !definedOutside(l, la.root) {
							continue
						}
						i := st.addSource(in, "'"+st.locKey(la)+"' is passed to a callee that accumulates into it ("+s.Accum[k].Why+"), inside "+why, st.locKey(la), true)
						st.sum.Sources[i].How = "the callee's internal state records the order of the calls; no later sort can repair it"
					}
				}
			}
		}
	}
}

func appendUnique(xs []ssa.Instruction, x ssa.Instruction) []ssa.Instruction {
	for _, y := range xs {
		if y == x {
			return xs
		}
	}
	return append(xs, x)
}

// class returns the values that denote the same growing slice as v.
func (st *fnState) class(v ssa.Value) map[ssa.Value]bool {
	cls := map[ssa.Value]bool{}
	var walk func(v ssa.Value)
	walk = func(v ssa.Value) {
		if v == nil || cls[v] {
			return
		}
		if _, ok := v.(*ssa.Const); ok {
			return
		}
		cls[v] = true
		// backwards
		switch x := v.(type) {
		case *ssa.Phi:
			for _, e := range x.Edges {
				walk(e)
			}
		case *ssa.Slice:
			walk(x.X)
		case *ssa.ChangeType:
			walk(x.X)
		case *ssa.Convert:
			walk(x.X)
		case *ssa.Call:
			if a, ok := st.appendLike(x); ok {
				walk(a)
			}
		}
		// forwards
		for _, r := range ssau.Refs(v) {
			switch y := r.(type) {
			case *ssa.Phi:
				walk(y)
			case *ssa.Slice:
				if y.X == v {
					walk(y)
				}
			case *ssa.ChangeType:
				walk(y)
			case *ssa.Convert:
				walk(y)
			case *ssa.Call:
				if a, ok := st.appendLike(y); ok && a == v {
					walk(y)
				}
			}
		}
	}
	walk(v)
	return cls
}

// killedVal: a sort on the same growing slice dominates use and no accumulating append can follow the sort.
func (st *fnState) killedVal(v ssa.Value, use ssa.Instruction) bool {
	if len(st.sorts) == 0 {
		return false
	}
	cls := st.class(v)
	for _, s := range st.sorts {
		if !cls[s.arg] {
			continue
		}
		if !ssau.Before(s.at, use) {
			continue
		}
		again := false
		for a := range st.accApp {
			if cls[a] {
				if ai, ok := a.(ssa.Instruction); ok && ssau.CanFollow(s.at, ai) {
					again = true
				}
			}
		}
		if !again {
			return true
		}
	}
	return false
}

func (st *fnState) killedLoc(l loc, use ssa.Instruction) bool {
	for _, s := range st.sorts {
		ld, ok := s.arg.(*ssa.UnOp)
		if !ok {
			continue
		}
		sl, ok := locOf(st.fn, ld.X)
		if !ok || sl != l {
			continue
		}
		if !ssau.Before(s.at, use) {
			continue
		}
		again := false
		for _, x := range st.tstores[l] {
			if ssau.CanFollow(s.at, x) {
				again = true
			}
		}
		if !again {
			return true
		}
	}
	return false
}

func (st *fnState) markSorted(w *Witness) {
	if w == nil {
		return
	}
	if i, ok := st.srcIdx[w.At]; ok {
		st.sum.Sources[i].Sorted = true
	}
}

// taintOf: is v tainted when used by use?
func (st *fnState) taintOf(v ssa.Value, use ssa.Instruction) *Witness {
	w := st.tainted[v]
	if w == nil {
		return nil
	}
	if st.killedVal(v, use) {
		st.markSorted(w)
		return nil
	}
	return w
}

func (st *fnState) loadTaint(ld *ssa.UnOp) *Witness {
	la, ok := locOf(st.fn, ld.X)
	if !ok {
		return nil
	}
	var keys []loc
	for t := range st.tlocs {
		if t.root == la.root && overlap(t.path, la.path) {
			keys = append(keys, t)
		}
	}
	sort.Slice(keys, func(i, j int) bool { return keys[i].path < keys[j].path })
	for _, t := range keys {
		if st.killedLoc(t, ld) {
			st.markSorted(st.tlocs[t])
			continue
		}
		return st.tlocs[t]
	}
	return nil
}

func (st *fnState) taintLoc(addr ssa.Value, w *Witness, by ssa.Instruction) {
	la, ok := locOf(st.fn, addr)
	if !ok {
		return
	}
	if st.tlocs[la] == nil {
		st.tlocs[la] = w
	}
	st.tstores[la] = appendUnique(st.tstores[la], by)
}

func (st *fnState) leak(w *Witness, how string) {
	if w == nil {
		return
	}
	if i, ok := st.srcIdx[w.At]; ok {
		if !st.sum.Sources[i].Leaks {
			st.sum.Sources[i].Leaks = true
			st.sum.Sources[i].How = how
		}
	}
}

func (st *fnState) propagate() {
	for changed := true; changed; {
		changed = false
		set := func(v ssa.Value, w *Witness) {
			if w != nil && st.tainted[v] == nil {
				st.tainted[v] = w
				changed = true
			}
		}
		for _, b := range st.fn.Blocks {
			for _, in := range b.Instrs {
				switch x := in.(type) {
				case *ssa.Phi:
					for _, e := range x.Edges {
						set(x, st.taintOf(e, x))
					}
				case *ssa.Slice:
					set(x, st.taintOf(x.X, x))
				case *ssa.ChangeType:
					set(x, st.taintOf(x.X, x))
				case *ssa.Convert:
					set(x, st.taintOf(x.X, x))
				case *ssa.MakeInterface:
					set(x, st.taintOf(x.X, x))
				case *ssa.ChangeInterface:
					set(x, st.taintOf(x.X, x))
				case *ssa.TypeAssert:
					set(x, st.taintOf(x.X, x))
				case *ssa.Extract:
					set(x, st.taintOf(x.Tuple, x))
				case *ssa.Field:
					set(x, st.taintOf(x.X, x))
				case *ssa.Lookup:
					set(x, st.taintOf(x.X, x))
				case *ssa.UnOp:
					if x.Op.String() == "*" {
						set(x, st.loadTaint(x))
					}
				case *ssa.Store:
					if w := st.taintOf(x.Val, x); w != nil {
						n := len(st.tlocs)
						st.taintLoc(x.Addr, w, x)
						if len(st.tlocs) != n {
							changed = true
						}
					}
				case *ssa.MapUpdate:
					if w := st.taintOf(x.Value, x); w != nil {
						set(x.Map, w)
						if ld, ok := x.Map.(*ssa.UnOp); ok {
							n := len(st.tlocs)
							st.taintLoc(ld.X, w, x)
							if len(st.tlocs) != n {
								changed = true
							}
						}
					}
				case *ssa.Return:
					for _, r := range x.Results {
						if w := st.taintOf(r, x); w != nil && st.sum.Ret == nil {
							st.sum.Ret = w
							st.leak(w, "returned unsorted")
							changed = true
						}
					}
				case *ssa.Call:
					if ssau.Builtin(x) == "append" {
						for _, a := range x.Call.Args {
							set(x, st.taintOf(a, x))
						}
						continue
					}
					args := callArgs(x)
					for _, s := range st.o.calleeSummaries(x) {
						if s.Ret != nil {
							set(x, &Witness{At: x, Why: "result of a call that returns a map-ordered slice (" + s.Ret.Why + ")", Origin: s.Ret})
							if _, ok := st.srcIdx[x]; !ok {
								name := "?"
								if f := Callee(x); f != nil {
									name = f.Name()
								}
								i := st.addSource(x, "result of "+name+"(), which is in map order", "call:"+name, false)
								st.sum.Sources[i].Origin = s.Ret
								changed = true
							}
						}
						var ks []int
						for k := range s.Out {
							ks = append(ks, k)
						}
						sort.Ints(ks)
						for _, k := range ks {
							if k < len(args) {
								w := &Witness{At: x, Why: "callee stores a map-ordered slice behind this argument (" + s.Out[k].Why + ")", Origin: s.Out[k]}
								if _, ok := st.srcIdx[x]; !ok {
									name := "?"
									if f := Callee(x); f != nil {
										name = f.Name()
									}
									i := st.addSource(x, "object filled by "+name+"() with a map-ordered slice", "call:"+name, false)
									st.sum.Sources[i].Origin = s.Out[k]
								}
								n := len(st.tlocs)
								// the pointee of the argument
								if la, ok := locOf(st.fn, args[k]); ok {
									if st.tlocs[la] == nil {
										st.tlocs[la] = w
									}
									st.tstores[la] = appendUnique(st.tstores[la], x)
									if pk := visParam(st.fn, la); pk >= 0 && st.sum.Out[pk] == nil {
										st.sum.Out[pk] = w
										st.leak(w, "forwarded to the caller through '"+st.locKey(la)+"'")
									}
								}
								if len(st.tlocs) != n {
									changed = true
								}
							}
						}
					}
					if st.o.SinkCall != nil {
						for k, a := range x.Call.Args {
							if st.o.SinkCall(x, k) {
								if w := st.taintOf(a, x); w != nil {
									st.leak(w, "reaches the encoder unsorted")
								}
							}
						}
					}
				}
			}
		}
	}
}

// deriveLoops: a loop that walks a map-ordered slice is itself order-carrying.
func (st *fnState) deriveLoops() {
	for _, l := range st.loops {
		if _, ok := st.ordered[l]; ok {
			continue
		}
		for b := range l.Blocks {
			for _, in := range b.Instrs {
				if ia, ok := in.(*ssa.IndexAddr); ok {
					if w := st.taintOf(ia.X, ia); w != nil {
						st.ordered[l] = "a loop over a map-ordered slice"
					}
				}
				if ix, ok := in.(*ssa.Index); ok {
					if w := st.taintOf(ix.X, ix); w != nil {
						st.ordered[l] = "a loop over a map-ordered slice"
					}
				}
			}
		}
	}
}

// threadAndAccum computes Thread[k] and Accum[k] (independent of map order).
func (st *fnState) threadAndAccum() {
	fn := st.fn
	// Thread: a result is parameter k grown by append
	for _, b := range fn.Blocks {
		for _, in := range b.Instrs {
			r, ok := in.(*ssa.Return)
			if !ok {
				continue
			}
			for _, res := range r.Results {
				if _, ok := res.Type().Underlying().(*types.Slice); !ok {
					continue
				}
				sawAppend := false
				chainBack(res, st, func(v ssa.Value) bool {
					if c, ok := v.(*ssa.Call); ok {
						if _, ok := st.appendLike(c); ok {
							sawAppend = true
						}
					}
					if k := paramIndex(fn, v); k >= 0 && sawAppend {
						st.sum.Thread[k] = true
					}
					return false
				})
			}
		}
	}
	// Accum
	ssau.AllInstrs(fn, func(in ssa.Instruction) {
		// self-append into state behind a parameter
		if acc, ok := st.appendLike(in); ok {
			call := in.(*ssa.Call)
			if ld, ok := StripAll(acc).(*ssa.UnOp); ok {
				if la, ok := locOf(fn, ld.X); ok {
					if k := visParam(fn, la); k >= 0 && la.path != "" {
						for _, r := range ssau.Refs(call) {
							if s, ok := r.(*ssa.Store); ok && s.Val == call {
								if sa, ok := locOf(fn, s.Addr); ok && sa == la && st.sum.Accum[k] == nil {
									st.sum.Accum[k] = &Witness{At: in, Why: "appends to " + st.locKey(la)}
								}
							}
						}
					}
				}
			}
			return
		}
		c, ok := in.(ssa.CallInstruction)
		if !ok {
			return
		}
		if obj := writerObject(c); obj != nil {
			if la, ok := locOf(fn, obj); ok {
				if k := visParam(fn, la); k >= 0 && st.sum.Accum[k] == nil {
					st.sum.Accum[k] = &Witness{At: in, Why: "writes bytes to " + st.locKey(la)}
				}
			}
			return
		}
		args := callArgs(c)
		// passing state behind a parameter as an io.Writer to anyone
		sig := c.Common().Signature()
		for i, a := range c.Common().Args {
			var pt types.Type
			if sig != nil {
				off := 0
				if !c.Common().IsInvoke() && sig.Recv() != nil {
					off = 1
				}
				j := i - off
				if j >= 0 && j < sig.Params().Len() {
					pt = sig.Params().At(j).Type()
				}
			}
			if pt != nil && isWriterIface(pt) {
				if la, ok := locOf(fn, a); ok {
					if k := visParam(fn, la); k >= 0 && st.sum.Accum[k] == nil {
						st.sum.Accum[k] = &Witness{At: in, Why: "hands " + st.locKey(la) + " to a callee as io.Writer"}
					}
				}
			}
		}
		for _, s := range st.o.calleeSummaries(c) {
			var ks []int
			for k := range s.Accum {
				ks = append(ks, k)
			}
			sort.Ints(ks)
			for _, k := range ks {
				if k >= len(args) {
					continue
				}
				if la, ok := locOf(fn, args[k]); ok {
					if pk := visParam(fn, la); pk >= 0 && st.sum.Accum[pk] == nil {
						st.sum.Accum[pk] = &Witness{At: in, Why: "callee accumulates into " + st.locKey(la) + " (" + s.Accum[k].Why + ")"}
					}
				}
			}
		}
	})
}

// outAtExit: a location behind a caller-visible parameter that is still map-ordered when the function returns.
func (st *fnState) outAtExit() {
	var locs []loc
	for l := range st.tlocs {
		locs = append(locs, l)
	}
	sort.Slice(locs, func(i, j int) bool {
		if locs[i].root.Name() != locs[j].root.Name() {
			return locs[i].root.Name() < locs[j].root.Name()
		}
		return locs[i].path < locs[j].path
	})
	for _, l := range locs {
		k := visParam(st.fn, l)
		if k < 0 || l.path == "" {
			continue
		}
		w := st.tlocs[l]
		still := false
		for _, b := range st.fn.Blocks {
			if len(b.Instrs) == 0 {
				continue
			}
			if r, ok := b.Instrs[len(b.Instrs)-1].(*ssa.Return); ok {
				if st.killedLoc(l, r) {
					st.markSorted(w)
				} else {
					still = true
				}
			}
		}
		if still {
			if st.sum.Out[k] == nil {
				st.sum.Out[k] = w
			}
			st.leak(w, "stored unsorted into '"+st.locKey(l)+"', which the caller sees")
		}
	}
}

func (st *fnState) finish() {
	st.outAtExit()
	sort.SliceStable(st.sum.Sources, func(i, j int) bool {
		return st.sum.Sources[i].At.Pos() < st.sum.Sources[j].At.Pos()
	})
}
